import Sekai.Model.Gov
import Sekai.Model.Perm
import Sekai.Model.Mint
import Sekai.Model.Stake
import Sekai.Gen.Panics
import SekaiProofs.Lemmas.Gov
import Sekai.Gen.App
import Sekai.Model.App
/-! # C06 — No reachable state or block can halt the chain  (partial: Go panics are a runtime notion)

What a Lean model can carry: (1) the set of places that can panic inside block processing — explicit `panic`,
`Must*`, `Coins.Sub`, `NewCoin` on computed amounts, `Quo` and integer division by non-constants — extracted by a
typed call-graph pass from the CURRENT source and pinned here (`panic_sites_as_reviewed`): a new panic in an
EndBlocker, or a removed guard that changes a site's expression, re-opens the obligation; (2) for the sites whose
function is modelled, the exact condition under which the model takes the panic branch, and a closed history that
reaches it where the condition is reachable (recorded findings); (3) the dynamic search: real blocks with `recover`
around every ABCI call. Nil dereferences and index panics that are not syntactically visible are reachable only
through (3). -/
namespace Sekai.Props.C06
open Sekai

/-! ## the gov EndBlocker: panics exactly when a proposal record is missing or IsQuorum errs -/

/-- processProposal takes the panic branch iff the queued proposal does not exist, or it is due and IsQuorum returns an
error: more votes than eligible voters, or a quorum above 1 -/
theorem gov_tally_panics_iff (voters : Nat → List Nat) (tally : Nat → Nat → Nat → Nat → Nat → Nat → Gov.Tally)
    (quorum : Dec.D) (meb t h : Nat) (s : Gov.St) (id : Nat) :
    Gov.processProposal voters tally quorum meb t h s id = none ↔
      Gov.getP s id = none ∨
      ∃ p, Gov.getP s id = some p ∧ ¬ p.votingEnd > t ∧ ¬ p.minVoteH > h ∧
        ((s.votes.filter (·.pid == id)).length > (voters p.votePerm).length ∨ quorum > Dec.one) := by
  unfold Gov.processProposal
  cases hp : Gov.getP s id with
  | none => simp
  | some p =>
    simp only [reduceCtorEq, false_or, Option.some.injEq, exists_eq_left']
    by_cases hE : p.votingEnd > t
    · simp [hE]
    · by_cases hH : p.minVoteH > h
      · simp [hE, hH]
      · simp only [hE, hH, if_false, not_false_eq_true, true_and]
        unfold Gov.isQuorum
        by_cases h1 : (s.votes.filter (·.pid == id)).length > (voters p.votePerm).length
        · simp [h1]
        · by_cases h2 : quorum > Dec.one
          · simp [h1, h2]
          · simp [h1, h2]

/-- the enactment step panics only when the queued proposal does not exist -/
theorem gov_enact_panics_iff (applyOk : Nat → Bool) (t h : Nat) (s : Gov.St) (id : Nat) :
    Gov.processEnactment applyOk t h s id = none ↔ Gov.getP s id = none := by
  unfold Gov.processEnactment
  cases hp : Gov.getP s id with
  | none => simp
  | some p =>
    simp only [reduceCtorEq, iff_false]
    by_cases hE : p.enactEnd > t
    · simp [hE]
    · by_cases hH : p.minEnactH > h
      · simp [hE, hH]
      · simp [hE, hH]

/-- finding: a voter who loses the vote permission after voting makes the tally see more votes than voters:
submit, vote (voter 3 holds permission 7), permission removed, voting end ⇒ the EndBlocker panics -/
theorem voter_loses_permission_counterexample :
    let P0 := ([Perm.Op.wlAcct 3 7].foldl Perm.apply ({} : Perm.St))
    let g0 := Gov.submit {} 7 1 100 1 300 300 2 1
    let g1 := (Gov.vote g0 (P0.actors 3).isSome (fun p => Perm.checkAllowed P0 3 p) 1 3 1 150).getD g0
    let P1 := Perm.apply P0 (.rmWlAcct 3 7)
    g1.votes.length = 1 ∧
    Gov.endBlock (Perm.voters P1) (fun _ _ _ _ _ _ => .passed) (fun _ => true) 333333333333333333 1 500 5 g1 = none := by
  decide +kernel

/-! ## the UBI proposal handler: integer division by the period -/

/-- the handler panics exactly when the proposed period or a stored period is zero -/
theorem ubi_upsert_panics_iff (records : List (Nat × Nat)) (amount period hardcap : Nat) :
    Mint.ubiUpsert records amount period hardcap = none ↔ period = 0 ∨ ∃ r ∈ records, r.2 = 0 := by
  unfold Mint.ubiUpsert
  by_cases h : period = 0 ∨ records.any (fun r => r.2 == 0) = true
  · simp only [h, if_true, true_iff]
    rcases h with h | h
    · exact Or.inl h
    · right; simpa using h
  · simp only [h, if_false, reduceCtorEq, false_iff]
    intro hc
    apply h
    rcases hc with hc | hc
    · exact Or.inl hc
    · right; simpa using hc

/-! ## the staking EndBlocker: with distinct consensus keys the update list never fails to build; whether the consensus
engine accepts it is C05's subject -/

/-- the validator status machine never panics: every operation returns a state or a clean error -/
theorem stake_ops_total (p : Stake.Params) (s : Stake.S) (op : Stake.Op) : ∃ s', Stake.apply p s op = s' := ⟨_, rfl⟩

/-! ## the panic sites of the current source -/

def expectedSites : List (String × String × String × String) := [
  ("x/collectives/keeper/collective.go", "Keeper.SendDonation", "coins-sub", "donations.Sub"),
  ("x/collectives/keeper/collective.go", "Keeper.WithdrawCollective", "coins-sub", "sdk.Coins(collective.Bonds).Sub"),
  ("x/collectives/keeper/collective.go", "Keeper.WithdrawCollective", "coins-sub", "sdk.Coins(collective.Bonds).Sub(collectiveBonds...).Sub"),
  ("x/collectives/keeper/collective.go", "Keeper.WithdrawCollective", "must", "sdk.MustAccAddressFromBech32"),
  ("x/collectives/keeper/keeper.go", "calcPortion", "newcoin", "sdk.NewDecFromInt(coin.Amount).Mul(portion).RoundInt()"),
  ("x/distributor/keeper/abci.go", "Keeper.BeginBlocker", "panic", "err"),
  ("x/distributor/keeper/annual_inflation.go", "Keeper.InflationPossible", "intdiv", "month"),
  ("x/distributor/keeper/annual_inflation.go", "Keeper.InflationPossible", "quo", "sdk.NewDecFromInt(snapshot.SnapshotAmount)"),
  ("x/distributor/keeper/distributor.go", "Keeper.AllocateTokensToValidator", "panic", "err"),
  ("x/distributor/keeper/distributor.go", "Keeper.AllocateTokensToValidator", "panic", "err"),
  ("x/distributor/keeper/distributor.go", "Keeper.AllocateTokensToValidator", "panic", "err"),
  ("x/distributor/keeper/distributor.go", "Keeper.AllocateTokens", "coins-sub", "feesAccBalance.Sub"),
  ("x/distributor/keeper/distributor.go", "Keeper.AllocateTokens", "newcoin", "inflationCommissionReward"),
  ("x/distributor/keeper/distributor.go", "Keeper.AllocateTokens", "newcoin", "inflationPoolReward"),
  ("x/distributor/keeper/distributor.go", "Keeper.AllocateTokens", "newcoin", "inflationRewards"),
  ("x/distributor/keeper/distributor.go", "Keeper.AllocateTokens", "newcoin", "poolReward"),
  ("x/distributor/keeper/distributor.go", "Keeper.AllocateTokens", "newcoin", "valReward"),
  ("x/distributor/keeper/distributor.go", "Keeper.AllocateTokens", "panic", "err"),
  ("x/distributor/keeper/distributor.go", "Keeper.AllocateTokens", "panic", "err"),
  ("x/distributor/keeper/distributor.go", "Keeper.AllocateTokens", "quo", "sdk.NewDec(int64(properties.InflationPeriod))"),
  ("x/distributor/keeper/distributor.go", "Keeper.AllocateTokens", "quo", "sdk.NewInt(snapPeriod)"),
  ("x/distributor/keeper/distributor.go", "Keeper.AllocateTokens", "quo", "sdk.NewInt(snapPeriod)"),
  ("x/distributor/keeper/distributor.go", "Keeper.GetPreviousProposerConsAddr", "panic", "\"previous proposer not set\""),
  ("x/distributor/keeper/store.go", "Keeper.GetFeesTreasury", "panic", "err"),
  ("x/evidence/keeper/infraction.go", "Keeper.HandleEquivocationEvidence", "panic", "fmt.Sprintf(\"expected signing info for validator %s but not "),
  ("x/evidence/keeper/keeper.go", "Keeper.MustMarshalEvidence", "panic", "fmt.Errorf(\"failed to encode evidence: %w\", err)"),
  ("x/evidence/keeper/keeper.go", "Keeper.SetEvidence", "must", "k.MustMarshalEvidence"),
  ("x/evidence/types/evidence.go", "Equivocation.Hash", "panic", "err"),
  ("x/evidence/types/evidence.go", "FromABCIEvidence", "panic", "err"),
  ("x/feeprocessing/keeper/keeper.go", "Keeper.ProcessExecutionFeeReturn", "newcoin", "amount"),
  ("x/feeprocessing/keeper/keeper.go", "Keeper.ProcessExecutionFeeReturn", "panic", "err"),
  ("x/feeprocessing/keeper/keeper.go", "Keeper.SendCoinsFromModuleToAccount", "coins-sub", "recipientSentCoins.Sub"),
  ("x/feeprocessing/keeper/keeper.go", "Keeper.SendCoinsFromModuleToAccount", "newcoin", "coinAmt.Int64()"),
  ("x/gov/abci.go", "processEnactmentProposal", "panic", "\"proposal was expected to exist\""),
  ("x/gov/abci.go", "processPoll", "panic", "err"),
  ("x/gov/abci.go", "processPoll", "panic", "fmt.Sprintf(\"Invalid quorum on proposal: pollID=%d, err=%+v\""),
  ("x/gov/abci.go", "processProposal", "panic", "\"proposal was expected to exist\""),
  ("x/gov/abci.go", "processProposal", "panic", "fmt.Sprintf(\"Invalid quorum on proposal: proposalID=%d, prop"),
  ("x/gov/keeper/identity_registrar.go", "ValidateIdentityRecordKey", "must", "regexp.MustCompile"),
  ("x/gov/keeper/network_actor.go", "Keeper.GetNetworkActorOrFail", "panic", "\"expected network actor not found\""),
  ("x/gov/keeper/permission_registry.go", "Keeper.SetRole", "panic", "err"),
  ("x/gov/keeper/proposal.go", "Keeper.GetAverageVotesSlash", "quo", "totalCount"),
  ("x/gov/keeper/util.go", "ValidateRoleSidKey", "must", "regexp.MustCompile"),
  ("x/gov/types/poll_vote.go", "CalculatedPollVotes.ProcessResult", "quo", "sdk.NewDec(int64(c.actorsWithVeto))"),
  ("x/gov/types/router.go", "ProposalRouter.AllowedAddressesDynamicProposal", "panic", "\"invalid proposal type\""),
  ("x/gov/types/router.go", "ProposalRouter.ApplyProposal", "panic", "\"invalid proposal type\""),
  ("x/gov/types/router.go", "ProposalRouter.EnactmentPeriodDynamicProposal", "panic", "\"invalid proposal type\""),
  ("x/gov/types/router.go", "ProposalRouter.QuorumDynamicProposal", "panic", "\"invalid proposal type\""),
  ("x/gov/types/router.go", "ProposalRouter.VotePeriodDynamicProposal", "panic", "\"invalid proposal type\""),
  ("x/layer2/keeper/abci.go", "Keeper.EndBlocker", "must", "sdk.MustAccAddressFromBech32"),
  ("x/layer2/keeper/abci.go", "Keeper.EndBlocker", "newcoin", "dapp.Issuance.Premint"),
  ("x/layer2/keeper/abci.go", "Keeper.EndBlocker", "panic", "err"),
  ("x/layer2/keeper/abci.go", "Keeper.FinishDappBootstrap", "must", "sdk.MustAccAddressFromBech32"),
  ("x/layer2/keeper/abci.go", "Keeper.FinishDappBootstrap", "newcoin", "dapp.Issuance.Premint"),
  ("x/layer2/keeper/abci.go", "Keeper.FinishDappBootstrap", "newcoin", "spendingPoolDeposit"),
  ("x/layer2/keeper/abci.go", "Keeper.FinishDappBootstrap", "newcoin", "totalSupply"),
  ("x/layer2/keeper/abci.go", "Keeper.FinishDappBootstrap", "panic", "err"),
  ("x/layer2/keeper/abci.go", "Keeper.FinishDappBootstrap", "panic", "err"),
  ("x/layer2/keeper/abci.go", "Keeper.FinishDappBootstrap", "quo", "sdk.NewDec(int64(drip))"),
  ("x/layer2/keeper/dapp.go", "Keeper.ExecuteDappRemove", "must", "sdk.MustAccAddressFromBech32"),
  ("x/layer2/keeper/dapp_session.go", "Keeper.ResetNewSession", "intdiv", "len(executors)"),
  ("x/layer2/keeper/dapp_session.go", "Keeper.ResetNewSession", "must", "sdk.MustAccAddressFromBech32"),
  ("x/layer2/keeper/dapp_session.go", "Keeper.ResetNewSession", "newcoin", "operator.BondedLpAmount"),
  ("x/layer2/keeper/dapp_session.go", "Keeper.ResetNewSession", "panic", "err"),
  ("x/layer2/keeper/msg_server.go", "Keeper.GetCoinsFromBridgeBalance", "newcoin", "balance.Amount"),
  ("x/layer2/keeper/msg_server.go", "msgServer.MintBurnTx", "must", "sdk.MustAccAddressFromBech32"),
  ("x/layer2/keeper/msg_server.go", "msgServer.MintBurnTx", "newcoin", "msg.Amount"),
  ("x/layer2/keeper/msg_server.go", "msgServer.MintCreateFtTx", "must", "sdk.MustAccAddressFromBech32"),
  ("x/layer2/keeper/msg_server.go", "msgServer.MintCreateFtTx", "newcoin", "int64(properties.MintingFtFee)"),
  ("x/layer2/keeper/msg_server.go", "msgServer.MintCreateNftTx", "must", "sdk.MustAccAddressFromBech32"),
  ("x/layer2/keeper/msg_server.go", "msgServer.MintCreateNftTx", "newcoin", "int64(properties.MintingFtFee)"),
  ("x/layer2/keeper/msg_server.go", "msgServer.MintIssueTx", "must", "sdk.MustAccAddressFromBech32"),
  ("x/layer2/keeper/msg_server.go", "msgServer.MintIssueTx", "must", "sdk.MustAccAddressFromBech32"),
  ("x/layer2/keeper/msg_server.go", "msgServer.MintIssueTx", "newcoin", "fee"),
  ("x/layer2/keeper/msg_server.go", "msgServer.MintIssueTx", "newcoin", "msg.Amount"),
  ("x/layer2/keeper/msg_server.go", "msgServer.TransferDappTx", "must", "sdk.MustAccAddressFromBech32"),
  ("x/multistaking/keeper/delegation.go", "Keeper.ClaimRewardsFromModule", "panic", "err"),
  ("x/multistaking/keeper/delegation.go", "Keeper.ClaimRewards", "panic", "err"),
  ("x/multistaking/keeper/delegation.go", "Keeper.GetDelegatorRewards", "panic", "err"),
  ("x/multistaking/keeper/delegation.go", "Keeper.IncreasePoolRewards", "coins-sub", "rewards.Sub"),
  ("x/multistaking/keeper/delegation.go", "Keeper.IncreasePoolRewards", "newcoin", "reward.Amount.Mul(balance).Quo(shareToken.Amount)"),
  ("x/multistaking/keeper/delegation.go", "Keeper.IncreasePoolRewards", "newcoin", "sdk.NewDecFromInt(reward.Amount).Mul(rate.StakeCap).RoundInt()"),
  ("x/multistaking/keeper/delegation.go", "Keeper.IncreasePoolRewards", "panic", "err"),
  ("x/multistaking/keeper/delegation.go", "Keeper.IncreasePoolRewards", "panic", "err"),
  ("x/multistaking/keeper/delegation.go", "Keeper.IncreasePoolRewards", "quo", "shareToken.Amount"),
  ("x/multistaking/keeper/slash.go", "Keeper.SlashStakingPool", "coins-sub", "sdk.Coins(pool.TotalStakingTokens).Sub"),
  ("x/multistaking/keeper/slash.go", "Keeper.SlashStakingPool", "coins-sub", "totalSlashedTokens.Sub"),
  ("x/multistaking/keeper/slash.go", "Keeper.SlashStakingPool", "newcoin", "defaultDenomAmount"),
  ("x/multistaking/keeper/slash.go", "Keeper.SlashStakingPool", "newcoin", "sdk.NewDecFromInt(stakingToken.Amount).Mul(sdk.OneDec().Sub(pool.Slashed)).RoundInt()"),
  ("x/multistaking/keeper/slash.go", "Keeper.SlashStakingPool", "panic", "err"),
  ("x/multistaking/keeper/slash.go", "Keeper.SlashStakingPool", "panic", "err"),
  ("x/multistaking/keeper/slash.go", "Keeper.SlashStakingPool", "panic", "err"),
  ("x/multistaking/types/pool.go", "GetPoolCoins", "newcoin", "sdk.NewDecFromInt(coin.Amount).Mul(sdk.OneDec().Sub(pool.Slashed)).RoundInt()"),
  ("x/recovery/keeper/recovery.go", "Keeper.IncreaseRecoveryTokenUnderlying", "coins-sub", "amount.Sub"),
  ("x/recovery/keeper/recovery.go", "calcPortion", "newcoin", "coin.Amount.Mul(portion).Quo(supply)"),
  ("x/recovery/keeper/recovery.go", "calcPortion", "quo", "supply"),
  ("x/recovery/keeper/rewards.go", "Keeper.ClaimRewards", "panic", "err"),
  ("x/recovery/keeper/rewards.go", "Keeper.GetRRTokenHolderRewards", "panic", "err"),
  ("x/slashing/keeper/infractions.go", "Keeper.HandleValidatorSignature", "panic", "fmt.Sprintf(\"Expected signing info for validator %s but not "),
  ("x/slashing/keeper/infractions.go", "Keeper.HandleValidatorSignature", "panic", "fmt.Sprintf(\"Validator consensus-address %s not found: %s\", "),
  ("x/slashing/keeper/infractions.go", "Keeper.HandleValidatorSignature", "panic", "fmt.Sprintf(\"Validator not found by consensus-address: %s\", "),
  ("x/slashing/keeper/signing_info.go", "Keeper.IterateValidatorSigningInfos", "panic", "err"),
  ("x/slashing/keeper/signing_info.go", "Keeper.JailUntil", "panic", "\"cannot jail validator that does not have any signing inform"),
  ("x/spending/keeper/abci.go", "Keeper.EndBlocker", "must", "sdk.MustAccAddressFromBech32"),
  ("x/spending/keeper/abci.go", "Keeper.EndBlocker", "quo", "sdk.NewDec(int64(pool.DynamicRatePeriod)).Mul(totalWeight)"),
  ("x/spending/keeper/spending_pool.go", "Keeper.ClaimSpendingPool", "coins-sub", "sdk.Coins(pool.Balances).Sub"),
  ("x/spending/keeper/spending_pool.go", "Keeper.ClaimSpendingPool", "newcoin", "amount"),
  ("x/spending/proposal_handler.go", "ApplySpendingPoolWithdrawProposalHandler.Apply", "coins-sub", "sdk.Coins(pool.Balances).Sub"),
  ("x/spending/types/keys.go", "ValidateSpendingPoolName", "must", "regexp.MustCompile"),
  ("x/staking/keeper/val_state_change.go", "Keeper.BlockValidatorUpdates", "panic", "err"),
  ("x/staking/types/validator.go", "Validator.GetConsPubKey", "panic", "\"invalid key\""),
  ("x/ubi/keeper/ubi.go", "Keeper.ProcessUBIRecord", "newcoin", "amount"),
  ("x/ubi/proposal_handler.go", "ApplyUpsertUBIProposalHandler.Apply", "intdiv", "p.Period"),
  ("x/ubi/proposal_handler.go", "ApplyUpsertUBIProposalHandler.Apply", "intdiv", "p.Period"),
  ("x/ubi/proposal_handler.go", "ApplyUpsertUBIProposalHandler.Apply", "intdiv", "record.Period"),
  ("x/upgrade/keeper/plan.go", "Keeper.ApplyUpgradePlan", "panic", "err"),
  ("x/upgrade/keeper/plan.go", "Keeper.ApplyUpgradePlan", "panic", "fmt.Sprintf(\"Handler for \\\"%s\\\" instate upgrade is not set\","),
  ("x/upgrade/keeper/plan.go", "Keeper.ApplyUpgradePlan", "panic", "fmt.Sprintf(\"UPGRADE \\\"%s\\\" NEEDED at upgrade_time=%s\", plan"),
  ("x/upgrade/keeper/plan.go", "Keeper.SaveCurrentPlan", "panic", "err"),
  ("x/upgrade/keeper/plan.go", "Keeper.setNextPlan", "panic", "err")
]

/-- **the places that can panic inside BeginBlock / EndBlock / proposal enactment are exactly these** (typed call
graph from the module Begin/EndBlock methods, the Begin/EndBlocker functions and every proposal handler's Apply;
interface calls resolved by method name). Reviewed: the gov quorum panic, the spending-pool `Coins.Sub`, the
multistaking reward / slash panics, the layer2 EndBlocker panics and the UBI division are reachable and recorded as
findings (C06/C10/C13/C18/C20 keys); the `"… expected to exist"` panics are guarded by the queue invariant of C08
(`Inv.activePending`); the remaining sites are reached only through the dynamic search. -/
theorem panic_sites_as_reviewed : Sekai.Gen.Panics.sites = expectedSites := by decide +kernel

/-! ### Application wiring (table `Gen.App`) -/

/-- every module that appears in the Begin order appears in the End order and vice versa, each once (the module manager
panics at start-up otherwise), and the zero-gas-meter decorator is in the ante chain (no out-of-gas panics in blocks) -/
theorem block_wiring_complete :
    (Sekai.Gen.App.beginOrder.all (Sekai.App.once Sekai.Gen.App.endOrder) && Sekai.Gen.App.endOrder.all (Sekai.App.once Sekai.Gen.App.beginOrder) &&
     Sekai.App.once Sekai.Gen.App.anteChain "NewZeroGasMeterDecorator") = true := by decide +kernel

end Sekai.Props.C06
