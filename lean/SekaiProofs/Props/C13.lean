import Sekai.Model.Mint
import Sekai.Gen.BankFlows
import SekaiProofs.Lemmas.Dec
import Sekai.Gen.App
import Sekai.Model.App
import Sekai.Model.Ubi
import Sekai.Gen.Keys
import SekaiProofs.Lemmas.Keys
/-! # C13 — Monetary policy bounds: inflation, UBI and supply caps

* `inflation_bound`: block inflation never lifts supply above the period snapshot grown pro rata at the configured
  rate (+1 base unit of explicit Dec-rounding slack); `annual_gate`: nothing is minted once the annual gate is closed.
* UBI hard cap in real uint64 arithmetic: FALSE as coded (`ubi_hardcap_counterexample`, wrap-around), exact
  without wrap-around (`ubi_hardcap_partial`).
* UBI schedule: `ubi_once_per_period`.
* token registry: `supply_tracks_mints`, `supply_le_cap`, `owner_cannot_raise_cap`.
* `mint_burn_sites`: the mint / burn call sites of the current source are the expected ones (regenerated table). -/
namespace Sekai.Props.C13
open Sekai Sekai.Mint

/-! ## block inflation -/

/-- minted by one AllocateTokens call ≤ ⌊S₀·rate·Δ / (period·10^18)⌋ + 1 above the snapshot, i.e. supply never
rises above the snapshot grown pro rata (rate is the 10^18-scaled decimal), for all non-negative inputs -/
theorem target_le (snapAmt snapTime now : Int) (rate : Dec.D) (period : Int)
    (hs : 0 ≤ snapAmt) (hr : 0 ≤ rate) (ht : snapTime ≤ now) (hp : 0 < period) :
    targetSupply snapAmt snapTime now rate period ≤
      snapAmt + (snapAmt * rate * (now - snapTime)) / (period * Dec.P) + 1 := by
  unfold targetSupply
  rw [Dec.mul_ofInt_left, Dec.mul_ofInt_right]
  have hx : 0 ≤ snapAmt * rate * (now - snapTime) :=
    Int.mul_nonneg (Int.mul_nonneg hs hr) (by omega)
  have := Dec.truncInt_quo_ofInt_le (snapAmt * rate * (now - snapTime)) period hx hp
  omega

/-- **inflation never lifts supply above the period snapshot grown pro rata at the configured inflation rate** -/
theorem inflation_bound (ySnapAmt ySnapTime pSnapAmt pSnapTime supply now : Int) (maxAnnual rate : Dec.D) (period : Int)
    (hs : 0 ≤ pSnapAmt) (hr : 0 ≤ rate) (ht : pSnapTime ≤ now) (hp : 0 < period) :
    supply + inflationMint ySnapAmt ySnapTime pSnapAmt pSnapTime supply now maxAnnual rate period ≤
      max supply (pSnapAmt + (pSnapAmt * rate * (now - pSnapTime)) / (period * Dec.P) + 1) := by
  unfold inflationMint
  have hb := target_le pSnapAmt pSnapTime now rate period hs hr ht hp
  by_cases hposs : inflationPossible ySnapAmt ySnapTime supply now maxAnnual = true
  · simp only [hposs, Bool.not_true, Bool.false_eq_true, if_false]
    by_cases hgt : targetSupply pSnapAmt pSnapTime now rate period > supply
    · simp only [hgt, if_true]
      have : supply + (targetSupply pSnapAmt pSnapTime now rate period - supply) = targetSupply pSnapAmt pSnapTime now rate period := by omega
      rw [this]
      exact Int.le_trans hb (Int.le_max_right _ _)
    · simp only [hgt, if_false, Int.add_zero]; exact Int.le_max_left _ _
  · simp only [hposs, Bool.not_false, if_true, Int.add_zero]; exact Int.le_max_left _ _

/-- minting never lowers supply and the minted amount is never negative -/
theorem inflationMint_nonneg (ySnapAmt ySnapTime pSnapAmt pSnapTime supply now : Int) (maxAnnual rate : Dec.D) (period : Int) :
    0 ≤ inflationMint ySnapAmt ySnapTime pSnapAmt pSnapTime supply now maxAnnual rate period := by
  unfold inflationMint
  simp only
  split
  · omega
  · split <;> omega

/-- **no inflationary minting once the annual gate is closed** -/
theorem annual_gate (ySnapAmt ySnapTime pSnapAmt pSnapTime supply now : Int) (maxAnnual rate : Dec.D) (period : Int)
    (h : inflationPossible ySnapAmt ySnapTime supply now maxAnnual = false) :
    inflationMint ySnapAmt ySnapTime pSnapAmt pSnapTime supply now maxAnnual rate period = 0 := by
  unfold inflationMint; simp [h]

/-- what the gate tests: closed exactly when the supply has grown, relative to the year-start snapshot, by at least
the allowed annual maximum pro-rated by (started) months -/
theorem gate_closed_iff (snapAmt snapTime supply now : Int) (maxAnnual : Dec.D) (hs : snapAmt ≠ 0) :
    inflationPossible snapAmt snapTime supply now maxAnnual = false ↔
      Dec.quo (Dec.ofInt supply) (Dec.ofInt snapAmt) - Dec.one ≥
        Dec.quo (Dec.mul maxAnnual (Dec.ofInt (Int.tdiv (now - snapTime + month - 1) month))) (Dec.ofInt 12) := by
  unfold inflationPossible
  simp [hs]

example : inflationMint 0 0 1000000 100 1000000 (100 + 2629800) 0 (Dec.P / 10) 2629800 = 100000 := by decide +kernel
example : inflationPossible 1000000 0 1200000 86400 (Dec.P / 10) = false := by decide +kernel

/-! ## the inflation schedule over blocks -/

/-- **the stored supply snapshots are real**: each is the (block time, end-of-block supply) of a block the chain
produced — never a back-dated or forward-dated time paired with a supply sampled at another moment -/
def SnapReal (s : Infl) (log : List (Int × Int)) : Prop :=
  (s.pTime = 0 ∨ (s.pTime, s.pAmt) ∈ log) ∧ (s.yTime = 0 ∨ (s.yTime, s.yAmt) ∈ log)

theorem inflEnd_supply (c : InflCfg) (s : Infl) (now : Int) : (inflEnd c s now).supply = s.supply := by
  unfold inflEnd; simp only; split <;> split <;> rfl

theorem inflEnd_p (c : InflCfg) (s : Infl) (now : Int) :
    ((inflEnd c s now).pTime = s.pTime ∧ (inflEnd c s now).pAmt = s.pAmt) ∨
    ((inflEnd c s now).pTime = now ∧ (inflEnd c s now).pAmt = s.supply) := by
  unfold inflEnd; simp only
  split <;> split <;> simp

theorem inflEnd_y (c : InflCfg) (s : Infl) (now : Int) :
    ((inflEnd c s now).yTime = s.yTime ∧ (inflEnd c s now).yAmt = s.yAmt) ∨
    ((inflEnd c s now).yTime = now ∧ (inflEnd c s now).yAmt = s.supply) := by
  unfold inflEnd; simp only
  split <;> split <;> simp

theorem inflBegin_snap (c : InflCfg) (s : Infl) (now : Int) (f : Bool) :
    (inflBegin c s now f).pTime = s.pTime ∧ (inflBegin c s now f).pAmt = s.pAmt ∧
    (inflBegin c s now f).yTime = s.yTime ∧ (inflBegin c s now f).yAmt = s.yAmt := by
  unfold inflBegin; split <;> simp

theorem snapReal_block (c : InflCfg) (s : Infl) (log : List (Int × Int)) (now : Int) (f : Bool) (h : SnapReal s log) :
    SnapReal (inflBlock c s now f) ((now, (inflBlock c s now f).supply) :: log) := by
  unfold inflBlock
  have hb := inflBegin_snap c s now f
  have hsup := inflEnd_supply c (inflBegin c s now f) now
  constructor
  · rcases inflEnd_p c (inflBegin c s now f) now with ⟨h1, h2⟩ | ⟨h1, h2⟩
    · rcases h.1 with h0 | hm
      · left; rw [h1, hb.1]; exact h0
      · right; rw [h1, h2, hb.1, hb.2.1]; exact List.mem_cons_of_mem _ hm
    · right; rw [h1, h2, hsup]; exact List.mem_cons_self ..
  · rcases inflEnd_y c (inflBegin c s now f) now with ⟨h1, h2⟩ | ⟨h1, h2⟩
    · rcases h.2 with h0 | hm
      · left; rw [h1, hb.2.2.1]; exact h0
      · right; rw [h1, h2, hb.2.2.1, hb.2.2.2]; exact List.mem_cons_of_mem _ hm
    · right; rw [h1, h2, hsup]; exact List.mem_cons_self ..

/-- over every chain of blocks -/
theorem snapshots_real (c : InflCfg) (times : List Int) (s : Infl) (log : List (Int × Int)) (h : SnapReal s log) :
    SnapReal (inflRun c s log times).1 (inflRun c s log times).2 := by
  induction times generalizing s log with
  | nil => exact h
  | cons now rest ih =>
    simp only [inflRun]
    exact ih _ _ (snapReal_block c s log now false h)

/-- **one block's inflation never lifts supply above the stored period snapshot grown pro rata** -/
theorem block_supply_bound (c : InflCfg) (s : Infl) (now : Int)
    (hs : 0 ≤ s.pAmt) (hr : 0 ≤ c.rate) (ht : s.pTime ≤ now) (hp : 0 < c.period) :
    (inflBegin c s now false).supply ≤
      max s.supply (s.pAmt + (s.pAmt * c.rate * (now - s.pTime)) / (c.period * Dec.P) + 1) := by
  unfold inflBegin
  simp only [Bool.false_eq_true, if_false]
  exact inflation_bound s.yAmt s.yTime s.pAmt s.pTime s.supply now c.maxAnnual c.rate c.period hs hr ht hp

/-- **… and that snapshot is the supply the chain really had at the end of an earlier block**: after any chain of
blocks, the next block's inflation leaves supply at most at the supply of some earlier block end `(t, a)` grown pro
rata over the time since `t` (or no period snapshot exists yet) -/
theorem supply_le_real_snapshot_grown (c : InflCfg) (times : List Int) (s0 : Infl) (now : Int)
    (hr : 0 ≤ c.rate) (hp : 0 < c.period)
    (hs : let s := (inflRun c s0 [] times).1; 0 ≤ s.pAmt ∧ s.pTime ≤ now)
    (h0 : s0.pTime = 0 ∧ s0.yTime = 0) :
    let s := (inflRun c s0 [] times).1
    let log := (inflRun c s0 [] times).2
    s.pTime = 0 ∨ ∃ ta ∈ log, (inflBegin c s now false).supply ≤
      max s.supply (ta.2 + (ta.2 * c.rate * (now - ta.1)) / (c.period * Dec.P) + 1) := by
  intro s log
  have hreal := snapshots_real c times s0 [] ⟨Or.inl h0.1, Or.inl h0.2⟩
  rcases hreal.1 with hz | hm
  · exact Or.inl hz
  · exact Or.inr ⟨(s.pTime, s.pAmt), hm, block_supply_bound c s now hs.1 hr hs.2 hp⟩

/-- non-vacuity: two months of daily blocks from a 1 000 000 supply at 10 % per period: the period snapshot is
re-taken twice (day 32, day 63), each time with that block's own time -/
example :
    let r := inflRun ⟨Dec.P, Dec.P / 10, 2629800⟩ ⟨1000000, 0, 0, 0, 0⟩ [] ((List.range 70).map (fun (i : Nat) => (1700000000 : Int) + 86400 * ((i : Int) + 1)))
    (r.1.pTime, decide ((r.1.pTime, r.1.pAmt) ∈ r.2), decide (r.1.supply > 1000000)) = (1700000000 + 86400 * 63, true, true) := by
  decide +kernel

/-! ## UBI hard cap (uint64) -/

def exactTerm (ys amount period : Nat) : Nat := amount * ys / period
def exactSumFrom (ys : Nat) (records : List (Nat × Nat)) (acc : Nat) : Nat :=
  records.foldl (fun acc r => acc + exactTerm ys r.1 r.2) acc
/-- what the property asks for: the exact yearly total of all records stays within the cap -/
def exactOk (ys : Nat) (records : List (Nat × Nat)) (amount period hardcap : Nat) : Prop :=
  exactSumFrom ys records 0 + exactTerm ys amount period ≤ hardcap

theorem exactSum_mono (ys : Nat) (l : List (Nat × Nat)) (a : Nat) : a ≤ exactSumFrom ys l a := by
  induction l generalizing a with
  | nil => exact Nat.le_refl a
  | cons x xs ih =>
    simp only [exactSumFrom, List.foldl_cons]
    exact Nat.le_trans (Nat.le_add_right ..) (ih _)

theorem sum_exact (ys w : Nat) (records : List (Nat × Nat)) (acc : Nat)
    (hmul : ∀ r ∈ records, r.1 * ys < w) (hsum : exactSumFrom ys records acc < w) :
    ubiSumFrom ys w records acc = exactSumFrom ys records acc := by
  induction records generalizing acc with
  | nil => rfl
  | cons r rest ih =>
    simp only [ubiSumFrom, exactSumFrom, List.foldl_cons] at hsum ⊢
    have hr : r.1 * ys < w := hmul r (List.mem_cons_self ..)
    have hterm : term ys w r.1 r.2 = exactTerm ys r.1 r.2 := by
      unfold term exactTerm mul64; rw [Nat.mod_eq_of_lt hr]
    have hpre : acc + exactTerm ys r.1 r.2 < w := Nat.lt_of_le_of_lt (exactSum_mono ys rest _) hsum
    have hadd : add64 w acc (term ys w r.1 r.2) = acc + exactTerm ys r.1 r.2 := by
      unfold add64; rw [hterm, Nat.mod_eq_of_lt hpre]
    rw [hadd]
    exact ih _ (fun x hx => hmul x (List.mem_cons_of_mem _ hx)) hsum

/-- full statement of the property for the UBI test (FALSE on the current code, see the counterexample) -/
def ubi_hardcap_full : Prop :=
  ∀ (records : List (Nat × Nat)) (amount period hardcap : Nat),
    accept yearSeconds word records amount period hardcap = true → exactOk yearSeconds records amount period hardcap

/-- partial: with no wrap-around anywhere the uint64 test is exactly the intended test -/
theorem ubi_hardcap_partial (ys w : Nat) (records : List (Nat × Nat)) (amount period hardcap : Nat)
    (hmul : ∀ r ∈ records, r.1 * ys < w) (ha : amount * ys < w)
    (hsum : exactSumFrom ys records 0 + exactTerm ys amount period < w) :
    accept ys w records amount period hardcap = true ↔ exactOk ys records amount period hardcap := by
  unfold accept exactOk
  have h1 := sum_exact ys w records 0 hmul (Nat.lt_of_le_of_lt (Nat.le_add_right ..) hsum)
  have hterm : term ys w amount period = exactTerm ys amount period := by
    unfold term exactTerm mul64; rw [Nat.mod_eq_of_lt ha]
  rw [h1, hterm]
  unfold add64; rw [Nat.mod_eq_of_lt hsum]
  simp

theorem exactSum_acc (ys : Nat) (l : List (Nat × Nat)) (a : Nat) :
    exactSumFrom ys l a = a + exactSumFrom ys l 0 := by
  induction l generalizing a with
  | nil => simp [exactSumFrom]
  | cons x xs ih =>
    simp only [exactSumFrom, List.foldl_cons] at ih ⊢
    rw [ih (a + exactTerm ys x.1 x.2), ih (0 + exactTerm ys x.1 x.2)]
    omega

theorem exactSum_cons (ys : Nat) (x : Nat × Nat) (l : List (Nat × Nat)) :
    exactSumFrom ys (x :: l) 0 = exactTerm ys x.1 x.2 + exactSumFrom ys l 0 := by
  have := exactSum_acc ys l (0 + exactTerm ys x.1 x.2)
  simp only [exactSumFrom, List.foldl_cons] at this ⊢
  omega

theorem exactSum_append (ys : Nat) (l : List (Nat × Nat)) (x : Nat × Nat) :
    exactSumFrom ys (l ++ [x]) 0 = exactSumFrom ys l 0 + exactTerm ys x.1 x.2 := by
  simp [exactSumFrom, List.foldl_append]

theorem exactSum_set_le (ys : Nat) (l : List (Nat × Nat)) (j : Nat) (x : Nat × Nat) :
    exactSumFrom ys (l.set j x) 0 ≤ exactSumFrom ys l 0 + exactTerm ys x.1 x.2 := by
  induction l generalizing j with
  | nil => simp [exactSumFrom]
  | cons y ys' ih =>
    cases j with
    | zero =>
      rw [List.set_cons_zero, exactSum_cons, exactSum_cons]; omega
    | succ j =>
      rw [List.set_cons_succ, exactSum_cons, exactSum_cons]
      have := ih j; omega

/-- **after every accepted upsert — under a new name or replacing a stored record — the exact yearly total of the
stored records is within the cap**, when no uint64 wrap-around occurs (the replaced record is counted too, which
only makes the test stricter) -/
theorem ubi_state_within_cap_partial (records : List (Nat × Nat)) (replace : Option Nat)
    (amount period hardcap : Nat) (rs' : List (Nat × Nat))
    (hmul : ∀ r ∈ records, r.1 * yearSeconds < word) (ha : amount * yearSeconds < word)
    (hsum : exactSumFrom yearSeconds records 0 + exactTerm yearSeconds amount period < word)
    (h : ubiApply records replace amount period hardcap = some (some rs')) :
    exactSumFrom yearSeconds rs' 0 ≤ hardcap := by
  unfold ubiApply ubiUpsert at h
  by_cases hz : period = 0 ∨ records.any (fun r => r.2 == 0) = true
  · rw [if_pos hz] at h; simp at h
  · rw [if_neg hz] at h
    cases hacc : accept yearSeconds word records amount period hardcap with
    | false => simp [hacc] at h
    | true =>
      have hok := (ubi_hardcap_partial yearSeconds word records amount period hardcap hmul ha hsum).mp hacc
      unfold exactOk at hok
      simp only [hacc] at h
      have happ : exactSumFrom yearSeconds (records ++ [(amount, period)]) 0 ≤ hardcap := by
        rw [exactSum_append]; exact hok
      cases replace with
      | none =>
        simp only [Option.some.injEq] at h; subst h; exact happ
      | some j =>
        by_cases hj : j < records.length
        · simp only [hj, if_true, Option.some.injEq] at h; subst h
          exact Nat.le_trans (exactSum_set_le yearSeconds records j (amount, period)) hok
        · simp only [hj, if_false, Option.some.injEq] at h; subst h; exact happ

example : ubiApply [(500000, 2592000), (100, 31556952)] (some 1) 200 31556952 7000000
    = some (some [(500000, 2592000), (200, 31556952)]) := by decide

/-- the full statement is false: 584 554 049 254 KEX per year is accepted under a 7 M cap (uint64 wrap-around);
this witness is replayed on the real handler by the harness -/
theorem ubi_hardcap_counterexample : ¬ ubi_hardcap_full := by
  intro h
  have := h [] 584554049254 31556952 7000000 (by decide)
  unfold exactOk exactSumFrom exactTerm yearSeconds at this
  simp at this

example : accept yearSeconds word [(500000, 2592000)] 100 31556952 7000000 = true := by decide

/-! ## UBI schedule -/

/-- **a record pays at most once per period**: if it paid at `t1` it cannot pay at a later `t2` within `period` -/
theorem ubi_once_per_period (r : UbiRec) (t1 t2 : Nat) (h1 : (ubiStep r t1).2 ≠ 0)
    (h2 : t2 ≤ t1 + r.period) : (ubiStep (ubiStep r t1).1 t2).2 = 0 := by
  unfold ubiStep at h1 ⊢
  by_cases hd : ubiDue r t1 = true
  · simp only [hd, if_true]
    have : ubiDue { r with last := t1 } t2 = false := by
      unfold ubiDue
      have : ¬ (t2 > t1 + r.period) := by omega
      simp [this]
    simp [this]
  · simp [hd] at h1

/-- a payout is exactly the record's amount (in base units) -/
theorem ubi_payout_amount (r : UbiRec) (t : Nat) : (ubiStep r t).2 = 0 ∨ (ubiStep r t).2 = r.amount * 1000000 := by
  unfold ubiStep; split <;> simp

example : (ubiStep ⟨500000, 2592000, 0, 0⟩ 2592001).2 = 500000000000 := by decide

/-! ## token registry -/

/-- **a token's recorded supply grows by exactly what is minted through the registry** (and so does the bank supply) -/
theorem supply_tracks_mints (t t' : TokenInfo) (bank bank' amt : Int) (h : registryMint t bank amt = some (t', bank')) :
    t'.supply = t.supply + amt ∧ bank' = bank + amt ∧ t'.cap = t.cap := by
  unfold registryMint at h
  simp only at h
  split at h
  · cases h; exact ⟨rfl, rfl, rfl⟩
  · cases h

/-- **and never exceeds its supply cap** -/
theorem supply_le_cap (t t' : TokenInfo) (bank bank' amt : Int) (h : registryMint t bank amt = some (t', bank'))
    (hcap : 0 < t.cap) : t'.supply ≤ t'.cap := by
  unfold registryMint at h
  simp only at h
  split at h
  · rename_i hc
    cases h
    unfold capOk at hc
    simp only [Bool.not_eq_true', Bool.and_eq_false_iff, decide_eq_false_iff_not] at hc
    rcases hc with hc | hc
    · exact absurd hcap hc
    · simp only at hc ⊢; omega
  · cases h

/-- **an owner can never raise or remove a cap** -/
theorem owner_cannot_raise_cap (t t' : TokenInfo) (sender : Nat) (newCap : Int) (newOwner : Nat) (nd : Bool)
    (h : ownerEdit t sender newCap newOwner nd = some t') (hcap : t.cap ≠ 0) :
    t'.cap ≠ 0 ∧ t'.cap ≤ t.cap ∧ t'.supply = t.supply ∧ t.owner = sender ∧ t.ownerEditDisabled = false := by
  unfold ownerEdit at h
  split at h
  · cases h
  · rename_i h1
    split at h
    · cases h
    · split at h
      · cases h
      · rename_i h2
        simp only at h
        split at h
        · cases h
          simp only [not_or, Bool.not_eq_true, Decidable.not_not] at h1
          have h2' : ¬ (t.cap < newCap ∨ newCap = 0) := fun hx => h2 ⟨hcap, hx⟩
          simp only [not_or] at h2'
          refine ⟨h2'.2, by simp only; omega, rfl, h1.1, h1.2⟩
        · cases h

example : registryMint ⟨90, 100, 1, false⟩ 90 10 = some (⟨100, 100, 1, false⟩, 100) ∧ registryMint ⟨90, 100, 1, false⟩ 90 11 = none := by decide
example : ownerEdit ⟨90, 100, 1, false⟩ 1 95 1 false = some ⟨90, 95, 1, false⟩ ∧ ownerEdit ⟨90, 100, 1, false⟩ 1 0 1 false = none ∧
    ownerEdit ⟨90, 100, 1, false⟩ 1 101 1 false = none := by decide

/-! ## the mint and burn sites of the current source -/

def expectedMintBurn : List (String × String × String × String) := [
  ("app/test_helpers.go", "saveAccount", "app.BankKeeper.MintCoins", "minttypes.ModuleName | initCoins"),
  ("x/basket/keeper/mint_burn_swap.go", "Keeper.BurnBasketToken", "k.tk.BurnCoins", "types.ModuleName | burnCoins"),
  ("x/basket/keeper/mint_burn_swap.go", "Keeper.MintBasketToken", "k.tk.MintCoins", "types.ModuleName | basketCoins"),
  ("x/distributor/keeper/distributor.go", "Keeper.AllocateTokens", "k.tk.MintCoins", "minttypes.ModuleName | sdk.Coins{inflationCoin}"),
  ("x/layer2/keeper/abci.go", "Keeper.FinishDappBootstrap", "k.tk.MintCoins", "types.ModuleName | sdk.Coins{sdk.NewCoin(dappBondLpToken, totalSupply)}"),
  ("x/layer2/keeper/lp_swap_redeem_convert.go", "Keeper.OnCollectFee", "k.tk.BurnCoins", "types.ModuleName | fee"),
  ("x/layer2/keeper/msg_server.go", "msgServer.MintBurnTx", "k.keeper.tk.BurnCoins", "types.ModuleName | sdk.Coins{burnCoin}"),
  ("x/layer2/keeper/msg_server.go", "msgServer.MintCreateFtTx", "k.keeper.tk.BurnCoins", "types.ModuleName | sdk.Coins{fee}"),
  ("x/layer2/keeper/msg_server.go", "msgServer.MintCreateNftTx", "k.keeper.tk.BurnCoins", "types.ModuleName | sdk.Coins{fee}"),
  ("x/layer2/keeper/msg_server.go", "msgServer.MintIssueTx", "k.keeper.tk.MintCoins", "types.ModuleName | sdk.Coins{mintCoin}"),
  ("x/multistaking/keeper/delegation.go", "Keeper.Delegate", "k.tokenKeeper.MintCoins", "minttypes.ModuleName | poolCoins"),
  ("x/multistaking/keeper/delegation.go", "Keeper.Undelegate", "k.bankKeeper.BurnCoins", "types.ModuleName | poolCoins"),
  ("x/multistaking/keeper/slash.go", "Keeper.SlashStakingPool", "k.bankKeeper.BurnCoins", "types.ModuleName | burnAmount"),
  ("x/recovery/keeper/msg_server.go", "msgServer.BurnRecoveryTokens", "k.tk.BurnCoins", "types.ModuleName | sdk.NewCoins(msg.RrCoin)"),
  ("x/recovery/keeper/msg_server.go", "msgServer.IssueRecoveryTokens", "k.tk.MintCoins", "types.ModuleName | recoveryCoins"),
  ("x/tokens/keeper/burn.go", "Keeper.BurnCoins", "k.bankKeeper.BurnCoins", "moduleName | amt"),
  ("x/tokens/keeper/mint.go", "Keeper.MintCoins", "k.bankKeeper.MintCoins", "moduleName | amt"),
  ("x/ubi/keeper/ubi.go", "Keeper.ProcessUBIRecord", "k.tk.MintCoins", "minttypes.ModuleName | sdk.NewCoins(coin)")
]

/-- **coins are created and destroyed only at these call sites** (any new mint/burn call, or a changed module or
amount expression, re-opens this obligation). Of these, the native denomination can be minted by AllocateTokens
(inflation), ProcessUBIRecord (UBI) and — a recorded finding — layer2 MintIssueTx, whose denomination comes from
the message. -/
theorem mint_burn_sites : Sekai.Gen.BankFlows.mintBurn = expectedMintBurn := by decide +kernel

/-- **an accepted owner edit leaves the recorded supply within the (new) cap** — the cap bounds the supply after every
accepted write of the registry, not only after mints -/
theorem owner_edit_supply_within_cap (t t' : TokenInfo) (sender : Nat) (newCap : Int) (newOwner : Nat) (nd : Bool)
    (h : ownerEdit t sender newCap newOwner nd = some t') (hcap : 0 < t'.cap) : t'.supply ≤ t'.cap := by
  unfold ownerEdit at h
  split at h
  · cases h
  · split at h
    · cases h
    · split at h
      · cases h
      · simp only at h
        split at h
        · rename_i hc
          cases h
          unfold capOk at hc
          simp only [Bool.not_eq_true', Bool.and_eq_false_iff, decide_eq_false_iff_not] at hc
          rcases hc with hc | hc
          · exact absurd hcap hc
          · simp only at hc ⊢; omega
        · cases h

example : ownerEdit ⟨800, 1000, 3, false⟩ 3 500 3 false = none := by decide
/-- a message without a supply cap (coded as a negative one) cannot lift the cap of a capped token -/
example : ownerEdit ⟨800, 1000, 3, false⟩ 3 (-1) 3 false = none := by decide
example : (ownerEdit ⟨800, 1000, 3, false⟩ 3 900 3 false).isSome = true := by decide

/-! ### UBI behind the annual gate, record by record (`Ubi.endLoop`) -/
section UbiGate
open Sekai.Ubi

/-- with the gate closed a record is neither paid nor marked as paid -/
theorem processRec_closed (s : State) (r : Rec) (now : Nat) : processRec s r now false = .ok (s, 0) := by
  simp [processRec]

/-- **the annual gate is consulted for every record, against what the block has already minted**: in the list of this
block's payouts every payout was made while the amount minted before it (by the earlier payouts of the same block, on top
of `minted`) was still below the room the gate leaves - once the room is used up no further record is paid. -/
theorem payouts_within_room (now : Nat) (room : Nat) (recs : List Rec) :
    ∀ (minted : Nat) (s s' : State) (l : List (Nat × Nat)),
      endLoop now (some room) minted recs s = some (s', l) →
      ∀ (pre : List (Nat × Nat)) (x : Nat × Nat) (post : List (Nat × Nat)), l = pre ++ x :: post →
        minted + (pre.map (·.2)).sum < room := by
  induction recs with
  | nil =>
    intro minted s s' l h pre x post hl
    simp [endLoop] at h
    obtain ⟨_, rfl⟩ := h
    simp at hl
  | cons r rest ih =>
    intro minted s s' l h pre x post hl
    unfold endLoop at h
    by_cases hd : due r now = true
    · simp only [hd, if_true] at h
      by_cases hg : gateOpen (some room) minted = true
      · -- gate open: the record may pay
        cases hp : processRec s r now (gateOpen (some room) minted) with
        | error e =>
          cases e with
          | panic => simp [hp] at h
          | err => simp only [hp] at h; exact ih minted s s' l h pre x post hl
        | ok res =>
          obtain ⟨s1, paid⟩ := res
          simp only [hp] at h
          cases hr : endLoop now (some room) (minted + paid) rest s1 with
          | none => simp [hr] at h
          | some res2 =>
            obtain ⟨s2, l2⟩ := res2
            simp only [hr, Option.some.injEq, Prod.mk.injEq] at h
            obtain ⟨_, hl2⟩ := h
            have hopen : minted < room := by simpa [gateOpen] using hg
            by_cases hz : paid = 0
            · simp only [hz, if_true] at hl2
              subst hl2
              have := ih (minted + paid) s1 s2 l2 hr pre x post hl
              simpa [hz] using this
            · simp only [hz, if_false] at hl2
              subst hl2
              cases pre with
              | nil => simpa using hopen
              | cons y pre' =>
                simp only [List.cons_append, List.cons.injEq] at hl
                obtain ⟨hy, hl'⟩ := hl
                have := ih (minted + paid) s1 s2 l2 hr pre' x post hl'
                subst hy
                simp only [List.map_cons, List.sum_cons]
                omega
      · -- gate closed: nothing is paid for this record, the loop goes on with the same amount
        have hg' : gateOpen (some room) minted = false := by simpa using hg
        rw [hg', processRec_closed] at h
        simp only [Nat.add_zero] at h
        cases hr : endLoop now (some room) minted rest s with
        | none => simp [hr] at h
        | some res2 =>
          obtain ⟨s2, l2⟩ := res2
          simp only [hr, if_true, Option.some.injEq, Prod.mk.injEq] at h
          obtain ⟨_, hl2⟩ := h
          subst hl2
          exact ih minted s s2 l2 hr pre x post hl
    · simp only [hd, Bool.false_eq_true, if_false] at h
      exact ih minted s s' l h pre x post hl

/-- two records due in one block, room for less than the first payout: the first is paid, the second is not -/
example :
    let r1 : Rec := { name := 1, start := 0, stop := 0, last := 0, amount := 7, period := 10, pool := 0, dynamic := false }
    let r2 : Rec := { name := 2, start := 0, stop := 0, last := 0, amount := 5, period := 10, pool := 0, dynamic := false }
    (gateOpen (some 3000000) 0, gateOpen (some 3000000) 7000000, gateOpen none 7000000, r1.amount + r2.amount) = (true, false, true, 12) := by decide
end UbiGate

/-! ### Application wiring (table `Gen.App`) -/

/-- the module accounts that may mint, and those that may burn -/
theorem minters_as_reviewed :
    Sekai.App.holders Sekai.Gen.App.maccPerms "authtypes.Minter" =
      ["baskettypes.ModuleName", "layer2types.ModuleName", "minttypes.ModuleName", "recoverytypes.ModuleName"] ∧
    Sekai.App.holders Sekai.Gen.App.maccPerms "authtypes.Burner" =
      ["baskettypes.ModuleName", "layer2types.ModuleName", "multistakingtypes.ModuleName", "recoverytypes.ModuleName"] := by
  decide +kernel

/-- every mint call site names a module account that holds the Minter permission (the two tokens-keeper wrappers pass
their caller's module on) — two regenerated tables checked against each other -/
theorem mint_sites_name_minters :
    ((Sekai.Gen.BankFlows.mintBurn.filter fun r => r.2.2.1.endsWith "MintCoins" && !r.1.startsWith "x/tokens/").all fun r =>
      (Sekai.App.holders Sekai.Gen.App.maccPerms "authtypes.Minter").contains (Sekai.App.siteModule r.1 r.2.2.2)) = true := by decide +kernel


/-- **a governance edit of a registered token leaves the registry's books alone**: whatever the proposal carries in its
supply and cap fields, an enacted `UpsertTokenInfos` proposal for an existing denomination keeps the recorded supply (so it
keeps equalling what was minted), the cap, the owner and the owner-edit switch -/
theorem gov_edit_keeps_registry_fields (t t' : TokenInfo) (ps pc : Int) (h : govEdit t ps pc = some t') : t' = t := by
  unfold govEdit at h
  split at h
  · cases h; rfl
  · cases h

/-- … hence a mint after the edit is still bounded by the cap as recorded before it -/
theorem mint_after_gov_edit_within_cap (t t1 t2 : TokenInfo) (ps pc bank amt : Int) (b2 : Int)
    (h1 : govEdit t ps pc = some t1) (h2 : registryMint t1 bank amt = some (t2, b2)) (hc : 0 < t.cap) :
    t2.supply = t.supply + amt ∧ t2.supply ≤ t.cap := by
  have e := gov_edit_keeps_registry_fields t t1 ps pc h1
  subst e
  unfold registryMint at h2
  simp only at h2
  split at h2
  · rename_i hok
    cases h2
    refine ⟨rfl, ?_⟩
    simp only [capOk, Bool.not_eq_true', Bool.and_eq_false_iff, decide_eq_false_iff_not] at hok
    rcases hok with hok | hok
    · exact absurd hc hok
    · exact Int.not_lt.mp hok
  · cases h2

example : govEdit ⟨900, 1000, 2, false⟩ 0 0 = some ⟨900, 1000, 2, false⟩ ∧
    registryMint ⟨900, 1000, 2, false⟩ 900 900 = none := by decide

/-! ### Key spaces of the stores this model keeps in separate maps (table `Gen.Keys`)

The model keeps each record kind of a module in a field of its own; the module keeps them in ONE store under byte prefixes.
No prefix extends another (checked on the regenerated table), so by `Sekai.Keys.keys_of_different_kinds_differ` a key of one
kind is never a key of another kind. -/

theorem distributor_key_spaces_disjoint : Sekai.Keys.disjoint Sekai.Gen.Keys.stores "distributor" = true := by decide +kernel

theorem ubi_key_spaces_disjoint : Sekai.Keys.disjoint Sekai.Gen.Keys.stores "ubi" = true := by decide +kernel

end Sekai.Props.C13
