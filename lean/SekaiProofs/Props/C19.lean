import Sekai.Model.NetProps
import Sekai.Gen.NetProps
/-! # C19 — Network properties are always valid and change exactly as requested

Theorems over the table REGENERATED from the Go source (`Sekai.Gen.NetProps`). The generic lemmas hold for
every parser and every guard; the per-run obligations (`decide` over the whole regenerated table) are the
ones a source change re-opens. -/
namespace Sekai.Props.C19
open Sekai.NetProps
open Sekai.Gen.NetProps (arms conds fieldNames)

/-! ## generic lemmas (all inputs, all records) -/

theorem execList_guards (parseDec : String → Option Int) (guardOk : String → Props → Nat → In → Bool)
    (i : In) (P P' : Props) (l : List Stmt)
    (h : execList parseDec guardOk i P l = some P') :
    execList parseDec guardOk i P (l.dropWhile isGuard) = some P' := by
  induction l generalizing P with
  | nil => simpa using h
  | cons s rest ih =>
    cases s with
    | guard name f =>
      simp only [List.dropWhile, isGuard]
      simp only [execList, execStmt] at h
      split at h
      · rename_i P1 h1
        split at h1
        · cases h1; exact ih _ h
        · cases h1
      · cases h
    | assign f e => simpa [List.dropWhile, isGuard] using h
    | ifThen c b => simpa [List.dropWhile, isGuard] using h
    | ifElse c a b => simpa [List.dropWhile, isGuard] using h
    | unrecognised => simpa [List.dropWhile, isGuard] using h

/-- read-back and frame for every arm of the simple shape, for all inputs and all starting records -/
theorem simple_correct (parseDec : String → Option Int) (guardOk : String → Props → Nat → In → Bool)
    (a : Arm) (hs : simple a = true) (i : In) (P P' : Props)
    (h : execList parseDec guardOk i P a.set = some P') :
    getVal P' a.get = requested parseDec i a.get ∧
    ∀ f, some f ≠ target a.get → P' f = P f := by
  have h' := execList_guards parseDec guardOk i P P' a.set h
  unfold simple at hs
  split at hs <;> simp_all [execList, execStmt, eval, getVal, requested, target]
  · subst h'; constructor
    · simp [upd]
    · intro f hf; simp [upd, hf]
  · subst h'; constructor
    · simp [upd]
    · intro f hf; simp [upd, hf]
  · subst h'; constructor
    · simp [upd]
    · intro f hf; simp [upd, hf]
  · obtain ⟨hf1, hf2⟩ := hs
    subst hf1; subst hf2
    by_cases hv : 0 < i.value
    · simp [hv, execList, execStmt, eval] at h'
      subst h'; constructor
      · have : i.value ≠ 0 := by omega
        simp [upd, this]
      · intro f hf; simp [upd, hf]
    · simp [hv, execList, execStmt, eval] at h'
      subst h'; constructor
      · have : i.value = 0 := by omega
        simp [upd, this]
      · intro f hf; simp [upd, hf]
  · cases hp : parseDec i.strValue with
    | none => simp [hp] at h'
    | some d =>
      simp [hp] at h'
      subst h'; constructor
      · simp [upd]
      · intro f hf; simp [upd, hf]

/-! ## obligations over the regenerated table (re-opened by any change of the Go switch arms) -/

/-- every arm extracted from the current source has the simple shape (no `unrecognised`, no arm that
writes a different field than it reads, no arm that ignores the request) -/
theorem all_arms_simple : (arms.filter (fun a => !simple a)).map (·.name) = [] := by decide

/-- no two identifiers write the same field -/
theorem targets_nodup : (arms.filterMap (fun a => target a.get)).Nodup := by decide

/-- no identifier has two arms -/
theorem ids_nodup : (arms.map (·.id)).Nodup := by decide

/-- the prologue/epilogue of the Go functions around the switch is the one the model mirrors:
read the stored record, run the arm, hand the record to `SetNetworkProperties`, which validates and
is the only store write -/
theorem set_shape : Sekai.Gen.NetProps.setShape =
    "properties := k.GetNetworkProperties(ctx) | <switch property> | return k.SetNetworkProperties(ctx, properties)" := by decide
theorem get_shape : Sekai.Gen.NetProps.getShape = "properties := k.GetNetworkProperties(ctx) | <switch property>" := by decide
theorem set_all_shape : Sekai.Gen.NetProps.setAllShape =
    "{ err := k.ValidateNetworkProperties(ctx, properties) if err != nil { return err } prefixStore := prefix.NewStore(ctx.KVStore(k.storeKey), types.KeyPrefixNetworkProperties) prefixStore.Set([]byte(\"property\"), k.cdc.MustMarshal(properties)) return nil }" := rfl

/-- the identifiers that have no arm at all (rejected by both switch defaults — consistent) -/
theorem ids_without_arm :
    ((Sekai.Gen.NetProps.enum.map (·.1)).filter (fun id => !(arms.map (·.id)).contains id)) = [40, 41, 42, 43, 44, 45, 48, 49] := by decide

/-! ## C19: read-back and frame, for every arm of the regenerated table -/

theorem read_back_frame (parseDec : String → Option Int) (guardOk : String → Props → Nat → In → Bool)
    (a : Arm) (ha : a ∈ arms)
    (i : In) (P P' : Props) (h : execList parseDec guardOk i P a.set = some P') :
    getVal P' a.get = requested parseDec i a.get ∧ ∀ f, some f ≠ target a.get → P' f = P f := by
  cases hs : simple a with
  | true => exact simple_correct parseDec guardOk a hs i P P' h
  | false =>
    exfalso
    have hmem : a ∈ arms.filter (fun a => !simple a) := by
      simp [List.mem_filter, ha, hs]
    have hid : a.name ∈ (arms.filter (fun a => !simple a)).map (·.name) := List.mem_map_of_mem hmem
    rw [all_arms_simple] at hid
    simp at hid

theorem find_mem {α} (p : α → Bool) (l : List α) (a : α) (h : l.find? p = some a) : a ∈ l :=
  List.mem_of_find?_eq_some h

/-- **Setting one property to a value makes exactly that property read back as that value** (as the
request means it for the property's kind) **and leaves every other field of the record unchanged;
the stored record validates.** For every identifier, every input, every starting record. -/
theorem set_reads_back_and_frames
    (parseDec : String → Option Int) (guardOk : String → Props → Nat → In → Bool)
    (opaqueSem : String → Props → Bool)
    (id : Nat) (i : In) (P P' : Props)
    (h : setProperty parseDec guardOk opaqueSem conds arms id i P = some P') :
    ∃ a ∈ arms, a.id = id ∧
      getProperty arms id P' = requested parseDec i a.get ∧
      (∀ f, some f ≠ target a.get → P' f = P f) ∧
      validate opaqueSem conds P' = true := by
  unfold setProperty at h
  split at h
  · cases h
  · rename_i a hfind
    have ha : a ∈ arms := find_mem _ _ _ hfind
    have hid : a.id = id := by
      have := List.find?_some hfind; simpa using this
    split at h
    · cases h
    · rename_i P1 hexec
      split at h
      · rename_i hv
        cases h
        obtain ⟨h1, h2⟩ := read_back_frame parseDec guardOk a ha i P _ hexec
        exact ⟨a, ha, hid, by simp [getProperty, hfind, h1], h2, hv⟩
      · cases h

theorem getVal_congr (P' P : Props) (g : GetExpr) (h : ∀ f, target g = some f → P' f = P f) :
    getVal P' g = getVal P g := by
  cases g <;> simp [getVal, target] at * <;> rw [h]

/-- other identifiers read the same before and after a successful set -/
theorem set_frames_other_ids
    (parseDec : String → Option Int) (guardOk : String → Props → Nat → In → Bool)
    (opaqueSem : String → Props → Bool)
    (id id' : Nat) (hne : id' ≠ id) (i : In) (P P' : Props)
    (h : setProperty parseDec guardOk opaqueSem conds arms id i P = some P') :
    getProperty arms id' P' = getProperty arms id' P := by
  obtain ⟨a, ha, hid, _, hframe, _⟩ := set_reads_back_and_frames parseDec guardOk opaqueSem id i P P' h
  unfold getProperty
  cases hf : arms.find? (fun a => a.id == id') with
  | none => rfl
  | some b =>
    have hb : b ∈ arms := find_mem _ _ _ hf
    have hbid : b.id = id' := by have := List.find?_some hf; simpa using this
    -- targets differ because identifiers differ and targets are pairwise distinct
    have hab : a ≠ b := by intro e; subst e; omega
    have htd : ∀ f, target b.get = some f → target a.get ≠ some f := by
      intro f hbf haf
      have hnd := targets_nodup
      -- two distinct members of `arms` with the same target contradict Nodup of the filterMap
      have key : ∀ (l : List Arm), (l.filterMap (fun a => target a.get)).Nodup → a ∈ l → b ∈ l → a ≠ b →
          target a.get = some f → target b.get = some f → False := by
        intro l
        induction l with
        | nil => intro _ h; cases h
        | cons x xs ih =>
          intro hn hal hbl hne' ha' hb'
          simp only [List.filterMap_cons] at hn
          cases hx : target x.get with
          | none =>
            rw [hx] at hn
            have hax : a ≠ x := by intro e; rw [e] at ha'; rw [hx] at ha'; cases ha'
            have hbx : b ≠ x := by intro e; rw [e] at hb'; rw [hx] at hb'; cases hb'
            rcases List.mem_cons.mp hal with e | hal'
            · exact hax e
            rcases List.mem_cons.mp hbl with e | hbl'
            · exact hbx e
            exact ih hn hal' hbl' hne' ha' hb'
          | some g =>
            rw [hx] at hn
            have hn' := List.nodup_cons.mp hn
            rcases List.mem_cons.mp hal with e | hal'
            · rcases List.mem_cons.mp hbl with e2 | hbl'
              · exact hne' (e.trans e2.symm)
              · apply hn'.1
                rw [← e, ha'] at hx
                cases hx
                exact List.mem_filterMap.mpr ⟨b, hbl', hb'⟩
            · rcases List.mem_cons.mp hbl with e2 | hbl'
              · apply hn'.1
                rw [← e2, hb'] at hx
                cases hx
                exact List.mem_filterMap.mpr ⟨a, hal', ha'⟩
              · exact ih hn'.2 hal' hbl' hne' ha' hb'
      exact key arms hnd ha hb hab haf hbf
    -- now getVal only looks at the target field
    have hfr : ∀ f, target b.get = some f → P' f = P f := by
      intro f hbf
      exact hframe f (by intro e; exact htd f hbf e.symm)
    exact getVal_congr P' P b.get hfr

/-- the store transition of the message / proposal path: a rejected update leaves every value as it was -/
def applySet (parseDec : String → Option Int) (guardOk : String → Props → Nat → In → Bool)
    (opaqueSem : String → Props → Bool) (id : Nat) (i : In) (P : Props) : Props :=
  match setProperty parseDec guardOk opaqueSem conds arms id i P with
  | some P' => P'
  | none => P

theorem rejected_unchanged (parseDec guardOk opaqueSem) (id : Nat) (i : In) (P : Props)
    (h : setProperty parseDec guardOk opaqueSem conds arms id i P = none) :
    applySet parseDec guardOk opaqueSem id i P = P := by
  simp [applySet, h]

/-- **genesis path**: a chain starts from a genesis record only if the record is valid, and then stores exactly that
record; every later state reached by message / proposal updates is valid again (`stored_always_valid`). -/
theorem genesis_stores_valid_record_exactly (opaqueSem) (G P0 : Props)
    (h : genesisInit opaqueSem conds G = some P0) : P0 = G ∧ validate opaqueSem conds P0 = true := by
  unfold genesisInit at h
  by_cases hv : validate opaqueSem conds G = true
  · simp only [hv, if_true, Option.some.injEq] at h
    exact ⟨h.symm, h ▸ hv⟩
  · simp [hv] at h

theorem genesis_refuses_invalid (opaqueSem) (G : Props) (h : validate opaqueSem conds G = false) :
    genesisInit opaqueSem conds G = none := by
  simp [genesisInit, h]

/-- validity is an invariant of every sequence of single-property updates (message or proposal path):
the stored record always validates -/
theorem stored_always_valid (parseDec guardOk opaqueSem) (P0 : Props)
    (h0 : validate opaqueSem conds P0 = true) (ops : List (Nat × In)) :
    validate opaqueSem conds
      (ops.foldl (fun P op => applySet parseDec guardOk opaqueSem op.1 op.2 P) P0) = true := by
  induction ops generalizing P0 with
  | nil => simpa using h0
  | cons op rest ih =>
    simp only [List.foldl_cons]
    apply ih
    unfold applySet
    cases hs : setProperty parseDec guardOk opaqueSem conds arms op.1 op.2 P0 with
    | none => simpa using h0
    | some P' =>
      obtain ⟨_, _, _, _, _, hv⟩ := set_reads_back_and_frames parseDec guardOk opaqueSem op.1 op.2 P0 P' hs
      simpa using hv

/-- whichever path wrote them: from any genesis record the chain accepted, through any sequence of updates -/
theorem valid_on_every_path (parseDec guardOk opaqueSem) (G P0 : Props)
    (h : genesisInit opaqueSem conds G = some P0) (ops : List (Nat × In)) :
    validate opaqueSem conds
      (ops.foldl (fun P op => applySet parseDec guardOk opaqueSem op.1 op.2 P) P0) = true :=
  stored_always_valid parseDec guardOk opaqueSem P0 (genesis_stores_valid_record_exactly opaqueSem G P0 h).2 ops

/-! ## what "validates" means: the regenerated conditions imply the validity rules of the property -/

/-- the field numbers used below are the ones of the current `NetworkProperties` struct -/
theorem field_numbers :
    [fieldNames[0]?, fieldNames[1]?, fieldNames[2]?, fieldNames[3]?, fieldNames[4]?, fieldNames[5]?, fieldNames[6]?,
     fieldNames[8]?, fieldNames[9]?, fieldNames[11]?, fieldNames[12]?, fieldNames[13]?, fieldNames[14]?,
     fieldNames[18]?, fieldNames[20]?, fieldNames[21]?, fieldNames[22]?, fieldNames[23]?, fieldNames[26]?,
     fieldNames[27]?, fieldNames[28]?, fieldNames[39]?, fieldNames[59]?] =
    [some "MinTxFee", some "MaxTxFee", some "VoteQuorum", some "MinimumProposalEndTime", some "ProposalEnactmentTime",
     some "MinProposalEndBlocks", some "MinProposalEnactmentBlocks", some "MischanceRankDecreaseAmount", some "MaxMischance",
     some "InactiveRankDecreasePercent", some "MinValidators", some "PoorNetworkMaxBankSend", some "UnjailMaxTime",
     some "UniqueIdentityKeys", some "ValidatorsFeeShare", some "InflationRate", some "InflationPeriod",
     some "UnstakingPeriod", some "SlashingPeriod", some "MaxJailedPercentage", some "MaxSlashingPercentage",
     some "MaxAnnualInflation", some "VetoThreshold"] := by decide

def one : Int := 1000000000000000000

/-- the validity rules named by the property (required values non-zero, minimum not above maximum,
fractions within their ranges, period orderings), over a record -/
structure Valid (P : Props) : Prop where
  minFee : asNat (P 0) ≠ some 0
  maxFee : ∃ n m, P 0 = .u n ∧ P 1 = .u m ∧ m ≠ 0 ∧ n ≤ m
  quorum : ∃ x, P 2 = .d x ∧ 0 ≤ x ∧ x ≤ one
  veto : ∃ x, P 59 = .d x ∧ 0 ≤ x ∧ x ≤ one
  endTime : asNat (P 3) ≠ some 0
  enactTime : asNat (P 4) ≠ some 0
  endBlocks : asNat (P 5) ≠ some 0
  enactBlocks : asNat (P 6) ≠ some 0
  mischanceDec : asNat (P 8) ≠ some 0
  maxMischance : asNat (P 9) ≠ some 0
  inactiveDec : ∃ x, P 11 = .d x ∧ 0 ≤ x ∧ x ≤ one
  feeShare : ∃ x, P 20 = .d x ∧ 0 ≤ x ∧ 2 * x ≤ one
  inflation : ∃ x, P 21 = .d x ∧ 0 ≤ x ∧ 2 * x ≤ one
  jailed : ∃ x, P 27 = .d x ∧ 0 ≤ x ∧ x < 333333333333333333
  slashing : ∃ x, P 28 = .d x ∧ 0 ≤ x ∧ x ≤ one
  annual : ∃ x, P 39 = .d x ∧ 0 ≤ x
  minValidators : asNat (P 12) ≠ some 0
  poorSend : asNat (P 13) ≠ some 0
  inflPeriod : ∃ n, P 22 = .u n ∧ 2629800 ≤ n ∧ n ≤ 31557600
  periods : ∃ unst slash unjail, P 23 = .u unst ∧ P 26 = .u slash ∧ P 14 = .u unjail ∧
    604800 ≤ unst ∧ unst ≤ 31557600 ∧ unst ≤ slash ∧ 0 < slash ∧ unjail ≠ 0 ∧ unjail ≤ slash

theorem validate_mem (opaqueSem) (P : Props) (c : Cond) (hv : validate opaqueSem conds P = true)
    (hc : conds.contains c = true) : condHolds opaqueSem P c = false := by
  unfold validate at hv
  rw [List.all_eq_true] at hv
  have := hv c (by simpa using hc)
  simpa using this

theorem natCases (v : Val) : (∃ n, v = .u n) ∨ asNat v = none := by
  cases v <;> simp [asNat]
theorem decCases (v : Val) : (∃ n, v = .d n) ∨ asDec v = none := by
  cases v <;> simp [asDec]

theorem inv_eqZero {os} {P : Props} {f : Nat} (h : condHolds os P (.eqZero f) = false) : asNat (P f) ≠ some 0 := by
  simpa [condHolds] using h

theorem inv_decRange {os} {P : Props} {f : Nat} {l : Int}
    (h : condHolds os P (.or (.or (.decNil f) (.decNeg f)) (.decGT f l)) = false) :
    ∃ x, P f = .d x ∧ 0 ≤ x ∧ x ≤ l := by
  simp only [condHolds, Bool.or_eq_false_iff] at h
  rcases decCases (P f) with ⟨x, hx⟩ | hx
  · refine ⟨x, hx, ?_, ?_⟩ <;> simp [hx, asDec] at h <;> omega
  · simp [hx] at h

theorem inv_decNonneg {os} {P : Props} {f : Nat}
    (h : condHolds os P (.or (.decNil f) (.decNeg f)) = false) : ∃ x, P f = .d x ∧ 0 ≤ x := by
  simp only [condHolds, Bool.or_eq_false_iff] at h
  rcases decCases (P f) with ⟨x, hx⟩ | hx
  · refine ⟨x, hx, ?_⟩; simp [hx, asDec] at h; omega
  · simp [hx] at h

theorem inv_decGTE {os} {P : Props} {f : Nat} {l : Int}
    (h : condHolds os P (.decGTE f l) = false) : ∃ x, P f = .d x ∧ x < l := by
  simp only [condHolds] at h
  rcases decCases (P f) with ⟨x, hx⟩ | hx
  · refine ⟨x, hx, ?_⟩; simp [hx, asDec] at h; omega
  · simp [hx] at h

theorem inv_natRange {os} {P : Props} {f lo hi : Nat}
    (h : condHolds os P (.or (.ltConst f lo) (.gtConst f hi)) = false) : ∃ n, P f = .u n ∧ lo ≤ n ∧ n ≤ hi := by
  simp only [condHolds, Bool.or_eq_false_iff] at h
  rcases natCases (P f) with ⟨x, hx⟩ | hx
  · refine ⟨x, hx, ?_, ?_⟩ <;> simp [hx, asNat] at h <;> omega
  · simp [hx] at h

theorem inv_gtField {os} {P : Props} {a b : Nat}
    (h : condHolds os P (.gtField a b) = false) : ∃ x y, P a = .u x ∧ P b = .u y ∧ x ≤ y := by
  simp only [condHolds] at h
  rcases natCases (P a) with ⟨x, hx⟩ | hx <;> rcases natCases (P b) with ⟨y, hy⟩ | hy
  · refine ⟨x, y, hx, hy, ?_⟩; simp [hx, hy, asNat] at h; omega
  · rw [hx] at h; simp only [asNat] at h hy; rw [hy] at h; simp at h
  · simp [hx, hy] at h
  · simp [hx, hy] at h

theorem inv_ltField {os} {P : Props} {a b : Nat}
    (h : condHolds os P (.ltField a b) = false) : ∃ x y, P a = .u x ∧ P b = .u y ∧ y ≤ x := by
  simp only [condHolds] at h
  rcases natCases (P a) with ⟨x, hx⟩ | hx <;> rcases natCases (P b) with ⟨y, hy⟩ | hy
  · refine ⟨x, y, hx, hy, ?_⟩; simp [hx, hy, asNat] at h; omega
  · rw [hx] at h; simp only [asNat] at h hy; rw [hy] at h; simp at h
  · simp [hx, hy] at h
  · simp [hx, hy] at h

theorem inv_leConst0 {os} {P : Props} {f : Nat}
    (h : condHolds os P (.leConst f 0) = false) : ∃ x, P f = .u x ∧ 0 < x := by
  simp only [condHolds] at h
  rcases natCases (P f) with ⟨x, hx⟩ | hx
  · refine ⟨x, hx, ?_⟩; simp [hx, asNat] at h; omega
  · simp [hx] at h

/-- **whatever passes the validation regenerated from the current source satisfies the validity rules
of the property** (so dropping or weakening a condition in the Go function re-opens this proof) -/
theorem validate_implies_valid (opaqueSem) (P : Props) (hv : validate opaqueSem conds P = true) : Valid P := by
  have m := fun c hc => validate_mem opaqueSem P c hv hc
  refine ⟨?_, ?_, ?_, ?_, ?_, ?_, ?_, ?_, ?_, ?_, ?_, ?_, ?_, ?_, ?_, ?_, ?_, ?_, ?_, ?_⟩
  · exact inv_eqZero (m (.eqZero 0) (by decide))
  · obtain ⟨x, y, hx, hy, hle⟩ := inv_ltField (m (.ltField 1 0) (by decide))
    have h1 := inv_eqZero (m (.eqZero 1) (by decide))
    refine ⟨y, x, hy, hx, ?_, hle⟩
    intro e; subst e; simp [hx, asNat] at h1
  · simpa [one] using inv_decRange (m (.or (.or (.decNil 2) (.decNeg 2)) (.decGT 2 1000000000000000000)) (by decide))
  · simpa [one] using inv_decRange (m (.or (.or (.decNil 59) (.decNeg 59)) (.decGT 59 1000000000000000000)) (by decide))
  · exact inv_eqZero (m (.eqZero 3) (by decide))
  · exact inv_eqZero (m (.eqZero 4) (by decide))
  · exact inv_eqZero (m (.eqZero 5) (by decide))
  · exact inv_eqZero (m (.eqZero 6) (by decide))
  · exact inv_eqZero (m (.eqZero 8) (by decide))
  · exact inv_eqZero (m (.eqZero 9) (by decide))
  · simpa [one] using inv_decRange (m (.or (.or (.decNil 11) (.decNeg 11)) (.decGT 11 1000000000000000000)) (by decide))
  · obtain ⟨x, hx, h0, h1⟩ := inv_decRange (m (.or (.or (.decNil 20) (.decNeg 20)) (.decGT 20 500000000000000000)) (by decide))
    exact ⟨x, hx, h0, by unfold one; omega⟩
  · obtain ⟨x, hx, h0, h1⟩ := inv_decRange (m (.or (.or (.decNil 21) (.decNeg 21)) (.decGT 21 500000000000000000)) (by decide))
    exact ⟨x, hx, h0, by unfold one; omega⟩
  · obtain ⟨x, hx, h0, _⟩ := inv_decRange (m (.or (.or (.decNil 27) (.decNeg 27)) (.decGT 27 1000000000000000000)) (by decide))
    obtain ⟨y, hy, h1⟩ := inv_decGTE (m (.decGTE 27 333333333333333333) (by decide))
    rw [hx] at hy; cases hy
    exact ⟨x, hx, h0, h1⟩
  · simpa [one] using inv_decRange (m (.or (.or (.decNil 28) (.decNeg 28)) (.decGT 28 1000000000000000000)) (by decide))
  · exact inv_decNonneg (m (.or (.decNil 39) (.decNeg 39)) (by decide))
  · exact inv_eqZero (m (.eqZero 12) (by decide))
  · exact inv_eqZero (m (.eqZero 13) (by decide))
  · exact inv_natRange (m (.or (.ltConst 22 2629800) (.gtConst 22 31557600)) (by decide))
  · obtain ⟨u, hu, hlo, hhi⟩ := inv_natRange (m (.or (.ltConst 23 604800) (.gtConst 23 31557600)) (by decide))
    obtain ⟨u', sl, hu', hsl, hle⟩ := inv_gtField (m (.gtField 23 26) (by decide))
    obtain ⟨sl', hsl', hpos⟩ := inv_leConst0 (m (.leConst 26 0) (by decide))
    obtain ⟨uj, sl'', huj, hsl'', hle2⟩ := inv_gtField (m (.gtField 14 26) (by decide))
    have h14 := inv_eqZero (m (.eqZero 14) (by decide))
    rw [hu] at hu'; cases hu'
    rw [hsl] at hsl'; cases hsl'
    rw [hsl] at hsl''; cases hsl''
    refine ⟨u, sl, uj, hu, hsl, huj, hlo, hhi, hle, hpos, ?_, hle2⟩
    intro e; subst e; simp [huj, asNat] at h14

end Sekai.Props.C19
