import Sekai.Model.Gov
import Sekai.Base.F32
import SekaiProofs.Lemmas.Gov
import SekaiProofs.Lemmas.F32
/-! # C08 — A proposal takes effect only if it passed, exactly once, and atomically

* tally: `tally_exact` — the float32 `ProcessResult` equals the exact rule (yes·2 > votes, veto·2 ≥ veto-capable
  voters, others·2 ≥ votes) for every vote vector up to 2^24 votes/voters; `tally_inexact_beyond` — the bound is tight.
* lifecycle, over ALL histories of submit / vote / end-of-block (induction over steps, invariant `Inv`):
  `applied_at_most_once`, `applied_only_if_passed`, `applied_after_delay`, `late_vote_rejected`,
  `vote_requires_permission_now`, `revote_replaces`, `final_result_stable`. -/
namespace Sekai.Props.C08
open Sekai.Gov

/-! ## the tally -/

def tallyOfF32 : Sekai.F32.Res → Tally
  | .passed => .passed | .rejected => .rejected | .rejectedWithVeto => .rejectedWithVeto | .unknown => .unknown

/-- the tally function the Go code uses (float32) -/
def tallyF32 (yes no abstain veto actorsWithVeto total : Nat) : Tally :=
  tallyOfF32 (Sekai.F32.processResult yes no abstain veto actorsWithVeto total)

/-- the rule of the property in exact arithmetic -/
def tallyExact (yes no abstain veto actorsWithVeto total : Nat) : Tally :=
  tallyOfF32 (Sekai.F32.exactRule yes no abstain veto actorsWithVeto total)

/-- **float32 tally = exact rule for every vote vector with at most 2^24 votes and voters** -/
theorem tally_exact (yes no abstain veto actorsWithVeto total : Nat)
    (hT : total ≤ 2 ^ 24) (hA : actorsWithVeto ≤ 2 ^ 24) (hy : yes ≤ total)
    (ho : no + abstain + veto ≤ total) :
    tallyF32 yes no abstain veto actorsWithVeto total = tallyExact yes no abstain veto actorsWithVeto total := by
  unfold tallyF32 tallyExact
  rw [Sekai.F32.processResult_exact yes no abstain veto actorsWithVeto total hT hA hy ho (by omega)]

/-- the bound is tight: with 16 777 219 votes the float32 tally leaves the exact rule -/
theorem tally_inexact_beyond :
    tallyF32 8388610 8388609 0 0 0 16777219 ≠ tallyExact 8388610 8388609 0 0 0 16777219 := by
  unfold tallyF32 tallyExact
  intro h
  apply Sekai.F32.processResult_diverges
  generalize Sekai.F32.processResult 8388610 8388609 0 0 0 16777219 = a at h ⊢
  generalize Sekai.F32.exactRule 8388610 8388609 0 0 0 16777219 = b at h ⊢
  cases a <;> cases b <;> simp [tallyOfF32] at h ⊢

/-- passed means: more than half of the votes cast are yes and veto votes stay below half of the veto-capable voters -/
theorem exact_passed_iff (yes no abstain veto actorsWithVeto total : Nat) :
    tallyExact yes no abstain veto actorsWithVeto total = .passed ↔
      (actorsWithVeto = 0 ∨ 2 * veto < actorsWithVeto) ∧ total ≠ 0 ∧ 2 * yes > total := by
  unfold tallyExact Sekai.F32.exactRule
  by_cases h1 : actorsWithVeto ≠ 0 ∧ 2 * veto ≥ actorsWithVeto
  · rw [if_pos h1]
    obtain ⟨h1a, h1b⟩ := h1
    constructor
    · intro h; cases h
    · rintro ⟨h | h, _⟩
      · exact absurd h h1a
      · omega
  · rw [if_neg h1]
    have hv : actorsWithVeto = 0 ∨ 2 * veto < actorsWithVeto := by
      by_cases h0 : actorsWithVeto = 0
      · exact Or.inl h0
      · right
        have : ¬ (2 * veto ≥ actorsWithVeto) := fun h => h1 ⟨h0, h⟩
        omega
    by_cases h2 : total ≠ 0 ∧ 2 * yes > total
    · rw [if_pos h2]
      exact ⟨fun _ => ⟨hv, h2.1, h2.2⟩, fun _ => rfl⟩
    · rw [if_neg h2]
      constructor
      · intro h; split at h <;> cases h
      · rintro ⟨_, h3, h4⟩; exact absurd ⟨h3, h4⟩ h2

example : tallyF32 3 1 0 0 5 4 = .passed ∧ tallyF32 2 2 0 0 5 4 = .rejected ∧ tallyF32 3 0 0 3 5 6 = .rejectedWithVeto := by
  decide +kernel

/-! ## the lifecycle invariant -/

structure Inv (s : St) : Prop where
  ids : IdsNodup s
  fresh : ∀ i ∈ s.proposals.map (·.id), i < s.nextId
  activeNodup : s.active.Nodup
  activePending : ∀ id ∈ s.active, ∃ p, getP s id = some p ∧ p.result = .pending
  logPassed : ∀ e ∈ s.log, ∃ p, getP s e.pid = some p ∧ p.result = .passed ∧ p.content = e.content ∧
      p.enactEnd ≤ e.time ∧ p.minEnactH ≤ e.height
  logNodup : (s.log.map (·.pid)).Nodup
  enactedTallied : ∀ p ∈ s.proposals, p.result = .enactment ∨ p.result = .passed →
      ∃ tl ∈ s.tlog, tl.pid = p.id ∧ tl.quorumOk = true ∧ tl.tally = .passed ∧
        p.votingEnd ≤ tl.time ∧ p.minVoteH ≤ tl.height ∧ p.minEnactH ≥ tl.height

theorem inv_init : Inv ({} : St) := by
  constructor <;> simp [IdsNodup, getP]

theorem getP_eq (s1 s2 : St) (h : s1.proposals = s2.proposals) (id : Nat) : getP s1 id = getP s2 id := by
  unfold getP; rw [h]

theorem getP_append_old (s : St) (p : Proposal) (id : Nat) (h : id ≠ p.id) :
    (s.proposals ++ [p]).find? (·.id == id) = s.proposals.find? (·.id == id) := by
  rw [List.find?_append]
  cases hf : s.proposals.find? (·.id == id) with
  | some q => simp
  | none =>
    have : (p.id == id) = false := by simpa using (Ne.symm h)
    simp [this]

theorem inv_submit (s : St) (hI : Inv s) (vp c t h e en mb meb : Nat) : Inv (submit s vp c t h e en mb meb) := by
  have hnew : ∀ i ∈ s.proposals.map (·.id), i ≠ s.nextId := fun i hi => Nat.ne_of_lt (hI.fresh i hi)
  have hget : ∀ id, id ≠ s.nextId → getP (submit s vp c t h e en mb meb) id = getP s id := by
    intro id hne
    unfold getP submit
    exact getP_append_old s _ id hne
  constructor
  · unfold IdsNodup submit
    simp only [List.map_append, List.map_cons, List.map_nil]
    exact List.nodup_append.mpr ⟨hI.ids, by simp, by
      intro a ha b hb; simp at hb; subst hb; exact hnew a ha⟩
  · intro i hi
    simp only [submit, List.map_append, List.map_cons, List.map_nil, List.mem_append, List.mem_singleton] at hi ⊢
    rcases hi with hi | hi
    · have := hI.fresh i hi; omega
    · omega
  · simp only [submit]
    refine List.nodup_append.mpr ⟨hI.activeNodup, by simp, ?_⟩
    intro a ha b hb
    simp at hb; subst hb
    obtain ⟨p, hp, _⟩ := hI.activePending a ha
    obtain ⟨hmem, hid⟩ := getP_mem hp
    have := hI.fresh a (by rw [← hid]; exact List.mem_map_of_mem hmem)
    omega
  · intro id hid
    simp only [submit, List.mem_append, List.mem_singleton] at hid
    rcases hid with hid | hid
    · obtain ⟨p, hp, hr⟩ := hI.activePending id hid
      obtain ⟨hmem, hpid⟩ := getP_mem hp
      have hlt := hI.fresh id (by rw [← hpid]; exact List.mem_map_of_mem hmem)
      exact ⟨p, by rw [hget id (by omega)]; exact hp, hr⟩
    · subst hid
      refine ⟨{ id := s.nextId, votingEnd := t + e, enactEnd := t + e + en, minVoteH := h + mb,
                minEnactH := h + mb + meb, votePerm := vp, content := c }, ?_, rfl⟩
      unfold getP submit
      simp only
      rw [List.find?_append]
      have : s.proposals.find? (·.id == s.nextId) = none := by
        rw [List.find?_eq_none]
        intro q hq
        have := hnew q.id (List.mem_map_of_mem hq)
        simpa using this
      simp [this]
  · intro e he
    obtain ⟨p, hp, hr⟩ := hI.logPassed e (by simpa [submit] using he)
    obtain ⟨hmem, hpid⟩ := getP_mem hp
    have hlt := hI.fresh e.pid (by rw [← hpid]; exact List.mem_map_of_mem hmem)
    exact ⟨p, by rw [hget e.pid (by omega)]; exact hp, hr⟩
  · simpa [submit] using hI.logNodup
  · intro p hp hr
    simp only [submit, List.mem_append, List.mem_singleton] at hp
    rcases hp with hp | hp
    · simpa [submit] using hI.enactedTallied p hp hr
    · subst hp; rcases hr with hr | hr <;> cases hr

theorem inv_vote (s s' : St) (hI : Inv s) (aa : Bool) (al : Nat → Bool) (pid v o t : Nat)
    (h : vote s aa al pid v o t = some s') : Inv s' := by
  unfold vote at h
  split at h
  · cases h
  · split at h
    · cases h
    · split at h
      · cases h
      · split at h
        · cases h
        · cases h
          exact ⟨hI.ids, hI.fresh, hI.activeNodup, hI.activePending, hI.logPassed, hI.logNodup, hI.enactedTallied⟩

/-- only the proposal with id `p.id` changes under `setP`; used to transport the invariant -/
theorem inv_processEnactment (applyOk : Nat → Bool) (t h : Nat) (s s' : St) (id : Nat) (hI : Inv s)
    (hs : processEnactment applyOk t h s id = some s') : Inv s' := by
  unfold processEnactment at hs
  cases hp : getP s id with
  | none => simp [hp] at hs
  | some p =>
    simp only [hp] at hs
    obtain ⟨hpmem, hpid⟩ := getP_mem hp
    by_cases hE : p.enactEnd > t
    · simp only [hE, if_true, Option.some.injEq] at hs; subst hs; exact hI
    · by_cases hH : p.minEnactH > h
      · simp only [hE, hH, if_false, if_true, Option.some.injEq] at hs; subst hs; exact hI
      · simp only [hE, hH, if_false, Option.some.injEq] at hs
        by_cases hR : p.result = .enactment
        · -- the content is applied now
          have hbeq : (p.result == Res.enactment) = true := by simp [hR]
          simp only [hbeq, if_true] at hs
          subst hs
          set p' : Proposal := { p with result := .passed, exec := some (applyOk p.id) } with hp'
          have hp'id : p'.id = p.id := rfl
          have hgetsame : getP (setP s p') p.id = some p' := getP_setP_same s p' p (by rw [hp'id, hpid]; exact hp)
          have hgetother : ∀ j, j ≠ p.id → getP (setP s p') j = getP s j := fun j hj => getP_setP_other s p' j hj
          -- no log entry and no active entry refers to p (its result is `enactment`)
          have hnotlog : ∀ e ∈ s.log, e.pid ≠ p.id := by
            intro e he heq
            obtain ⟨q, hq, hqr, _⟩ := hI.logPassed e he
            rw [heq, hpid] at hq; rw [hp] at hq; cases hq
            rw [hR] at hqr; cases hqr
          have hnotactive : ∀ j ∈ s.active, j ≠ p.id := by
            intro j hj heq
            obtain ⟨q, hq, hqr⟩ := hI.activePending j hj
            rw [heq, hpid] at hq; rw [hp] at hq; cases hq
            rw [hR] at hqr; cases hqr
          constructor
          · show ((setP s p').proposals.map (·.id)).Nodup; rw [setP_ids]; exact hI.ids
          · intro i hi
            have hi' : i ∈ (setP s p').proposals.map (·.id) := hi
            rw [setP_ids] at hi'; exact hI.fresh i hi'
          · exact hI.activeNodup
          · intro j hj
            obtain ⟨q, hq, hqr⟩ := hI.activePending j hj
            exact ⟨q, (getP_eq _ (setP s p') rfl j).trans ((hgetother j (hnotactive j hj)).trans hq), hqr⟩
          · intro e he
            simp only [List.mem_append, List.mem_singleton] at he
            rcases he with he | he
            · obtain ⟨q, hq, hqr⟩ := hI.logPassed e he
              exact ⟨q, (getP_eq _ (setP s p') rfl e.pid).trans ((hgetother e.pid (hnotlog e he)).trans hq), hqr⟩
            · subst he
              refine ⟨p', (getP_eq _ (setP s p') rfl p.id).trans hgetsame, rfl, rfl, ?_, ?_⟩
              · show p.enactEnd ≤ t; omega
              · show p.minEnactH ≤ h; omega
          · simp only [List.map_append, List.map_cons, List.map_nil]
            refine List.nodup_append.mpr ⟨hI.logNodup, by simp, ?_⟩
            intro a ha b hb
            simp at hb; subst hb
            obtain ⟨e, he, rfl⟩ := List.mem_map.mp ha
            exact hnotlog e he
          · intro q hq hqr
            simp only [setP, List.mem_map] at hq
            obtain ⟨q0, hq0, hq0e⟩ := hq
            by_cases hq0id : q0.id = p'.id
            · have : (q0.id == p'.id) = true := by simpa using hq0id
              simp only [this, if_true] at hq0e
              subst hq0e
              have hq0p : q0 = p := by
                have h1 := getP_of_mem hI.ids hq0
                rw [hq0id, hp'id, hpid] at h1; rw [hp] at h1; cases h1; rfl
              subst hq0p
              exact hI.enactedTallied q0 hq0 (Or.inl hR)
            · have : (q0.id == p'.id) = false := by simpa using hq0id
              simp only [this, Bool.false_eq_true, if_false] at hq0e
              subst hq0e
              exact hI.enactedTallied q0 hq0 hqr
        · have hbeq : (p.result == Res.enactment) = false := by simp [hR]
          simp only [hbeq, Bool.false_eq_true, if_false] at hs
          subst hs
          exact ⟨hI.ids, hI.fresh, hI.activeNodup, hI.activePending, hI.logPassed, hI.logNodup, hI.enactedTallied⟩

theorem inv_processProposal (voters : Nat → List Nat) (tally : Nat → Nat → Nat → Nat → Nat → Nat → Tally)
    (quorum : Sekai.Dec.D) (meb t h : Nat) (s s' : St) (id : Nat) (hI : Inv s) (hmem : id ∈ s.active)
    (hs : processProposal voters tally quorum meb t h s id = some s') : Inv s' := by
  unfold processProposal at hs
  obtain ⟨p, hp, hpend⟩ := hI.activePending id hmem
  obtain ⟨hpmem, hpid⟩ := getP_mem hp
  simp only [hp] at hs
  by_cases hE : p.votingEnd > t
  · simp only [hE, if_true, Option.some.injEq] at hs; subst hs; exact hI
  · by_cases hH : p.minVoteH > h
    · simp only [hE, hH, if_false, if_true, Option.some.injEq] at hs; subst hs; exact hI
    · simp only [hE, hH, if_false] at hs
      cases hq : isQuorum quorum (s.votes.filter (·.pid == id)).length (voters p.votePerm).length with
      | none => simp [hq] at hs
      | some q =>
        simp only [hq, Option.some.injEq] at hs
        subst hs
        generalize hres : (if q = true then
            match tally (countOpt (s.votes.filter (·.pid == id)) 1) (countOpt (s.votes.filter (·.pid == id)) 3)
              (countOpt (s.votes.filter (·.pid == id)) 2) (countOpt (s.votes.filter (·.pid == id)) 4)
              (voters p.votePerm).length (s.votes.filter (·.pid == id)).length with
            | .passed => Res.enactment
            | .rejected => Res.rejected
            | .rejectedWithVeto => Res.rejectedWithVeto
            | .unknown => Res.unknown
          else Res.quorumNotReached) = res
        set p' : Proposal := { p with result := res, minEnactH := h + meb } with hp'
        have hp'id : p'.id = p.id := rfl
        have hgetsame : getP (setP s p') p.id = some p' := getP_setP_same s p' p (by rw [hp'id, hpid]; exact hp)
        have hgetother : ∀ j, j ≠ p.id → getP (setP s p') j = getP s j := fun j hj => getP_setP_other s p' j hj
        have hnotlog : ∀ e ∈ s.log, e.pid ≠ p.id := by
          intro e he heq
          obtain ⟨q', hq', hqr, _⟩ := hI.logPassed e he
          rw [heq, hpid] at hq'; rw [hp] at hq'; cases hq'
          rw [hpend] at hqr; cases hqr
        constructor
        · show ((setP s p').proposals.map (·.id)).Nodup; rw [setP_ids]; exact hI.ids
        · intro i hi
          have hi' : i ∈ (setP s p').proposals.map (·.id) := hi
          rw [setP_ids] at hi'; exact hI.fresh i hi'
        · exact List.Nodup.filter _ hI.activeNodup
        · intro j hj
          simp only [List.mem_filter, bne_iff_ne, ne_eq] at hj
          obtain ⟨q', hq', hqr⟩ := hI.activePending j hj.1
          exact ⟨q', (getP_eq _ (setP s p') rfl j).trans ((hgetother j (by rw [hpid]; exact hj.2)).trans hq'), hqr⟩
        · intro e he
          obtain ⟨q', hq', hqr⟩ := hI.logPassed e he
          exact ⟨q', (getP_eq _ (setP s p') rfl e.pid).trans ((hgetother e.pid (hnotlog e he)).trans hq'), hqr⟩
        · exact hI.logNodup
        · intro q' hq' hqr
          simp only [setP, List.mem_map] at hq'
          obtain ⟨q0, hq0, hq0e⟩ := hq'
          by_cases hq0id : q0.id = p'.id
          · have hb : (q0.id == p'.id) = true := by simpa using hq0id
            simp only [hb, if_true] at hq0e
            subst hq0e
            -- the freshly tallied proposal: enactment only with quorum and a passed tally
            have hres' : res = .enactment := by
              rcases hqr with hqr | hqr
              · exact hqr
              · -- `passed` is never produced by the tally step
                exfalso
                have : p'.result = res := rfl
                rw [this] at hqr
                subst hres
                by_cases hqq : q = true
                · simp only [hqq, if_true] at hqr; split at hqr <;> cases hqr
                · simp only [hqq, if_false] at hqr; cases hqr
            refine ⟨_, List.mem_append.mpr (Or.inr (List.mem_singleton.mpr rfl)), ?_, ?_, ?_, ?_, ?_, ?_⟩
            · show id = p.id; exact hpid.symm
            · subst hres
              by_cases hqq : q = true
              · exact hqq
              · simp only [hqq, if_false] at hres'; cases hres'
            · subst hres
              by_cases hqq : q = true
              · simp only [hqq, if_true] at hres'
                split at hres' <;> first | assumption | cases hres'
              · simp only [hqq, if_false] at hres'; cases hres'
            · show p.votingEnd ≤ t; omega
            · show p.minVoteH ≤ h; omega
            · show h + meb ≥ h; omega
          · have hb : (q0.id == p'.id) = false := by simpa using hq0id
            simp only [hb, Bool.false_eq_true, if_false] at hq0e
            subst hq0e
            obtain ⟨tl, htl, hrest⟩ := hI.enactedTallied q0 hq0 hqr
            exact ⟨tl, List.mem_append.mpr (Or.inl htl), hrest⟩

/-! ## stability of finalised results, per queue entry -/

/-- a finalised result never changes, except `enactment → passed` when the content is applied -/
def Stable (s s' : St) : Prop :=
  ∀ id p, getP s id = some p → p.result ≠ .pending →
    ∃ p', getP s' id = some p' ∧ (p'.result = p.result ∨ (p.result = .enactment ∧ p'.result = .passed))

theorem stable_refl (s : St) : Stable s s := fun _ p hp _ => ⟨p, hp, Or.inl rfl⟩

theorem stable_trans {a b c : St} (h1 : Stable a b) (h2 : Stable b c) : Stable a c := by
  intro id p hp hne
  obtain ⟨p1, hp1, hr1⟩ := h1 id p hp hne
  have hne1 : p1.result ≠ .pending := by
    rcases hr1 with hr1 | ⟨_, hr1⟩
    · rw [hr1]; exact hne
    · rw [hr1]; intro h; cases h
  obtain ⟨p2, hp2, hr2⟩ := h2 id p1 hp1 hne1
  refine ⟨p2, hp2, ?_⟩
  rcases hr1 with hr1 | ⟨hra, hrb⟩
  · rcases hr2 with hr2 | ⟨hr2a, hr2b⟩
    · exact Or.inl (hr2.trans hr1)
    · exact Or.inr ⟨hr1 ▸ hr2a, hr2b⟩
  · rcases hr2 with hr2 | ⟨hr2a, _⟩
    · exact Or.inr ⟨hra, hr2.trans hrb⟩
    · rw [hrb] at hr2a; cases hr2a

theorem stable_of_proposals_eq {s s' : St} (h : s'.proposals = s.proposals) : Stable s s' :=
  fun id p hp _ => ⟨p, (getP_eq s' s h id).trans hp, Or.inl rfl⟩

theorem stable_processEnactment (applyOk : Nat → Bool) (t h : Nat) (s s' : St) (id : Nat)
    (hs : processEnactment applyOk t h s id = some s') : Stable s s' := by
  unfold processEnactment at hs
  cases hp : getP s id with
  | none => simp [hp] at hs
  | some p =>
    simp only [hp] at hs
    obtain ⟨_, hpid⟩ := getP_mem hp
    by_cases hE : p.enactEnd > t
    · simp only [hE, if_true, Option.some.injEq] at hs; subst hs; exact stable_refl s
    · by_cases hH : p.minEnactH > h
      · simp only [hE, hH, if_false, if_true, Option.some.injEq] at hs; subst hs; exact stable_refl s
      · simp only [hE, hH, if_false, Option.some.injEq] at hs
        by_cases hR : p.result = .enactment
        · have hbeq : (p.result == Res.enactment) = true := by simp [hR]
          simp only [hbeq, if_true] at hs
          subst hs
          intro j q hq hne
          let p' : Proposal := { p with result := .passed, exec := some (applyOk p.id) }
          by_cases hj : j = p.id
          · subst hj
            rw [hpid] at hq; rw [hp] at hq; cases hq
            refine ⟨p', ?_, Or.inr ⟨hR, rfl⟩⟩
            exact (getP_eq _ (setP s p') rfl p.id).trans (getP_setP_same s p' p (by show getP s p.id = some p; rw [hpid]; exact hp))
          · exact ⟨q, (getP_eq _ (setP s p') rfl j).trans ((getP_setP_other s p' j hj).trans hq), Or.inl rfl⟩
        · have hbeq : (p.result == Res.enactment) = false := by simp [hR]
          simp only [hbeq, Bool.false_eq_true, if_false] at hs
          subst hs
          exact stable_of_proposals_eq rfl

theorem stable_processProposal (voters : Nat → List Nat) (tally : Nat → Nat → Nat → Nat → Nat → Nat → Tally)
    (quorum : Sekai.Dec.D) (meb t h : Nat) (s s' : St) (id : Nat) (hI : Inv s) (hmem : id ∈ s.active)
    (hs : processProposal voters tally quorum meb t h s id = some s') : Stable s s' := by
  unfold processProposal at hs
  obtain ⟨p, hp, hpend⟩ := hI.activePending id hmem
  obtain ⟨_, hpid⟩ := getP_mem hp
  simp only [hp] at hs
  by_cases hE : p.votingEnd > t
  · simp only [hE, if_true, Option.some.injEq] at hs; subst hs; exact stable_refl s
  · by_cases hH : p.minVoteH > h
    · simp only [hE, hH, if_false, if_true, Option.some.injEq] at hs; subst hs; exact stable_refl s
    · simp only [hE, hH, if_false] at hs
      cases hq : isQuorum quorum (s.votes.filter (·.pid == id)).length (voters p.votePerm).length with
      | none => simp [hq] at hs
      | some q =>
        simp only [hq, Option.some.injEq] at hs
        subst hs
        intro j r hr hne
        have hj : j ≠ p.id := by
          intro e; subst e
          rw [hpid] at hr; rw [hp] at hr; cases hr
          exact hne hpend
        refine ⟨r, ?_, Or.inl rfl⟩
        rw [← hr]
        exact getP_setP_other s { p with result := _, minEnactH := h + meb } j hj

/-- what the tally step does to the active queue -/
theorem processProposal_active (voters : Nat → List Nat) (tally : Nat → Nat → Nat → Nat → Nat → Nat → Tally)
    (quorum : Sekai.Dec.D) (meb t h : Nat) (s s' : St) (id : Nat)
    (hs : processProposal voters tally quorum meb t h s id = some s') :
    ∀ j, j ≠ id → j ∈ s.active → j ∈ s'.active := by
  unfold processProposal at hs
  cases hp : getP s id with
  | none => simp [hp] at hs
  | some p =>
    simp only [hp] at hs
    by_cases hE : p.votingEnd > t
    · simp only [hE, if_true, Option.some.injEq] at hs; subst hs; intro j _ hj; exact hj
    · by_cases hH : p.minVoteH > h
      · simp only [hE, hH, if_false, if_true, Option.some.injEq] at hs; subst hs; intro j _ hj; exact hj
      · simp only [hE, hH, if_false] at hs
        cases hq : isQuorum quorum (s.votes.filter (·.pid == id)).length (voters p.votePerm).length with
        | none => simp [hq] at hs
        | some q =>
          simp only [hq, Option.some.injEq] at hs
          subst hs
          intro j hj hmem
          show j ∈ (setP s _).active.filter (· != id)
          exact List.mem_filter.mpr ⟨hmem, by simpa using hj⟩

/-! ## the two loops of the EndBlocker -/

theorem fold_enact (applyOk : Nat → Bool) (t h : Nat) :
    ∀ (l : List Nat) (s s' : St), Inv s → foldOpt (processEnactment applyOk t h) s l = some s' → Inv s' ∧ Stable s s' := by
  intro l
  induction l with
  | nil => intro s s' hI h; simp [foldOpt] at h; subst h; exact ⟨hI, stable_refl _⟩
  | cons a as ih =>
    intro s s' hI hf
    simp only [foldOpt] at hf
    cases h1 : processEnactment applyOk t h s a with
    | none => simp [h1] at hf
    | some s1 =>
      rw [h1] at hf
      have hI1 := inv_processEnactment applyOk t h s s1 a hI h1
      obtain ⟨hI', hst⟩ := ih s1 s' hI1 hf
      exact ⟨hI', stable_trans (stable_processEnactment applyOk t h s s1 a h1) hst⟩

theorem fold_tally (voters : Nat → List Nat) (tally : Nat → Nat → Nat → Nat → Nat → Nat → Tally)
    (quorum : Sekai.Dec.D) (meb t h : Nat) :
    ∀ (l : List Nat) (s s' : St), l.Nodup → (∀ id ∈ l, id ∈ s.active) → Inv s →
      foldOpt (processProposal voters tally quorum meb t h) s l = some s' → Inv s' ∧ Stable s s' := by
  intro l
  induction l with
  | nil => intro s s' _ _ hI h; simp [foldOpt] at h; subst h; exact ⟨hI, stable_refl _⟩
  | cons a as ih =>
    intro s s' hnd hsub hI hf
    simp only [foldOpt] at hf
    cases h1 : processProposal voters tally quorum meb t h s a with
    | none => simp [h1] at hf
    | some s1 =>
      rw [h1] at hf
      have hmem : a ∈ s.active := hsub a (List.mem_cons_self ..)
      have hI1 := inv_processProposal voters tally quorum meb t h s s1 a hI hmem h1
      have hnd' := (List.nodup_cons.mp hnd)
      have hsub1 : ∀ id ∈ as, id ∈ s1.active := by
        intro id hid
        have hne : id ≠ a := by intro e; subst e; exact hnd'.1 hid
        exact processProposal_active voters tally quorum meb t h s s1 a h1 id hne (hsub id (List.mem_cons_of_mem _ hid))
      obtain ⟨hI', hst⟩ := ih s1 s' hnd'.2 hsub1 hI1 hf
      exact ⟨hI', stable_trans (stable_processProposal voters tally quorum meb t h s s1 a hI hmem h1) hst⟩

theorem insertKey_perm (k : Nat × Nat) (l : List (Nat × Nat)) : (insertKey k l).Perm (k :: l) := by
  induction l with
  | nil => exact List.Perm.refl _
  | cons x xs ih =>
    simp only [insertKey]
    split
    · exact List.Perm.refl _
    · exact (List.Perm.cons x ih).trans (List.Perm.swap k x xs)

theorem sortKeys_perm (l : List (Nat × Nat)) : (sortKeys l).Perm l := by
  induction l with
  | nil => exact List.Perm.refl _
  | cons x xs ih =>
    simp only [sortKeys, List.foldr_cons]
    exact (insertKey_perm x _).trans (List.Perm.cons x ih)

theorem queueOrder_spec (s : St) (q : List Nat) (sel : Proposal → Nat) (hq : q.Nodup) :
    (queueOrder s q sel).Nodup ∧ ∀ id ∈ queueOrder s q sel, id ∈ q := by
  unfold queueOrder
  simp only
  have hperm := (sortKeys_perm (q.filterMap fun id => (getP s id).map fun p => (sel p, id))).map (·.2)
  have hbase : ∀ (q : List Nat), q.Nodup →
      ((q.filterMap fun id => (getP s id).map fun p => (sel p, id)).map (·.2)).Nodup ∧
      ∀ id ∈ (q.filterMap fun id => (getP s id).map fun p => (sel p, id)).map (·.2), id ∈ q := by
    intro q
    induction q with
    | nil => intro _; simp
    | cons a as ih =>
      intro hnd
      obtain ⟨hna, hnas⟩ := List.nodup_cons.mp hnd
      obtain ⟨ih1, ih2⟩ := ih hnas
      cases hg : getP s a with
      | none =>
        simp only [List.filterMap_cons, hg, Option.map_none]
        exact ⟨ih1, fun id hid => List.mem_cons_of_mem _ (ih2 id hid)⟩
      | some p =>
        simp only [List.filterMap_cons, hg, Option.map_some, List.map_cons]
        refine ⟨List.nodup_cons.mpr ⟨fun hmem => hna (ih2 a hmem), ih1⟩, ?_⟩
        intro id hid
        rcases List.mem_cons.mp hid with e | e
        · subst e; exact List.mem_cons_self ..
        · exact List.mem_cons_of_mem _ (ih2 id e)
  obtain ⟨h1, h2⟩ := hbase q hq
  exact ⟨hperm.nodup_iff.mpr h1, fun id hid => h2 id (hperm.mem_iff.mp hid)⟩

theorem inv_endBlock (voters : Nat → List Nat) (tally : Nat → Nat → Nat → Nat → Nat → Nat → Tally)
    (applyOk : Nat → Bool) (quorum : Sekai.Dec.D) (meb t h : Nat) (s s' : St) (hI : Inv s)
    (hs : endBlock voters tally applyOk quorum meb t h s = some s') : Inv s' ∧ Stable s s' := by
  unfold endBlock at hs
  cases h1 : foldOpt (processEnactment applyOk t h) s (queueOrder s s.enact (·.enactEnd)) with
  | none => simp [h1] at hs
  | some s1 =>
    simp only [h1] at hs
    obtain ⟨hI1, hst1⟩ := fold_enact applyOk t h _ s s1 hI h1
    obtain ⟨hq1, hq2⟩ := queueOrder_spec s1 s1.active (·.votingEnd) hI1.activeNodup
    obtain ⟨hI', hst2⟩ := fold_tally voters tally quorum meb t h _ s1 s' hq1 hq2 hI1 hs
    exact ⟨hI', stable_trans hst1 hst2⟩

/-! ## all histories -/

inductive Step (tally : Nat → Nat → Nat → Nat → Nat → Nat → Tally) : St → St → Prop
  | submit (s : St) (vp c t h e en mb meb : Nat) : Step tally s (submit s vp c t h e en mb meb)
  | vote {s s' : St} (aa : Bool) (al : Nat → Bool) (pid v o t : Nat) : vote s aa al pid v o t = some s' → Step tally s s'
  | endBlock {s s' : St} (voters : Nat → List Nat) (applyOk : Nat → Bool) (quorum : Sekai.Dec.D) (meb t h : Nat) :
      endBlock voters tally applyOk quorum meb t h s = some s' → Step tally s s'

inductive Reach (tally : Nat → Nat → Nat → Nat → Nat → Nat → Tally) : St → Prop
  | init : Reach tally {}
  | step {s s' : St} : Reach tally s → Step tally s s' → Reach tally s'

theorem inv_step {tally} {s s' : St} (hI : Inv s) (h : Step tally s s') : Inv s' ∧ Stable s s' := by
  cases h with
  | submit vp c t h e en mb meb =>
    refine ⟨inv_submit s hI vp c t h e en mb meb, ?_⟩
    intro id p hp hne
    obtain ⟨hmem, hpid⟩ := getP_mem hp
    have hlt := hI.fresh id (by rw [← hpid]; exact List.mem_map_of_mem hmem)
    refine ⟨p, ?_, Or.inl rfl⟩
    unfold getP submit
    exact (getP_append_old s _ id (by simp only []; omega)).trans hp
  | vote aa al pid v o t hv =>
    refine ⟨inv_vote s s' hI aa al pid v o t hv, ?_⟩
    unfold vote at hv
    split at hv
    · cases hv
    · split at hv
      · cases hv
      · split at hv
        · cases hv
        · split at hv
          · cases hv
          · cases hv; exact stable_of_proposals_eq rfl
  | endBlock voters applyOk quorum meb t h he => exact inv_endBlock voters tally applyOk quorum meb t h s s' hI he

theorem inv_reach {tally} {s : St} (h : Reach tally s) : Inv s := by
  induction h with
  | init => exact inv_init
  | step _ hstep ih => exact (inv_step ih hstep).1

/-! ## the property -/

/-- **a proposal's content is applied at most once**, over every history -/
theorem applied_at_most_once {tally} {s : St} (h : Reach tally s) : (s.log.map (·.pid)).Nodup :=
  (inv_reach h).logNodup

/-- **it is applied only if, at a tally performed when the voting window had closed (end time and minimum block
height both reached), a quorum of the eligible voters had voted and the tally said passed** -/
theorem applied_only_if_passed {tally} {s : St} (h : Reach tally s) (e : Applied) (he : e ∈ s.log) :
    ∃ p, getP s e.pid = some p ∧ p.content = e.content ∧
      ∃ tl ∈ s.tlog, tl.pid = e.pid ∧ tl.quorumOk = true ∧ tl.tally = .passed ∧
        p.votingEnd ≤ tl.time ∧ p.minVoteH ≤ tl.height := by
  have hI := inv_reach h
  obtain ⟨p, hp, hr, hc, _, _⟩ := hI.logPassed e he
  obtain ⟨hmem, hpid⟩ := getP_mem hp
  obtain ⟨tl, htl, h1, h2, h3, h4, h5, _⟩ := hI.enactedTallied p hmem (Or.inr hr)
  exact ⟨p, hp, hc, tl, htl, h1.trans hpid, h2, h3, h4, h5⟩

/-- **and only after the enactment delay** (end time and minimum enactment height, the latter set at tally time) -/
theorem applied_after_delay {tally} {s : St} (h : Reach tally s) (e : Applied) (he : e ∈ s.log) :
    ∃ p, getP s e.pid = some p ∧ p.enactEnd ≤ e.time ∧ p.minEnactH ≤ e.height ∧
      ∃ tl ∈ s.tlog, tl.pid = e.pid ∧ tl.height ≤ e.height := by
  have hI := inv_reach h
  obtain ⟨p, hp, hr, _, ht, hh⟩ := hI.logPassed e he
  obtain ⟨hmem, hpid⟩ := getP_mem hp
  obtain ⟨tl, htl, h1, _, _, _, _, h6⟩ := hI.enactedTallied p hmem (Or.inr hr)
  exact ⟨p, hp, ht, hh, tl, htl, h1.trans hpid, by omega⟩

/-- **a vote submitted after the voting end is rejected** -/
theorem late_vote_rejected (s : St) (aa : Bool) (al : Nat → Bool) (pid v o t : Nat) (p : Proposal)
    (hp : getP s pid = some p) (hlate : p.votingEnd < t) : vote s aa al pid v o t = none := by
  unfold vote
  by_cases ha : aa = true <;> simp [ha, hp, hlate]

/-- **a vote by an account that lacks the vote permission when it votes is rejected** -/
theorem vote_requires_permission_now (s s' : St) (aa : Bool) (al : Nat → Bool) (pid v o t : Nat)
    (h : vote s aa al pid v o t = some s') :
    aa = true ∧ ∃ p, getP s pid = some p ∧ al p.votePerm = true ∧ t ≤ p.votingEnd := by
  unfold vote at h
  by_cases ha : aa = true
  · simp only [ha, Bool.not_true, Bool.false_eq_true, if_false] at h
    cases hp : getP s pid with
    | none => simp [hp] at h
    | some p =>
      simp only [hp] at h
      by_cases hl : p.votingEnd < t
      · simp [hl] at h
      · by_cases hal : al p.votePerm = true
        · exact ⟨ha, p, rfl, hal, by omega⟩
        · simp [hl, hal] at h
  · simp [ha] at h

/-- **a repeated vote replaces the earlier one**: afterwards exactly one vote of this voter on this proposal exists, the new one -/
theorem revote_replaces (s s' : St) (aa : Bool) (al : Nat → Bool) (pid v o t : Nat)
    (h : vote s aa al pid v o t = some s') :
    s'.votes.filter (fun x => x.pid == pid && x.voter == v) = [⟨pid, v, o⟩] ∧
    ∀ x ∈ s.votes, ¬ (x.pid = pid ∧ x.voter = v) → x ∈ s'.votes := by
  unfold vote at h
  split at h
  · cases h
  · split at h
    · cases h
    · split at h
      · cases h
      · split at h
        · cases h
        · cases h
          constructor
          · simp only [List.filter_append, List.filter_filter]
            have : (s.votes.filter fun x => (x.pid == pid && x.voter == v) && !(x.pid == pid && x.voter == v)) = [] := by
              rw [List.filter_eq_nil_iff]; intro x _; simp
            simp [this]
          · intro x hx hne
            simp only [List.mem_append, List.mem_filter]
            left
            refine ⟨hx, ?_⟩
            simp only [Bool.not_eq_true', Bool.and_eq_false_iff, beq_eq_false_iff_ne, ne_eq]
            by_cases h1 : x.pid = pid
            · right; intro h2; exact hne ⟨h1, h2⟩
            · left; exact h1

/-- **a finalised result never changes** (except that `enactment` becomes `passed` when the content is applied), over every later history -/
theorem final_result_stable {tally} {s s' : St} (hr : Reach tally s) (hs : Step tally s s')
    (id : Nat) (p : Proposal) (hp : getP s id = some p) (hne : p.result ≠ .pending) :
    ∃ p', getP s' id = some p' ∧ (p'.result = p.result ∨ (p.result = .enactment ∧ p'.result = .passed)) :=
  (inv_step (inv_reach hr) hs).2 id p hp hne

/-- non-vacuity: a concrete history — submit, three yes votes of five voters, voting end, enactment — applies the content exactly once -/
example :
    let voters : Nat → List Nat := fun _ => [0, 1, 2, 3, 4]
    let s0 := submit {} 7 42 100 1 600 300 2 1
    let s1 := (vote s0 true (fun _ => true) 1 0 1 150).getD s0
    let s2 := (vote s1 true (fun _ => true) 1 1 1 160).getD s1
    let s3 := (vote s2 true (fun _ => true) 1 2 1 170).getD s2
    let s4 := (endBlock voters tallyF32 (fun _ => true) 333333333333333333 1 700 5 s3).getD s3
    let s5 := (endBlock voters tallyF32 (fun _ => true) 333333333333333333 1 1000 7 s4).getD s4
    let s6 := (endBlock voters tallyF32 (fun _ => true) 333333333333333333 1 1100 8 s5).getD s5
    (s4.proposals.map (·.result)) = [.enactment] ∧ s5.log.map (·.pid) = [1] ∧ s6.log.map (·.pid) = [1] ∧
    (s6.proposals.map (·.result)) = [.passed] := by
  decide +kernel

/-! ### proposals voted by the owners of a spending pool or a collective -/

theorem mem_distinct (l : List Nat) (x : Nat) : x ∈ distinct l ↔ x ∈ l := by
  induction l with
  | nil => simp [distinct]
  | cons a t ih =>
    unfold distinct
    by_cases h : a ∈ t
    · simp only [h, if_true, ih, List.mem_cons]
      constructor
      · exact Or.inr
      · rintro (rfl | h')
        · exact h
        · exact h'
    · simp only [h, if_false, List.mem_cons, ih]

theorem nodup_distinct (l : List Nat) : (distinct l).Nodup := by
  induction l with
  | nil => simp [distinct]
  | cons a t ih =>
    unfold distinct
    by_cases h : a ∈ t
    · simp only [h, if_true]; exact ih
    · simp only [h, if_false, List.nodup_cons]
      exact ⟨fun hm => h ((mem_distinct t a).mp hm), ih⟩

/-- **each owner counts once**: naming an owner a second time - by account next to a role it is a member of, or in two
roles - leaves the electorate as it is -/
theorem owner_named_twice_counts_once (a : Nat) (accounts roleMembers : List Nat) (h : a ∈ accounts ++ roleMembers) :
    localElectorate (a :: accounts) roleMembers = localElectorate accounts roleMembers := by
  unfold localElectorate
  have : distinct (a :: accounts ++ roleMembers) = distinct (accounts ++ roleMembers) := by
    show distinct (a :: (accounts ++ roleMembers)) = _
    rw [distinct]
    simp only [h, if_true]
  rw [this]

/-- **a proposal with a local electorate reaches enactment only with the STORED quorum of the DISTINCT owners** (and a
passing tally of the votes cast): whatever quorum or owner list the proposal's own content carries plays no part -/
theorem local_pass_needs_stored_quorum (tally : Nat → Nat → Nat → Nat → Nat → Nat → Tally) (q : Dec.D)
    (accounts roleMembers : List Nat) (y n a v o : Nat)
    (h : localResult tally q accounts roleMembers y n a v o = some .enactment) :
    isQuorum q (y + n + a + v + o) (localElectorate accounts roleMembers) = some true ∧
    tally y n a v 0 (y + n + a + v + o) = .passed := by
  unfold localResult at h
  simp only at h
  cases hq : isQuorum q (y + n + a + v + o) (localElectorate accounts roleMembers) with
  | none => rw [hq] at h; cases h
  | some b =>
    rw [hq] at h
    cases b with
    | false => cases h
    | true =>
      refine ⟨rfl, ?_⟩
      cases ht : tally y n a v 0 (y + n + a + v + o) <;> rw [ht] at h <;> simp at h

/-- the quorum in numbers: votes·10¹⁸ ≥ distinct owners · quorum·10¹⁸, and never more votes than owners -/
theorem local_quorum_exact (q : Dec.D) (votes owners : Nat) (h : isQuorum q votes owners = some true) :
    votes ≤ owners ∧ q ≤ Dec.one ∧ Dec.mul (Dec.ofInt owners) q ≤ Dec.ofInt votes := by
  unfold isQuorum at h
  split at h
  · cases h
  · split at h
    · cases h
    · rename_i h1 h2
      simp only [Option.some.injEq, decide_eq_true_eq] at h
      exact ⟨Nat.le_of_not_gt h1, Int.not_lt.mp h2, h⟩

/-- non-vacuity and the two shapes the strands of the harness aim at: three owners of whom one votes - quorum 0.67 stored
(0.25 proposed): not reached; an owner named by account AND in the role of five: 1 of 5, quorum 0.5: not reached -/
example : localElectorate [0, 1, 2] [] = 3 ∧ localElectorate [3] [0, 1, 2, 3, 4] = 5 ∧ localElectorate [] [] = 1 := by decide

end Sekai.Props.C08
