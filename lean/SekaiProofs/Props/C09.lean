import SekaiProofs.Lemmas.Ante
import Sekai.Gen.App
import Sekai.Model.App
import Sekai.Gen.Ambient
import Sekai.Gen.Keys
import SekaiProofs.Lemmas.Keys
/-! # C09 — Fees: charged exactly as declared, within bounds; failed work leaves no trace

Theorems about `Sekai.Ante` (the executable model of `ValidateFeeRangeDecorator`, the stock fee deduction,
the execution-fee registration, baseapp's two cache branches and the feeprocessing keeper), for ALL
configurations and transactions. The model is tied to /repo by the differential harness `harness/c09.go`
(signed transactions through the real ante chain; keeper-level runs of the feeprocessing functions). -/
namespace Sekai.Props.C09
open Sekai Sekai.Ante Sekai.Lemmas.Ante

/-! ## the fee decision, stated outright -/

/-- **Decision logic of the fee validator** (no wrap-around in the `int64`/`uint64` casts): a fee is accepted
iff every fee coin is a registered, fee-enabled, non-frozen token (a foreign one only while foreign fee
payments are enabled) and the fee's value at the registered rates lies within `[MinTxFee, MaxTxFee]` and
covers `Σ max(ExecutionFee, FailureFee)` of the messages. Values are scaled by `Dec.P = 10^18`. -/
theorem accept_iff_spec (c : Cfg) (tx : Tx)
    (hmin : c.minTxFee < two63) (hmax : c.maxTxFee < two63) (hreq : execSpec c tx.msgs < two63) :
    validateFee c tx = .ok () ↔
      (∀ x ∈ tx.fee, CoinOk c x.1) ∧
      (c.minTxFee : Int) * Dec.P ≤ feeValue c tx.fee ∧
      feeValue c tx.fee ≤ (c.maxTxFee : Int) * Dec.P ∧
      (execSpec c tx.msgs : Int) * Dec.P ≤ feeValue c tx.fee := by
  have h64 : 0 + execSpec c tx.msgs < two64 := by have := two63_lt_two64; omega
  have hreq' : execReq c tx.msgs 0 = execSpec c tx.msgs := by rw [execReq_nowrap c tx.msgs 0 h64]; omega
  unfold validateFee
  rw [hreq', toI64_of_lt hmin, toI64_of_lt hmax, toI64_of_lt hreq]
  unfold Dec.ofInt
  constructor
  · intro h
    split at h
    · cases h
    · rename_i v hv
      obtain ⟨hok, hval⟩ := feeLoop_ok c tx.fee 0 v hv
      have hv' : v = feeValue c tx.fee := by rw [hval]; exact Int.zero_add _
      subst hv'
      split at h
      · cases h
      · rename_i hr
        split at h
        · cases h
        · rename_i he
          simp only [Bool.or_eq_true, decide_eq_true_eq, not_or, Int.not_lt] at hr
          exact ⟨hok, hr.1, by omega, by omega⟩
  · rintro ⟨hok, h1, h2, h3⟩
    rw [feeLoop_of_ok c tx.fee 0 hok]
    have hr : ¬ ((decide (0 + feeValue c tx.fee < ↑c.minTxFee * Dec.P) || decide (0 + feeValue c tx.fee > ↑c.maxTxFee * Dec.P)) = true) := by
      simp only [Bool.or_eq_true, decide_eq_true_eq, not_or]
      constructor <;> omega
    have he : ¬ (0 + feeValue c tx.fee < ↑(execSpec c tx.msgs) * Dec.P) := by omega
    simp only [hr, he, if_false, Bool.false_eq_true]


/-- non-vacuity: the default genesis configuration, a bank send with the default minimum fee -/
def cfg0 : Cfg := { tokens := [⟨"ukex", Dec.one, true⟩, ⟨"ubtc", 10 * Dec.one, true⟩, ⟨"frozen", Dec.one, true⟩],
                    black := ["frozen"], white := ["ukex"], execFees := [⟨"send", 10, 5⟩] }
def tx0 : Tx := ⟨[⟨"send", .send [("ukex", 5)] 2, 1⟩], [("ukex", 100)], 1⟩
example : validateFee cfg0 tx0 = .ok () := by decide
example : cfg0.minTxFee < two63 ∧ cfg0.maxTxFee < two63 ∧ execSpec cfg0 tx0.msgs < two63 := by decide
example : validateFee cfg0 { tx0 with fee := [("ukex", 99)] } = .error .feeRange := by decide
example : validateFee cfg0 { tx0 with fee := [("ubtc", 10)] } = .ok () := by decide
example : validateFee cfg0 { tx0 with fee := [("frozen", 100)] } = .error .feeFrozen := by decide

/-! ## the wrap-around corners of the casts, stated separately -/

/-- an execution fee of 2^63 (a legal `uint64`) is read as a negative `int64` -/
def cfgWrapExec : Cfg := { cfg0 with execFees := [⟨"send", two63, 1⟩] }

/-- **Wrap-around changes the decision (accepting direction).** With an execution fee ≥ 2^63 registered, a
transaction is accepted although its fee does not cover the execution fee of its message. The hypothesis
`execSpec < 2^63` of `accept_iff_spec` cannot be dropped. Replayed on the real code by `harness/c09.go`
(finding `C09/exec-fee/uint64-wraparound`). -/
theorem accept_wraparound_counterexample :
    validateFee cfgWrapExec tx0 = .ok () ∧
    ¬ ((execSpec cfgWrapExec tx0.msgs : Int) * Dec.P ≤ feeValue cfgWrapExec tx0.fee) := by decide

/-- two execution fees of 2^63 each add up to 0 in `uint64` -/
def cfgWrapSum : Cfg := { cfg0 with execFees := [⟨"send", two63, 1⟩, ⟨"multisend", 1, two63⟩] }
def txWrapSum : Tx := ⟨[⟨"send", .send [("ukex", 5)] 2, 1⟩, ⟨"multisend", .multisend [("ukex", 5)] 2, 1⟩], [("ukex", 100)], 1⟩
theorem accept_wraparound_sum_counterexample :
    execReq cfgWrapSum txWrapSum.msgs 0 = 0 ∧ validateFee cfgWrapSum txWrapSum = .ok () ∧
    execSpec cfgWrapSum txWrapSum.msgs = two64 := by decide

/-- **Wrap-around changes the decision (rejecting direction).** `MaxTxFee ≥ 2^63` passes
`ValidateNetworkProperties` but is read as a negative bound: a fee inside `[MinTxFee, MaxTxFee]` that
satisfies every other condition is rejected (no transaction can be accepted at all). -/
def cfgWrapMax : Cfg := { cfg0 with maxTxFee := two63 }
theorem reject_wraparound_counterexample :
    validateFee cfgWrapMax tx0 = .error .feeRange ∧
    ((∀ x ∈ tx0.fee, x.1 = cfgWrapMax.native) ∧ (cfgWrapMax.minTxFee : Int) * Dec.P ≤ feeValue cfgWrapMax tx0.fee ∧
      feeValue cfgWrapMax tx0.fee ≤ (cfgWrapMax.maxTxFee : Int) * Dec.P ∧
      (execSpec cfgWrapMax tx0.msgs : Int) * Dec.P ≤ feeValue cfgWrapMax tx0.fee) := by
  decide


/-- both fee bounds at 2^63 and above (legal `uint64` values that `ValidateNetworkProperties` accepts) are read as
NEGATIVE `int64` bounds (and so is an execution fee of 2^63); a fee token registered with a negative rate (the registry does not reject one) gives the fee a
negative value that lies between them -/
def cfgWrapBounds : Cfg :=
  { cfg0 with minTxFee := two63 + 1, maxTxFee := two64 - 1, execFees := [⟨"send", two63, 1⟩],
              tokens := [⟨"ukex", Dec.one, true⟩, ⟨"tka", -Dec.one, true⟩] }
def txNegValue : Tx := ⟨[⟨"send", .send [("ukex", 5)] 2, 1⟩], [("tka", 807)], 1⟩

/-- **Wrap-around of the fee bounds (accepting direction).** A transaction whose fee has the value -807 is accepted
although the configured range is [2^63 + 1, 2^64 - 1]: the hypotheses `minTxFee < 2^63`, `maxTxFee < 2^63` of
`accept_iff_spec` cannot be dropped for the range test either (recorded finding `C09/fee-range/int64-cast-of-bounds`). -/
theorem accept_wraparound_bounds_counterexample :
    validateFee cfgWrapBounds txNegValue = .ok () ∧ feeValue cfgWrapBounds txNegValue.fee < 0 ∧
    ¬ ((cfgWrapBounds.minTxFee : Int) * Dec.P ≤ feeValue cfgWrapBounds txNegValue.fee) := by decide

/-! ## charged exactly; failed work leaves no trace -/

theorem deductFee_spec (tx : Tx) (s s' : State) (h : deductFee tx s = .ok s') :
    (∀ d, s'.bal (.user tx.payer) d + amountOf tx.fee d = s.bal (.user tx.payer) d ∧
          s'.bal .feeCollector d = s.bal .feeCollector d + amountOf tx.fee d ∧
          ∀ x, x ≠ .user tx.payer → x ≠ .feeCollector → s'.bal x d = s.bal x d) ∧
    s'.seq = s.seq ∧ s'.hasPubKey = s.hasPubKey ∧ s'.execs = s.execs ∧ s'.hist = s.hist ∧ s'.rest = s.rest := by
  unfold deductFee at h
  split at h
  · rename_i hz
    cases h
    refine ⟨?_, rfl, rfl, rfl, rfl, rfl⟩
    intro d; simp [amountOf_allZero tx.fee hz d]
  · split at h
    · cases h
    · split at h
      · cases h
      · rename_i b hb
        cases h
        refine ⟨?_, rfl, rfl, rfl, rfl, rfl⟩
        exact moveCoins_spec (.user tx.payer) .feeCollector (by intro hh; cases hh) tx.fee s.bal b hb

/-- what the ante chain may change: the admission bookkeeping -/
structure AdmissionOnly (c : Cfg) (tx : Tx) (s s1 : State) : Prop where
  /-- balances: only payer and fee collector, only in the fee denominations, by exactly the declared fee -/
  payer : ∀ d, s1.bal (.user tx.payer) d + amountOf tx.fee d = s.bal (.user tx.payer) d
  collector : ∀ d, s1.bal .feeCollector d = s.bal .feeCollector d + amountOf tx.fee d
  others : ∀ x d, x ≠ .user tx.payer → x ≠ .feeCollector → s1.bal x d = s.bal x d
  /-- sequence number and first-use public key of the signer only -/
  seqPayer : s1.seq tx.payer = s.seq tx.payer + 1
  seqOthers : ∀ i, i ≠ tx.payer → s1.seq i = s.seq i
  pubkeyOthers : ∀ i, i ≠ tx.payer → s1.hasPubKey i = s.hasPubKey i
  /-- execution-fee records: appended, one per message with a fee record, none marked successful -/
  execs : s1.execs = s.execs ++ registerExec c tx.msgs
  /-- nothing else -/
  hist : s1.hist = s.hist
  rest : s1.rest = s.rest

theorem ante_admission_only (c : Cfg) (tx : Tx) (s s1 : State) (h : ante c tx s = .ok s1) :
    AdmissionOnly c tx s s1 := by
  unfold ante at h
  split at h
  · cases h
  · dsimp only at h
    split at h
    · cases h
    · rename_i s2 hd
      split at h
      · cases h
      · split at h
        · cases h
        · cases h
          obtain ⟨hb, hseq, hpk, hex, hh, hr⟩ := deductFee_spec tx _ s2 hd
          exact {
            payer := fun d => (hb d).1
            collector := fun d => (hb d).2.1
            others := fun x d h1 h2 => (hb d).2.2 x h1 h2
            seqPayer := by simp [hseq]
            seqOthers := by intro i hi; simp [hseq, hi]
            pubkeyOthers := by intro i hi; simp [hpk, hi]
            execs := by simp [hex]
            hist := hh
            rest := hr }

/-- **The fee payer is charged exactly the declared fee** (and the fee collector receives exactly it), for
every accepted transaction, whatever its messages do afterwards being a separate branch. -/
theorem charged_exactly (c : Cfg) (tx : Tx) (s s1 : State) (h : ante c tx s = .ok s1) (d : String) :
    s1.bal (.user tx.payer) d + amountOf tx.fee d = s.bal (.user tx.payer) d ∧
    s1.bal .feeCollector d = s.bal .feeCollector d + amountOf tx.fee d :=
  ⟨(ante_admission_only c tx s s1 h).payer d, (ante_admission_only c tx s s1 h).collector d⟩

/-- **A transaction whose messages fail leaves no effect of those messages**: for EVERY message branch
`run` (any message list, any handler behaviour, panics included as errors) that fails after an accepted
ante, the resulting state is the ante's state, which differs from the initial one only in the admission
bookkeeping. -/
theorem failed_tx_frame (c : Cfg) (tx : Tx) (run : State → Except Err State) (s s1 : State) (e : Err)
    (ha : ante c tx s = .ok s1) (hr : run s1 = .error e) :
    runTx c tx run s = (s1, .failed) ∧ AdmissionOnly c tx s s1 := by
  refine ⟨?_, ante_admission_only c tx s s1 ha⟩
  simp [runTx, ha, hr]

/-- a transaction the ante chain rejects leaves no trace at all -/
theorem rejected_tx_unchanged (c : Cfg) (tx : Tx) (run : State → Except Err State) (s : State) (e : Err)
    (ha : ante c tx s = .error e) : runTx c tx run s = (s, .rejected e) := by
  simp [runTx, ha]

/-- accepted transactions pass the fee validator (so `accept_iff_spec` applies to them) -/
theorem ante_validates (c : Cfg) (tx : Tx) (s s1 : State) (h : ante c tx s = .ok s1) : validateFee c tx = .ok () := by
  unfold ante at h
  split at h
  · cases h
  · rename_i hv; exact hv

/-- non-vacuity: an accepted transaction whose message branch fails -/
def s0 : State := { bal := fun a d => if a = .user 1 ∧ d = "ukex" then 1000 else 0 }
def accepted (c : Cfg) (tx : Tx) (s : State) : Bool := match ante c tx s with | .ok _ => true | .error _ => false
example : accepted cfg0 tx0 s0 = true := by decide
example : (runTx cfg0 { tx0 with fee := [("ukex", 99)] } (fun s => .ok s) s0).2 = .rejected .feeRange := by decide
/-- insufficient funds are an ante rejection too (stock `DeductFeeDecorator`) -/
example : (runTx cfg0 { tx0 with fee := [("ukex", 1001)] } (fun s => .ok s) s0).2 = .rejected .funds := by decide
example : (runTx cfg0 tx0 (fun _ => .error .panic) s0).2 = .failed ∧
    (runTx cfg0 tx0 (fun _ => .error .panic) s0).1.bal (.user 1) "ukex" = 900 ∧
    (runTx cfg0 tx0 (fun _ => .error .panic) s0).1.bal .feeCollector "ukex" = 100 ∧
    (runTx cfg0 tx0 (fun _ => .error .panic) s0).1.execs = [⟨"send", 1, false⟩] := by decide


/-! ## execution-fee refunds (x/feeprocessing) -/

def cfgR : Cfg := { cfg0 with execFees := [⟨"claim_councilor", 100, 1⟩] }

/-- what a user holds plus what the fee-payment history says the user paid, per denomination -/
def stake (s : State) (i : Nat) (d : String) : Nat := s.bal (.user i) d + amountOf (s.hist i) d

theorem sendFromCollector_spec (c : Cfg) (s s' : State) (p : Nat) (amt : Coins)
    (h : sendFromCollector c s p amt = .ok s') :
    (∀ i d, stake s' i d = stake s i d) ∧ (∀ i d, amountOf (s'.hist i) d ≤ amountOf (s.hist i) d) ∧
    s'.execs = s.execs := by
  unfold sendFromCollector at h
  split at h
  · cases h
  · rename_i trip ht
    split at h
    · cases h
    · rename_i hany
      have hle : ∀ x ∈ trip, x.2.2 ≤ x.2.1 := by
        intro x hx
        cases hlt : decide (x.2.1 < x.2.2) with
        | false => simpa using hlt
        | true => exact absurd (List.any_eq_true.mpr ⟨x, hx, hlt⟩) hany
      dsimp only at h
      split at h
      · cases h
      · rename_i b hb
        cases h
        have hheld := paybackLoop_held c _ _ _ trip ht
        have hmv := moveCoins_spec .feeCollector (.user p) (by intro hh; cases hh) _ s.bal b hb
        refine ⟨?_, ?_, rfl⟩
        · intro i d
          have hc := trip_conserve trip hle d
          rw [hheld] at hc
          obtain ⟨_, h2, h3⟩ := hmv d
          by_cases hi : i = p
          · subst hi
            simp only [stake, if_true]
            simp only [tripPaid, tripLeft] at hc
            omega
          · have := h3 (.user i) (by intro hh; cases hh) (by intro hh; injection hh with hh; exact hi hh)
            simp only [stake, hi, if_false, this]
        · intro i d
          by_cases hi : i = p
          · subst hi
            have hc := trip_conserve trip hle d
            rw [hheld] at hc
            simp only [tripPaid, tripLeft] at hc
            simp only [if_true]
            omega
          · simp only [hi, if_false]; exact Nat.le_refl _

theorem returnLoop_spec (c : Cfg) (l : List ExecRec) (s s' : State) (h : returnLoop c l s = .ok s') :
    (∀ i d, stake s' i d = stake s i d) ∧ (∀ i d, amountOf (s'.hist i) d ≤ amountOf (s.hist i) d) := by
  induction l generalizing s with
  | nil => simp [returnLoop] at h; subst h; exact ⟨fun _ _ => rfl, fun _ _ => Nat.le_refl _⟩
  | cons r rest ih =>
    simp only [returnLoop] at h
    split at h
    · exact ih s h
    · split at h
      · split at h
        · cases h
        · rename_i s1 hs1
          obtain ⟨a1, a2, _⟩ := sendFromCollector_spec c s s1 _ _ hs1
          obtain ⟨b1, b2⟩ := ih s1 h
          exact ⟨fun i d => by rw [b1, a1], fun i d => Nat.le_trans (b2 i d) (a2 i d)⟩
      · exact ih s h

/-- **Execution-fee refunds never exceed what the payer paid.** For every configuration (any rates, any
execution-fee table, wrap-around included), every list of execution records and every state: whatever
`ProcessExecutionFeeReturn` sends to an account is taken out of that account's recorded fee payments —
balance plus recorded payments is conserved per denomination, so the refund in a denomination is at most
what the account had paid in it (and the records are cleared). -/
theorem refund_le_paid (c : Cfg) (s s' : State) (h : processExecutionFeeReturn c s = .ok s') (i : Nat) (d : String) :
    s'.bal (.user i) d + amountOf (s'.hist i) d = s.bal (.user i) d + amountOf (s.hist i) d ∧
    s'.bal (.user i) d ≤ s.bal (.user i) d + amountOf (s.hist i) d ∧
    s'.execs = [] := by
  unfold processExecutionFeeReturn at h
  split at h
  · cases h
  · rename_i s1 h1
    cases h
    obtain ⟨a1, _⟩ := returnLoop_spec c s.execs s s1 h1
    have := a1 i d
    simp only [stake] at this
    refine ⟨this, ?_, rfl⟩
    show s1.bal (.user i) d ≤ _
    omega

/-- with non-negative fee rates the keeper never tries to pay back more of a coin than the payer holds in
its history (the `Coins.Sub` panic of the keeper is unreachable), and the value paid back is bounded by the
refund amount -/
theorem payback_within_history (c : Cfg) (hr : ∀ t ∈ c.tokens, 0 ≤ t.rate) (total : Int) (ht : 0 ≤ total)
    (hist : Coins) (trip : List (String × Nat × Nat)) (h : paybackLoop c total hist 0 = .ok trip) :
    tripHeld trip = hist ∧ ∀ x ∈ trip, x.2.2 ≤ x.2.1 :=
  ⟨paybackLoop_held c total hist 0 trip h, paybackLoop_paid_le_held c hr total hist 0 ht trip h⟩

example : (∀ t ∈ cfgR.tokens, 0 ≤ t.rate) ∧ (0 : Int) ≤ requested cfgR [("ukex", 99)] := by decide

/-- the refund requested for one record never exceeds the amount the ante chain demanded for that message -/
theorem refundAmount_le_required (f : ExecFee) (success : Bool) : refundAmount f success ≤ (execMax f : Int) := by
  unfold refundAmount execMax
  have h1 := toI64_le (f.fail - f.exec)
  have h2 := toI64_le (f.exec - f.fail)
  cases success <;> simp only [Bool.true_and, Bool.false_and, Bool.not_true, Bool.not_false, Bool.false_eq_true, if_false,
    decide_eq_true_eq] <;> (repeat' split) <;> omega

/-- amount the ante chain demanded for a list of execution records -/
def requiredOf (c : Cfg) : List ExecRec → Nat
  | [] => 0
  | r :: rest => (match execFee? c r.msgType with | none => 0 | some f => execMax f) + requiredOf c rest

/-- the records a transaction registers stand for exactly the execution-fee requirement its fee had to cover
(so, with `refundAmount_le_required` and `accept_iff_spec`, the refunds requested for the records of one
accepted transaction add up to at most the value of the fee it paid) -/
theorem registered_required (c : Cfg) (msgs : List Msg) : requiredOf c (registerExec c msgs) = execSpec c msgs := by
  induction msgs with
  | nil => rfl
  | cons m rest ih =>
    simp only [registerExec, execSpec]
    cases hf : execFee? c m.msgType with
    | none => simp [ih]
    | some f => simp [requiredOf, hf, ih]

/-- in the application as wired, fee payments are deducted by the stock bank keeper and never recorded in
the history: without history nothing is ever paid back -/
theorem refund_zero_without_history (c : Cfg) (s s' : State) (p : Nat) (amt : Coins) (hh : s.hist p = [])
    (h : sendFromCollector c s p amt = .ok s') : s'.bal = s.bal := by
  unfold sendFromCollector at h
  rw [hh] at h
  simp only [paybackLoop, List.any_nil, Bool.false_eq_true, if_false, List.filterMap_nil, moveCoins] at h
  cases h
  rfl

/-- non-vacuity: a failed `claim_councilor` (fee 100/1) is refunded 99 ukex-worth in the coins once paid -/
def sR : State := { bal := fun a _ => if a = .feeCollector then 1000 else 0, hist := fun i => if i = 1 then [("ubtc", 20), ("ukex", 300)] else [],
                    execs := [⟨"claim_councilor", 1, false⟩] }
def refunded (c : Cfg) (s : State) (i : Nat) (d : String) : Option Nat :=
  match processExecutionFeeReturn c s with | .ok s' => some (s'.bal (.user i) d) | .error _ => none
example : refunded cfgR sR 1 "ubtc" = some 9 ∧ refunded cfgR sR 1 "ukex" = some 9 := by decide

/-! ### Application wiring (table `Gen.App`) -/

/-- "a failed transaction leaves no trace": the roll-back of a failed transaction (and of every discarded branch: the
dry-run of a submitted proposal, simulation, CheckTx) restores the key-value store and nothing else, so the claim needs
the application to keep no state outside the store. `Gen.Ambient.processState` lists every keeper / decorator / handler
field that can hold mutable data and every package-level variable that a function writes; the only entry is the upgrade
keeper's handler table (filled once at start-up). -/
theorem no_state_survives_a_rollback : Sekai.Gen.Ambient.processState =
    [("x/upgrade/keeper/keeper.go", "Keeper", "upgradeHandlers", "map[string]types.UpgradeHandler")] := by decide +kernel


/-- The ante chain in the order `Ante.runTx` applies it: fee range, then deduction, then the poor-network and
frozen-token filters, then registration of the execution fee; each exactly once. -/
theorem ante_fee_wiring :
    Sekai.App.inOrder Sekai.Gen.App.anteChain
      ["NewValidateFeeRangeDecorator", "ante.NewDeductFeeDecorator", "NewPoorNetworkManagementDecorator",
       "NewBlackWhiteTokensCheckDecorator", "NewExecutionFeeRegistrationDecorator"] = true := by decide +kernel

/-- the fee-processing EndBlocker (execution-fee return) runs, and after the gov EndBlocker (enactment) -/
theorem feeprocessing_end_wiring :
    Sekai.App.before Sekai.Gen.App.endOrder "govtypes.ModuleName" "feeprocessingtypes.ModuleName" = true := by decide +kernel

/-! ### Key spaces of the stores this model keeps in separate maps (table `Gen.Keys`)

The model keeps each record kind of a module in a field of its own; the module keeps them in ONE store under byte prefixes.
No prefix extends another (checked on the regenerated table), so by `Sekai.Keys.keys_of_different_kinds_differ` a key of one
kind is never a key of another kind. -/

theorem feeprocessing_key_spaces_disjoint : Sekai.Keys.disjoint Sekai.Gen.Keys.stores "feeprocessing" = true := by decide +kernel

theorem gov_key_spaces_disjoint : Sekai.Keys.disjoint Sekai.Gen.Keys.stores "gov" = true := by decide +kernel

end Sekai.Props.C09
