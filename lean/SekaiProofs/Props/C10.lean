import SekaiProofs.Lemmas.MultiStakeRewards
import Sekai.Gen.Keys
import SekaiProofs.Lemmas.Keys
/-! # C10 — Staking pools: shares match stake, pro-rata redemption, rewards reach stakers

Theorems about the executable model `Sekai.Model.MultiStake` / `Sekai.Model.Distr` (which mirror, as coded,
x/multistaking/keeper/{delegation,pool,slash,msg_server}.go, x/multistaking/types/pool.go and
x/distributor/keeper/{distributor,abci,store}.go, and which the correspondence run compares line by line with
the implementation). `run s ops` applies any list of ops — pool creation, delegate, undelegate, slash, share
transfer, claims, pool rewards with autocompounding, `AllocateTokens`, whole `BeginBlocker`/`EndBlocker`s, and any
change of the environment — with write-on-success; the invariants are proved by induction over that list.

Where the code as it is violates the property the full statement is kept as a `def … : Prop`, its negation is
proved from a closed witness (`…_counterexample`, replayed on the real code by harness/c10.go) and the part that
does hold is proved as `…_partial` with the exclusion as an explicit hypothesis. -/
namespace Sekai.Props.C10
open Sekai Sekai.MultiStake AMap

/-! ## witnesses (closed states used by the non-vacuity examples and the counterexamples) -/
def kex : TokInfo := { stakeEnabled := true, stakeMin := 1, stakeCap := Dec.half, feeRate := Dec.one }
def btc : TokInfo := { stakeEnabled := true, stakeMin := 1, stakeCap := Dec.half, feeRate := Dec.one }

/-- two funded accounts, validator 0 active, ukex and ubtc stakeable with stake caps 0.5 + 0.5 -/
def w0 : St :=
  { bank := (({} : Bank).mint (.user 2) [(ukex, 5000), (⟨0, 1⟩, 5000)]).mint (.user 3) [(ukex, 5000)],
    toks := [(0, kex), (1, btc)], vals := [(0, true)], height := 1, now := 1000 }

/-- pool of validator 0, two delegators with 1000 ukex each, then a 50 % slash -/
def wOps : List Op :=
  [.upsert 0 0 true Dec.half, .delegate 2 0 [(ukex, 1000)], .delegate 3 0 [(ukex, 1000)], .slash 0 Dec.half]

def w1 : St := run w0 wOps

/-- the pool after the two delegations … -/
def wPool3 : Pool := { id := 1, val := 0, enabled := true, commission := Dec.half, stake := [(ukex, 2000)], shares := [(⟨1, 0⟩, 2000)] }
/-- … and after the 50 % slash: half of the stake is gone, all 2000 shares are still outstanding -/
def wPool4 : Pool := { id := 1, val := 0, enabled := false, commission := Dec.half, slashed := Dec.half, stake := [(ukex, 1000)], shares := [(⟨1, 0⟩, 2000)] }

theorem inv2_w0 : Inv2 w0 := by
  refine ⟨⟨?_, ?_, ?_, ?_, ?_⟩, ?_⟩
  · intro p hp; cases hp
  · intro p hp; cases hp
  · exact List.Pairwise.nil
  · intro d hd
    have h1 : ¬ (ukex = d) := by intro e; rw [← e] at hd; exact absurd hd (by decide)
    have h2 : ¬ ((⟨0, 1⟩ : Denom) = d) := by intro e; rw [← e] at hd; exact absurd hd (by decide)
    show get [(ukex, 10000), (⟨0, 1⟩, 5000)] d = 0
    simp [get_cons, h1, h2]
  · intro d; exact Nat.zero_le _
  · intro p hp; cases hp

/-! ## (a) share supply = recorded share total, (e) the module account covers stake + undelegations
— for every op sequence -/

/-- **For every pool and staked denomination the bank supply of the pool's share token equals the pool's
recorded share total** — after any sequence of ops from any state satisfying the invariant (e.g. genesis). -/
theorem share_supply_eq_record (s0 : St) (h0 : Inv s0) (ops : List Op) :
    ∀ p ∈ (run s0 ops).pools, ∀ tok : Nat,
      get (run s0 ops).bank.supply ⟨p.id, tok⟩ = get p.shares ⟨p.id, tok⟩ :=
  fun p hp tok => (inv_run ops h0).share p hp ⟨p.id, tok⟩ rfl

/-- share tokens of pools that do not exist have no supply; pool ids and validators are pairwise distinct -/
theorem share_denoms_belong_to_pools (s0 : St) (h0 : Inv s0) (ops : List Op) :
    (∀ d : Denom, (run s0 ops).lastPoolId < d.pool → get (run s0 ops).bank.supply d = 0) ∧
    (run s0 ops).pools.Pairwise (fun p q => p.val ≠ q.val ∧ p.id ≠ q.id) :=
  ⟨(inv_run ops h0).fresh, (inv_run ops h0).distinct⟩

/-- **Module solvency**: the multistaking module account holds at least Σ pool stake + Σ pending undelegations,
per denom — preserved by every op, slashes included (a slash removes exactly what it takes off the record). -/
theorem module_solvent (s0 : St) (h0 : Inv s0) (ops : List Op) (d : Denom) :
    stakeSum (run s0 ops).pools d + undelSum (run s0 ops).undels d ≤ (run s0 ops).bal .ms d :=
  (inv_run ops h0).solv d

/-- the empty (genesis) state satisfies the invariant … -/
theorem inv_genesis : Inv2 ({} : St) := by
  refine ⟨⟨?_, ?_, List.Pairwise.nil, fun _ _ => rfl, fun _ => Nat.le_refl _⟩, ?_⟩ <;> (intro p hp; cases hp)

/-- non-vacuity: … and so does a funded state; four ops later there is a slashed pool with 2000 shares outstanding
whose supply equals the record -/
example : Inv w0 ∧ (run w0 wOps).pools = [wPool4] ∧ get (run w0 wOps).bank.supply ⟨1, 0⟩ = 2000 := by
  refine ⟨inv2_w0.1, by decide +kernel, by decide +kernel⟩

/-! ## (b) pro-rata redemption -/

/-- what a successful `Undelegate` does to the delegator and the pool: it burns `GetPoolCoins(pool, amounts)` of the
delegator's shares and moves `amounts` from the pool's stake into a new undelegation record -/
theorem undelegate_effect {s s' : St} {who val : Nat} {amts : Coins} (h : undelegate s who val amts = some s') :
    ∃ (p : Pool) (pc : Coins), findPool s val = some p ∧ poolCoins p amts = some pc ∧
      (∀ d, s'.bal (.user who) d + get pc d = s.bal (.user who) d) ∧
      (∀ d, get amts d ≤ get p.stake d) ∧
      s'.undels = s.undels ++ [{ id := s.lastUndelId + 1, owner := who, val := val,
                                 expiry := s.now + s.props.unstakingPeriod, amount := amts }] := by
  obtain ⟨p, pc, b1, b2, stake', shares', hp, hpc, hb1, hb2, hst, _, rfl⟩ := undelegate_spec h
  refine ⟨p, pc, hp, hpc, fun d => ?_, fun d => ?_, rfl⟩
  · have h1 := Bank.send_bal hb1 (.user who) d
    have h2 := Bank.burn_bal hb2 (.user who) d
    simp at h1 h2
    show b2.balance (.user who) d + get pc d = s.bank.balance (.user who) d
    omega
  · have := get_subAll hst d; omega

/-- **Full statement**: a delegator redeeming shares receives stake in proportion to the shares given up — never more
than that fraction of the pool's remaining stake, also after a slash:
`stakeOut · totalShares ≤ sharesBurned · totalStake` for every successful undelegation in every reachable state. -/
def C10_full_redeem_pro_rata : Prop :=
  ∀ (s0 : St) (ops : List Op) (who val : Nat) (amts : Coins) (p : Pool) (pc : Coins) (s' : St), Inv2 s0 →
    findPool (run s0 ops) val = some p → poolCoins p amts = some pc →
    undelegate (run s0 ops) who val amts = some s' →
    ∀ tok : Nat, get amts ⟨0, tok⟩ * get p.shares ⟨p.id, tok⟩ ≤ get pc ⟨p.id, tok⟩ * get p.stake ⟨0, tok⟩

/-- **Proved part**: in every reachable state, for every pool that has never been slashed (`Slashed = 0`), shares and
stake are at par and a redemption burns exactly as many shares as the stake it takes — pro rata with equality. -/
theorem redeem_pro_rata_partial (s0 : St) (h0 : Inv2 s0) (ops : List Op) (val : Nat) (amts : Coins)
    (p : Pool) (pc : Coins) (hp : findPool (run s0 ops) val = some p) (hpc : poolCoins p amts = some pc)
    (hunslashed : p.slashed = 0) (tok : Nat) :
    get amts ⟨0, tok⟩ * get p.shares ⟨p.id, tok⟩ ≤ get pc ⟨p.id, tok⟩ * get p.stake ⟨0, tok⟩ := by
  have hpar := (inv2_run ops h0).2 p (findPool_mem hp).1 hunslashed tok
  rw [get_poolCoins_par hpc hunslashed tok, hpar]
  exact Nat.le_refl _

/-- non-vacuity: an unslashed pool with two delegators in which such a redemption succeeds -/
example : ∃ p pc s', findPool (run w0 (wOps.take 3)) 0 = some p ∧ p.slashed = 0 ∧
    poolCoins p [(ukex, 700)] = some pc ∧ undelegate (run w0 (wOps.take 3)) 2 0 [(ukex, 700)] = some s' ∧
    get pc ⟨1, 0⟩ = 700 := by
  cases hu : undelegate (run w0 (wOps.take 3)) 2 0 [(ukex, 700)] with
  | none => exact absurd hu (by decide +kernel)
  | some s' =>
    exact ⟨wPool3, [(⟨1, 0⟩, 700)], s', by decide +kernel, rfl, by decide +kernel, rfl, by decide +kernel⟩

/-- **Counterexample on the code as it is (defect #21)**: after the 50 % slash the pool holds 1000 ukex against 2000
shares; the holder of HALF of the shares undelegates 1000 ukex — the whole remaining stake — and `Undelegate` burns
`1000·(1 − 0.5) = 500` of its shares: `1000 · 2000 ≤ 500 · 1000` is false. -/
theorem undelegate_after_slash_counterexample : ¬ C10_full_redeem_pro_rata := by
  intro hfull
  have hp : findPool (run w0 wOps) 0 = some wPool4 := by decide +kernel
  have hpc : poolCoins wPool4 [(ukex, 1000)] = some [(⟨1, 0⟩, 500)] := by decide +kernel
  cases hu : undelegate (run w0 wOps) 2 0 [(ukex, 1000)] with
  | none => exact absurd hu (by decide +kernel)
  | some s' =>
    have := hfull w0 wOps 2 0 [(ukex, 1000)] _ _ s' inv2_w0 hp hpc hu 0
    revert this
    decide +kernel

/-- … and the account that held the other half of the shares is left with nothing to redeem: the pool's stake is 0 -/
theorem undelegate_after_slash_drains_pool :
    (match undelegate (run w0 wOps) 2 0 [(ukex, 1000)] with
     | some s' => (findPool s' 0).map (fun p => (get p.stake ukex, get p.shares ⟨1, 0⟩, s'.bal (.user 3) ⟨1, 0⟩))
     | none => none) = some (0, 1500, 1000) := by decide +kernel

/-! ## (c) claims: only after the period, exactly once, only by the account that undelegated -/

/-- **`ClaimUndelegation` succeeds only if the record exists, the sender is its recorded owner and the block time has
reached its expiry; it then pays exactly the recorded amount from the module to that owner and removes the record, so
that no second claim of the same id — by anyone — can succeed.** For all states. -/
theorem claim_after_period_once_by_owner {s s' : St} {who id : Nat} (h : claimUndel s who id = some s') :
    ∃ u : Undel, s.undels.find? (fun u => u.id == id) = some u ∧ u.owner = who ∧ u.expiry ≤ s.now ∧
      (∀ d, s'.bal (.user who) d = s.bal (.user who) d + get u.amount d) ∧
      (∀ d, s'.bal .ms d + get u.amount d = s.bal .ms d) ∧
      (∀ u' ∈ s'.undels, u'.id ≠ id) ∧
      (∀ who' : Nat, claimUndel s' who' id = none) := by
  obtain ⟨u, b, hu, ho, he, hb, rfl⟩ := claimUndel_spec h
  have hgone : ∀ u' ∈ s.undels.filter (fun u => u.id != id), u'.id ≠ id := by
    intro u' hu'
    have := (List.mem_filter.mp hu').2
    simpa using this
  refine ⟨u, hu, ho, he, fun d => ?_, fun d => ?_, hgone, fun who' => ?_⟩
  · have := Bank.send_bal hb (.user who) d
    simp at this
    show b.balance (.user who) d = s.bank.balance (.user who) d + get u.amount d
    omega
  · have := Bank.send_bal hb .ms d
    simp at this
    show b.balance .ms d + get u.amount d = s.bank.balance .ms d
    omega
  · unfold claimUndel
    have : (s.undels.filter (fun u => u.id != id)).find? (fun u => u.id == id) = none := by
      rw [List.find?_eq_none]
      intro u' hu'
      have := hgone u' hu'
      simpa using this
    show (match (s.undels.filter (fun u => u.id != id)).find? (fun u => u.id == id) with
      | none => none
      | some u => _) = none
    rw [this]

/-- the converse, in every reachable state: the recorded owner CAN claim a matured undelegation (the module holds the
funds by solvency) -/
theorem owner_can_claim_matured (s0 : St) (h0 : Inv s0) (ops : List Op) (id : Nat) (u : Undel)
    (hu : (run s0 ops).undels.find? (fun u => u.id == id) = some u) (ht : u.expiry ≤ (run s0 ops).now) :
    ∃ s', claimUndel (run s0 ops) u.owner id = some s' := by
  have hinv := inv_run ops h0
  have hcov : ∀ d, get u.amount d ≤ (run s0 ops).bank.balance .ms d := by
    intro d
    have h1 := hinv.solv d
    have h2 := undelSum_filter hu d
    omega
  obtain ⟨b, hb⟩ := Bank.send_of_ge (run s0 ops).bank .ms (.user u.owner) u.amount hcov
  refine ⟨{ run s0 ops with bank := b, undels := (run s0 ops).undels.filter (fun u => u.id != id) }, ?_⟩
  unfold claimUndel
  rw [hu]
  simp only [ne_eq, not_true_eq_false, if_false]
  rw [if_neg (by omega), hb]

/-- an undelegation record is created with the undelegating account as owner and `expiry = now + UnstakingPeriod`
(see `undelegate_effect`); non-vacuity of the claim theorem: undelegate, wait for the period, claim; a stranger and an
early claim are rejected -/
example :
    let s1 := run w0 (wOps.take 3 ++ [.undelegate 2 0 [(ukex, 700)]])
    let late : St := { s1 with now := s1.now + s1.props.unstakingPeriod }
    (claimUndel s1 2 1).isNone ∧ (claimUndel late 3 1).isNone ∧ (claimUndel late 2 1).isSome ∧
      (((claimUndel late 2 1).bind fun s2 => claimUndel s2 2 1).isNone) := by decide +kernel

/-! ## (d) what the reward split credits is bounded by the allocation -/

/-- the pool's `StakeCap`s are what `UpsertTokenInfo` enforces: each non-negative, their sum at most 1 -/
def capsOk (s : St) : Prop := (∀ t ∈ s.toks, 0 ≤ t.2.stakeCap) ∧ (s.toks.map (fun t => t.2.stakeCap)).sum ≤ Dec.one

/-- **Full statement**: the total `IncreasePoolRewards` credits to the pool's delegators in a reward denom never
exceeds the allocation in that denom (holdings of the registered delegators never exceed the recorded share totals). -/
def C10_full_alloc_bounded : Prop :=
  ∀ (s : St) (delegs : List Nat) (rewards shares : Coins) (credits : List (Nat × Coins)) (d : Denom),
    capsOk s → (∀ sd total, (sd, total) ∈ shares → sumOver delegs (fun a => s.bal (.user a) sd) ≤ total) →
    poolCredits s delegs rewards shares = some credits → creditSum credits d ≤ get rewards d

/-- **Proved bound**: Σ credited ≤ Σ over the pool's share denoms of `RoundInt(reward · StakeCap)` — the integer
division of the per-delegator split never over-credits a denom's part. -/
theorem alloc_bounded_by_rounded_parts {s : St} {delegs : List Nat} {rewards shares : Coins}
    {credits : List (Nat × Coins)} (h : poolCredits s delegs rewards shares = some credits)
    (hb : ∀ sd total, (sd, total) ∈ shares → sumOver delegs (fun a => s.bal (.user a) sd) ≤ total) (d : Denom) :
    creditSum credits d ≤ allocSum s rewards d shares :=
  poolCredits_le h hb d

/-- **Proved part** (`alloc_bounded`): … hence Σ credited ≤ the allocation exactly when the per-denom rounded parts do
not already exceed it (a decidable condition on the pool's share denoms and the reward amount) -/
theorem alloc_bounded_partial {s : St} {delegs : List Nat} {rewards shares : Coins}
    {credits : List (Nat × Coins)} (h : poolCredits s delegs rewards shares = some credits)
    (hb : ∀ sd total, (sd, total) ∈ shares → sumOver delegs (fun a => s.bal (.user a) sd) ≤ total) (d : Denom)
    (hround : allocSum s rewards d shares ≤ get rewards d) : creditSum credits d ≤ get rewards d :=
  Nat.le_trans (poolCredits_le h hb d) hround

/-- the exclusion is empty for a pool with a single staked denom whose cap is in [0, 1] -/
theorem alloc_bounded_single_denom {s : St} {delegs : List Nat} {rewards : Coins} {sd : Denom} {total : Nat}
    {credits : List (Nat × Coins)} (h : poolCredits s delegs rewards [(sd, total)] = some credits)
    (hb : sumOver delegs (fun a => s.bal (.user a) sd) ≤ total)
    (hcap : ∀ ti, s.tokInfo ⟨0, sd.tok⟩ = some ti → 0 ≤ ti.stakeCap ∧ ti.stakeCap ≤ Dec.one) (d : Denom) :
    creditSum credits d ≤ get rewards d := by
  apply alloc_bounded_partial h (fun sd' t' hm => by
    simp only [List.mem_singleton, Prod.mk.injEq] at hm; obtain ⟨rfl, rfl⟩ := hm; exact hb) d
  unfold allocSum allocSum denomPart
  split
  · exact Nat.zero_le _
  · rename_i ti hti
    split
    · exact Nat.zero_le _
    · split
      · exact Nat.zero_le _
      · split
        · exact Nat.zero_le _
        · rename_i alloc hal
          have := denomAllocation_le (hcap ti hti).1 (hcap ti hti).2 hal d
          omega

/-- the witness of the over-credit: one delegator holds all 1000 + 1000 shares of a pool staked in two denoms with
caps 0.5 + 0.5; an allocation of 3 ukex is split into RoundInt(1.5) + RoundInt(1.5) = 2 + 2 -/
def wCredit : St := run w0 [.upsert 0 0 true Dec.half, .delegate 2 0 [(ukex, 1000), (⟨0, 1⟩, 1000)]]

/-- **Counterexample (defect #22)**: 4 ukex credited out of an allocation of 3. -/
theorem alloc_over_credit_counterexample : ¬ C10_full_alloc_bounded := by
  intro hfull
  have hc : capsOk wCredit := by
    refine ⟨?_, by decide +kernel⟩
    intro t ht
    have hall : wCredit.toks.all (fun t => decide (0 ≤ t.2.stakeCap)) = true := by decide +kernel
    have := List.all_eq_true.mp hall t ht
    simpa using this
  have := hfull wCredit [2] [(ukex, 3)] [(⟨1, 0⟩, 1000), (⟨1, 1⟩, 1000)]
    [(2, [(ukex, 2)]), (2, [(ukex, 2)])] ukex hc
    (by
      intro sd total hm
      simp only [List.mem_cons, Prod.mk.injEq, List.not_mem_nil, or_false] at hm
      rcases hm with ⟨rfl, rfl⟩ | ⟨rfl, rfl⟩ <;> decide +kernel)
    (by decide +kernel)
  revert this
  decide +kernel

/-- non-vacuity of the proved part: the same pool with an allocation of 4 ukex (2 + 2 = 4 ≤ 4) -/
example : ∃ credits, poolCredits wCredit [2] [(ukex, 4)] [(⟨1, 0⟩, 1000), (⟨1, 1⟩, 1000)] = some credits ∧
    allocSum wCredit [(ukex, 4)] ukex [(⟨1, 0⟩, 1000), (⟨1, 1⟩, 1000)] ≤ get [(ukex, 4)] ukex ∧ creditSum credits ukex = 4 :=
  ⟨[(2, [(ukex, 2)]), (2, [(ukex, 2)])], by decide +kernel, by decide +kernel, by decide +kernel⟩

/-- the proposer's own part and the pool's part of one fee coin add up to its cut, and the cut never exceeds the
collected amount as long as the proposer has at most `snapPeriod` vote records (what `BeginBlocker`'s pruning keeps) -/
theorem fee_cut_bounded (amount pw snap : Nat) (share : Dec.D) (hs : 0 < snap) (hp : pw ≤ snap) :
    (feeCut amount pw snap share).1 + (feeCut amount pw snap share).2 = ((amount * pw / snap : Nat) : Int) ∧
    amount * pw / snap ≤ amount := by
  refine ⟨by unfold feeCut; simp only; omega, ?_⟩
  have : amount * pw ≤ amount * snap := Nat.mul_le_mul_left _ hp
  calc amount * pw / snap ≤ amount * snap / snap := Nat.div_le_div_right this
    _ = amount := Nat.mul_div_cancel _ hs

/-- and the validator's own part is within `[0, cut]` for a fee share in [0, 1] -/
theorem validator_part_bounded (amount pw snap : Nat) (share : Dec.D) (h0 : 0 ≤ share) (h1 : share ≤ Dec.one) :
    0 ≤ (feeCut amount pw snap share).1 ∧ (feeCut amount pw snap share).1 ≤ ((amount * pw / snap : Nat) : Int) := by
  unfold feeCut
  simp only
  have hP := P_pos
  have hnn : 0 ≤ ((amount * pw / snap : Nat) : Int) * share := Int.mul_nonneg (Int.natCast_nonneg _) h0
  have hmul : Dec.mul (Dec.ofInt ((amount * pw / snap : Nat) : Int)) share = ((amount * pw / snap : Nat) : Int) * share := by
    unfold Dec.mul Dec.ofInt
    have : ((amount * pw / snap : Nat) : Int) * Dec.P * share = (((amount * pw / snap : Nat) : Int) * share) * Dec.P := by
      rw [Int.mul_assoc, Int.mul_comm Dec.P share, ← Int.mul_assoc]
    rw [this, chopRound_mul_P _ hnn]
  unfold Dec.roundInt
  rw [hmul]
  exact ⟨chopRound_nonneg _ hnn,
    chopRound_le _ _ hnn (Int.mul_le_mul_of_nonneg_left h1 (Int.natCast_nonneg _))⟩

example : feeCut 1001 3 5 Dec.half = (300, 300) := by decide +kernel

/-! ## (f) rewards reach the proposer — they do not: the vote wipe -/

/-- **Full statement**: a proposer that has been signing is credited a positive amount whenever there is something to
distribute — here in its simplest instance: validator `p` is listed in the commit of block `h`, proposes it, a fee of
at least 2 ukex is collected, the snapshot window is 1 block and the validators' fee share is 50 %; then the next
block's `BeginBlocker` must increase `p`'s balance. -/
def C10_full_proposer_paid : Prop :=
  ∀ (s s1 s2 s3 : St) (h t t' p q payer fee : Nat) (commit commit' : List Nat),
    s.vals.lookup p = some true → s.snapPeriod = 1 → s.props.validatorsFeeShare = Dec.half → p ∈ commit → 2 ≤ fee →
    beginBlock s h t p commit = some s1 →
    payFee (endBlock s1) payer [(ukex, fee)] = some s2 →
    beginBlock s2 (h + 1) t' q commit' = some s3 →
    s2.bal (.user p) ukex < s3.bal (.user p) ukex

/-- **`EndBlocker` deletes every vote record the next `AllocateTokens` would count** (defect #5): after the
`BeginBlocker` and `EndBlocker` of one block the set of vote records is empty, whatever the commit contained. -/
theorem endblock_wipes_vote_records {s s1 : St} {h t p : Nat} {commit : List Nat}
    (hb : beginBlock s h t p commit = some s1) : (endBlock s1).votes = [] ∧ ∀ v, power (endBlock s1) v = 0 :=
  ⟨endBlock_wipes_votes hb, fun v => power_of_no_votes (endBlock_wipes_votes hb) v⟩

/-- … hence the previous proposer's weight in the next block's allocation is 0 and **nobody is credited anything**:
no user balance and no recorded delegator reward changes in that `BeginBlocker`, whatever was collected. -/
theorem next_block_pays_nobody {s2 s3 : St} {h t q : Nat} {commit : List Nat} (hv : s2.votes = [])
    (hb : beginBlock s2 h t q commit = some s3) :
    s3.rewards = s2.rewards ∧ ∀ (i : Nat) (d : Denom), s3.bal (.user i) d = s2.bal (.user i) d := by
  unfold beginBlock at hb
  dsimp only at hb
  split at hb
  · cases hb
  · rename_i s1' hs1
    cases hb
    split at hs1
    · split at hs1
      · cases hs1
      · have := allocate_without_votes (s := { s2 with height := h, now := t })
          (power_of_no_votes (by exact hv) _) hs1
        exact ⟨this.1, fun i d => this.2 i d⟩
    · cases hs1; exact ⟨rfl, fun _ _ => rfl⟩

/-- fee payments (and every other tx-level bank movement between the blocks) do not create vote records -/
theorem payFee_votes {s s' : St} {a : Nat} {c : Coins} (h : payFee s a c = some s') : s'.votes = s.votes := by
  unfold payFee at h
  split at h
  · cases h
  · split at h
    · cases h
    · cases h; rfl

/-- **Counterexample (defect #5)**: the proposer is never paid — the full statement fails for EVERY run of its shape. -/
theorem proposer_never_paid (s s1 s2 s3 : St) (h t t' p q payer fee : Nat) (commit commit' : List Nat)
    (hb1 : beginBlock s h t p commit = some s1) (hf : payFee (endBlock s1) payer [(ukex, fee)] = some s2)
    (hb2 : beginBlock s2 (h + 1) t' q commit' = some s3) :
    s3.bal (.user p) ukex = s2.bal (.user p) ukex := by
  have hv : s2.votes = [] := by rw [payFee_votes hf]; exact endBlock_wipes_votes hb1
  exact (next_block_pays_nobody hv hb2).2 p ukex

/-- a closed run of the shape the full statement talks about (it exists: the statement is not vacuous) -/
def wBlk : St := { w0 with snapPeriod := 1, periodic := some (0, 0), yearStart := some (0, 0) }

theorem proposer_paid_counterexample : ¬ C10_full_proposer_paid := by
  intro hfull
  cases h1 : beginBlock wBlk 1 1006 0 [0] with
  | none => exact absurd h1 (by decide +kernel)
  | some s1 =>
    cases h2 : payFee (endBlock s1) 2 [(ukex, 1000)] with
    | none =>
      have : (beginBlock wBlk 1 1006 0 [0]).bind (fun s1 => payFee (endBlock s1) 2 [(ukex, 1000)]) ≠ none := by decide +kernel
      rw [h1] at this
      exact absurd h2 this
    | some s2 =>
      cases h3 : beginBlock s2 2 1012 0 [0] with
      | none =>
        have : ((beginBlock wBlk 1 1006 0 [0]).bind (fun s1 => payFee (endBlock s1) 2 [(ukex, 1000)])).bind
            (fun s2 => beginBlock s2 2 1012 0 [0]) ≠ none := by decide +kernel
        rw [h1] at this
        simp only [Option.bind_some] at this
        rw [h2] at this
        exact absurd h3 this
      | some s3 =>
        have hlt := hfull wBlk s1 s2 s3 1 1006 1012 0 0 2 1000 [0] [0] (by decide +kernel) rfl rfl
          (by simp) (by omega) h1 h2 h3
        have heq := proposer_never_paid wBlk s1 s2 s3 1 1006 1012 0 0 2 1000 [0] [0] h1 h2 h3
        omega

/-- **Proved part**: with `pw ≥ 1` vote records the validator-reward list built by the fee loop of `AllocateTokens`
contains, for every collected coin whose cut `amount·pw/snapPeriod` has a positive rounded validator share, a positive
amount of that denom (this is what `AllocateTokensToValidator` then sends). The sub-threshold case — e.g. 200 ukex,
one record, window 1000 — is excluded by the hypothesis, not hidden. -/
theorem proposer_paid_partial (pw snap : Nat) (share : Dec.D) (fees : Coins) (d : Denom) (n : Nat)
    (hm : (d, n) ∈ fees) (hpos : 0 < (feeCut n pw snap share).1) :
    0 < get (feeRewards pw snap share fees).1 d := by
  induction fees with
  | nil => cases hm
  | cons x r ih =>
    obtain ⟨d0, n0⟩ := x
    unfold feeRewards
    simp only
    rcases List.mem_cons.mp hm with e | hm'
    · have hd : d0 = d := (Prod.mk.inj e).1.symm
      have hn : n0 = n := (Prod.mk.inj e).2.symm
      subst hd; subst hn
      rw [if_pos hpos, get_cons, if_pos rfl]
      have : 0 < (feeCut n0 pw snap share).1.toNat := by omega
      omega
    · have := ih hm'
      split
      · rw [get_cons]; omega
      · exact this

/-- non-vacuity: three records in a window of five, 1001 ukex collected, fee share 50 % → the validator's part is 300 -/
example : 0 < (feeCut 1001 3 5 Dec.half).1 ∧ get (feeRewards 3 5 Dec.half [(ukex, 1001)]).1 ukex = 300 := by
  decide +kernel

/-! ### the token registry's stake-cap rule (x/tokens UpsertTokenInfo) -/

/-- **the registry keeps the hypothesis of the reward bound**: an accepted `UpsertTokenInfo` with a non-negative cap
leaves every cap non-negative and their sum - over all registered tokens, stake-enabled or not - at most 1 -/
theorem upsertTok_keeps_capsOk (s s' : St) (id : Nat) (ti : TokInfo) (h : capsOk s) (hn : 0 ≤ ti.stakeCap)
    (hu : upsertTok s id ti = some s') : capsOk s' := by
  unfold upsertTok at hu
  simp only at hu
  split at hu
  · rename_i hsum
    cases hu
    refine ⟨?_, hsum⟩
    intro t ht
    simp only [List.mem_append, List.mem_filter, List.mem_singleton] at ht
    rcases ht with ⟨hm, _⟩ | rfl
    · exact h.1 t hm
    · exact hn
  · cases hu

/-- the message path needs no side condition: `ValidateBasic` of `MsgUpsertTokenInfo` refuses a cap outside [0, 1] for
every token - stakeable or not - so a registration by message keeps `capsOk` as it is -/
theorem registerTok_keeps_capsOk (s s' : St) (id : Nat) (ti : TokInfo) (h : capsOk s)
    (hu : registerTok s id ti = some s') : capsOk s' := by
  unfold registerTok at hu
  split at hu
  · cases hu
  · split at hu
    · cases hu
    · rename_i hneg
      split at hu
      · cases hu
      · split at hu
        · cases hu
        · exact upsertTok_keeps_capsOk s s' id ti h (Int.not_lt.mp hneg) hu

/-- a token that cannot be staked is held to the same range: a negative cap would cancel the caps of the others in the
registry's sum (-0.85 next to 0.5 + 0.25 + 0.1 leaves room for a further token at 100 %) -/
example :
    let s : St := { toks := [(0, ⟨true, 1, (5 * 10^17 : Int), 1⟩)] }
    registerTok s 6 ⟨false, 1, (-85 * 10^16 : Int), 1⟩ = none ∧
    (registerTok s 6 ⟨false, 1, (25 * 10^16 : Int), 1⟩).isSome = true := by decide +kernel

/-- what the range is for: with every cap non-negative, ANY selection of registered tokens - the ones a given pool
happens to hold - carries caps that add up to at most the registry's total, hence at most 1 -/
theorem caps_of_any_selection (l sub : List (Nat × TokInfo)) (hs : sub.Sublist l)
    (hn : ∀ t ∈ l, 0 ≤ t.2.stakeCap) :
    (sub.map (fun t => t.2.stakeCap)).sum ≤ (l.map (fun t => t.2.stakeCap)).sum := by
  induction hs with
  | slnil => simp
  | cons a _ ih =>
    have h1 := ih (fun t ht => hn t (List.mem_cons_of_mem _ ht))
    have ha : (0 : Int) ≤ a.2.stakeCap := hn a (List.mem_cons_self ..)
    simp only [List.map_cons, List.sum_cons]
    exact Int.le_trans h1 (Int.le_add_of_nonneg_left ha)
  | cons_cons a _ ih =>
    have h1 := ih (fun t ht => hn t (List.mem_cons_of_mem _ ht))
    simp only [List.map_cons, List.sum_cons]
    exact Int.add_le_add_left h1 _

/-- switching a token's staking off does not take its cap out of the sum: with ukex at 50 % and a disabled token at
25 %, a third token cannot get 50 % -/
example :
    let s : St := { toks := [(0, ⟨true, 1, (5 * 10^17 : Int), 0⟩), (1, ⟨false, 1, (25 * 10^16 : Int), 0⟩)] }
    upsertTok s 3 ⟨true, 1, (5 * 10^17 : Int), 0⟩ = none := by decide +kernel

/-! ## layer2 `MsgMintBurnTx` aimed at a pool's share tokens -/

/-- the pool records are not touched, and the module account keeps everything: staked tokens and pending undelegations
stay covered -/
theorem l2_burn_keeps_pools (s s' : St) (a : Nat) (c : Coins) (h : l2Burn s a c = some s') :
    s'.pools = s.pools ∧ s'.undels = s.undels ∧ s'.delegators = s.delegators ∧ s'.rewards = s.rewards := by
  unfold l2Burn at h
  cases hb : s.bank.burn (.user a) c with
  | none => rw [hb] at h; cases h
  | some b => rw [hb] at h; cases h; exact ⟨rfl, rfl, rfl, rfl⟩

/-- … but clause (a) - share supply EQUAL to the recorded share total - is lost on the code as it is: after the first
delegation of the witness history (1000 shares outstanding, 1000 recorded) the delegator burns 400 of them through the
layer2 module: the supply is 600, the pool still records 1000 (finding `C10/l2-burn/share-supply-below-record`) -/
theorem l2_burn_share_supply_counterexample :
    let s := run w0 (wOps.take 2)
    AMap.get s.bank.supply ⟨1, 0⟩ = 1000 ∧ (findPool s 0).map (fun p => AMap.get p.shares ⟨1, 0⟩) = some 1000 ∧
    (l2Burn s 2 [(⟨1, 0⟩, 400)]).map (fun s' => (AMap.get s'.bank.supply ⟨1, 0⟩, (findPool s' 0).map (fun p => AMap.get p.shares ⟨1, 0⟩)))
      = some (600, some 1000) := by decide +kernel

/-! ### Key spaces of the stores this model keeps in separate maps (table `Gen.Keys`)

The model keeps each record kind of a module in a field of its own; the module keeps them in ONE store under byte prefixes.
No prefix extends another (checked on the regenerated table), so by `Sekai.Keys.keys_of_different_kinds_differ` a key of one
kind is never a key of another kind. -/

theorem multistaking_key_spaces_disjoint : Sekai.Keys.disjoint Sekai.Gen.Keys.stores "multistaking" = true := by decide +kernel

end Sekai.Props.C10
