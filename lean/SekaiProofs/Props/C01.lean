import Sekai.Model.Replica
import Sekai.Gen.Ambient
import Sekai.Model.Perm
import Sekai.Model.Gov
import Sekai.Model.Stake
import Sekai.Gen.App
import Sekai.Model.App
/-! # C01 — Replicated execution is deterministic

* `run_env_irrelevant`: if no handler reads the environment, every run of every block history gives the same
  state and the same outputs on every replica, whatever each replica's wall clock, map seed or process is.
* `old_poll_not_env_indep` / `new_poll_env_indep`: the poll deadline read from the wall clock (before fix 0c929fb)
  is the shape that breaks it; read from the block time it does not.
* the obligations over the table REGENERATED from the source (typed): no wall-clock / randomness / environment /
  goroutine read in consensus code; every `range` over a Go map is one of the listed order-insensitive loops; the
  protobuf messages with map fields (marshalled in Go map order) are the listed ones — those stored by the custody
  keeper are a recorded finding. -/
namespace Sekai.Props.C01
open Sekai.Replica

theorem run_env_irrelevant {Env State Block Out} (m : Machine Env State Block Out) (h : EnvIndep m)
    (envA envB : Nat → Env) (bs : List Block) (s : State) (h0 : Nat) :
    run m envA h0 s bs = run m envB h0 s bs := by
  induction bs generalizing s h0 with
  | nil => rfl
  | cons b rest ih =>
    have e : m.step (envA h0) s b = m.step (envB h0) s b := h (envA h0) (envB h0) s b
    unfold run
    rw [e]
    cases hstep : m.step (envB h0) s b with
    | mk s1 o => simp only; rw [ih]

/-- k replicas, re-runs: any two environments agree, so all of them do -/
theorem replicas_agree {Env State Block Out} (m : Machine Env State Block Out) (h : EnvIndep m)
    (envs : List (Nat → Env)) (bs : List Block) (s : State) :
    ∀ ea ∈ envs, ∀ eb ∈ envs, run m ea 0 s bs = run m eb 0 s bs :=
  fun ea _ eb _ => run_env_irrelevant m h ea eb bs s 0

theorem old_poll_not_env_indep : ¬ EnvIndep oldPollCreate := by
  intro h
  have := h ⟨1⟩ ⟨2⟩ [] 10
  simp [oldPollCreate] at this

theorem new_poll_env_indep : EnvIndep newPollCreate := fun _ _ _ _ => rfl

/-- two replicas with different clocks diverge on the old code, on a one-block history -/
example : run oldPollCreate (fun _ => ⟨100⟩) 0 [] [5] ≠ run oldPollCreate (fun _ => ⟨101⟩) 0 [] [5] := by decide

/-! ## the modelled handlers take no environment at all: wrapped as machines they are `EnvIndep` by construction -/

def permMachine (Env : Type) : Machine Env Sekai.Perm.St Sekai.Perm.Op Bool :=
  { step := fun _ s op => match Sekai.Perm.step s op with | some s' => (s', true) | none => (s, false) }
theorem perm_env_indep (Env : Type) : EnvIndep (permMachine Env) := fun _ _ _ _ => rfl

def stakeMachine (Env : Type) (p : Sekai.Stake.Params) : Machine Env Sekai.Stake.S Sekai.Stake.Op Bool :=
  { step := fun _ s op => match Sekai.Stake.step p s op with | some s' => (s', true) | none => (s, false) }
theorem stake_env_indep (Env : Type) (p : Sekai.Stake.Params) : EnvIndep (stakeMachine Env p) := fun _ _ _ _ => rfl

/-! ## obligations over the regenerated table -/

/-- no wall-clock, randomness, environment or goroutine use in consensus code; the three `math/rand` imports are the
simulation stubs of module.go files (AppModuleSimulation), which block processing never calls -/
theorem no_ambient_reads : Sekai.Gen.Ambient.reads = [
    ("rand", "x/evidence/module.go", "-", "import math/rand"),
    ("rand", "x/recovery/module.go", "-", "import math/rand"),
    ("rand", "x/slashing/module.go", "-", "import math/rand")] := by decide +kernel

/-- every `range` over a map in consensus code (typed extraction), with the hash of its loop body. Each was read and
is order-insensitive: map→map copies (app.go), store writes under distinct keys (gov InitGenesis), the two passes of
CheckIfAllowedPermission (all-true then all-false writes: proved order-irrelevant in C07.check_iff_rule), a query
(AllExecutionFees), a CLI helper (WrapInfos) and the poll tally loops (an option above 50 % is unique; the second loop
yields a list of length ≥ 2 for every non-empty vote map whatever the order). A new loop, or a changed body, changes this table. -/
theorem map_ranges_as_reviewed : Sekai.Gen.Ambient.mapRanges = [
    ("app/app.go", "BlockedAddresses", "GetMaccPerms()", "809b185207be"),
    ("app/app.go", "GetMaccPerms", "maccPerms", "fac2042bccf5"),
    ("app/app.go", "SekaiApp.ModuleAccountAddrs", "maccPerms", "809b185207be"),
    ("x/gov/genesis.go", "InitGenesis", "genesisState.DataRegistry", "2e337de03f12"),
    ("x/gov/genesis.go", "InitGenesis", "genesisState.ProposalDurations", "a6997173303e"),
    ("x/gov/genesis.go", "InitGenesis", "genesisState.RolePermissions", "88f2c27b8a46"),
    ("x/gov/keeper/grpc_query.go", "Keeper.AllExecutionFees", "kiratypes.MsgFuncIDMapping", "26c0b6e753b0"),
    ("x/gov/keeper/util.go", "CheckIfAllowedPermission", "roles", "78f2e1b80a17"),
    ("x/gov/keeper/util.go", "CheckIfAllowedPermission", "roles", "1b33bf1d407c"),
    ("x/gov/types/identity_registrar.go", "WrapInfos", "infos", "c504e8f382ec"),
    ("x/gov/types/poll_vote.go", "CalculatedPollVotes.ProcessResult", "c.votes", "3470010cd733"),
    ("x/gov/types/poll_vote.go", "CalculatedPollVotes.ProcessResult", "c.votes", "4698a9ea87a1")] := by decide +kernel

/-- the two helpers whose OUTPUT ORDER follows Go's map order (`WrapInfos` turns a map into a list, `AllExecutionFees`
lists a map) were accepted above because nothing in consensus code calls them (a CLI helper and a query): that premise
is an obligation of its own. `mapRangeCallers` lists, by callee name, every call in consensus code of a function that
ranges over a map. -/
theorem order_sensitive_map_helpers_off_consensus_path :
    Sekai.Gen.Ambient.mapRangeCallers.filter (fun r => r.1 == "WrapInfos" || r.1 == "AllExecutionFees") = [] := by
  decide +kernel

/-- **no application state outside the key-value store.** `processState` lists (1) every field of a keeper, decorator,
handler or msg-server struct whose type can hold mutable data (map, slice, pointer, channel, `sync` / `atomic` types) and
(2) every package-level variable that some function writes. The only entry is the upgrade keeper's handler table, filled
once at start-up (`SetUpgradeHandler` in app.go) and read-only afterwards. State kept in process memory is not part of
the application hash, survives the roll-back of a failed transaction or of a discarded branch (`CacheContext`, the
dry-run of `MsgSubmitProposal`, simulation, CheckTx) and is lost by a restart: two replicas executing the same blocks
can then answer differently (`Replica.run_env_irrelevant` covers exactly the machines whose step reads nothing but the
store and the block). -/
theorem no_state_outside_the_store : Sekai.Gen.Ambient.processState =
    [("x/upgrade/keeper/keeper.go", "Keeper", "upgradeHandlers", "map[string]types.UpgradeHandler")] := by decide +kernel

/-- protobuf messages with map fields. Genesis / query messages are not stored by block processing; the five
custody messages ARE stored by the custody keeper and gogoproto writes their entries in Go map order: two replicas
can store different bytes for the same record (recorded finding `C01/custody/map-marshal-order`). -/
theorem pb_map_fields_as_reviewed : Sekai.Gen.Ambient.pbMapFields = [
    ("x/custody/types/custody.pb.go", "CustodyCustodianList", "Addresses"),
    ("x/custody/types/custody.pb.go", "CustodyLimits", "Limits"),
    ("x/custody/types/custody.pb.go", "CustodyStatuses", "Statuses"),
    ("x/custody/types/custody.pb.go", "CustodyWhiteList", "Addresses"),
    ("x/custody/types/tx.pb.go", "TransactionPool", "Record"),
    ("x/gov/legacy/v01228/genesis.pb.go", "GenesisStateV01228", "DataRegistry"),
    ("x/gov/legacy/v01228/genesis.pb.go", "GenesisStateV01228", "Permissions"),
    ("x/gov/types/genesis.pb.go", "GenesisState", "DataRegistry"),
    ("x/gov/types/genesis.pb.go", "GenesisState", "ProposalDurations"),
    ("x/gov/types/genesis.pb.go", "GenesisState", "RolePermissions"),
    ("x/gov/types/query.pb.go", "QueryAllProposalDurationsResponse", "ProposalDurations"),
    ("x/slashing/types/query.pb.go", "IdentityRecord", "Infos"),
    ("x/tokens/types/query.pb.go", "TokenInfosByDenomResponse", "Data")] := by decide +kernel

/-! ### Application wiring (table `Gen.App`, regenerated from app/app.go and app/ante/ante.go on every run) -/

/-- The ante chain, the Begin/EndBlocker orders, the genesis order and the proposal router are literal lists in the
source (the extractor emits an `unrecognised` row for anything conditional or computed), and no module appears twice
in an order: the sequence in which decorators and modules run is a function of the source alone, the same on every
replica. -/
theorem wiring_is_static :
    (Sekai.App.recognised Sekai.Gen.App.anteChain && Sekai.App.recognised Sekai.Gen.App.beginOrder && Sekai.App.recognised Sekai.Gen.App.endOrder &&
     Sekai.App.recognised Sekai.Gen.App.initOrder && Sekai.App.recognised Sekai.Gen.App.proposalHandlers &&
     Sekai.App.recognised (Sekai.Gen.App.maccPerms.map (·.1)) &&
     Sekai.Gen.App.beginOrder.all (Sekai.App.once Sekai.Gen.App.beginOrder) && Sekai.Gen.App.endOrder.all (Sekai.App.once Sekai.Gen.App.endOrder) &&
     Sekai.Gen.App.initOrder.all (Sekai.App.once Sekai.Gen.App.initOrder)) = true := by decide +kernel

end Sekai.Props.C01
