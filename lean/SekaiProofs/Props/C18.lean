import Sekai.Model.Spend
import Sekai.Model.Ubi
import Sekai.Model.Collect
import SekaiProofs.Lemmas.DecRound
import SekaiProofs.Lemmas.Spend
import Sekai.Gen.Keys
import SekaiProofs.Lemmas.Keys
/-! # C18 — Spending pools, UBI and collectives pay only the entitled and only what is owed

Theorems over the executable models `Sekai.Spend`, `Sekai.Ubi`, `Sekai.Collect` (tied to the Go code by the
differential run of `harness/c18*.go`). Amounts are integers, decimals are scaled by `P = 10^18`; an inequality
`2·P²·paid ≤ 2·rate·seconds·weight + P² + P` is the integer form of `paid ≤ rate·seconds·weight + ½ + ½·10⁻¹⁸`
(the two roundings of `rate.Mul(duration).Mul(weight).RoundInt()`). -/
namespace Sekai.Props.C18
open Sekai Sekai.Spend Sekai.Dec

/-! ## (a) a claim pays at most rate × clipped seconds × weight (+ the rounding slack of the code) -/

/-- the entitled seconds of the property: inside `[max(start, last claim[, last rate calculation]), min(now, end)]`,
at most the pool's claim expiry -/
def entitledSeconds (p : Pool) (last now : Nat) : Int :=
  let start := max (toI64 p.claimStart) (toI64 last)
  let start := if p.dynamicRate then max start (toI64 p.lastDyn) else start
  let stop : Int := if p.claimEnd ≠ 0 ∧ (now : Int) > toI64 p.claimEnd then toI64 p.claimEnd else now
  min (stop - start) (toI64 p.claimExpiry)

/-- the code's clipping computes exactly the entitled seconds, and only when the window is open -/
theorem claimDuration_eq {p : Pool} {last now : Nat} {dur : Int} (h : claimDuration p last now = some dur) :
    dur = entitledSeconds p last now ∧
    max (toI64 p.claimStart) (toI64 last) < (now : Int) ∧
    (p.claimEnd ≠ 0 → max (toI64 p.claimStart) (toI64 last) < toI64 p.claimEnd) := by
  unfold claimDuration at h
  unfold entitledSeconds
  simp only at h ⊢
  cases hd : p.dynamicRate <;> simp only [hd, Bool.false_and, Bool.true_and, Bool.false_eq_true, if_false, if_true, decide_eq_true_eq] at h ⊢ <;>
    (repeat' split at h) <;> (try cases h) <;> (repeat' split) <;> omega

/-- in particular: never more than the expiry, never more than the time since the last claim / the start, never past the end -/
theorem claimDuration_bounds {p : Pool} {last now : Nat} {dur : Int} (h : claimDuration p last now = some dur) :
    dur ≤ toI64 p.claimExpiry ∧ dur ≤ (now : Int) - toI64 last ∧ dur ≤ (now : Int) - toI64 p.claimStart ∧
    (p.claimEnd ≠ 0 → dur ≤ toI64 p.claimEnd - toI64 last ∧ dur ≤ toI64 p.claimEnd - toI64 p.claimStart) := by
  obtain ⟨he, _, _⟩ := claimDuration_eq h
  subst he
  unfold entitledSeconds
  simp only
  cases hd : p.dynamicRate <;> simp only [Bool.false_eq_true, if_false, if_true] <;> (repeat' split) <;> omega

/-- one rate entry: `rate.Mul(NewDec(seconds)).Mul(weight).RoundInt()` is within ½ + ½·10⁻¹⁸ of the exact product -/
theorem entryAmount_le (r dur w : Int) : 2 * P * P * entryAmount r dur w ≤ 2 * (r * dur * w) + P * P + P := by
  unfold entryAmount roundInt
  rw [mul_ofInt]
  unfold mul
  generalize r * dur * w = X
  have h1 := chopRound_upper X
  have h2 := chopRound_upper (chopRound X)
  generalize chopRound (chopRound X) = A at *
  generalize chopRound X = M at *
  unfold P at *
  omega

theorem entryAmount_ge (r dur w : Int) : 2 * (r * dur * w) - P * P - P ≤ 2 * P * P * entryAmount r dur w := by
  unfold entryAmount roundInt
  rw [mul_ofInt]
  unfold mul
  generalize r * dur * w = X
  have h1 := chopRound_lower X
  have h2 := chopRound_lower (chopRound X)
  generalize chopRound (chopRound X) = A at *
  generalize chopRound X = M at *
  unfold P at *
  omega

/-- the entitlement of one denom, ×2·P²: every rate entry of that denom contributes rate·seconds·weight + slack -/
def entBound : List (Denom × Int) → Int → Int → Denom → Int
  | [], _, _, _ => 0
  | (d', r) :: rest, dur, w, d => (if d' = d then 2 * (r * dur * w) + P * P + P else 0) + entBound rest dur w d

theorem paid_le_entBound (rates : List (Denom × Int)) (dur w : Int) (d : Denom)
    (hnn : ∀ e ∈ rewardEntries rates dur w, 0 ≤ e.2) :
    2 * P * P * ((Amt.ofList (toNatCoins (rewardEntries rates dur w)) d : Nat) : Int) ≤ entBound rates dur w d := by
  induction rates with
  | nil => simp [rewardEntries, toNatCoins, Amt.ofList, sumFor, entBound]
  | cons e rest ih =>
    obtain ⟨d', r⟩ := e
    have hnn' : ∀ e ∈ rewardEntries rest dur w, 0 ≤ e.2 := by
      intro e he; apply hnn; simp only [rewardEntries, List.map_cons, List.mem_cons]; right; exact he
    have h0 : 0 ≤ entryAmount r dur w := by
      have := hnn (d', entryAmount r dur w) (by simp [rewardEntries])
      simpa using this
    have ih' := ih hnn'
    have hb := entryAmount_le r dur w
    simp only [rewardEntries, toNatCoins, List.map_cons, Amt.ofList, sumFor, entBound] at ih' ⊢
    have hc : ((entryAmount r dur w).toNat : Int) = entryAmount r dur w := Int.toNat_of_nonneg h0
    generalize sumFor d (List.map (fun e => (e.1, e.2.toNat)) (List.map (fun e => (e.1, entryAmount e.2 dur w)) rest)) = S at *
    generalize entBound rest dur w d = B at *
    generalize entryAmount r dur w = A at *
    generalize r * dur * w = X at *
    by_cases hd : d' = d
    · simp only [hd, if_true]
      rw [Int.natCast_add, hc]
      unfold P at *
      omega
    · simp only [hd, if_false]
      unfold P at *
      omega

/-- **claim_le_entitlement.** A successful claim pays the claimant, per denom, at most
`Σ rate·entitledSeconds·weight + slack` over the pool's rate entries of that denom; the seconds are the clipped
window of the property; nobody else's balance moves. For every pool configuration, state and time. -/
theorem claim_le_entitlement {s s' : State} {n : Nat} {a : Addr} {now : Nat} (ha : a ≠ SPEND)
    (h : claim s n a now = .ok s') :
    ∃ p ci, findPool s.pools n = some p ∧ findInfo s.infos n a = some ci ∧
      let secs := entitledSeconds p ci.last now
      let w := benWeight p s.actors a
      (∀ d, s'.bank a d = s.bank a d + paidOf p secs w d) ∧
      (∀ d, 2 * P * P * (paidOf p secs w d : Int) ≤ entBound p.rates secs w d) ∧
      secs ≤ toI64 p.claimExpiry ∧ secs ≤ (now : Int) - toI64 ci.last ∧ secs ≤ (now : Int) - toI64 p.claimStart ∧
      (p.claimEnd ≠ 0 → secs ≤ toI64 p.claimEnd - toI64 ci.last ∧ secs ≤ toI64 p.claimEnd - toI64 p.claimStart) ∧
      (∀ x, x ≠ a → x ≠ SPEND → s'.bank x = s.bank x) := by
  obtain ⟨p, ci, dur, hp, _, hci, hdur, hnn, _, _, hs'⟩ := claim_ok h
  obtain ⟨hde, _, _⟩ := claimDuration_eq hdur
  have hb := claimDuration_bounds hdur
  subst hde
  refine ⟨p, ci, hp, hci, ?_⟩
  simp only
  refine ⟨?_, ?_, hb.1, hb.2.1, hb.2.2.1, hb.2.2.2, ?_⟩
  · intro d; subst hs'; simp only; exact move_to s.bank SPEND a _ (fun e => ha e.symm) d
  · intro d; exact paid_le_entBound p.rates _ _ d hnn
  · intro x hx hx2; subst hs'; simp only; exact move_other s.bank SPEND a x _ hx2 hx

example : ∃ (s s' : State), claim s 0 1 200 = .ok s' ∧ s'.bank 1 2 = 150 :=
  -- pool 0: start 100, no end, expiry 1000, 1.5 per second of denom 2, account 1 listed with weight 1, registered at 50
  ⟨{ pools := [{ name := 0, claimStart := 100, claimEnd := 0, claimExpiry := 1000, rates := [(2, 1500000000000000000)],
                 voteQuorum := 0, votePeriod := 0, voteEnactment := 0, ownerRoles := [], ownerAccounts := [], benRoles := [],
                 benAccounts := [(1, 1000000000000000000)], bal := fun _ => 1000, dynamicRate := false, dynamicRatePeriod := 0, lastDyn := 0 }],
     infos := [{ pool := 0, acct := 1, last := 50 }], bank := fun x _ => if x = SPEND then 1000 else 0 }, _, rfl, by decide⟩

/-! ## (b) no interval is paid twice -/

/-- a successful claim moves the claimant's cursor to the block time -/
theorem claim_sets_cursor {s s' : State} {n : Nat} {a : Addr} {now : Nat} (h : claim s n a now = .ok s') :
    findInfo s'.infos n a = some { pool := n, acct := a, last := now } := by
  obtain ⟨p, ci, dur, _, _, _, _, _, _, _, hs'⟩ := claim_ok h
  subst hs'
  exact findInfo_setInfo s.infos { pool := n, acct := a, last := now }

/-- **claim_intervals_disjoint.** Two consecutive successful claims of one account: the first pays for seconds up
to its own block time `t1` at the latest, the second pays for `entitledSeconds ≤ t2 − t1` seconds counted from the
cursor `t1` — whatever the pool terms are at either time (they may have been changed in between is covered by
`claimDuration_bounds`, which holds for every pool). -/
theorem claim_intervals_disjoint {s s1 s2 : State} {n : Nat} {a : Addr} {t1 t2 : Nat} (ha : a ≠ SPEND)
    (h1 : claim s n a t1 = .ok s1) (h2 : claim s1 n a t2 = .ok s2) :
    ∃ p1, findPool s1.pools n = some p1 ∧ toI64 t1 < (t2 : Int) ∧
      entitledSeconds p1 t1 t2 ≤ (t2 : Int) - toI64 t1 ∧
      ∀ d, s2.bank a d = s1.bank a d + paidOf p1 (entitledSeconds p1 t1 t2) (benWeight p1 s1.actors a) d := by
  have hc := claim_sets_cursor h1
  obtain ⟨p1, ci, dur, hp, _, hci, hdur, _, _, _, _⟩ := claim_ok h2
  rw [hc] at hci
  cases hci
  obtain ⟨_, hlt, _⟩ := claimDuration_eq hdur
  obtain ⟨p1', ci', hp', hci', hall⟩ := claim_le_entitlement ha h2
  rw [hp] at hp'; cases hp'
  rw [hc] at hci'; cases hci'
  simp only at hall hlt
  exact ⟨p1, hp, by omega, hall.2.2.2.1, hall.1⟩

/-- the claims of one account against fixed pool terms: durations of the successful ones, cursor threaded as the code does -/
def claimRun (p : Pool) : Nat → List Nat → List Int × Nat
  | last, [] => ([], last)
  | last, t :: ts =>
    match claimDuration p last t with
    | some d => let r := claimRun p t ts; (d :: r.1, r.2)
    | none => claimRun p last ts

def sumInt : List Int → Int
  | [] => 0
  | x :: xs => x + sumInt xs

/-- over any sequence of claim times the paid seconds telescope: in total at most (last successful claim − first cursor) -/
theorem claimRun_seconds (p : Pool) (last : Nat) (ts : List Nat) (hl : last < I63) (ht : ∀ t ∈ ts, t < I63) :
    sumInt (claimRun p last ts).1 ≤ ((claimRun p last ts).2 : Int) - (last : Int) ∧ last ≤ (claimRun p last ts).2 := by
  induction ts generalizing last with
  | nil => simp [claimRun, sumInt]
  | cons t rest ih =>
    have ht' : ∀ t ∈ rest, t < I63 := fun x hx => ht x (List.mem_cons_of_mem _ hx)
    have htt : t < I63 := ht t (List.mem_cons_self)
    unfold claimRun
    split
    · rename_i d hd
      have hb := claimDuration_bounds hd
      obtain ⟨_, hlt, _⟩ := claimDuration_eq hd
      have hI : toI64 last = last := by unfold toI64 U64 I63 at *; simp only; split <;> omega
      have := ih t htt ht'
      simp only [sumInt]
      omega
    · exact ih last hl ht'

/-- **claim_total_le (no double pay over a whole history).** For one rate entry `r` and weight `w` with `r·w ≥ 0`:
the sum of what `n` successful claims pay is at most `r·w·(last claim time − first cursor) + n·slack`. -/
theorem claim_total_le (p : Pool) (r w : Int) (hrw : 0 ≤ r * w) (last : Nat) (ts : List Nat) (hl : last < I63) (ht : ∀ t ∈ ts, t < I63) :
    2 * P * P * sumInt ((claimRun p last ts).1.map (fun d => entryAmount r d w)) ≤
      2 * (r * w * (((claimRun p last ts).2 : Int) - last)) + ((claimRun p last ts).1.length : Int) * (P * P + P) := by
  induction ts generalizing last with
  | nil => simp [claimRun, sumInt]
  | cons t rest ih =>
    have ht' : ∀ t ∈ rest, t < I63 := fun x hx => ht x (List.mem_cons_of_mem _ hx)
    have htt : t < I63 := ht t (List.mem_cons_self)
    unfold claimRun
    split
    · rename_i d hd
      have hb := claimDuration_bounds hd
      have hI : toI64 last = last := by unfold toI64 U64 I63 at *; simp only; split <;> omega
      have hd1 : d ≤ (t : Int) - last := by omega
      have ih' := ih t htt ht'
      have he := entryAmount_le r d w
      have hmul : r * w * d ≤ r * w * ((t : Int) - last) := Int.mul_le_mul_of_nonneg_left hd1 hrw
      have hcomm : r * d * w = r * w * d := Int.mul_right_comm r d w
      rw [hcomm] at he
      simp only [List.map_cons, sumInt, List.length_cons]
      have hlen : (((claimRun p t rest).1.length + 1 : Nat) : Int) = ((claimRun p t rest).1.length : Int) + 1 := by omega
      rw [hlen]
      rw [Int.mul_sub] at hmul ⊢
      rw [Int.mul_sub] at ih'
      generalize sumInt (List.map (fun d => entryAmount r d w) (claimRun p t rest).1) = S at *
      generalize ((claimRun p t rest).1.length : Int) = N at *
      generalize r * w * ((claimRun p t rest).2 : Int) = CF at *
      generalize r * w * (t : Int) = CT at *
      generalize r * w * (last : Int) = CL at *
      generalize r * w * d = CD at *
      generalize entryAmount r d w = A at *
      unfold P at *
      omega
    · exact ih last hl ht'

/-! ## (c) never more than the pool's recorded balance; the record decreases by exactly what was paid -/

/-- **claim_le_balance.** -/
theorem claim_le_balance {s s' : State} {n : Nat} {a : Addr} {now : Nat} (ha : a ≠ SPEND)
    (h : claim s n a now = .ok s') :
    ∃ (p p' : Pool) (paid : Amt), findPool s.pools n = some p ∧ findPool s'.pools n = some p' ∧
      ∀ d, paid d ≤ p.bal d ∧ p'.bal d = p.bal d - paid d ∧ paid d ≤ s.bank SPEND d ∧
           s'.bank a d = s.bank a d + paid d ∧ s'.bank SPEND d = s.bank SPEND d - paid d := by
  obtain ⟨p, ci, dur, hp, _, _, _, _, hle, hmod, hs'⟩ := claim_ok h
  refine ⟨p, { p with bal := Amt.sub p.bal (paidOf p dur (benWeight p s.actors a)) }, paidOf p dur (benWeight p s.actors a), hp, ?_, ?_⟩
  · subst hs'; exact findPool_setPool hp (by simpa using findPool_name hp)
  · intro d
    subst hs'
    exact ⟨hle d, rfl, hmod d, move_to s.bank SPEND a _ (fun e => ha e.symm) d, move_from s.bank SPEND a _ (fun e => ha e.symm) d⟩

/-! ## (d) only registered beneficiaries -/

/-- the beneficiary rule: listed by account, or holder of a listed role -/
def Listed (p : Pool) (actors : Addr → Option (List Nat)) (a : Addr) : Prop :=
  (∃ e ∈ p.benAccounts, e.1 = a) ∨ (∃ rs, actors a = some rs ∧ ∃ r ∈ rs, ∃ e ∈ p.benRoles, e.1 = r)

theorem benWeight_ne_zero_listed {p : Pool} {actors : Addr → Option (List Nat)} {a : Addr}
    (h : benWeight p actors a ≠ 0) : Listed p actors a := by
  unfold benWeight at h
  split at h
  · rename_i e he
    left
    refine ⟨e, List.mem_of_find?_eq_some he, ?_⟩
    have := List.find?_some he
    simpa using this
  · split at h
    · exact absurd rfl h
    · rename_i rs hrs
      split at h
      · rename_i w hw
        right
        obtain ⟨r, hr, hrw⟩ := List.exists_of_findSome?_eq_some hw
        unfold roleWeight at hrw
        cases hf : List.find? (fun e => e.1 == r) p.benRoles.reverse with
        | none => rw [hf] at hrw; cases hrw
        | some e =>
          have hm := List.mem_of_find?_eq_some hf
          have he := List.find?_some hf
          exact ⟨rs, hrs, r, hr, e, List.mem_reverse.mp hm, by simpa using he⟩
      · exact absurd rfl h

/-- **only_beneficiaries.** A successful claim was made by a listed beneficiary that had registered. -/
theorem only_beneficiaries {s s' : State} {n : Nat} {a : Addr} {now : Nat} (h : claim s n a now = .ok s') :
    ∃ p, findPool s.pools n = some p ∧ Listed p s.actors a ∧ (findInfo s.infos n a).isSome = true := by
  obtain ⟨p, ci, _, hp, hw, hci, _⟩ := claim_ok h
  exact ⟨p, hp, benWeight_ne_zero_listed hw, by simp [hci]⟩

/-- what the message cache / proposal cache does with a result: a failed operation leaves the state as it was -/
def commit (s : State) (r : Except Err State) : State :=
  match r with
  | .ok s' => s'
  | .error _ => s

/-- a claim by an account that is not a listed beneficiary, or that never registered, fails and changes nothing -/
theorem non_beneficiary_claim_fails (s : State) (n : Nat) (a : Addr) (now : Nat)
    (h : (∀ p, findPool s.pools n = some p → ¬ Listed p s.actors a) ∨ findInfo s.infos n a = none) :
    (∃ e, claim s n a now = .error e) ∧ commit s (claim s n a now) = s := by
  cases hc : claim s n a now with
  | error e => exact ⟨⟨e, rfl⟩, rfl⟩
  | ok s' =>
    obtain ⟨p, hp, hl, hr⟩ := only_beneficiaries hc
    cases h with
    | inl h => exact absurd hl (h p hp)
    | inr h => rw [h] at hr; cases hr

example : ∃ s : State, (findPool s.pools 0).isSome = true ∧ commit s (claim s 0 4 200) = s :=
  ⟨{ pools := [{ name := 0, claimStart := 100, claimEnd := 0, claimExpiry := 1000, rates := [(2, 1500000000000000000)],
                 voteQuorum := 0, votePeriod := 0, voteEnactment := 0, ownerRoles := [], ownerAccounts := [], benRoles := [],
                 benAccounts := [(1, 1000000000000000000)], bal := fun _ => 1000, dynamicRate := false, dynamicRatePeriod := 0, lastDyn := 0 }],
     infos := [{ pool := 0, acct := 4, last := 50 }] }, rfl, rfl⟩

/-- registration itself is open to listed accounts only (by account or by role) -/
theorem register_only_listed {s s' : State} {n : Nat} {a : Addr} {now : Nat} (h : register s n a now = .ok s') :
    ∃ p, findPool s.pools n = some p ∧ isAllowedBen p s.actors a = true ∧ s'.bank = s.bank ∧ s'.pools = s.pools := by
  unfold register at h
  split at h
  · cases h
  · rename_i p hp
    split at h
    · cases h
    · rename_i hb
      cases h
      exact ⟨p, hp, by simpa using hb, rfl, rfl⟩

/-! ## (g) solvency of the spending module: module balance ≥ Σ pool records, for every operation sequence -/

theorem solvent_claim {s s' : State} {n : Nat} {a : Addr} {now : Nat} (hs : Solvent s) (h : claim s n a now = .ok s') : Solvent s' := by
  obtain ⟨p, ci, dur, hp, _, _, _, _, hle, hmod, hs'⟩ := claim_ok h
  intro d
  subst hs'
  simp only
  have h1 := sumPools_setPool (p := { p with bal := Amt.sub p.bal (paidOf p dur (benWeight p s.actors a)) }) d hp (by simpa using findPool_name hp)
  have h2 := findPool_bal_le_sum hp d
  have h3 := hs d
  have h4 := hle d
  have h5 := hmod d
  simp only [Amt.sub] at h1
  by_cases ha : a = SPEND
  · subst ha
    rw [move_self s.bank SPEND _ d h5]
    omega
  · rw [move_from s.bank SPEND a _ (fun e => ha e.symm) d]
    omega

theorem solvent_create {s s' : State} {ok : Bool} {n : Nat} {x : PoolArgs} {now : Nat} (hs : Solvent s) (h : create s ok n x now = .ok s') : Solvent s' := by
  unfold create at h
  split at h
  · cases h
  · split at h
    · cases h
    · cases h
      intro d
      simp only [sumPools_append, sumPools, Amt.zero]
      have := hs d
      omega

theorem solvent_deposit {s s' : State} {frm : Addr} {n : Nat} {coins : List (Denom × Nat)} (hf : frm ≠ SPEND)
    (hs : Solvent s) (h : deposit s frm n coins = .ok s') : Solvent s' := by
  unfold deposit at h
  split at h
  · cases h
  · rename_i bank' hb
    split at h
    · cases h
    · rename_i p hp
      cases h
      obtain ⟨_, hbe⟩ := send_ok hb
      intro d
      simp only
      have h1 := sumPools_setPool (p := { p with bal := Amt.add p.bal (Amt.ofList coins) }) d hp (by simpa using findPool_name hp)
      have h3 := hs d
      subst hbe
      rw [move_to s.bank frm SPEND _ hf d]
      simp only [Amt.add] at h1
      omega

theorem solvent_register {s s' : State} {n : Nat} {a : Addr} {now : Nat} (hs : Solvent s) (h : register s n a now = .ok s') : Solvent s' := by
  obtain ⟨_, _, _, hb, hp⟩ := register_only_listed h
  intro d
  rw [hb, hp]
  exact hs d

theorem sumPools_setPool_sameBal {ps : List Pool} {n : Nat} {old p : Pool} (d : Denom)
    (h : findPool ps n = some old) (hp : p.name = n) (hb : p.bal = old.bal) : sumPools (setPool ps p) d = sumPools ps d := by
  have := sumPools_setPool d h hp
  rw [hb] at this
  omega

theorem solvent_update {s s' : State} {n : Nat} {x : PoolArgs} (hs : Solvent s) (h : update s n x = .ok s') : Solvent s' := by
  unfold update at h
  split at h
  · cases h
  · rename_i p hp
    cases h
    intro d
    simp only
    refine Nat.le_trans (Nat.le_of_eq (sumPools_setPool_sameBal d hp ?_ ?_)) (hs d) <;> rfl

theorem solvent_claimAll {n : Nat} {now : Nat} (l : List Addr) : ∀ {s s' : State}, Solvent s → claimAll s n now l = .ok s' → Solvent s' := by
  induction l with
  | nil => intro s s' hs h; simp only [claimAll] at h; cases h; exact hs
  | cons a rest ih =>
    intro s s' hs h
    simp only [claimAll] at h
    split at h
    · cases h
    · rename_i s1 h1
      exact ih (solvent_claim hs h1) h

theorem solvent_distribute {s s' : State} {n : Nat} {now : Nat} (hs : Solvent s) (h : distribute s n now = .ok s') : Solvent s' := by
  unfold distribute at h
  split at h
  · cases h
  · exact solvent_claimAll _ hs h

/-- the withdraw loop keeps `module balance − running pool record` from shrinking -/
theorem withdrawLoop_inv (s : State) (p : Pool) (coins : List (Denom × Nat)) (bens : List Addr) :
    ∀ (bank : Bank) (bal : Amt) (bank' : Bank) (bal' : Amt), withdrawLoop s p coins bens bank bal = .ok (bank', bal') →
      ∀ d, bal' d ≤ bal d ∧ bank SPEND d + bal' d ≤ bank' SPEND d + bal d := by
  induction bens with
  | nil => intro bank bal bank' bal' h d; simp only [withdrawLoop] at h; cases h; omega
  | cons b rest ih =>
    intro bank bal bank' bal' h d
    simp only [withdrawLoop] at h
    split at h
    · cases h
    · split at h
      · cases h
      · rename_i bank1 hb
        split at h
        · cases h
        · rename_i hge
          obtain ⟨hle, hbe⟩ := send_ok hb
          have hg := geOn_ofList (by simpa using hge) d
          have := ih bank1 (Amt.sub bal (Amt.ofList coins)) bank' bal' h d
          simp only [Amt.sub] at this
          have hl := hle d
          subst hbe
          by_cases hbs : b = SPEND
          · subst hbs
            rw [move_self bank SPEND _ d hl] at this
            omega
          · rw [move_from bank SPEND b _ (fun e => hbs e.symm) d] at this
            omega

theorem solvent_withdraw {s s' : State} {n : Nat} {bens : List Addr} {coins : List (Denom × Nat)} (hs : Solvent s)
    (h : withdraw s n bens coins = .ok s') : Solvent s' := by
  unfold withdraw at h
  split at h
  · cases h
  · rename_i p hp
    split at h
    · cases h
    · rename_i bank' bal' hl
      cases h
      intro d
      simp only
      have hi := withdrawLoop_inv s p coins bens s.bank p.bal bank' bal' hl d
      have h1 := sumPools_setPool (p := { p with bal := bal' }) d hp (by simpa using findPool_name hp)
      have h2 := findPool_bal_le_sum hp d
      have := hs d
      simp only at h1
      omega

theorem endPool_bal {s : State} {pfx : Nat → Nat → Addr → Bool} {now : Nat} {p p' : Pool} (h : endPool s pfx now p = some p') : p'.bal = p.bal := by
  unfold endPool at h
  simp only at h
  repeat' split at h
  all_goals first | (cases h; rfl) | cases h

theorem endPools_sum {s : State} {pfx : Nat → Nat → Addr → Bool} {now : Nat} (ps : List Pool) :
    ∀ {ps' : List Pool}, endPools s pfx now ps = some ps' → ∀ d, sumPools ps' d = sumPools ps d := by
  induction ps with
  | nil => intro ps' h d; simp only [endPools] at h; cases h; rfl
  | cons p rest ih =>
    intro ps' h d
    simp only [endPools] at h
    split at h
    · rename_i p' rest' hp hr
      cases h
      simp only [sumPools, ih hr d, endPool_bal hp]
    · cases h

theorem solvent_endBlock {s s' : State} {pfx : Nat → Nat → Addr → Bool} {now : Nat} (hs : Solvent s) (h : endBlock s pfx now = .ok s') : Solvent s' := by
  unfold endBlock at h
  split at h
  · cases h
  · rename_i ps hp
    cases h
    intro d
    simp only
    rw [endPools_sum s.pools hp d]
    exact hs d

/-- the operations of the spending module, plus what the environment can do to it: any transfer not signed by the
module account (it has no key), and the UBI payout path (mint to the `mint` module, deposit from it) -/
inductive Op where
  | create (nameOk : Bool) (name : Nat) (x : PoolArgs) (now : Nat)
  | deposit (frm : Addr) (name : Nat) (coins : List (Denom × Nat))
  | register (name : Nat) (a : Addr) (now : Nat)
  | claim (name : Nat) (a : Addr) (now : Nat)
  | update (name : Nat) (x : PoolArgs)
  | distribute (name : Nat) (now : Nat)
  | withdraw (name : Nat) (bens : List Addr) (coins : List (Denom × Nat))
  | endBlock (pfx : Nat → Nat → Addr → Bool) (now : Nat)
  | transfer (frm to : Addr) (coins : List (Denom × Nat))
  | mintDeposit (name : Nat) (coins : List (Denom × Nat))

/-- the only side condition: the spending module account never signs a deposit or a transfer -/
def Op.fromUser : Op → Prop
  | .deposit frm _ _ => frm ≠ SPEND
  | .transfer frm _ _ => frm ≠ SPEND
  | _ => True

def run (s : State) : Op → Except Err State
  | .create ok n x now => create s ok n x now
  | .deposit f n c => deposit s f n c
  | .register n a now => register s n a now
  | .claim n a now => claim s n a now
  | .update n x => update s n x
  | .distribute n now => distribute s n now
  | .withdraw n b c => withdraw s n b c
  | .endBlock pfx now => endBlock s pfx now
  | .transfer f t c => (s.bank.send f t c).map (fun b => { s with bank := b })
  | .mintDeposit n c => deposit { s with bank := s.bank.credit MINT (Amt.ofList c) } MINT n c

/-- one operation with the cache semantics (a failed operation leaves no trace) -/
def step (s : State) (op : Op) : State := commit s (run s op)

theorem solvent_transfer {s : State} {f t : Addr} {c : List (Denom × Nat)} {b : Bank} (hf : f ≠ SPEND) (hs : Solvent s)
    (h : s.bank.send f t c = .ok b) : Solvent { s with bank := b } := by
  obtain ⟨_, hbe⟩ := send_ok h
  intro d
  simp only
  subst hbe
  have := hs d
  by_cases ht : t = SPEND
  · subst ht; rw [move_to s.bank f SPEND _ hf d]; omega
  · rw [move_other s.bank f t SPEND _ (fun e => hf e.symm) (fun e => ht e.symm)]; exact this

theorem solvent_credit_mint {s : State} (amt : Amt) (hs : Solvent s) : Solvent { s with bank := s.bank.credit MINT amt } := by
  intro d
  have : SPEND ≠ MINT := by decide
  simp only [Bank.credit, this, if_false]
  exact hs d

/-- **solvency_step.** Every operation preserves `module balance ≥ Σ pool records` -/
theorem solvency_step (s : State) (op : Op) (hu : op.fromUser) (hs : Solvent s) : Solvent (step s op) := by
  unfold step commit
  split
  · rename_i s' h
    cases op with
    | create ok n x now => exact solvent_create hs h
    | deposit f n c => exact solvent_deposit hu hs h
    | register n a now => exact solvent_register hs h
    | claim n a now => exact solvent_claim hs h
    | update n x => exact solvent_update hs h
    | distribute n now => exact solvent_distribute hs h
    | withdraw n b c => exact solvent_withdraw hs h
    | endBlock pfx now => exact solvent_endBlock hs h
    | transfer f t c =>
      simp only [run] at h
      cases hb : s.bank.send f t c with
      | error e => rw [hb] at h; cases h
      | ok b => rw [hb] at h; cases h; exact solvent_transfer hu hs hb
    | mintDeposit n c => exact solvent_deposit (by decide) (solvent_credit_mint _ hs) h
  · exact hs

/-- **solvency (all histories).** From a solvent state every sequence of operations leads to a solvent state -/
theorem solvency_all (ops : List Op) : ∀ (s : State), (∀ op ∈ ops, op.fromUser) → Solvent s → Solvent (ops.foldl step s) := by
  induction ops with
  | nil => intro s _ hs; exact hs
  | cons op rest ih =>
    intro s hu hs
    exact ih (step s op) (fun o ho => hu o (List.mem_cons_of_mem _ ho)) (solvency_step s op (hu op List.mem_cons_self) hs)

example : Solvent ({} : State) := fun _ => Nat.le_refl _

theorem endPool_name {s : State} {pfx : Nat → Nat → Addr → Bool} {now : Nat} {p p' : Pool} (h : endPool s pfx now p = some p') : p'.name = p.name := by
  unfold endPool at h
  simp only at h
  repeat' split at h
  all_goals first | (cases h; rfl) | cases h

theorem endPools_find {s : State} {pfx : Nat → Nat → Addr → Bool} {now : Nat} (ps : List Pool) :
    ∀ {ps' : List Pool}, endPools s pfx now ps = some ps' → ∀ n p, findPool ps n = some p →
      ∃ p', findPool ps' n = some p' ∧ p'.bal = p.bal := by
  induction ps with
  | nil => intro ps' _ n p hp; simp [findPool] at hp
  | cons q rest ih =>
    intro ps' h n p hp
    simp only [endPools] at h
    split at h
    · rename_i q' rest' hq hr
      cases h
      unfold findPool at hp ⊢
      rw [List.find?_cons] at hp ⊢
      rw [endPool_name hq]
      cases hn : (q.name == n) with
      | true => rw [hn] at hp; cases hp; exact ⟨q', rfl, endPool_bal hq⟩
      | false => rw [hn] at hp; exact ih hr n p hp
    · cases h

/-- what a deposit does to the records: the target pool grows, every other record is untouched -/
theorem deposit_records {s s' : State} {frm : Addr} {n0 : Nat} {coins : List (Denom × Nat)} (hf : frm ≠ SPEND)
    (h : deposit s frm n0 coins = .ok s') :
    (∀ d, s.bank SPEND d ≤ s'.bank SPEND d) ∧
    ∀ n p, findPool s.pools n = some p → ∃ p', findPool s'.pools n = some p' ∧ ∀ d, p.bal d ≤ p'.bal d := by
  unfold deposit at h
  split at h
  · cases h
  · rename_i bank' hb
    split at h
    · cases h
    · rename_i p0 hp0
      cases h
      obtain ⟨_, hbe⟩ := send_ok hb
      constructor
      · intro d; simp only; subst hbe; rw [move_to s.bank frm SPEND _ hf d]; omega
      · intro n p hp
        simp only
        by_cases hn : n0 = n
        · subst hn
          rw [hp0] at hp; cases hp
          exact ⟨_, findPool_setPool hp0 (by simpa using findPool_name hp0), fun d => by simp [Amt.add]⟩
        · have hne : ({ p0 with bal := Amt.add p0.bal (Amt.ofList coins) } : Pool).name ≠ n := by
            simpa [findPool_name hp0] using hn
          rw [findPool_setPool_other hne]
          exact ⟨p, hp, fun d => Nat.le_refl _⟩

/-- **pool_funds_leave_only_by_claim_or_owner_proposal.** Every operation other than a claim, a distribution proposal
or a withdraw proposal leaves the module balance and every pool record at least as large as before. -/
theorem pool_funds_leave_only_by_claim_or_owner_proposal (s : State) (op : Op) (hu : op.fromUser)
    (hk : match op with | .claim .. => False | .distribute .. => False | .withdraw .. => False | _ => True) :
    (∀ d, s.bank SPEND d ≤ (step s op).bank SPEND d) ∧
    ∀ n p, findPool s.pools n = some p → ∃ p', findPool (step s op).pools n = some p' ∧ ∀ d, p.bal d ≤ p'.bal d := by
  have triv : (∀ d, s.bank SPEND d ≤ s.bank SPEND d) ∧
      ∀ n p, findPool s.pools n = some p → ∃ p', findPool s.pools n = some p' ∧ ∀ d, p.bal d ≤ p'.bal d :=
    ⟨fun _ => Nat.le_refl _, fun n p hp => ⟨p, hp, fun _ => Nat.le_refl _⟩⟩
  unfold step commit
  split
  · rename_i s' h
    cases op with
    | claim n a now => exact absurd hk id
    | distribute n now => exact absurd hk id
    | withdraw n b c => exact absurd hk id
    | create ok n x now =>
      simp only [run] at h
      unfold create at h
      split at h
      · cases h
      · split at h
        · cases h
        · cases h
          exact ⟨fun _ => Nat.le_refl _, fun n p hp => ⟨p, findPool_append_left hp, fun _ => Nat.le_refl _⟩⟩
    | deposit f n c => exact deposit_records hu h
    | register n a now =>
      obtain ⟨_, _, _, hb, hp⟩ := register_only_listed h
      rw [hb, hp]; exact triv
    | update n0 x =>
      simp only [run] at h
      unfold update at h
      split at h
      · cases h
      · rename_i p0 hp0
        cases h
        refine ⟨fun _ => Nat.le_refl _, fun n p hp => ?_⟩
        simp only
        by_cases hn : n0 = n
        · subst hn
          rw [hp0] at hp; cases hp
          exact ⟨_, findPool_setPool hp0 rfl, fun d => Nat.le_refl _⟩
        · rw [findPool_setPool_other (by simpa using hn)]
          exact ⟨p, hp, fun d => Nat.le_refl _⟩
    | endBlock pfx now =>
      simp only [run] at h
      unfold endBlock at h
      split at h
      · cases h
      · rename_i ps hps
        cases h
        refine ⟨fun _ => Nat.le_refl _, fun n p hp => ?_⟩
        obtain ⟨p', hp', hb⟩ := endPools_find s.pools hps n p hp
        exact ⟨p', hp', fun d => by rw [hb]; exact Nat.le_refl _⟩
    | transfer f t c =>
      simp only [run] at h
      cases hb : s.bank.send f t c with
      | error e => rw [hb] at h; cases h
      | ok b =>
        rw [hb] at h; cases h
        obtain ⟨_, hbe⟩ := send_ok hb
        refine ⟨fun d => ?_, triv.2⟩
        simp only
        subst hbe
        by_cases ht : t = SPEND
        · subst ht; rw [move_to s.bank f SPEND _ hu d]; omega
        · rw [move_other s.bank f t SPEND _ (fun e => hu e.symm) (fun e => ht e.symm)]; exact Nat.le_refl _
    | mintDeposit n c =>
      have hm : MINT ≠ SPEND := by decide
      obtain ⟨h1, h2⟩ := deposit_records hm h
      have hsp : SPEND ≠ MINT := by decide
      refine ⟨fun d => ?_, h2⟩
      have := h1 d
      simpa [Bank.credit, hsp] using this
  · exact triv

/-! ## (e) UBI: at most one payout per period, for every sequence of block times -/

open Sekai.Ubi in
/-- payout times are spaced by more than a period, starting from the cursor `L` -/
def SpacedFrom (period : Nat) : Nat → List Nat → Prop
  | _, [] => True
  | L, t :: ts => L + period < t ∧ SpacedFrom period t ts

theorem SpacedFrom_mono {period : Nat} {L L' : Nat} (h : L ≤ L') : ∀ {ts : List Nat}, SpacedFrom period L' ts → SpacedFrom period L ts
  | [], _ => trivial
  | _ :: _, ⟨h1, h2⟩ => ⟨by omega, h2⟩

theorem stepRec_fields (r : Ubi.Rec) (e : Ubi.Env) :
    (Ubi.stepRec r e).1.period = r.period ∧ (Ubi.stepRec r e).1.stop = r.stop ∧ (Ubi.stepRec r e).1.amount = r.amount := by
  unfold Ubi.stepRec
  repeat' split
  all_goals exact ⟨rfl, rfl, rfl⟩

/-- the gate without wrap-around: strictly more than a period after the last stamp, and the last stamp before the end -/
theorem due_nowrap {r : Ubi.Rec} {now : Nat} (hw : r.last + r.period < U64) (h : Ubi.due r now = true) :
    r.last + r.period < now ∧ (r.stop = 0 ∨ r.last < r.stop) := by
  unfold Ubi.due addU64 at h
  rw [Nat.mod_eq_of_lt hw] at h
  simp only [Bool.and_eq_true, decide_eq_true_eq, Bool.or_eq_true, beq_iff_eq] at h
  exact ⟨h.1, h.2⟩

/-- **ubi_once_per_period (partial: no `uint64` wrap-around of `DistributionLast + Period`).** For every record, every
sequence of blocks (any times, any inflation / deposit outcome per block): consecutive payouts are more than one period
apart, the first one more than a period after the initial `DistributionLast`. -/
theorem ubi_once_per_period_partial (r : Ubi.Rec) (envs : List Ubi.Env)
    (hw0 : r.last + r.period < U64) (hw : ∀ e ∈ envs, e.now + r.period < U64) :
    SpacedFrom r.period r.last (Ubi.payTimes r envs) := by
  induction envs generalizing r with
  | nil => trivial
  | cons e rest ih =>
    have hw' : ∀ x ∈ rest, x.now + r.period < U64 := fun x hx => hw x (List.mem_cons_of_mem _ hx)
    have he := hw e List.mem_cons_self
    simp only [Ubi.payTimes]
    obtain ⟨hp, _, _⟩ := stepRec_fields r e
    by_cases hdue : Ubi.due r e.now = true
    · obtain ⟨hlt, _⟩ := due_nowrap hw0 hdue
      by_cases hst : e.infl = true ∧ e.procOk = true
      · have hr' : Ubi.stepRec r e = ({ r with last := e.now }, e.pays) := by
          unfold Ubi.stepRec; simp [hdue, hst.1, hst.2]
        rw [hr']
        have ih' := ih { r with last := e.now } (by simpa using he) (by simpa using hw')
        simp only at ih'
        split
        · exact ⟨hlt, ih'⟩
        · exact SpacedFrom_mono (by omega) ih'
      · have hr' : Ubi.stepRec r e = (r, false) := by
          unfold Ubi.stepRec
          simp only [hdue, if_true]
          cases hi : e.infl <;> cases hp : e.procOk <;> simp_all
        rw [hr']
        simpa using ih r hw0 hw'
    · have hr' : Ubi.stepRec r e = (r, false) := by unfold Ubi.stepRec; simp [hdue]
      rw [hr']
      simpa using ih r hw0 hw'

example : Ubi.payTimes { name := 1, start := 0, stop := 0, last := 1000, amount := 7, period := 100, pool := 0, dynamic := false }
    [⟨1100, true, true, true⟩, ⟨1101, true, true, true⟩, ⟨1150, true, true, true⟩, ⟨1202, true, true, true⟩] = [1101, 1202] := by decide

/-- the full statement (no side condition) … -/
def ubi_once_per_period_full : Prop :=
  ∀ (r : Ubi.Rec) (envs : List Ubi.Env), SpacedFrom r.period r.last (Ubi.payTimes r envs)

/-- … is false of the code: `DistributionLast + Period` is computed in `uint64`, so a huge period wraps around and the
record pays in consecutive blocks (KF-C18-01) -/
theorem ubi_once_per_period_counterexample : ¬ ubi_once_per_period_full := by
  intro h
  have := h { name := 1, start := 0, stop := 0, last := 1000, amount := 1, period := 18446744073709550616, pool := 0, dynamic := false }
    [⟨2000, true, true, true⟩, ⟨2001, true, true, true⟩]
  have hp : Ubi.payTimes { name := 1, start := 0, stop := 0, last := 1000, amount := 1, period := 18446744073709550616, pool := 0, dynamic := false }
    [⟨2000, true, true, true⟩, ⟨2001, true, true, true⟩] = [2000, 2001] := by decide
  rw [hp] at this
  simp only [SpacedFrom] at this
  omega

/-- once the last stamp is at or after a non-zero end the record never pays again -/
theorem ubi_stops_after_end (r : Ubi.Rec) (envs : List Ubi.Env) (hs : r.stop ≠ 0) (hl : r.stop ≤ r.last) :
    Ubi.payTimes r envs = [] := by
  induction envs with
  | nil => rfl
  | cons e rest ih =>
    have hdue : Ubi.due r e.now = false := by
      unfold Ubi.due
      have h1 : (r.stop == 0) = false := by simp [hs]
      have h2 : decide (r.last < r.stop) = false := by simp; omega
      simp [h1, h2]
    have hr' : Ubi.stepRec r e = (r, false) := by unfold Ubi.stepRec; simp [hdue]
    simp only [Ubi.payTimes, hr']
    simpa using ih

/-- "while active", full statement: no payout at a block time after a non-zero `DistributionEnd` … -/
def ubi_no_payout_after_end_full : Prop :=
  ∀ (r : Ubi.Rec) (envs : List Ubi.Env), r.stop ≠ 0 → ∀ t ∈ Ubi.payTimes r envs, t ≤ r.stop

/-- … is false of the code: the gate tests `DistributionLast < DistributionEnd`, not the block time (KF-C18-02) -/
theorem ubi_no_payout_after_end_counterexample : ¬ ubi_no_payout_after_end_full := by
  intro h
  have := h { name := 1, start := 0, stop := 1150, last := 1000, amount := 1, period := 100, pool := 0, dynamic := false }
    [⟨1101, true, true, true⟩, ⟨1202, true, true, true⟩] (by decide) 1202 (by decide)
  revert this
  decide

/-- **ubi_no_payout_after_end (partial).** What does hold for every record and every block sequence: at most ONE payout
happens after the end (the one whose predecessor was still before the end). -/
theorem ubi_at_most_one_payout_after_end_partial (r : Ubi.Rec) (envs : List Ubi.Env) (hs : r.stop ≠ 0) :
    ((Ubi.payTimes r envs).filter (fun t => decide (r.stop < t))).length ≤ 1 := by
  induction envs generalizing r with
  | nil => simp [Ubi.payTimes]
  | cons e rest ih =>
    simp only [Ubi.payTimes]
    obtain ⟨_, hstop, _⟩ := stepRec_fields r e
    by_cases hst : Ubi.due r e.now = true ∧ e.infl = true ∧ e.procOk = true
    · have hr' : Ubi.stepRec r e = ({ r with last := e.now }, e.pays) := by
        unfold Ubi.stepRec; simp [hst.1, hst.2.1, hst.2.2]
      rw [hr']
      simp only
      by_cases hafter : r.stop < e.now
      · have hnil := ubi_stops_after_end { r with last := e.now } rest (by simpa using hs) (by simp; omega)
        rw [hnil]
        split <;> simp [List.filter]
        split <;> simp
      · have ih' := ih { r with last := e.now } (by simpa using hs)
        simp only at ih'
        split
        · simp only [List.filter, hafter, decide_false]
          exact ih'
        · exact ih'
    · have hr' : Ubi.stepRec r e = (r, false) := by
        unfold Ubi.stepRec
        by_cases hd : Ubi.due r e.now = true
        · simp only [hd, if_true]
          cases hi : e.infl <;> cases hp : e.procOk <;> simp_all
        · simp [hd]
      rw [hr']
      simpa using ih r hs

/-- the concrete `ProcessUBIRecord` behaves as one `stepRec` transition: either nothing happens (inflation not possible),
or the record is stamped with the block time and at most `amount × 10^6` is minted and deposited; the spending
module stays solvent. -/
theorem processRec_ok {s s' : Ubi.State} {r : Ubi.Rec} {now : Nat} {infl : Bool} {paid : Nat}
    (h : Ubi.processRec s r now infl = .ok (s', paid)) :
    (infl = false ∧ s' = s ∧ paid = 0) ∨
    (infl = true ∧ s'.recs = Ubi.setRec s.recs { r with last := now } ∧ (paid = 0 ∨ (paid : Int) ≤ toI64 r.amount * 1000000) ∧
      (Solvent s.sp → Solvent s'.sp)) := by
  unfold Ubi.processRec at h
  cases hi : infl with
  | false => simp only [hi] at h; cases h; exact Or.inl ⟨rfl, rfl, rfl⟩
  | true =>
    right
    simp only [hi, Bool.not_true, Bool.false_eq_true, if_false] at h
    have step2 : ∀ (amount : Int) (hle : amount ≤ toI64 r.amount * 1000000),
        (if amount < 0 then (Except.error Err.panic : Except Err (Ubi.State × Nat)) else
          match Spend.deposit { s.sp with bank := s.sp.bank.credit MINT (Amt.ofList [(s.ukex, amount.toNat)]) } MINT r.pool [(s.ukex, amount.toNat)] with
          | .error e => .error e
          | .ok sp' => .ok ({ s with recs := Ubi.setRec s.recs { r with last := now }, sp := sp' }, amount.toNat)) = .ok (s', paid) →
        s'.recs = Ubi.setRec s.recs { r with last := now } ∧ (paid = 0 ∨ (paid : Int) ≤ toI64 r.amount * 1000000) ∧ (Solvent s.sp → Solvent s'.sp) := by
      intro amount hle h2
      split at h2
      · cases h2
      · rename_i hneg
        split at h2
        · cases h2
        · rename_i sp' hd
          cases h2
          refine ⟨rfl, Or.inr ?_, fun hs => solvent_deposit (by decide) (solvent_credit_mint _ hs) hd⟩
          have : ((amount.toNat : Nat) : Int) = amount := Int.toNat_of_nonneg (by omega)
          omega
    split at h
    · split at h
      · cases h
      · rename_i p hp
        split at h
        · rename_i hle
          cases h
          have h0 : (0 : Int) ≤ ((p.bal s.ukex : Nat) : Int) := Int.natCast_nonneg _
          exact ⟨rfl, rfl, Or.inl rfl, fun hs => hs⟩
        · exact ⟨rfl, step2 _ (by have : (0 : Int) ≤ ((p.bal s.ukex : Nat) : Int) := Int.natCast_nonneg _; omega) h⟩
    · exact ⟨rfl, step2 _ (Int.le_refl _) h⟩

/-! ## (f) collectives: a contributor gets back what it bonded (± the rounding of `calcPortion`), never before the lock -/

open Sekai.Collect in
theorem portionOf_eq (a : Nat) (p : Int) : Collect.portionOf a p = chopRound ((a : Int) * p) := by
  unfold Collect.portionOf roundInt
  rw [ofInt_mul]

/-- the two portions `round((1−d)·b)` and `round(d·b)` that `WithdrawCollective` sends differ from `b` by at most 1 … -/
theorem portions_near (b : Nat) (don : Int) (h0 : 0 ≤ don) (h1 : don ≤ Dec.one) :
    (b : Int) - 1 ≤ Collect.portionOf b (Dec.one - don) + Collect.portionOf b don ∧
    Collect.portionOf b (Dec.one - don) + Collect.portionOf b don ≤ (b : Int) + 1 ∧
    0 ≤ Collect.portionOf b (Dec.one - don) ∧ 0 ≤ Collect.portionOf b don := by
  rw [portionOf_eq, portionOf_eq]
  unfold Dec.one at *
  have hb : (0 : Int) ≤ (b : Int) := Int.natCast_nonneg _
  have hx0 : 0 ≤ (b : Int) * don := Int.mul_nonneg hb h0
  have hx1 : (b : Int) * don ≤ (b : Int) * P := Int.mul_le_mul_of_nonneg_left h1 hb
  have hsub : (b : Int) * (P - don) = (b : Int) * P - (b : Int) * don := Int.mul_sub _ _ _
  rw [hsub]
  have := chopRound_compl_near (b : Int) ((b : Int) * don) hx0 hx1
  have n1 := chopRound_nonneg hx0
  have n2 : 0 ≤ chopRound ((b : Int) * P - (b : Int) * don) := chopRound_nonneg (by omega)
  omega

/-- … and add up to exactly `b` unless `d·b` has the fractional part one half -/
theorem portions_exact (b : Nat) (don : Int) (h0 : 0 ≤ don) (h1 : don ≤ Dec.one) (hh : ((b : Int) * don) % P ≠ half) :
    Collect.portionOf b (Dec.one - don) + Collect.portionOf b don = (b : Int) := by
  rw [portionOf_eq, portionOf_eq]
  unfold Dec.one at *
  have hb : (0 : Int) ≤ (b : Int) := Int.natCast_nonneg _
  have hx0 : 0 ≤ (b : Int) * don := Int.mul_nonneg hb h0
  have hx1 : (b : Int) * don ≤ (b : Int) * P := Int.mul_le_mul_of_nonneg_left h1 hb
  have hsub : (b : Int) * (P - don) = (b : Int) * P - (b : Int) * don := Int.mul_sub _ _ _
  rw [hsub]
  have := chopRound_compl_exact (b : Int) ((b : Int) * don) hx0 hx1 hh
  omega

theorem sendIfAny_ok {voc : List Denom} {b b' : Bank} {f t : Addr} {amt : Amt} (hft : f ≠ t)
    (h : Collect.sendIfAny voc b f t amt = .ok b') :
    (∀ d ∈ voc, b' t d = b t d + amt d) ∧ (∀ x, x ≠ f → x ≠ t → b' x = b x) := by
  unfold Collect.sendIfAny at h
  split at h
  · obtain ⟨_, hbe⟩ := sendAmt_ok h
    subst hbe
    exact ⟨fun d _ => move_to b f t amt hft d, fun x hx1 hx2 => move_other b f t x amt hx1 hx2⟩
  · rename_i hne
    cases h
    refine ⟨fun d hd => ?_, fun _ _ _ => rfl⟩
    have : ¬ (0 < amt d) := by
      intro hp
      apply hne
      unfold Collect.nonEmpty
      rw [List.any_eq_true]
      exact ⟨d, hd, by simpa using hp⟩
    omega

/-- what a successful `MsgWithdrawCollective` pays: exactly the two rounded portions of every bonded denom, and only
once the lock has expired -/
theorem withdraw_pays_portions {s s' : Collect.State} {a : Addr} {n : Nat} {now : Nat}
    (ha1 : a ≠ Collect.collAddr n) (ha2 : a ≠ Collect.donAddr n)
    (h : Collect.withdraw s a n now = .ok s') :
    ∃ cc, Collect.findContrib s.contribs n a = some cc ∧ cc.locking ≤ now ∧
      ∀ d ∈ s.sp.voc, s'.sp.bank a d = s.sp.bank a d + (Collect.portionOf (cc.bonds d) (Dec.one - cc.donation)).toNat
                                                   + (Collect.portionOf (cc.bonds d) cc.donation).toNat := by
  unfold Collect.withdraw at h
  split at h
  · cases h
  · rename_i cc hcc
    split at h
    · cases h
    · rename_i hlock
      split at h
      · cases h
      · rename_i c hc
        have hcn : c.name = n := by
          unfold Collect.findColl at hc
          have := List.find?_some hc
          simpa using this
        refine ⟨cc, hcc, by omega, ?_⟩
        unfold Collect.withdrawK at h
        split at h
        · rename_i cb db hcb hdb
          split at h
          · cases h
          · rename_i bank1 hb1
            split at h
            · cases h
            · rename_i bank2 hb2
              split at h
              · cases h
              · simp only at h
                split at h
                · cases h
                · cases h
                  simp only
                  intro d hd
                  have hacct : cc.acct = a := by
                    unfold Collect.findContrib at hcc
                    have := List.find?_some hcc
                    simp only [Bool.and_eq_true, beq_iff_eq] at this
                    exact this.2
                  rw [hcn, hacct] at hb1 hb2
                  obtain ⟨t1, o1⟩ := sendIfAny_ok (fun e => ha1 e.symm) hb1
                  obtain ⟨t2, _⟩ := sendIfAny_ok (fun e => ha2 e.symm) hb2
                  have e1 : cb d = (Collect.portionOf (cc.bonds d) (Dec.one - cc.donation)).toNat := by
                    unfold Collect.calcPortion at hcb
                    split at hcb
                    · cases hcb
                    · cases hcb; rfl
                  have e2 : db d = (Collect.portionOf (cc.bonds d) cc.donation).toNat := by
                    unfold Collect.calcPortion at hdb
                    split at hdb
                    · cases hdb
                    · cases hdb; rfl
                  rw [t2 d hd, t1 d hd, e1, e2]
        · cases h

/-- **withdraw_exact (as far as the code goes).** With a donation share in [0,1] the contributor receives, per bonded
denom, the bonded amount ± 1; exactly the bonded amount unless `donation · bonded` has fractional part ½. -/
theorem withdraw_exact_partial {s s' : Collect.State} {a : Addr} {n : Nat} {now : Nat}
    (ha1 : a ≠ Collect.collAddr n) (ha2 : a ≠ Collect.donAddr n)
    (h : Collect.withdraw s a n now = .ok s') :
    ∃ cc, Collect.findContrib s.contribs n a = some cc ∧ cc.locking ≤ now ∧
      (0 ≤ cc.donation → cc.donation ≤ Dec.one → ∀ d ∈ s.sp.voc,
        (s.sp.bank a d + cc.bonds d - 1 ≤ s'.sp.bank a d ∧ s'.sp.bank a d ≤ s.sp.bank a d + cc.bonds d + 1) ∧
        (((cc.bonds d : Nat) : Int) * cc.donation % P ≠ half → s'.sp.bank a d = s.sp.bank a d + cc.bonds d)) := by
  obtain ⟨cc, hcc, hl, hp⟩ := withdraw_pays_portions ha1 ha2 h
  refine ⟨cc, hcc, hl, fun h0 h1 d hd => ?_⟩
  have hpd := hp d hd
  obtain ⟨n1, n2, p1, p2⟩ := portions_near (cc.bonds d) cc.donation h0 h1
  have c1 := Int.toNat_of_nonneg p1
  have c2 := Int.toNat_of_nonneg p2
  refine ⟨by omega, fun hh => ?_⟩
  have := portions_exact (cc.bonds d) cc.donation h0 h1 hh
  omega

/-- **withdraw_after_lock.** Before the lock expires the withdrawal fails and changes nothing. -/
theorem withdraw_after_lock (s : Collect.State) (a : Addr) (n : Nat) (now : Nat) (cc : Collect.Contrib)
    (hcc : Collect.findContrib s.contribs n a = some cc) (hl : now < cc.locking) :
    Collect.withdraw s a n now = .error .err := by
  unfold Collect.withdraw
  rw [hcc]
  simp only
  have : cc.locking > now := hl
  simp [this]

/-- the full statement "a contributor gets back exactly what it bonded" … -/
def withdraw_exact_full : Prop :=
  ∀ (s s' : Collect.State) (a : Addr) (n now : Nat) (cc : Collect.Contrib), a ≠ Collect.collAddr n → a ≠ Collect.donAddr n →
    Collect.findContrib s.contribs n a = some cc → 0 ≤ cc.donation → cc.donation ≤ Dec.one →
    Collect.withdraw s a n now = .ok s' → ∀ d ∈ s.sp.voc, s'.sp.bank a d = s.sp.bank a d + cc.bonds d

/-- the witness: collective 0 holds 13 units of denom 1 (10 of contributor 7, 3 of contributor 5, both donating one half:
5 + 2 sit in the donation account); contributor 5 withdraws and receives 2 + 2 = 4 for the 3 it bonded -/
def kfState : Collect.State :=
  { sp := { voc := [0, 1, 2], bank := fun x d => if d = 1 then (if x = Collect.collAddr 0 then 6 else if x = Collect.donAddr 0 then 7 else 0) else 0 },
    colls := [{ name := 0, status := 0, depAny := true, depRoles := [], depAccounts := [], bonds := fun d => if d = 1 then 13 else 0, donations := fun _ => 0 }],
    contribs := [{ coll := 0, acct := 7, bonds := fun d => if d = 1 then 10 else 0, locking := 0, donation := 500000000000000000, donationLock := false },
                 { coll := 0, acct := 5, bonds := fun d => if d = 1 then 3 else 0, locking := 0, donation := 500000000000000000, donationLock := false }] }

/-- … is false of the code (KF-C18-03): `calcPortion` rounds (1−d)·b and d·b separately, half to even -/
theorem withdraw_exact_counterexample : ¬ withdraw_exact_full := by
  intro h
  obtain ⟨s', hw⟩ : ∃ s', Collect.withdraw kfState 5 0 10 = .ok s' := ⟨_, rfl⟩
  · have := h kfState s' 5 0 10 { coll := 0, acct := 5, bonds := fun d => if d = 1 then 3 else 0, locking := 0, donation := 500000000000000000, donationLock := false }
      (by decide) (by decide) rfl (by decide) (by decide) hw 1 (by decide)
    obtain ⟨cc, hcc, _, hp⟩ := withdraw_pays_portions (by decide) (by decide) hw
    have hcc' : cc = { coll := 0, acct := 5, bonds := fun d => if d = 1 then 3 else 0, locking := 0, donation := 500000000000000000, donationLock := false } := by
      have : Collect.findContrib kfState.contribs 0 5 = some { coll := 0, acct := 5, bonds := fun d => if d = 1 then 3 else 0, locking := 0, donation := 500000000000000000, donationLock := false } := rfl
      rw [this] at hcc; cases hcc; rfl
    have hp1 := hp 1 (by decide)
    subst hcc'
    have e1 : (Collect.portionOf 3 (Dec.one - 500000000000000000)).toNat = 2 := by decide
    have e2 : (Collect.portionOf 3 500000000000000000).toNat = 2 := by decide
    simp only [if_true] at hp1 this
    rw [e1, e2] at hp1
    omega

example : ∃ s', Collect.withdraw kfState 7 0 10 = .ok s' := ⟨_, rfl⟩

/-! ## proposals pay only beneficiaries; donations leave only by the send-donation proposal -/

/-- the withdraw proposal pays only accounts that pass the beneficiary test (by account or by role) -/
theorem withdrawLoop_only_beneficiaries (s : State) (p : Pool) (coins : List (Denom × Nat)) (bens : List Addr) :
    ∀ (bank : Bank) (bal : Amt) (r : Bank × Amt), withdrawLoop s p coins bens bank bal = .ok r →
      ∀ b ∈ bens, isAllowedBen p s.actors b = true := by
  induction bens with
  | nil => intro _ _ _ _ b hb; cases hb
  | cons x rest ih =>
    intro bank bal r h b hb
    simp only [withdrawLoop] at h
    split at h
    · cases h
    · rename_i hx
      split at h
      · cases h
      · rename_i bank1 _
        split at h
        · cases h
        · cases hb with
          | head => simpa using hx
          | tail _ hb' => exact ih bank1 _ r h b hb'

theorem withdraw_only_beneficiaries {s s' : State} {n : Nat} {bens : List Addr} {coins : List (Denom × Nat)}
    (h : withdraw s n bens coins = .ok s') :
    ∃ p, findPool s.pools n = some p ∧ ∀ b ∈ bens, isAllowedBen p s.actors b = true := by
  unfold withdraw at h
  split at h
  · cases h
  · rename_i p hp
    split at h
    · cases h
    · rename_i bank' bal' hl
      exact ⟨p, hp, withdrawLoop_only_beneficiaries s p coins bens s.bank p.bal (bank', bal') hl⟩

/-- a distribution proposal is a sequence of ordinary claims: nobody outside its beneficiary list is paid -/
theorem claimAll_frame {n now : Nat} (l : List Addr) : ∀ {s s' : State}, claimAll s n now l = .ok s' →
    ∀ x, x ∉ l → x ≠ SPEND → s'.bank x = s.bank x := by
  induction l with
  | nil => intro s s' h x _ _; simp only [claimAll] at h; cases h; rfl
  | cons a rest ih =>
    intro s s' h x hx hxs
    simp only [claimAll] at h
    split at h
    · cases h
    · rename_i s1 h1
      have hxa : x ≠ a := fun e => hx (by simp [e])
      have hxr : x ∉ rest := fun e => hx (List.mem_cons_of_mem _ e)
      rw [ih h x hxr hxs]
      obtain ⟨p, ci, dur, _, _, _, _, _, _, _, hs1⟩ := claim_ok h1
      subst hs1
      exact move_other s.bank SPEND a x _ hxs hxa

theorem distribute_frame {s s' : State} {n now : Nat} (h : distribute s n now = .ok s') :
    ∃ p, findPool s.pools n = some p ∧ ∀ x, x ∉ distributionList s p → x ≠ SPEND → s'.bank x = s.bank x := by
  unfold distribute at h
  split at h
  · cases h
  · rename_i p hp
    exact ⟨p, hp, claimAll_frame _ h⟩

theorem send_other {b b' : Bank} {f t : Addr} {l : List (Denom × Nat)} (h : b.send f t l = .ok b') (x : Addr)
    (hf : x ≠ f) (ht : x ≠ t) : b' x = b x := by
  obtain ⟨_, hbe⟩ := send_ok h
  subst hbe
  exact move_other b f t x _ hf ht

theorem sendIfAny_other {voc : List Denom} {b b' : Bank} {f t : Addr} {amt : Amt}
    (h : Collect.sendIfAny voc b f t amt = .ok b') (x : Addr) (hf : x ≠ f) (ht : x ≠ t) : b' x = b x := by
  unfold Collect.sendIfAny at h
  split at h
  · obtain ⟨_, hbe⟩ := sendAmt_ok h
    subst hbe
    exact move_other b f t x amt hf ht
  · cases h; rfl

theorem coll_ne (n : Nat) : COLL ≠ Collect.collAddr n ∧ COLL ≠ Collect.donAddr n := by
  constructor
  · intro h; have h' : (1000002 : Nat) = 2000000 + 2 * n := h; omega
  · intro h; have h' : (1000002 : Nat) = 2000001 + 2 * n := h; omega

/-- **donations_only_by_proposal (bank side).** A contributor's withdrawal never touches the collectives module account
(where donations are held): only `SendDonation`, reachable from the send-donation proposal alone, debits it. -/
theorem withdraw_keeps_donation_account {s s' : Collect.State} {a : Addr} {n now : Nat} (ha : a ≠ COLL)
    (h : Collect.withdraw s a n now = .ok s') : s'.sp.bank COLL = s.sp.bank COLL := by
  unfold Collect.withdraw at h
  split at h
  · cases h
  · rename_i cc hcc
    split at h
    · cases h
    · split at h
      · cases h
      · rename_i c hc
        have hacct : cc.acct = a := by
          unfold Collect.findContrib at hcc
          have := List.find?_some hcc
          simp only [Bool.and_eq_true, beq_iff_eq] at this
          exact this.2
        unfold Collect.withdrawK at h
        split at h
        · split at h
          · cases h
          · rename_i bank1 hb1
            split at h
            · cases h
            · rename_i bank2 hb2
              split at h
              · cases h
              · simp only at h
                split at h
                · cases h
                · cases h
                  simp only
                  rw [hacct] at hb1 hb2
                  rw [sendIfAny_other hb2 COLL (coll_ne c.name).2 (fun e => ha e.symm),
                      sendIfAny_other hb1 COLL (coll_ne c.name).1 (fun e => ha e.symm)]
        · cases h

/-- `SendDonation` pays at most the recorded donations and reduces the record by exactly what it pays -/
theorem sendDonation_le_record {s s' : Collect.State} {n : Nat} {to : Addr} {coins : List (Denom × Nat)}
    (h : Collect.sendDonation s n to coins = .ok s') :
    ∃ c, Collect.findColl s.colls n = some c ∧ ∀ e ∈ coins, e.2 ≤ c.donations e.1 := by
  unfold Collect.sendDonation at h
  split at h
  · cases h
  · rename_i c hc
    split at h
    · cases h
    · rename_i hge
      refine ⟨c, hc, fun e he => ?_⟩
      have : Collect.isAllGTE c.donations coins = true := by simpa using hge
      unfold Collect.isAllGTE at this
      rw [List.all_eq_true] at this
      simpa using this e he

/-! ## non-vacuity: one concrete pool on which the hypotheses of the claim theorems hold -/

/-- pool 0: start 100, no end, expiry 1000, 1.5 of denom 2 per second; account 1 listed with weight 1 and registered at 50;
account 3 holds role 7 (weight 2) and registered at 120 -/
def exState : State :=
  { pools := [{ name := 0, claimStart := 100, claimEnd := 0, claimExpiry := 1000, rates := [(2, 1500000000000000000)],
                voteQuorum := 0, votePeriod := 0, voteEnactment := 0, ownerRoles := [], ownerAccounts := [0], benRoles := [(7, 2000000000000000000)],
                benAccounts := [(1, 1000000000000000000)], bal := fun d => if d = 2 then 1000 else 0, dynamicRate := false, dynamicRatePeriod := 0, lastDyn := 0 }],
    infos := [{ pool := 0, acct := 1, last := 50 }, { pool := 0, acct := 3, last := 120 }],
    bank := fun x d => if x = SPEND ∧ d = 2 then 1000 else 0,
    actors := fun a => if a = 3 then some [7] else none, accts := [0, 1, 2, 3], voc := [0, 1, 2] }

example : Solvent exState := by
  intro d; simp only [exState, sumPools]; split <;> simp_all

/-- two consecutive claims of account 1 (at 200 and at 300): 150 for [100,200], then 150 for [200,300] -/
def paidAfter (r : Except Err State) (a : Addr) (d : Denom) : Option Nat :=
  match r with
  | .ok s => some (s.bank a d)
  | .error _ => none

example : paidAfter (claim exState 0 1 200) 1 2 = some 150 := by decide
example : paidAfter ((claim exState 0 1 200).bind (fun s1 => claim s1 0 1 300)) 1 2 = some 300 := by decide

/-- a role holder is paid with the role's weight: 2 × 1.5 × 80 s -/
example : paidAfter (claim exState 0 3 200) 3 2 = some 240 := by decide

/-- the distribution proposal pays accounts 1 and 3 and nobody else -/
example : paidAfter (distribute exState 0 200) 1 2 = some 150 ∧ paidAfter (distribute exState 0 200) 3 2 = some 240 ∧
    paidAfter (distribute exState 0 200) 2 2 = some 0 := by decide

/-- the withdraw proposal: a beneficiary is paid, a stranger makes it fail -/
example : paidAfter (withdraw exState 0 [1] [(2, 10)]) 1 2 = some 10 ∧ paidAfter (withdraw exState 0 [2] [(2, 10)]) 2 2 = none := by decide

example : Collect.withdraw { kfState with contribs := [{ coll := 0, acct := 5, bonds := fun _ => 0, locking := 11, donation := 0, donationLock := false }] } 5 0 10 = .error .err := rfl

/-! ## collectives `EndBlocker` (`Collect.endBlock`): rewards go to the spending pools, the bonds stay -/

/-- with weight 1 the portion of an amount is the amount: a collective with ONE spending pool of weight 1 forwards exactly
the rewards it claimed (nothing of the bonds that sit in the same account) -/
theorem portion_of_full_weight (a : Nat) : Collect.portionOf a Dec.one = (a : Int) := by
  rw [portionOf_eq]
  exact chopRound_mul_P (a : Int)

/-- every portion is within one half of its exact share: `2·P·portion ≤ 2·a·w + P` -/
theorem portion_upper (a : Nat) (w : Int) : 2 * P * Collect.portionOf a w ≤ 2 * ((a : Int) * w) + P := by
  rw [portionOf_eq]; exact chopRound_upper _

/-- the distribution of rewards writes no collective and no contributor record, and leaves the network parameters alone -/
theorem distribute_keeps_records (s s' : Collect.State) (c : Collect.Coll) (h : Collect.distribute s c = .ok s') :
    s'.colls = s.colls ∧ s'.contribs = s.contribs := by
  have dep : ∀ (l : List (Nat × Int)) (t t' : Collect.State) (frm : Addr) (coins : Amt),
      Collect.depositPools t frm coins l = .ok t' → t'.colls = t.colls ∧ t'.contribs = t.contribs := by
    intro l
    induction l with
    | nil => intro t t' frm coins h; simp only [Collect.depositPools, Except.ok.injEq] at h; subst h; exact ⟨rfl, rfl⟩
    | cons e rest ih =>
      intro t t' frm coins h
      obtain ⟨p, w⟩ := e
      unfold Collect.depositPools at h
      split at h
      · cases h
      · split at h
        · exact ih _ _ _ _ h
        · split at h
          · cases h
          · have := ih _ _ _ _ h
            exact this
  have clm : ∀ (t t' : Collect.State) (a : Addr) (x : Amt), Collect.claimRewards t a = .ok (t', x) →
      t'.colls = t.colls ∧ t'.contribs = t.contribs := by
    intro t t' a x h
    unfold Collect.claimRewards at h
    split at h
    · cases h
    · simp only [Except.ok.injEq, Prod.mk.injEq] at h
      obtain ⟨rfl, _⟩ := h
      exact ⟨rfl, rfl⟩
  unfold Collect.distribute at h
  split at h
  · cases h
  · rename_i s1 coins h1
    split at h
    · cases h
    · rename_i s2 h2
      split at h
      · cases h
      · rename_i s3 dcoins h3
        split at h
        · cases h
        · simp only [Except.ok.injEq] at h
          subst h
          have a1 := clm _ _ _ _ h1
          have a2 := dep _ _ _ _ _ h2
          have a3 := clm _ _ _ _ h3
          exact ⟨by show s3.colls = _; rw [a3.1, a2.1, a1.1], by show s3.contribs = _; rw [a3.2, a2.2, a1.2]⟩

/-- the first loop of the EndBlocker (reward distribution of every active collective whose period has come) writes no
collective and no contributor record -/
theorem distLoop_keeps_records (now : Nat) (l : List Collect.Coll) (s s' : Collect.State)
    (h : Collect.distLoop s now l = .ok s') : s'.colls = s.colls ∧ s'.contribs = s.contribs := by
  induction l generalizing s with
  | nil => simp only [Collect.distLoop, Except.ok.injEq] at h; subst h; exact ⟨rfl, rfl⟩
  | cons c rest ih =>
    unfold Collect.distLoop at h
    split at h
    · cases hd : Collect.distribute s c with
      | ok s1 =>
        rw [hd] at h
        have a := distribute_keeps_records s s1 c hd
        have b := ih s1 h
        exact ⟨by rw [b.1, a.1], by rw [b.2, a.2]⟩
      | error e =>
        rw [hd] at h
        cases e with
        | panic => cases h
        | err => exact ih s h
    · exact ih s h

/-- `WithdrawCollective` (keeper) removes exactly the record of that contributor -/
theorem withdrawK_contribs {s s' : Collect.State} {c : Collect.Coll} {cc : Collect.Contrib}
    (h : Collect.withdrawK s c cc = .ok s') : s'.contribs = Collect.delContrib s.contribs cc.coll cc.acct := by
  unfold Collect.withdrawK at h
  split at h
  · split at h
    · cases h
    · split at h
      · cases h
      · split at h
        · cases h
        · simp only at h
          split at h
          · cases h
          · cases h; rfl
  · cases h

/-- the contributors' loop of a dissolution removes the records of the listed contributors and no other -/
theorem withdrawAll_contribs (c : Collect.Coll) (l : List Collect.Contrib) (s s' : Collect.State)
    (h : Collect.withdrawAll s c l = .ok s') :
    ∀ x, x ∈ s'.contribs ↔ x ∈ s.contribs ∧ ∀ cc ∈ l, ¬ (x.coll = cc.coll ∧ x.acct = cc.acct) := by
  induction l generalizing s with
  | nil => simp only [Collect.withdrawAll, Except.ok.injEq] at h; subst h; intro x; simp
  | cons cc rest ih =>
    unfold Collect.withdrawAll at h
    cases hw : Collect.withdrawK s c cc with
    | error e => rw [hw] at h; cases h
    | ok s1 =>
      rw [hw] at h
      have h1 := withdrawK_contribs hw
      intro x
      rw [ih s1 h x, h1]
      unfold Collect.delContrib
      simp only [List.mem_filter, Bool.not_eq_true', Bool.and_eq_false_iff, beq_eq_false_iff_ne, ne_eq, List.mem_cons, forall_eq_or_imp]
      constructor
      · rintro ⟨⟨hx, hne⟩, hr⟩
        refine ⟨hx, ?_, hr⟩
        rintro ⟨e1, e2⟩
        rcases hne with hh | hh
        · exact hh e1
        · exact hh e2
      · rintro ⟨hx, hne, hr⟩
        refine ⟨⟨hx, ?_⟩, hr⟩
        by_cases e1 : x.coll = cc.coll
        · right; intro e2; exact hne ⟨e1, e2⟩
        · left; exact e1

/-- **a dissolution (`ExecuteCollectiveRemove`) removes the collective and the records of ITS contributors - every
contributor record of every other collective is still there** -/
theorem executeRemove_records {s s' : Collect.State} {c : Collect.Coll} (h : Collect.executeRemove s c = .ok s') :
    (∀ x, x ∈ s'.contribs ↔ x ∈ s.contribs ∧ x.coll ≠ c.name) ∧ Collect.findColl s'.colls c.name = none := by
  unfold Collect.executeRemove at h
  cases hd : Collect.distribute s c with
  | error e => rw [hd] at h; cases h
  | ok s1 =>
    rw [hd] at h
    simp only at h
    cases hw : Collect.withdrawAll s1 c (s1.contribs.filter (fun cc => cc.coll == c.name)) with
    | error e => rw [hw] at h; cases h
    | ok s2 =>
      rw [hw] at h
      simp only [Except.ok.injEq] at h
      subst h
      have hrec := distribute_keeps_records s s1 c hd
      have hall := withdrawAll_contribs c _ s1 s2 hw
      constructor
      · intro x
        show x ∈ s2.contribs ↔ _
        rw [hall x, hrec.2]
        constructor
        · rintro ⟨hx, hne⟩
          refine ⟨hx, ?_⟩
          intro e
          exact hne x (by simp [List.mem_filter, hx, e]) ⟨rfl, rfl⟩
        · rintro ⟨hx, hne⟩
          refine ⟨hx, ?_⟩
          intro cc hcc ⟨e1, _⟩
          have : cc.coll = c.name := by
            have := (List.mem_filter.mp hcc).2
            simpa using this
          exact hne (e1.trans this)
      · show Collect.findColl (s2.colls.filter _) c.name = none
        unfold Collect.findColl
        rw [List.find?_eq_none]
        intro q hq
        have := (List.mem_filter.mp hq).2
        simpa using this

/-- … but with several weighted pools the rounded portions can add up to MORE than the rewards claimed - the excess is
taken from the bonds in the same account: 7 units of reward, two pools of weight one half, portions 4 + 4
(finding `C18/collectives-distribution/rounded-portions-exceed-rewards`) -/
theorem distribution_rounding_counterexample :
    Collect.portionOf 7 (Dec.one / 2) + Collect.portionOf 7 (Dec.one / 2) = 8 := by decide

/-! ### Key spaces of the stores this model keeps in separate maps (table `Gen.Keys`)

The model keeps each record kind of a module in a field of its own; the module keeps them in ONE store under byte prefixes.
No prefix extends another (checked on the regenerated table), so by `Sekai.Keys.keys_of_different_kinds_differ` a key of one
kind is never a key of another kind. -/

theorem spending_key_spaces_disjoint : Sekai.Keys.disjoint Sekai.Gen.Keys.stores "spending" = true := by decide +kernel

theorem collectives_key_spaces_disjoint : Sekai.Keys.disjoint Sekai.Gen.Keys.stores "collectives" = true := by decide +kernel

theorem ubi_key_spaces_disjoint : Sekai.Keys.disjoint Sekai.Gen.Keys.stores "ubi" = true := by decide +kernel

end Sekai.Props.C18
