import SekaiProofs.Lemmas.Ante
/-! # C14 — Frozen tokens cannot move and a weak network accepts only allowed messages

Theorems about `Sekai.Ante` (`TokensWhiteBlack.IsFrozen`, `ValidateFeeRangeDecorator`'s freeze test on fee
coins, `BlackWhiteTokensCheckDecorator`, `PoorNetworkManagementDecorator` after fix b5b9d20), for ALL
configurations and transactions. Tie to /repo: `harness/c14.go` (signed transactions through the real ante
chain, every transfer-capable message type in every position). -/
namespace Sekai.Props.C14
open Sekai Sekai.Ante Sekai.Lemmas.Ante

/-! ## freezing -/

/-- **The native token is never frozen**, whatever the lists and switches say. -/
theorem native_never_frozen (black white : List String) (native : String) (blOn wlOn : Bool) :
    isFrozen black white native native blOn wlOn = false := by
  simp [isFrozen]

example : isFrozen ["ukex"] [] "ukex" "ukex" true true = false := by decide

/-- **`IsFrozen` exactly as coded**: a non-native denomination is frozen iff it is blacklisted while the
blacklist is on, or absent from the whitelist while whitelisting is on. -/
theorem isFrozen_spec (black white : List String) (d native : String) (blOn wlOn : Bool) :
    isFrozen black white d native blOn wlOn = true ↔
      d ≠ native ∧ ((blOn = true ∧ d ∈ black) ∨ (wlOn = true ∧ d ∉ white)) := by
  unfold isFrozen
  by_cases hn : d = native
  · simp [hn]
  · have hn' : (d == native) = false := by simpa using hn
    simp only [hn', Bool.false_eq_true, if_false, ne_eq, hn, not_false_eq_true, true_and]
    by_cases h1 : (blOn && black.contains d) = true
    · simp only [h1, if_true, true_iff]
      simp only [Bool.and_eq_true, List.contains_iff_mem] at h1
      exact Or.inl h1
    · simp only [h1, if_false, Bool.false_eq_true]
      simp only [Bool.and_eq_true, List.contains_iff_mem] at h1
      by_cases h2 : (wlOn && !white.contains d) = true
      · simp only [h2, if_true, true_iff]
        simp only [Bool.and_eq_true, Bool.not_eq_true', List.contains_eq_mem, decide_eq_false_iff_not] at h2
        exact Or.inr h2
      · simp only [h2, if_false, Bool.false_eq_true, false_iff]
        simp only [Bool.and_eq_true, Bool.not_eq_true', List.contains_eq_mem, decide_eq_false_iff_not] at h2
        rintro (h | h)
        · exact h1 h
        · exact h2 h

example : isFrozen ["frozen"] ["ukex"] "frozen" "ukex" true false = true := by decide
example : isFrozen ["frozen"] ["ukex"] "frozen" "ukex" false false = false := by decide
example : isFrozen [] ["ukex"] "ubtc" "ukex" false true = true := by decide

/-- **No accepted transaction pays its fee in a frozen token.** -/
theorem fee_not_frozen (c : Cfg) (tx : Tx) (s s' : State) (h : ante c tx s = .ok s') :
    ∀ x ∈ tx.fee, frozen c x.1 = false := by
  have hv : validateFee c tx = .ok () := by
    unfold ante at h
    split at h
    · cases h
    · rename_i hv; exact hv
  unfold validateFee at hv
  split at hv
  · cases hv
  · rename_i v hl
    intro x hx
    obtain ⟨_, _, _, hfr, _⟩ := (feeLoop_ok c tx.fee 0 v hl).1 x hx
    exact hfr

/-- non-vacuity: the default configuration accepts a fee in the native token and rejects one in the blacklisted token -/
example : validateFee { tokens := [⟨"ukex", Dec.one, true⟩, ⟨"frozen", Dec.one, true⟩], black := ["frozen"] } ⟨[], [("ukex", 100)], 1⟩ = .ok () ∧
    validateFee { tokens := [⟨"ukex", Dec.one, true⟩, ⟨"frozen", Dec.one, true⟩], black := ["frozen"] } ⟨[], [("frozen", 100)], 1⟩ = .error .feeFrozen := by
  decide

/-! ## restricted (poor-network) mode -/

/-- the message type is on the poor-network allowed list -/
def Allowed (c : Cfg) (m : Msg) : Prop := m.msgType ∈ c.poorMsgs

theorem ante_filters (c : Cfg) (tx : Tx) (s s' : State) (h : ante c tx s = .ok s') :
    poorNetwork c tx.msgs = .ok () ∧ bwLoop c tx.msgs = .ok () := by
  unfold ante at h
  split at h
  · cases h
  · dsimp only at h
    split at h
    · cases h
    · split at h
      · cases h
      · rename_i hp
        split at h
        · cases h
        · rename_i hb
          exact ⟨hp, hb⟩

/-- **While the network is not active, a transaction is accepted only if every one of its messages is on
the allowed list or is a native-token bank send within the configured limit** — every message, any list
length (induction over the message list in `poorLoop_ok_iff`). -/
theorem poor_network (c : Cfg) (tx : Tx) (s s' : State) (hna : networkActive c = false) (h : ante c tx s = .ok s') :
    ∀ m ∈ tx.msgs, Allowed c m ∨ SmallNativeSend c m := by
  have hp := (ante_filters c tx s s' h).1
  unfold poorNetwork at hp
  simp only [hna, Bool.false_eq_true, if_false] at hp
  intro m hm
  have := (poorLoop_ok_iff c tx.msgs).mp hp m hm
  unfold PoorOk at this
  split at this
  · exact Or.inr this
  · exact Or.inl this

/-- the filter's decision, exactly: a bank send must be a small native send (even if `send` is on the list),
any other message must be on the list -/
theorem poor_network_iff (c : Cfg) (msgs : List Msg) (hna : networkActive c = false) :
    poorNetwork c msgs = .ok () ↔ ∀ m ∈ msgs, PoorOk c m := by
  unfold poorNetwork
  simp only [hna, Bool.false_eq_true, if_false]
  exact poorLoop_ok_iff c msgs

/-- `IsNetworkActive` means "at least the configured minimum of validators" as long as the minimum fits `int` -/
theorem networkActive_spec (c : Cfg) (h : c.minValidators < two63) :
    networkActive c = true ↔ c.minValidators ≤ c.nVal := by
  unfold networkActive
  rw [toI64_of_lt h]
  simp only [decide_eq_true_eq]
  omega

example : ({ minValidators := 3, nVal := 2 } : Cfg).minValidators < two63 ∧ networkActive { minValidators := 3, nVal := 2 } = false ∧
    networkActive { minValidators := 3, nVal := 3 } = true := by decide

/-- **Wrap-around corner**: `MinValidators ≥ 2^63` (accepted by `ValidateNetworkProperties`) is read as a
negative `int`, so a network with fewer validators than the minimum counts as active and the filter is off.
Replayed on the real code by `harness/c14.go` (finding `C14/is-network-active/int-cast-wraparound`). -/
theorem networkActive_wraparound_counterexample :
    ∃ c : Cfg, c.nVal < c.minValidators ∧ networkActive c = true :=
  ⟨{ minValidators := two63, nVal := 1 }, by decide, by decide⟩

def cfgPoor : Cfg := { minValidators := 3, nVal := 2, poorMsgs := ["submit_proposal", "vote_proposal"], poorMaxSend := 1000,
                       tokens := [⟨"ukex", Dec.one, true⟩], black := ["frozen"] }
def sRich : State := { bal := fun a d => if a = .user 1 ∧ d = "ukex" then 100000 else 0 }
def accepted (c : Cfg) (tx : Tx) (s : State) : Bool := match ante c tx s with | .ok _ => true | .error _ => false
/-- non-vacuity: restricted mode, an accepted transaction with an allowed message and a small native send;
a big send in SECOND position is rejected (the pre-fix code accepted it) -/
example : networkActive cfgPoor = false ∧
    accepted cfgPoor ⟨[⟨"vote_proposal", .other, 1⟩, ⟨"send", .send [("ukex", 1000)] 2, 1⟩], [("ukex", 100)], 1⟩ sRich = true ∧
    accepted cfgPoor ⟨[⟨"send", .send [("ukex", 5)] 2, 1⟩, ⟨"send", .send [("ukex", 1001)] 2, 1⟩], [("ukex", 100)], 1⟩ sRich = false ∧
    accepted cfgPoor ⟨[⟨"send", .send [("ukex", 5)] 2, 1⟩, ⟨"multisend", .multisend [("ukex", 5)] 2, 1⟩], [("ukex", 100)], 1⟩ sRich = false := by
  decide

/-! ## frozen tokens do not move — full statement, counterexample, proved part -/

/-- FULL statement of the property: no accepted transaction contains a message that moves a frozen
denomination to another account. -/
def frozen_not_transferred_full : Prop :=
  ∀ (c : Cfg) (tx : Tx) (s s' : State), ante c tx s = .ok s' →
    ∀ m ∈ tx.msgs, ∀ x ∈ movedCoins m, frozen c x.1 = false

/-- default genesis: blacklist on, `frozen` blacklisted -/
def cfgDef : Cfg := { tokens := [⟨"ukex", Dec.one, true⟩, ⟨"frozen", Dec.one / 10, true⟩], black := ["frozen"], white := ["ukex"] }
def txMulti : Tx := ⟨[⟨"multisend", .multisend [("frozen", 1000)] 2, 1⟩], [("ukex", 100)], 1⟩

/-- **The full statement is FALSE on the current tree**: `BlackWhiteTokensCheckDecorator` inspects only bank
`MsgSend`; a `MsgMultiSend` (or custody `MsgSend`, …) moving the blacklisted token is accepted. Witness
replayed on the real code by `harness/c14.go` (findings `C14/multisend/frozen-token-moves`,
`C14/custody-send/frozen-token-moves`). -/
theorem frozen_not_transferred_counterexample : ¬ frozen_not_transferred_full := by
  intro hfull
  have hacc : accepted cfgDef txMulti sRich = true := by decide
  unfold accepted at hacc
  split at hacc
  · rename_i s' hs'
    have := hfull cfgDef txMulti sRich s' hs' _ (List.mem_cons_self ..) ("frozen", 1000) (by simp [movedCoins])
    revert this; decide
  · cases hacc

/-- **_partial (proved part): bank `MsgSend`.** Excluded inputs, as an explicit decidable hypothesis: messages
whose type is not `"send"` (everything `BlackWhiteTokensCheckDecorator` does not inspect). For every accepted
transaction, every bank send in ANY position moves no frozen denomination. -/
theorem frozen_not_transferred_partial (c : Cfg) (tx : Tx) (s s' : State) (h : ante c tx s = .ok s') :
    ∀ m ∈ tx.msgs, m.msgType = "send" → ∀ x ∈ movedCoins m, frozen c x.1 = false := by
  intro m hm hty x hx
  obtain ⟨cs, to, hk, hall⟩ := bwLoop_ok c tx.msgs (ante_filters c tx s s' h).2 m hm hty
  simp only [movedCoins, hk] at hx
  exact hall x hx

/-- non-vacuity of `_partial`: a bank send of a free token is accepted, of the frozen one rejected -/
example : accepted cfgDef ⟨[⟨"send", .send [("ukex", 7)] 2, 1⟩], [("ukex", 100)], 1⟩ sRich = true ∧
    accepted cfgDef ⟨[⟨"send", .send [("ukex", 7)] 2, 1⟩, ⟨"send", .send [("frozen", 7)] 2, 1⟩], [("ukex", 100)], 1⟩ sRich = false := by
  decide

end Sekai.Props.C14
