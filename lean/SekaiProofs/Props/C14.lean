import SekaiProofs.Lemmas.Ante
import Sekai.Gen.App
import Sekai.Model.App
import Sekai.Gen.Ambient
/-! # C14 — Frozen tokens cannot move and a weak network accepts only allowed messages

Theorems about `Sekai.Ante` (`TokensWhiteBlack.IsFrozen`, `ValidateFeeRangeDecorator`'s freeze test on fee
coins, `BlackWhiteTokensCheckDecorator`, `PoorNetworkManagementDecorator` after fix b5b9d20), for ALL
configurations and transactions. Tie to /repo: `harness/c14.go` (signed transactions through the real ante
chain, every transfer-capable message type in every position). -/
namespace Sekai.Props.C14
open Sekai Sekai.Ante Sekai.Lemmas.Ante

/-! ## freezing -/

/-- **The native token is never frozen**, whatever the lists and switches say. -/
theorem native_never_frozen (black white : List String) (native : String) (blOn wlOn : Bool) :
    isFrozen black white native native blOn wlOn = false := by
  simp [isFrozen]

example : isFrozen ["ukex"] [] "ukex" "ukex" true true = false := by decide

/-- **`IsFrozen` exactly as coded**: a non-native denomination is frozen iff it is blacklisted while the
blacklist is on, or absent from the whitelist while whitelisting is on. -/
theorem isFrozen_spec (black white : List String) (d native : String) (blOn wlOn : Bool) :
    isFrozen black white d native blOn wlOn = true ↔
      d ≠ native ∧ ((blOn = true ∧ d ∈ black) ∨ (wlOn = true ∧ d ∉ white)) := by
  unfold isFrozen
  by_cases hn : d = native
  · simp [hn]
  · have hn' : (d == native) = false := by simpa using hn
    simp only [hn', Bool.false_eq_true, if_false, ne_eq, hn, not_false_eq_true, true_and]
    by_cases h1 : (blOn && black.contains d) = true
    · simp only [h1, if_true, true_iff]
      simp only [Bool.and_eq_true, List.contains_iff_mem] at h1
      exact Or.inl h1
    · simp only [h1, if_false, Bool.false_eq_true]
      simp only [Bool.and_eq_true, List.contains_iff_mem] at h1
      by_cases h2 : (wlOn && !white.contains d) = true
      · simp only [h2, if_true, true_iff]
        simp only [Bool.and_eq_true, Bool.not_eq_true', List.contains_eq_mem, decide_eq_false_iff_not] at h2
        exact Or.inr h2
      · simp only [h2, if_false, Bool.false_eq_true, false_iff]
        simp only [Bool.and_eq_true, Bool.not_eq_true', List.contains_eq_mem, decide_eq_false_iff_not] at h2
        rintro (h | h)
        · exact h1 h
        · exact h2 h

example : isFrozen ["frozen"] ["ukex"] "frozen" "ukex" true false = true := by decide
example : isFrozen ["frozen"] ["ukex"] "frozen" "ukex" false false = false := by decide
example : isFrozen [] ["ukex"] "ubtc" "ukex" false true = true := by decide

/-- **No accepted transaction pays its fee in a frozen token.** -/
theorem fee_not_frozen (c : Cfg) (tx : Tx) (s s' : State) (h : ante c tx s = .ok s') :
    ∀ x ∈ tx.fee, frozen c x.1 = false := by
  have hv : validateFee c tx = .ok () := by
    unfold ante at h
    split at h
    · cases h
    · rename_i hv; exact hv
  unfold validateFee at hv
  split at hv
  · cases hv
  · rename_i v hl
    intro x hx
    obtain ⟨_, _, _, hfr, _⟩ := (feeLoop_ok c tx.fee 0 v hl).1 x hx
    exact hfr

/-- non-vacuity: the default configuration accepts a fee in the native token and rejects one in the blacklisted token -/
example : validateFee { tokens := [⟨"ukex", Dec.one, true⟩, ⟨"frozen", Dec.one, true⟩], black := ["frozen"] } ⟨[], [("ukex", 100)], 1⟩ = .ok () ∧
    validateFee { tokens := [⟨"ukex", Dec.one, true⟩, ⟨"frozen", Dec.one, true⟩], black := ["frozen"] } ⟨[], [("frozen", 100)], 1⟩ = .error .feeFrozen := by
  decide

/-! ## restricted (poor-network) mode -/

/-- the message type is on the poor-network allowed list -/
def Allowed (c : Cfg) (m : Msg) : Prop := m.msgType ∈ c.poorMsgs

theorem ante_filters (c : Cfg) (tx : Tx) (s s' : State) (h : ante c tx s = .ok s') :
    poorNetwork c tx.msgs = .ok () ∧ bwLoop c tx.msgs = .ok () := by
  unfold ante at h
  split at h
  · cases h
  · dsimp only at h
    split at h
    · cases h
    · split at h
      · cases h
      · rename_i hp
        split at h
        · cases h
        · rename_i hb
          exact ⟨hp, hb⟩

/-- **While the network is not active, a transaction is accepted only if every one of its messages is on
the allowed list or is a native-token bank send within the configured limit** — every message, any list
length (induction over the message list in `poorLoop_ok_iff`). -/
theorem poor_network (c : Cfg) (tx : Tx) (s s' : State) (hna : networkActive c = false) (h : ante c tx s = .ok s') :
    ∀ m ∈ tx.msgs, Allowed c m ∨ SmallNativeSend c m := by
  have hp := (ante_filters c tx s s' h).1
  unfold poorNetwork at hp
  simp only [hna, Bool.false_eq_true, if_false] at hp
  intro m hm
  have := (poorLoop_ok_iff c tx.msgs).mp hp m hm
  unfold PoorOk at this
  split at this
  · exact Or.inr this
  · exact Or.inl this

/-- the filter's decision, exactly: a bank send must be a small native send (even if `send` is on the list),
any other message must be on the list -/
theorem poor_network_iff (c : Cfg) (msgs : List Msg) (hna : networkActive c = false) :
    poorNetwork c msgs = .ok () ↔ ∀ m ∈ msgs, PoorOk c m := by
  unfold poorNetwork
  simp only [hna, Bool.false_eq_true, if_false]
  exact poorLoop_ok_iff c msgs

/-- `IsNetworkActive` means "at least the configured minimum of validators" as long as the minimum fits `int` -/
theorem networkActive_spec (c : Cfg) (h : c.minValidators < two63) :
    networkActive c = true ↔ c.minValidators ≤ c.nVal := by
  unfold networkActive
  rw [toI64_of_lt h]
  simp only [decide_eq_true_eq]
  omega

example : ({ minValidators := 3, nVal := 2 } : Cfg).minValidators < two63 ∧ networkActive { minValidators := 3, nVal := 2 } = false ∧
    networkActive { minValidators := 3, nVal := 3 } = true := by decide

/-- **Wrap-around corner**: `MinValidators ≥ 2^63` (accepted by `ValidateNetworkProperties`) is read as a
negative `int`, so a network with fewer validators than the minimum counts as active and the filter is off.
Replayed on the real code by `harness/c14.go` (finding `C14/is-network-active/int-cast-wraparound`). -/
theorem networkActive_wraparound_counterexample :
    ∃ c : Cfg, c.nVal < c.minValidators ∧ networkActive c = true :=
  ⟨{ minValidators := two63, nVal := 1 }, by decide, by decide⟩

def cfgPoor : Cfg := { minValidators := 3, nVal := 2, poorMsgs := ["submit_proposal", "vote_proposal"], poorMaxSend := 1000,
                       tokens := [⟨"ukex", Dec.one, true⟩], black := ["frozen"] }
def sRich : State := { bal := fun a d => if a = .user 1 ∧ d = "ukex" then 100000 else 0 }
def accepted (c : Cfg) (tx : Tx) (s : State) : Bool := match ante c tx s with | .ok _ => true | .error _ => false
/-- non-vacuity: restricted mode, an accepted transaction with an allowed message and a small native send;
a big send in SECOND position is rejected (the pre-fix code accepted it) -/
example : networkActive cfgPoor = false ∧
    accepted cfgPoor ⟨[⟨"vote_proposal", .other, 1⟩, ⟨"send", .send [("ukex", 1000)] 2, 1⟩], [("ukex", 100)], 1⟩ sRich = true ∧
    accepted cfgPoor ⟨[⟨"send", .send [("ukex", 5)] 2, 1⟩, ⟨"send", .send [("ukex", 1001)] 2, 1⟩], [("ukex", 100)], 1⟩ sRich = false ∧
    accepted cfgPoor ⟨[⟨"send", .send [("ukex", 5)] 2, 1⟩, ⟨"multisend", .multisend [("ukex", 5)] 2, 1⟩], [("ukex", 100)], 1⟩ sRich = false := by
  decide

/-! ## frozen tokens do not move — full statement, counterexample, proved part -/

/-- FULL statement of the property: no accepted transaction contains a message that moves a frozen
denomination to another account. -/
def frozen_not_transferred_full : Prop :=
  ∀ (c : Cfg) (tx : Tx) (s s' : State), ante c tx s = .ok s' →
    ∀ m ∈ tx.msgs, ∀ x ∈ movedCoins m, frozen c x.1 = false

/-- default genesis: blacklist on, `frozen` blacklisted -/
def cfgDef : Cfg := { tokens := [⟨"ukex", Dec.one, true⟩, ⟨"frozen", Dec.one / 10, true⟩], black := ["frozen"], white := ["ukex"] }
def txMulti : Tx := ⟨[⟨"multisend", .multisend [("frozen", 1000)] 2, 1⟩], [("ukex", 100)], 1⟩

/-- **The full statement is FALSE on the current tree**: `BlackWhiteTokensCheckDecorator` inspects only bank
`MsgSend`; a `MsgMultiSend` (or custody `MsgSend`, …) moving the blacklisted token is accepted. Witness
replayed on the real code by `harness/c14.go` (findings `C14/multisend/frozen-token-moves`,
`C14/custody-send/frozen-token-moves`). -/
theorem frozen_not_transferred_counterexample : ¬ frozen_not_transferred_full := by
  intro hfull
  have hacc : accepted cfgDef txMulti sRich = true := by decide
  unfold accepted at hacc
  split at hacc
  · rename_i s' hs'
    have := hfull cfgDef txMulti sRich s' hs' _ (List.mem_cons_self ..) ("frozen", 1000) (by simp [movedCoins])
    revert this; decide
  · cases hacc

/-- **_partial (proved part): bank `MsgSend`.** Excluded inputs, as an explicit decidable hypothesis: messages
whose type is not `"send"` (everything `BlackWhiteTokensCheckDecorator` does not inspect). For every accepted
transaction, every bank send in ANY position moves no frozen denomination. -/
theorem frozen_not_transferred_partial (c : Cfg) (tx : Tx) (s s' : State) (h : ante c tx s = .ok s') :
    ∀ m ∈ tx.msgs, m.msgType = "send" → ∀ x ∈ movedCoins m, frozen c x.1 = false := by
  intro m hm hty x hx
  obtain ⟨cs, to, hk, hall⟩ := bwLoop_ok c tx.msgs (ante_filters c tx s s' h).2 m hm hty
  simp only [movedCoins, hk] at hx
  exact hall x hx

/-- non-vacuity of `_partial`: a bank send of a free token is accepted, of the frozen one rejected -/
example : accepted cfgDef ⟨[⟨"send", .send [("ukex", 7)] 2, 1⟩], [("ukex", 100)], 1⟩ sRich = true ∧
    accepted cfgDef ⟨[⟨"send", .send [("ukex", 7)] 2, 1⟩, ⟨"send", .send [("frozen", 7)] 2, 1⟩], [("ukex", 100)], 1⟩ sRich = false := by
  decide

/-! ### Edits of the freeze lists (enacted `ProposalTokensWhiteBlackChange`; x/tokens/keeper/utils.go, freeze.go)

`addTokens` / `removeTokens` follow the Go loops (append when absent; overwrite the first occurrence with the last
element and cut the last slot). On duplicate-free lists - the lists of the default genesis are, and both edits keep
them so (`lists_nodup_preserved`) - an edit changes membership exactly as requested, whatever the argument list looks
like (repeated tokens, tokens that are not on the list, any order). -/


theorem mem_addTokens (o a : List String) (x : String) : x ∈ addTokens o a ↔ x ∈ o ∨ x ∈ a := by
  unfold addTokens
  induction a generalizing o with
  | nil => simp
  | cons h t ih =>
    simp only [List.foldl_cons]
    rw [ih]
    by_cases hc : o.contains h = true
    · simp only [hc, if_true, List.mem_cons]
      have : h ∈ o := by simpa using hc
      constructor
      · rintro (h1 | h1); exact Or.inl h1; exact Or.inr (Or.inr h1)
      · rintro (h1 | h1 | h1); exact Or.inl h1; exact Or.inl (h1 ▸ this); exact Or.inr h1
    · simp only [hc, Bool.false_eq_true, if_false, List.mem_append, List.mem_cons, List.not_mem_nil, or_false]
      constructor
      · rintro ((h1 | h1) | h1); exact Or.inl h1; exact Or.inr (Or.inl h1); exact Or.inr (Or.inr h1)
      · rintro (h1 | h1 | h1); exact Or.inl (Or.inl h1); exact Or.inl (Or.inr h1); exact Or.inr h1

theorem nodup_addTokens (o a : List String) (h : o.Nodup) : (addTokens o a).Nodup := by
  unfold addTokens
  induction a generalizing o with
  | nil => simpa
  | cons x t ih =>
    simp only [List.foldl_cons]
    apply ih
    by_cases hc : o.contains x = true
    · simp only [hc, if_true]; exact h
    · simp only [hc, Bool.false_eq_true, if_false]
      have hx : x ∉ o := by simpa using hc
      rw [List.nodup_append]
      refine ⟨h, by simp, ?_⟩
      intro a ha b hb
      simp at hb
      subst hb
      intro e; subst e; exact hx ha

theorem mem_last_dropLast (xs : List String) (l x : String) (h : xs.getLast? = some l) :
    x ∈ l :: xs.dropLast ↔ x ∈ xs := by
  have hne : xs ≠ [] := by intro e; subst e; simp at h
  have hl : xs.getLast hne = l := by
    have := List.getLast?_eq_some_getLast hne
    rw [h] at this; exact (Option.some.inj this).symm
  have := List.dropLast_concat_getLast hne
  rw [hl] at this
  conv => rhs; rw [← this]
  simp only [List.mem_cons, List.mem_append, List.not_mem_nil, or_false]
  constructor
  · rintro (h1 | h1); exact Or.inr h1; exact Or.inl h1
  · rintro (h1 | h1); exact Or.inr h1; exact Or.inl h1

theorem mem_swapRemove (o : List String) (t x : String) (h : o.Nodup) :
    x ∈ swapRemove o t ↔ x ∈ o ∧ x ≠ t := by
  induction o with
  | nil => simp [swapRemove]
  | cons y ys ih =>
    have hy : y ∉ ys := (List.nodup_cons.mp h).1
    have hys : ys.Nodup := (List.nodup_cons.mp h).2
    unfold swapRemove
    by_cases e : y = t
    · subst e
      simp only [if_true]
      cases hl : ys.getLast? with
      | none =>
        have : ys = [] := by simpa using hl
        subst this
        simp
      | some l =>
        simp only
        rw [mem_last_dropLast ys l x hl]
        constructor
        · intro hx; exact ⟨List.mem_cons_of_mem _ hx, fun e => hy (e ▸ hx)⟩
        · rintro ⟨hx, hne⟩
          rcases List.mem_cons.mp hx with h1 | h1
          · exact absurd h1 hne
          · exact h1
    · simp only [e, if_false, List.mem_cons, ih hys]
      constructor
      · rintro (h1 | ⟨h1, h2⟩)
        · exact ⟨Or.inl h1, h1 ▸ e⟩
        · exact ⟨Or.inr h1, h2⟩
      · rintro ⟨h1 | h1, h2⟩
        · exact Or.inl h1
        · exact Or.inr ⟨h1, h2⟩

theorem nodup_swapRemove (o : List String) (t : String) (h : o.Nodup) : (swapRemove o t).Nodup := by
  induction o with
  | nil => simp [swapRemove]
  | cons y ys ih =>
    have hy : y ∉ ys := (List.nodup_cons.mp h).1
    have hys : ys.Nodup := (List.nodup_cons.mp h).2
    unfold swapRemove
    by_cases e : y = t
    · simp only [e, if_true]
      cases hl : ys.getLast? with
      | none => simp
      | some l =>
        simp only
        have hne : ys ≠ [] := by intro e; subst e; simp at hl
        have hl' : ys.getLast hne = l := by
          have := List.getLast?_eq_some_getLast hne
          rw [hl] at this; exact (Option.some.inj this).symm
        have hcat := List.dropLast_concat_getLast hne
        rw [hl'] at hcat
        rw [← hcat, List.nodup_append] at hys
        refine List.nodup_cons.mpr ⟨?_, hys.1⟩
        intro hm
        exact hys.2.2 l hm l (by simp) rfl
    · simp only [e, if_false]
      refine List.nodup_cons.mpr ⟨?_, ih hys⟩
      intro hm
      exact hy ((mem_swapRemove ys t y hys).mp hm).1

theorem nodup_removeTokens (o r : List String) (h : o.Nodup) : (removeTokens o r).Nodup := by
  unfold removeTokens
  induction r generalizing o with
  | nil => simpa
  | cons t ts ih => simp only [List.foldl_cons]; exact ih _ (nodup_swapRemove o t h)

theorem mem_removeTokens (o r : List String) (x : String) (h : o.Nodup) :
    x ∈ removeTokens o r ↔ x ∈ o ∧ x ∉ r := by
  unfold removeTokens
  induction r generalizing o with
  | nil => simp
  | cons t ts ih =>
    simp only [List.foldl_cons]
    rw [ih _ (nodup_swapRemove o t h), mem_swapRemove o t x h]
    simp only [List.mem_cons, not_or]
    constructor
    · rintro ⟨⟨h1, h2⟩, h3⟩; exact ⟨h1, h2, h3⟩
    · rintro ⟨h1, h2, h3⟩; exact ⟨⟨h1, h2⟩, h3⟩

/-- both freeze lists are duplicate-free -/
def ListsNodup (c : Cfg) : Prop := c.black.Nodup ∧ c.white.Nodup

theorem lists_nodup_preserved (c : Cfg) (isBlack isAdd : Bool) (toks : List String) (h : ListsNodup c) :
    ListsNodup (editLists c isBlack isAdd toks) := by
  obtain ⟨hb, hw⟩ := h
  cases isBlack <;> cases isAdd <;> simp only [editLists, ListsNodup]
  · exact ⟨hb, nodup_removeTokens _ _ hw⟩
  · exact ⟨hb, nodup_addTokens _ _ hw⟩
  · exact ⟨nodup_removeTokens _ _ hb, hw⟩
  · exact ⟨nodup_addTokens _ _ hb, hw⟩

/-- **a list edit changes membership exactly as requested**: after an edit a token is on the edited list iff it was
there or was added, resp. iff it was there and was not removed; the other list is untouched. -/
theorem list_edit_exact (c : Cfg) (isBlack isAdd : Bool) (toks : List String) (x : String) (h : ListsNodup c) :
    let c' := editLists c isBlack isAdd toks
    (x ∈ c'.black ↔ if isBlack then (if isAdd then x ∈ c.black ∨ x ∈ toks else x ∈ c.black ∧ x ∉ toks) else x ∈ c.black) ∧
    (x ∈ c'.white ↔ if isBlack then x ∈ c.white else (if isAdd then x ∈ c.white ∨ x ∈ toks else x ∈ c.white ∧ x ∉ toks)) := by
  obtain ⟨hb, hw⟩ := h
  cases isBlack <;> cases isAdd <;> simp only [editLists, Bool.false_eq_true, if_false, if_true, iff_self, true_and, and_true]
  · exact mem_removeTokens _ _ _ hw
  · exact mem_addTokens _ _ _
  · exact mem_removeTokens _ _ _ hb
  · exact mem_addTokens _ _ _

/-- a blacklisted token that a removal does not name stays frozen, whatever else the removal lists (repeats included) -/
theorem unrelated_removal_keeps_frozen (c : Cfg) (toks : List String) (d : String) (h : ListsNodup c)
    (hon : c.blacklistOn = true) (hd : d ∈ c.black) (hn : d ≠ c.native) (hnot : d ∉ toks) :
    frozen (editLists c true false toks) d = true := by
  have hm : d ∈ (editLists c true false toks).black := ((list_edit_exact c true false toks d h).1).mpr ⟨hd, hnot⟩
  unfold frozen
  rw [isFrozen_spec]
  exact ⟨by simpa [editLists] using hn, Or.inl ⟨by simpa [editLists] using hon, hm⟩⟩

example : removeTokens ["frozen", "a", "b", "c"] ["a", "a"] = ["frozen", "c", "b"] := by decide
example : ListsNodup { black := ["frozen", "a", "b", "c"] } := by simp [ListsNodup]
/-- the hypothesis is needed: on a list that holds a token twice (reachable only through a genesis file that lists it
twice) one removal leaves the token on the list -/
theorem remove_with_duplicates_counterexample : removeTokens ["a", "a"] ["a"] = ["a"] := by decide

/-! ### Application wiring (table `Gen.App`) -/

/-- the filters read the freeze lists, the switches and the allowed-message list from the store at the moment a
transaction is checked: nothing outside the store (a cache filled by an earlier, possibly discarded write) can answer
for them. `Gen.Ambient.processState`: see `C01.no_state_outside_the_store`. -/
theorem filters_read_the_store_only : Sekai.Gen.Ambient.processState =
    [("x/upgrade/keeper/keeper.go", "Keeper", "upgradeHandlers", "map[string]types.UpgradeHandler")] := by decide +kernel


/-- both filters of this property are in the ante chain exactly once, after the fee-range check (which rejects frozen
fee tokens) and before signature verification (so they see every transaction that can be delivered) -/
theorem ante_filter_wiring :
    Sekai.App.inOrder Sekai.Gen.App.anteChain
      ["NewValidateFeeRangeDecorator", "NewPoorNetworkManagementDecorator", "NewBlackWhiteTokensCheckDecorator",
       "NewSigVerificationDecorator"] = true := by decide +kernel

end Sekai.Props.C14
