import Sekai.Base.Bank
import Sekai.Gen.BankFlows
import SekaiProofs.Lemmas.Bank
import SekaiProofs.Props.C10
import SekaiProofs.Props.C11
import SekaiProofs.Props.C16
import SekaiProofs.Props.C18
import SekaiProofs.Props.C20
import Sekai.Gen.App
import Sekai.Model.App
/-! # C04 — Supply is conserved and every module can pay what it owes

* bank level: `conservation` — for every sequence of send / mint / burn over any set of accounts, the supply of each
  denomination equals the sum of all balances; `only_mint_burn_change_supply`.
* `coin_flows_as_reviewed`: every call of a coin-moving bank / tokens keeper function in the current source
  (regenerated table): the modules touch balances only through these primitives, and a new call site re-opens this.
* module solvency, proved in the module slices over ALL operation sequences of their models and restated here:
  multistaking (stake + pending undelegations), basket (reserves + surplus, supply = recorded amount), spending pools,
  layer-2 dApp bonds, gov escrow of identity tips. Where the code violates solvency the slices carry the closed
  counterexamples (recorded findings C10/C11/C18/C20 keys).
* dynamic tie: after every block of mixed real-block histories, Σ balances = supply per denomination and every module
  account ≥ its liabilities recomputed from the module's own records. -/
namespace Sekai.Props.C04
open Sekai.Bank

/-- **the supply of each denomination equals the sum of all balances after every sequence of bank operations** -/
theorem conservation (n : Nat) (b : B) (hc : Conserved n b) (ops : List Op) (hw : ∀ op ∈ ops, op.within n) :
    Conserved n (ops.foldl apply b) := by
  induction ops generalizing b with
  | nil => simpa using hc
  | cons op rest ih =>
    simp only [List.foldl_cons]
    exact ih (apply b op) (apply_conserved n b op hc (hw op (List.mem_cons_self ..)))
      (fun o ho => hw o (List.mem_cons_of_mem _ ho))

/-- **coins appear and disappear only through mint and burn** -/
theorem only_mint_burn_change_supply (b b' : B) (op : Op) (hs : step b op = some b') (d : Nat) (hd : b'.supply d ≠ b.supply d) :
    (∃ t amt, op = .mint t d amt) ∨ (∃ s amt, op = .burn s d amt) := by
  cases op with
  | send s t d0 amt => rw [send_keeps_supply b b' s t d0 amt hs] at hd; exact absurd rfl hd
  | mint t d0 amt =>
    left
    simp only [step] at hs
    split at hs
    · cases hs
    · cases hs
      by_cases e : d = d0
      · subst e; exact ⟨t, amt, rfl⟩
      · simp [e] at hd
  | burn s d0 amt =>
    right
    simp only [step] at hs
    split at hs
    · cases hs
    · cases hs
      by_cases e : d = d0
      · subst e; exact ⟨s, amt, rfl⟩
      · simp [e] at hd

/-- a failed bank operation leaves balances and supply unchanged (message-cache semantics) -/
theorem failed_ops_roll_back (b : B) (op : Op) (h : step b op = none) : apply b op = b := by simp [apply, h]

example : Conserved 3 ([Op.mint 2 0 100, .send 2 0 0 40, .burn 2 0 10, .send 0 1 0 50].foldl apply {}) := by
  apply conservation 3 {} (fun _ => by simp [total, totalF])
  intro op hop
  simp at hop
  rcases hop with rfl | rfl | rfl | rfl <;> simp [Op.within]

/-! ## module solvency (proved in the module slices, for all operation sequences of their models) -/

/-- multistaking: module balance ≥ Σ pool stake + Σ pending undelegations, through delegations, undelegations, slashes and claims -/
theorem multistaking_solvent (s0 : Sekai.MultiStake.St) (h0 : Sekai.MultiStake.Inv s0) (ops : List Sekai.MultiStake.Op) (d : Sekai.MultiStake.Denom) :
    Sekai.MultiStake.stakeSum (Sekai.MultiStake.run s0 ops).pools d + Sekai.MultiStake.undelSum (Sekai.MultiStake.run s0 ops).undels d
      ≤ (Sekai.MultiStake.run s0 ops).bal .ms d :=
  Sekai.Props.C10.module_solvent s0 h0 ops d

/-- basket: the module holds the recorded reserves and surplus; token supply = recorded amount -/
theorem basket_solvent (ops : List Sekai.Basket.Op) (s : Sekai.Basket.St) (hok : ∀ op ∈ ops, Sekai.Props.C11.OpOk op) (hinv : Sekai.Props.C11.Inv s) :
    Sekai.Props.C11.ModuleHolds (Sekai.Basket.run s ops) ∧ Sekai.Props.C11.SupplyEq (Sekai.Basket.run s ops) :=
  ⟨Sekai.Props.C11.module_holds_reserves_and_surplus ops s hok hinv, Sekai.Props.C11.supply_eq_amount ops s hok hinv⟩

/-- gov escrow = Σ tips of pending identity-verification requests, over every history -/
theorem gov_tip_escrow {S0 : Sekai.Ident.State} (g : Sekai.Props.C16.Genesis S0) (ops : List Sekai.Ident.Op) :
    Sekai.Ident.EscInv (Sekai.Ident.run S0 ops) :=
  Sekai.Props.C16.tip_escrow g ops

/-! ## every coin-moving call site of the current source -/

def expectedFlows : List (String × String × String × String) := [
  ("app/test_helpers.go", "saveAccount", "app.BankKeeper.MintCoins", "minttypes.ModuleName | initCoins"),
  ("app/test_helpers.go", "saveAccount", "app.BankKeeper.SendCoinsFromModuleToAccount", "minttypes.ModuleName | addr | initCoins"),
  ("x/basket/keeper/mint_burn_swap.go", "Keeper.BasketSwap", "k.bk.SendCoinsFromAccountToModule", "sender | types.ModuleName | inCoins"),
  ("x/basket/keeper/mint_burn_swap.go", "Keeper.BasketSwap", "k.bk.SendCoinsFromModuleToAccount", "types.ModuleName | sender | finalOutCoins"),
  ("x/basket/keeper/mint_burn_swap.go", "Keeper.BasketWithdrawSurplus", "k.bk.SendCoinsFromModuleToAccount", "types.ModuleName | withdrawTarget | sdk.Coins(basket.Surplus)"),
  ("x/basket/keeper/mint_burn_swap.go", "Keeper.BasketWithdrawSurplus", "k.bk.SendCoinsFromModuleToAccount", "types.ModuleName | withdrawTarget | rewards"),
  ("x/basket/keeper/mint_burn_swap.go", "Keeper.BurnBasketToken", "k.bk.SendCoinsFromAccountToModule", "sender | types.ModuleName | burnCoins"),
  ("x/basket/keeper/mint_burn_swap.go", "Keeper.BurnBasketToken", "k.tk.BurnCoins", "types.ModuleName | burnCoins"),
  ("x/basket/keeper/mint_burn_swap.go", "Keeper.BurnBasketToken", "k.bk.SendCoinsFromModuleToAccount", "types.ModuleName | sender | withdrawCoins"),
  ("x/basket/keeper/mint_burn_swap.go", "Keeper.MintBasketToken", "k.bk.SendCoinsFromAccountToModule", "sender | types.ModuleName | msg.Deposit"),
  ("x/basket/keeper/mint_burn_swap.go", "Keeper.MintBasketToken", "k.tk.MintCoins", "types.ModuleName | basketCoins"),
  ("x/basket/keeper/mint_burn_swap.go", "Keeper.MintBasketToken", "k.bk.SendCoinsFromModuleToAccount", "types.ModuleName | sender | basketCoins"),
  ("x/collectives/keeper/abci.go", "Keeper.DistributeCollectiveRewards", "k.bk.SendCoinsFromAccountToModule", "delegator | types.ModuleName | coins"),
  ("x/collectives/keeper/collective.go", "Keeper.SendDonation", "k.bk.SendCoinsFromModuleToAccount", "types.ModuleName | account | coins"),
  ("x/collectives/keeper/collective.go", "Keeper.WithdrawCollective", "k.bk.SendCoins", "collectiveAddr | addr | collectiveBonds"),
  ("x/collectives/keeper/collective.go", "Keeper.WithdrawCollective", "k.bk.SendCoins", "collectiveDonationAddr | addr | donationBonds"),
  ("x/collectives/keeper/msg_server.go", "msgServer.ContributeCollective", "k.keeper.bk.SendCoins", "sender | collectiveAddr | msg.Bonds"),
  ("x/collectives/keeper/msg_server.go", "msgServer.ContributeCollective", "k.keeper.bk.SendCoins", "collectiveAddr | collectiveDonationAddr | donationCoins"),
  ("x/collectives/keeper/msg_server.go", "msgServer.CreateCollective", "k.keeper.bk.SendCoins", "sender | collectiveAddr | msg.Bonds"),
  ("x/collectives/keeper/msg_server.go", "msgServer.DonateCollective", "k.keeper.bk.SendCoins", "collectiveDonationAddr | collectiveAddr | movingBonds"),
  ("x/collectives/keeper/msg_server.go", "msgServer.DonateCollective", "k.keeper.bk.SendCoins", "collectiveAddr | collectiveDonationAddr | movingBonds"),
  ("x/custody/keeper/msg_server.go", "msgServer.ApproveTransaction", "s.bk.SendCoins", "from | to | tx.Amount"),
  ("x/custody/keeper/msg_server.go", "msgServer.PasswordConfirm", "s.bk.SendCoins", "from | to | tx.Amount"),
  ("x/custody/keeper/msg_server.go", "msgServer.Send", "s.bk.SendCoins", "from | to | msg.Amount"),
  ("x/custody/keeper/msg_server.go", "msgServer.sendReward", "s.bk.SendCoins", "FromAddress | ToAddress | Amount"),
  ("x/distributor/keeper/distributor.go", "Keeper.AllocateTokens", "k.tk.MintCoins", "minttypes.ModuleName | sdk.Coins{inflationCoin}"),
  ("x/distributor/keeper/distributor.go", "Keeper.AllocateTokens", "k.bk.SendCoinsFromModuleToModule", "minttypes.ModuleName | authtypes.FeeCollectorName | sdk.Coins{inflationCoin}"),
  ("x/distributor/keeper/distributor.go", "Keeper.AllocateTokensToValidator", "k.bk.SendCoinsFromModuleToModule", "authtypes.FeeCollectorName | recoverytypes.ModuleName | tokens"),
  ("x/distributor/keeper/distributor.go", "Keeper.AllocateTokensToValidator", "k.bk.SendCoinsFromModuleToAccount", "authtypes.FeeCollectorName | acc | tokens"),
  ("x/ethereum/keeper/msg_server.go", "msgServer.Relay", "m.bk.SendCoins", "from | to | msg.Amount"),
  ("x/feeprocessing/keeper/keeper.go", "Keeper.ProcessExecutionFeeReturn", "k.SendCoinsFromModuleToAccount", "authtypes.FeeCollectorName | exec.FeePayer | fees"),
  ("x/feeprocessing/keeper/keeper.go", "Keeper.SendCoinsFromAccountToModule", "k.bk.SendCoinsFromAccountToModule", "senderAddr | recipientModule | amt"),
  ("x/feeprocessing/keeper/keeper.go", "Keeper.SendCoinsFromModuleToAccount", "k.bk.SendCoinsFromModuleToAccount", "senderModule | recipientAddr | paybackCoins"),
  ("x/gov/keeper/identity_registrar.go", "Keeper.CancelIdentityRecordsVerifyRequest", "k.bk.SendCoinsFromModuleToAccount", "types.ModuleName | requester | sdk.Coins{request.Tip}"),
  ("x/gov/keeper/identity_registrar.go", "Keeper.HandleIdentityRecordsVerifyRequest", "k.bk.SendCoinsFromModuleToAccount", "types.ModuleName | verifier | sdk.Coins{request.Tip}"),
  ("x/gov/keeper/identity_registrar.go", "Keeper.RequestIdentityRecordsVerify", "k.bk.SendCoinsFromAccountToModule", "address | types.ModuleName | sdk.Coins{tip}"),
  ("x/layer2/keeper/abci.go", "Keeper.EndBlocker", "k.bk.SendCoinsFromModuleToAccount", "types.ModuleName | teamReserve | sdk.Coins{premintCoin}"),
  ("x/layer2/keeper/abci.go", "Keeper.FinishDappBootstrap", "k.tk.MintCoins", "types.ModuleName | sdk.Coins{sdk.NewCoin(dappBondLpToken, totalSupply)}"),
  ("x/layer2/keeper/abci.go", "Keeper.FinishDappBootstrap", "k.bk.SendCoinsFromModuleToAccount", "types.ModuleName | teamReserve | sdk.Coins{premintCoin}"),
  ("x/layer2/keeper/dapp.go", "Keeper.ExecuteDappRemove", "k.bk.SendCoinsFromModuleToAccount", "types.ModuleName | addr | sdk.Coins{userBond.Bond}"),
  ("x/layer2/keeper/dapp_session.go", "Keeper.ResetNewSession", "k.bk.SendCoinsFromModuleToAccount", "types.ModuleName | addr | lpCoins"),
  ("x/layer2/keeper/lp_swap_redeem_convert.go", "Keeper.OnCollectFee", "k.tk.BurnCoins", "types.ModuleName | fee"),
  ("x/layer2/keeper/lp_swap_redeem_convert.go", "Keeper.RedeemDappPoolTx", "k.bk.SendCoinsFromAccountToModule", "addr | types.ModuleName | sdk.Coins{lpTokenAmount}"),
  ("x/layer2/keeper/lp_swap_redeem_convert.go", "Keeper.RedeemDappPoolTx", "k.bk.SendCoinsFromModuleToAccount", "types.ModuleName | addr | sdk.Coins{userReceiveCoin}"),
  ("x/layer2/keeper/lp_swap_redeem_convert.go", "Keeper.SwapDappPoolTx", "k.bk.SendCoinsFromAccountToModule", "addr | types.ModuleName | sdk.Coins{swapBond}"),
  ("x/layer2/keeper/lp_swap_redeem_convert.go", "Keeper.SwapDappPoolTx", "k.bk.SendCoinsFromModuleToAccount", "types.ModuleName | addr | sdk.Coins{userReceiveCoin}"),
  ("x/layer2/keeper/msg_server.go", "msgServer.BondDappProposal", "k.keeper.bk.SendCoinsFromAccountToModule", "addr | types.ModuleName | sdk.Coins{msg.Bond}"),
  ("x/layer2/keeper/msg_server.go", "msgServer.CreateDappProposal", "k.keeper.bk.SendCoinsFromAccountToModule", "addr | types.ModuleName | sdk.Coins{msg.Bond}"),
  ("x/layer2/keeper/msg_server.go", "msgServer.JoinDappVerifierWithBond", "k.keeper.bk.SendCoinsFromAccountToModule", "addr | types.ModuleName | verifierBondCoins"),
  ("x/layer2/keeper/msg_server.go", "msgServer.MintBurnTx", "k.keeper.bk.SendCoinsFromAccountToModule", "sender | types.ModuleName | sdk.Coins{burnCoin}"),
  ("x/layer2/keeper/msg_server.go", "msgServer.MintBurnTx", "k.keeper.tk.BurnCoins", "types.ModuleName | sdk.Coins{burnCoin}"),
  ("x/layer2/keeper/msg_server.go", "msgServer.MintCreateFtTx", "k.keeper.bk.SendCoinsFromAccountToModule", "sender | types.ModuleName | sdk.Coins{fee}"),
  ("x/layer2/keeper/msg_server.go", "msgServer.MintCreateFtTx", "k.keeper.tk.BurnCoins", "types.ModuleName | sdk.Coins{fee}"),
  ("x/layer2/keeper/msg_server.go", "msgServer.MintCreateNftTx", "k.keeper.bk.SendCoinsFromAccountToModule", "sender | types.ModuleName | sdk.Coins{fee}"),
  ("x/layer2/keeper/msg_server.go", "msgServer.MintCreateNftTx", "k.keeper.tk.BurnCoins", "types.ModuleName | sdk.Coins{fee}"),
  ("x/layer2/keeper/msg_server.go", "msgServer.MintIssueTx", "k.keeper.bk.SendCoinsFromAccountToModule", "sender | types.ModuleName | feeCoins"),
  ("x/layer2/keeper/msg_server.go", "msgServer.MintIssueTx", "k.keeper.bk.SendCoins", "sender | owner | feeCoins"),
  ("x/layer2/keeper/msg_server.go", "msgServer.MintIssueTx", "k.keeper.tk.MintCoins", "types.ModuleName | sdk.Coins{mintCoin}"),
  ("x/layer2/keeper/msg_server.go", "msgServer.MintIssueTx", "k.keeper.bk.SendCoinsFromModuleToAccount", "types.ModuleName | sender | sdk.Coins{mintCoin}"),
  ("x/layer2/keeper/msg_server.go", "msgServer.ReclaimDappBondProposal", "k.keeper.bk.SendCoinsFromModuleToAccount", "types.ModuleName | addr | sdk.Coins{msg.Bond}"),
  ("x/layer2/keeper/msg_server.go", "msgServer.TransferDappTx", "k.keeper.bk.SendCoinsFromAccountToModule", "sender | types.ModuleName | coins"),
  ("x/layer2/keeper/msg_server.go", "msgServer.TransferDappTx", "k.keeper.bk.SendCoinsFromModuleToAccount", "types.ModuleName | sender | coins"),
  ("x/multistaking/keeper/delegation.go", "Keeper.ClaimRewards", "k.bankKeeper.SendCoinsFromModuleToAccount", "authtypes.FeeCollectorName | delegator | rewards"),
  ("x/multistaking/keeper/delegation.go", "Keeper.ClaimRewardsFromModule", "k.bankKeeper.SendCoinsFromModuleToModule", "authtypes.FeeCollectorName | moduleName | rewards"),
  ("x/multistaking/keeper/delegation.go", "Keeper.Delegate", "k.bankKeeper.SendCoinsFromAccountToModule", "delegator | types.ModuleName | msg.Amounts"),
  ("x/multistaking/keeper/delegation.go", "Keeper.Delegate", "k.tokenKeeper.MintCoins", "minttypes.ModuleName | poolCoins"),
  ("x/multistaking/keeper/delegation.go", "Keeper.Delegate", "k.bankKeeper.SendCoinsFromModuleToAccount", "minttypes.ModuleName | delegator | poolCoins"),
  ("x/multistaking/keeper/delegation.go", "Keeper.IncreasePoolRewards", "k.bankKeeper.SendCoinsFromModuleToAccount", "authtypes.FeeCollectorName | delegator | autoCompoundRewards"),
  ("x/multistaking/keeper/delegation.go", "Keeper.Undelegate", "k.bankKeeper.SendCoinsFromAccountToModule", "delegator | types.ModuleName | poolCoins"),
  ("x/multistaking/keeper/delegation.go", "Keeper.Undelegate", "k.bankKeeper.BurnCoins", "types.ModuleName | poolCoins"),
  ("x/multistaking/keeper/msg_server.go", "msgServer.ClaimMaturedUndelegations", "k.bankKeeper.SendCoinsFromModuleToAccount", "types.ModuleName | delegator | undelegation.Amount"),
  ("x/multistaking/keeper/msg_server.go", "msgServer.ClaimUndelegation", "k.bankKeeper.SendCoinsFromModuleToAccount", "types.ModuleName | delegator | undelegation.Amount"),
  ("x/multistaking/keeper/slash.go", "Keeper.SlashStakingPool", "k.bankKeeper.BurnCoins", "types.ModuleName | burnAmount"),
  ("x/multistaking/keeper/slash.go", "Keeper.SlashStakingPool", "k.bankKeeper.SendCoinsFromModuleToModule", "types.ModuleName | authtypes.FeeCollectorName | treasurySendAmount"),
  ("x/recovery/keeper/msg_server.go", "msgServer.BurnRecoveryTokens", "k.bk.SendCoinsFromModuleToAccount", "types.ModuleName | addr | redeemAmount"),
  ("x/recovery/keeper/msg_server.go", "msgServer.BurnRecoveryTokens", "k.bk.SendCoinsFromAccountToModule", "addr | types.ModuleName | sdk.NewCoins(msg.RrCoin)"),
  ("x/recovery/keeper/msg_server.go", "msgServer.BurnRecoveryTokens", "k.tk.BurnCoins", "types.ModuleName | sdk.NewCoins(msg.RrCoin)"),
  ("x/recovery/keeper/msg_server.go", "msgServer.IssueRecoveryTokens", "k.bk.SendCoinsFromAccountToModule", "addr | types.ModuleName | coins"),
  ("x/recovery/keeper/msg_server.go", "msgServer.IssueRecoveryTokens", "k.tk.MintCoins", "types.ModuleName | recoveryCoins"),
  ("x/recovery/keeper/msg_server.go", "msgServer.IssueRecoveryTokens", "k.bk.SendCoinsFromModuleToAccount", "types.ModuleName | addr | recoveryCoins"),
  ("x/recovery/keeper/msg_server.go", "msgServer.RotateRecoveryAddress", "k.bk.SendCoinsFromAccountToModule", "feePayer | types.ModuleName | RecoveryFee"),
  ("x/recovery/keeper/msg_server.go", "msgServer.RotateRecoveryAddress", "k.bk.SendCoins", "addr | rotatedAddr | balances"),
  ("x/recovery/keeper/rewards.go", "Keeper.ClaimRewards", "k.bk.SendCoinsFromModuleToAccount", "types.ModuleName | delegator | rewards"),
  ("x/spending/keeper/msg_server.go", "msgServer.DepositSpendingPool", "k.bk.SendCoinsFromAccountToModule", "sender | types.ModuleName | msg.Amount"),
  ("x/spending/keeper/spending_pool.go", "Keeper.ClaimSpendingPool", "k.bk.SendCoinsFromModuleToAccount", "types.ModuleName | sender | rewards"),
  ("x/spending/keeper/spending_pool.go", "Keeper.DepositSpendingPoolFromAccount", "k.bk.SendCoinsFromAccountToModule", "addr | types.ModuleName | amounts"),
  ("x/spending/keeper/spending_pool.go", "Keeper.DepositSpendingPoolFromModule", "k.bk.SendCoinsFromModuleToModule", "moduleName | types.ModuleName | amounts"),
  ("x/spending/proposal_handler.go", "ApplySpendingPoolWithdrawProposalHandler.Apply", "a.bk.SendCoinsFromModuleToAccount", "types.ModuleName | beneficiaryAcc | p.Amounts"),
  ("x/tokens/keeper/burn.go", "Keeper.BurnCoins", "k.bankKeeper.BurnCoins", "moduleName | amt"),
  ("x/tokens/keeper/mint.go", "Keeper.MintCoins", "k.bankKeeper.MintCoins", "moduleName | amt"),
  ("x/tokens/keeper/msg_server.go", "msgServer.EthereumTx", "k.keeper.bankKeeper.SendCoins", "sender | sdk.AccAddress(recipient.Bytes()) | sdk.Coins{amount}"),
  ("x/ubi/keeper/ubi.go", "Keeper.ProcessUBIRecord", "k.tk.MintCoins", "minttypes.ModuleName | sdk.NewCoins(coin)")
]

theorem coin_flows_as_reviewed : Sekai.Gen.BankFlows.flows = expectedFlows := by decide +kernel

/-! ### Application wiring (table `Gen.App`) -/

/-- every burn call site names a module account that holds the Burner permission, every mint call site one that holds
the Minter permission: `Bank.mint` / `Bank.burn` are applied only where the real bank keeper does not panic -/
theorem mint_burn_sites_are_permitted :
    ((Sekai.Gen.BankFlows.mintBurn.filter fun r => !r.1.startsWith "x/tokens/" && !r.1.startsWith "app/").all fun r =>
      (Sekai.App.holders Sekai.Gen.App.maccPerms (if r.2.2.1.endsWith "MintCoins" then "authtypes.Minter" else "authtypes.Burner")).contains
        (Sekai.App.siteModule r.1 r.2.2.2)) = true := by decide +kernel

end Sekai.Props.C04
