import Sekai.Base.Bank
import Sekai.Gen.BankFlows
import SekaiProofs.Lemmas.Bank
import SekaiProofs.Props.C10
import SekaiProofs.Props.C16
import SekaiProofs.Props.C18
/-! # C03 — No account is debited without its own authorisation

* bank level: `debits_only_payers` — for ANY sequence of bank operations (that is what every handler is, as far as
  coins are concerned) an account that is not the payer of one of them never loses coins; `non_signers_keep_coins`:
  a transaction whose bank operations are all paid by its signers or by module accounts leaves every other user
  account's balance at least as large.
* `account_payers_as_reviewed`: the call sites where an ACCOUNT (not a module) pays, with the expression naming the
  payer, regenerated from the source: each was read — the payer is the message signer (`sender`, `delegator`, `addr`,
  `address`, `feePayer`, `from` = msg.FromAddress), a module-derived address (`collectiveAddr`, `collectiveDonationAddr`)
  or, for the two recorded exceptions, the owner of a custody transfer (`from` of a stored pool entry, released by
  approvals) and the rotated address (`addr` in RotateRecoveryAddress, authorised by its recovery secret). A new
  account-paying call site, or a changed payer expression, re-opens this obligation.
* recorded claims: the handler theorems of the module slices, restated: a matured undelegation is paid only to the
  account that undelegated (C10, after fix 3b4a8dc); identity records change only for their signer (C16); a spending
  pool pays registered beneficiaries only (C18). The custody approval by a non-custodian, the settings rewrite through
  TargetAddress and the EIP-712 / amino type confusions are the recorded counterexamples (C17, C02 findings).
* dynamic tie: adversarial transactions (a stranger naming another account's record, id or owner field) and mixed
  block histories on the real application; after every transaction every non-signer's coins and recorded claims are
  compared with their values before. -/
namespace Sekai.Props.C03
open Sekai.Bank

/-- **an account that pays none of the operations never loses coins**, for every sequence of bank operations -/
theorem debits_only_payers (b : B) (ops : List Op) (a d : Nat) (hp : ∀ op ∈ ops, op.payer ≠ some a) :
    b.bal a d ≤ (ops.foldl apply b).bal a d := by
  induction ops generalizing b with
  | nil => exact Int.le_refl _
  | cons op rest ih =>
    simp only [List.foldl_cons]
    have h1 : b.bal a d ≤ (apply b op).bal a d := by
      unfold apply
      cases hs : step b op with
      | none => exact Int.le_refl _
      | some b' => exact step_debits_only_payer b b' op hs a d (hp op (List.mem_cons_self ..))
    exact Int.le_trans h1 (ih (apply b op) (fun o ho => hp o (List.mem_cons_of_mem _ ho)))

/-- **a transaction whose coin movements are all paid by its signers or by module accounts debits no other account** -/
theorem non_signers_keep_coins (b : B) (ops : List Op) (signers modules : List Nat)
    (hpay : ∀ op ∈ ops, ∀ p, op.payer = some p → p ∈ signers ∨ p ∈ modules)
    (a d : Nat) (ha : a ∉ signers) (hm : a ∉ modules) :
    b.bal a d ≤ (ops.foldl apply b).bal a d := by
  apply debits_only_payers
  intro op hop heq
  rcases hpay op hop a heq with h | h
  · exact ha h
  · exact hm h

/-- begin- and end-of-block processing pays out of module accounts only: users never lose coins -/
theorem block_processing_never_debits_users (b : B) (ops : List Op) (modules : List Nat)
    (hpay : ∀ op ∈ ops, ∀ p, op.payer = some p → p ∈ modules) (a d : Nat) (hm : a ∉ modules) :
    b.bal a d ≤ (ops.foldl apply b).bal a d :=
  non_signers_keep_coins b ops [] modules (fun op hop p hp => Or.inr (hpay op hop p hp)) a d (by simp) hm

example : ([Op.send 0 9 0 5, .send 9 2 0 3].foldl apply { bal := fun a _ => if a = 0 then 10 else if a = 1 then 7 else 0 }).bal 1 0 = 7 := by decide

/-- a matured undelegation is paid only to the account that undelegated, exactly once (multistaking, restated) -/
theorem undelegation_paid_only_to_owner {s s' : Sekai.MultiStake.St} {who id : Nat} (h : Sekai.MultiStake.claimUndel s who id = some s') :
    ∃ u : Sekai.MultiStake.Undel, s.undels.find? (fun u => u.id == id) = some u ∧ u.owner = who ∧ u.expiry ≤ s.now ∧
      (∀ who' : Nat, Sekai.MultiStake.claimUndel s' who' id = none) := by
  obtain ⟨u, h1, h2, h3, _, _, _, h7⟩ := Sekai.Props.C10.claim_after_period_once_by_owner h
  exact ⟨u, h1, h2, h3, h7⟩

/-- a spending pool pays nobody who is not a registered beneficiary (restated) -/
theorem spending_pool_pays_only_beneficiaries (s : Sekai.Spend.State) (n : Nat) (a : Sekai.Spend.Addr) (now : Nat)
    (h : (∀ p, Sekai.Spend.findPool s.pools n = some p → ¬ Sekai.Props.C18.Listed p s.actors a) ∨ Sekai.Spend.findInfo s.infos n a = none) :
    Sekai.Props.C18.commit s (Sekai.Spend.claim s n a now) = s :=
  (Sekai.Props.C18.non_beneficiary_claim_fails s n a now h).2

/-! ## the call sites where an account pays -/

def expectedAccountPayers : List (String × String × String × String) := [
  ("x/basket/keeper/mint_burn_swap.go", "Keeper.BasketSwap", "k.bk.SendCoinsFromAccountToModule", "sender"),
  ("x/basket/keeper/mint_burn_swap.go", "Keeper.BurnBasketToken", "k.bk.SendCoinsFromAccountToModule", "sender"),
  ("x/basket/keeper/mint_burn_swap.go", "Keeper.MintBasketToken", "k.bk.SendCoinsFromAccountToModule", "sender"),
  ("x/collectives/keeper/abci.go", "Keeper.DistributeCollectiveRewards", "k.bk.SendCoinsFromAccountToModule", "delegator"),
  ("x/collectives/keeper/collective.go", "Keeper.WithdrawCollective", "k.bk.SendCoins", "collectiveAddr"),
  ("x/collectives/keeper/collective.go", "Keeper.WithdrawCollective", "k.bk.SendCoins", "collectiveDonationAddr"),
  ("x/collectives/keeper/msg_server.go", "msgServer.ContributeCollective", "k.keeper.bk.SendCoins", "sender"),
  ("x/collectives/keeper/msg_server.go", "msgServer.ContributeCollective", "k.keeper.bk.SendCoins", "collectiveAddr"),
  ("x/collectives/keeper/msg_server.go", "msgServer.CreateCollective", "k.keeper.bk.SendCoins", "sender"),
  ("x/collectives/keeper/msg_server.go", "msgServer.DonateCollective", "k.keeper.bk.SendCoins", "collectiveDonationAddr"),
  ("x/collectives/keeper/msg_server.go", "msgServer.DonateCollective", "k.keeper.bk.SendCoins", "collectiveAddr"),
  ("x/custody/keeper/msg_server.go", "msgServer.ApproveTransaction", "s.bk.SendCoins", "from"),
  ("x/custody/keeper/msg_server.go", "msgServer.PasswordConfirm", "s.bk.SendCoins", "from"),
  ("x/custody/keeper/msg_server.go", "msgServer.Send", "s.bk.SendCoins", "from"),
  ("x/custody/keeper/msg_server.go", "msgServer.sendReward", "s.bk.SendCoins", "FromAddress"),
  ("x/ethereum/keeper/msg_server.go", "msgServer.Relay", "m.bk.SendCoins", "from"),
  ("x/feeprocessing/keeper/keeper.go", "Keeper.SendCoinsFromAccountToModule", "k.bk.SendCoinsFromAccountToModule", "senderAddr"),
  ("x/gov/keeper/identity_registrar.go", "Keeper.RequestIdentityRecordsVerify", "k.bk.SendCoinsFromAccountToModule", "address"),
  ("x/layer2/keeper/lp_swap_redeem_convert.go", "Keeper.RedeemDappPoolTx", "k.bk.SendCoinsFromAccountToModule", "addr"),
  ("x/layer2/keeper/lp_swap_redeem_convert.go", "Keeper.SwapDappPoolTx", "k.bk.SendCoinsFromAccountToModule", "addr"),
  ("x/layer2/keeper/msg_server.go", "msgServer.BondDappProposal", "k.keeper.bk.SendCoinsFromAccountToModule", "addr"),
  ("x/layer2/keeper/msg_server.go", "msgServer.CreateDappProposal", "k.keeper.bk.SendCoinsFromAccountToModule", "addr"),
  ("x/layer2/keeper/msg_server.go", "msgServer.JoinDappVerifierWithBond", "k.keeper.bk.SendCoinsFromAccountToModule", "addr"),
  ("x/layer2/keeper/msg_server.go", "msgServer.MintBurnTx", "k.keeper.bk.SendCoinsFromAccountToModule", "sender"),
  ("x/layer2/keeper/msg_server.go", "msgServer.MintCreateFtTx", "k.keeper.bk.SendCoinsFromAccountToModule", "sender"),
  ("x/layer2/keeper/msg_server.go", "msgServer.MintCreateNftTx", "k.keeper.bk.SendCoinsFromAccountToModule", "sender"),
  ("x/layer2/keeper/msg_server.go", "msgServer.MintIssueTx", "k.keeper.bk.SendCoinsFromAccountToModule", "sender"),
  ("x/layer2/keeper/msg_server.go", "msgServer.MintIssueTx", "k.keeper.bk.SendCoins", "sender"),
  ("x/layer2/keeper/msg_server.go", "msgServer.TransferDappTx", "k.keeper.bk.SendCoinsFromAccountToModule", "sender"),
  ("x/multistaking/keeper/delegation.go", "Keeper.Delegate", "k.bankKeeper.SendCoinsFromAccountToModule", "delegator"),
  ("x/multistaking/keeper/delegation.go", "Keeper.Undelegate", "k.bankKeeper.SendCoinsFromAccountToModule", "delegator"),
  ("x/recovery/keeper/msg_server.go", "msgServer.BurnRecoveryTokens", "k.bk.SendCoinsFromAccountToModule", "addr"),
  ("x/recovery/keeper/msg_server.go", "msgServer.IssueRecoveryTokens", "k.bk.SendCoinsFromAccountToModule", "addr"),
  ("x/recovery/keeper/msg_server.go", "msgServer.RotateRecoveryAddress", "k.bk.SendCoinsFromAccountToModule", "feePayer"),
  ("x/recovery/keeper/msg_server.go", "msgServer.RotateRecoveryAddress", "k.bk.SendCoins", "addr"),
  ("x/spending/keeper/msg_server.go", "msgServer.DepositSpendingPool", "k.bk.SendCoinsFromAccountToModule", "sender"),
  ("x/spending/keeper/spending_pool.go", "Keeper.DepositSpendingPoolFromAccount", "k.bk.SendCoinsFromAccountToModule", "addr"),
  ("x/tokens/keeper/msg_server.go", "msgServer.EthereumTx", "k.keeper.bankKeeper.SendCoins", "sender")
]

theorem account_payers_as_reviewed : Sekai.Gen.BankFlows.accountPayers = expectedAccountPayers := by decide +kernel

end Sekai.Props.C03
