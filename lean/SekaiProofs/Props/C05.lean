import Sekai.Model.Stake
import Sekai.Gen.App
import Sekai.Model.App
import Sekai.Gen.Keys
import SekaiProofs.Lemmas.Keys
/-! # C05 — Validator updates keep consensus and application validator sets equal

`Sync` is the inductive invariant relating statuses, the removing / reactivating queues and the consensus set.
`sync_step` : every operation that is `Good` (see below) preserves it; `sync_block` : after ANY sequence of good
operations inside a block, the drained queues are applicable by the consensus engine and the new consensus set
is exactly the active set. The operations excluded by `Good` are exactly the recorded findings; each has a
closed counterexample on the list-level `endBlock` (which includes CometBFT's rules). -/
namespace Sekai.Props.C05
open Sekai.Stake

structure Sync (s : S) : Prop where
  r_in   : ∀ v, s.R v = true → s.V v = true ∧ s.A v = false ∧ s.status v ≠ .active
  a_act  : ∀ v, s.A v = true → s.status v = .active ∧ s.R v = false
  rest   : ∀ v, s.R v = false → s.A v = false → (s.V v = true ↔ s.status v = .active)

/-- CometBFT applicability of the drained queues (abstractly): no removal of an absent key, no key twice -/
def applicable (s : S) : Prop := (∀ v, s.R v = true → s.V v = true) ∧ (∀ v, ¬ (s.R v = true ∧ s.A v = true))

/-- the consensus set after the drain -/
def drainV (s : S) : Nat → Bool := fun v => if s.R v then false else if s.A v then true else s.V v

/-- the operations covered: a validator is demoted (paused, inactivated, jailed) only while the consensus set
holds it — i.e. not one that was unpaused / activated earlier in the same block, not one already out of the
set —, and no network-wide rank reset. -/
def Good (p : Params) (s : S) : Op → Prop
  | .msgPause v => s.status v = .active → s.V v = true
  | .sig v signed _ => s.status v = .active → s.V v = true
  | .jail v _ => s.status v ≠ .jailed → s.V v = true
  | .evidence v _ known stale => known = true → stale = false → s.status v ≠ .jailed → s.V v = true
  | .kPause v => s.status v ≠ .inactive → s.V v = true
  | .rankReset => ∀ v, s.status v = .active
  | _ => True

theorem drain_iff (s : S) (h : Sync s) (v : Nat) : drainV s v = true ↔ s.status v = .active := by
  unfold drainV
  by_cases hr : s.R v = true
  · simp [hr]; exact (h.r_in v hr).2.2
  · by_cases ha : s.A v = true
    · simp [hr, ha]; exact (h.a_act v ha).1
    · simp [hr, ha]; exact h.rest v (by simpa using hr) (by simpa using ha)

theorem sync_applicable (s : S) (h : Sync s) : applicable s := by
  refine ⟨fun v hv => (h.r_in v hv).1, fun v hra => ?_⟩
  have := (h.r_in v hra.1).2.1; simp [hra.2] at this

theorem sync_demote (s : S) (h : Sync s) (v : Nat) (st : Status) (hst : st ≠ .active) (hV : s.V v = true) :
    Sync (demote s v st) := by
  constructor
  · intro w hw
    by_cases e : w = v
    · subst e; simp [demote, upd, hV, hst]
    · simp [demote, upd, e] at hw ⊢; exact h.r_in w hw
  · intro w hw
    by_cases e : w = v
    · subst e; simp [demote, upd] at hw
    · simp [demote, upd, e] at hw ⊢; exact h.a_act w hw
  · intro w hr ha
    by_cases e : w = v
    · subst e; simp [demote, upd] at hr
    · simp [demote, upd, e] at hr ha ⊢; exact h.rest w hr ha

theorem sync_promote (s : S) (h : Sync s) (v : Nat) : Sync (promote s v) := by
  constructor
  · intro w hw
    by_cases e : w = v
    · subst e; simp [promote, upd] at hw
    · simp [promote, upd, e] at hw ⊢; exact h.r_in w hw
  · intro w hw
    by_cases e : w = v
    · subst e; simp [promote, upd]
    · simp [promote, upd, e] at hw ⊢; exact h.a_act w hw
  · intro w hr ha
    by_cases e : w = v
    · subst e; simp [promote, upd] at ha
    · simp [promote, upd, e] at hr ha ⊢; exact h.rest w hr ha

/-- changing fields other than status / queues / consensus set keeps the invariant -/
theorem sync_congr (s s' : S) (h : Sync s) (h1 : s'.status = s.status) (h2 : s'.R = s.R) (h3 : s'.A = s.A) (h4 : s'.V = s.V) :
    Sync s' := by
  constructor
  · intro v; rw [h1, h2, h3, h4]; exact h.r_in v
  · intro v; rw [h1, h2, h3]; exact h.a_act v
  · intro v; rw [h1, h2, h3, h4]; exact h.rest v

/-- **every good operation preserves the invariant** -/
theorem sync_step (p : Params) (s s' : S) (op : Op) (h : Sync s) (hg : Good p s op) (hs : step p s op = some s') : Sync s' := by
  cases op with
  | msgPause v =>
    simp only [step] at hs
    split at hs
    · cases hs
    · cases hst : s.status v <;> simp [hst] at hs
      subst hs; exact sync_demote s h v _ (by decide) (hg hst)
  | msgUnpause v =>
    simp only [step] at hs
    cases hst : s.status v <;> simp [hst] at hs
    subst hs; exact sync_promote s h v
  | msgActivate v now =>
    simp only [step] at hs
    cases hst : s.status v <;> simp [hst] at hs
    obtain ⟨_, hs⟩ := hs
    subst hs
    exact sync_congr (promote s v) _ (sync_promote s h v) rfl rfl rfl rfl
  | sig v signed now =>
    simp only [step] at hs
    cases hst : s.status v with
    | active =>
      simp only [hst, Option.some.injEq] at hs
      subst hs
      unfold sigActive
      simp only
      split
      · exact sync_congr (demote s v .inactive) _ (sync_demote s h v _ (by decide) (hg hst)) rfl rfl rfl rfl
      · exact sync_congr s _ h rfl rfl rfl rfl
    | inactive => simp [hst] at hs; subst hs; exact h
    | paused => simp [hst] at hs; subst hs; exact h
    | jailed => simp [hst] at hs; subst hs; exact h
  | jail v now =>
    simp only [step] at hs
    cases hst : s.status v with
    | jailed => simp [hst] at hs; subst hs; exact h
    | active =>
      simp [hst] at hs; subst hs
      exact sync_congr (demote s v .jailed) _ (sync_demote s h v _ (by decide) (hg (by rw [hst]; decide))) rfl rfl rfl rfl
    | inactive =>
      simp [hst] at hs; subst hs
      exact sync_congr (demote s v .jailed) _ (sync_demote s h v _ (by decide) (hg (by rw [hst]; decide))) rfl rfl rfl rfl
    | paused =>
      simp [hst] at hs; subst hs
      exact sync_congr (demote s v .jailed) _ (sync_demote s h v _ (by decide) (hg (by rw [hst]; decide))) rfl rfl rfl rfl
  | evidence v now known stale =>
    simp only [step] at hs
    by_cases hk : known = true ∧ stale = false
    · rw [if_pos hk] at hs
      cases hst : s.status v with
      | jailed => simp [hst] at hs; subst hs; exact sync_congr s _ h rfl rfl rfl rfl
      | active =>
        simp [hst] at hs; subst hs
        exact sync_congr (demote s v .jailed) _ (sync_demote s h v _ (by decide) (hg hk.1 hk.2 (by rw [hst]; decide))) rfl rfl rfl rfl
      | inactive =>
        simp [hst] at hs; subst hs
        exact sync_congr (demote s v .jailed) _ (sync_demote s h v _ (by decide) (hg hk.1 hk.2 (by rw [hst]; decide))) rfl rfl rfl rfl
      | paused =>
        simp [hst] at hs; subst hs
        exact sync_congr (demote s v .jailed) _ (sync_demote s h v _ (by decide) (hg hk.1 hk.2 (by rw [hst]; decide))) rfl rfl rfl rfl
    · rw [if_neg hk] at hs; simp at hs; subst hs; exact h
  | unjail v now =>
    simp only [step] at hs
    cases hst : s.status v <;> cases hj : s.jailTime v <;> simp [hst, hj] at hs
    obtain ⟨_, hs⟩ := hs
    subst hs
    constructor
    · intro w hw
      have := h.r_in w hw
      by_cases e : w = v
      · subst e; simp [upd]; exact ⟨this.1, this.2.1⟩
      · simp [upd, e]; exact this
    · intro w hw
      have := h.a_act w hw
      by_cases e : w = v
      · subst e; rw [hst] at this; cases this.1
      · simp [upd, e]; exact this
    · intro w hr ha
      have := h.rest w hr ha
      by_cases e : w = v
      · subst e; simp [upd]; rw [hst] at this; simpa using this
      · simp [upd, e]; exact this
  | kPause v =>
    simp only [step] at hs
    cases hst : s.status v with
    | inactive => simp [hst] at hs; subst hs; exact h
    | active => simp [hst] at hs; subst hs; exact sync_demote s h v _ (by decide) (hg (by rw [hst]; decide))
    | paused => simp [hst] at hs; subst hs; exact sync_demote s h v _ (by decide) (hg (by rw [hst]; decide))
    | jailed => simp [hst] at hs; subst hs; exact sync_demote s h v _ (by decide) (hg (by rw [hst]; decide))
  | rankReset =>
    simp only [step, Option.some.injEq] at hs
    subst hs
    have hall : ∀ v, s.status v = .active := hg
    constructor
    · intro w hw; have := h.r_in w hw; exact absurd (hall w) this.2.2
    · intro w hw; exact ⟨rfl, (h.a_act w hw).2⟩
    · intro w hr ha; have := h.rest w hr ha; simp [hall w] at this; simpa using this

theorem sync_apply (p : Params) (s : S) (op : Op) (h : Sync s) (hg : Good p s op) : Sync (apply p s op) := by
  unfold apply
  cases hs : step p s op with
  | none => simpa using h
  | some s' => simpa using sync_step p s s' op h hg hs

/-- **for every sequence of operations inside a block, each good at the moment it runs, the updates returned at the
end of the block can be applied by the consensus engine (no removal of an absent key, no key twice) and afterwards
the consensus set is exactly the set of validators the application records as active** -/
theorem sync_block (p : Params) (s : S) (h : Sync s) (ops : List Op)
    (hg : ∀ (pre : List Op) (op : Op) (post : List Op), ops = pre ++ op :: post → Good p (pre.foldl (apply p) s) op) :
    let s' := ops.foldl (apply p) s
    applicable s' ∧ ∀ v, drainV s' v = true ↔ s'.status v = .active := by
  have key : Sync (ops.foldl (apply p) s) := by
    induction ops generalizing s with
    | nil => exact h
    | cons op rest ih =>
      have h1 : Sync (apply p s op) := sync_apply p s op h (hg [] op rest rfl)
      apply ih (apply p s op) h1
      intro pre o post e
      have := hg (op :: pre) o post (by simp [e])
      simpa using this
  exact ⟨sync_applicable _ key, drain_iff _ key⟩

/-- after the drain the invariant holds again (queues empty, consensus set = active set): blocks compose -/
theorem sync_after_drain (s : S) (h : Sync s) :
    Sync { s with V := drainV s, R := fun _ => false, A := fun _ => false } := by
  constructor
  · intro v hv; simp at hv
  · intro v hv; simp at hv
  · intro v _ _; exact drain_iff s h v

/-! ## non-vacuity and the excluded shapes (closed evaluations on the list-level model incl. CometBFT's rules) -/

def pr : Params := { nVals := 3, minValidators := 1 }
/-- three validators, all active and in the consensus set -/
def s3 : S := { V := fun v => decide (v < 3) }
/-- validator 0 paused and out of the consensus set -/
def s3p : S := { status := fun v => if v = 0 then .paused else .active, V := fun v => decide (v = 1 ∨ v = 2) }

def endOk (n : Nat) (s : S) : Bool := match (endBlock n s).2 with | .ok _ => true | .error _ => false
def endErr (n : Nat) (s : S) : Option CometErr := match (endBlock n s).2 with | .ok _ => none | .error e => some e

example : endOk 3 ([Op.msgPause 0, .jail 1 5, .msgUnpause 0].foldl (apply pr) s3) = true := by decide

/-- finding: `[MsgUnpause, MsgPause]` of a paused validator in one block ⇒ removal of an absent key -/
theorem unpause_pause_counterexample :
    endErr 3 ([Op.msgUnpause 0, .msgPause 0].foldl (apply pr) s3p) = some .removeAbsent := by decide
/-- finding: jailing a paused (or inactive) validator ⇒ removal of an absent key -/
theorem jail_paused_counterexample : endErr 3 ([Op.jail 0 5].foldl (apply pr) s3p) = some .removeAbsent := by decide
/-- finding: a rank reset makes the application count a paused validator active while consensus does not hold it -/
theorem rank_reset_counterexample :
    let s' := [Op.rankReset].foldl (apply pr) s3p
    endOk 3 s' = true ∧ s'.status 0 = .active ∧ drainV s' 0 = false := by decide
/-- finding: the keeper-level Pause used by the upgrade plan pauses an already paused validator again ⇒ removal of an absent key -/
theorem kpause_paused_counterexample : endErr 3 ([Op.kPause 0].foldl (apply pr) s3p) = some .removeAbsent := by decide
/-- finding: the Pause guard counts all validator records, not the active ones: every validator can pause ⇒ empty set -/
theorem all_pause_counterexample :
    endErr 3 ([Op.msgPause 0, .msgPause 1, .msgPause 2].foldl (apply pr) s3) = some .emptySet := by decide

/-! ## joining validators: MsgClaimValidator, the pending queue (`Stake.stepC`, `joinPending`, `endBlockC`) -/

/-- accounts without a validator record are outside everything; pending entries belong to such accounts -/
structure PInv (s : S) : Prop where
  out : ∀ v, s.claimed v = false → s.status v = .inactive ∧ s.V v = false ∧ s.R v = false ∧ s.A v = false
  pend : ∀ v, s.P v = true → s.claimed v = false

/-- every operation with a subject changes the status, the queues and the consensus-set bit of its subject only, and
never the record / pending bookkeeping -/
theorem step_frame (p : Params) (s s' : S) (op : Op) (v : Nat) (hsub : subject op = some v)
    (hs : step p s op = some s') :
    (∀ w, w ≠ v → s'.status w = s.status w ∧ s'.V w = s.V w ∧ s'.R w = s.R w ∧ s'.A w = s.A w) ∧
    s'.claimed = s.claimed ∧ s'.P = s.P := by
  cases op with
  | rankReset => simp [subject] at hsub
  | msgPause u =>
    simp only [subject, Option.some.injEq] at hsub; subst hsub
    simp only [step] at hs
    split at hs
    · cases hs
    · cases hst : s.status u <;> simp [hst] at hs
      subst hs
      exact ⟨fun w hw => by simp [demote, upd, hw], rfl, rfl⟩
  | msgUnpause u =>
    simp only [subject, Option.some.injEq] at hsub; subst hsub
    simp only [step] at hs
    cases hst : s.status u <;> simp [hst] at hs
    subst hs
    exact ⟨fun w hw => by simp [promote, upd, hw], rfl, rfl⟩
  | msgActivate u now =>
    simp only [subject, Option.some.injEq] at hsub; subst hsub
    simp only [step] at hs
    cases hst : s.status u <;> simp [hst] at hs
    obtain ⟨_, hs⟩ := hs
    subst hs
    exact ⟨fun w hw => by simp [promote, upd, hw], rfl, rfl⟩
  | sig u signed now =>
    simp only [subject, Option.some.injEq] at hsub; subst hsub
    simp only [step] at hs
    cases hst : s.status u with
    | active =>
      simp only [hst, Option.some.injEq] at hs
      subst hs
      unfold sigActive
      simp only
      split
      · exact ⟨fun w hw => by simp [demote, upd, hw], rfl, rfl⟩
      · exact ⟨fun w hw => ⟨rfl, rfl, rfl, rfl⟩, rfl, rfl⟩
    | inactive => simp [hst] at hs; subst hs; exact ⟨fun _ _ => ⟨rfl, rfl, rfl, rfl⟩, rfl, rfl⟩
    | paused => simp [hst] at hs; subst hs; exact ⟨fun _ _ => ⟨rfl, rfl, rfl, rfl⟩, rfl, rfl⟩
    | jailed => simp [hst] at hs; subst hs; exact ⟨fun _ _ => ⟨rfl, rfl, rfl, rfl⟩, rfl, rfl⟩
  | jail u now =>
    simp only [subject, Option.some.injEq] at hsub; subst hsub
    simp only [step] at hs
    cases hst : s.status u <;> simp [hst] at hs <;> subst hs <;>
      first
        | exact ⟨fun _ _ => ⟨rfl, rfl, rfl, rfl⟩, rfl, rfl⟩
        | exact ⟨fun w hw => by simp [demote, upd, hw], rfl, rfl⟩
  | evidence u now known stale =>
    simp only [subject, Option.some.injEq] at hsub; subst hsub
    simp only [step] at hs
    by_cases hk : known = true ∧ stale = false
    · rw [if_pos hk] at hs
      cases hst : s.status u <;> simp [hst] at hs <;> subst hs <;>
        first
          | exact ⟨fun _ _ => ⟨rfl, rfl, rfl, rfl⟩, rfl, rfl⟩
          | exact ⟨fun w hw => by simp [demote, upd, hw], rfl, rfl⟩
    · rw [if_neg hk] at hs; simp at hs; subst hs; exact ⟨fun _ _ => ⟨rfl, rfl, rfl, rfl⟩, rfl, rfl⟩
  | unjail u now =>
    simp only [subject, Option.some.injEq] at hsub; subst hsub
    simp only [step] at hs
    cases hst : s.status u <;> cases hj : s.jailTime u <;> simp [hst, hj] at hs
    obtain ⟨_, hs⟩ := hs
    subst hs
    exact ⟨fun w hw => by simp [upd, hw], rfl, rfl⟩
  | kPause u =>
    simp only [subject, Option.some.injEq] at hsub; subst hsub
    simp only [step] at hs
    cases hst : s.status u <;> simp [hst] at hs <;> subst hs <;>
      first
        | exact ⟨fun _ _ => ⟨rfl, rfl, rfl, rfl⟩, rfl, rfl⟩
        | exact ⟨fun w hw => by simp [demote, upd, hw], rfl, rfl⟩

/-- the operations covered, with the claim message (always covered) -/
def GoodC (p : Params) (s : S) : OpC → Prop
  | .claim _ => True
  | .base op => Good p s op

theorem stepC_sub (p : Params) (s : S) (op : Op) (v : Nat) (hsub : subject op = some v) :
    stepC p s (.base op) = if s.claimed v then step p s op else if isMsg op then none else some s := by
  cases op <;> simp_all [stepC, subject]

theorem pinv_of_frame (s s' : S) (v : Nat) (hp : PInv s) (hcl : s.claimed v = true)
    (hf : ∀ w, w ≠ v → s'.status w = s.status w ∧ s'.V w = s.V w ∧ s'.R w = s.R w ∧ s'.A w = s.A w)
    (hc : s'.claimed = s.claimed) (hP : s'.P = s.P) : PInv s' := by
  constructor
  · intro w hw
    rw [hc] at hw
    have hne : w ≠ v := by intro e; subst e; simp [hcl] at hw
    obtain ⟨a, b, c, d⟩ := hf w hne
    rw [a, b, c, d]; exact hp.out w hw
  · intro w hw; rw [hP] at hw; rw [hc]; exact hp.pend w hw

theorem syncC_sub (p : Params) (s s' : S) (op : Op) (v : Nat) (hsub : subject op = some v) (h : Sync s) (hp : PInv s)
    (hg : Good p s op) (hs : stepC p s (.base op) = some s') : Sync s' ∧ PInv s' := by
  rw [stepC_sub p s op v hsub] at hs
  cases hc : s.claimed v with
  | true =>
    simp only [hc, if_true] at hs
    obtain ⟨hf, hcl, hP⟩ := step_frame p s s' op v hsub hs
    exact ⟨sync_step p s s' op h hg hs, pinv_of_frame s s' v hp hc hf hcl hP⟩
  | false =>
    simp only [hc, Bool.false_eq_true, if_false] at hs
    split at hs
    · cases hs
    · cases hs; exact ⟨h, hp⟩

/-- **every covered operation - now including MsgClaimValidator - preserves the invariant and the bookkeeping of
unclaimed accounts** -/
theorem syncC_step (p : Params) (s s' : S) (op : OpC) (h : Sync s) (hp : PInv s) (hg : GoodC p s op)
    (hs : stepC p s op = some s') : Sync s' ∧ PInv s' := by
  cases op with
  | claim v =>
    simp only [stepC] at hs
    split at hs
    · cases hs
    · rename_i hc
      cases hs
      refine ⟨sync_congr s _ h rfl rfl rfl rfl, ⟨hp.out, ?_⟩⟩
      intro w hw
      by_cases e : w = v
      · subst e; simpa using hc
      · simp [upd, e] at hw; exact hp.pend w hw
  | base op =>
    cases op with
    | rankReset =>
      simp only [stepC, Option.some.injEq] at hs
      subst hs
      have hall : ∀ v, s.status v = .active := hg
      have hcl : ∀ v, s.claimed v = true := by
        intro v
        cases hc : s.claimed v with
        | true => rfl
        | false => have := (hp.out v hc).1; rw [hall v] at this; cases this
      refine ⟨?_, ⟨fun v hv => by simp [hcl v] at hv, fun v hv => by have := hp.pend v hv; simp [hcl v] at this⟩⟩
      constructor
      · intro w hw; have := h.r_in w hw; exact absurd (hall w) this.2.2
      · intro w hw; exact ⟨by simp [hcl w], (h.a_act w hw).2⟩
      · intro w hr ha; have := h.rest w hr ha; simp [hall w] at this; simp [hcl w]; exact this
    | msgPause v => exact syncC_sub p s s' (.msgPause v) v rfl h hp hg hs
    | msgUnpause v => exact syncC_sub p s s' (.msgUnpause v) v rfl h hp hg hs
    | msgActivate v now => exact syncC_sub p s s' (.msgActivate v now) v rfl h hp hg hs
    | sig v sg now => exact syncC_sub p s s' (.sig v sg now) v rfl h hp hg hs
    | jail v now => exact syncC_sub p s s' (.jail v now) v rfl h hp hg hs
    | unjail v now => exact syncC_sub p s s' (.unjail v now) v rfl h hp hg hs
    | evidence v now k st => exact syncC_sub p s s' (.evidence v now k st) v rfl h hp hg hs
    | kPause v => exact syncC_sub p s s' (.kPause v) v rfl h hp hg hs

/-- one pending entry joins: the invariant and the bookkeeping survive -/
theorem join_one (s : S) (v : Nat) (h : Sync s) (hp : PInv s) : Sync (joinOne s v) ∧ PInv (joinOne s v) := by
  unfold joinOne
  by_cases hP : s.P v = true
  · simp only [hP, if_true]
    have hc := hp.pend v hP
    obtain ⟨_, hV, hR, hA⟩ := hp.out v hc
    refine ⟨sync_congr (promote s v) _ (sync_promote s h v) rfl rfl rfl rfl, ?_⟩
    constructor
    · intro w hw
      by_cases e : w = v
      · subst e; simp [upd] at hw
      · simp only [upd, e, if_false] at hw
        have := hp.out w hw
        simpa [promote, upd, e] using this
    · intro w hw
      by_cases e : w = v
      · subst e; simp [upd] at hw
      · simp only [upd, e, if_false] at hw ⊢; exact hp.pend w hw
  · simp only [hP, Bool.false_eq_true, if_false]; exact ⟨h, hp⟩

theorem join_pending (n : Nat) (s : S) (h : Sync s) (hp : PInv s) : Sync (joinPending n s) ∧ PInv (joinPending n s) := by
  unfold joinPending
  generalize List.range n = l
  induction l generalizing s with
  | nil => exact ⟨h, hp⟩
  | cons v l ih =>
    simp only [List.foldl_cons]
    obtain ⟨h1, hp1⟩ := join_one s v h hp
    exact ih (joinOne s v) h1 hp1

/-- a second claim by an account that already has a validator record is refused, whatever key or moniker it names -/
theorem claim_refused_when_record_exists (p : Params) (s : S) (v : Nat) (hc : s.claimed v = true) :
    stepC p s (.claim v) = none := by simp [stepC, hc]

/-- **with joining validators**: for every sequence of covered operations inside a block - claims included -, once the
pending entries have become records the drained queues can be applied by the consensus engine and the new consensus
set is exactly the set of validators the application records as active (new validators included) -/
theorem syncC_block (p : Params) (n : Nat) (s : S) (h : Sync s) (hp : PInv s) (ops : List OpC)
    (hg : ∀ (pre : List OpC) (op : OpC) (post : List OpC), ops = pre ++ op :: post → GoodC p (pre.foldl (applyC p) s) op) :
    let s' := joinPending n (ops.foldl (applyC p) s)
    applicable s' ∧ (∀ v, drainV s' v = true ↔ s'.status v = .active) ∧ PInv s' := by
  have key : Sync (ops.foldl (applyC p) s) ∧ PInv (ops.foldl (applyC p) s) := by
    induction ops generalizing s with
    | nil => exact ⟨h, hp⟩
    | cons op rest ih =>
      have h1 : Sync (applyC p s op) ∧ PInv (applyC p s op) := by
        unfold applyC
        cases hs : stepC p s op with
        | none => simpa using ⟨h, hp⟩
        | some s' => simpa using syncC_step p s s' op h hp (hg [] op rest rfl) hs
      apply ih (applyC p s op) h1.1 h1.2
      intro pre o post e
      have := hg (op :: pre) o post (by simp [e])
      simpa using this
  obtain ⟨k1, k2⟩ := join_pending n _ key.1 key.2
  exact ⟨sync_applicable _ k1, drain_iff _ k1, k2⟩

/-! non-vacuity: three validators in the set, accounts 3 and 4 without a record -/
def s3c : S := { V := fun v => decide (v < 3), claimed := fun v => decide (v < 3),
                 status := fun v => if v < 3 then .active else .inactive }

example : Sync s3c ∧ PInv s3c := by
  refine ⟨⟨fun v hv => by simp [s3c] at hv, fun v hv => by simp [s3c] at hv, fun v _ _ => ?_⟩, ⟨fun v hv => ?_, fun v hv => by simp [s3c] at hv⟩⟩
  · by_cases hv : v < 3 <;> simp [s3c, hv]
  · have hv : ¬ v < 3 := by simpa [s3c] using hv
    simp [s3c, hv]

example : (endBlockC 5 ([OpC.claim 3, .base (.msgPause 0), .claim 4].foldl (applyC pr) s3c)).1 = [(0, 0), (3, 1), (4, 1)] := by decide
example : endOk 5 (joinPending 5 ([OpC.claim 3, .base (.msgPause 0)].foldl (applyC pr) s3c)) = true := by decide
/-- a message about the pending validator fails until the block ends; afterwards it is an ordinary active validator -/
example : stepC pr ([OpC.claim 3].foldl (applyC pr) s3c) (.base (.msgPause 3)) = none := by decide
example : stepC pr s3c (.claim 1) = none := by decide

/-- **a recovery rotation of a validator's owner changes neither the application's view of who is active nor the
consensus set**: the invariant and the bookkeeping of unclaimed accounts carry over unchanged -/
theorem rotate_keeps_sync (s s' : S) (v : Nat) (h : Sync s) (hp : PInv s) (hr : rotateOwner s v = some s') :
    Sync s' ∧ PInv s' ∧ s'.status = s.status ∧ s'.V = s.V := by
  unfold rotateOwner at hr
  split at hr
  · cases hr
    exact ⟨sync_congr s _ h rfl rfl rfl rfl, ⟨hp.out, hp.pend⟩, rfl, rfl⟩
  · cases hr

/-! ### Application wiring (table `Gen.App`) -/

/-- the block structure of `Stake.block`: in BeginBlock signatures (slashing) are handled before evidence, both before
staking; in EndBlock proposals are enacted (gov: unjail, rank reset, slash) before the staking module computes the
validator-set updates of the block. -/
theorem block_order_as_modelled :
    Sekai.App.inOrder Sekai.Gen.App.beginOrder ["slashingtypes.ModuleName", "evidencetypes.ModuleName", "stakingtypes.ModuleName"] = true ∧
    Sekai.App.inOrder Sekai.Gen.App.endOrder ["upgradetypes.ModuleName", "slashingtypes.ModuleName", "recoverytypes.ModuleName", "govtypes.ModuleName", "stakingtypes.ModuleName"] = true := by
  decide +kernel

/-! ### Key spaces of the stores this model keeps in separate maps (table `Gen.Keys`)

The model keeps each record kind of a module in a field of its own; the module keeps them in ONE store under byte prefixes.
No prefix extends another (checked on the regenerated table), so by `Sekai.Keys.keys_of_different_kinds_differ` a key of one
kind is never a key of another kind. -/

theorem staking_key_spaces_disjoint : Sekai.Keys.disjoint Sekai.Gen.Keys.stores "staking" = true := by decide +kernel

/-! ### two validator records behind one consensus key (recorded finding `C05/claim/consensus-key-of-another-validator`)

`ClaimValidator` looks at the operator address and the moniker of a claim, not at the consensus key it announces. A second
account may announce the key of an active validator: the engine's set - a set of KEYS - does not change when the second
record joins (power 1 for a key it holds already) and loses the key when the FIRST record leaves, while the second record
stays Active in the application's books. The model of this file indexes validators by their key and cannot say this; the
two-line model below can. -/

/-- the engine applies (key, power) updates to its set of keys -/
def applyKeyUpdates (set : List Nat) (upd : List (Nat × Nat)) : List Nat :=
  upd.foldl (fun s u => if u.2 = 0 then s.filter (· != u.1) else if s.contains u.1 then s else s ++ [u.1]) set

/-- keys of the validator records (key, active) the application counts as active -/
def activeKeysOf (vs : List (Nat × Bool)) : List Nat := (vs.filter (·.2)).map (·.1)

/-- A (key 7) is active and in the set; B joins announcing key 7: update (7, 1), the set stays [7]; A pauses: update (7, 0),
the set is empty - and B, key 7, is still Active -/
theorem duplicate_consensus_key_counterexample :
    applyKeyUpdates [7] [(7, 1)] = [7] ∧ applyKeyUpdates (applyKeyUpdates [7] [(7, 1)]) [(7, 0)] = [] ∧
    activeKeysOf [(7, false), (7, true)] = [7] := by decide

end Sekai.Props.C05
