import SekaiProofs.Lemmas.Layer2LP
import Sekai.Model.Layer2Oper
import Sekai.Gen.Keys
import SekaiProofs.Lemmas.Keys
/-! # C20 — Layer-2 dApp bonds are escrowed one-to-one; the LP pool gives no free money

Model: `Sekai/Model/Layer2.lean` (mirrors `x/layer2` as coded; tied to the Go code by `harness/c20.go`, which makes the
compiled model reproduce every answer and every observation of the real keeper). Statements quantify over ALL states
satisfying the stated invariant and ALL operation lists (`run` = left fold of `step`, a failed operation leaves no trace).

Operation layers: `Op` = what is reachable through messages / EndBlocker / the UpsertDapp proposal (plus plain bank
transfers between users); `KOp` = the keeper-level LP functions, which the message handlers never reach as coded.

Where the code violates the property the full statement is kept as `def C20_…_full : Prop`, refuted from a closed witness
(`…_counterexample`) and proved with the excluded inputs as a decidable hypothesis (`…_partial`, hypotheses `opOk`,
`Op.withinMax`, `kopOk`). Findings (replayed on the real code by the harness):
* `C20/create-dapp/max-bond-unchecked`            creation never checks MaxDappBond
* `C20/create-dapp/negative-bond-recorded`        a permissioned creator's negative bond is recorded, never deposited
* `C20/bootstrap-refund/name-prefix-collision`    `GetUserDappBonds(name)` is a prefix scan: the refund of dApp "x" pays the
                                                  bonders of dApp "xy" and leaves their records (double withdrawal)
* `C20/bootstrap-refund/zero-bond-record-blocks-refund` one record with amount 0 makes every refund of that dApp fail forever
* `C20/upsert-dapp-proposal/overwrites-total-bond` the proposal stores its own `TotalBond`/`Status`
* `C20/lp-keeper/rounding-free-money` (latent)     both LP formulas round in the trader's favour
* `C20/lp-keeper/convert-same-dapp-stale-record` (latent) -/
namespace Sekai.Props.C20
open Sekai Sekai.Layer2

/-! ## closed witnesses -/

def ukex : Bytes := [117, 107, 101, 120]
def P0 : Params := { native := ukex, minBond := 1, maxBond := 2, bondDuration := 100, liqThreshold := 0, liqPeriod := 1000 }
def addr0 : Nat → Bytes := fun i => [107, 105, 114, 97, 49, 48 + i]
def bal0 : Acct → Bytes → Int := fun a d =>
  match a with
  | .user _ => if d = ukex then 10000000 else 0
  | _ => 0
/-- a chain with no dApp; every user holds 10 000 000 ukex -/
def g0 : St := genesis P0 addr0 bal0
def mkDapp (name denom : Bytes) (ratio : Dec.D) (premint postmint : Int) (fee : Dec.D) (team : Option Nat) : Dapp :=
  { name := name, denom := denom, bondDenom := [], bond := 0, creationTime := 0, status := 0, ratio := ratio, drip := 50,
    premint := premint, postmint := postmint, poolFee := fee, liquidationStart := 0, premintTime := 0, teamReserve := team,
    postMintPaid := false, enableBondVerifiers := false }
def A : Bytes := [97]
def X : Bytes := [120]
def XY : Bytes := [120, 121]
def Z : Bytes := [122]
def alp : Bytes := [97, 108, 112]
def dappA : Dapp := mkDapp A alp Dec.one 0 0 0 none

theorem nativeNotLp_P0 : NativeNotLp P0 := by
  intro x h
  simp [lpOf, lpPrefix, P0, ukex] at h

theorem good_g0 : Good g0 := good_genesis P0 addr0 bal0 (by decide)

instance SafeRun.dec : (s : St) → (ops : List Op) → Decidable (SafeRun s ops)
  | _, [] => isTrue trivial
  | s, op :: rest => @instDecidableAnd _ _ _ (SafeRun.dec (step s op) rest)

instance KSafeRun.dec : (s : St) → (ops : List KOp) → Decidable (KSafeRun s ops)
  | _, [] => isTrue trivial
  | s, op :: rest => @instDecidableAnd _ _ _ (KSafeRun.dec (kstep s op) rest)

/-- a history with two users, a reclaim, an expiry with refund, and a re-creation -/
def opsBooks : List Op :=
  [.create 0 1 false dappA ukex 500000, .bond 2 A ukex 70000, .reclaim 2 A ukex 20000, .bond 1 A ukex 1,
   .msgSwap A, .endBlock 50, .create 60 2 false (mkDapp Z alp Dec.one 0 0 0 none) ukex 900000, .endBlock 101]

/-! ## (a) each user's recorded bond = deposited − reclaimed -/

/-- **(a)** along every history of create / bond / reclaim / end-block / LP messages / transfers that stays inside the proven
region (`opOk`: no negative-bond creation by a permissioned account, no prefix collision when a block ends, no UpsertDapp),
the recorded bond of every user in every dApp equals the ghost ledger "deposited − paid back", which only moves inside
`escrowIn` / `escrowOut` together with the bank transfer of the same amount (`ledger_moves_with_bank_…` below) -/
theorem user_bond_books (s : St) (hG : Good s) (hn : NativeNotLp s.P) (ops : List Op) (hs : SafeRun s ops) :
    ∀ name u, bondAmt (run s ops).bonds name u = (run s ops).ledger name u :=
  (good_run ops hG hn hs).ledger

example : Good g0 ∧ NativeNotLp g0.P ∧ SafeRun g0 opsBooks ∧
    bondAmt (run g0 opsBooks).bonds Z 2 = 900000 ∧ (run g0 opsBooks).ledger Z 2 = 900000 ∧
    (run g0 opsBooks).ledger A 1 = 0 ∧ (run g0 opsBooks).bank.bal (.user 1) ukex = 10000000 :=
  ⟨good_g0, nativeNotLp_P0, by decide, by decide, by decide, by decide, by decide⟩

/-- the ledger entry of (name, u) grows by `amt` exactly when `amt` leaves the user's account for the module -/
theorem ledger_moves_with_bank_in {s s1 : St} {u : Nat} {name den : Bytes} {amt : Int} (h : s.escrowIn u name den amt = some s1) :
    s1.ledger name u = s.ledger name u + amt ∧ s1.bank.bal (.user u) den = s.bank.bal (.user u) den - amt ∧
    s1.bank.bal .l2 den = s.bank.bal .l2 den + amt ∧ 0 < amt := by
  obtain ⟨bk, hbk, rfl⟩ := escrowIn_some h
  have hb := send_bal_src hbk (by simp)
  exact ⟨by simp, hb.1, hb.2.1, (send_some hbk).2.1⟩

example : ∃ s1, g0.escrowIn 1 A ukex 5 = some s1 ∧ s1.ledger A 1 = 5 := ⟨_, rfl, by decide⟩

/-- … and shrinks by `amt` exactly when the module pays `amt` to the user -/
theorem ledger_moves_with_bank_out {s s1 : St} {u : Nat} {name den : Bytes} {amt : Int} (h : s.escrowOut u name den amt = some s1) :
    s1.ledger name u = s.ledger name u - amt ∧ s1.bank.bal (.user u) den = s.bank.bal (.user u) den + amt ∧
    s1.bank.bal .l2 den = s.bank.bal .l2 den - amt ∧ 0 < amt := by
  obtain ⟨bk, hbk, rfl⟩ := escrowOut_some h
  have hb := send_bal_src hbk (by simp)
  exact ⟨by simp, hb.2.1, hb.1, (send_some hbk).2.1⟩

example : ∃ s1 s2, g0.escrowIn 1 A ukex 5 = some s1 ∧ s1.escrowOut 1 A ukex 3 = some s2 ∧ s2.ledger A 1 = 2 := ⟨_, _, rfl, rfl, by decide⟩

/-- the full statement of (a) -/
def C20_books_full : Prop :=
  ∀ (ops : List Op) (name : Bytes) (u : Nat), bondAmt (run g0 ops).bonds name u = (run g0 ops).ledger name u

/-- KNOWN FINDING `C20/create-dapp/negative-bond-recorded`: account 0 (permission) creates with bond −5: recorded, never paid -/
theorem books_negative_create_counterexample : ¬ C20_books_full := by
  intro h
  have := h [.create 0 0 true dappA ukex (-5)] A 0
  revert this
  decide

example : bondAmt (run g0 [.create 0 0 true dappA ukex (-5)]).bonds A 0 = -5 ∧
    (run g0 [.create 0 0 true dappA ukex (-5)]).bank.bal (.user 0) ukex = 10000000 := by decide

/-- the prefix-collision history: "x" (user 1) expires below its minimum while "xy" (user 2) and "z" (user 1) live on -/
def opsClash : List Op :=
  [.create 0 1 false (mkDapp X alp Dec.one 0 0 0 none) ukex 10000,
   .create 50 1 false (mkDapp Z alp Dec.one 0 0 0 none) ukex 700000,
   .create 50 2 false (mkDapp XY alp Dec.one 0 0 0 none) ukex 600000,
   .endBlock 101]

/-- KNOWN FINDING `C20/bootstrap-refund/name-prefix-collision` seen in the books: user 2 was paid back its 600000 by the
refund of dApp "x", yet its bond in "xy" is still recorded -/
theorem books_prefix_counterexample : ¬ C20_books_full := by
  intro h
  have := h opsClash XY 2
  revert this
  decide

example : bondAmt (run g0 opsClash).bonds XY 2 = 600000 ∧ (run g0 opsClash).ledger XY 2 = 0 ∧
    (run g0 opsClash).bank.bal (.user 2) ukex = 10000000 := by decide

/-! ## (b) TotalBond = Σ user bonds while bootstrapping -/

/-- **(b)** for every history without an UpsertDapp proposal (prefix collisions, negative bonds … included): the books stay
consistent, in particular `TotalBond = Σ user bonds` for every bootstrapping dApp -/
theorem total_eq_sum (s : St) (hI : BooksInv s) (ops : List Op) (hops : ∀ op ∈ ops, op.isUpsert = false) :
    ∀ d ∈ (run s ops).dapps, d.status = 0 → d.bond = bondSum (run s ops).bonds d.name :=
  (books_run ops hI hops).sumEq

example : BooksInv g0 ∧ (∀ op ∈ opsBooks, op.isUpsert = false) ∧ (run g0 opsBooks).dapps.map (fun d => (d.name, d.bond, d.status)) = [(Z, 900000, 0)] :=
  ⟨good_g0.books, by decide, by decide⟩

def C20_total_eq_sum_full : Prop :=
  ∀ (ops : List Op), ∀ d ∈ (run g0 ops).dapps, d.status = 0 → d.bond = bondSum (run g0 ops).bonds d.name

def opsUpsert : List Op :=
  [.create 0 1 false dappA ukex 1000000, .upsert { dappA with bondDenom := ukex, bond := 3000000 }]

/-- KNOWN FINDING `C20/upsert-dapp-proposal/overwrites-total-bond` (books): recorded total 3000000, user bonds sum to 1000000 -/
theorem total_eq_sum_upsert_counterexample : ¬ C20_total_eq_sum_full := by
  intro h
  have := h opsUpsert { dappA with bondDenom := ukex, bond := 3000000 } (by decide) rfl
  revert this
  decide

example : (run g0 opsUpsert).dapps.map (·.bond) = [3000000] ∧ bondSum (run g0 opsUpsert).bonds A = 1000000 := by decide

/-! ## (c) TotalBond ≤ maximum dApp bond while bootstrapping -/

def C20_total_le_max_full : Prop := ∀ (ops : List Op), MaxInv (run g0 ops)

/-- KNOWN FINDING `C20/create-dapp/max-bond-unchecked`: `CreateDappProposal` accepts a bond above MaxDappBond -/
theorem total_le_max_creation_counterexample : ¬ C20_total_le_max_full := by
  intro h
  have := h [.create 0 1 false dappA ukex 2000001] { dappA with bondDenom := ukex, bond := 2000001 } (by decide) rfl
  revert this
  decide

example : (run g0 [.create 0 1 false dappA ukex 2000001]).dapps.map (·.bond) = [2000001] ∧ (g0.P.maxBond : Int) * million = 2000000 := by decide

/-- **(c)** when every creation stays within the maximum (and there is no UpsertDapp proposal): no bootstrapping dApp ever
exceeds the maximum — bonding checks it, reclaiming and end-blocks only lower or remove -/
theorem total_le_max_partial (s : St) (hI : MaxInv s) (ops : List Op) (hops : ∀ op ∈ ops, op.withinMax s.P = true) :
    ∀ d ∈ (run s ops).dapps, d.status = 0 → d.bond ≤ ((run s ops).P.maxBond : Int) * million := by
  have := max_run ops hI hops
  exact this

example : MaxInv g0 ∧ (∀ op ∈ opsBooks, op.withinMax g0.P = true) := ⟨fun d hd _ => by simp [g0, genesis] at hd, by decide⟩

/-- bonding up to the maximum is accepted, one unit more is rejected -/
example : (run g0 [.create 0 1 false dappA ukex 500000, .bond 2 A ukex 1500000, .bond 2 A ukex 1]).dapps.map (·.bond) = [2000000] := by decide

/-! ## (d) a dApp that misses its minimum bond refunds every bonder in full -/

/-- at expiry the end-block loop does exactly `FinishDappBootstrap` for a bootstrapping dApp -/
theorem endBlock_runs_finish (s : St) (t : Nat) (d : Dapp) (hst : d.status = 0) (hdue : d.creationTime + s.P.bondDuration ≤ t) :
    endBlockDapp s t d = finishBootstrap s t d := by
  unfold endBlockDapp
  rw [if_pos ⟨hst, hdue⟩]
  cases hf : finishBootstrap s t d with
  | error e => rfl
  | ok s1 => simp [postMint, liquidate, hst]

example : dappA.status = 0 ∧ dappA.creationTime + g0.P.bondDuration ≤ 100 := by decide

/-- **(d)** a bootstrapping dApp below its minimum: every bonder receives exactly its recorded bond, the module pays out
exactly `TotalBond`, the dApp and all its bond records are gone — provided the refund scan meets no record of another
dApp (`NoClash`) and no record with a non-positive amount, and the module holds the total (which (e) guarantees) -/
theorem refund_in_full {s : St} {t : Nat} {d : Dapp} (hB : BooksInv s) (hd : d ∈ s.dapps) (hst : d.status = 0)
    (hlow : d.bond < (s.P.minBond : Int) * million) (hnc : NoClash s.addr s.bonds d.name)
    (hpos : ∀ b ∈ s.bonds, b.dapp = d.name → 0 < b.amt) (hvd : validDenom d.bondDenom = true)
    (hfunds : d.bond ≤ s.bank.bal .l2 d.bondDenom) :
    ∃ s', finishBootstrap s t d = .ok s' ∧ findDapp s'.dapps d.name = none ∧ (∀ u, bondAmt s'.bonds d.name u = 0) ∧
      (∀ u, s'.bank.bal (.user u) d.bondDenom = s.bank.bal (.user u) d.bondDenom + bondAmt s.bonds d.name u) ∧
      s'.bank.bal .l2 d.bondDenom = s.bank.bal .l2 d.bondDenom - d.bond :=
  finish_refunds_in_full hB hd hst hlow hnc hpos hvd hfunds

def opsTwoBonders : List Op := [.create 0 1 false dappA ukex 500000, .bond 2 A ukex 70000, .reclaim 2 A ukex 20000]

example : (run g0 (opsTwoBonders ++ [.endBlock 100])).dapps.length = 0 ∧ (run g0 (opsTwoBonders ++ [.endBlock 100])).bonds.length = 0 ∧
    (run g0 (opsTwoBonders ++ [.endBlock 100])).bank.bal (.user 1) ukex = 10000000 ∧
    (run g0 (opsTwoBonders ++ [.endBlock 100])).bank.bal (.user 2) ukex = 10000000 ∧
    (run g0 (opsTwoBonders ++ [.endBlock 100])).bank.bal .l2 ukex = 0 ∧ (run g0 opsTwoBonders).bank.bal .l2 ukex = 550000 := by decide

/-- the full statement of (d) at the level of one end-block: every due, under-funded bootstrapping dApp is gone afterwards -/
def C20_refund_full : Prop :=
  ∀ (ops : List Op) (t : Nat), ∀ d ∈ (run g0 ops).dapps, d.status = 0 → d.creationTime + P0.bondDuration ≤ t →
    d.bond < (P0.minBond : Int) * million → findDapp (run g0 (ops ++ [.endBlock t])).dapps d.name = none

def opsZero : List Op := [.create 0 1 false dappA ukex 500000, .bond 2 A ukex 7, .reclaim 2 A ukex 7]

/-- KNOWN FINDING `C20/bootstrap-refund/zero-bond-record-blocks-refund`: user 2 bonds 7 and reclaims 7; the zero record
makes the bank refuse the refund loop, the expired dApp is never removed and user 1 is never refunded automatically -/
theorem refund_blocked_by_zero_record_counterexample : ¬ C20_refund_full := by
  intro h
  have := h opsZero 100 { dappA with bondDenom := ukex, bond := 500000 } (by decide) rfl (by decide) (by decide)
  revert this
  decide

example : (run g0 (opsZero ++ [.endBlock 100])).bank.bal (.user 1) ukex = 9500000 ∧
    (run g0 (opsZero ++ [.endBlock 100])).dapps.map (·.bond) = [500000] := by decide

/-- the full statement of (d) about the module: what it pays out at an end-block is exactly the recorded total of the
dApps it removes (a launch changes neither side) -/
def C20_refund_exact_full : Prop :=
  ∀ (ops : List Op) (t : Nat),
    (run g0 ops).bank.bal .l2 ukex - (run g0 (ops ++ [.endBlock t])).bank.bal .l2 ukex
      = nativeTotal (run g0 ops).dapps ukex - nativeTotal (run g0 (ops ++ [.endBlock t])).dapps ukex

/-- KNOWN FINDING `C20/bootstrap-refund/name-prefix-collision` (money): the refund of "x" (total 10000) pays out 610000:
user 2, who has no bond in "x", receives the 600000 it bonded to "xy"; the record in "xy" stays and is reclaimed a second
time out of the escrow of "z" (example below) -/
theorem refund_in_full_prefix_counterexample : ¬ C20_refund_exact_full := by
  intro h
  have := h (opsClash.take 3) 101
  revert this
  decide

example : (run g0 (opsClash ++ [.reclaim 2 XY ukex 600000])).bank.bal (.user 2) ukex = 10600000 ∧
    (run g0 (opsClash ++ [.reclaim 2 XY ukex 600000])).bank.bal .l2 ukex = 100000 ∧
    (run g0 (opsClash ++ [.reclaim 2 XY ukex 600000])).dapps.map (fun d => (d.name, d.bond)) = [(Z, 700000), (XY, 0)] := by decide

/-! ## (e) the recorded pool bond is always held by the module -/

/-- **(e)** message level: along every history inside the proven region the layer-2 module account holds at least the sum
of the recorded `TotalBond`s (native denom) of all dApps, launched ones included -/
theorem pool_bond_held (s : St) (hG : Good s) (hn : NativeNotLp s.P) (ops : List Op) (hs : SafeRun s ops) :
    nativeTotal (run s ops).dapps (run s ops).P.native ≤ (run s ops).bank.bal .l2 (run s ops).P.native :=
  (good_run ops hG hn hs).held

example : SafeRun g0 opsBooks ∧ nativeTotal (run g0 opsBooks).dapps ukex = 900000 ∧ (run g0 opsBooks).bank.bal .l2 ukex = 900000 :=
  ⟨by decide, by decide, by decide⟩

def C20_pool_bond_held_full : Prop :=
  ∀ (ops : List Op), nativeTotal (run g0 ops).dapps ukex ≤ (run g0 ops).bank.bal .l2 ukex

/-- KNOWN FINDING `C20/upsert-dapp-proposal/overwrites-total-bond`: the proposal records 3000000, the module holds 1000000 -/
theorem pool_bond_held_upsert_counterexample : ¬ C20_pool_bond_held_full := by
  intro h
  have := h opsUpsert
  revert this
  decide

example : nativeTotal (run g0 opsUpsert).dapps ukex = 3000000 ∧ (run g0 opsUpsert).bank.bal .l2 ukex = 1000000 := by decide

/-- KNOWN FINDING `C20/bootstrap-refund/name-prefix-collision` (escrow): after the refund of "x" the module holds 700000
against recorded bonds of 1300000 -/
theorem pool_bond_held_prefix_counterexample : ¬ C20_pool_bond_held_full := by
  intro h
  have := h opsClash
  revert this
  decide

example : nativeTotal (run g0 opsClash).dapps ukex = 1300000 ∧ (run g0 opsClash).bank.bal .l2 ukex = 700000 := by decide

/-- launch of dApp "a": bond 1000000, pool ratio 0.00001 ⇒ LP deposit 10, premint 5 (to user 1), postmint 5 ⇒ supply 20 -/
def opsLaunch : List Op := [.create 0 1 false (mkDapp A alp 10000000000000 5 5 0 (some 1)) ukex 1000000, .endBlock 101]
def sLaunched : St := run g0 opsLaunch

/-- **(e)** keeper level: the escrow also survives every sequence of keeper-level swaps, redemptions and conversions with a
non-negative fee amount and distinct source / target (`kopOk`) -/
theorem pool_bond_held_keeper (s : St) (hH : HeldK s) (hn : NativeNotLp s.P) (ops : List KOp) (hs : KSafeRun s ops) :
    nativeTotal (krun s ops).dapps (krun s ops).P.native ≤ (krun s ops).bank.bal .l2 (krun s ops).P.native :=
  (heldK_krun ops hH hn hs).2

example : KSafeRun sLaunched [.swap 2 A 0 ukex 1, .redeem 101 2 A 0 (lpOf alp) 1] ∧
    nativeTotal (krun sLaunched [.swap 2 A 0 ukex 1, .redeem 101 2 A 0 (lpOf alp) 1]).dapps ukex = 952381 ∧
    (krun sLaunched [.swap 2 A 0 ukex 1, .redeem 101 2 A 0 (lpOf alp) 1]).bank.bal .l2 ukex = 952381 :=
  ⟨by decide, by decide, by decide⟩

def C20_pool_bond_held_keeper_full : Prop :=
  ∀ (ops : List Op) (kops : List KOp), nativeTotal (krun (run g0 ops) kops).dapps ukex ≤ (krun (run g0 ops) kops).bank.bal .l2 ukex

def opsLaunch2 : List Op := [.create 0 1 false (mkDapp A alp 500000000000000000 100000 0 100000000000000000 (some 1)) ukex 1000000, .endBlock 101]

/-- KNOWN FINDING (latent) `C20/lp-keeper/convert-same-dapp-stale-record`: `ConvertDappPoolTx(a, a)` writes the swap from the
record read before the redeem: recorded 1073078, held 996154 -/
theorem pool_bond_held_convert_same_counterexample : ¬ C20_pool_bond_held_keeper_full := by
  intro h
  have := h opsLaunch2 [.convert 101 1 A A (lpOf alp) 50000]
  revert this
  decide

example : nativeTotal (krun (run g0 opsLaunch2) [.convert 101 1 A A (lpOf alp) 50000]).dapps ukex = 1073078 ∧
    (krun (run g0 opsLaunch2) [.convert 101 1 A A (lpOf alp) 50000]).bank.bal .l2 ukex = 996154 := by decide

/-! ## (f) the LP pool gives no free money -/

/-- **(f)** message level, handlers AS CODED (`if dapp.Name != "" { return ErrDappDoesNotExist }`): every swap, redemption and
conversion message is rejected in every state, for every dApp name, denom and amount … -/
theorem lp_msgs_always_rejected (s : St) (name lpDen : Bytes) :
    (∃ e, apply s (.msgRedeem name lpDen) = .error e) ∧ (∃ e, apply s (.msgSwap name) = .error e) ∧
    (∃ e, apply s (.msgConvert name) = .error e) :=
  ⟨msgRedeem_error s name lpDen, msgSwap_error s name, msgConvert_error s name⟩

def errOf {α : Type} : Except Err α → Option Err
  | .error e => some e
  | .ok _ => none

/-- on a launched dApp the answer is "dapp not found"; on a missing one slippage / invalid LP token -/
example : errOf (apply sLaunched (.msgSwap A)) = some .noDapp ∧ errOf (apply sLaunched (.msgSwap Z)) = some .slippage ∧
    errOf (apply sLaunched (.msgRedeem A (lpOf alp))) = some .noDapp ∧ errOf (apply sLaunched (.msgRedeem Z (lpOf alp))) = some .invalidLp := by decide

/-- … hence at the message level no sequence of LP operations moves a single coin: `no_free_money` holds trivially -/
theorem no_free_money_msgs (s : St) (ops : List Op)
    (hops : ∀ op ∈ ops, (∃ n l, op = .msgRedeem n l) ∨ (∃ n, op = .msgSwap n) ∨ (∃ n, op = .msgConvert n)) : run s ops = s := by
  induction ops generalizing s with
  | nil => rfl
  | cons op rest ih =>
    have hstep : step s op = s := by
      unfold step
      rcases hops op List.mem_cons_self with ⟨n, l, rfl⟩ | ⟨n, rfl⟩ | ⟨n, rfl⟩
      · obtain ⟨e, he⟩ := (lp_msgs_always_rejected s n l).1; rw [he]
      · obtain ⟨e, he⟩ := (lp_msgs_always_rejected s n []).2.1; rw [he]
      · obtain ⟨e, he⟩ := (lp_msgs_always_rejected s n []).2.2; rw [he]
    show run (step s op) rest = s
    rw [hstep]
    exact ih s (fun o ho => hops o (List.mem_cons_of_mem _ ho))

example : run sLaunched [.msgSwap A, .msgRedeem A (lpOf alp), .msgConvert A] = sLaunched :=
  no_free_money_msgs _ _ (by
    intro op hop
    simp only [List.mem_cons, List.mem_nil_iff, or_false] at hop
    rcases hop with rfl | rfl | rfl
    · exact Or.inr (Or.inl ⟨_, rfl⟩)
    · exact Or.inl ⟨_, _, rfl⟩
    · exact Or.inr (Or.inr ⟨_, rfl⟩))

/-- keeper level, full statement: a trader who runs keeper-level LP calls and ends with no fewer LP tokens has no more native coins -/
def C20_no_free_money_keeper_full : Prop :=
  ∀ (ops : List Op) (kops : List KOp) (u : Nat) (lp : Bytes),
    (run g0 ops).bank.bal (.user u) lp ≤ (krun (run g0 ops) kops).bank.bal (.user u) lp →
    (krun (run g0 ops) kops).bank.bal (.user u) ukex ≤ (run g0 ops).bank.bal (.user u) ukex

/-- KNOWN FINDING (latent) `C20/lp-keeper/rounding-free-money`: pool (1000000 ukex, LP supply 20). User 2 pays 1 ukex,
`S − ⌊TS/(T+1)⌋ = 1` LP token comes out (fair price 50000 ukex); redeeming it pays `T − ⌊TS/(S+1)⌋ = 47620` ukex.
Found by `#eval` search over small pools; both formulas round in the trader's favour -/
theorem keeper_free_money_counterexample : ¬ C20_no_free_money_keeper_full := by
  intro h
  have := h opsLaunch [.swap 2 A 0 ukex 1, .redeem 101 2 A 0 (lpOf alp) 1] 2 (lpOf alp) (by decide)
  revert this
  decide

example : sLaunched.bank.bal (.user 2) ukex = 10000000 ∧
    (krun sLaunched [.swap 2 A 0 ukex 1, .redeem 101 2 A 0 (lpOf alp) 1]).bank.bal (.user 2) ukex = 10047619 ∧
    (krun sLaunched [.swap 2 A 0 ukex 1, .redeem 101 2 A 0 (lpOf alp) 1]).bank.bal (.user 2) (lpOf alp) = 0 := by decide

/-- **(f)** keeper level, single round trip (swap `b` native coins in, redeem every LP token received, any non-negative
fees): if the swap handed out no more LP than the pre-swap price allows (`T·L ≤ b·S`, the excluded inputs are exactly the
ones where the integer rounding of the swap favours the trader), the trader gets back at most what it paid -/
theorem no_free_money_round_trip_partial {s s1 s2 : St} {t u : Nat} {d d1 : Dapp} {fee1 fee2 : Dec.D} {b got out : Int}
    (hT : 0 ≤ d.bond) (hS : 0 ≤ s.bank.supply (lpOf d.denom)) (hf1 : 0 ≤ fee1) (hf2 : 0 ≤ fee2)
    (hsw : kSwap s u d fee1 s.P.native b = .ok (s1, got))
    (hd1 : findDapp s1.dapps d.name = some d1)
    (hrd : kRedeem s1 t u d1 fee2 (lpOf d.denom) got = .ok (s2, out))
    (hfair : d.bond * (swapMath d.bond (s.bank.supply (lpOf d.denom)) b fee1).1 ≤ b * s.bank.supply (lpOf d.denom)) :
    out ≤ b := by
  obtain ⟨_, _, b1, b2, b3, hb1, hb2, hb3, hgot, rfl⟩ := kSwap_ok hsw
  obtain ⟨_, hbpos, _, _⟩ := send_some hb2
  obtain ⟨_, hgotpos, _, _⟩ := send_some hb3
  obtain ⟨rn, rb, _, rd⟩ := swapRecord_fields s.P d b
  -- the record the redeem works on
  have hd1' : d1 = swapRecord s.P d b := by
    have := findDapp_setDapp_self s.dapps (swapRecord s.P d b)
    rw [rn] at this
    simp only at hd1
    rw [this] at hd1
    exact (Option.some.inj hd1).symm
  subst hd1'
  -- the LP supply after the swap
  have hL0 := swapLp_nonneg fee1 hT hS hbpos
  have hfn : 0 ≤ (swapMath d.bond (s.bank.supply (lpOf d.denom)) b fee1).2 := fee_nonneg hL0 hf1
  have hsup : b3.supply (lpOf d.denom) = s.bank.supply (lpOf d.denom) - (swapMath d.bond (s.bank.supply (lpOf d.denom)) b fee1).2 := by
    rw [(send_supply hb3).1, (send_supply hb2).1]
    rcases collectFee_ok hb1 with ⟨hnp, rfl⟩ | ⟨_, hburn⟩
    · omega
    · obtain ⟨_, _, _, _, e, _⟩ := tkBurn_some hburn
      exact e
  obtain ⟨_, _, c1, c2, c3, _, _, _, hout, _⟩ := kRedeem_ok hrd
  simp only [rd, rb, hsup] at hout
  rw [hout, hgot]
  exact swap_redeem_no_gain hT hS hbpos hf1 hf2 (hgot ▸ hgotpos) hfair

/-- a round trip inside the proven region: pool (1000000 ukex, 20 LP), fee 1 %: 50000 ukex buy exactly 1 LP token (the fair
price), redeeming it returns 49500 -/
example : (match kapply sLaunched (.swap 2 A 10000000000000000 ukex 50000) with
    | some (.ok (s1, got)) =>
      (match kapply s1 (.redeem 101 2 A 10000000000000000 (lpOf alp) got) with
       | some (.ok (_, out)) => some (got, out)
       | _ => none)
    | _ => none) = some (1, 49500) ∧
    (1000000 : Int) * (swapMath 1000000 20 50000 10000000000000000).1 ≤ 50000 * 20 := by decide

/-! ## bonded verifiers: what comes back is what was locked (`Sekai.Layer2.joinVerifier / exitDapp / resetSession`) -/

/-- what the refund loop owes user `u`: the recorded bonds of its exiting operators -/
def owedTo (u : Nat) : List Oper → Int
  | [] => 0
  | o :: rest => (if o.status = 3 ∧ 0 < o.bonded ∧ o.user = u then o.bonded else 0) + owedTo u rest

def owedAll : List Oper → Int
  | [] => 0
  | o :: rest => (if o.status = 3 ∧ 0 < o.bonded then o.bonded else 0) + owedAll rest

/-- **the refund pays the RECORD**: after the refund loop every user holds its LP balance plus exactly the bonds recorded
on its exiting operators, the module holds that much less, and no other denomination moves - whatever the dApp's bond, LP
supply or pool look like by then -/
theorem refund_pays_recorded (lp : Bytes) (l : List Oper) (b b' : Bank) (h : refundExiting b lp l = some b') :
    (∀ u, b'.bal (.user u) lp = b.bal (.user u) lp + owedTo u l) ∧
    b'.bal .l2 lp = b.bal .l2 lp - owedAll l ∧
    (∀ a d, d ≠ lp → b'.bal a d = b.bal a d) ∧ b'.supply = b.supply := by
  induction l generalizing b with
  | nil =>
    simp only [refundExiting, Option.some.injEq] at h
    subst h
    exact ⟨fun u => by simp [owedTo], by simp [owedAll], fun _ _ _ => rfl, rfl⟩
  | cons o rest ih =>
    unfold refundExiting at h
    by_cases hc : o.status = 3 ∧ 0 < o.bonded
    · rw [if_pos hc] at h
      cases hs : b.send .l2 (.user o.user) lp o.bonded with
      | none => rw [hs] at h; cases h
      | some b1 =>
        rw [hs] at h
        obtain ⟨i1, i2, i3, i4⟩ := ih b1 h
        obtain ⟨s1, s2, s3⟩ := send_bal_src hs (by intro e; cases e)
        refine ⟨?_, ?_, ?_, ?_⟩
        · intro u
          rw [i1 u]
          by_cases hu : o.user = u
          · subst hu
            rw [s2]
            simp only [owedTo, hc.1, hc.2, and_self, if_true]
            omega
          · have : b1.bal (.user u) lp = b.bal (.user u) lp :=
              s3 (.user u) (by intro e; cases e) (by intro e; cases e; exact hu rfl)
            rw [this]
            simp only [owedTo, hu, and_false, if_false]
            omega
        · rw [i2, s1]
          simp only [owedAll, hc.1, hc.2, and_self, if_true]
          omega
        · intro a d hd
          rw [i3 a d hd]
          exact send_other_denom hs a d hd
        · rw [i4]; exact (send_supply hs).1
    · rw [if_neg hc] at h
      obtain ⟨i1, i2, i3, i4⟩ := ih b h
      refine ⟨?_, ?_, i3, i4⟩
      · intro u
        rw [i1 u]
        have : (if o.status = 3 ∧ 0 < o.bonded ∧ o.user = u then o.bonded else 0) = 0 := by
          rw [if_neg]; intro hh; exact hc ⟨hh.1, hh.2.1⟩
        simp only [owedTo, this]; omega
      · rw [i2]
        simp only [owedAll, if_neg hc]; omega

/-- **joining locks what is recorded**: a successful `MsgJoinDappVerifierWithBond` records the amount that left the
account (the lock computed from the dApp as it is NOW) and moves exactly that amount to the module -/
theorem join_locks_recorded (s s' : St) (ops ops' : List Oper) (u : Nat) (name : Bytes) (vbond : Dec.D)
    (h : joinVerifier s ops u name vbond = .ok (s', ops')) :
    ∃ d o, findDapp s.dapps name = some d ∧ d.enableBondVerifiers = true ∧
      findOper ops' name u = some o ∧ o.verifier = true ∧ o.bonded = verifierLp d vbond ∧ 0 ≤ o.bonded ∧
      s'.bank.bal (.user u) (lpOf d.denom) = s.bank.bal (.user u) (lpOf d.denom) - o.bonded ∧
      s'.bank.bal .l2 (lpOf d.denom) = s.bank.bal .l2 (lpOf d.denom) + o.bonded ∧ s'.dapps = s.dapps := by
  unfold joinVerifier at h
  cases hd : findDapp s.dapps name with
  | none => rw [hd] at h; cases h
  | some d =>
    rw [hd] at h
    simp only at h
    by_cases he : d.enableBondVerifiers = false
    · rw [if_pos he] at h; cases h
    · rw [if_neg he] at h
      by_cases ha : alreadyVerifier ops name u = true
      · rw [if_pos ha] at h; cases h
      · rw [if_neg ha] at h
        by_cases hneg : verifierLp d vbond < 0
        · rw [if_pos hneg] at h; cases h
        · rw [if_neg hneg] at h
          cases hl : lockLp s.bank u (lpOf d.denom) (verifierLp d vbond) with
          | none => rw [hl] at h; cases h
          | some b =>
            rw [hl] at h
            simp only [Except.ok.injEq, Prod.mk.injEq] at h
            obtain ⟨rfl, rfl⟩ := h
            have hrec : (joinRecord ops name u (verifierLp d vbond)).dapp = name ∧
                (joinRecord ops name u (verifierLp d vbond)).user = u ∧
                (joinRecord ops name u (verifierLp d vbond)).verifier = true ∧
                (joinRecord ops name u (verifierLp d vbond)).bonded = verifierLp d vbond := by
              unfold joinRecord
              cases hp : findOper ops name u with
              | none => exact ⟨rfl, rfl, rfl, rfl⟩
              | some p =>
                have hpd : p.dapp = name ∧ p.user = u := by
                  have := List.find?_some hp
                  simpa using this
                exact ⟨hpd.1, hpd.2, rfl, rfl⟩
            have hfind : findOper (setOper ops (joinRecord ops name u (verifierLp d vbond))) name u =
                some (joinRecord ops name u (verifierLp d vbond)) := by
              simp [findOper, setOper, hrec.1, hrec.2.1]
            have hen : d.enableBondVerifiers = true := by cases hb : d.enableBondVerifiers <;> simp_all
            refine ⟨d, _, rfl, hen, hfind, hrec.2.2.1, hrec.2.2.2, by rw [hrec.2.2.2]; omega, ?_, ?_, rfl⟩
            · rw [hrec.2.2.2]
              unfold lockLp at hl
              by_cases hpos : 0 < verifierLp d vbond
              · rw [if_pos hpos] at hl
                exact (send_bal_src hl (by intro e; cases e)).1
              · rw [if_neg hpos] at hl; cases hl
                have : verifierLp d vbond = 0 := by omega
                rw [this]; simp
            · rw [hrec.2.2.2]
              unfold lockLp at hl
              by_cases hpos : 0 < verifierLp d vbond
              · rw [if_pos hpos] at hl
                exact (send_bal_src hl (by intro e; cases e)).2.1
              · rw [if_neg hpos] at hl; cases hl
                have : verifierLp d vbond = 0 := by omega
                rw [this]; simp

/-- non-vacuity, and the round trip the seeded change C20-r7 broke: a verifier locks 0.1 % of an LP supply of 3000000,
the dApp's bond (hence the LP supply of the lock formula) is then raised twentyfold, the verifier exits and the session is
reset: it gets back the 3000 it locked, not the 0.1 % of the new supply -/
example :
    let o : Oper := { dapp := A, user := 2, executor := false, verifier := true, status := 3, bonded := 3000 }
    let b : Bank := { bal := fun a d => if a = Acct.l2 ∧ d = lpOf alp then 5000 else 0, supply := fun _ => 0, tokReg := fun _ => false }
    ((refundExiting b (lpOf alp) [o]).map fun b' => (b'.bal (.user 2) (lpOf alp), b'.bal .l2 (lpOf alp))) = some (3000, 2000) := by
  decide

/-! ### Key spaces of the stores this model keeps in separate maps (table `Gen.Keys`)

The model keeps each record kind of a module in a field of its own; the module keeps them in ONE store under byte prefixes.
No prefix extends another (checked on the regenerated table), so by `Sekai.Keys.keys_of_different_kinds_differ` a key of one
kind is never a key of another kind. -/

theorem layer2_key_spaces_disjoint : Sekai.Keys.disjoint Sekai.Gen.Keys.stores "layer2" = true := by decide +kernel

end Sekai.Props.C20
