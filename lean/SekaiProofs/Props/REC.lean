import SekaiProofs.Lemmas.RecoveryRegistry
import Sekai.Gen.Keys
import SekaiProofs.Lemmas.Keys
/-! # REC — the x/recovery clauses of C03, C04, C06 and C16

Theorems about `Sekai.Recovery` (the executable mirror of `x/recovery/keeper/msg_server.go`, `recovery.go`, `rewards.go`
and of `AllocateTokensToValidator` in the distributor), for ALL states / messages / operation lists.

* C03 — "an address rotation backed by the owner's recovery secret or, for a validator that issued recovery tokens, by a
  holder of AT LEAST HALF of them — and those pay only the recorded beneficiary": `rotate_by_holder_iff`,
  `rotate_by_holder_rejects_below_half`, `rotate_by_holder_moves_to_beneficiary`, `rotate_by_secret_requires_proof`,
  `rotate_by_secret_others_untouched`, `non_signer_frame`.
* C04 — backing: `backing_invariant`, `rr_supply_eq_record_partial`, `burn_le_pro_rata`, `only_issue_burn_change_supply`.
* C16 — `records_moved_unchanged`, `records_of_others_untouched_partial`.
* C06 — `validator_index_consistent`, `rotation_keeps_block_safe_partial`.

Where the code violates a clause the full statement is a `def … : Prop`, refuted from a closed witness
(`…_counterexample`, replayed on the real code by `harness/recovery.go` / `recovery_l2.go`), and the `…_partial` theorem
carries the excluded inputs as an explicit hypothesis. -/
namespace Sekai.Props.REC
open Sekai.Recovery

/-! ## rotation by a holder of half of the recovery tokens (C03) -/

/-- the registry / proposal part of a rotation `old → new` cannot panic: no stored proposal is corrupt, the index of the
old address is not dangling and no other address holds the same value under a unique key -/
def Clean (S : State) (old new : Addr) : Prop :=
  S.corrupt = false ∧ ∃ R, moveIdentity old new S.reg = .ok R

/-- ACCEPTED ⟹ the token exists, the signer holds at least half of the bank supply (`2·held ≥ supply`), the target was
never rotated away from — for every state and message, without side conditions -/
theorem rotate_by_holder_only_if {S S' : State} {m : HolderMsg} (h : rotateByHolder S m = .ok S') :
    ∃ tok, S.token m.addr = some tok ∧ S.supply tok.denom ≤ 2 * S.bal m.holder tok.denom ∧ S.rotated m.recovery = none := by
  obtain ⟨tok, _, _, ht, hth, hr, _, _, _⟩ := rotateByHolder_ok h
  exact ⟨tok, ht, by omega, hr⟩

/-- the decision of `RotateValidatorByHalfRRTokenHolder`, exactly: accepted IFF token ∧ 2·held ≥ supply ∧ no rotation
history at the target (when the registry part cannot panic) -/
theorem rotate_by_holder_iff (S : State) (m : HolderMsg) (hc : Clean S m.addr m.recovery) :
    (∃ S', rotateByHolder S m = .ok S') ↔
      ∃ tok, S.token m.addr = some tok ∧ S.supply tok.denom ≤ 2 * S.bal m.holder tok.denom ∧ S.rotated m.recovery = none := by
  constructor
  · rintro ⟨S', h⟩; exact rotate_by_holder_only_if h
  · rintro ⟨tok, ht, hth, hr⟩
    obtain ⟨hcor, R, hR⟩ := hc
    unfold rotateByHolder
    rw [ht]
    simp only
    rw [if_neg (by omega), hr]
    simp only [Option.isSome_none, Bool.false_eq_true, if_false]
    unfold holderTail
    rw [hR]
    simp only [moveProposals, hcor, Bool.false_eq_true, if_false]
    exact ⟨_, rfl⟩

/-- below half is REJECTED with `ErrNotEnoughRRTokenAmountForRotation`, whatever else holds -/
theorem rotate_by_holder_rejects_below_half {S : State} {m : HolderMsg} {tok : Token} (ht : S.token m.addr = some tok)
    (hlt : 2 * S.bal m.holder tok.denom < S.supply tok.denom) : rotateByHolder S m = .error .notEnoughRR := by
  unfold rotateByHolder
  rw [ht]
  simp only
  rw [if_pos hlt]

/-- the boundary: with an ODD supply, holding `floor(supply/2)` is not enough -/
theorem rotate_by_holder_floor_of_odd_rejected {S : State} {m : HolderMsg} {tok : Token} (ht : S.token m.addr = some tok)
    (hodd : S.supply tok.denom % 2 = 1) (hheld : S.bal m.holder tok.denom = S.supply tok.denom / 2) :
    rotateByHolder S m = .error .notEnoughRR :=
  rotate_by_holder_rejects_below_half ht (by omega)

/-- … and `ceil(supply/2)` is enough (the threshold test passes) -/
theorem rotate_by_holder_ceil_passes {S : State} {m : HolderMsg} {tok : Token}
    (hheld : S.bal m.holder tok.denom = (S.supply tok.denom + 1) / 2) :
    ¬ (2 * S.bal m.holder tok.denom < S.supply tok.denom) := by omega

/-- what an accepted holder rotation may touch: NO coin moves at all; claims, validator records, token records, secrets,
holder rewards of every address other than the named validator and the beneficiary are unchanged -/
theorem rotate_by_holder_others_untouched {S S' : State} {m : HolderMsg} (h : rotateByHolder S m = .ok S') :
    S'.bal = S.bal ∧ S'.supply = S.supply ∧ S'.secret = S.secret ∧ S'.hRewards = S.hRewards ∧
    ∀ a, a ≠ m.addr → a ≠ m.recovery →
      (∀ k s, S'.claims k s a = S.claims k s a) ∧ S'.vals a = S.vals a ∧ S'.token a = S.token a := by
  have hf := rotateByHolder_frame h
  obtain ⟨tok, R, c, _, _, _, _, _, rfl⟩ := rotateByHolder_ok h
  refine ⟨?_, hf.supply, hf.secret, hf.hRewards, fun a ha hb => ⟨fun k s => hf.claims k s a ha hb, hf.vals a ha hb, hf.token a ha hb⟩⟩
  show (holderMoves1 m.addr m.recovery tok (withRotation S m.addr m.recovery)).bal = _
  rw [holderMoves1_bal]; rfl

/-- … and everything of the named validator arrives at `msg.Recovery`, payload unchanged: the token record, the
validator record (with its consensus-address index entry), councilor, actor, votes, staking pool, non-zero delegator
rewards, delegator flags of existing pools, the compound info -/
theorem rotate_by_holder_moves_to_beneficiary {S S' : State} {m : HolderMsg} (h : rotateByHolder S m = .ok S') :
    S'.token m.recovery = S.token m.addr ∧
    (∀ v, S.vals m.addr = some v → S'.vals m.recovery = some v ∧ S'.byCons v.cons = some m.recovery) ∧
    (∀ s v, S.claims .councilor s m.addr = some v → S'.claims .councilor s m.recovery = some v) ∧
    (∀ s v, S.claims .actor s m.addr = some v → S'.claims .actor s m.recovery = some v) ∧
    (∀ s v, S.claims .vote s m.addr = some v → S'.claims .vote s m.recovery = some v) ∧
    (∀ v, S.claims .pool 0 m.addr = some v → S'.claims .pool 0 m.recovery = some v) ∧
    (∀ v, S.claims .rewards 0 m.addr = some v → v ≠ 0 → S'.claims .rewards 0 m.recovery = some v) ∧
    (∀ s v, S.claims .delegator s m.addr = some v → S.poolIds.contains s = true → S'.claims .delegator s m.recovery = some v) ∧
    S'.claims .compound 0 m.recovery = some ((S.claims .compound 0 m.addr).getD 0) := by
  obtain ⟨tok, R, c, ht, _, _, _, _, rfl⟩ := rotateByHolder_ok h
  -- abbreviations
  generalize hS1 : withRotation S m.addr m.recovery = S1
  have c1 : S1.claims = S.claims := by subst hS1; rfl
  have p1 : S1.poolIds = S.poolIds := by subst hS1; rfl
  have v1 : S1.vals = S.vals := by subst hS1; rfl
  refine ⟨?_, ?_, ?_, ?_, ?_, ?_, ?_, ?_, ?_⟩
  · show (holderMoves1 m.addr m.recovery tok S1).token m.recovery = _
    rw [holderMoves1_token, ht]; simp [moveToken]
  · intro v hv
    have hv1 : S1.vals m.addr = some v := by rw [v1]; exact hv
    constructor
    · show (holderMoves1 m.addr m.recovery tok S1).vals m.recovery = _
      rw [holderMoves1_vals]; exact moveVal_vals_new hv1
    · show (holderMoves1 m.addr m.recovery tok S1).byCons v.cons = _
      unfold holderMoves1
      show (moveVal m.addr m.recovery _).byCons v.cons = _
      apply moveVal_byCons_new
      rw [movePool_vals, moveRewards_vals]; exact hv1
  · intro s v hv
    show (moveClaim .vote m.addr m.recovery (moveClaim .actor m.addr m.recovery _)).claims .councilor s m.recovery = _
    rw [moveClaim_claims_ne (by decide), moveClaim_claims_ne (by decide)]
    show (holderMoves1 m.addr m.recovery tok S1).claims .councilor s m.recovery = _
    unfold holderMoves1
    apply moveClaim_claims_new
    rw [moveVal_claims, movePool_claims_ne (by decide), moveRewards_claims_ne (by decide), moveDelegators_claims_ne (by decide),
      moveCompound_claims_ne (by decide)]
    show S1.claims .councilor s m.addr = _
    rw [c1]; exact hv
  · intro s v hv
    show (moveClaim .vote m.addr m.recovery (moveClaim .actor m.addr m.recovery _)).claims .actor s m.recovery = _
    rw [moveClaim_claims_ne (by decide)]
    apply moveClaim_claims_new
    show (holderMoves1 m.addr m.recovery tok S1).claims .actor s m.addr = _
    unfold holderMoves1
    rw [moveClaim_claims_ne (by decide), moveVal_claims, movePool_claims_ne (by decide), moveRewards_claims_ne (by decide),
      moveDelegators_claims_ne (by decide), moveCompound_claims_ne (by decide)]
    show S1.claims .actor s m.addr = _
    rw [c1]; exact hv
  · intro s v hv
    apply moveClaim_claims_new
    rw [moveClaim_claims_ne (by decide)]
    show (holderMoves1 m.addr m.recovery tok S1).claims .vote s m.addr = _
    unfold holderMoves1
    rw [moveClaim_claims_ne (by decide), moveVal_claims, movePool_claims_ne (by decide), moveRewards_claims_ne (by decide),
      moveDelegators_claims_ne (by decide), moveCompound_claims_ne (by decide)]
    show S1.claims .vote s m.addr = _
    rw [c1]; exact hv
  · intro v hv
    show (moveClaim .vote m.addr m.recovery (moveClaim .actor m.addr m.recovery _)).claims .pool 0 m.recovery = _
    rw [moveClaim_claims_ne (by decide), moveClaim_claims_ne (by decide)]
    show (holderMoves1 m.addr m.recovery tok S1).claims .pool 0 m.recovery = _
    unfold holderMoves1
    rw [moveClaim_claims_ne (by decide), moveVal_claims]
    apply movePool_claims_new
    rw [moveRewards_claims_ne (by decide), moveDelegators_claims_ne (by decide), moveCompound_claims_ne (by decide)]
    show S1.claims .pool 0 m.addr = _
    rw [c1]; exact hv
  · intro v hv hv0
    show (moveClaim .vote m.addr m.recovery (moveClaim .actor m.addr m.recovery _)).claims .rewards 0 m.recovery = _
    rw [moveClaim_claims_ne (by decide), moveClaim_claims_ne (by decide)]
    show (holderMoves1 m.addr m.recovery tok S1).claims .rewards 0 m.recovery = _
    unfold holderMoves1
    rw [moveClaim_claims_ne (by decide), moveVal_claims, movePool_claims_ne (by decide)]
    apply moveRewards_claims_new _ hv0
    rw [moveDelegators_claims_ne (by decide), moveCompound_claims_ne (by decide)]
    show S1.claims .rewards 0 m.addr = _
    rw [c1]; exact hv
  · intro s v hv hp
    show (moveClaim .vote m.addr m.recovery (moveClaim .actor m.addr m.recovery _)).claims .delegator s m.recovery = _
    rw [moveClaim_claims_ne (by decide), moveClaim_claims_ne (by decide)]
    show (holderMoves1 m.addr m.recovery tok S1).claims .delegator s m.recovery = _
    unfold holderMoves1
    rw [moveClaim_claims_ne (by decide), moveVal_claims, movePool_claims_ne (by decide), moveRewards_claims_ne (by decide)]
    apply moveDelegators_claims_new
    · rw [moveCompound_claims_ne (by decide)]
      show S1.claims .delegator s m.addr = _
      rw [c1]; exact hv
    · show S1.poolIds.contains s = true
      rw [p1]; exact hp
  · show (moveClaim .vote m.addr m.recovery (moveClaim .actor m.addr m.recovery _)).claims .compound 0 m.recovery = _
    rw [moveClaim_claims_ne (by decide), moveClaim_claims_ne (by decide)]
    show (holderMoves1 m.addr m.recovery tok S1).claims .compound 0 m.recovery = _
    unfold holderMoves1
    rw [moveClaim_claims_ne (by decide), moveVal_claims, movePool_claims_ne (by decide), moveRewards_claims_ne (by decide),
      moveDelegators_claims_ne (by decide)]
    have := moveCompound_claims_new m.addr m.recovery (moveToken m.addr m.recovery tok S1)
    rw [this]
    show some ((S1.claims .compound 0 m.addr).getD 0) = _
    rw [c1]

/-! ## rotation by the recovery secret (C03) -/

/-- `RotateRecoveryAddress` succeeds ONLY with the proof that matches the stored challenge — every state, every message -/
theorem rotate_by_secret_requires_proof {S S' : State} {m : SecretMsg} (h : rotateBySecret S m = .ok S') :
    ∃ ch, S.secret m.addr = some ch ∧ m.proof = some ch := by
  obtain ⟨_, ch, _, _, _, _, hs, hp, _⟩ := rotateBySecret_ok h
  exact ⟨ch, hs, hp⟩

/-- without a recovery record, or with any other proof (wrong secret, not hex), the rotation is rejected -/
theorem rotate_by_secret_rejects_other_proofs {S : State} {m : SecretMsg}
    (hbad : ∀ ch, S.secret m.addr = some ch → m.proof ≠ some ch) : ∀ S', rotateBySecret S m ≠ .ok S' := by
  intro S' h
  obtain ⟨ch, hs, hp⟩ := rotate_by_secret_requires_proof h
  exact hbad ch hs hp

/-- the same holds for replacing an existing secret: only with the proof of the OLD one -/
theorem replace_secret_requires_proof {S S' : State} {a : Addr} {c : Nat} {p : Option Nat} (h : registerSecret S a c p = .ok S')
    {ch : Nat} (hs : S.secret a = some ch) : p = some ch :=
  (registerSecret_ok h).2.1 ch hs

/-- nobody else's coins or claims change, except that the fee payer pays exactly the fee (to the module account) -/
theorem rotate_by_secret_others_untouched {S S' : State} {m : SecretMsg} (h : rotateBySecret S m = .ok S') :
    S'.supply = S.supply ∧ S'.secret = S.secret ∧ S'.hRewards = S.hRewards ∧
    ∀ a, a ≠ m.addr → a ≠ m.recovery → a ≠ modAcc →
      (∀ d, S'.bal a d = if a = m.feePayer ∧ d = ukex then S.bal a d - recoveryFee else S.bal a d) ∧
      (∀ k s, S'.claims k s a = S.claims k s a) ∧ S'.vals a = S.vals a ∧ S'.token a = S.token a := by
  obtain ⟨S1, hs, hf⟩ := rotateBySecret_frame h
  have sf := send_frame hs
  refine ⟨hf.supply.trans sf.supply, hf.secret.trans sf.secret, hf.hRewards.trans sf.hRewards, ?_⟩
  intro a ha hb hm
  refine ⟨?_, ?_, ?_, ?_⟩
  · intro d
    rw [hf.bal a d ha hb]
    show S1.bal a d = _
    rw [send_bal hs]
    by_cases hd : d = ukex
    · subst hd
      simp only [if_true]
      by_cases hp : m.feePayer = modAcc
      · simp [hp]
        intro e; exact absurd e hm
      · by_cases hap : a = m.feePayer
        · simp [hap, hp]
        · simp [hap, hp, hm]
    · simp [hd]
  · intro k s; rw [hf.claims k s a ha hb]; show S1.claims k s a = _; rw [sf.claims]
  · rw [hf.vals a ha hb]; show S1.vals a = _; rw [sf.vals]
  · rw [hf.token a ha hb]; show S1.token a = _; rw [sf.token]

/-! ## the non-signer frame of every recovery operation (C03) -/

/-- the accounts an operation may change: signer(s), the rotated address, the beneficiary, the module / fee-collector
accounts it pays through; for a reward allocation also the registered holders, who can only gain -/
def touched (S : State) : Op → List Addr
  | .register a _ _ => [a]
  | .rotateSecret m => [m.feePayer, m.addr, m.recovery, modAcc]
  | .rotateHolder m => [m.addr, m.recovery]
  | .issue a => [a, modAcc]
  | .burn a _ _ => [a, modAcc]
  | .claim a => [a, modAcc]
  | .regHolder _ => []
  | .allocate v _ => v :: feeAcc :: modAcc :: (match S.token v with | some tok => holdersOf S tok.denom | none => [])
  | .xfer a b _ _ => [a, b]

/-- coins, recorded claims (all fifteen stores), validator record, recovery secret and holder rewards of one address -/
def SameView (a : Addr) (S S' : State) : Prop :=
  (∀ d, S'.bal a d = S.bal a d) ∧ (∀ k s, S'.claims k s a = S.claims k s a) ∧ S'.vals a = S.vals a ∧
  S'.secret a = S.secret a ∧ S'.hRewards a = S.hRewards a

theorem SameView.refl (a : Addr) (S : State) : SameView a S S := ⟨fun _ => rfl, fun _ _ => rfl, rfl, rfl, rfl⟩

theorem sameView_of_send {S S' : State} {src dst : Addr} {d : Denom} {amt : Int} (h : send S src dst d amt = .ok S') {a : Addr}
    (h1 : a ≠ src) (h2 : a ≠ dst) : SameView a S S' := by
  have sf := send_frame h
  exact ⟨fun d' => send_bal_other h a d' h1 h2, fun k s => by rw [sf.claims], by rw [sf.vals], by rw [sf.secret], by rw [sf.hRewards]⟩

theorem SameView.trans {a : Addr} {S S1 S2 : State} (h1 : SameView a S S1) (h2 : SameView a S1 S2) : SameView a S S2 :=
  ⟨fun d => (h2.1 d).trans (h1.1 d), fun k s => (h2.2.1 k s).trans (h1.2.1 k s), h2.2.2.1.trans h1.2.2.1,
   h2.2.2.2.1.trans h1.2.2.2.1, h2.2.2.2.2.trans h1.2.2.2.2⟩

/-- EVERY recovery operation (accepted or rejected) leaves the coins and the recorded claims of every account other than
the signer, the rotated address and the beneficiary exactly as they were -/
theorem non_signer_frame (S : State) (op : Op) (a : Addr) (ha : a ∉ touched S op) : SameView a S (step S op) := by
  unfold step
  cases hap : apply S op with
  | error e => exact SameView.refl a S
  | ok S' =>
    simp only
    cases op with
    | register b c p =>
      obtain ⟨_, _, rfl⟩ := registerSecret_ok hap
      have hne : a ≠ b := by intro e; exact ha (by simp [touched, e])
      exact ⟨fun _ => rfl, fun _ _ => rfl, rfl, by simp [hne], rfl⟩
    | rotateSecret m =>
      have h1 : a ≠ m.feePayer := by intro e; exact ha (by simp [touched, e])
      have h2 : a ≠ m.addr := by intro e; exact ha (by simp [touched, e])
      have h3 : a ≠ m.recovery := by intro e; exact ha (by simp [touched, e])
      have h4 : a ≠ modAcc := by intro e; exact ha (by simp [touched, e])
      obtain ⟨hsup, hsec, hrw, hall⟩ := rotate_by_secret_others_untouched hap
      obtain ⟨hb, hc, hv, _⟩ := hall a h2 h3 h4
      refine ⟨?_, hc, hv, by rw [hsec], by rw [hrw]⟩
      intro d; rw [hb d]; simp [h1]
    | rotateHolder m =>
      have h2 : a ≠ m.addr := by intro e; exact ha (by simp [touched, e])
      have h3 : a ≠ m.recovery := by intro e; exact ha (by simp [touched, e])
      obtain ⟨hb, _, hsec, hrw, hall⟩ := rotate_by_holder_others_untouched hap
      obtain ⟨hc, hv, _⟩ := hall a h2 h3
      exact ⟨fun d => by rw [hb], hc, hv, by rw [hsec], by rw [hrw]⟩
    | issue b =>
      have h1 : a ≠ b := by intro e; exact ha (by simp [touched, e])
      have h2 : a ≠ modAcc := by intro e; exact ha (by simp [touched, e])
      obtain ⟨S1, S3, _, hs1, _, hs3, rfl⟩ := issue_ok hap
      have v1 := sameView_of_send hs1 h1 h2
      have v2 : SameView a S1 (mint S1 (rrDenom S b) issueAmount) := by
        refine ⟨fun d => ?_, fun _ _ => rfl, rfl, rfl, rfl⟩
        simp [mint, setBal, h2]
      have v3 := sameView_of_send hs3 h2 h1
      exact (v1.trans (v2.trans v3)).trans ⟨fun _ => rfl, fun _ _ => rfl, rfl, rfl, rfl⟩
    | burn b d n =>
      have h1 : a ≠ b := by intro e; exact ha (by simp [touched, e])
      have h2 : a ≠ modAcc := by intro e; exact ha (by simp [touched, e])
      obtain ⟨owner, tok, S1, S2, S3, _, _, _, hp, hs2, hb3, _, rfl⟩ := burn_ok hap
      have v1 : SameView a S S1 := by
        rcases payRedeem_ok hp with ⟨_, rfl⟩ | ⟨_, hs⟩
        · exact SameView.refl _ _
        · exact sameView_of_send hs h2 h1
      have v2 := sameView_of_send hs2 h1 h2
      have v3 : SameView a S2 S3 := by
        obtain ⟨_, _, rfl⟩ := burnCoins_ok hb3
        refine ⟨fun d' => ?_, fun _ _ => rfl, rfl, rfl, rfl⟩
        simp [setBal, h2]
      have v4 : SameView a S3 (burnRecord S3 owner tok n (redeemOf tok n)) := by
        unfold burnRecord; split <;> exact ⟨fun _ => rfl, fun _ _ => rfl, rfl, rfl, rfl⟩
      exact ((v1.trans v2).trans v3).trans v4
    | claim b =>
      have h1 : a ≠ b := by intro e; exact ha (by simp [touched, e])
      have h2 : a ≠ modAcc := by intro e; exact ha (by simp [touched, e])
      obtain ⟨S1, hs, rfl⟩ := claim_ok hap
      have v1 := sameView_of_send hs h2 h1
      refine v1.trans ⟨fun _ => rfl, fun _ _ => rfl, rfl, rfl, ?_⟩
      simp [h1]
    | regHolder b =>
      have : S' = regLoop S b S.order := by
        simp only [apply, registerHolder] at hap; cases hap; rfl
      obtain ⟨hs, e⟩ := regLoop_frame S b S.order
      rw [this, e]
      exact ⟨fun _ => rfl, fun _ _ => rfl, rfl, rfl, rfl⟩
    | allocate v n =>
      have h1 : a ≠ v := by intro e; exact ha (by simp [touched, e])
      have h2 : a ≠ feeAcc := by intro e; exact ha (by simp [touched, e])
      have h3 : a ≠ modAcc := by intro e; exact ha (by simp [touched, e])
      rcases allocate_ok hap with ⟨_, hs⟩ | ⟨tok, S1, ht, hs, hi⟩
      · exact sameView_of_send hs h2 h1
      · have v1 := sameView_of_send hs h2 h3
        obtain ⟨_, rfl⟩ := increaseUnderlying_ok hi
        refine v1.trans ⟨fun _ => rfl, fun _ _ => rfl, rfl, rfl, ?_⟩
        apply creditAll_other
        -- the holders the prefix scan returns after unregistering are among those it returned before
        intro hmem
        apply ha
        simp only [touched, ht, List.mem_cons]
        right; right; right
        have sf := send_frame hs
        unfold holdersOf at hmem ⊢
        obtain ⟨x, hx, hxa⟩ := List.mem_map.mp hmem
        apply List.mem_map.mpr
        refine ⟨x, ?_, hxa⟩
        have hx' := List.mem_filter.mp hx
        apply List.mem_filter.mpr
        refine ⟨?_, hx'.2⟩
        have : x ∈ S1.holders := (List.mem_filter.mp hx'.1).1
        rw [sf.holders] at this; exact this
    | xfer b c d n =>
      have h1 : a ≠ b := by intro e; exact ha (by simp [touched, e])
      have h2 : a ≠ c := by intro e; exact ha (by simp [touched, e])
      exact sameView_of_send hap h1 h2

/-! ## closed states for the examples and the counterexamples -/

/-- six funded accounts `0..5` (10¹² ukex each) with x/auth accounts; `0` and `1` are validators (consensus keys 0, 1) with
monikers `alpha` / `Bravo`, staking pools 1 / 2 and unclaimed delegator rewards 700 / 900; account `2` has the moniker
`carol` (verified by 1); accounts `3`, `4`, `5` have no moniker; addresses `6`, `7`, … are fresh -/
def s0 : State :=
  { bal := fun a d => if d = "ukex" ∧ a < 6 then 1000000000000 else 0,
    supply := fun d => if d = "ukex" then 6000000000000 else 0,
    denoms := ["ukex"],
    hasAcc := fun a => decide (a < 6),
    vals := fun a => if a = 0 then some ⟨0, 1⟩ else if a = 1 then some ⟨1, 1⟩ else none,
    byCons := fun c => if c = 0 then some 0 else if c = 1 then some 1 else none,
    reg := { recs := [⟨1, 0, "moniker", "alpha", 7, []⟩, ⟨2, 1, "moniker", "Bravo", 7, []⟩, ⟨3, 2, "moniker", "carol", 7, [1]⟩],
             idx := [⟨0, "moniker", 1⟩, ⟨1, "moniker", 2⟩, ⟨2, "moniker", 3⟩] },
    claims := fun k s a => if k = .rewards ∧ s = 0 ∧ a = 0 then some 700 else if k = .rewards ∧ s = 0 ∧ a = 1 then some 900
      else if k = .pool ∧ s = 0 ∧ a = 0 then some 1 else if k = .pool ∧ s = 0 ∧ a = 1 then some 2 else none,
    poolIds := [1, 2],
    order := [0, 1, 2, 3, 4, 5, 6, 7] }

/-- validator 0 issued its tokens and gave half of them to account 2 -/
def sIssued : State := run s0 [.issue 0, .xfer 0 2 "rr/alpha" 5000000000000]

/-! ### non-vacuity of the rotation theorems -/

/-- the holder of exactly half rotates validator 0 to the fresh address 6: accepted, the validator record, its index
entry, the pool, the rewards, the moniker record and the token record are at 6 -/
example : ∃ S', rotateByHolder sIssued ⟨2, 0, 6⟩ = .ok S' ∧ S'.vals 6 = some ⟨0, 1⟩ ∧ S'.byCons 0 = some 6 ∧ S'.vals 0 = none ∧
    S'.claims .pool 0 6 = some 1 ∧ S'.claims .rewards 0 6 = some 700 ∧ S'.claims .rewards 0 1 = some 900 ∧
    (S'.token 6).map (·.denom) = some "rr/alpha" ∧ getRec S'.reg 1 = some ⟨1, 6, "moniker", "alpha", 7, []⟩ := by
  refine ⟨step sIssued (.rotateHolder ⟨2, 0, 6⟩), rotateByHolder_eq_step_of_ok (by decide +kernel),
    ?_, ?_, ?_, ?_, ?_, ?_, ?_, ?_⟩ <;> decide +kernel

/-- one token burnt (odd supply 10¹³−1): the holder of `floor(supply/2)` = 4 999 999 999 999 is rejected, one more token and
it is accepted — `rotate_by_holder_floor_of_odd_rejected` at work -/
example : rotateByHolder (run sIssued [.burn 0 "rr/alpha" 1, .xfer 2 0 "rr/alpha" 1]) ⟨2, 0, 6⟩ = .error .notEnoughRR ∧
    okB (rotateByHolder (run sIssued [.burn 0 "rr/alpha" 1]) ⟨2, 0, 6⟩) = true :=
  ⟨eq_error_of_errOf (by decide +kernel), by decide +kernel⟩

/-- `Clean` holds in the example state (hypothesis of `rotate_by_holder_iff`) -/
example : Clean sIssued 0 6 := ⟨by decide +kernel, exists_of_okB (by decide +kernel)⟩

/-- rotation by secret: account 2 registers a secret (digest 41), rotates to 6 with the matching proof; a wrong proof and
a non-hex proof are rejected; the fee payer 3 pays exactly the fee -/
example : (match rotateBySecret (run s0 [.register 2 41 none]) ⟨3, 2, 6, some 41⟩ with
      | .ok S' => S'.bal 6 "ukex" == 1000000000000 && S'.bal 2 "ukex" == 0 && S'.bal 3 "ukex" == 999000000000 &&
          getRec S'.reg 3 == some ⟨3, 6, "moniker", "carol", 7, [1]⟩
      | .error _ => false) = true ∧
    rotateBySecret (run s0 [.register 2 41 none]) ⟨3, 2, 6, some 42⟩ = .error .invalidProof ∧
    rotateBySecret (run s0 [.register 2 41 none]) ⟨3, 2, 6, none⟩ = .error .badHex ∧
    rotateBySecret s0 ⟨3, 2, 6, some 41⟩ = .error .recordMissing :=
  ⟨by decide +kernel, eq_error_of_errOf (by decide +kernel), eq_error_of_errOf (by decide +kernel), eq_error_of_errOf (by decide +kernel)⟩

/-- the frame is not vacuous: account 1 (validator, pool, rewards) is outside `touched` of the rotation of 0 -/
example : 1 ∉ touched sIssued (.rotateHolder ⟨2, 0, 6⟩) ∧ (sIssued.claims .rewards 0 1 = some 900) := by
  constructor <;> decide +kernel

/-! ## C03: what the beneficiary itself can lose (finding) -/

/-- full statement: an accepted rotation never takes anything away from the target address -/
def beneficiary_keeps_claims_full : Prop :=
  ∀ (S S' : State) (m : HolderMsg), rotateByHolder S m = .ok S' → m.recovery ≠ m.addr →
    (∀ k s v, S.claims k s m.recovery = some v → S'.claims k s m.recovery = some v) ∧
    (∀ v, S.vals m.recovery = some v → S'.vals m.recovery = some v)

/-- counterexample (`C03/recovery/rotation-overwrites-target-claims`): the holder of all tokens of validator 0 names
validator 1 as the target — nothing requires 1 to agree; 1's unclaimed rewards (900) become 700 and its validator record
(consensus key 1) is overwritten with the record of 0 -/
theorem beneficiary_keeps_claims_counterexample : ¬ beneficiary_keeps_claims_full := by
  intro h
  have hok : rotateByHolder (run s0 [.issue 0]) ⟨0, 0, 1⟩ = .ok (step (run s0 [.issue 0]) (.rotateHolder ⟨0, 0, 1⟩)) :=
    rotateByHolder_eq_step_of_ok (by decide +kernel)
  obtain ⟨h1, h2⟩ := h _ _ _ hok (by decide)
  have e := h1 .rewards 0 900 (by decide +kernel)
  have : (step (run s0 [.issue 0]) (.rotateHolder ⟨0, 0, 1⟩)).claims .rewards 0 1 = some 700 := by decide +kernel
  rw [this] at e; cases e

/-- with a target that holds nothing (the shape the harness generates most of the time) nothing is lost -/
theorem beneficiary_keeps_claims_partial {S S' : State} {m : HolderMsg} (_h : rotateByHolder S m = .ok S')
    (hfresh : (∀ k s, S.claims k s m.recovery = none) ∧ S.vals m.recovery = none) :
    (∀ k s v, S.claims k s m.recovery = some v → S'.claims k s m.recovery = some v) ∧
    (∀ v, S.vals m.recovery = some v → S'.vals m.recovery = some v) :=
  ⟨fun k s v hv => (by rw [hfresh.1 k s] at hv; cases hv), fun v hv => (by rw [hfresh.2] at hv; cases hv)⟩

example : (∀ k s, s0.claims k s 6 = none) ∧ s0.vals 6 = none := ⟨fun k s => by simp [s0], by simp [s0]⟩

/-! ## C04: backing -/

/-- for every operation list (addresses inside the range, never the module accounts themselves): the recovery module
account holds at least Σ recorded underlying tokens + Σ recorded holder rewards; recorded underlying amounts are never
negative; every record and every reward entry lies inside the range -/
theorem backing_invariant {n : Nat} (ops : List Op) {S : State} (hb : Backed n S) (hw : ∀ op ∈ ops, op.within n) :
    Backed n (run S ops) := backed_run ops hb hw

/-- every genesis without recovery records is backed -/
theorem backed_genesis (n : Nat) (S : State) (h1 : ∀ a, S.token a = none) (h2 : ∀ a, S.hRewards a = 0) (h3 : S.holders = [])
    (h4 : 0 ≤ S.bal modAcc ukex) : Backed n S := by
  refine ⟨?_, fun a t ht => (by rw [h1] at ht; cases ht), fun h hh => (by rw [h3] at hh; cases hh),
    fun a t ht => (by rw [h1] at ht; cases ht), fun a ha => absurd (h2 a) ha⟩
  unfold owed
  rw [sumF_zero _ n (fun a _ => by simp [und, h1]), sumF_zero _ n (fun a _ => h2 a)]
  exact h4

example : Backed 10 s0 := backed_genesis 10 s0 (fun _ => rfl) (fun _ => rfl) rfl (by decide +kernel)

/-- the example history keeps the module backed: bond 3·10¹¹ recorded, 3·10¹¹ + fee held -/
example : Backed 10 (run s0 [.issue 0, .xfer 0 2 "rr/alpha" 5000000000000, .burn 2 "rr/alpha" 3, .register 2 41 none,
    .rotateSecret ⟨3, 2, 6, some 41⟩, .rotateHolder ⟨6, 0, 7⟩]) :=
  backing_invariant _ (backed_genesis 10 s0 (fun _ => rfl) (fun _ => rfl) rfl (by decide +kernel)) (by
    intro op hop
    simp only [List.mem_cons, List.mem_nil_iff, or_false] at hop
    rcases hop with rfl | rfl | rfl | rfl | rfl | rfl <;> simp [Op.within, User, modAcc, feeAcc])

/-- a burn pays the floor of the pro-rata share, never more: `redeem · RrSupply ≤ underlying · amount` -/
theorem burn_le_pro_rata (tok : Token) (amt : Int) (h1 : 0 < tok.rrSupply) (h2 : 0 ≤ tok.underlying) (h3 : 0 ≤ amt) :
    redeemOf tok amt * tok.rrSupply ≤ tok.underlying * amt := by
  unfold redeemOf
  have hx : 0 ≤ tok.underlying * amt := Int.mul_nonneg h2 h3
  split
  · rw [Int.tdiv_eq_ediv_of_nonneg hx]
    exact Int.ediv_mul_le _ (by omega)
  · simpa using hx

/-- … and what the burner receives is exactly `redeemOf` (and the record loses exactly that) -/
theorem burn_pays_redeem {S S' : State} {a : Addr} {d : Denom} {amt : Int} (h : burn S a d amt = .ok S') (ha : a ≠ modAcc)
    (hd : d ≠ ukex) :
    ∃ owner tok, S.byDenom d = some owner ∧ S.token owner = some tok ∧ S'.bal a ukex = S.bal a ukex + redeemOf tok amt := by
  obtain ⟨owner, tok, S1, S2, S3, hby, ht, _, hp, hs2, hb3, _, rfl⟩ := burn_ok h
  refine ⟨owner, tok, hby, ht, ?_⟩
  have e3 : (burnRecord S3 owner tok amt (redeemOf tok amt)).bal = S3.bal := by unfold burnRecord; split <;> rfl
  rw [e3]
  obtain ⟨_, _, rfl⟩ := burnCoins_ok hb3
  have e2 : S2.bal a ukex = S1.bal a ukex := by rw [send_bal hs2]; simp [Ne.symm hd]
  have e1 : S1.bal a ukex = S.bal a ukex + redeemOf tok amt := by
    rcases payRedeem_ok hp with ⟨hz, rfl⟩ | ⟨_, hs⟩
    · omega
    · rw [send_bal hs]; simp [ha, Ne.symm ha]
  simp only [setBal]
  simp [ha, e2, e1]

example : redeemOf ⟨"rr/alpha", 10000000000000, 300000000000⟩ 3 = 0 ∧ redeemOf ⟨"rr/alpha", 9999999999999, 300000000000⟩ 333333333 = 9999999 := by
  constructor <;> decide +kernel

/-- issue and burn are the ONLY operations that change the bank supply of any denomination -/
theorem only_issue_burn_change_supply (S : State) (op : Op) (d : Denom) (h : (step S op).supply d ≠ S.supply d) :
    (∃ a, op = .issue a ∧ d = rrDenom S a) ∨ (∃ a n, op = .burn a d n) := supply_step S op d h

example : (step s0 (.issue 0)).supply "rr/alpha" ≠ s0.supply "rr/alpha" := by decide +kernel

/-- full statement: in every reachable state the bank supply of each recovery denomination equals the recorded
`RrSupply`, and the by-denom index and the token store agree -/
def rr_supply_eq_record_full : Prop := ∀ (S : State) (ops : List Op), TokInv S → TokInv (run S ops)

theorem tokInv_s0 : TokInv s0 := ⟨fun a t h => (by cases h), fun d a h => (by cases h)⟩

/-- counterexample 1 (`C04/recovery/denom-collision-breaks-backing`): accounts 3 and 4 have no moniker record;
`GetIdRecordsByAddressAndKeys` returns a placeholder with the empty value, so BOTH mint `rr/` — 2·10¹³ in the bank, two
records of 10¹³ each, one index entry -/
theorem rr_supply_eq_record_counterexample : ¬ rr_supply_eq_record_full := by
  intro h
  have hi := h s0 [.issue 3, .issue 4] tokInv_s0
  have ht : (run s0 [.issue 3, .issue 4]).token 4 = some ⟨"rr/", 10000000000000, 300000000000⟩ := by decide +kernel
  have := (hi.byAddr 4 _ ht).1
  have e : (run s0 [.issue 3, .issue 4]).supply "rr/" = 20000000000000 := by decide +kernel
  simp only at this
  rw [e] at this
  exact absurd this (by decide)

/-- … with which a namesake rotates a stranger (`C03/recovery/denom-collision-lets-stranger-rotate`): account 3 holds
only the tokens it minted for itself, exactly half of the colliding supply, and moves account 4's records to address 6 -/
theorem namesake_rotates_stranger :
    (match rotateByHolder (run s0 [.issue 3, .issue 4]) ⟨3, 4, 6⟩ with
      | .ok S' => S'.token 4 == none && (S'.token 6).isSome | .error _ => false) = true := by decide +kernel

/-- counterexample 2 (`C04/recovery/rotation-onto-issuer-orphans-token`): validator 0 is rotated onto validator 1, which
issued tokens itself: 1's record is overwritten, its index entry `rr/bravo ↦ 1` now leads to the record of `rr/alpha` -/
theorem rr_supply_eq_record_counterexample2 : ¬ rr_supply_eq_record_full := by
  intro h
  have hi := h s0 [.issue 0, .issue 1, .rotateHolder ⟨0, 0, 1⟩] tokInv_s0
  have hb : (run s0 [.issue 0, .issue 1, .rotateHolder ⟨0, 0, 1⟩]).byDenom "rr/bravo" = some 1 := by decide +kernel
  obtain ⟨t, ht, hd⟩ := hi.byDen _ _ hb
  have e : (run s0 [.issue 0, .issue 1, .rotateHolder ⟨0, 0, 1⟩]).token 1 = some ⟨"rr/alpha", 10000000000000, 300000000000⟩ := by
    decide +kernel
  rw [e] at ht; cases ht
  exact absurd hd (by decide)

/-- for all histories without those two shapes (an issue whose denomination is already in circulation, a holder rotation
onto an address that issued tokens): supply = record, index ↔ store, for every record -/
theorem rr_supply_eq_record_partial (ops : List Op) {S : State} (hi : TokInv S) (hg : GoodRun S ops) : TokInv (run S ops) :=
  tokInv_run ops hi hg

/-- under the invariant two issuers never share a denomination (so a holding identifies whose tokens it is) -/
theorem distinct_denoms {S : State} (hi : TokInv S) {a b : Addr} {ta tb : Token} (ha : S.token a = some ta) (hb : S.token b = some tb)
    (hd : ta.denom = tb.denom) : a = b := by
  have x := (hi.byAddr a ta ha).2.1
  have y := (hi.byAddr b tb hb).2.1
  rw [hd, y] at x; cases x; rfl

example : GoodRun s0 [.issue 0, .xfer 0 2 "rr/alpha" 5000000000000, .burn 2 "rr/alpha" 3, .rotateHolder ⟨2, 0, 6⟩] := by
  refine ⟨?_, trivial, trivial, ?_, trivial⟩
  · show s0.supply (rrDenom s0 0) = 0
    decide +kernel
  · left; decide +kernel

/-! ## C16: identity records through a rotation -/

/-- BOTH rotations: exactly the records the index of the old address lists are re-addressed to `msg.Recovery` — id, value,
date and verifiers unchanged, key re-formalised — and every other record is untouched -/
theorem records_moved_unchanged {S S' : State} {old new : Addr}
    (h : (∃ m : SecretMsg, m.addr = old ∧ m.recovery = new ∧ rotateBySecret S m = .ok S') ∨
         (∃ m : HolderMsg, m.addr = old ∧ m.recovery = new ∧ rotateByHolder S m = .ok S')) (id : Nat) :
    getRec S'.reg id = if id ∈ idsOf S.reg old then (getRec S.reg id).map (retarget new) else getRec S.reg id := by
  rcases h with ⟨m, rfl, rfl, hm⟩ | ⟨m, rfl, rfl, hm⟩
  · exact moveIdentity_spec (rotateBySecret_reg hm).1 id
  · exact moveIdentity_spec (rotateByHolder_reg hm).1 id

/-- stored keys are lower-case (every writer formalises the key), so `retarget` changes the address only -/
theorem retarget_of_lower (new : Addr) (r : IdRec) (h : Sekai.Ident.lower r.key = r.key) : retarget new r = { r with addr := new } := by
  unfold retarget; rw [h]

/-- full statement: a rotation of `old` leaves the records of every OTHER address untouched -/
def records_of_others_untouched_full : Prop :=
  ∀ (S S' : State) (m : SecretMsg), rotateBySecret S m = .ok S' →
    ∀ id r, getRec S.reg id = some r → r.addr ≠ m.addr → getRec S'.reg id = some r

/-- counterexample (`C16/recovery/second-rotation-moves-successor-records`): `DeleteIdentityRecordById` leaves the index
entry of the old address behind; account 2 rotates to 6, then (its recovery record and account still exist) to 7 — the
second rotation walks 2's stale index and takes the moniker record away from 6, which signed nothing -/
theorem records_of_others_untouched_counterexample : ¬ records_of_others_untouched_full := by
  intro h
  have hok : rotateBySecret (run s0 [.register 2 41 none, .rotateSecret ⟨2, 2, 6, some 41⟩]) ⟨3, 2, 7, some 41⟩ =
      .ok (step (run s0 [.register 2 41 none, .rotateSecret ⟨2, 2, 6, some 41⟩]) (.rotateSecret ⟨3, 2, 7, some 41⟩)) :=
    rotateBySecret_eq_step_of_ok (by decide +kernel)
  have := h _ _ _ hok 3 ⟨3, 6, "moniker", "carol", 7, [1]⟩ (by decide +kernel) (by decide)
  have e : getRec (step (run s0 [.register 2 41 none, .rotateSecret ⟨2, 2, 6, some 41⟩]) (.rotateSecret ⟨3, 2, 7, some 41⟩)).reg 3 =
      some ⟨3, 7, "moniker", "carol", 7, [1]⟩ := by decide +kernel
  rw [e] at this; cases this

/-- the index of `old` lists only records `old` owns (true until `old` has been rotated away once) -/
def IdxOwned (R : Reg) (old : Addr) : Prop := ∀ id ∈ idsOf R old, ∀ r, getRec R id = some r → r.addr = old

theorem records_of_others_untouched_partial {S S' : State} {old new : Addr}
    (h : (∃ m : SecretMsg, m.addr = old ∧ m.recovery = new ∧ rotateBySecret S m = .ok S') ∨
         (∃ m : HolderMsg, m.addr = old ∧ m.recovery = new ∧ rotateByHolder S m = .ok S'))
    (ho : IdxOwned S.reg old) {id : Nat} {r : IdRec} (hr : getRec S.reg id = some r) (hne : r.addr ≠ old) :
    getRec S'.reg id = some r := by
  rw [records_moved_unchanged h id]
  by_cases hm : id ∈ idsOf S.reg old
  · exact absurd (ho id hm r hr) hne
  · rw [if_neg hm]; exact hr

example : IdxOwned s0.reg 2 := by
  intro id hid r hr
  have : id = 3 := by simpa [idsOf, s0] using hid
  subst this
  have : r = ⟨3, 2, "moniker", "carol", 7, [1]⟩ := by
    have e : getRec s0.reg 3 = some ⟨3, 2, "moniker", "carol", 7, [1]⟩ := by decide +kernel
    rw [e] at hr; cases hr; rfl
  rw [this]

/-! ## C06: the validator store after a rotation -/

/-- for EVERY operation: if every validator record is found through its consensus address before, it is afterwards —
the rotations write `RemoveValidator(old)` THEN `AddValidator(new)`, all other operations do not touch the store -/
theorem validator_index_consistent (S : State) (op : Op) (h : ConsIdx S) : ConsIdx (step S op) := by
  cases op with
  | rotateSecret m =>
    unfold step
    cases hap : apply S (.rotateSecret m) with
    | error e => exact h
    | ok S' =>
      obtain ⟨e1, e2⟩ := rotateBySecret_vals hap
      have := consIdx_moveVal m.addr m.recovery h
      intro a v hv
      simp only at hv ⊢
      rw [e1] at hv; rw [e2]; exact this a v hv
  | rotateHolder m =>
    unfold step
    cases hap : apply S (.rotateHolder m) with
    | error e => exact h
    | ok S' =>
      obtain ⟨e1, e2⟩ := rotateByHolder_vals hap
      have := consIdx_moveVal m.addr m.recovery h
      intro a v hv
      simp only at hv ⊢
      rw [e1] at hv; rw [e2]; exact this a v hv
  | register a c p => obtain ⟨e1, e2, _, _⟩ := step_vals_of_not_rotation S (.register a c p) (by intro m; nofun) (by intro m; nofun); intro x v hv; rw [e1] at hv; rw [e2]; exact h x v hv
  | issue a => obtain ⟨e1, e2, _, _⟩ := step_vals_of_not_rotation S (.issue a) (by intro m; nofun) (by intro m; nofun); intro x v hv; rw [e1] at hv; rw [e2]; exact h x v hv
  | burn a d n => obtain ⟨e1, e2, _, _⟩ := step_vals_of_not_rotation S (.burn a d n) (by intro m; nofun) (by intro m; nofun); intro x v hv; rw [e1] at hv; rw [e2]; exact h x v hv
  | claim a => obtain ⟨e1, e2, _, _⟩ := step_vals_of_not_rotation S (.claim a) (by intro m; nofun) (by intro m; nofun); intro x v hv; rw [e1] at hv; rw [e2]; exact h x v hv
  | regHolder a => obtain ⟨e1, e2, _, _⟩ := step_vals_of_not_rotation S (.regHolder a) (by intro m; nofun) (by intro m; nofun); intro x v hv; rw [e1] at hv; rw [e2]; exact h x v hv
  | allocate a n => obtain ⟨e1, e2, _, _⟩ := step_vals_of_not_rotation S (.allocate a n) (by intro m; nofun) (by intro m; nofun); intro x v hv; rw [e1] at hv; rw [e2]; exact h x v hv
  | xfer a b d n => obtain ⟨e1, e2, _, _⟩ := step_vals_of_not_rotation S (.xfer a b d n) (by intro m; nofun) (by intro m; nofun); intro x v hv; rw [e1] at hv; rw [e2]; exact h x v hv

theorem validator_index_consistent_run (ops : List Op) {S : State} (h : ConsIdx S) : ConsIdx (run S ops) := by
  induction ops generalizing S with
  | nil => exact h
  | cons op rest ih => simp only [run, List.foldl_cons]; exact ih (validator_index_consistent S op h)

theorem consIdx_s0 : ConsIdx s0 := by
  intro a v hv
  by_cases h0 : a = 0
  · subst h0; have : v = ⟨0, 1⟩ := by simpa [s0] using hv.symm
    subst this; rfl
  · by_cases h1 : a = 1
    · subst h1; have : v = ⟨1, 1⟩ := by simpa [s0] using hv.symm
      subst this; rfl
    · simp [s0, h0, h1] at hv

/-- the regression the harness is mutation-tested with: writing the new record BEFORE removing the old one deletes the
index entry the two records share — the next BeginBlock cannot find the validator by its consensus address -/
example : (moveValWrongOrder 0 6 s0).vals 6 = some ⟨0, 1⟩ ∧ (moveValWrongOrder 0 6 s0).byCons 0 = none :=
  moveValWrongOrder_breaks (by rfl) (by decide)

/-- full statement: a block-safe state (no corrupt proposal, every queued validator-set change names a validator record,
every consensus key of the active set leads to a validator record) stays block-safe through an accepted rotation -/
def rotation_keeps_block_safe_full : Prop :=
  ∀ (S S' : State) (m : SecretMsg) (active : List Nat), ConsIdx S → IdxSound S → blockSafe S active = true →
    rotateBySecret S m = .ok S' → blockSafe S' active = true

/-- s0 with a recovery secret for validator 0 and a pending slash proposal (id 1) against it -/
def sSlash : State := { run s0 [.register 0 41 none] with slashProps := [(1, 0)] }
/-- s0 with a recovery secret for validator 1, which has just sent `MsgPause` (its key is in the removing queue) -/
def sQueued : State := { run s0 [.register 1 41 none] with queue := [1] }

theorem idxSound_s0 : IdxSound s0 := by
  intro c a h
  by_cases h0 : c = 0
  · subst h0; have : a = 0 := by simpa [s0] using h.symm
    subst this; exact ⟨⟨0, 1⟩, rfl, rfl⟩
  · by_cases h1 : c = 1
    · subst h1; have : a = 1 := by simpa [s0] using h.symm
      subst this; exact ⟨⟨1, 1⟩, rfl, rfl⟩
    · simp [s0, h0, h1] at h

/-- counterexample 1 (`C06/recovery/slash-proposal-content-clobbered`): the rotation stores the rotation MESSAGE as the
content of the pending slash proposal against the rotated validator; from then on `GetProposals` panics (EndBlock halts) -/
theorem rotation_keeps_block_safe_counterexample : ¬ rotation_keeps_block_safe_full := by
  intro h
  have hok : rotateBySecret sSlash ⟨0, 0, 6, some 41⟩ = .ok (step sSlash (.rotateSecret ⟨0, 0, 6, some 41⟩)) :=
    rotateBySecret_eq_step_of_ok (by decide +kernel)
  have := h sSlash _ ⟨0, 0, 6, some 41⟩ [0, 1] consIdx_s0 idxSound_s0 (by decide +kernel) hok
  have e : blockSafe (step sSlash (.rotateSecret ⟨0, 0, 6, some 41⟩)) [0, 1] = false := by decide +kernel
  rw [e] at this; cases this

/-- counterexample 2 (`C06/recovery/rotate-with-queued-set-change`): the staking queues are keyed by the operator address
and are not moved; `MsgPause` then the rotation in one block leaves a queue entry without a validator record and
`BlockValidatorUpdates` panics in EndBlock -/
theorem rotation_keeps_block_safe_counterexample2 : ¬ rotation_keeps_block_safe_full := by
  intro h
  have hok : rotateBySecret sQueued ⟨1, 1, 6, some 41⟩ = .ok (step sQueued (.rotateSecret ⟨1, 1, 6, some 41⟩)) :=
    rotateBySecret_eq_step_of_ok (by decide +kernel)
  have := h sQueued _ ⟨1, 1, 6, some 41⟩ [0, 1] consIdx_s0 idxSound_s0 (by decide +kernel) hok
  have e : blockSafe (step sQueued (.rotateSecret ⟨1, 1, 6, some 41⟩)) [0, 1] = false := by decide +kernel
  rw [e] at this; cases this

/-- without those two shapes, and with a target that is not itself a validator: the rotation keeps the state block-safe
— in particular every consensus key of the active set still leads to a validator record (BeginBlock's
`HandleValidatorSignature`), for BOTH rotations -/
theorem rotation_keeps_block_safe_partial {S S' : State} {old new : Addr} {active : List Nat}
    (h : (∃ m : SecretMsg, m.addr = old ∧ m.recovery = new ∧ rotateBySecret S m = .ok S') ∨
         (∃ m : HolderMsg, m.addr = old ∧ m.recovery = new ∧ rotateByHolder S m = .ok S'))
    (hc : ConsIdx S) (hs : IdxSound S) (hb : blockSafe S active = true)
    (hslash : S.slashProps.any (fun p => p.2 = old) = false) (hq : old ∉ S.queue) (hfree : S.vals new = none ∨ new = old) :
    blockSafe S' active = true := by
  -- the three stores after the rotation
  have hv : S'.vals = (moveVal old new S).vals ∧ S'.byCons = (moveVal old new S).byCons := by
    rcases h with ⟨m, rfl, rfl, hm⟩ | ⟨m, rfl, rfl, hm⟩
    · exact rotateBySecret_vals hm
    · exact rotateByHolder_vals hm
  have hcor : moveProposals old S = .ok S'.corrupt := by
    rcases h with ⟨m, rfl, rfl, hm⟩ | ⟨m, rfl, rfl, hm⟩
    · exact (rotateBySecret_reg hm).2
    · exact (rotateByHolder_reg hm).2
  have hqueue : S'.queue = S.queue := by
    rcases h with ⟨m, rfl, rfl, hm⟩ | ⟨m, rfl, rfl, hm⟩
    · obtain ⟨S1, hs1, hf⟩ := rotateBySecret_frame hm
      rw [hf.queue]; exact (send_frame hs1).queue
    · exact (rotateByHolder_frame hm).queue
  unfold blockSafe at hb ⊢
  simp only [Bool.and_eq_true, Bool.not_eq_true', List.all_eq_true] at hb ⊢
  obtain ⟨⟨hb1, hb2⟩, hb3⟩ := hb
  have hsound' := idxSound_moveVal old new hs hc hfree
  refine ⟨⟨?_, ?_⟩, ?_⟩
  · unfold moveProposals at hcor
    rw [hb1] at hcor
    simp only [Bool.false_eq_true, if_false] at hcor
    injection hcor with e
    rw [← e]; exact hslash
  · intro a ha
    rw [hqueue] at ha
    have hne : a ≠ old := fun e => hq (e ▸ ha)
    have := hb2 a ha
    rw [hv.1]
    unfold moveVal
    cases hvo : S.vals old with
    | none => exact this
    | some v =>
      simp only [addValidator, removeValidator]
      by_cases h1 : a = new
      · simp [h1]
      · simp [h1, hne]; simpa using this
  · intro c hcm
    have := hb3 c hcm
    rw [hv.2]
    cases hbc : (moveVal old new S).byCons c with
    | none =>
      -- the index entry of an active key cannot disappear
      exfalso
      cases hbo : S.byCons c with
      | none => rw [hbo] at this; cases this
      | some a =>
        unfold moveVal at hbc
        cases hvo : S.vals old with
        | none => rw [hvo] at hbc; simp only at hbc; rw [hbo] at hbc; cases hbc
        | some v =>
          rw [hvo] at hbc
          simp only [addValidator, removeValidator] at hbc
          by_cases hcv : c = v.cons
          · simp [hcv] at hbc
          · simp [hcv, hbo] at hbc
    | some a =>
      obtain ⟨u, hu, _⟩ := hsound' c a hbc
      simp only
      rw [hv.1, hu]; rfl

example : blockSafe sIssued [0, 1] = true ∧ sIssued.slashProps.any (fun p => p.2 = 0) = false ∧ 0 ∉ sIssued.queue := by
  refine ⟨by decide +kernel, by decide +kernel, by decide +kernel⟩

end Sekai.Props.REC

/-! ## C10: pool ids (the `v<id>/…` share denominations) stay distinct over rotations and pool creations -/
namespace Sekai.Props.REC
open Sekai.Recovery

/-- the pool record (its id) of every address after `movePool`, as a function of the pool records before -/
theorem movePool_pool (old new : Addr) (S : State) (a : Addr) :
    (movePool old new S).claims .pool 0 a =
      match S.claims .pool 0 old with
      | none => S.claims .pool 0 a
      | some v => if a = new then some v else if a = old then none else S.claims .pool 0 a := by
  unfold movePool
  cases h : S.claims .pool 0 old with
  | none => rfl
  | some v =>
    simp only
    have key : (moveClaim1 .pool 0 old new S).claims .pool 0 a =
        (if a = new then some v else if a = old then none else S.claims .pool 0 a) := by
      show (if Kind.pool = Kind.pool ∧ (0 : Nat) = 0 then (match S.claims .pool 0 old with
            | none => S.claims .pool 0 a
            | some v => if a = new then some v else if a = old then none else S.claims .pool 0 a) else S.claims .pool 0 a) = _
      rw [if_pos ⟨rfl, rfl⟩, h]
    split
    · exact key
    · split
      · exact key
      · exact key

theorem movePool_lastPool (old new : Addr) (S : State) : (movePool old new S).lastPool = S.lastPool := by
  unfold movePool; split
  · rfl
  · split
    · rfl
    · split <;> rfl
theorem moveRewards_lastPool (old new : Addr) (S : State) : (moveRewards old new S).lastPool = S.lastPool := by
  unfold moveRewards; split
  · rfl
  · split <;> rfl
theorem moveVal_lastPool (old new : Addr) (S : State) : (moveVal old new S).lastPool = S.lastPool := by
  unfold moveVal; split <;> rfl
theorem moveCoins_lastPool (old new : Addr) (S : State) : (moveCoins old new S).lastPool = S.lastPool := by
  unfold moveCoins; split <;> rfl
theorem send_lastPool {S S' : State} {a b : Addr} {d : Denom} {n : Int} (h : send S a b d n = .ok S') : S'.lastPool = S.lastPool := by
  unfold send at h
  split at h
  · cases h
  · split at h
    · cases h
    · cases h; rfl

/-- `MsgRotateValidatorByHalfRRTokenHolder` never writes the pool-id counter, and the pool records afterwards are those
of `movePool` -/
theorem rotate_by_holder_pools {S S' : State} {m : HolderMsg} (h : rotateByHolder S m = .ok S') :
    S'.lastPool = S.lastPool ∧ ∀ a, S'.claims .pool 0 a = (movePool m.addr m.recovery S).claims .pool 0 a := by
  obtain ⟨tok, R, c, _, _, _, _, _, rfl⟩ := rotateByHolder_ok h
  constructor
  · show (holderMoves1 m.addr m.recovery tok (withRotation S m.addr m.recovery)).lastPool = _
    unfold holderMoves1
    show (moveVal _ _ (movePool _ _ (moveRewards _ _ _))).lastPool = _
    rw [moveVal_lastPool, movePool_lastPool, moveRewards_lastPool]; rfl
  · intro a
    show (moveClaim .vote m.addr m.recovery (moveClaim .actor m.addr m.recovery _)).claims .pool 0 a = _
    rw [moveClaim_claims_ne (by decide), moveClaim_claims_ne (by decide)]
    show (holderMoves1 m.addr m.recovery tok (withRotation S m.addr m.recovery)).claims .pool 0 a = _
    unfold holderMoves1
    rw [moveClaim_claims_ne (by decide), moveVal_claims, movePool_pool, movePool_pool,
      moveRewards_claims_ne (by decide), moveDelegators_claims_ne (by decide), moveCompound_claims_ne (by decide)]
    rfl

theorem movePool_pool_congr (old new : Addr) {X Y : State} (h : X.claims .pool = Y.claims .pool) (a : Addr) :
    (movePool old new X).claims .pool 0 a = (movePool old new Y).claims .pool 0 a := by
  rw [movePool_pool, movePool_pool, h]

theorem secretMoves2_pool (old new : Addr) (X : State) (a : Addr) :
    (secretMoves2 old new X).claims .pool 0 a = (movePool old new X).claims .pool 0 a := by
  unfold secretMoves2
  rw [moveClaim_claims_ne (by decide), moveClaim_claims_ne (by decide), moveClaim_claims_ne (by decide),
    moveClaim_claims_ne (by decide), moveClaim_claims_ne (by decide), moveClaim_claims_ne (by decide), moveVal_claims,
    moveClaim_claims_ne (by decide)]
  apply movePool_pool_congr
  rw [moveRewards_claims_ne (by decide), moveDelegators_claims_ne (by decide), moveCompound_claims_ne (by decide),
    moveClaim_claims_ne (by decide)]

theorem moveClaim_lastPool (k : Kind) (old new : Addr) (S : State) : (moveClaim k old new S).lastPool = S.lastPool := rfl
theorem moveCompound_lastPool (old new : Addr) (S : State) : (moveCompound old new S).lastPool = S.lastPool := rfl
theorem moveDelegators_lastPool (old new : Addr) (S : State) : (moveDelegators old new S).lastPool = S.lastPool := rfl

theorem secretMoves2_lastPool (old new : Addr) (X : State) : (secretMoves2 old new X).lastPool = X.lastPool := by
  unfold secretMoves2
  rw [moveClaim_lastPool, moveClaim_lastPool, moveClaim_lastPool, moveClaim_lastPool, moveClaim_lastPool, moveClaim_lastPool,
    moveVal_lastPool, moveClaim_lastPool, movePool_lastPool, moveRewards_lastPool, moveDelegators_lastPool,
    moveCompound_lastPool, moveClaim_lastPool]

/-- the same for `MsgRotateRecoveryAddress` -/
theorem rotate_by_secret_pools {S S' : State} {m : SecretMsg} (h : rotateBySecret S m = .ok S') :
    S'.lastPool = S.lastPool ∧ ∀ a, S'.claims .pool 0 a = (movePool m.addr m.recovery S).claims .pool 0 a := by
  obtain ⟨S1, ch, R, c, _, hs, _, _, _, _, _, _, _, rfl⟩ := rotateBySecret_ok h
  have hl := send_lastPool hs
  have hc : S1.claims = S.claims := (send_frame hs).claims
  constructor
  · rw [secretMoves2_lastPool]
    show (moveCoins m.addr m.recovery (withRotation S1 m.addr m.recovery)).lastPool = _
    rw [moveCoins_lastPool]; exact hl
  · intro a
    rw [secretMoves2_pool]
    apply movePool_pool_congr
    rw [moveClaim_claims_ne (by decide)]
    show (moveClaim .councilor m.addr m.recovery (moveClaim .collective m.addr m.recovery
            (moveCoins m.addr m.recovery (withRotation S1 m.addr m.recovery)))).claims .pool = _
    rw [moveClaim_claims_ne (by decide), moveClaim_claims_ne (by decide), moveCoins_claims]
    show S1.claims .pool = _
    rw [hc]

/-- every pool id on record is at most the counter -/
def PoolBound (S : State) : Prop := ∀ a i, S.claims .pool 0 a = some i → i ≤ S.lastPool
/-- no two addresses own pools with one id -/
def PoolUniq (S : State) : Prop := ∀ a b i, S.claims .pool 0 a = some i → S.claims .pool 0 b = some i → a = b

theorem movePool_src (old new : Addr) (S : State) (a : Addr) (i : Nat)
    (h : (movePool old new S).claims .pool 0 a = some i) : ∃ b, S.claims .pool 0 b = some i := by
  rw [movePool_pool] at h
  cases ho : S.claims .pool 0 old with
  | none => rw [ho] at h; exact ⟨a, h⟩
  | some v =>
    rw [ho] at h
    simp only at h
    by_cases h1 : a = new
    · rw [if_pos h1] at h; cases h; exact ⟨old, ho⟩
    · rw [if_neg h1] at h
      by_cases h2 : a = old
      · rw [if_pos h2] at h; cases h
      · rw [if_neg h2] at h; exact ⟨a, h⟩

theorem movePool_uniq (old new : Addr) (S : State) (hu : PoolUniq S) :
    ∀ a b i, (movePool old new S).claims .pool 0 a = some i → (movePool old new S).claims .pool 0 b = some i → a = b := by
  intro a b i ha hb
  rw [movePool_pool] at ha hb
  cases ho : S.claims .pool 0 old with
  | none => rw [ho] at ha hb; exact hu a b i ha hb
  | some v =>
    rw [ho] at ha hb
    simp only at ha hb
    by_cases a1 : a = new
    · by_cases b1 : b = new
      · rw [a1, b1]
      · rw [if_pos a1] at ha; rw [if_neg b1] at hb
        cases ha
        by_cases b2 : b = old
        · rw [if_pos b2] at hb; cases hb
        · rw [if_neg b2] at hb; exact absurd (hu b old _ hb ho) b2
    · rw [if_neg a1] at ha
      by_cases a2 : a = old
      · rw [if_pos a2] at ha; cases ha
      · rw [if_neg a2] at ha
        by_cases b1 : b = new
        · rw [if_pos b1] at hb; cases hb
          exact absurd (hu a old _ ha ho) a2
        · rw [if_neg b1] at hb
          by_cases b2 : b = old
          · rw [if_pos b2] at hb; cases hb
          · rw [if_neg b2] at hb; exact hu a b i ha hb

/-- a rotation keeps both invariants … -/
theorem rotation_keeps_pool_ids {S S' : State} (hb : PoolBound S) (hu : PoolUniq S)
    (h : (∃ m, rotateByHolder S m = .ok S') ∨ (∃ m, rotateBySecret S m = .ok S')) : PoolBound S' ∧ PoolUniq S' := by
  have key : ∃ old new, S'.lastPool = S.lastPool ∧ ∀ a, S'.claims .pool 0 a = (movePool old new S).claims .pool 0 a := by
    rcases h with ⟨m, hm⟩ | ⟨m, hm⟩
    · exact ⟨_, _, rotate_by_holder_pools hm⟩
    · exact ⟨_, _, rotate_by_secret_pools hm⟩
  obtain ⟨old, new, hl, hc⟩ := key
  constructor
  · intro a i hi
    rw [hc] at hi
    obtain ⟨b, hb'⟩ := movePool_src old new S a i hi
    rw [hl]; exact hb b i hb'
  · intro a b i ha hb'
    rw [hc] at ha hb'
    exact movePool_uniq old new S hu a b i ha hb'

theorem newPool_fresh {S S' : State} {a : Addr} (h : newPool S a = some S') (hp : S.claims .pool 0 a = none) :
    S'.lastPool = S.lastPool + 1 ∧ ∀ b, S'.claims .pool 0 b = if b = a then some (S.lastPool + 1) else S.claims .pool 0 b := by
  unfold newPool at h
  cases hv : S.vals a with
  | none => rw [hv] at h; cases h
  | some v =>
    rw [hv] at h
    simp only [hp, Option.some.injEq] at h
    subst h
    refine ⟨rfl, fun b => ?_⟩
    by_cases e : b = a <;> simp [e]

theorem newPool_existing {S S' : State} {a : Addr} {i : Nat} (h : newPool S a = some S') (hp : S.claims .pool 0 a = some i) : S' = S := by
  unfold newPool at h
  cases hv : S.vals a with
  | none => rw [hv] at h; cases h
  | some v => rw [hv] at h; simp only [hp, Option.some.injEq] at h; exact h.symm

/-- … and so does the creation of a pool: the new pool gets an id no other pool has -/
theorem new_pool_keeps_pool_ids {S S' : State} {a : Addr} (hb : PoolBound S) (hu : PoolUniq S) (h : newPool S a = some S') :
    PoolBound S' ∧ PoolUniq S' := by
  cases hp : S.claims .pool 0 a with
  | some i => rw [newPool_existing h hp]; exact ⟨hb, hu⟩
  | none =>
    obtain ⟨hl, hc⟩ := newPool_fresh h hp
    constructor
    · intro b i hi
      rw [hc] at hi
      rw [hl]
      by_cases e : b = a
      · rw [if_pos e] at hi; cases hi; exact Nat.le_refl _
      · rw [if_neg e] at hi; exact Nat.le_succ_of_le (hb b i hi)
    · intro b c i hbi hci
      rw [hc] at hbi hci
      by_cases e1 : b = a
      · by_cases e2 : c = a
        · rw [e1, e2]
        · rw [if_pos e1] at hbi; rw [if_neg e2] at hci
          cases hbi
          have := hb c _ hci
          omega
      · rw [if_neg e1] at hbi
        by_cases e2 : c = a
        · rw [if_pos e2] at hci; cases hci
          have := hb b _ hbi
          omega
        · rw [if_neg e2] at hci
          exact hu b c i hbi hci

/-- what goes wrong when a rotation lowers the counter (the seeded change C10-r7): after moving the newest pool the
counter would sit below an id in use, and the next pool would share it - `PoolBound` is exactly what excludes that -/
example :
    let S : State := { lastPool := 1, claims := fun k s a => if k = Kind.pool ∧ s = 0 ∧ a = 5 then some 2 else none,
                       vals := fun a => if a = 7 then some ⟨0, 0⟩ else none }
    ¬ PoolBound S ∧ ((newPool S 7).map fun S' => S'.claims .pool 0 7) = some (some 2) := by
  constructor
  · intro h; have := h 5 2 (by simp); simp at this
  · simp [newPool]

/-! ### Key spaces of the stores this model keeps in separate maps (table `Gen.Keys`)

The model keeps each record kind of a module in a field of its own; the module keeps them in ONE store under byte prefixes.
No prefix extends another (checked on the regenerated table), so by `Sekai.Keys.keys_of_different_kinds_differ` a key of one
kind is never a key of another kind. -/

theorem recovery_key_spaces_disjoint : Sekai.Keys.disjoint Sekai.Gen.Keys.stores "recovery" = true := by decide +kernel

end Sekai.Props.REC
