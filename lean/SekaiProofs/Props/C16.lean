import SekaiProofs.Lemmas.IdentWF
import SekaiProofs.Lemmas.IdentVerif
import Sekai.Gen.Keys
import SekaiProofs.Lemmas.Keys
/-! # C16 — Identity registry: unique keys stay unique, only owners edit, tips escrowed once

Theorems about `Sekai.Ident` (the executable mirror of `x/gov/keeper/identity_registrar.go` and of the callers that
reach it), for ALL operation sequences (`run init ops`, induction over the list) and for all states that satisfy
the stated invariant. `step` is one message under the message-level cache (`apply` = ValidateBasic + keeper).

Where the code violates the statement the full statement is kept as a `def … : Prop`, its negation is proved from
a closed witness (`…_counterexample`, replayed on the real code by `harness/c16.go`), and the `…_partial` theorem
carries the excluded messages as a decidable hypothesis. -/
namespace Sekai.Props.C16
open Sekai.Ident

/-- a genesis state: empty registry, nothing in escrow; balances, permissions, validators, councilors, recovery
secrets, the unique-key list and the minimum tip are arbitrary -/
structure Genesis (S : State) : Prop where
  records : S.records = []
  idx : S.idx = []
  reqs : S.reqs = []
  escrow : S.escrow = []

/-- the default genesis -/
def init : State := {}
/-- a genesis in which accounts 1..5 exist and hold funds, account 0 may send `MsgSetNetworkProperties`,
account 1 has registered a recovery secret -/
def init2 : State :=
  { permProps := [0], secrets := [1], accs := [0, 1, 2, 3],
    bal := [(1, 0, 5000000000), (2, 0, 5000000000), (3, 0, 5000000000)] }

theorem genesis_init : Genesis init := ⟨rfl, rfl, rfl, rfl⟩
theorem genesis_init2 : Genesis init2 := ⟨rfl, rfl, rfl, rfl⟩

/-! ## the invariant -/

/-- registry well-formed, escrow = Σ pending tips, unique keys unique -/
def Inv (S : State) : Prop := WFcore S ∧ EscInv S ∧ UInv S

theorem uinv_genesis {S : State} (g : Genesis S) : UInv S := by
  constructor
  · intro x hx; rw [g.records] at hx; cases hx
  · intro x hx; rw [g.records] at hx; cases hx

theorem escinv_genesis {S : State} (g : Genesis S) : EscInv S := by
  refine ⟨⟨by rw [g.reqs]; exact List.Pairwise.nil, ?_⟩, ?_⟩
  · intro x hx; rw [g.reqs] at hx; cases hx
  · intro d; unfold escrowGet; rw [g.escrow, g.reqs]; rfl

theorem inv_genesis {S : State} (g : Genesis S) : Inv S := by
  refine ⟨⟨?_, ?_, ?_, ?_, ?_⟩, escinv_genesis g, uinv_genesis g⟩
  · intro x hx; rw [g.idx] at hx; cases hx
  · intro x hx; rw [g.records] at hx; cases hx
  · intro x hx; rw [g.records] at hx; cases hx
  · intro x hx; rw [g.reqs] at hx; cases hx
  · intro x hx; rw [g.reqs] at hx; cases hx

theorem inv_init : Inv init := inv_genesis genesis_init

/-- every message except a rotation and the whole-record network-property message preserves the invariant -/
theorem inv_step {S : State} {o : Op} (h : Inv S) (hr : o.isRotate = false) (hw : o.isSetKeysWhole = false) :
    Inv (step S o) := by
  refine ⟨?_, EscInv_step h.2.1, UInv_step hw h.2.2⟩
  unfold step
  split
  · rename_i S' ha; exact (WF_apply hr h.1 h.2.1.1 ha).1
  · exact h.1

theorem inv_run (ops : List Op) {S : State} (h : Inv S)
    (hr : ∀ o ∈ ops, o.isRotate = false ∧ o.isSetKeysWhole = false) : Inv (run S ops) := by
  induction ops generalizing S with
  | nil => exact h
  | cons o rest ih =>
    unfold run; simp only [List.foldl_cons]
    exact ih (inv_step h (hr o List.mem_cons_self).1 (hr o List.mem_cons_self).2)
      (fun x hx => hr x (List.mem_cons_of_mem _ hx))

/-- non-vacuity: a busy reachable state (two owners, a pending request with a tip) -/
def sampleOps : List Op :=
  [.time 100, .register 1 [⟨"Moniker", "alice"⟩, ⟨"contact", "x"⟩], .register 2 [⟨"moniker", "bob"⟩],
   .request 1 2 [1, 2] 0 0, .handle 2 1 true, .request 1 2 [2] 0 0]
example : (run init sampleOps).records.length = 3 ∧ (run init sampleOps).reqs.length = 1 := by decide +kernel
example : Inv (run init sampleOps) := inv_run _ inv_init (by decide)

/-! ## (a) unique keys stay unique -/

/-- the driver's oracle bit is exactly the predicate of the theorem -/
theorem uniqB_iff (S : State) : uniqB S = true ↔ Uniq S := by
  unfold uniqB Uniq
  simp only [List.all_eq_true, Bool.not_eq_true', Bool.and_eq_false_iff, List.contains_eq_mem,
    decide_eq_false_iff_not, beq_eq_false_iff_ne, ne_eq, bne_eq_false_iff_eq]
  constructor
  · intro h r1 h1 r2 h2 hin hk hv
    rcases h r1 h1 r2 h2 with ((h' | h') | h') | h'
    · exact absurd hin h'
    · exact absurd hk h'
    · exact absurd hv h'
    · exact h'
  · intro h r1 h1 r2 h2
    by_cases hin : r1.key ∈ rawSplit S.uniqueKeys
    · by_cases hk : r1.key = r2.key
      · by_cases hv : r1.value = r2.value
        · exact Or.inr (h r1 h1 r2 h2 hin hk hv)
        · exact Or.inl (Or.inr hv)
      · exact Or.inl (Or.inl (Or.inr hk))
    · exact Or.inl (Or.inl (Or.inl hin))

/-- one message: uniqueness (and lower-case storage of keys, which is what makes it hold for every spelling of a
key) is preserved by every message except `MsgSetNetworkProperties` — including changes of the unique-key list
through the single-property path, and rotations -/
theorem unique_preserved {S : State} {o : Op} (h : UInv S) (hw : o.isSetKeysWhole = false) : UInv (step S o) :=
  UInv_step hw h

example : UInv (run init sampleOps) ∧ (Op.register 2 [⟨"Username", "zed"⟩]).isSetKeysWhole = false :=
  ⟨(inv_run _ inv_init (by decide)).2.2, rfl⟩

/-- the full statement: in every state reachable from a genesis no two addresses hold the same value under a
unique key -/
def C16_unique_full : Prop := ∀ S0, Genesis S0 → ∀ ops : List Op, Uniq (run S0 ops)

/-- witness of defect #28: two addresses register the same `contact`; `MsgSetNetworkProperties` (signed by account
0, which holds PermChangeTxFee in `init2`) then declares `contact` unique without the duplicate scan of the
single-property path -/
def uniqueWitness : List Op :=
  [.register 1 [⟨"contact", "x"⟩], .register 2 [⟨"contact", "x"⟩], .setKeysWhole 0 "moniker,username,contact"]

theorem unique_full_counterexample : ¬ C16_unique_full := by
  intro h
  have h1 := (uniqB_iff _).mpr (h init2 genesis_init2 uniqueWitness)
  revert h1; decide +kernel

/-- the same history on the single-property path is rejected (the scan is there) -/
example : apply (run init [.register 1 [⟨"contact", "x"⟩], .register 2 [⟨"contact", "x"⟩]])
    (.setKeysSingle "moniker,username,contact") = none := by decide +kernel

/-- (a) for all histories without `MsgSetNetworkProperties`, from every genesis: unique keys are unique, whatever
the spelling -/
theorem unique_partial {S0 : State} (g : Genesis S0) (ops : List Op) (hw : ∀ o ∈ ops, o.isSetKeysWhole = false) :
    Uniq (run S0 ops) ∧ KeysLower (run S0 ops) := by
  have := UInv_run ops hw (uinv_genesis g)
  exact ⟨this.2, this.1⟩

example : Uniq (run init sampleOps) := (unique_partial genesis_init sampleOps (by decide)).1
/-- the mixed-case spelling of the sample history was stored lower-case and collides with `moniker` -/
example : apply (run init sampleOps) (.register 2 [⟨"MONIKER", "alice"⟩]) = none := by decide +kernel


/-! ## (b) only owners edit -/

theorem wfr_genesis {S : State} (g : Genesis S) : WFr S := ⟨(inv_genesis g).1, (inv_genesis g).2.1.1⟩

/-- (b), one message from ANY well-formed registry: a message signed by `s` creates, changes or deletes only records
whose address is `s` (`OpFrame`: for every record id the content `(id, address, key, value, date)` is unchanged, or
the record belonged to `s` before — if it existed — and belongs to `s` after — if it exists); messages without a
signer change no record -/
theorem only_owner_edits {S : State} {o : Op} (h : WFr S) (hr : o.isRotate = false) : OpFrame o S (step S o) := by
  unfold step
  split
  · rename_i S' ha; exact (WF_apply hr h.1 h.2 ha).2
  · unfold OpFrame
    split
    · exact OwnerOnly.refl _ _
    · exact fun _ => rfl

/-- the full statement of (b): in every reachable state, every non-rotation message edits only its signer's records -/
def C16_only_owner_full : Prop :=
  ∀ S0, Genesis S0 → ∀ (ops : List Op) (o : Op), o.isRotate = false → OpFrame o (run S0 ops) (step (run S0 ops) o)

/-- witness of defect #29: account 1 registers `username`, rotates to the fresh address 4 (records move to 4, but
`DeleteIdentityRecordById` leaves 1's index entry behind); then the OLD address 1 deletes the record owned by 4 -/
def rotationWitness : List Op := [.time 7, .register 1 [⟨"username", "alice"⟩], .rotate 1 1 4 true]

theorem rotation_happened : getRec (run init2 rotationWitness) 1 = some ⟨1, 4, "username", "alice", 7, []⟩ := by
  decide +kernel

theorem only_owner_edits_full_counterexample : ¬ C16_only_owner_full := by
  intro h
  have h1 := h init2 genesis_init2 rotationWitness (.delete 1 ["username"]) rfl
  have e2 : getRec (step (run init2 rotationWitness) (.delete 1 ["username"])) 1 = none := by decide +kernel
  unfold OpFrame at h1
  simp only [Op.signer] at h1
  rcases h1 1 with e | ⟨p, _⟩
  · rw [rotation_happened, e2] at e; cases e
  · have := p _ rotation_happened
    revert this; decide

/-- … and the old address can also overwrite it (the record returns to address 1 with a new value) -/
example : getRec (step (run init2 rotationWitness) (.register 1 [⟨"username", "mallory"⟩])) 1
    = some ⟨1, 1, "username", "mallory", 7, []⟩ := by decide +kernel

/-- the rotation itself is faithful on the record side ("a proven recovery rotation moves them unchanged to the new
address"): from any state whose stored keys are lower-case (every reachable state, `unique_partial`), every record
listed in the old address's index keeps id, key, value, date and verifier list and only changes its address to the
new one; all other records are untouched. What the rotation gets wrong is the INDEX of the old address, which
survives (`rotationWitness`). -/
theorem rotation_moves_records_unchanged {S S' : State} {p old new : Nat} {ok : Bool} (hk : KeysLower S)
    (ha : apply S (.rotate p old new ok) = some S') :
    (∀ e ∈ S.idx, e.addr = old → ∃ r, getRec S e.id = some r ∧ getRec S' e.id = some { r with addr := new }) ∧
    (∀ id, (∀ e ∈ S.idx, e.addr = old → e.id ≠ id) → getRec S' id = getRec S id) :=
  rotate_records hk ha

/-- non-vacuity + the defect: the witness rotation succeeds, the record moves to 4, the index entry of 1 is still there -/
example : (apply (run init2 [.time 7, .register 1 [⟨"username", "alice"⟩]]) (.rotate 1 1 4 true)).isSome = true ∧
    (run init2 rotationWitness).idx = [⟨4, "username", 1⟩, ⟨1, "username", 1⟩] := by decide +kernel

/-- (b) for all rotation-free histories from every genesis -/
theorem only_owner_edits_partial {S0 : State} (g : Genesis S0) (ops : List Op) (hr : ∀ o ∈ ops, o.isRotate = false)
    (o : Op) (ho : o.isRotate = false) : OpFrame o (run S0 ops) (step (run S0 ops) o) :=
  only_owner_edits (wfr_run ops (wfr_genesis g) hr) ho

example : WFr (run init sampleOps) := wfr_run _ (wfr_genesis genesis_init) (by decide)
/-- in the sample state account 2 cannot touch account 1's record: its delete selects nothing -/
example : getRec (step (run init sampleOps) (.delete 2 ["contact"])) 2 = getRec (run init sampleOps) 2 := by
  decide +kernel

/-! ## (c) a verifier appears only through its own approval of a covering request -/

/-- for ALL states and ALL messages (rotations and the whole-record path included): if verifier `u` is on record
`id` after the message and was not before, the message is `handle u reqId yes` and request `reqId` was pending, names
`u` as its verifier and covers `id` -/
theorem verifier_only_by_approval {S S' : State} {o : Op} (ha : apply S o = some S') :
    ∀ id r', getRec S' id = some r' → ∀ u ∈ r'.verifiers,
      (∃ r, getRec S id = some r ∧ u ∈ r.verifiers) ∨
      (∃ reqId q, o = .handle u reqId true ∧ getReq S reqId = some q ∧ q.verifier = u ∧ id ∈ q.recordIds) := by
  have lift : NoGrow S S' → ∀ id r', getRec S' id = some r' → ∀ u ∈ r'.verifiers,
      (∃ r, getRec S id = some r ∧ u ∈ r.verifiers) ∨
      (∃ reqId q, o = .handle u reqId true ∧ getReq S reqId = some q ∧ q.verifier = u ∧ id ∈ q.recordIds) :=
    fun n id r' hr' u hu => Or.inl (n id r' hr' u hu)
  cases o with
  | register a infos => exact lift (NoGrow_registerRecords (ite_none_some ha))
  | delete a keys => exact lift (NoGrow_deleteRecords ha)
  | request a v ids d n => exact lift (NoGrow_of_recs (requestVerify_recFrame (ite_none_some ha)).records)
  | handle v reqId yes =>
    intro id r' hr' u hu
    rcases handleVerify_grow (ite_none_some ha) id r' hr' u hu with h | ⟨h1, h2, q, hq, hv, hid⟩
    · exact Or.inl h
    · right; subst h1; subst h2; exact ⟨reqId, q, rfl, hq, hv, hid⟩
  | cancel a id => exact lift (NoGrow_of_recs (cancelReq_recFrame (ite_none_some ha)).records)
  | claimVal a m => exact lift (NoGrow_registerRecords (claimValidator_some ha))
  | claimCouncil a fs =>
    exact lift ((NoGrow_of_recs rfl).trans (NoGrow_registerRecords
      (S := { S with councilors := if S.councilors.contains a then S.councilors else a :: S.councilors }) (claimCouncilor_some ha)))
  | setKeysSingle new => have e := setKeysSingle_frames ha; subst e; exact lift (NoGrow_of_recs rfl)
  | setKeysWhole s new => have e := setKeysWhole_frames ha; subst e; exact lift (NoGrow_of_recs rfl)
  | setMinTip n => simp only [apply, Option.some.injEq] at ha; subst ha; exact lift (NoGrow_of_recs rfl)
  | time t => simp only [apply, Option.some.injEq] at ha; subst ha; exact lift (NoGrow_of_recs rfl)
  | rotate p o n ok => exact lift (NoGrow_rotate ha)

/-- non-vacuity: in the sample history the approval put verifier 2 on records 1 and 2 -/
example : (getRec (run init sampleOps) 1).map (·.verifiers) = some [2] := by decide +kernel

/-! ## (d) an edit drops verifications and cancels the pending requests -/

/-- from ANY well-formed registry: whenever a non-rotation message changes the value of a record, the record's verifier
list is empty afterwards and no pending request names it any more -/
theorem edit_drops_verifications {S S' : State} {o : Op} (h : WFr S) (hr : o.isRotate = false)
    (ha : apply S o = some S') :
    ∀ id r r', getRec S id = some r → getRec S' id = some r' → r.value ≠ r'.value →
      r'.verifiers = [] ∧ ∀ q ∈ S'.reqs, id ∉ q.recordIds := by
  have viaReg : ∀ {S1 : State} {a : Nat} {infos : List Info}, WFcore S1 → ReqWF S1 →
      (∀ id, getRec S1 id = getRec S id) → registerRecords S1 a infos = some S' →
      ∀ id r r', getRec S id = some r → getRec S' id = some r' → r.value ≠ r'.value →
        r'.verifiers = [] ∧ ∀ q ∈ S'.reqs, id ∉ q.recordIds := by
    intro S1 a infos w1 w2 hsame hreg id r r' h1 h2 hne
    obtain ⟨_, _, _, rs, canc⟩ := registerRecords_spec w1 w2 hreg
    rw [← hsame id] at h1
    refine ⟨?_, canc id r r' h1 h2 hne⟩
    rcases rs id r' h2 with e | e
    · rw [h1] at e; cases e; exact absurd rfl hne
    · exact e
  have same : (∀ id, (getRec S' id).map content = (getRec S id).map content) →
      ∀ id r r', getRec S id = some r → getRec S' id = some r' → r.value ≠ r'.value →
        r'.verifiers = [] ∧ ∀ q ∈ S'.reqs, id ∉ q.recordIds := by
    intro hc id r r' h1 h2 hne
    have := hc id
    rw [h1, h2] at this
    simp only [Option.map_some, Option.some.injEq, content, Prod.mk.injEq] at this
    exact absurd this.2.2.2.1.symm hne
  cases o with
  | register a infos => exact viaReg h.1 h.2 (fun _ => rfl) (ite_none_some ha)
  | delete a keys =>
    intro id r r' h1 h2 hne
    obtain ⟨_, _, _, sub, _⟩ := deleteRecords_spec h.1 h.2 ha
    have := sub id r' h2
    rw [h1] at this; cases this; exact absurd rfl hne
  | request a v ids d n =>
    exact same (fun id => by rw [(requestVerify_recFrame (ite_none_some ha)).getRec])
  | handle v id yes => exact same (handleVerify_WF h.1 (ite_none_some ha)).2
  | cancel a id => exact same (fun id' => by rw [(cancelReq_recFrame (ite_none_some ha)).getRec])
  | claimVal a m => exact viaReg h.1 h.2 (fun _ => rfl) (claimValidator_some ha)
  | claimCouncil a fs =>
    exact viaReg (S1 := { S with councilors := if S.councilors.contains a then S.councilors else a :: S.councilors })
      ⟨h.1.idxLive, h.1.recBounded, h.1.keysLower, h.1.reqLive, h.1.reqIdx⟩ ⟨h.2.1, h.2.2⟩ (fun _ => rfl) (claimCouncilor_some ha)
  | setKeysSingle new => have e := setKeysSingle_frames ha; subst e; exact same (fun _ => rfl)
  | setKeysWhole s new => have e := setKeysWhole_frames ha; subst e; exact same (fun _ => rfl)
  | setMinTip n => simp only [apply, Option.some.injEq] at ha; subst ha; exact same (fun _ => rfl)
  | time t => simp only [apply, Option.some.injEq] at ha; subst ha; exact same (fun _ => rfl)
  | rotate p o n ok => simp [Op.isRotate] at hr

/-- the full statement of (d) over all reachable states -/
def C16_edit_drops_full : Prop :=
  ∀ S0, Genesis S0 → ∀ (ops : List Op) (o : Op) (S' : State), o.isRotate = false → apply (run S0 ops) o = some S' →
    ∀ id r r', getRec (run S0 ops) id = some r → getRec S' id = some r' → r.value ≠ r'.value →
      r'.verifiers = [] ∧ ∀ q ∈ S'.reqs, id ∉ q.recordIds

/-- defect #29 again: after the rotation the new owner 4 requests a verification of the moved record; the old
address 1 then changes the value — the request of 4 stays pending on the changed record -/
def editWitness : List Op := rotationWitness ++ [.request 4 2 [1] 0 0]

theorem edit_drops_verifications_full_counterexample : ¬ C16_edit_drops_full := by
  intro h
  have hs : (apply (run init2 editWitness) (.register 1 [⟨"username", "mallory"⟩])).isSome = true := by decide +kernel
  have e1 : getRec (run init2 editWitness) 1 = some ⟨1, 4, "username", "alice", 7, []⟩ := by decide +kernel
  have e2 : getRec (step (run init2 editWitness) (.register 1 [⟨"username", "mallory"⟩])) 1
      = some ⟨1, 1, "username", "mallory", 7, []⟩ := by decide +kernel
  have e3 : (⟨1, 4, 2, [1], 0, 0, 7⟩ : Request) ∈ (step (run init2 editWitness) (.register 1 [⟨"username", "mallory"⟩])).reqs := by
    decide +kernel
  have := (h init2 genesis_init2 editWitness _ _ rfl (apply_step_of_isSome hs) 1 _ _ e1 e2 (by decide)).2 _ e3
  exact this (by decide)

/-- (d) for all rotation-free histories from every genesis -/
theorem edit_drops_verifications_partial {S0 : State} (g : Genesis S0) (ops : List Op)
    (hr : ∀ o ∈ ops, o.isRotate = false) (o : Op) (ho : o.isRotate = false) (S' : State)
    (ha : apply (run S0 ops) o = some S') :
    ∀ id r r', getRec (run S0 ops) id = some r → getRec S' id = some r' → r.value ≠ r'.value →
      r'.verifiers = [] ∧ ∀ q ∈ S'.reqs, id ∉ q.recordIds :=
  edit_drops_verifications (wfr_run ops (wfr_genesis g) hr) ho ha

/-- non-vacuity: in the sample state record 2 (`contact` of account 1) carries verifier 2 and a pending request;
editing it empties both -/
example : (getRec (run init sampleOps) 2).map (·.verifiers) = some [2] ∧ (run init sampleOps).reqs.length = 1 ∧
    (getRec (step (run init sampleOps) (.register 1 [⟨"Contact", "y"⟩])) 2).map (·.verifiers) = some [] ∧
    (step (run init sampleOps) (.register 1 [⟨"Contact", "y"⟩])).reqs.length = 0 := by decide +kernel

/-! ## (e) tips: escrowed on request, paid out exactly once -/

/-- for ALL histories from every genesis (rotations and every network-property change included): the gov module
account holds, per denomination, exactly the sum of the tips of the pending requests, and request ids are pairwise
different and bounded by the counter -/
theorem tip_escrow {S0 : State} (g : Genesis S0) (ops : List Op) : EscInv (run S0 ops) :=
  EscInv_run ops (escinv_genesis g)

/-- one message from any state with the invariant -/
theorem tip_escrow_step {S : State} (o : Op) (h : EscInv S) : EscInv (step S o) := EscInv_step h

/-- the invariant implies the driver's oracle bit -/
theorem escrowB_of_inv {S : State} (h : EscInv S) : escrowB S = true := by
  unfold escrowB
  simp only [List.all_cons, List.all_nil, Bool.and_true, Bool.and_eq_true, beq_iff_eq]
  exact ⟨h.2 0, h.2 1⟩

/-- a tip is escrowed when the request is made: the requester pays exactly the tip into escrow and the request
with the next id is pending -/
theorem tip_escrowed_on_request {S S' : State} {a v : Nat} {ids : List Nat} {d n : Nat}
    (ha : apply S (.request a v ids d n) = some S') :
    S'.lastReqId = S.lastReqId + 1 ∧
    (∃ le, getReq S' (S.lastReqId + 1) = some ⟨S.lastReqId + 1, a, v, ids, d, n, le⟩) ∧
    balGet S' a d + n = balGet S a d ∧ escrowGet S' d = escrowGet S d + n :=
  requestVerify_escrows (ite_none_some ha)

/-- a request with tip 10 from account 1 to verifier 2 -/
def tipOps : List Op := [.register 1 [⟨"moniker", "alice"⟩], .request 1 2 [1] 0 10]

/-- handling (approve OR reject) pays the tip to the verifier, once: the request was pending with this verifier,
exactly its tip moves from escrow to the verifier and no other balance changes, the request is gone — and it stays
gone in every continuation, so every later `handle` / `cancel` of the same id is rejected -/
theorem tip_paid_once_handle {S S' : State} {v id : Nat} {yes : Bool} (hw : ReqWF S)
    (ha : apply S (.handle v id yes) = some S') :
    ∃ q, getReq S id = some q ∧ q.verifier = v ∧
      (∀ a d, balGet S' a d = balGet S a d + (if a = v ∧ d = q.denom then q.amount else 0)) ∧
      (∀ d, escrowGet S' d + tipIn d q = escrowGet S d) ∧
      ∀ ops : List Op, getReq (run S' ops) id = none ∧
        (∀ v' yes', apply (run S' ops) (.handle v' id yes') = none) ∧
        (∀ a', apply (run S' ops) (.cancel a' id) = none) := by
  have hh := ite_none_some ha
  obtain ⟨q, hq, hv, hgone, hb, he⟩ := handleVerify_payout hh
  refine ⟨q, hq, hv, hb, he, ?_⟩
  intro ops
  have hle : id ≤ S'.lastReqId := by
    have := hw.2 q (getReq_mem hq).1
    rw [(getReq_mem hq).2] at this
    exact Nat.le_trans this (ReqMono_handleVerify hh).1
  have hn := (ReqMono_run ops S').2 id hle hgone
  refine ⟨hn, ?_, ?_⟩
  · intro v' yes'
    simp only [apply]
    split
    · rfl
    · unfold handleVerify; rw [hn]
  · intro a'
    simp only [apply]
    split
    · rfl
    · unfold cancelReq; rw [hn]

example : ReqWF (run init2 tipOps) ∧ (apply (run init2 tipOps) (.handle 2 1 true)).isSome = true :=
  ⟨(tip_escrow genesis_init2 _).1, by decide +kernel⟩

/-- cancelling refunds the tip to the requester, once -/
theorem tip_paid_once_cancel {S S' : State} {a id : Nat} (hw : ReqWF S)
    (ha : apply S (.cancel a id) = some S') :
    ∃ q, getReq S id = some q ∧ q.addr = a ∧
      (∀ b d, balGet S' b d = balGet S b d + (if b = a ∧ d = q.denom then q.amount else 0)) ∧
      (∀ d, escrowGet S' d + tipIn d q = escrowGet S d) ∧
      ∀ ops : List Op, getReq (run S' ops) id = none ∧
        (∀ v' yes', apply (run S' ops) (.handle v' id yes') = none) ∧
        (∀ a', apply (run S' ops) (.cancel a' id) = none) := by
  have hc := ite_none_some ha
  obtain ⟨q, hq, hadr, hgone, hb, he⟩ := cancelReq_payout hc
  refine ⟨q, hq, hadr, hb, he, ?_⟩
  intro ops
  have hle : id ≤ S'.lastReqId := by
    have := hw.2 q (getReq_mem hq).1
    rw [(getReq_mem hq).2] at this
    exact Nat.le_trans this (ReqMono_cancelReq hc).1
  have hn := (ReqMono_run ops S').2 id hle hgone
  refine ⟨hn, ?_, ?_⟩
  · intro v' yes'
    simp only [apply]
    split
    · rfl
    · unfold handleVerify; rw [hn]
  · intro a'
    simp only [apply]
    split
    · rfl
    · unfold cancelReq; rw [hn]

/-- non-vacuity: a request with tip 10, handled by its verifier; escrow goes 0 → 10 → 0 and the verifier receives 10 -/
example : escrowGet (run init2 tipOps) 0 = 10 ∧ balGet (run init2 tipOps) 1 0 = 4999999990 ∧
    escrowGet (step (run init2 tipOps) (.handle 2 1 false)) 0 = 0 ∧
    balGet (step (run init2 tipOps) (.handle 2 1 false)) 2 0 = 5000000010 ∧
    apply (step (run init2 tipOps) (.handle 2 1 false)) (.cancel 1 1) = none := by decide +kernel
example : EscInv (run init2 tipOps) := tip_escrow genesis_init2 _


/-! ## the moniker-deletion guard (not part of the C16 statement; listed in DESIGN §5 C16) -/

/-- the intended guard: `DeleteIdentityRecords` never removes a `moniker` record -/
def C16_moniker_guard_full : Prop :=
  ∀ S0, Genesis S0 → ∀ (ops : List Op) (a : Nat) (keys : List String) (S' : State),
    apply (run S0 ops) (.delete a keys) = some S' →
    ∀ id r, getRec (run S0 ops) id = some r → r.key = "moniker" → getRec S' id = some r

/-- the guard compares the key as spelled by the caller: `Moniker` passes it and is then lower-cased -/
theorem moniker_guard_counterexample : ¬ C16_moniker_guard_full := by
  intro h
  have hs : (apply (run init [.register 1 [⟨"moniker", "alice"⟩]]) (.delete 1 ["Moniker"])).isSome = true := by decide +kernel
  have e1 : getRec (run init [.register 1 [⟨"moniker", "alice"⟩]]) 1 = some ⟨1, 1, "moniker", "alice", 0, []⟩ := by decide +kernel
  have e2 : getRec (step (run init [.register 1 [⟨"moniker", "alice"⟩]]) (.delete 1 ["Moniker"])) 1 = none := by decide +kernel
  have := h init genesis_init _ 1 ["Moniker"] _ (apply_step_of_isSome hs) 1 _ e1 rfl
  rw [e2] at this; cases this

/-- … and an empty key list deletes every record of the address, the moniker included -/
example : getRec (step (run init [.register 1 [⟨"moniker", "alice"⟩]]) (.delete 1 [])) 1 = none := by decide +kernel

/-- the guard works for callers that name at least one key and spell `moniker` in lower case whenever they mean it -/
theorem moniker_guard_partial {S S' : State} {a : Nat} {keys : List String} (h : WFr S)
    (hne : keys.isEmpty = false) (hsp : ∀ k ∈ keys, lower k = "moniker" → k = "moniker")
    (ha : apply S (.delete a keys) = some S') :
    ∀ id r, getRec S id = some r → r.key = "moniker" → getRec S' id = some r := by
  intro id r hr hk
  have hd : deleteRecords S a keys = some S' := ha
  obtain ⟨_, _, _, sub, gone⟩ := deleteRecords_spec h.1 h.2 hd
  cases hS' : getRec S' id with
  | some r' =>
    have := sub id r' hS'
    rw [hr] at this; cases this; rfl
  | none =>
    exfalso
    rcases gone id r hr hS' with h1 | h1
    · rw [hne] at h1; cases h1
    · rw [hk] at h1
      obtain ⟨k, hkin, hkl⟩ := List.mem_map.mp h1
      have := hsp k hkin hkl
      -- the guard rejects the literal key "moniker"
      unfold deleteRecords at hd
      split at hd
      · cases hd
      · rename_i hguard
        apply hguard
        simp only [List.any_eq_true, Bool.or_eq_true, Bool.not_eq_true', beq_iff_eq]
        exact ⟨k, hkin, Or.inr this⟩

example : apply (run init [.register 1 [⟨"moniker", "alice"⟩]]) (.delete 1 ["moniker"]) = none := by decide +kernel

/-! ### export + import of the gov state (`Ident.reimport`) -/

/-- the fields an import does not touch -/
def SameBooks (S S' : State) : Prop :=
  S'.lastRecordId = S.lastRecordId ∧ S'.lastReqId = S.lastReqId ∧ S'.bal = S.bal ∧ S'.escrow = S.escrow ∧
  S'.uniqueKeys = S.uniqueKeys ∧ S'.minTip = S.minTip

theorem setRecord_sameBooks {S S' : State} {r : Record} (h : setRecord S r = some S') : SameBooks S S' := by
  unfold setRecord at h
  split at h
  · cases h
  · split at h
    · cases h
    · cases h; exact ⟨rfl, rfl, rfl, rfl, rfl, rfl⟩

theorem importRecords_sameBooks (rs : List Record) {S S' : State} (h : importRecords rs S = some S') : SameBooks S S' := by
  induction rs generalizing S with
  | nil => simp [importRecords] at h; subst h; exact ⟨rfl, rfl, rfl, rfl, rfl, rfl⟩
  | cons r rs ih =>
    simp only [importRecords] at h
    cases hs : setRecord S r with
    | none => simp [hs] at h
    | some S1 =>
      simp only [hs] at h
      have a := setRecord_sameBooks hs
      have b := ih h
      exact ⟨b.1.trans a.1, b.2.1.trans a.2.1, b.2.2.1.trans a.2.2.1, b.2.2.2.1.trans a.2.2.2.1, b.2.2.2.2.1.trans a.2.2.2.2.1, b.2.2.2.2.2.trans a.2.2.2.2.2⟩

theorem foldl_setReq_sameBooks (qs : List Request) (S : State) : SameBooks S (qs.foldl setReq S) := by
  induction qs generalizing S with
  | nil => exact ⟨rfl, rfl, rfl, rfl, rfl, rfl⟩
  | cons q qs ih =>
    simp only [List.foldl_cons]
    have b := ih (setReq S q)
    exact ⟨b.1, b.2.1, b.2.2.1, b.2.2.2.1, b.2.2.2.2.1, b.2.2.2.2.2⟩

/-- **export + import keeps the books**: the two id counters (so that ids handed out afterwards are fresh), every
balance, the escrow of the gov module account, the unique-key list and the minimum tip are what they were. -/
theorem reimport_keeps_counters_and_money {S S' : State} (h : reimport S = some S') : SameBooks S S' := by
  unfold reimport at h
  simp only at h
  split at h
  · cases h
  · rename_i S1 h1
    cases h
    have a := importRecords_sameBooks _ h1
    have b := foldl_setReq_sameBooks (sortBy (·.id) S.reqs) S1
    exact ⟨b.1.trans a.1, b.2.1.trans a.2.1, b.2.2.1.trans a.2.2.1, b.2.2.2.1.trans a.2.2.2.1, b.2.2.2.2.1.trans a.2.2.2.2.1, b.2.2.2.2.2.trans a.2.2.2.2.2⟩

def exampleState : State :=
  { records := [⟨2, 1, "moniker", "bob", 5, []⟩, ⟨1, 0, "moniker", "alice", 3, [7]⟩],
    idx := [⟨1, "moniker", 2⟩, ⟨0, "moniker", 1⟩, ⟨0, "deleted", 9⟩], lastRecordId := 9,
    reqs := [⟨4, 0, 7, [1], 0, 100, 3⟩], byReq := [(0, 4)], byApp := [(7, 4)], lastReqId := 4 }

/-- non-vacuity: a registry with two records (ids out of order in the store list), a stale index entry and a pending
request is imported; the stale index entry is gone, everything else is back -/
example :
    (reimport exampleState).map (fun S' => S'.records.map (·.id)) = some [2, 1] ∧
    (reimport exampleState).map (fun S' => S'.idx.length) = some 2 ∧
    (reimport exampleState).map (fun S' => (S'.lastRecordId, S'.lastReqId)) = some (9, 4) ∧
    (reimport exampleState).map (fun S' => S'.byReq) = some [(0, 4)] := by decide

/-! ### Key spaces of the stores this model keeps in separate maps (table `Gen.Keys`)

The model keeps each record kind of a module in a field of its own; the module keeps them in ONE store under byte prefixes.
No prefix extends another (checked on the regenerated table), so by `Sekai.Keys.keys_of_different_kinds_differ` a key of one
kind is never a key of another kind. -/

theorem gov_key_spaces_disjoint : Sekai.Keys.disjoint Sekai.Gen.Keys.stores "gov" = true := by decide +kernel

/-! ### the genesis tool -/

/-- **`gentx-claim` hands the chain a state the identity theorems start from**: if no record id of the input file exceeds
its counter, the same holds for the output, and the id given to the validator's moniker record was nobody's -/
theorem gentxClaim_keeps_recBounded (S : State) (addr : Nat) (m : String) (d : Nat) (h : RecBounded S) :
    RecBounded (gentxClaim S addr m d) ∧ ∀ r ∈ S.records, r.id ≠ S.lastRecordId + 1 := by
  refine ⟨?_, ?_⟩
  · intro r hr
    simp only [gentxClaim, List.mem_append, List.mem_singleton] at hr ⊢
    rcases hr with hr | rfl
    · exact Nat.le_succ_of_le (h r hr)
    · exact Nat.le_refl _
  · intro r hr he
    have := h r hr
    omega

/-- a file with a gap (only id 2 left, counter 2): moniker record 3, counter 3 - recomputing the counter from the NUMBER of
records (2) would hand the next registration the id 3 again -/
example : (gentxClaim { records := [⟨2, 9, "username", "a", 0, []⟩], lastRecordId := 2 } 7 "v" 0).lastRecordId = 3 ∧
    ((gentxClaim { records := [⟨2, 9, "username", "a", 0, []⟩], lastRecordId := 2 } 7 "v" 0).records.map (·.id)) = [2, 3] := by decide

end Sekai.Props.C16
