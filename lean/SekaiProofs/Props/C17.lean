import Sekai.Model.Custody
import SekaiProofs.Lemmas.Custody
import Sekai.Gen.App
import Sekai.Gen.Keys
import Sekai.Model.App
/-! # C17 — Custody: guarded funds leave only with the required approvals

Theorems about `Sekai.Custody` (lean/Sekai/Model/Custody.lean), the executable model of `x/custody` and of
`CustodyDecorator` that the harness (`harness/c17.go`) compares line by line with the real code.

The property as stated is FALSE of the code in several independent ways. For each way the full statement is
kept as a `def …_full : Prop`, its negation is proved from a closed witness (`…_counterexample`) that the
harness replays on the real code (finding keys in the doc strings), and what does hold for ALL states and
inputs is proved as `…_partial`.

Symbolic cryptography: `keyHash : Nat → Key` is an injective constructor (`hash_injective`); nothing else is
assumed about SHA-256. -/
namespace Sekai.Props.C17
open Sekai.Custody

/-! ## 1. Who may change settings: the key check of the decorator -/

theorem hash_injective {a b : Nat} (h : keyHash a = keyHash b) : a = b := by
  simpa [keyHash] using h

/-- the seven message kinds whose `case` in the decorator compares `sha256(OldKey)` with the stored key -/
def keyCheckedKind : Msg → Bool
  | .create .. | .addCust .. | .rmCust .. | .dropCust .. | .addWl .. | .rmWl .. | .dropWl .. => true
  | _ => false

theorem keyArgsChecked_isSome_iff (m : Msg) : (m.keyArgsChecked).isSome = keyCheckedKind m := by
  cases m <;> rfl

/-- **Key check, exact (partial: signer's own custody enabled, one of the seven kinds).** The decorator lets
the message pass iff `TargetAddress` is empty or equals the signer's `NextController` AND `sha256(OldKey)`
is the stored key. -/
theorem key_checked_iff_partial (s : State) (m : Msg) (st : Settings) (k : KeyArgs)
    (hs : s.settings m.signer = some st) (hen : st.enabled = true) (hk : m.keyArgsChecked = some k) :
    anteSwitch s m = .ok () ↔ (k.target = .empty ∨ k.target = st.next) ∧ keyHash k.old = st.key := by
  unfold anteSwitch
  simp only [hs, hen, hk, keyCheck]
  by_cases h1 : k.target = .empty
  · by_cases h2 : keyHash k.old = st.key <;> simp [h1, h2]
  · by_cases h3 : k.target = st.next
    · by_cases h2 : keyHash k.old = st.key <;> simp [h3, h2]
    · simp [h1, h3]

example : ∃ s m st k, s.settings m.signer = some st ∧ st.enabled = true ∧ m.keyArgsChecked = some k ∧
    anteSwitch s m = .ok () :=
  ⟨{ settings := fun a => if a = 1 then some { enabled := true, key := keyHash 7 } else none },
   .dropCust 1 ⟨7, keyHash 8, .empty, .empty⟩, { enabled := true, key := keyHash 7 }, ⟨7, keyHash 8, .empty, .empty⟩,
   by decide, rfl, rfl, rfl⟩

/-- knowledge of the key: when the stored key is the keyHash of `p`, only `OldKey = p` passes -/
theorem key_preimage_partial (s : State) (m : Msg) (st : Settings) (k : KeyArgs) (p : Nat)
    (hs : s.settings m.signer = some st) (hen : st.enabled = true) (hk : m.keyArgsChecked = some k)
    (hp : st.key = keyHash p) (hok : anteSwitch s m = .ok ()) : k.old = p := by
  have := (key_checked_iff_partial s m st k hs hen hk).1 hok
  exact hash_injective (this.2.trans hp)

/-- a key that is not a hash (`Key.raw`) can never be matched: such an account is frozen for the seven kinds -/
theorem raw_key_never_passes (s : State) (m : Msg) (st : Settings) (k : KeyArgs) (n : Nat)
    (hs : s.settings m.signer = some st) (hen : st.enabled = true) (hk : m.keyArgsChecked = some k)
    (hp : st.key = .raw n) : anteSwitch s m ≠ .ok () := by
  intro hok
  have := ((key_checked_iff_partial s m st k hs hen hk).1 hok).2
  rw [hp] at this
  cases this

/-- **Transaction level (partial).** In every ACCEPTED transaction, every message of the seven kinds whose
signer has custody enabled carried the preimage of that signer's key (and an admissible target). -/
theorem accepted_tx_proves_signer_key_partial (s : State) (tx : Tx) (m : Msg) (st : Settings) (k : KeyArgs)
    (hm : m ∈ tx.msgs) (hs : s.settings m.signer = some st) (hen : st.enabled = true)
    (hk : m.keyArgsChecked = some k) (hok : (runTx s tx).2 = .ok) :
    keyHash k.old = st.key ∧ (k.target = .empty ∨ k.target = st.next) := by
  unfold runTx at hok
  split at hok
  · cases hok
  · split at hok
    · cases hok
    · rename_i s1 hante
      have hsw := anteAll_ok_switch hante m hm
      have := (key_checked_iff_partial s m st k hs hen hk).1 hsw
      exact ⟨this.2, this.1⟩

example : ∃ s tx m st k, m ∈ tx.msgs ∧ s.settings m.signer = some st ∧ st.enabled = true ∧
    m.keyArgsChecked = some k ∧ (runTx s tx).2 = .ok :=
  ⟨{ settings := fun a => if a = 1 then some { enabled := true, key := keyHash 7 } else none },
   ⟨1, 0, 0, [.dropCust 1 ⟨7, keyHash 8, .empty, .empty⟩]⟩, .dropCust 1 ⟨7, keyHash 8, .empty, .empty⟩,
   { enabled := true, key := keyHash 7 }, ⟨7, keyHash 8, .empty, .empty⟩, by simp, by decide, rfl, rfl, rfl⟩

/-- the other kinds: `disable`, `drop` and `confirm` are never examined by the `switch` -/
theorem disable_drop_confirm_never_checked (s : State) (a : Addr) (k : KeyArgs) (b : Addr) (h : HashStr) (pw : Nat) :
    anteSwitch s (.disable a k) = .ok () ∧ anteSwitch s (.drop a k) = .ok () ∧
    anteSwitch s (.confirm a b h pw) = .ok () := by
  refine ⟨?_, ?_, ?_⟩ <;>
  · unfold anteSwitch
    cases hs : s.settings a with
    | none => simp [Msg.signer, hs]
    | some st => cases he : st.enabled <;> simp [Msg.signer, hs, he, Msg.keyArgsChecked, Msg.typeClash]

/-- …and Approve / Decline / the three limits messages hit the `case` of ANOTHER message type (their `Type()`
strings are reused), so a signer with custody enabled can never send them; otherwise nothing is checked -/
theorem type_clash_rejected (s : State) (m : Msg) (st : Settings) (hc : m.typeClash = true)
    (hs : s.settings m.signer = some st) : anteSwitch s m = if st.enabled then .error .invType else .ok () := by
  unfold anteSwitch
  cases m <;> simp [Msg.typeClash] at hc <;> cases he : st.enabled <;> simp [hs, he, Msg.keyArgsChecked, Msg.typeClash]

/-- without an enabled custody of its own the signer passes the `switch` with ANY message -/
theorem no_own_custody_no_check (s : State) (m : Msg)
    (h : s.settings m.signer = none ∨ ∃ st, s.settings m.signer = some st ∧ st.enabled = false) :
    anteSwitch s m = .ok () := by
  unfold anteSwitch
  rcases h with h | ⟨st, h, he⟩ <;> simp [h, *]

/-! ## 2. A plain bank send of a guarded account is rejected by the decorator -/

/-- the decorator fails as soon as one message fails (whatever precedes it) -/
theorem anteAll_error_of_mem (now : Int) (msgs : List Msg) (s : State) (m : Msg) (hm : m ∈ msgs)
    (hbad : ∀ s1, StatusOnly s s1 → ∃ e, anteMsg now s1 m = .error e) : ∃ e, anteAll now s msgs = .error e := by
  induction msgs generalizing s with
  | nil => cases hm
  | cons x t ih =>
    simp only [anteAll]
    cases hx : anteMsg now s x with
    | error e => exact ⟨e, rfl⟩
    | ok s2 =>
      cases hm with
      | head =>
        obtain ⟨e, he⟩ := hbad s (StatusOnly.refl s)
        rw [hx] at he; cases he
      | tail _ hm' =>
        exact ih s2 hm' (fun s1 h1 => hbad s1 ((anteMsg_statusOnly hx).trans h1))

theorem anteBank_blocks (now : Int) (s : State) (a to : Addr) (amt : Coins) (st : Settings)
    (hs : s.settings a = some st) (hen : st.enabled = true) (hc : s.custodians a ≠ some []) :
    ∃ e, anteBank now s a to amt = .error e := by
  have hg : ∃ e, bankGuard s st a to = .error e := by
    unfold bankGuard
    simp only [hen, ↓reduceIte]
    cases hcs : s.custodians a with
    | none => exact ⟨.panic, rfl⟩
    | some cs =>
      cases cs with
      | nil => exact absurd hcs hc
      | cons x t => exact ⟨.conflict, by simp⟩
  obtain ⟨e, he⟩ := hg
  exact ⟨e, by simp [anteBank, anteBankCalc, hs, he]⟩

/-- **`bank.MsgSend` is blocked (partial: only this message type).** For every state, every transaction
that contains a plain bank send whose signer has custody enabled and a custodian record that is missing
(the decorator panics) or non-empty (tombstones included) is rejected and changes nothing. -/
theorem bank_send_blocked_partial (s : State) (tx : Tx) (a to : Addr) (amt : Coins) (st : Settings)
    (hm : .bankSend a to amt ∈ tx.msgs) (hs : s.settings a = some st) (hen : st.enabled = true)
    (hc : s.custodians a ≠ some []) : ∃ e, runTx s tx = (s, .err e) := by
  unfold runTx
  split
  · exact ⟨_, rfl⟩
  · have : ∃ e, anteAll tx.now s tx.msgs = .error e := by
      apply anteAll_error_of_mem tx.now tx.msgs s _ hm
      intro s1 h1
      obtain ⟨f, rfl⟩ := h1
      unfold anteMsg
      cases hsw : anteSwitch { s with status := f } (.bankSend a to amt) with
      | error e => exact ⟨e, rfl⟩
      | ok u => exact anteBank_blocks tx.now _ a to amt st hs hen hc
    obtain ⟨e, he⟩ := this
    rw [he]
    exact ⟨e, rfl⟩

def guardedDemo : State :=
  { settings := fun a => if a = 1 then some { enabled := true, mode := 50, key := keyHash 1 } else none,
    custodians := fun a => if a = 1 then some [(4, true), (5, true)] else none,
    bal := fun _ d => if d = 0 then 10000000 else 0 }

example : (.bankSend 1 3 [(0, 5)] : Msg) ∈ (⟨1, 200, 0, [.bankSend 1 3 [(0, 5)]]⟩ : Tx).msgs ∧
    guardedDemo.settings 1 = some { enabled := true, mode := 50, key := keyHash 1 } ∧
    guardedDemo.custodians 1 ≠ some [] := by decide

/-- the full statement: NO direct send of a guarded account is accepted -/
def every_direct_send_blocked_full : Prop :=
  ∀ (s : State) (a to : Addr) (amt : Coins) (fee : Nat) (now : Int) (st : Settings) (cs : List (Addr × Bool)),
    s.settings a = some st → st.enabled = true → s.custodians a = some cs → cs ≠ [] →
    (runTx s ⟨a, fee, now, [.bankSend a to amt]⟩).2 ≠ .ok ∧ (runTx s ⟨a, fee, now, [.multiSend a to amt]⟩).2 ≠ .ok

/-- `C17/multisend/ignores-custody`: `MsgMultiSend` of a guarded account (mode 50 %, custodians {4,5}) is
accepted and moves the coins without any approval -/
theorem every_direct_send_blocked_counterexample : ¬ every_direct_send_blocked_full := by
  intro h
  have := (h guardedDemo 1 3 [(0, 123456)] 200 0 _ _ rfl rfl rfl (by decide)).2
  exact this (by decide)

example : ((runTx guardedDemo ⟨1, 200, 0, [.multiSend 1 3 [(0, 123456)]]⟩).1.bal 3 0 = 10123456) ∧
    ((runTx guardedDemo ⟨1, 200, 0, [.multiSend 1 3 [(0, 123456)]]⟩).1.bal 1 0 = 10000000 - 123456 - 200) := by decide

/-! ## 3. Settings, custodians, whitelist and limits change only with the current key? -/

/-- the full statement: the policy of an account with custody enabled changes only in a transaction that
carries the preimage of ITS current key -/
def settings_need_key_full : Prop :=
  ∀ (s : State) (tx : Tx) (a : Addr) (st : Settings), s.settings a = some st → st.enabled = true →
    policy (runTx s tx).1 a ≠ policy s a → ∃ m ∈ tx.msgs, ∃ k, m.keyArgs = some k ∧ keyHash k.old = st.key

/-- `C17/settings/target-address-rewrites-victim`: account 7 (no custody of its own, so the decorator checks
nothing) sends `MsgDropCustodyCustodians{OldKey: wrong, NewKey: its own, TargetAddress: account 1}`: the
victim's custodians are dropped and its key replaced. -/
theorem settings_need_key_counterexample : ¬ settings_need_key_full := by
  intro h
  obtain ⟨m, hm, k, hk, hkey⟩ :=
    h guardedDemo ⟨7, 200, 0, [.dropCust 7 ⟨9, .raw 1, .empty, .addr 1⟩]⟩ 1 _ rfl rfl (by decide)
  simp only [List.mem_singleton] at hm
  subst hm
  simp only [Msg.keyArgs, Option.some.injEq] at hk
  subst hk
  exact absurd hkey (by decide)

example : policy (runTx guardedDemo ⟨7, 200, 0, [.dropCust 7 ⟨9, .raw 1, .empty, .addr 1⟩]⟩).1 1 =
    ⟨some { enabled := true, mode := 50, key := .raw 1 }, none, none, none⟩ := by decide

/-- the same through the limits messages (which, for a signer WITH custody enabled, are always rejected —
`type_clash_rejected` — so limits can only ever be written this way or while custody is disabled) -/
example : policy (runTx guardedDemo ⟨7, 200, 0, [.addLim 7 0 5 3600000 ⟨9, .raw 2, .empty, .addr 1⟩]⟩).1 1 =
    ⟨some { enabled := true, mode := 50, key := .raw 2 }, some [(4, true), (5, true)], none, some [(0, ⟨5, 3600000⟩)]⟩ := by
  decide

/-- the full statement restricted to the account's OWN messages about itself -/
def own_settings_need_key_full : Prop :=
  ∀ (s : State) (tx : Tx) (a : Addr) (st : Settings), s.settings a = some st → st.enabled = true →
    (∀ m ∈ tx.msgs, m.signer = a ∧ ∀ k, m.keyArgs = some k → k.target = .empty) →
    policy (runTx s tx).1 a ≠ policy s a → ∃ m ∈ tx.msgs, ∃ k, m.keyArgs = some k ∧ keyHash k.old = st.key

/-- `C17/settings/disable-drop-not-key-checked`: `MsgDisableCustodyRecord` (and `MsgDropCustodyRecord`) of the
account itself with a wrong key is accepted; afterwards nothing is guarded any more. -/
theorem own_settings_need_key_counterexample : ¬ own_settings_need_key_full := by
  intro h
  obtain ⟨m, hm, k, hk, hkey⟩ :=
    h guardedDemo ⟨1, 200, 0, [.disable 1 ⟨9, .raw 0, .empty, .empty⟩]⟩ 1 _ rfl rfl
      (by intro m hm; simp only [List.mem_singleton] at hm; subst hm; exact ⟨rfl, by intro k hk; cases hk; rfl⟩)
      (by decide)
  simp only [List.mem_singleton] at hm
  subst hm
  simp only [Msg.keyArgs, Option.some.injEq] at hk
  subst hk
  exact absurd hkey (by decide)

/-- wrong key, custody disabled, then the plain bank send that was blocked goes through -/
example :
    (runTx guardedDemo ⟨1, 200, 0, [.bankSend 1 3 [(0, 777)]]⟩).2 = .err .conflict ∧
    (runTx (runTx guardedDemo ⟨1, 200, 0, [.disable 1 ⟨9, .raw 0, .empty, .empty⟩]⟩).1
        ⟨1, 200, 0, [.bankSend 1 3 [(0, 777)]]⟩).2 = .ok ∧
    (runTx guardedDemo ⟨1, 200, 0, [.drop 1 ⟨9, .raw 0, .empty, .empty⟩]⟩).1.settings 1 = none := by decide

theorem keyArgsChecked_of_kind {m : Msg} {k : KeyArgs} (hk : m.keyArgs = some k) (hc : keyCheckedKind m = true) :
    m.keyArgsChecked = some k := by
  cases m <;> simp_all [Msg.keyArgs, keyCheckedKind, Msg.keyArgsChecked]

theorem execAll_policy_change {msgs : List Msg} {s s1 : State} (h : execAll s msgs = .ok s1) (a : Addr)
    (hch : policy s1 a ≠ policy s a) : ∃ m ∈ msgs, m.keyArgs.isSome := by
  induction msgs generalizing s with
  | nil => simp [execAll] at h; subst h; exact absurd rfl hch
  | cons x t ih =>
    simp only [execAll] at h
    split at h
    · cases h
    · rename_i s2 h2
      cases hx : x.keyArgs with
      | some k => exact ⟨x, List.mem_cons_self, by simp [hx]⟩
      | none =>
        obtain ⟨e1, e2, e3, e4, _, _⟩ := exec_nonSettings_samePolicy hx h2
        have : policy s2 a = policy s a := by simp [policy, e1, e2, e3, e4]
        obtain ⟨m, hm, hk⟩ := ih h (by rw [this]; exact hch)
        exact ⟨m, List.mem_cons_of_mem _ hm, hk⟩

theorem deductFee_policy {s s1 : State} {p : Addr} {fee : Nat} (h : deductFee s p fee = .ok s1) (a : Addr) :
    policy s1 a = policy s a := by
  unfold deductFee at h
  split at h
  · cases h
  · cases h; rfl

theorem statusOnly_policy {s s1 : State} (h : StatusOnly s s1) (a : Addr) : policy s1 a = policy s a := by
  obtain ⟨f, rfl⟩ := h; rfl

/-- **Own settings (partial: the transaction contains no `disable` / `drop` / limits message).** If a
transaction whose messages are all signed by `a` changes the policy of `a` (custody enabled), and all its
settings messages are of the seven key-checked kinds, then it carried the preimage of `a`'s key. -/
theorem own_policy_change_needs_key_partial (s : State) (tx : Tx) (a : Addr) (st : Settings)
    (hs : s.settings a = some st) (hen : st.enabled = true)
    (hsigner : ∀ m ∈ tx.msgs, m.signer = a)
    (hkinds : ∀ m ∈ tx.msgs, m.keyArgs.isSome → keyCheckedKind m = true)
    (hch : policy (runTx s tx).1 a ≠ policy s a) :
    ∃ m ∈ tx.msgs, ∃ k, m.keyArgs = some k ∧ keyHash k.old = st.key := by
  have hok : (runTx s tx).2 = .ok ∧ ∃ s2 s3, StatusOnly s s2 ∧ policy s3 a = policy s2 a ∧ execAll s3 tx.msgs = .ok (runTx s tx).1 := by
    rcases runTx_cases s tx with ⟨e, he⟩ | ⟨s1, s2, e, hante, hfee, _, he⟩ | ⟨s1, s2, s3, hante, hfee, hexec, he⟩
    · rw [he] at hch; exact absurd rfl hch
    · rw [he] at hch
      exfalso; apply hch
      show policy s2 a = policy s a
      rw [deductFee_policy hfee, statusOnly_policy (anteAll_statusOnly hante)]
    · rw [he]
      exact ⟨rfl, s1, s2, anteAll_statusOnly hante, deductFee_policy hfee a, hexec⟩
  obtain ⟨hres, s2, s3, h12, h23, hexec⟩ := hok
  have hch' : policy (runTx s tx).1 a ≠ policy s3 a := by
    rw [h23, statusOnly_policy h12]; exact hch
  obtain ⟨m, hm, hk⟩ := execAll_policy_change hexec a hch'
  obtain ⟨k, hk'⟩ := Option.isSome_iff_exists.1 hk
  have hc := keyArgsChecked_of_kind hk' (hkinds m hm hk)
  have hsm : s.settings m.signer = some st := by rw [hsigner m hm]; exact hs
  exact ⟨m, hm, k, hk', (accepted_tx_proves_signer_key_partial s tx m st k hm hsm hen hc hres).1⟩

example : policy (runTx guardedDemo ⟨1, 200, 0, [.addCust 1 [6] ⟨1, keyHash 2, .empty, .empty⟩]⟩).1 1 ≠ policy guardedDemo 1 := by
  decide

/-! ## 4. Approvals, password, release -/

def isCustodian (s : State) (t v : Addr) : Bool :=
  match s.custodians t with
  | some cs => aget cs v == some true
  | none => false

/-- guarded account 1 (mode 50 %, custodians {4,5}) with one pending transfer `3`: 1 000 000 to account 3, reward 1000 -/
def pendingDemo : State :=
  { guardedDemo with
    pool := fun a => if a = 1 then (some [(3, { frm := 1, to := 3, amount := [(0, 1000000)], password := 1, reward := [(0, 1000)] })]) else none }

/-- the full statement: an approval (or decline) transaction signed by `v` takes coins out of the guarded
account `t` only if `v` is one of its custodians -/
def only_custodians_count_full : Prop :=
  ∀ (s : State) (v t : Addr) (h : HashStr) (fee : Nat) (now : Int) (d : Denom), v ≠ t →
    (runTx s ⟨v, fee, now, [.approve v t h]⟩).1.bal t d < s.bal t d → isCustodian s t v = true

/-- `C17/approve/non-custodian-counts-and-is-paid`: account 7 is not a custodian of account 1; its approval is
counted (1 of 2 = 50 % ≥ mode), the transfer is released and 7 receives half of the reward. -/
theorem only_custodians_count_counterexample : ¬ only_custodians_count_full := by
  intro h
  have := h pendingDemo 7 1 ⟨3, 0⟩ 200 0 0 (by decide) (by decide)
  exact absurd this (by decide)

example :
    let r := runTx pendingDemo ⟨7, 200, 0, [.approve 7 1 ⟨3, 0⟩]⟩
    r.2 = .ok ∧ r.1.pool 1 = some [] ∧ r.1.bal 3 0 = 10000000 + 1000000 ∧ r.1.bal 7 0 = 10000000 - 200 + 500 ∧
    r.1.bal 1 0 = 10000000 - 1000000 - 500 := by decide

/-- account 1 requires a password (custody otherwise disabled); pending transfer `2` was sent with password 1 -/
def passwordDemo : State :=
  { settings := fun a => if a = 1 then some { enabled := false, usePassword := true, key := keyHash 1 } else none,
    pool := fun a => if a = 1 then (some [(2, { frm := 1, to := 3, amount := [(0, 1000000)], password := 1, reward := [(0, 1000)] })]) else none,
    bal := fun _ d => if d = 0 then 10000000 else 0 }

/-- the full statement: where a password is required, a confirmation moves coins only if it carries the
password the transfer was requested with -/
def password_checked_full : Prop :=
  ∀ (s : State) (who sender : Addr) (h : HashStr) (pw : Nat) (fee : Nat) (now : Int) (d : Denom)
    (st : Settings) (l : List (Nat × TxRec)) (r : TxRec),
    s.settings sender = some st → st.usePassword = true → s.pool sender = some l → aget l h.id = some r → who ≠ sender →
    (runTx s ⟨who, fee, now, [.confirm who sender h pw]⟩).1.bal sender d < s.bal sender d → pw = r.password

/-- `C17/password/never-compared`: `MsgPasswordConfirmTransaction.Password` is never read; anybody confirms
anybody's transfer with any string. -/
theorem password_checked_counterexample : ¬ password_checked_full := by
  intro h
  have := h passwordDemo 7 1 ⟨2, 0⟩ 2 200 0 0 _ _ _ rfl rfl rfl rfl (by decide) (by decide)
  exact absurd this (by decide)

/-- **Approve, exact (all states and inputs).** A first vote under the key (voter, target, raw hash) needs the
pool entry and the custodian record; it pays the voter `reward[0] / len(custodians map)` from the target,
records the vote, and then EITHER releases — exactly `amount` from the recorded sender to the recorded
recipient, entry deleted — when `(votes+1)·100/len ≥ mode` (custody enabled) and the entry is confirmed (password
required), OR stores the incremented vote count. Nothing else changes. -/
theorem approve_exact (s s' : State) (v t : Addr) (h : HashStr)
    (hfresh : aget s.votes ⟨v, t, h⟩ = none) (hex : execMsg s (.approve v t h) = .ok s') :
    ∃ l r cs rw b1, s.pool t = some l ∧ aget l h.id = some r ∧ s.custodians t = some cs ∧
      rewardShare r.reward cs.length = some rw ∧ sendCoins s.bal t v rw = some b1 ∧
      s'.votes = (⟨v, t, h⟩, 1) :: s.votes ∧ SamePolicy s s' ∧
      (if (allowCustodians (s.settings t) cs.length (r.votes + 1) && allowPassword (s.settings t) r.confirmed) = true
       then ∃ b2, sendCoins b1 r.frm r.to r.amount = some b2 ∧ s'.bal = b2 ∧ s'.pool = upd s.pool t (some (adel l h.id))
       else s'.bal = b1 ∧ s'.pool = upd s.pool t (some (aset l h.id { r with votes := r.votes + 1 }))) := by
  simp only [execMsg, hfresh] at hex
  cases hp : s.pool t with
  | none => simp [hp] at hex
  | some l =>
    simp only [hp] at hex
    cases hr : aget l h.id with
    | none => simp [hr] at hex
    | some r =>
      simp only [hr] at hex
      cases hc : s.custodians t with
      | none => simp [hc] at hex
      | some cs =>
        simp only [hc] at hex
        cases hrw : rewardShare r.reward cs.length with
        | none => simp [hrw] at hex
        | some rw =>
          simp only [hrw] at hex
          cases hb1 : sendCoins s.bal t v rw with
          | none => simp [hb1] at hex
          | some b1 =>
            simp only [hb1] at hex
            refine ⟨l, r, cs, rw, b1, rfl, hr, rfl, hrw, hb1, ?_⟩
            by_cases hok : (allowCustodians (s.settings t) cs.length (r.votes + 1) && allowPassword (s.settings t) r.confirmed) = true
            · simp only [hok, ↓reduceIte] at hex ⊢
              cases hb2 : sendCoins b1 r.frm r.to r.amount with
              | none => simp [hb2] at hex
              | some b2 =>
                simp only [hb2] at hex
                cases hex
                exact ⟨rfl, ⟨rfl, rfl, rfl, rfl, rfl, rfl⟩, b2, rfl, rfl, rfl⟩
            · simp only [hok, ↓reduceIte] at hex ⊢
              cases hex
              exact ⟨rfl, ⟨rfl, rfl, rfl, rfl, rfl, rfl⟩, rfl, rfl⟩

example : aget pendingDemo.votes ⟨4, 1, ⟨3, 0⟩⟩ = none ∧
    (runTx pendingDemo ⟨4, 0, 0, [.approve 4 1 ⟨3, 0⟩]⟩).2 = .ok := by decide

/-- a repeated vote under the same key changes nothing -/
theorem approve_same_key_noop (s : State) (v t : Addr) (h : HashStr) (x : Int)
    (hv : aget s.votes ⟨v, t, h⟩ = some x) : execMsg s (.approve v t h) = .ok s ∧ execMsg s (.decline v t h) = .ok s := by
  simp [execMsg, hv]

/-- bank: a single-coin `SendCoins` between two different accounts moves exactly that amount -/
theorem sendCoins_single (b b' : Bal) (frm to : Addr) (d n : Nat) (hne : frm ≠ to)
    (h : sendCoins b frm to [(d, n)] = some b') :
    n ≤ b frm d ∧ b' frm d = b frm d - n ∧ b' to d = b to d + n ∧
    ∀ a e, ¬ (a = frm ∧ e = d) → ¬ (a = to ∧ e = d) → b' a e = b a e := by
  unfold sendCoins at h
  simp only [subCoins] at h
  by_cases hlt : b frm d < n
  · simp [hlt] at h
  · simp only [hlt, ↓reduceIte, addCoins, Option.some.injEq] at h
    subst h
    have hne' : ¬ to = frm := fun e => hne e.symm
    refine ⟨by omega, ?_, ?_, ?_⟩
    · simp [hne]
    · simp [hne']
    · intro a e h1 h2
      simp [h1, h2]

/-- **A released transfer is paid once.** After the release the entry is gone, and on a state whose pool has
no entry under that hash an approval is a no-op or an error and a confirmation is an error: no coins move. -/
theorem released_entry_gone (l : List (Nat × TxRec)) (hid : Nat) : aget (adel l hid) hid = none :=
  aget_adel_self l hid

theorem no_entry_no_payment (s : State) (v t : Addr) (h : HashStr) (pw : Nat) (l : List (Nat × TxRec))
    (hp : s.pool t = some l) (hn : aget l h.id = none) :
    (execMsg s (.approve v t h) = .ok s ∨ execMsg s (.approve v t h) = .error .panic) ∧
    execMsg s (.confirm v t h pw) = .error .panic := by
  constructor
  · cases hv : aget s.votes ⟨v, t, h⟩ with
    | some x => left; simp [execMsg, hv]
    | none => right; simp [execMsg, hv, hp, hn]
  · simp [execMsg, hp, hn]

example : ∃ (s : State) (t : Addr) (l : List (Nat × TxRec)) (h : Nat), s.pool t = some l ∧ aget l h = none :=
  ⟨(runTx pendingDemo ⟨7, 200, 0, [.approve 7 1 ⟨3, 0⟩]⟩).1, 1, [], 3, by decide, rfl⟩

/-- **Confirm, exact.** The message's password is not an input of the result (`_` in the model); the entry is
marked confirmed, and the transfer is released iff the vote count already reaches the mode. -/
theorem confirm_ignores_password (s : State) (who sender : Addr) (h : HashStr) (pw pw' : Nat) :
    execMsg s (.confirm who sender h pw) = execMsg s (.confirm who sender h pw') := by
  simp [execMsg]

/-! ## 5. Each custodian counts once? -/

def dedup : List Nat → List Nat
  | [] => []
  | x :: t => if x ∈ dedup t then dedup t else x :: dedup t

/-- the distinct addresses that approved transfer `hid` of account `t` -/
def distinctApprovers (s : State) (t : Addr) (hid : Nat) : Nat :=
  (dedup ((approvalEntries s.votes t hid).map (·.1.voter))).length

/-- the full statement: over every history, a pending transfer never has more votes than distinct approvers -/
def counts_once_full : Prop :=
  ∀ (s0 : State), s0.votes = [] → (∀ a, s0.pool a = none) → ∀ (txs : List Tx) (t : Addr) (l : List (Nat × TxRec)) (hid : Nat) (r : TxRec),
    (run s0 txs).pool t = some l → aget l hid = some r → r.votes ≤ distinctApprovers (run s0 txs) t hid

/-- account 1: mode 100 %, custodians {4,5,6} -/
def threeDemo : State :=
  { settings := fun a => if a = 1 then some { enabled := true, mode := 100, key := keyHash 1 } else none,
    custodians := fun a => if a = 1 then some [(4, true), (5, true), (6, true)] else none,
    bal := fun _ d => if d = 0 then 10000000 else 0 }

def caseTxs : List Tx :=
  [⟨1, 200, 0, [.send 1 3 [(0, 1000000)] 0 [(0, 900)] 1]⟩,
   ⟨4, 200, 0, [.approve 4 1 ⟨1, 1⟩]⟩,          -- the hash in UPPER case
   ⟨4, 200, 0, [.approve 4 1 ⟨1, 0⟩]⟩]          -- the same hash in lower case

/-- `C17/approve/hash-case-counts-twice`: the vote store is keyed by the RAW hash string, the pool by the
lower-cased one, so one custodian votes once per spelling of the hash: 2 votes, 1 distinct approver. -/
theorem counts_once_counterexample : ¬ counts_once_full := by
  intro h
  have := h threeDemo rfl (fun _ => rfl) caseTxs 1
    [(1, { frm := 1, to := 3, amount := [(0, 1000000)], password := 0, reward := [(0, 900)], votes := 2 })] 1 _ (by decide) rfl
  exact absurd this (by decide)

/-- with two custodians and mode 100 % a single custodian releases the transfer alone (replayed by the harness) -/
example :
    let s0 : State := { threeDemo with custodians := fun a => if a = 1 then some [(4, true), (5, true)] else none }
    let s := run s0 caseTxs
    s.pool 1 = some [] ∧ s.bal 3 0 = 11000000 ∧ s.bal 5 0 = 10000000 := by decide

/-- **Counts once (partial: per spelling of the hash).** Over EVERY history from a state without pending
transfers and votes: the vote count of every pending transfer is at most the number of approval entries stored
for it, and the store holds at most one entry per (voter, target, raw hash string). -/
theorem counts_once_partial (s0 : State) (hv : s0.votes = []) (hp : ∀ a, s0.pool a = none) (txs : List Tx) :
    (∀ t l hid r, (run s0 txs).pool t = some l → aget l hid = some r →
        r.votes ≤ (approvalEntries (run s0 txs).votes t hid).length) ∧
    ((run s0 txs).votes.map (·.1)).Nodup := by
  have h0 : Inv s0 := by
    constructor
    · intro t l hid r h; rw [hp t] at h; cases h
    · unfold KeysFresh; rw [hv]; exact List.nodup_nil
  exact inv_run txs h0

example : threeDemo.votes = [] ∧ (run threeDemo caseTxs).pool 1 ≠ none ∧ (run threeDemo caseTxs).votes.length = 2 := by decide

/-- …so when every stored hash is spelled in lower case (variant 0), the approvers of a transfer are pairwise
distinct addresses: each ADDRESS counts at most once. -/
theorem canonical_hash_counts_addresses_once_partial (votes : List (VoteKey × Int)) (t : Addr) (hid : Nat)
    (hf : (votes.map (·.1)).Nodup) (hc : ∀ e ∈ votes, e.1.hash.variant = 0) :
    ((approvalEntries votes t hid).map (·.1.voter)).Nodup := by
  have hmem : ∀ e ∈ approvalEntries votes t hid, e ∈ votes := fun e he => (List.mem_filter.1 he).1
  -- work on the sub-list that satisfies the canonical-spelling hypothesis pointwise
  have key : ∀ (l : List (VoteKey × Int)), (l.map (·.1)).Nodup → (∀ e ∈ l, e.1.hash.variant = 0) →
      ((l.filter (isApproval t hid)).map (·.1.voter)).Nodup := by
    intro l hl hcl
    induction l with
    | nil => simp
    | cons x tl ih =>
      simp only [List.map_cons, List.nodup_cons] at hl
      obtain ⟨hx, htl⟩ := hl
      have hctl : ∀ e ∈ tl, e.1.hash.variant = 0 := fun e he => hcl e (List.mem_cons_of_mem _ he)
      simp only [List.filter_cons]
      split
      · rename_i hpx
        simp only [List.map_cons, List.nodup_cons]
        refine ⟨?_, ih htl hctl⟩
        intro hm
        obtain ⟨y, hy, hvy⟩ := List.mem_map.1 hm
        obtain ⟨hytl, hpy⟩ := List.mem_filter.1 hy
        apply hx
        refine List.mem_map.2 ⟨y, hytl, ?_⟩
        have cx := hcl x List.mem_cons_self
        have cy := hctl y hytl
        simp only [isApproval, Bool.and_eq_true, decide_eq_true_eq] at hpx hpy
        obtain ⟨⟨vx, tx, ⟨ix, wx⟩⟩, ex⟩ := x
        obtain ⟨⟨vy, ty, ⟨iy, wy⟩⟩, ey⟩ := y
        simp only at *
        obtain ⟨⟨h1, h2⟩, _⟩ := hpx
        obtain ⟨⟨h3, h4⟩, _⟩ := hpy
        subst h1 h2 h3 h4 cx cy hvy
        rfl
      · exact ih htl hctl
  exact key votes hf hc

example : ((approvalEntries (run threeDemo [⟨1, 200, 0, [.send 1 3 [(0, 1000000)] 0 [(0, 900)] 1]⟩, ⟨4, 200, 0, [.approve 4 1 ⟨1, 0⟩]⟩, ⟨5, 200, 0, [.approve 5 1 ⟨1, 0⟩]⟩]).votes 1 1).map (·.1.voter)) = [5, 4] := by
  decide

/-! ## 6. Whitelist and limits restrict every send? -/

/-- a transaction that contains a bank send on which the decorator's bank branch fails is rejected -/
theorem bankSend_rejected (s : State) (tx : Tx) (a to : Addr) (amt : Coins) (hm : .bankSend a to amt ∈ tx.msgs)
    (hbad : ∀ f, ∃ e, anteBank tx.now { s with status := f } a to amt = .error e) : ∃ e, runTx s tx = (s, .err e) := by
  unfold runTx
  split
  · exact ⟨_, rfl⟩
  · have : ∃ e, anteAll tx.now s tx.msgs = .error e := by
      apply anteAll_error_of_mem tx.now tx.msgs s _ hm
      intro s1 h1
      obtain ⟨f, rfl⟩ := h1
      unfold anteMsg
      cases hsw : anteSwitch { s with status := f } (.bankSend a to amt) with
      | error e => exact ⟨e, rfl⟩
      | ok u => exact hbad f
    obtain ⟨e, he⟩ := this
    rw [he]
    exact ⟨e, rfl⟩

/-- the full statement: no send path moves coins of a whitelist-using account to a recipient that is not on the list -/
def whitelist_restricts_every_send_full : Prop :=
  ∀ (s : State) (a to : Addr) (fee : Nat) (now : Int) (st : Settings) (wl : List (Addr × Bool)) (m : Msg),
    s.settings a = some st → st.useWhiteList = true → s.whitelist a = some wl → aget wl to ≠ some true → to ≠ a →
    m.signer = a → ∀ d, (runTx s ⟨a, fee, now, [m]⟩).1.bal to d ≤ s.bal to d

/-- account 2: no custody, `UseWhiteList` with whitelist {8} -/
def whitelistDemo : State :=
  { settings := fun a => if a = 2 then some { enabled := false, useWhiteList := true, key := keyHash 1 } else none,
    whitelist := fun a => if a = 2 then some [(8, true)] else none,
    bal := fun _ d => if d = 0 then 10000000 else 0 }

/-- `C17/whitelist/ignored-by-other-send-paths`: the whitelist is consulted for `bank.MsgSend` only; the custody
send (and `MsgMultiSend`) deliver to account 3, which is not on the list. -/
theorem whitelist_restricts_every_send_counterexample : ¬ whitelist_restricts_every_send_full := by
  intro h
  have := h whitelistDemo 2 3 200 0 _ _ (.send 2 3 [(0, 5000)] 0 [(0, 1000)] 1) rfl rfl rfl (by decide) (by decide) rfl 0
  exact absurd this (by decide)

example : (runTx whitelistDemo ⟨2, 200, 0, [.multiSend 2 3 [(0, 5000)]]⟩).1.bal 3 0 = 10005000 ∧
    (runTx whitelistDemo ⟨2, 200, 0, [.bankSend 2 3 [(0, 5000)]]⟩).2 = .err .notWl ∧
    (runTx whitelistDemo ⟨2, 200, 0, [.bankSend 2 8 [(0, 5000)]]⟩).2 = .ok := by decide

/-- **Whitelist (partial: `bank.MsgSend` only).** Every transaction containing a plain bank send of a
whitelist-using account to a recipient that is not (or no longer: `false` tombstone) on its list is rejected. -/
theorem whitelist_blocks_bank_send_partial (s : State) (tx : Tx) (a to : Addr) (amt : Coins) (st : Settings)
    (wl : List (Addr × Bool)) (hm : .bankSend a to amt ∈ tx.msgs) (hs : s.settings a = some st)
    (hwl : st.useWhiteList = true) (hw : s.whitelist a = some wl) (hn : aget wl to ≠ some true) :
    ∃ e, runTx s tx = (s, .err e) := by
  apply bankSend_rejected s tx a to amt hm
  intro f
  have hg : ∃ e, bankGuard { s with status := f } st a to = .error e := by
    unfold bankGuard
    split
    · exact ⟨_, rfl⟩
    · simp only [hwl, ↓reduceIte, hw, hn]
      exact ⟨_, rfl⟩
  obtain ⟨e, he⟩ := hg
  exact ⟨e, by simp [anteBank, anteBankCalc, hs, he]⟩

/-- the full statement: a single bank send above the configured amount of its denom is rejected -/
def limits_restrict_full : Prop :=
  ∀ (s : State) (a to : Addr) (n fee : Nat) (now : Int) (st : Settings) (ls : List (Denom × Limit)) (lim : Limit),
    s.settings a = some st → st.useLimits = true → s.limits a = some ls → aget ls 0 = some lim → lim.ms > 0 →
    n > lim.amount → (runTx s ⟨a, fee, now, [.bankSend a to [(0, n)]]⟩).2 ≠ .ok

/-- account 2: `UseLimits`, 100 ukex per hour, a limit-status record exists -/
def limitsDemo : State :=
  { settings := fun a => if a = 2 then some { enabled := false, useLimits := true, key := keyHash 1 } else none,
    limits := fun a => if a = 2 then some [(0, ⟨100, 3600000⟩)] else none,
    status := fun a => if a = 2 then some [(0, ⟨0, 0⟩)] else none,
    bal := fun _ d => if d = 0 then 10000000 else 0 }

/-- `C17/limits/never-reject`: the only rejection is `newAmount == 0` of an unsigned number (`newAmount <= 0`);
a send of 1 000 000 under a limit of 100 per hour is accepted. -/
theorem limits_restrict_counterexample : ¬ limits_restrict_full := by
  intro h
  exact h limitsDemo 2 3 1000000 200 0 _ _ _ rfl rfl rfl rfl (by decide) (by decide) (by decide)

/-- the `UseLimits` block fails whenever the signer has no limit-status record … -/
theorem limitCalc_needs_status (now : Int) (s : State) (a : Addr) (amt : Coins) (hst : s.status a = none) :
    ∃ e, limitCalc now s a amt = .error e := by
  unfold limitCalc
  cases amt with
  | nil => exact ⟨_, rfl⟩
  | cons x t =>
    obtain ⟨d, n⟩ := x
    simp only [hst]
    split <;> exact ⟨_, rfl⟩

theorem anteBank_fails_without_status (now : Int) (s : State) (a to : Addr) (amt : Coins) (st : Settings)
    (hs : s.settings a = some st) (hl : st.useLimits = true) (hst : s.status a = none) :
    ∃ e, anteBank now s a to amt = .error e := by
  obtain ⟨e, he⟩ := limitCalc_needs_status now s a amt hst
  unfold anteBank anteBankCalc
  simp only [hs, hl, he]
  cases bankGuard s st a to with
  | error e' => exact ⟨e', rfl⟩
  | ok u => exact ⟨e, by simp⟩

/-- … so the decorator never CREATES a limit-status record: it only rewrites an existing one -/
theorem anteMsg_status_none {now : Int} {s s1 : State} {m : Msg} (h : anteMsg now s m = .ok s1) (a : Addr)
    (hst : s.status a = none) : s1.status a = none := by
  rcases anteMsg_ok_cases h with rfl | ⟨sg, to, amt, _, hb⟩
  · exact hst
  · unfold anteBank at hb
    cases hc : anteBankCalc now s sg to amt with
    | error e => simp [hc] at hb
    | ok o =>
      cases o with
      | none => simp only [hc] at hb; cases hb; exact hst
      | some l =>
        simp only [hc] at hb
        cases hb
        by_cases hsg : a = sg
        · subst hsg
          exfalso
          obtain ⟨e, he⟩ := limitCalc_needs_status now s a amt hst
          unfold anteBankCalc at hc
          simp only [he] at hc
          repeat' split at hc
          all_goals cases hc
        · simp [upd, hsg, hst]

/-- `C17/limits/ignored-by-other-send-paths`: limits (like the whitelist) are consulted for `bank.MsgSend` only -/
example : (runTx limitsDemo ⟨2, 200, 0, [.multiSend 2 3 [(0, 1000000)]]⟩).2 = .ok ∧
    (runTx limitsDemo ⟨2, 200, 0, [.send 2 3 [(0, 1000000)] 0 [(0, 1000)] 1]⟩).1.bal 3 0 = 11000000 := by decide

/-- **Limits (what does hold).** No message creates a limit-status record (only genesis import or the recovery
module could), and without one the decorator dereferences nil: with `UseLimits` EVERY transaction containing a
plain bank send of the account is rejected, whatever the amount — `UseLimits` is a kill switch, not a limit. -/
theorem limits_without_status_reject_every_bank_send (s : State) (tx : Tx) (a to : Addr) (amt : Coins) (st : Settings)
    (hm : .bankSend a to amt ∈ tx.msgs) (hs : s.settings a = some st) (hl : st.useLimits = true)
    (hst : s.status a = none) : ∃ e, runTx s tx = (s, .err e) := by
  unfold runTx
  split
  · exact ⟨_, rfl⟩
  · have key : ∀ (msgs : List Msg) (s0 : State), s0.settings = s.settings → s0.status a = none →
        .bankSend a to amt ∈ msgs → ∃ e, anteAll tx.now s0 msgs = .error e := by
      intro msgs
      induction msgs with
      | nil => intro _ _ _ h; cases h
      | cons x t ih =>
        intro s0 hset hnone hmem
        simp only [anteAll]
        cases hx : anteMsg tx.now s0 x with
        | error e => exact ⟨e, rfl⟩
        | ok s5 =>
          cases hmem with
          | head =>
            exfalso
            have hs0 : s0.settings a = some st := by rw [hset]; exact hs
            obtain ⟨e, he⟩ := anteBank_fails_without_status tx.now s0 a to amt st hs0 hl hnone
            rw [anteMsg_bankSend hx] at he
            cases he
          | tail _ hm' =>
            obtain ⟨f, hf⟩ := anteMsg_statusOnly hx
            have hs5 : s5.settings = s.settings := by rw [hf]; exact hset
            exact ih s5 hs5 (anteMsg_status_none hx a hnone) hm'
    obtain ⟨e, he⟩ := key tx.msgs s rfl hst hm
    rw [he]
    exact ⟨e, rfl⟩

example : ∃ s tx a to amt st, (.bankSend a to amt : Msg) ∈ tx.msgs ∧ s.settings a = some st ∧ st.useLimits = true ∧
    s.status a = none ∧ (runTx s tx).2 = .err .panic :=
  ⟨{ limitsDemo with status := fun _ => none }, ⟨2, 200, 0, [.bankSend 2 3 [(0, 1)]]⟩, 2, 3, [(0, 1)], _,
   List.mem_cons_self, rfl, rfl, rfl, by decide⟩

/-- over every history: accounts without a limit-status record never get one -/
theorem status_never_created (s0 : State) (a : Addr) (h0 : s0.status a = none) (txs : List Tx) :
    (run s0 txs).status a = none := by
  induction txs generalizing s0 with
  | nil => exact h0
  | cons t ts ih =>
    apply ih
    have anteAllNone : ∀ (msgs : List Msg) (x y : State), x.status a = none → anteAll t.now x msgs = .ok y → y.status a = none := by
      intro msgs
      induction msgs with
      | nil => intro x y hx h; simp [anteAll] at h; subst h; exact hx
      | cons m ms ihm =>
        intro x y hx h
        simp only [anteAll] at h
        split at h
        · cases h
        · rename_i x1 h1
          exact ihm x1 y (anteMsg_status_none h1 a hx) h
    have execAllSame : ∀ (msgs : List Msg) (x y : State), execAll x msgs = .ok y → y.status = x.status := by
      intro msgs
      induction msgs with
      | nil => intro x y h; simp [execAll] at h; subst h; rfl
      | cons m ms ihm =>
        intro x y h
        simp only [execAll] at h
        split at h
        · cases h
        · rename_i x1 h1
          have e1 : x1.status = x.status := by
            cases hk : m.keyArgs with
            | some k => exact (exec_settings_samePool hk h1).2.2
            | none => exact (exec_nonSettings_samePolicy hk h1).2.2.2.2.1
          rw [ihm x1 y h, e1]
    rcases runTx_cases s0 t with ⟨e, he⟩ | ⟨s1, s2, e, hante, hfee, _, he⟩ | ⟨s1, s2, s3, hante, hfee, hexec, he⟩
    · rw [he]; exact h0
    · rw [he]
      obtain ⟨b, rfl⟩ := deductFee_frame hfee
      exact anteAllNone t.msgs s0 s1 h0 hante
    · rw [he]
      obtain ⟨b, rfl⟩ := deductFee_frame hfee
      show s3.status a = none
      rw [execAllSame _ _ _ hexec]
      exact anteAllNone t.msgs s0 s1 h0 hante

/-! ### recovery rotation of a guarded account (`Custody.rotate`) -/

/-- **a rotation casts no vote and changes no pending transfer**: the custodians' votes are what they were, and the pool
of pending transfers arrives at the new address as it was (payer, recipient, amount, vote count, password state) - the
approvals still missing are still missing -/
theorem rotate_keeps_votes_and_transfers (s s' : State) (old new payer : Addr) (fee : Nat) (hne : old ≠ new)
    (h : rotate s old new payer fee = some s') :
    s'.votes = s.votes ∧ (∀ l, s.pool old = some l → s'.pool new = some l ∧ s'.pool old = none) ∧
    (s.pool old = none → s'.pool = s.pool) := by
  unfold rotate at h
  split at h
  · cases h
  · cases h
    refine ⟨rfl, ?_, ?_⟩
    · intro l hl
      simp only [hl, upd, if_true]
      constructor
      · trivial
      · have : ¬ (old = new) := hne
        simp [this]
    · intro hn
      simp only [hn]

/-! ### relayed Ethereum transactions (`Custody.relayTx`) -/

/-- a relay signed by an account with custody enabled never gets past the decorator (whatever it embeds) -/
theorem relay_by_guarded_signer_refused (s : State) (relayer key to : Addr) (amt fee : Nat) (st : Settings)
    (h : s.settings relayer = some st) (he : st.enabled = true) : relayTx s relayer key to amt fee = (s, .err .invType) := by
  simp [relayTx, relayRefused, h, he]

/-- a relay writes balances only: no custody record, vote or pending transfer changes -/
def SameRecords (s s' : State) : Prop :=
  s'.settings = s.settings ∧ s'.custodians = s.custodians ∧ s'.whitelist = s.whitelist ∧ s'.limits = s.limits ∧
  s'.status = s.status ∧ s'.pool = s.pool ∧ s'.votes = s.votes

theorem relay_touches_only_balances (s : State) (relayer key to : Addr) (amt fee : Nat) :
    SameRecords s (relayTx s relayer key to amt fee).1 := by
  unfold relayTx
  by_cases hr : relayRefused s relayer = true
  · rw [if_pos hr]; exact ⟨rfl, rfl, rfl, rfl, rfl, rfl, rfl⟩
  · rw [if_neg hr]
    cases hd : deductFee s relayer fee with
    | error e => exact ⟨rfl, rfl, rfl, rfl, rfl, rfl, rfl⟩
    | ok s2 =>
      have hs2 : SameRecords s s2 := by
        unfold deductFee at hd
        split at hd
        · cases hd
        · cases hd; exact ⟨rfl, rfl, rfl, rfl, rfl, rfl, rfl⟩
      simp only
      cases sendCoins s2.bal key to (if amt = 0 then [] else [(0, amt)]) with
      | none => exact hs2
      | some b => exact hs2

/-- the full statement "coins of a custody-enabled account leave only through an approved custody transfer" is false of
the code as written: account 1 has custody on with two custodians and mode 100, nothing was requested or approved; the
unguarded account 7 relays an Ethereum transaction that account 1 signed, and 300000 ukex leave account 1
(finding `C17/relay/ignores-custody`). The same relay sent by account 1 itself is refused. -/
def sRelay : State :=
  { settings := fun a => if a = 1 then some { enabled := true, mode := 100, key := keyHash 1 } else none,
    custodians := fun a => if a = 1 then some [(4, true), (5, true)] else none,
    bal := fun a d => if d = 0 ∧ (a = 1 ∨ a = 7) then 1000000 else 0 }

theorem relay_ignores_custody_counterexample :
    let r := relayTx sRelay 7 1 7 300000 1000
    r.2 = .ok ∧ r.1.bal 1 0 = 700000 ∧ r.1.bal 7 0 = 1299000 ∧ r.1.pool 1 = none ∧ r.1.votes = [] ∧
    (relayTx sRelay 1 1 7 300000 1000).2 = .err .invType := by decide

/-! ### Application wiring (table `Gen.App`) -/

/-- the custody decorator is in the ante chain exactly once -/
theorem ante_custody_wiring : Sekai.App.once Sekai.Gen.App.anteChain "NewCustodyDecorator" = true := by decide +kernel

/-! ### Key spaces of the custody store (table `Gen.Keys`)

The model keeps settings, custodians, white list, limits, limit statuses, pools and the per-custodian vote markers in
separate fields. The module keeps them in ONE key-value store, each kind under `prefix ++ address…`. The separation is
faithful only if a key of one kind can never be read (or deleted) as a key of another kind. -/

/-- neither is a prefix of the other -/
def apart (p q : List Char) : Bool := !(p.isPrefixOf q) && !(q.isPrefixOf p)

/-- **keys built on prefixes that are apart are different, whatever follows the prefix** -/
theorem keys_of_apart_prefixes_differ (p q x y : List Char) (h : apart p q = true) : p ++ x ≠ q ++ y := by
  intro e
  simp only [apart, Bool.and_eq_true, Bool.not_eq_true'] at h
  rcases List.append_eq_append_iff.mp e with ⟨a, hq, _⟩ | ⟨c, hp, _⟩
  · have : p.isPrefixOf q = true := by rw [hq]; exact List.isPrefixOf_iff_prefix.mpr (List.prefix_append p a)
    simp [this] at h
  · have : q.isPrefixOf p = true := by rw [hp]; exact List.isPrefixOf_iff_prefix.mpr (List.prefix_append q c)
    simp [this] at h

/-- every pair of differently named entries of the table is apart, and every entry was recognised -/
def prefixFree (l : List (String × String)) : Bool :=
  l.all fun a => !(a.2.startsWith "unrecognised:") && l.all fun b => a.1 == b.1 || apart a.2.toList b.2.toList

/-- **the record kinds of the custody store live in disjoint key spaces** (code as it is now) -/
theorem key_spaces_disjoint : prefixFree Sekai.Gen.Keys.custody = true := by decide +kernel

/-- the table is the one the model was written against: seven record kinds and the two size counters -/
theorem key_table_as_modelled : Sekai.Gen.Keys.custody.map (·.1) =
    ["PrefixKeyCustodyRecord", "PrefixKeyCustodyCustodians", "PrefixKeyCustodyWhiteList", "PrefixKeyCustodyLimits",
     "PrefixKeyCustodyLimitsStatus", "PrefixKeyCustodyPool", "PrefixKeyCustodyVote", "CustodyBufferSizeKey", "CustodyTxSizeKey"] := by
  decide +kernel

/-- what the check is for: a vote-marker prefix that extends the settings prefix lets a settings key name a vote marker -/
example : prefixFree [("A", "custody_record_"), ("B", "custody_record_vote_")] = false ∧
    "custody_record_".toList ++ "vote_xyz".toList = "custody_record_vote_".toList ++ "xyz".toList := by decide +kernel

end Sekai.Props.C17
