import Sekai.Model.Perm
import Sekai.Gen.Gates
/-! # C07 — Permissions: blacklist beats whitelist; index-based voter sets are exact

`check_iff_rule` / `checkAllowed_iff_rule`: the permission map filled in four passes equals the defining rule,
for every configuration (no bound on list sizes). `inv_step` / `inv_reach`: the three secondary indexes equal
what the primary records say after EVERY sequence of the eleven edit operations. `voters_exact`: the
index walk used for quorum returns exactly the actors whose own or role whitelist carries the permission. -/
namespace Sekai.Props.C07
open Sekai.Perm

/-! ## decision logic -/

theorem get_setAll (m : PMap) (ks : List Nat) (v : Bool) (p : Nat) :
    (setAll m ks v).get? p = if p ∈ ks then some v else m.get? p := by
  induction ks generalizing m with
  | nil => simp [setAll]
  | cons k rest ih =>
    simp only [setAll, List.foldl_cons] at ih ⊢
    rw [ih]
    by_cases h : p ∈ rest
    · simp [h]
    · by_cases hk : k = p
      · subst hk; simp [h, PMap.set, PMap.get?]
      · have : p ≠ k := fun e => hk e.symm
        simp [h, this, PMap.set, PMap.get?, hk]

theorem get_foldl_roles (sel : Perms → List Nat) (v : Bool) (roles : List Perms) (m : PMap) (p : Nat) :
    (roles.foldl (fun m r => setAll m (sel r) v) m).get? p =
      if ∃ r ∈ roles, p ∈ sel r then some v else m.get? p := by
  induction roles generalizing m with
  | nil => simp
  | cons r rest ih =>
    simp only [List.foldl_cons]
    rw [ih, get_setAll]
    by_cases h1 : ∃ r' ∈ rest, p ∈ sel r'
    · have : ∃ r' ∈ r :: rest, p ∈ sel r' := by
        obtain ⟨r', hr', hp⟩ := h1; exact ⟨r', List.mem_cons_of_mem _ hr', hp⟩
      simp [h1]
    · by_cases h2 : p ∈ sel r
      · have : ∃ r' ∈ r :: rest, p ∈ sel r' := ⟨r, List.mem_cons_self .., h2⟩
        simp [h1, h2]
      · have : ¬ ∃ r' ∈ r :: rest, p ∈ sel r' := by
          intro ⟨r', hr', hp⟩
          rcases List.mem_cons.mp hr' with e | e
          · subst e; exact h2 hp
          · exact h1 ⟨r', e, hp⟩
        simp [h1, h2]

/-- **blacklist beats whitelist, directly or through any role** — for every configuration -/
theorem check_iff_rule (roles : List Perms) (own : Perms) (p : Nat) :
    check roles own p = true ↔
      (p ∈ own.wl ∨ ∃ r ∈ roles, p ∈ r.wl) ∧ p ∉ own.bl ∧ ∀ r ∈ roles, p ∉ r.bl := by
  unfold check
  simp only
  rw [get_setAll, get_foldl_roles (fun r => r.bl), get_setAll, get_foldl_roles (fun r => r.wl)]
  by_cases hb : p ∈ own.bl
  · simp [hb]
  · by_cases hrb : ∃ r ∈ roles, p ∈ r.bl
    · simp only [hb, hrb, if_false, if_true]
      constructor
      · intro h; cases h
      · intro ⟨_, _, h3⟩; obtain ⟨r, hr, hp⟩ := hrb; exact absurd hp (h3 r hr)
    · have hrb' : ∀ r ∈ roles, p ∉ r.bl := fun r hr hp => hrb ⟨r, hr, hp⟩
      by_cases hw : p ∈ own.wl
      · rw [if_neg hb, if_neg hrb, if_pos hw]
        exact ⟨fun _ => ⟨Or.inl hw, hb, hrb'⟩, fun _ => rfl⟩
      · by_cases hrw : ∃ r ∈ roles, p ∈ r.wl
        · rw [if_neg hb, if_neg hrb, if_neg hw, if_pos hrw]
          exact ⟨fun _ => ⟨Or.inr hrw, hb, hrb'⟩, fun _ => rfl⟩
        · rw [if_neg hb, if_neg hrb, if_neg hw, if_neg hrw]
          simp only [PMap.get?]
          constructor
          · intro h; cases h
          · intro ⟨h1, _, _⟩
            rcases h1 with h1 | h1
            · exact absurd h1 hw
            · exact absurd h1 hrw

example : check [⟨[7, 8], []⟩] ⟨[], [7]⟩ 7 = false ∧ check [⟨[7, 8], []⟩] ⟨[], [7]⟩ 8 = true := by decide

/-- the rule of the property, over the stored records -/
def Holds (s : St) (a p : Nat) : Prop :=
  ∃ x, s.actors a = some x ∧
    (p ∈ x.perms.wl ∨ ∃ r ∈ x.roles, ∃ ps, s.roleReg r = some ps ∧ p ∈ ps.wl) ∧
    p ∉ x.perms.bl ∧ ∀ r ∈ x.roles, ∀ ps, s.roleReg r = some ps → p ∉ ps.bl

/-- **An actor holds a permission exactly when it is whitelisted for the actor directly or through any
assigned role and is blacklisted neither directly nor through any assigned role.** -/
theorem checkAllowed_iff_rule (s : St) (a p : Nat) : checkAllowed s a p = true ↔ Holds s a p := by
  unfold checkAllowed Holds
  cases ha : s.actors a with
  | none => simp
  | some x =>
    simp only [check_iff_rule, rolePermsOf, List.mem_filterMap, Option.some.injEq, exists_eq_left']
    constructor
    · rintro ⟨h1, h2, h3⟩
      refine ⟨?_, h2, ?_⟩
      · rcases h1 with h1 | ⟨ps, ⟨r, hr, hps⟩, hp⟩
        · exact Or.inl h1
        · exact Or.inr ⟨r, hr, ps, hps, hp⟩
      · intro r hr ps hps; exact h3 ps ⟨r, hr, hps⟩
    · rintro ⟨h1, h2, h3⟩
      refine ⟨?_, h2, ?_⟩
      · rcases h1 with h1 | ⟨r, hr, ps, hps, hp⟩
        · exact Or.inl h1
        · exact Or.inr ⟨ps, ⟨r, hr, hps⟩, hp⟩
      · rintro ps ⟨r, hr, hps⟩; exact h3 r hr ps hps

/-! ## the index invariant over all edit histories -/

structure Inv (s : St) : Prop where
  permAddr : ∀ p a, (p, a) ∈ s.idxPermAddr ↔ ∃ x, s.actors a = some x ∧ p ∈ x.perms.wl
  roleAddr : ∀ r a, (r, a) ∈ s.idxRoleAddr ↔ ∃ x, s.actors a = some x ∧ r ∈ x.roles
  permRole : ∀ p r, (p, r) ∈ s.idxPermRole ↔ ∃ ps, s.roleReg r = some ps ∧ p ∈ ps.wl
  wlNodup : ∀ a x, s.actors a = some x → x.perms.wl.Nodup
  rolesNodup : ∀ a x, s.actors a = some x → x.roles.Nodup
  rwlNodup : ∀ r ps, s.roleReg r = some ps → ps.wl.Nodup
  rolesExist : ∀ a x, s.actors a = some x → ∀ r ∈ x.roles, ∃ ps, s.roleReg r = some ps
  nextFresh : ∀ r, s.nextRole ≤ r → s.roleReg r = none

theorem inv_init : Inv ({} : St) := by
  constructor <;> simp

theorem mem_cons_filter {α} [DecidableEq α] (x y : α) (l : List α) :
    y ∈ x :: l.filter (· ≠ x) ↔ y = x ∨ y ∈ l := by
  simp only [List.mem_cons, List.mem_filter, decide_eq_true_eq]
  by_cases h : y = x <;> simp [h]

theorem mem_filter_ne {α} [DecidableEq α] (x y : α) (l : List α) :
    y ∈ l.filter (· ≠ x) ↔ y ≠ x ∧ y ∈ l := by
  simp only [List.mem_filter, decide_eq_true_eq]; exact And.comm

theorem actorOrDefault_spec (s : St) (hI : Inv s) (a : Nat) :
    (actorOrDefault s a).perms.wl.Nodup ∧ (actorOrDefault s a).roles.Nodup ∧
    (∀ r ∈ (actorOrDefault s a).roles, ∃ ps, s.roleReg r = some ps) ∧
    (∀ p, (p, a) ∈ s.idxPermAddr ↔ p ∈ (actorOrDefault s a).perms.wl) ∧
    (∀ r, (r, a) ∈ s.idxRoleAddr ↔ r ∈ (actorOrDefault s a).roles) := by
  unfold actorOrDefault
  cases h : s.actors a with
  | none =>
    refine ⟨by simp, by simp, by simp, ?_, ?_⟩
    · intro p; rw [hI.permAddr]; simp [h]
    · intro r; rw [hI.roleAddr]; simp [h]
  | some x =>
    refine ⟨hI.wlNodup a x h, hI.rolesNodup a x h, hI.rolesExist a x h, ?_, ?_⟩
    · intro p; rw [hI.permAddr]; simp [h]
    · intro r; rw [hI.roleAddr]; simp [h]

/-- editing one actor's record and its index entries keeps the invariant, provided the new record's
whitelist / role list relate to the old ones as stated -/
theorem inv_setActor (s : St) (hI : Inv s) (a : Nat) (x' : Actor) (ipa ira : List (Nat × Nat))
    (hpa : ∀ p b, (p, b) ∈ ipa ↔ (if b = a then p ∈ x'.perms.wl else (p, b) ∈ s.idxPermAddr))
    (hra : ∀ r b, (r, b) ∈ ira ↔ (if b = a then r ∈ x'.roles else (r, b) ∈ s.idxRoleAddr))
    (hwl : x'.perms.wl.Nodup) (hro : x'.roles.Nodup) (hex : ∀ r ∈ x'.roles, ∃ ps, s.roleReg r = some ps) :
    Inv { setActor s a x' with idxPermAddr := ipa, idxRoleAddr := ira } := by
  constructor
  · intro p b
    simp only [setActor]
    rw [hpa]
    by_cases hb : b = a
    · subst hb; simp
    · simp only [hb, if_false]; exact hI.permAddr p b
  · intro r b
    simp only [setActor]
    rw [hra]
    by_cases hb : b = a
    · subst hb; simp
    · simp only [hb, if_false]; exact hI.roleAddr r b
  · exact hI.permRole
  · intro b x hb
    simp only [setActor] at hb
    by_cases hba : b = a
    · subst hba; simp at hb; subst hb; exact hwl
    · simp [hba] at hb; exact hI.wlNodup b x hb
  · intro b x hb
    simp only [setActor] at hb
    by_cases hba : b = a
    · subst hba; simp at hb; subst hb; exact hro
    · simp [hba] at hb; exact hI.rolesNodup b x hb
  · exact hI.rwlNodup
  · intro b x hb
    simp only [setActor] at hb
    by_cases hba : b = a
    · subst hba; simp at hb; subst hb; exact hex
    · simp [hba] at hb; exact hI.rolesExist b x hb
  · exact hI.nextFresh

/-- same for one role's registry entry -/
theorem inv_setRole (s : St) (hI : Inv s) (r : Nat) (ps' : Perms) (ipr : List (Nat × Nat)) (n : Nat)
    (hpr : ∀ p q, (p, q) ∈ ipr ↔ (if q = r then p ∈ ps'.wl else (p, q) ∈ s.idxPermRole))
    (hwl : ps'.wl.Nodup) (hn : s.nextRole ≤ n) (hr : r < n) :
    Inv { setRole s r ps' with idxPermRole := ipr, nextRole := n } := by
  constructor
  · exact hI.permAddr
  · exact hI.roleAddr
  · intro p q
    simp only [setRole]
    rw [hpr]
    by_cases hq : q = r
    · subst hq; simp
    · simp only [hq, if_false]; exact hI.permRole p q
  · exact hI.wlNodup
  · exact hI.rolesNodup
  · intro q ps hq
    simp only [setRole] at hq
    by_cases hqr : q = r
    · subst hqr; simp at hq; subst hq; exact hwl
    · simp [hqr] at hq; exact hI.rwlNodup q ps hq
  · intro b x hb q hq
    obtain ⟨ps, hps⟩ := hI.rolesExist b x hb q hq
    simp only [setRole]
    by_cases hqr : q = r
    · exact ⟨ps', by simp [hqr]⟩
    · exact ⟨ps, by simp [hqr, hps]⟩
  · intro q hq
    simp only [setRole] at hq ⊢
    have : q ≠ r := by omega
    simp only [this, if_false]
    exact hI.nextFresh q (by omega)

theorem contains_iff {l : List Nat} {p : Nat} : l.contains p = true ↔ p ∈ l := by simp

theorem addWl_some {ps ps' : Perms} {p : Nat} :
    ps.addWl p = some ps' ↔ p ∉ ps.bl ∧ p ∉ ps.wl ∧ ps' = { ps with wl := ps.wl ++ [p] } := by
  unfold Perms.addWl
  by_cases hb : p ∈ ps.bl <;> by_cases hw : p ∈ ps.wl <;> simp [hb, hw, eq_comm]
theorem addBl_some {ps ps' : Perms} {p : Nat} :
    ps.addBl p = some ps' ↔ p ∉ ps.wl ∧ p ∉ ps.bl ∧ ps' = { ps with bl := ps.bl ++ [p] } := by
  unfold Perms.addBl
  by_cases hb : p ∈ ps.bl <;> by_cases hw : p ∈ ps.wl <;> simp [hb, hw, eq_comm]
theorem rmWl_some {ps ps' : Perms} {p : Nat} :
    ps.rmWl p = some ps' ↔ p ∈ ps.wl ∧ ps' = { ps with wl := ps.wl.erase p } := by
  unfold Perms.rmWl
  by_cases hw : p ∈ ps.wl <;> simp [hw, eq_comm]
theorem rmBl_some {ps ps' : Perms} {p : Nat} :
    ps.rmBl p = some ps' ↔ p ∈ ps.bl ∧ ps' = { ps with bl := ps.bl.erase p } := by
  unfold Perms.rmBl
  by_cases hw : p ∈ ps.bl <;> simp [hw, eq_comm]

theorem role_lt (s : St) (hI : Inv s) (r : Nat) (ps : Perms) (hr : s.roleReg r = some ps) : r < s.nextRole := by
  rcases Nat.lt_or_ge r s.nextRole with h1 | h1
  · exact h1
  · have := hI.nextFresh r h1; rw [hr] at this; cases this

/-- **every edit operation preserves the index invariant** -/
theorem inv_step (s s' : St) (op : Op) (hI : Inv s) (h : step s op = some s') : Inv s' := by
  cases op with
  | wlAcct a p =>
    simp only [step, Option.map_eq_some_iff] at h
    obtain ⟨ps', hps', rfl⟩ := h
    obtain ⟨_, hw', rfl⟩ := addWl_some.mp hps'
    obtain ⟨hn1, hn2, hex, hpa, hra⟩ := actorOrDefault_spec s hI a
    apply inv_setActor s hI a _ _ s.idxRoleAddr
    · intro q b
      rw [mem_cons_filter]
      by_cases hba : b = a
      · subst hba
        simp only [if_true, List.mem_append, List.mem_singleton, Prod.mk.injEq, and_true]
        rw [hpa]; exact Or.comm
      · simp [hba]
    · intro r b
      by_cases hba : b = a
      · subst hba; simp [hra]
      · simp [hba]
    · exact List.nodup_append.mpr ⟨hn1, by simp, by intro x hx y hy; simp at hy; subst hy; intro e; subst e; exact hw' hx⟩
    · exact hn2
    · exact hex
  | blAcct a p =>
    simp only [step, Option.map_eq_some_iff] at h
    obtain ⟨ps', hps', rfl⟩ := h
    obtain ⟨_, _, rfl⟩ := addBl_some.mp hps'
    obtain ⟨hn1, hn2, hex, hpa, hra⟩ := actorOrDefault_spec s hI a
    exact inv_setActor s hI a _ s.idxPermAddr s.idxRoleAddr
      (by intro q b; by_cases hba : b = a
          · subst hba; simp [hpa]
          · simp [hba])
      (by intro r b; by_cases hba : b = a
          · subst hba; simp [hra]
          · simp [hba])
      hn1 hn2 hex
  | rmWlAcct a p =>
    simp only [step, Option.map_eq_some_iff] at h
    obtain ⟨ps', hps', rfl⟩ := h
    obtain ⟨_, rfl⟩ := rmWl_some.mp hps'
    obtain ⟨hn1, hn2, hex, hpa, hra⟩ := actorOrDefault_spec s hI a
    apply inv_setActor s hI a _ _ s.idxRoleAddr
    · intro q b
      rw [mem_filter_ne]
      by_cases hba : b = a
      · subst hba
        simp only [if_true, ne_eq, Prod.mk.injEq, and_true]
        rw [hpa, List.Nodup.mem_erase_iff hn1]
      · simp [hba]
    · intro r b
      by_cases hba : b = a
      · subst hba; simp [hra]
      · simp [hba]
    · exact List.Nodup.erase _ hn1
    · exact hn2
    · exact hex
  | rmBlAcct a p =>
    simp only [step, Option.map_eq_some_iff] at h
    obtain ⟨ps', hps', rfl⟩ := h
    obtain ⟨_, rfl⟩ := rmBl_some.mp hps'
    obtain ⟨hn1, hn2, hex, hpa, hra⟩ := actorOrDefault_spec s hI a
    exact inv_setActor s hI a _ s.idxPermAddr s.idxRoleAddr
      (by intro q b; by_cases hba : b = a
          · subst hba; simp [hpa]
          · simp [hba])
      (by intro r b; by_cases hba : b = a
          · subst hba; simp [hra]
          · simp [hba])
      hn1 hn2 hex
  | assign a r =>
    simp only [step] at h
    obtain ⟨hn1, hn2, hex, hpa, hra⟩ := actorOrDefault_spec s hI a
    cases hr : s.roleReg r with
    | none => simp [hr] at h
    | some ps =>
      simp only [hr] at h
      by_cases hc : r ∈ (actorOrDefault s a).roles
      · simp [hc] at h
      · simp only [List.contains_eq_mem, hc, decide_false, Bool.false_eq_true, if_false, Option.some.injEq] at h
        subst h
        apply inv_setActor s hI a _ s.idxPermAddr _
        · intro q b
          by_cases hba : b = a
          · subst hba; simp [hpa]
          · simp [hba]
        · intro q b
          rw [mem_cons_filter]
          by_cases hba : b = a
          · subst hba
            simp only [if_true, List.mem_append, List.mem_singleton, Prod.mk.injEq, and_true]
            rw [hra]; exact Or.comm
          · simp [hba]
        · exact hn1
        · exact List.nodup_append.mpr ⟨hn2, by simp, by intro x hx y hy; simp at hy; subst hy; intro e; subst e; exact hc hx⟩
        · intro q hq
          simp only [List.mem_append, List.mem_singleton] at hq
          rcases hq with hq | hq
          · exact hex q hq
          · subst hq; exact ⟨ps, hr⟩
  | unassign a r =>
    simp only [step] at h
    obtain ⟨hn1, hn2, hex, hpa, hra⟩ := actorOrDefault_spec s hI a
    cases hr : s.roleReg r with
    | none => simp [hr] at h
    | some ps =>
      simp only [hr] at h
      by_cases hc : r ∈ (actorOrDefault s a).roles
      · simp only [List.contains_eq_mem, hc, decide_true, Bool.not_true, Bool.false_eq_true, if_false, Option.some.injEq] at h
        subst h
        apply inv_setActor s hI a _ s.idxPermAddr _
        · intro q b
          by_cases hba : b = a
          · subst hba; simp [hpa]
          · simp [hba]
        · intro q b
          rw [mem_filter_ne]
          by_cases hba : b = a
          · subst hba
            simp only [if_true, ne_eq, Prod.mk.injEq, and_true]
            rw [hra, List.Nodup.mem_erase_iff hn2]
          · simp [hba]
        · exact hn1
        · exact List.Nodup.erase _ hn2
        · intro q hq
          exact hex q (List.mem_of_mem_erase hq)
      · simp [hc] at h
  | createRole =>
    simp only [step, Option.some.injEq] at h
    subst h
    apply inv_setRole s hI s.nextRole {} s.idxPermRole (s.nextRole + 1)
    · intro p q
      by_cases hq : q = s.nextRole
      · subst hq
        simp only [if_true]
        rw [hI.permRole]
        simp [hI.nextFresh s.nextRole (Nat.le_refl _)]
      · simp [hq]
    · simp
    · omega
    · omega
  | wlRole r p =>
    simp only [step] at h
    cases hr : s.roleReg r with
    | none => simp [hr] at h
    | some ps =>
      simp only [hr, Option.map_eq_some_iff] at h
      obtain ⟨ps', hps', rfl⟩ := h
      obtain ⟨_, hw', rfl⟩ := addWl_some.mp hps'
      exact inv_setRole s hI r { ps with wl := ps.wl ++ [p] } ((p, r) :: s.idxPermRole.filter (· ≠ (p, r))) s.nextRole
        (by intro q t
            rw [mem_cons_filter]
            by_cases ht : t = r
            · subst ht
              simp only [if_true, List.mem_append, List.mem_singleton, Prod.mk.injEq, and_true]
              rw [hI.permRole]; simp [hr]; exact Or.comm
            · simp [ht])
        (List.nodup_append.mpr ⟨hI.rwlNodup r ps hr, by simp, by intro x hx y hy; simp at hy; subst hy; intro e; subst e; exact hw' hx⟩)
        (Nat.le_refl _) (role_lt s hI r ps hr)
  | blRole r p =>
    simp only [step] at h
    cases hr : s.roleReg r with
    | none => simp [hr] at h
    | some ps =>
      simp only [hr, Option.map_eq_some_iff] at h
      obtain ⟨ps', hps', rfl⟩ := h
      obtain ⟨_, _, rfl⟩ := addBl_some.mp hps'
      exact inv_setRole s hI r { ps with bl := ps.bl ++ [p] } s.idxPermRole s.nextRole
        (by intro q t
            by_cases ht : t = r
            · subst ht; simp only [if_true]; rw [hI.permRole]; simp [hr]
            · simp [ht])
        (hI.rwlNodup r ps hr) (Nat.le_refl _) (role_lt s hI r ps hr)
  | rmWlRole r p =>
    simp only [step] at h
    cases hr : s.roleReg r with
    | none => simp [hr] at h
    | some ps =>
      simp only [hr, Option.map_eq_some_iff] at h
      obtain ⟨ps', hps', rfl⟩ := h
      obtain ⟨_, rfl⟩ := rmWl_some.mp hps'
      exact inv_setRole s hI r { ps with wl := ps.wl.erase p } (s.idxPermRole.filter (· ≠ (p, r))) s.nextRole
        (by intro q t
            rw [mem_filter_ne]
            by_cases ht : t = r
            · subst ht
              simp only [if_true, ne_eq, Prod.mk.injEq, and_true]
              rw [hI.permRole, List.Nodup.mem_erase_iff (hI.rwlNodup t ps hr)]; simp [hr]
            · simp [ht])
        (List.Nodup.erase _ (hI.rwlNodup r ps hr)) (Nat.le_refl _) (role_lt s hI r ps hr)
  | rmBlRole r p =>
    simp only [step] at h
    cases hr : s.roleReg r with
    | none => simp [hr] at h
    | some ps =>
      simp only [hr, Option.map_eq_some_iff] at h
      obtain ⟨ps', hps', rfl⟩ := h
      obtain ⟨_, rfl⟩ := rmBl_some.mp hps'
      exact inv_setRole s hI r { ps with bl := ps.bl.erase p } s.idxPermRole s.nextRole
        (by intro q t
            by_cases ht : t = r
            · subst ht; simp only [if_true]; rw [hI.permRole]; simp [hr]
            · simp [ht])
        (hI.rwlNodup r ps hr) (Nat.le_refl _) (role_lt s hI r ps hr)

theorem inv_apply (s : St) (op : Op) (hI : Inv s) : Inv (apply s op) := by
  unfold apply
  cases h : step s op with
  | none => simpa using hI
  | some s' => simpa using inv_step s s' op hI h

/-- **the indexes agree with the records after every history of edits** (messages, proposals — every
path calls these keeper functions; failed ops leave the state unchanged) -/
theorem inv_reach (ops : List Op) : Inv (ops.foldl apply {}) := by
  have : ∀ s, Inv s → Inv (ops.foldl apply s) := by
    induction ops with
    | nil => intro s h; simpa using h
    | cons op rest ih => intro s h; simp only [List.foldl_cons]; exact ih _ (inv_apply s op h)
  exact this {} inv_init

/-- **the eligible-voter set used for quorum contains exactly the actors whose own or role whitelist
carries the permission** -/
theorem voters_exact (s : St) (hI : Inv s) (a p : Nat) :
    a ∈ voters s p ↔ ∃ x, s.actors a = some x ∧
      (p ∈ x.perms.wl ∨ ∃ r ∈ x.roles, ∃ ps, s.roleReg r = some ps ∧ p ∈ ps.wl) := by
  unfold voters
  rw [List.mem_eraseDups, List.mem_append]
  constructor
  · rintro (h | h)
    · obtain ⟨e, he, rfl⟩ := List.mem_map.mp h
      obtain ⟨hmem, hp⟩ := List.mem_filter.mp he
      have hp' : e.1 = p := by simpa using hp
      obtain ⟨x, hx, hw⟩ := (hI.permAddr e.1 e.2).mp hmem
      exact ⟨x, hx, Or.inl (hp' ▸ hw)⟩
    · obtain ⟨r, hr, hmem⟩ := List.mem_flatMap.mp h
      obtain ⟨e, he, rfl⟩ := List.mem_map.mp hr
      obtain ⟨hmem1, hp⟩ := List.mem_filter.mp he
      have hp' : e.1 = p := by simpa using hp
      obtain ⟨f, hf, rfl⟩ := List.mem_map.mp hmem
      obtain ⟨hmem2, hq⟩ := List.mem_filter.mp hf
      have hq' : f.1 = e.2 := by simpa using hq
      obtain ⟨ps, hps, hw⟩ := (hI.permRole e.1 e.2).mp hmem1
      obtain ⟨x, hx, hro⟩ := (hI.roleAddr f.1 f.2).mp hmem2
      exact ⟨x, hx, Or.inr ⟨e.2, hq' ▸ hro, ps, hps, hp' ▸ hw⟩⟩
  · rintro ⟨x, hx, h | ⟨r, hr, ps, hps, hp⟩⟩
    · left
      exact List.mem_map.mpr ⟨(p, a), List.mem_filter.mpr ⟨(hI.permAddr p a).mpr ⟨x, hx, h⟩, by simp⟩, rfl⟩
    · right
      refine List.mem_flatMap.mpr ⟨r, ?_, ?_⟩
      · exact List.mem_map.mpr ⟨(p, r), List.mem_filter.mpr ⟨(hI.permRole p r).mpr ⟨ps, hps, hp⟩, by simp⟩, rfl⟩
      · exact List.mem_map.mpr ⟨(r, a), List.mem_filter.mpr ⟨(hI.roleAddr r a).mpr ⟨x, hx, hr⟩, by simp⟩, rfl⟩

/-- every index entry points to an existing actor: the index walk never hits the Go
`GetNetworkActorOrFail` panic -/
theorem voters_exist (s : St) (hI : Inv s) (a p : Nat) (h : a ∈ voters s p) : (s.actors a).isSome := by
  obtain ⟨x, hx, _⟩ := (voters_exact s hI a p).mp h
  simp [hx]

/-- non-vacuity: a reachable state in which a role whitelist, a personal blacklist and the voter index interact -/
example :
    let s := [Op.createRole, .wlRole 1 7, .assign 3 1, .wlAcct 4 7, .blAcct 3 7].foldl apply {}
    checkAllowed s 3 7 = false ∧ checkAllowed s 4 7 = true ∧ voters s 7 = [4, 3] := by decide

/-! ## every gated action: the gate table regenerated from the msg servers and proposal contents -/

/-- the permission checks found in the msg-server methods of the current source (methods without any check
are not listed; removing a check from a method below, or changing its constant or subject, changes this list) -/
def expectedGates : List (String × String × List String) := [
  ("basket", "DisableBasketDeposits", ["PermHandleBasketEmergency@sender"]),
  ("basket", "DisableBasketSwaps", ["PermHandleBasketEmergency@sender"]),
  ("basket", "DisableBasketWithdraws", ["PermHandleBasketEmergency@sender"]),
  ("gov", "AssignRole", ["PermUpsertRole@msg.Proposer"]),
  ("gov", "BlacklistPermissions", ["PermSetClaimValidatorPermission@msg.Proposer", "PermSetPermissions@msg.Proposer"]),
  ("gov", "BlacklistRolePermission", ["PermUpsertRole@msg.Proposer"]),
  ("gov", "ClaimCouncilor", ["PermClaimCouncilor@msg.Address"]),
  ("gov", "CreateRole", ["PermUpsertRole@msg.Proposer"]),
  ("gov", "PollCreate", ["PermCreatePollProposal@msg.Creator"]),
  ("gov", "RemoveBlacklistRolePermission", ["PermUpsertRole@msg.Proposer"]),
  ("gov", "RemoveBlacklistedPermissions", ["PermSetClaimValidatorPermission@msg.Proposer", "PermSetPermissions@msg.Proposer"]),
  ("gov", "RemoveWhitelistRolePermission", ["PermUpsertRole@msg.Proposer"]),
  ("gov", "RemoveWhitelistedPermissions", ["PermSetClaimValidatorPermission@msg.Proposer", "PermSetPermissions@msg.Proposer"]),
  ("gov", "SetExecutionFee", ["PermChangeTxFee@msg.Proposer"]),
  ("gov", "SetNetworkProperties", ["PermChangeTxFee@msg.Proposer"]),
  ("gov", "SubmitProposal", ["content.ProposalPermission()@msg.Proposer"]),
  ("gov", "UnassignRole", ["PermUpsertRole@msg.Proposer"]),
  ("gov", "VoteProposal", ["content.VotePermission()@msg.Voter"]),
  ("gov", "WhitelistPermissions", ["PermSetClaimValidatorPermission@msg.Proposer", "PermSetPermissions@msg.Proposer"]),
  ("gov", "WhitelistRolePermission", ["PermUpsertRole@msg.Proposer"]),
  ("layer2", "CreateDappProposal", ["PermCreateDappProposalWithoutBond@addr"]),
  ("staking", "ClaimValidator", ["PermClaimValidator@sdk.AccAddress(msg.ValKey)"]),
  ("tokens", "UpsertTokenInfo", ["PermUpsertTokenInfo@msg.Proposer"])
]

theorem gates_as_expected :
    Sekai.Gen.Gates.gates.filter (fun g => !g.2.2.isEmpty) = expectedGates := by rfl

def expectedContentPerms : List (String × String × String × String) := [
  ("basket", "ProposalBasketWithdrawSurplus", "ProposalPermission", "PermCreateBasketProposal"),
  ("basket", "ProposalBasketWithdrawSurplus", "VotePermission", "PermVoteBasketProposal"),
  ("basket", "ProposalCreateBasket", "ProposalPermission", "PermCreateBasketProposal"),
  ("basket", "ProposalCreateBasket", "VotePermission", "PermVoteBasketProposal"),
  ("basket", "ProposalEditBasket", "ProposalPermission", "PermCreateBasketProposal"),
  ("basket", "ProposalEditBasket", "VotePermission", "PermVoteBasketProposal"),
  ("collectives", "ProposalCollectiveRemove", "ProposalPermission", "PermZero"),
  ("collectives", "ProposalCollectiveRemove", "VotePermission", "PermZero"),
  ("collectives", "ProposalCollectiveSendDonation", "ProposalPermission", "PermZero"),
  ("collectives", "ProposalCollectiveSendDonation", "VotePermission", "PermZero"),
  ("collectives", "ProposalCollectiveUpdate", "ProposalPermission", "PermZero"),
  ("collectives", "ProposalCollectiveUpdate", "VotePermission", "PermZero"),
  ("gov", "AssignRoleToAccountProposal", "ProposalPermission", "PermAssignRoleToAccountProposal"),
  ("gov", "AssignRoleToAccountProposal", "VotePermission", "PermVoteAssignRoleToAccountProposal"),
  ("gov", "BlacklistAccountPermissionProposal", "ProposalPermission", "PermBlacklistAccountPermissionProposal"),
  ("gov", "BlacklistAccountPermissionProposal", "VotePermission", "PermVoteBlacklistAccountPermissionProposal"),
  ("gov", "BlacklistRolePermissionProposal", "ProposalPermission", "PermBlacklistRolePermissionProposal"),
  ("gov", "BlacklistRolePermissionProposal", "VotePermission", "PermVoteBlacklistRolePermissionProposal"),
  ("gov", "CreateRoleProposal", "ProposalPermission", "PermCreateRoleProposal"),
  ("gov", "CreateRoleProposal", "VotePermission", "PermVoteCreateRoleProposal"),
  ("gov", "ProposalJailCouncilor", "ProposalPermission", "PermCreateJailCouncilorProposal"),
  ("gov", "ProposalJailCouncilor", "VotePermission", "PermVoteJailCouncilorProposal"),
  ("gov", "ProposalResetWholeCouncilorRank", "ProposalPermission", "PermCreateResetWholeCouncilorRankProposal"),
  ("gov", "ProposalResetWholeCouncilorRank", "VotePermission", "PermVoteResetWholeCouncilorRankProposal"),
  ("gov", "ProposalSetExecutionFees", "ProposalPermission", "PermCreateSetExecutionFeesProposal"),
  ("gov", "ProposalSetExecutionFees", "VotePermission", "PermVoteSetExecutionFeesProposal"),
  ("gov", "RemoveBlacklistedAccountPermissionProposal", "ProposalPermission", "PermRemoveBlacklistedAccountPermissionProposal"),
  ("gov", "RemoveBlacklistedAccountPermissionProposal", "VotePermission", "PermVoteRemoveBlacklistedAccountPermissionProposal"),
  ("gov", "RemoveBlacklistedRolePermissionProposal", "ProposalPermission", "PermRemoveBlacklistedRolePermissionProposal"),
  ("gov", "RemoveBlacklistedRolePermissionProposal", "VotePermission", "PermVoteRemoveBlacklistedRolePermissionProposal"),
  ("gov", "RemoveRoleProposal", "ProposalPermission", "PermRemoveRoleProposal"),
  ("gov", "RemoveRoleProposal", "VotePermission", "PermVoteRemoveRoleProposal"),
  ("gov", "RemoveWhitelistedAccountPermissionProposal", "ProposalPermission", "PermRemoveWhitelistedAccountPermissionProposal"),
  ("gov", "RemoveWhitelistedAccountPermissionProposal", "VotePermission", "PermVoteRemoveWhitelistedAccountPermissionProposal"),
  ("gov", "RemoveWhitelistedRolePermissionProposal", "ProposalPermission", "PermRemoveWhitelistedRolePermissionProposal"),
  ("gov", "RemoveWhitelistedRolePermissionProposal", "VotePermission", "PermVoteRemoveWhitelistedRolePermissionProposal"),
  ("gov", "SetNetworkPropertyProposal", "ProposalPermission", "PermCreateSetNetworkPropertyProposal"),
  ("gov", "SetNetworkPropertyProposal", "VotePermission", "PermVoteSetNetworkPropertyProposal"),
  ("gov", "SetPoorNetworkMessagesProposal", "ProposalPermission", "PermCreateSetPoorNetworkMessagesProposal"),
  ("gov", "SetPoorNetworkMessagesProposal", "VotePermission", "PermVoteSetPoorNetworkMessagesProposal"),
  ("gov", "SetProposalDurationsProposal", "ProposalPermission", "PermCreateSetProposalDurationProposal"),
  ("gov", "SetProposalDurationsProposal", "VotePermission", "PermVoteSetProposalDurationProposal"),
  ("gov", "UnassignRoleFromAccountProposal", "ProposalPermission", "PermUnassignRoleFromAccountProposal"),
  ("gov", "UnassignRoleFromAccountProposal", "VotePermission", "PermVoteUnassignRoleFromAccountProposal"),
  ("gov", "UpsertDataRegistryProposal", "ProposalPermission", "PermCreateUpsertDataRegistryProposal"),
  ("gov", "UpsertDataRegistryProposal", "VotePermission", "PermVoteUpsertDataRegistryProposal"),
  ("gov", "WhitelistAccountPermissionProposal", "ProposalPermission", "PermWhitelistAccountPermissionProposal"),
  ("gov", "WhitelistAccountPermissionProposal", "VotePermission", "PermVoteWhitelistAccountPermissionProposal"),
  ("gov", "WhitelistRolePermissionProposal", "ProposalPermission", "PermWhitelistRolePermissionProposal"),
  ("gov", "WhitelistRolePermissionProposal", "VotePermission", "PermVoteWhitelistRolePermissionProposal"),
  ("layer2", "ProposalJoinDapp", "ProposalPermission", "PermZero"),
  ("layer2", "ProposalJoinDapp", "VotePermission", "PermZero"),
  ("layer2", "ProposalUpsertDapp", "ProposalPermission", "PermZero"),
  ("layer2", "ProposalUpsertDapp", "VotePermission", "PermZero"),
  ("slashing", "ProposalResetWholeValidatorRank", "ProposalPermission", "PermCreateResetWholeValidatorRankProposal"),
  ("slashing", "ProposalResetWholeValidatorRank", "VotePermission", "PermVoteResetWholeValidatorRankProposal"),
  ("slashing", "ProposalSlashValidator", "ProposalPermission", "PermCreateSlashValidatorProposal"),
  ("slashing", "ProposalSlashValidator", "VotePermission", "PermVoteSlashValidatorProposal"),
  ("spending", "SpendingPoolDistributionProposal", "ProposalPermission", "PermZero"),
  ("spending", "SpendingPoolDistributionProposal", "VotePermission", "PermZero"),
  ("spending", "SpendingPoolWithdrawProposal", "ProposalPermission", "PermZero"),
  ("spending", "SpendingPoolWithdrawProposal", "VotePermission", "PermZero"),
  ("spending", "UpdateSpendingPoolProposal", "ProposalPermission", "PermZero"),
  ("spending", "UpdateSpendingPoolProposal", "VotePermission", "PermZero"),
  ("staking", "ProposalUnjailValidator", "ProposalPermission", "PermCreateUnjailValidatorProposal"),
  ("staking", "ProposalUnjailValidator", "VotePermission", "PermVoteUnjailValidatorProposal"),
  ("tokens", "ProposalTokensWhiteBlackChange", "ProposalPermission", "PermCreateTokensWhiteBlackChangeProposal"),
  ("tokens", "ProposalTokensWhiteBlackChange", "VotePermission", "PermVoteTokensWhiteBlackChangeProposal"),
  ("tokens", "ProposalUpsertTokenInfo", "ProposalPermission", "PermCreateUpsertTokenInfoProposal"),
  ("tokens", "ProposalUpsertTokenInfo", "VotePermission", "PermVoteUpsertTokenInfoProposal"),
  ("ubi", "RemoveUBIProposal", "ProposalPermission", "PermCreateRemoveUBIProposal"),
  ("ubi", "RemoveUBIProposal", "VotePermission", "PermVoteRemoveUBIProposal"),
  ("ubi", "UpsertUBIProposal", "ProposalPermission", "PermCreateUpsertUBIProposal"),
  ("ubi", "UpsertUBIProposal", "VotePermission", "PermVoteUpsertUBIProposal"),
  ("upgrade", "ProposalCancelSoftwareUpgrade", "ProposalPermission", "PermCreateSoftwareUpgradeProposal"),
  ("upgrade", "ProposalCancelSoftwareUpgrade", "VotePermission", "PermVoteSoftwareUpgradeProposal"),
  ("upgrade", "ProposalSoftwareUpgrade", "ProposalPermission", "PermCreateSoftwareUpgradeProposal"),
  ("upgrade", "ProposalSoftwareUpgrade", "VotePermission", "PermVoteSoftwareUpgradeProposal")
]

/-- the propose / vote permission of every proposal content type -/
theorem content_perms_as_expected : Sekai.Gen.Gates.contentPerms = expectedContentPerms := by rfl

/-- a gated handler as the msg servers are written: the permission test dominates the body -/
def gated (s : St) (signer perm : Nat) (body : St → Option St) : Option St :=
  if checkAllowed s signer perm then body s else none

/-- **a gated action succeeds only for an actor that holds the required permission at that moment** -/
theorem gated_only_holders (s s' : St) (signer perm : Nat) (body : St → Option St)
    (h : gated s signer perm body = some s') : Holds s signer perm := by
  unfold gated at h
  cases hc : checkAllowed s signer perm with
  | true => exact (checkAllowed_iff_rule s signer perm).mp hc
  | false => simp [hc] at h

end Sekai.Props.C07
