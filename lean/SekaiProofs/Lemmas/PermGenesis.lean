import Sekai.Model.PermGenesis
import SekaiProofs.Props.C07
/-! Genesis export / import of the permission state: `init (exportGen …)` reproduces the state up to the order of the
three secondary indexes, PROVIDED no role carries a blacklist (the Go import drops role blacklists). -/
namespace Sekai.PermGenesis
open Sekai.Perm Sekai.Props.C07

/-- observational equality of permission states: same records, same index SETS, same counter -/
structure Equiv (s t : Sekai.Perm.St) : Prop where
  actors : ∀ a, s.actors a = t.actors a
  roles : ∀ r, s.roleReg r = t.roleReg r
  permAddr : ∀ e, e ∈ s.idxPermAddr ↔ e ∈ t.idxPermAddr
  roleAddr : ∀ e, e ∈ s.idxRoleAddr ↔ e ∈ t.idxRoleAddr
  permRole : ∀ e, e ∈ s.idxPermRole ↔ e ∈ t.idxPermRole
  next : s.nextRole = t.nextRole

/-! ## phase 1: actors -/

/-- the index writes of one actor: the old entries plus one entry per listed key -/
theorem mem_foldl_idx (a : Nat) (l : List Nat) (idx : List (Nat × Nat)) (e : Nat × Nat) :
    e ∈ l.foldl (fun idx r => (r, a) :: idx.filter (· ≠ (r, a))) idx ↔ e ∈ idx ∨ (e.2 = a ∧ e.1 ∈ l) := by
  induction l generalizing idx with
  | nil => simp
  | cons r l ih =>
    rw [List.foldl_cons, ih, mem_cons_filter]
    rcases e with ⟨e1, e2⟩
    simp only [Prod.mk.injEq, List.mem_cons]
    constructor
    · rintro ((⟨h1, h2⟩ | h) | ⟨h1, h2⟩)
      · exact Or.inr ⟨h2, Or.inl h1⟩
      · exact Or.inl h
      · exact Or.inr ⟨h1, Or.inr h2⟩
    · rintro (h | ⟨h1, h2 | h2⟩)
      · exact Or.inl (Or.inr h)
      · exact Or.inl (Or.inl ⟨h2, h1⟩)
      · exact Or.inr ⟨h1, h2⟩

/-- what the actor phase of `init` leaves behind -/
structure ActorsPhase (L : List (Nat × Actor)) (s u : St) : Prop where
  roleReg : u.roleReg = s.roleReg
  idxPermRole : u.idxPermRole = s.idxPermRole
  nextRole : u.nextRole = s.nextRole
  hit : ∀ a x, (a, x) ∈ L → ∃ y, (a, y) ∈ L ∧ u.actors a = some y
  miss : ∀ a, (∀ x, (a, x) ∉ L) → u.actors a = s.actors a
  permAddr : ∀ e, e ∈ u.idxPermAddr ↔ e ∈ s.idxPermAddr ∨ ∃ x, (e.2, x) ∈ L ∧ e.1 ∈ x.perms.wl
  roleAddr : ∀ e, e ∈ u.idxRoleAddr ↔ e ∈ s.idxRoleAddr ∨ ∃ x, (e.2, x) ∈ L ∧ e.1 ∈ x.roles

theorem actorsPhase (L : List (Nat × Actor)) (s : St) : ActorsPhase L s (L.foldl initActor s) := by
  induction L generalizing s with
  | nil =>
    exact ⟨rfl, rfl, rfl, by simp, by simp, by simp, by simp⟩
  | cons ax L ih =>
    obtain ⟨a0, x0⟩ := ax
    have h := ih (initActor s (a0, x0))
    rw [List.foldl_cons]
    generalize L.foldl initActor (initActor s (a0, x0)) = u at h
    have hact : ∀ a, (initActor s (a0, x0)).actors a = if a = a0 then some x0 else s.actors a := fun _ => rfl
    refine ⟨h.roleReg, h.idxPermRole, h.nextRole, ?_, ?_, ?_, ?_⟩
    · intro a x hm
      by_cases hL : ∃ y, (a, y) ∈ L
      · obtain ⟨y, hy⟩ := hL
        obtain ⟨z, hz, hu⟩ := h.hit a y hy
        exact ⟨z, List.mem_cons_of_mem _ hz, hu⟩
      · have hn : ∀ y, (a, y) ∉ L := fun y hy => hL ⟨y, hy⟩
        rcases List.mem_cons.mp hm with e | e
        · obtain ⟨rfl, rfl⟩ := Prod.mk.inj e
          refine ⟨x, List.mem_cons_self, ?_⟩
          rw [h.miss a hn, hact]; simp
        · exact absurd e (hn x)
    · intro a hn
      have hn' : ∀ x, (a, x) ∉ L := fun x hx => hn x (List.mem_cons_of_mem _ hx)
      have hne : a ≠ a0 := fun e => hn x0 (by rw [e]; exact List.mem_cons_self)
      rw [h.miss a hn', hact]; simp [hne]
    · intro e
      rw [h.permAddr e]
      show (e ∈ x0.perms.wl.foldl (fun idx p => (p, a0) :: idx.filter (· ≠ (p, a0))) s.idxPermAddr ∨ _) ↔ _
      rw [mem_foldl_idx]
      constructor
      · rintro ((h1 | ⟨h1, h2⟩) | ⟨x, hx, hp⟩)
        · exact Or.inl h1
        · exact Or.inr ⟨x0, by rw [h1]; exact List.mem_cons_self, h2⟩
        · exact Or.inr ⟨x, List.mem_cons_of_mem _ hx, hp⟩
      · rintro (h1 | ⟨x, hx, hp⟩)
        · exact Or.inl (Or.inl h1)
        · rcases List.mem_cons.mp hx with e' | e'
          · obtain ⟨h1, rfl⟩ := Prod.mk.inj e'
            exact Or.inl (Or.inr ⟨h1, hp⟩)
          · exact Or.inr ⟨x, e', hp⟩
    · intro e
      rw [h.roleAddr e]
      show (e ∈ x0.roles.foldl (fun idx r => (r, a0) :: idx.filter (· ≠ (r, a0))) s.idxRoleAddr ∨ _) ↔ _
      rw [mem_foldl_idx]
      constructor
      · rintro ((h1 | ⟨h1, h2⟩) | ⟨x, hx, hp⟩)
        · exact Or.inl h1
        · exact Or.inr ⟨x0, by rw [h1]; exact List.mem_cons_self, h2⟩
        · exact Or.inr ⟨x, List.mem_cons_of_mem _ hx, hp⟩
      · rintro (h1 | ⟨x, hx, hp⟩)
        · exact Or.inl (Or.inl h1)
        · rcases List.mem_cons.mp hx with e' | e'
          · obtain ⟨h1, rfl⟩ := Prod.mk.inj e'
            exact Or.inl (Or.inr ⟨h1, hp⟩)
          · exact Or.inr ⟨x, e', hp⟩

/-! ## phase 2: role registry entries with empty permissions -/

structure RolesPhase (R : List Nat) (s u : St) : Prop where
  actors : u.actors = s.actors
  idxPermAddr : u.idxPermAddr = s.idxPermAddr
  idxRoleAddr : u.idxRoleAddr = s.idxRoleAddr
  idxPermRole : u.idxPermRole = s.idxPermRole
  nextRole : u.nextRole = s.nextRole
  roleReg : ∀ r, u.roleReg r = if r ∈ R then some {} else s.roleReg r

theorem rolesPhase (R : List Nat) (s : St) : RolesPhase R s (R.foldl initRole s) := by
  induction R generalizing s with
  | nil => exact ⟨rfl, rfl, rfl, rfl, rfl, by simp⟩
  | cons r0 R ih =>
    have h := ih (initRole s r0)
    rw [List.foldl_cons]
    generalize R.foldl initRole (initRole s r0) = u at h
    refine ⟨h.actors, h.idxPermAddr, h.idxRoleAddr, h.idxPermRole, h.nextRole, ?_⟩
    intro r
    rw [h.roleReg r]
    have : (initRole s r0).roleReg r = if r = r0 then some {} else s.roleReg r := rfl
    rw [this]
    by_cases h1 : r ∈ R
    · simp [h1]
    · by_cases h2 : r = r0
      · simp [h2]
      · simp [h1, h2]

/-! ## phase 3: whitelist replay -/

/-- the replay of a duplicate-free whitelist onto a role without blacklist appends it in order -/
structure ReplayOne (r : Nat) (w l : List Nat) (s u : St) : Prop where
  actors : u.actors = s.actors
  idxPermAddr : u.idxPermAddr = s.idxPermAddr
  idxRoleAddr : u.idxRoleAddr = s.idxRoleAddr
  nextRole : u.nextRole = s.nextRole
  self : u.roleReg r = some { wl := w ++ l, bl := [] }
  other : ∀ q, q ≠ r → u.roleReg q = s.roleReg q
  permRole : ∀ e, e ∈ u.idxPermRole ↔ e ∈ s.idxPermRole ∨ (e.2 = r ∧ e.1 ∈ l)

theorem apply_wlRole (s : St) (r p : Nat) (w : List Nat) (hr : s.roleReg r = some { wl := w, bl := [] })
    (hp : p ∉ w) :
    Perm.apply s (.wlRole r p) =
      { setRole s r { wl := w ++ [p], bl := [] } with
        idxPermRole := (p, r) :: s.idxPermRole.filter (· ≠ (p, r)) } := by
  simp [Perm.apply, step, hr, Perms.addWl, hp]

theorem replayOne (r : Nat) (l w : List Nat) (s : St) (hr : s.roleReg r = some { wl := w, bl := [] })
    (hn : (w ++ l).Nodup) :
    ReplayOne r w l s (l.foldl (fun s p => Perm.apply s (.wlRole r p)) s) := by
  induction l generalizing s w with
  | nil => exact ⟨rfl, rfl, rfl, rfl, by simpa using hr, fun _ _ => rfl, by simp⟩
  | cons p l ih =>
    have hp : p ∉ w := by
      intro hm
      have := (List.nodup_append.mp hn).2.2 p hm p List.mem_cons_self
      exact this rfl
    have hs := apply_wlRole s r p w hr hp
    rw [List.foldl_cons, hs]
    have hn' : ((w ++ [p]) ++ l).Nodup := by simpa using hn
    have h := ih (w ++ [p])
      { setRole s r { wl := w ++ [p], bl := [] } with
        idxPermRole := (p, r) :: s.idxPermRole.filter (· ≠ (p, r)) }
      (by simp [setRole]) hn'
    generalize l.foldl (fun s p => Perm.apply s (.wlRole r p)) _ = u at h
    refine ⟨h.actors, h.idxPermAddr, h.idxRoleAddr, h.nextRole, by simpa using h.self, ?_, ?_⟩
    · intro q hq
      rw [h.other q hq]; simp [setRole, hq]
    · intro e
      rw [h.permRole e]
      show (e ∈ (p, r) :: s.idxPermRole.filter (· ≠ (p, r)) ∨ _) ↔ _
      rw [mem_cons_filter]
      rcases e with ⟨e1, e2⟩
      simp only [Prod.mk.injEq, List.mem_cons]
      constructor
      · rintro ((⟨h1, h2⟩ | h1) | ⟨h1, h2⟩)
        · exact Or.inr ⟨h2, Or.inl h1⟩
        · exact Or.inl h1
        · exact Or.inr ⟨h1, Or.inr h2⟩
      · rintro (h1 | ⟨h1, h2 | h2⟩)
        · exact Or.inl (Or.inr h1)
        · exact Or.inl (Or.inl ⟨h2, h1⟩)
        · exact Or.inr ⟨h1, h2⟩

/-- what the whitelist replay of `init` leaves behind -/
structure PermsPhase (RP : List (Nat × Perms)) (s u : St) : Prop where
  actors : u.actors = s.actors
  idxPermAddr : u.idxPermAddr = s.idxPermAddr
  idxRoleAddr : u.idxRoleAddr = s.idxRoleAddr
  nextRole : u.nextRole = s.nextRole
  hit : ∀ r ps, (r, ps) ∈ RP → u.roleReg r = some { wl := ps.wl, bl := [] }
  miss : ∀ r, (∀ ps, (r, ps) ∉ RP) → u.roleReg r = s.roleReg r
  permRole : ∀ e, e ∈ u.idxPermRole ↔ e ∈ s.idxPermRole ∨ ∃ ps, (e.2, ps) ∈ RP ∧ e.1 ∈ ps.wl

theorem permsPhase (RP : List (Nat × Perms)) (s : St) (hk : (RP.map Prod.fst).Nodup)
    (hw : ∀ r ps, (r, ps) ∈ RP → ps.wl.Nodup) (he : ∀ r ps, (r, ps) ∈ RP → s.roleReg r = some {}) :
    PermsPhase RP s (RP.foldl initRolePerms s) := by
  induction RP generalizing s with
  | nil => exact ⟨rfl, rfl, rfl, rfl, by simp, fun _ _ => rfl, by simp⟩
  | cons rp RP ih =>
    obtain ⟨r0, ps0⟩ := rp
    have hk' := List.nodup_cons.mp (by simpa using hk : (r0 :: RP.map Prod.fst).Nodup)
    have hfresh : ∀ ps, (r0, ps) ∉ RP := fun ps hm => hk'.1 (List.mem_map.mpr ⟨(r0, ps), hm, rfl⟩)
    have h1 : ReplayOne r0 [] ps0.wl s (initRolePerms s (r0, ps0)) :=
      replayOne r0 ps0.wl [] s (he r0 ps0 List.mem_cons_self) (by simpa using hw r0 ps0 List.mem_cons_self)
    rw [List.foldl_cons]
    generalize initRolePerms s (r0, ps0) = s' at h1
    have h := ih s' hk'.2 (fun r ps hm => hw r ps (List.mem_cons_of_mem _ hm))
      (fun r ps hm => by
        have hne : r ≠ r0 := fun e => hfresh ps (e ▸ hm)
        rw [h1.other r hne]; exact he r ps (List.mem_cons_of_mem _ hm))
    generalize RP.foldl initRolePerms s' = u at h
    refine ⟨h.actors.trans h1.actors, h.idxPermAddr.trans h1.idxPermAddr, h.idxRoleAddr.trans h1.idxRoleAddr,
      h.nextRole.trans h1.nextRole, ?_, ?_, ?_⟩
    · intro r ps hm
      rcases List.mem_cons.mp hm with e | e
      · obtain ⟨rfl, rfl⟩ := Prod.mk.inj e
        rw [h.miss r hfresh, h1.self]; simp
      · exact h.hit r ps e
    · intro r hn
      have hne : r ≠ r0 := fun e => hn ps0 (by rw [e]; exact List.mem_cons_self)
      rw [h.miss r (fun ps hm => hn ps (List.mem_cons_of_mem _ hm)), h1.other r hne]
    · intro e
      rw [h.permRole e, h1.permRole e]
      constructor
      · rintro ((h2 | ⟨h2, h3⟩) | ⟨ps, hm, hp⟩)
        · exact Or.inl h2
        · exact Or.inr ⟨ps0, by rw [h2]; exact List.mem_cons_self, h3⟩
        · exact Or.inr ⟨ps, List.mem_cons_of_mem _ hm, hp⟩
      · rintro (h2 | ⟨ps, hm, hp⟩)
        · exact Or.inl (Or.inl h2)
        · rcases List.mem_cons.mp hm with e' | e'
          · obtain ⟨h2, rfl⟩ := Prod.mk.inj e'
            exact Or.inl (Or.inr ⟨h2, hp⟩)
          · exact Or.inr ⟨ps, e', hp⟩

/-! ## the exported lists -/

theorem mem_export_actors (actorIds : List Nat) (s : St) (a : Nat) (x : Actor) :
    (a, x) ∈ (actorIds.filterMap fun a => (s.actors a).map fun x => (a, x)) ↔ a ∈ actorIds ∧ s.actors a = some x := by
  simp only [List.mem_filterMap, Option.map_eq_some_iff, Prod.mk.injEq]
  constructor
  · rintro ⟨b, hb, y, hy, rfl, rfl⟩; exact ⟨hb, hy⟩
  · rintro ⟨h1, h2⟩; exact ⟨a, h1, x, h2, rfl, rfl⟩

theorem mem_export_rolePerms (roleIds : List Nat) (s : St) (r : Nat) (ps : Perms) :
    (r, ps) ∈ (roleIds.filterMap fun r => (s.roleReg r).map fun p => (r, p)) ↔ r ∈ roleIds ∧ s.roleReg r = some ps := by
  simp only [List.mem_filterMap, Option.map_eq_some_iff, Prod.mk.injEq]
  constructor
  · rintro ⟨b, hb, y, hy, rfl, rfl⟩; exact ⟨hb, hy⟩
  · rintro ⟨h1, h2⟩; exact ⟨r, h1, ps, h2, rfl, rfl⟩

theorem export_rolePerms_keys (roleIds : List Nat) (s : St) :
    (roleIds.filterMap fun r => (s.roleReg r).map fun p => (r, p)).map Prod.fst =
      roleIds.filter fun r => (s.roleReg r).isSome := by
  induction roleIds with
  | nil => rfl
  | cons r l ih =>
    cases h : s.roleReg r with
    | none => simp [h, ih]
    | some ps => simp [h, ih]

/-! ## the round trip -/

/-- **export then import reproduces the permission state, provided no role carries a blacklist** -/
theorem roundtrip_partial (s : Sekai.Perm.St) (hI : Sekai.Props.C07.Inv s)
    (actorIds roleIds : List Nat) (hna : actorIds.Nodup) (hnr : roleIds.Nodup)
    (hca : ∀ a, (s.actors a).isSome → a ∈ actorIds) (hcr : ∀ r, (s.roleReg r).isSome → r ∈ roleIds)
    (hbl : ∀ r ps, s.roleReg r = some ps → ps.bl = []) :
    Equiv (init (exportGen actorIds roleIds s)) s := by
  have _ := hna
  -- the three phases
  let s0 : St := { nextRole := s.nextRole }
  let L := actorIds.filterMap fun a => (s.actors a).map fun x => (a, x)
  let R := roleIds.filter fun r => (s.roleReg r).isSome
  let RP := roleIds.filterMap fun r => (s.roleReg r).map fun p => (r, p)
  have hinit : init (exportGen actorIds roleIds s) =
      RP.foldl initRolePerms (R.foldl initRole (L.foldl initActor s0)) := rfl
  have h1 := actorsPhase L s0
  have h2 := rolesPhase R (L.foldl initActor s0)
  have hL : ∀ a x, (a, x) ∈ L ↔ a ∈ actorIds ∧ s.actors a = some x := mem_export_actors actorIds s
  have hRP : ∀ r ps, (r, ps) ∈ RP ↔ r ∈ roleIds ∧ s.roleReg r = some ps := mem_export_rolePerms roleIds s
  have hR : ∀ r, r ∈ R ↔ r ∈ roleIds ∧ (s.roleReg r).isSome := by
    intro r; simp [R, List.mem_filter]
  have hk : (RP.map Prod.fst).Nodup := by
    rw [show RP.map Prod.fst = R from export_rolePerms_keys roleIds s]
    exact hnr.sublist List.filter_sublist
  have h3 := permsPhase RP (R.foldl initRole (L.foldl initActor s0)) hk
    (fun r ps hm => hI.rwlNodup r ps ((hRP r ps).mp hm).2)
    (fun r ps hm => by
      have hm' := (hRP r ps).mp hm
      have : r ∈ R := (hR r).mpr ⟨hm'.1, by rw [hm'.2]; rfl⟩
      rw [h2.roleReg r]; simp [this])
  rw [hinit]
  generalize L.foldl initActor s0 = u1 at h1 h2 h3
  generalize R.foldl initRole u1 = u2 at h2 h3
  generalize RP.foldl initRolePerms u2 = u3 at h3
  refine ⟨?_, ?_, ?_, ?_, ?_, ?_⟩
  · intro a
    rw [h3.actors, h2.actors]
    cases ha : s.actors a with
    | none =>
      rw [h1.miss a (fun x hx => by have := ((hL a x).mp hx).2; rw [ha] at this; cases this)]
    | some x =>
      have hm : (a, x) ∈ L := (hL a x).mpr ⟨hca a (by rw [ha]; rfl), ha⟩
      obtain ⟨y, hy, hu⟩ := h1.hit a x hm
      have := ((hL a y).mp hy).2
      rw [hu, ← this, ha]
  · intro r
    cases hr : s.roleReg r with
    | none =>
      rw [h3.miss r (fun ps hm => by have := ((hRP r ps).mp hm).2; rw [hr] at this; cases this), h2.roleReg r]
      have : r ∉ R := fun hm => by have := ((hR r).mp hm).2; rw [hr] at this; cases this
      simp only [this, if_false]
      rw [h1.roleReg]
    | some ps =>
      have hm : (r, ps) ∈ RP := (hRP r ps).mpr ⟨hcr r (by rw [hr]; rfl), hr⟩
      rw [h3.hit r ps hm]
      have := hbl r ps hr
      cases ps with
      | mk wl bl => simp at this; simp [this]
  · intro e
    rw [h3.idxPermAddr, h2.idxPermAddr, h1.permAddr e]
    obtain ⟨p, a⟩ := e
    rw [hI.permAddr p a]
    constructor
    · rintro (h | ⟨x, hx, hp⟩)
      · simp [s0] at h
      · exact ⟨x, ((hL a x).mp hx).2, hp⟩
    · rintro ⟨x, hx, hp⟩
      exact Or.inr ⟨x, (hL a x).mpr ⟨hca a (by rw [hx]; rfl), hx⟩, hp⟩
  · intro e
    rw [h3.idxRoleAddr, h2.idxRoleAddr, h1.roleAddr e]
    obtain ⟨r, a⟩ := e
    rw [hI.roleAddr r a]
    constructor
    · rintro (h | ⟨x, hx, hp⟩)
      · simp [s0] at h
      · exact ⟨x, ((hL a x).mp hx).2, hp⟩
    · rintro ⟨x, hx, hp⟩
      exact Or.inr ⟨x, (hL a x).mpr ⟨hca a (by rw [hx]; rfl), hx⟩, hp⟩
  · intro e
    rw [h3.permRole e, h2.idxPermRole, h1.idxPermRole]
    obtain ⟨p, r⟩ := e
    rw [hI.permRole p r]
    constructor
    · rintro (h | ⟨ps, hx, hp⟩)
      · simp [s0] at h
      · exact ⟨ps, ((hRP r ps).mp hx).2, hp⟩
    · rintro ⟨ps, hx, hp⟩
      exact Or.inr ⟨ps, (hRP r ps).mpr ⟨hcr r (by rw [hx]; rfl), hx⟩, hp⟩
  · rw [h3.nextRole, h2.nextRole, h1.nextRole]

/-! ## non-vacuity: the hypotheses hold on a concrete reachable state (with harmless extra ids in both key lists) -/

def exOps : List Op := [Op.createRole, .wlRole 1 7, .assign 3 1, .wlAcct 4 7]
def exSt : St := exOps.foldl Perm.apply {}

theorem exSt_actors (a : Nat) : exSt.actors a =
    if a = 4 then some { roles := [], perms := { wl := [7], bl := [] } }
    else if a = 3 then some { roles := [1], perms := {} } else none := by
  simp [exSt, exOps, Perm.apply, step, setRole, setActor, actorOrDefault, Perms.addWl]

theorem exSt_roleReg (r : Nat) : exSt.roleReg r = if r = 1 then some { wl := [7], bl := [] } else none := by
  by_cases h : r = 1 <;> simp [exSt, exOps, Perm.apply, step, setRole, setActor, actorOrDefault, Perms.addWl, h]

/-- `roundtrip_partial` instantiated on a reachable state; `9` and `5` are ids without a record -/
example : Equiv (init (exportGen [4, 3, 9] [5, 1] exSt)) exSt :=
  roundtrip_partial exSt (inv_reach exOps) [4, 3, 9] [5, 1] (by decide) (by decide)
    (fun a h => by
      rw [exSt_actors] at h
      by_cases h4 : a = 4
      · simp [h4]
      · by_cases h3 : a = 3
        · simp [h3]
        · simp [h4, h3] at h)
    (fun r h => by
      rw [exSt_roleReg] at h
      by_cases h1 : r = 1
      · simp [h1]
      · simp [h1] at h)
    (fun r ps h => by
      rw [exSt_roleReg] at h
      by_cases h1 : r = 1
      · simp [h1] at h; rw [← h]
      · simp [h1] at h)

/-! ## the blacklist hypothesis is necessary: the import drops role blacklists -/

/-- the hypothesis `hbl` cannot be dropped -/
theorem roundtrip_drops_role_blacklist :
    ∃ s : St, Inv s ∧ (∀ a, (s.actors a).isSome → a ∈ ([] : List Nat)) ∧ (∀ r, (s.roleReg r).isSome → r ∈ [1]) ∧
      ¬ Equiv (init (exportGen [] [1] s)) s := by
  refine ⟨[Op.createRole, .blRole 1 7].foldl Perm.apply {}, inv_reach _, ?_, ?_, ?_⟩
  · intro a h
    simp [Perm.apply, step, setRole, Perms.addBl] at h
  · intro r h
    by_cases h1 : r = 1
    · simp [h1]
    · simp [Perm.apply, step, setRole, Perms.addBl, h1] at h
  · intro h
    have := h.roles 1
    revert this
    decide

end Sekai.PermGenesis
