import SekaiProofs.Lemmas.IdentEscrow
import SekaiProofs.Lemmas.IdentUniq
/-! Well-formedness of the registry (index ↔ records ↔ requests) and the ownership relation between two states. -/
namespace Sekai.Ident

/-- what an owner "holds": everything of a record except its verifier list -/
def content (r : Record) : Nat × Nat × String × String × Nat := (r.id, r.addr, r.key, r.value, r.date)

def IdxLive (S : State) : Prop := ∀ e ∈ S.idx, ∃ r, getRec S e.id = some r ∧ r.addr = e.addr ∧ r.key = e.key
def RecBounded (S : State) : Prop := ∀ r ∈ S.records, r.id ≤ S.lastRecordId
def ReqLive (S : State) : Prop := ∀ q ∈ S.reqs, ∀ id ∈ q.recordIds, ∃ r, getRec S id = some r ∧ r.addr = q.addr
def ReqIdx (S : State) : Prop := ∀ q ∈ S.reqs, (q.addr, q.id) ∈ S.byReq

/-- index entries point to a live record of the same address and key; record ids never exceed the counter;
stored keys are lower-case; a pending request names live records of its requester and is listed in the
requester index -/
structure WFcore (S : State) : Prop where
  idxLive : IdxLive S
  recBounded : RecBounded S
  keysLower : KeysLower S
  reqLive : ReqLive S
  reqIdx : ReqIdx S

/-- between `S` and `S'` only records of `s` were created, changed or deleted (verifier lists aside) -/
def OwnerOnly (s : Nat) (S S' : State) : Prop :=
  ∀ id, (getRec S' id).map content = (getRec S id).map content ∨
    ((∀ r, getRec S id = some r → r.addr = s) ∧ (∀ r', getRec S' id = some r' → r'.addr = s))

/-- a record that is not literally the old one has an empty verifier list -/
def ResetOnChange (S S' : State) : Prop :=
  ∀ id r', getRec S' id = some r' → getRec S id = some r' ∨ r'.verifiers = []

theorem OwnerOnly.refl (s : Nat) (S : State) : OwnerOnly s S S := fun _ => Or.inl rfl

theorem map_content_some {x y : Option Record} (h : x.map content = y.map content) {r : Record} (hy : y = some r) :
    ∃ r2, x = some r2 ∧ content r2 = content r := by
  subst hy
  cases x with
  | none => simp at h
  | some r2 => exact ⟨r2, rfl, by simpa using h⟩

theorem OwnerOnly.trans {s : Nat} {A B C : State} (h1 : OwnerOnly s A B) (h2 : OwnerOnly s B C) : OwnerOnly s A C := by
  intro id
  rcases h1 id with e1 | ⟨p1, q1⟩ <;> rcases h2 id with e2 | ⟨p2, q2⟩
  · exact Or.inl (e2.trans e1)
  · right
    refine ⟨?_, q2⟩
    intro r hr
    obtain ⟨rB, hB, hc⟩ := map_content_some e1 hr
    have := p2 rB hB
    have hc' : rB.addr = r.addr := by unfold content at hc; simp only [Prod.mk.injEq] at hc; exact hc.2.1
    rw [← hc']; exact this
  · right
    refine ⟨p1, ?_⟩
    intro r' hr'
    obtain ⟨rB, hB, hc⟩ := map_content_some e2.symm hr'
    have := q1 rB hB
    have hc' : rB.addr = r'.addr := by unfold content at hc; simp only [Prod.mk.injEq] at hc; exact hc.2.1
    rw [← hc']; exact this
  · exact Or.inr ⟨p1, q2⟩

theorem OwnerOnly_of_recs {s : Nat} {S S' : State} (h : S'.records = S.records) : OwnerOnly s S S' :=
  fun id => Or.inl (by rw [getRec_congr h])

theorem ResetOnChange.refl (S : State) : ResetOnChange S S := fun _ _ h => Or.inl h
theorem ResetOnChange.trans {A B C : State} (h1 : ResetOnChange A B) (h2 : ResetOnChange B C) : ResetOnChange A C := by
  intro id r' hr'
  rcases h2 id r' hr' with hB | he
  · exact h1 id r' hB
  · exact Or.inr he
theorem ResetOnChange_of_recs {S S' : State} (h : S'.records = S.records) : ResetOnChange S S' :=
  fun id r' hr' => Or.inl (by rw [← getRec_congr h]; exact hr')

theorem WFcore_recFrame_reqs {S S' : State} (f : RecFrame S S') (hr : S'.reqs = S.reqs) (hb : S'.byReq = S.byReq)
    (h : WFcore S) : WFcore S' := by
  refine ⟨?_, ?_, ?_, ?_, ?_⟩
  · intro e he; rw [f.idx] at he; rw [f.getRec]; exact h.idxLive e he
  · intro r hr'; rw [f.records] at hr'; rw [f.lastRecordId]; exact h.recBounded r hr'
  · intro r hr'; rw [f.records] at hr'; exact h.keysLower r hr'
  · intro q hq id hid; rw [hr] at hq; rw [f.getRec]; exact h.reqLive q hq id hid
  · intro q hq; rw [hr] at hq; rw [hb]; exact h.reqIdx q hq

theorem idxGet_spec {S : State} {a : Nat} {k : String} {id : Nat} (h : idxGet S a k = id) (hne : id ≠ 0) :
    ∃ e ∈ S.idx, e.addr = a ∧ e.key = k ∧ e.id = id := by
  unfold idxGet at h
  split at h
  · rename_i e he
    refine ⟨e, List.mem_of_find?_eq_some he, ?_, ?_, h⟩
    · have := List.find?_some he; simp only [Bool.and_eq_true, beq_iff_eq] at this; exact this.1
    · have := List.find?_some he; simp only [Bool.and_eq_true, beq_iff_eq] at this; exact this.2
  · exact absurd h.symm hne

theorem idxGetK_spec {S : State} {a : Nat} {k : String} {id : Nat} (h : idxGetK S a k = id) (hne : id ≠ 0) :
    ∃ e ∈ S.idx, e.addr = a ∧ e.key = lower k ∧ e.id = id := by
  unfold idxGetK at h
  split at h
  · exact idxGet_spec h hne
  · exact absurd h.symm hne

/-- writing a record over a record of the same address and key (or over nothing) keeps the registry
well-formed and is an edit by that address -/
theorem putRecord_spec {S : State} {r : Record} (h : WFcore S) (hl : lower r.key = r.key)
    (hc : ∀ r0, getRec S r.id = some r0 → r0.addr = r.addr ∧ r0.key = r.key) (hb : r.id ≤ S.lastRecordId) :
    WFcore (putRecord S r) ∧ OwnerOnly r.addr S (putRecord S r) := by
  have hr' : ({ r with key := lower r.key } : Record) = r := by cases r; simp_all
  constructor
  · refine ⟨?_, ?_, ?_, ?_, ?_⟩
    · intro e he
      simp only [putRecord, List.mem_cons, List.mem_filter] at he
      rw [getRec_putRecord, hr']
      rcases he with e1 | ⟨hm, hf⟩
      · subst e1; simp [hl]
      · by_cases hid : r.id = e.id
        · obtain ⟨r0, h0, ha, hk⟩ := h.idxLive e hm
          rw [← hid] at h0
          obtain ⟨ha', hk'⟩ := hc r0 h0
          simp [← ha, ← hk, ha', hk', hl] at hf
        · simp only [if_neg hid]; exact h.idxLive e hm
    · intro x hx
      show x.id ≤ S.lastRecordId
      rcases mem_putRecord hx with e | ⟨hm, _⟩
      · rw [e]; exact hb
      · exact h.recBounded x hm
    · intro x hx
      rcases mem_putRecord hx with e | ⟨hm, _⟩
      · rw [e]; exact lower_idem _
      · exact h.keysLower x hm
    · intro q hq id hid
      change q ∈ S.reqs at hq
      rw [getRec_putRecord, hr']
      obtain ⟨r0, h0, ha⟩ := h.reqLive q hq id hid
      by_cases e : r.id = id
      · simp only [if_pos e]
        rw [← e] at h0
        exact ⟨r, rfl, by rw [← (hc r0 h0).1]; exact ha⟩
      · simp only [if_neg e]; exact ⟨r0, h0, ha⟩
    · intro q hq; exact h.reqIdx q hq
  · intro id
    rw [getRec_putRecord, hr']
    by_cases e : r.id = id
    · right
      simp only [if_pos e]
      refine ⟨?_, ?_⟩
      · intro r0 h0; rw [← e] at h0; exact (hc r0 h0).1
      · intro r2 h2; cases h2; rfl
    · left; simp [e]

theorem ResetOnChange_putRecord {S : State} {r : Record} (hv : r.verifiers = []) : ResetOnChange S (putRecord S r) := by
  intro id r' hr'
  rw [getRec_putRecord] at hr'
  split at hr'
  · right; cases hr'; exact hv
  · left; exact hr'


theorem WFcore_bump {S : State} (h : WFcore S) : WFcore { S with lastRecordId := S.lastRecordId + 1 } := by
  refine ⟨h.idxLive, ?_, h.keysLower, h.reqLive, h.reqIdx⟩
  intro r hr
  have := h.recBounded r hr
  show r.id ≤ S.lastRecordId + 1
  omega

theorem regApply_spec {a : Nat} (infos : List Info) {S S' : State} {aff aff' : List Nat}
    (hl : ∀ i ∈ infos, lower i.key = i.key) (h : WFcore S)
    (hr : regApply a infos S aff = some (S', aff')) :
    WFcore S' ∧ OwnerOnly a S S' ∧ ResetOnChange S S' ∧ (∀ x ∈ aff, x ∈ aff') ∧
    (∀ id r r', getRec S id = some r → getRec S' id = some r' → r.value ≠ r'.value → id ∈ aff') := by
  induction infos generalizing S aff with
  | nil =>
    simp [regApply] at hr
    obtain ⟨rfl, rfl⟩ := hr
    refine ⟨h, OwnerOnly.refl _ _, ResetOnChange.refl _, fun _ hx => hx, ?_⟩
    intro id r r' h1 h2 hne
    rw [h1] at h2; cases h2; exact absurd rfl hne
  | cons i rest ih =>
    have hli : lower i.key = i.key := hl i List.mem_cons_self
    have hlr : ∀ j ∈ rest, lower j.key = j.key := fun j hj => hl j (List.mem_cons_of_mem _ hj)
    unfold regApply at hr
    simp only at hr
    split at hr
    · -- new record
      split at hr
      · cases hr
      · rename_i S2 hs
        obtain ⟨_, _, rfl⟩ := setRecord_some hs
        have h0 := WFcore_bump h
        have hfresh : ∀ r0, getRec S (S.lastRecordId + 1) = some r0 → False := by
          intro r0 h0'
          have := h.recBounded r0 (getRec_mem h0').1
          have := (getRec_mem h0').2
          omega
        obtain ⟨w2, o2⟩ := putRecord_spec (S := { S with lastRecordId := S.lastRecordId + 1 })
          (r := ⟨S.lastRecordId + 1, a, i.key, i.value, S.now, []⟩) h0 hli
          (fun r0 hr0 => (hfresh r0 hr0).elim) (Nat.le_refl _)
        obtain ⟨w, o, rs, sub, val⟩ := ih hlr w2 hr
        refine ⟨w, OwnerOnly.trans o2 o, ResetOnChange.trans (ResetOnChange_putRecord rfl) rs, sub, ?_⟩
        intro id r r' h1 h2 hne
        refine val id r r' ?_ h2 hne
        rw [getRec_putRecord]
        have : S.lastRecordId + 1 ≠ id := by
          intro e; subst e; exact hfresh r h1
        simp only [if_neg this]; exact h1
    · rename_i hid0
      split at hr
      · cases hr
      · rename_i S2 hs
        obtain ⟨_, _, rfl⟩ := setRecord_some hs
        have hne0 : idxGetK S a i.key ≠ 0 := by simpa using hid0
        obtain ⟨e, he, hea, hek, heid⟩ := idxGetK_spec rfl hne0
        obtain ⟨r0, hr0, hra, hrk⟩ := h.idxLive e he
        rw [heid] at hr0
        rw [hli] at hek
        obtain ⟨w2, o2⟩ := putRecord_spec (r := ⟨idxGetK S a i.key, a, i.key, i.value, S.now, []⟩) h hli
          (fun r1 hr1 => by
            have : r1 = r0 := by
              have h' : getRec S (idxGetK S a i.key) = some r1 := hr1
              rw [hr0] at h'; cases h'; rfl
            subst this; exact ⟨hra.trans hea, hrk.trans hek⟩)
          (by have := h.recBounded r0 (getRec_mem hr0).1; have := (getRec_mem hr0).2; show idxGetK S a i.key ≤ _; omega)
        simp only [hr0] at hr
        obtain ⟨w, o, rs, sub, val⟩ := ih hlr w2 hr
        refine ⟨w, OwnerOnly.trans o2 o, ResetOnChange.trans (ResetOnChange_putRecord rfl) rs, ?_, ?_⟩
        · intro x hx
          apply sub
          split
          · exact List.mem_append_left _ hx
          · exact hx
        · intro id r r' h1 h2 hne
          by_cases hid : idxGetK S a i.key = id
          · rw [← hid] at h1 h2 ⊢
            rw [hr0] at h1; cases h1
            by_cases hv : r0.value = i.value
            · refine val _ ⟨idxGetK S a i.key, a, lower i.key, i.value, S.now, []⟩ r' ?_ h2 (by rw [← hv]; exact hne)
              rw [getRec_putRecord]; simp
            · apply sub
              have : (r0.value != i.value) = true := by simpa using hv
              simp [this]
          · refine val id r r' ?_ h2 hne
            rw [getRec_putRecord]
            simp only [if_neg hid]; exact h1


/-! ## cancelling requests -/

theorem ReqIdx_deleteReq {S : State} (d : Nat) (hi : ReqIdx S) : ReqIdx (deleteReq S d) := by
  intro q hq
  rw [deleteReq_reqs] at hq
  obtain ⟨hm, hne⟩ := List.mem_filter.mp hq
  have hne' : q.id ≠ d := by simpa using hne
  unfold deleteReq
  cases hd : getReq S d with
  | none => exact hi q hm
  | some q0 =>
    simp only [List.mem_filter]
    refine ⟨hi q hm, ?_⟩
    simp [hne']

theorem sendFromGov_reqSide {S S' : State} {a d n : Nat} (h : sendFromGov S a d n = some S') :
    S'.reqs = S.reqs ∧ S'.byReq = S.byReq ∧ S'.lastReqId = S.lastReqId := by
  unfold sendFromGov at h
  split at h
  · cases h
  · cases h; exact ⟨rfl, rfl, rfl⟩

theorem sendToGov_reqSide {S S' : State} {a d n : Nat} (h : sendToGov S a d n = some S') :
    S'.reqs = S.reqs ∧ S'.byReq = S.byReq := by
  unfold sendToGov at h
  split at h
  · cases h
  · cases h; exact ⟨rfl, rfl⟩

theorem cancelReq_spec {S S' : State} {a id : Nat} (hw : ReqWF S) (hi : ReqIdx S) (hc : cancelReq S a id = some S') :
    ReqWF S' ∧ ReqIdx S' ∧ S'.reqs = S.reqs.filter (fun x => x.id != id) := by
  obtain ⟨q, S1, _, _, hpay, rfl⟩ := cancelReq_some hc
  have h1 : S1.reqs = S.reqs ∧ S1.byReq = S.byReq ∧ S1.lastReqId = S.lastReqId := by
    rcases hpay with ⟨_, hs⟩ | ⟨_, rfl⟩
    · exact sendFromGov_reqSide hs
    · exact ⟨rfl, rfl, rfl⟩
  have hw1 : ReqWF S1 := by
    refine ⟨by rw [h1.1]; exact hw.1, ?_⟩
    intro x hx; rw [h1.1] at hx; rw [h1.2.2]; exact hw.2 x hx
  have hi1 : ReqIdx S1 := by
    intro x hx; rw [h1.1] at hx; rw [h1.2.1]; exact hi x hx
  exact ⟨ReqWF_deleteReq id hw1, ReqIdx_deleteReq id hi1, by rw [deleteReq_reqs, h1.1]⟩

def touches (ids : List Nat) (q : Request) : Bool := q.recordIds.any (fun i => ids.contains i)

theorem cancelInvalidLoop_spec {a : Nat} {ids : List Nat} (rids : List Nat) {S S' : State}
    (hw : ReqWF S) (hi : ReqIdx S) (hc : cancelInvalidLoop a ids rids S = some S') :
    ReqWF S' ∧ ReqIdx S' ∧ (∀ q ∈ S'.reqs, q ∈ S.reqs) ∧
    (∀ q ∈ S.reqs, q.id ∈ rids → touches ids q = true → q ∉ S'.reqs) := by
  induction rids generalizing S with
  | nil =>
    simp [cancelInvalidLoop] at hc; subst hc
    exact ⟨hw, hi, fun _ h => h, fun _ _ h => by cases h⟩
  | cons rid rest ih =>
    unfold cancelInvalidLoop at hc
    split at hc
    · cases hc
    · rename_i q0 hq0
      split at hc
      · rename_i ht
        split at hc
        · cases hc
        · rename_i S1 h1
          obtain ⟨w1, i1, e1⟩ := cancelReq_spec hw hi h1
          obtain ⟨w', i', sub', gone'⟩ := ih w1 i1 hc
          refine ⟨w', i', ?_, ?_⟩
          · intro q hq
            have := sub' q hq
            rw [e1] at this
            exact (List.mem_filter.mp this).1
          · intro q hq hid ht'
            by_cases e : q.id = rid
            · intro hin
              have := sub' q hin
              rw [e1] at this
              have := (List.mem_filter.mp this).2
              simp [e] at this
            · have hid' : q.id ∈ rest := by
                rcases List.mem_cons.mp hid with h | h
                · exact absurd h e
                · exact h
              refine gone' q ?_ hid' ht'
              rw [e1]; simp only [List.mem_filter]; exact ⟨hq, by simpa using e⟩
      · rename_i ht
        obtain ⟨w', i', sub', gone'⟩ := ih hw hi hc
        refine ⟨w', i', sub', ?_⟩
        intro q hq hid ht'
        by_cases e : q.id = rid
        · -- q is the request read at `rid`, which does not touch the ids: contradiction
          have : getReq S q.id = some q := getReq_of_mem hw hq
          rw [e, hq0] at this; cases this
          exact absurd ht' ht
        · have hid' : q.id ∈ rest := by
            rcases List.mem_cons.mp hid with h | h
            · exact absurd h e
            · exact h
          exact gone' q hq hid' ht'

theorem mem_reqIdsOf {S : State} {a id : Nat} (h : (a, id) ∈ S.byReq) : id ∈ reqIdsOf S a := by
  unfold reqIdsOf
  simp only [List.mem_map, List.mem_filter]
  exact ⟨(a, id), ⟨h, by simp⟩, rfl⟩

/-- `CancelInvalidIdentityRecordVerifyRequests`: the request side stays well-formed, the record side is
untouched, and no request of `a` that names one of `ids` survives -/
theorem cancelInvalid_spec {S S' : State} {a : Nat} {ids : List Nat} (hw : ReqWF S) (hi : ReqIdx S)
    (hc : cancelInvalid S a ids = some S') :
    ReqWF S' ∧ ReqIdx S' ∧ RecFrame S S' ∧ (∀ q ∈ S'.reqs, q ∈ S.reqs) ∧
    (∀ q ∈ S'.reqs, q.addr = a → touches ids q = false) := by
  have f := cancelInvalid_recFrame hc
  obtain ⟨w', i', sub', gone'⟩ := cancelInvalidLoop_spec _ hw hi hc
  refine ⟨w', i', f, sub', ?_⟩
  intro q hq ha
  cases ht : touches ids q with
  | false => rfl
  | true =>
    have hin := sub' q hq
    have := hi q hin
    rw [ha] at this
    exact absurd hq (gone' q hin (mem_reqIdsOf this) ht)

theorem touches_of_mem {ids : List Nat} {q : Request} {id : Nat} (h1 : id ∈ q.recordIds) (h2 : id ∈ ids) : touches ids q = true := by
  unfold touches
  simp only [List.any_eq_true]
  exact ⟨id, h1, by simpa using h2⟩

theorem ReqWF_of_frame {S S' : State} (hr : S'.reqs = S.reqs) (hl : S'.lastReqId = S.lastReqId) (h : ReqWF S) : ReqWF S' := by
  refine ⟨by rw [hr]; exact h.1, ?_⟩
  intro x hx; rw [hr] at hx; rw [hl]; exact h.2 x hx

/-- `RegisterIdentityRecords` from a well-formed registry -/
theorem registerRecords_spec {S S' : State} {a : Nat} {infos : List Info} (h : WFcore S) (hw : ReqWF S)
    (hr : registerRecords S a infos = some S') :
    WFcore S' ∧ ReqWF S' ∧ OwnerOnly a S S' ∧ ResetOnChange S S' ∧
    (∀ id r r', getRec S id = some r → getRec S' id = some r' → r.value ≠ r'.value →
      ∀ q ∈ S'.reqs, id ∉ q.recordIds) := by
  unfold registerRecords at hr
  split at hr
  · cases hr
  · rename_i infos' hc
    split at hr
    · cases hr
    · rename_i S1 aff ha
      obtain ⟨w1, o1, rs1, _, val1⟩ := regApply_spec infos' (regCheck_lower infos hc) h ha
      have fr := regApply_reqFrame _ ha
      have hw1 : ReqWF S1 := ReqWF_of_frame fr.reqs fr.lastReqId hw
      obtain ⟨w', i', f, sub', surv⟩ := cancelInvalid_spec hw1 w1.reqIdx hr
      have wf' : WFcore S' := by
        refine ⟨?_, ?_, ?_, ?_, i'⟩
        · intro e he; rw [f.idx] at he; rw [f.getRec]; exact w1.idxLive e he
        · intro r hr'; rw [f.records] at hr'; rw [f.lastRecordId]; exact w1.recBounded r hr'
        · intro r hr'; rw [f.records] at hr'; exact w1.keysLower r hr'
        · intro q hq id hid; rw [f.getRec]; exact w1.reqLive q (sub' q hq) id hid
      refine ⟨wf', w', OwnerOnly.trans o1 (OwnerOnly_of_recs f.records), ResetOnChange.trans rs1 (ResetOnChange_of_recs f.records), ?_⟩
      intro id r r' h1 h2 hne q hq hid
      rw [f.getRec] at h2
      have haff : id ∈ aff := val1 id r r' h1 h2 hne
      obtain ⟨r1, hr1, hadr⟩ := w1.reqLive q (sub' q hq) id hid
      rw [h2] at hr1; cases hr1
      have hown : r'.addr = a := by
        rcases o1 id with e | ⟨_, post⟩
        · rw [h1, h2] at e
          simp only [Option.map_some, Option.some.injEq, content, Prod.mk.injEq] at e
          exact absurd e.2.2.2.1.symm hne
        · exact post r' h2
      have := surv q hq (hadr.symm.trans hown)
      rw [touches_of_mem hid haff] at this
      cases this

theorem deleteLoop_spec (ids : List Nat) {S S' : State} (hd : deleteLoop ids S = some S') :
    S'.idx = S.idx ∧ S'.lastRecordId = S.lastRecordId ∧
    (∀ id, getRec S' id = if id ∈ ids then none else getRec S id) ∧ (∀ x ∈ S'.records, x ∈ S.records) := by
  induction ids generalizing S with
  | nil => simp [deleteLoop] at hd; subst hd; exact ⟨rfl, rfl, fun _ => by simp, fun _ h => h⟩
  | cons d rest ih =>
    unfold deleteLoop at hd
    split at hd
    · cases hd
    · obtain ⟨i1, l1, g1, m1⟩ := ih hd
      refine ⟨by rw [i1]; simp, by rw [l1]; simp, ?_, fun x hx => (mem_delete (m1 x hx)).1⟩
      intro id
      rw [g1 id, getRec_delete]
      by_cases h1 : id ∈ rest
      · simp [h1]
      · by_cases h2 : d = id
        · simp [h2]
        · have : id ≠ d := fun e => h2 e.symm
          simp [h1, h2, this]

/-- `DeleteIdentityRecords` from a well-formed registry -/
theorem deleteRecords_spec {S S' : State} {a : Nat} {keys : List String} (h : WFcore S) (hw : ReqWF S)
    (hd : deleteRecords S a keys = some S') :
    WFcore S' ∧ ReqWF S' ∧ OwnerOnly a S S' ∧ (∀ id r', getRec S' id = some r' → getRec S id = some r') ∧
    (∀ id r, getRec S id = some r → getRec S' id = none → keys.isEmpty = true ∨ r.key ∈ keys.map lower) := by
  unfold deleteRecords at hd
  split at hd
  · cases hd
  · simp only at hd
    split at hd
    · cases hd
    · rename_i S2 hl
      -- names
      generalize hsel : (fun (e : IdxEntry) => e.addr == a && (keys.isEmpty || (keys.map lower).contains e.key)) = sel at hl hd
      generalize hids : (S.idx.filter sel).map (·.id) = ids at hl hd
      obtain ⟨i2, l2, g2, m2⟩ := deleteLoop_spec ids hl
      have fr := deleteLoop_reqFrame _ hl
      have hw2 : ReqWF S2 := ReqWF_of_frame fr.reqs fr.lastReqId hw
      have hi2 : ReqIdx S2 := by intro q hq; rw [fr.reqs] at hq; rw [fr.byReq]; exact h.reqIdx q hq
      obtain ⟨w', i', f, sub', surv⟩ := cancelInvalid_spec hw2 hi2 hd
      -- every deleted id is a record of `a`, reached through a selected index entry
      have hsel_a : ∀ e, sel e = true → e.addr = a := by
        intro e he; rw [← hsel] at he; simp only [Bool.and_eq_true, beq_iff_eq] at he; exact he.1
      have hown : ∀ id ∈ ids, ∃ e ∈ S.idx, sel e = true ∧ e.id = id := by
        intro id hid; rw [← hids] at hid
        simp only [List.mem_map, List.mem_filter] at hid
        obtain ⟨e, ⟨he, hs⟩, rfl⟩ := hid
        exact ⟨e, he, hs, rfl⟩
      have hrest : ∀ e ∈ S.idx, sel e = false → e.id ∉ ids := by
        intro e he hs hin
        obtain ⟨e0, he0, hs0, hid0⟩ := hown e.id hin
        obtain ⟨r, hr, ha, hk⟩ := h.idxLive e he
        obtain ⟨r0, hr0, ha0, hk0⟩ := h.idxLive e0 he0
        rw [hid0, hr] at hr0; cases hr0
        have e1 : e.addr = e0.addr := ha.symm.trans ha0
        have e2 : e.key = e0.key := hk.symm.trans hk0
        have : sel e = sel e0 := by rw [← hsel]; simp [e1, e2]
        rw [hs, hs0] at this; cases this
      have g' : ∀ id, getRec S' id = if id ∈ ids then none else getRec S id := by
        intro id; rw [f.getRec, g2 id]; rfl
      refine ⟨⟨?_, ?_, ?_, ?_, i'⟩, w', ?_, ?_, ?_⟩
      · intro e he
        rw [f.idx, i2] at he
        have he' : e ∈ S.idx.filter (fun e => !sel e) := by rw [← hsel]; exact he
        obtain ⟨hm, hs⟩ := List.mem_filter.mp he'
        have hs' : sel e = false := by simpa using hs
        rw [g' e.id, if_neg (hrest e hm hs')]
        exact h.idxLive e hm
      · intro r hr
        rw [f.records] at hr; rw [f.lastRecordId, l2]
        exact h.recBounded r (m2 r hr)
      · intro r hr
        rw [f.records] at hr
        exact h.keysLower r (m2 r hr)
      · intro q hq id hid
        have hq2 := sub' q hq
        rw [fr.reqs] at hq2
        change q ∈ S.reqs at hq2
        obtain ⟨r, hr, ha⟩ := h.reqLive q hq2 id hid
        by_cases hin : id ∈ ids
        · obtain ⟨e0, he0, hs0, hid0⟩ := hown id hin
          obtain ⟨r0, hr0, ha0, _⟩ := h.idxLive e0 he0
          rw [hid0, hr] at hr0; cases hr0
          have : q.addr = a := ha.symm.trans (ha0.trans (hsel_a e0 hs0))
          have := surv q hq this
          rw [touches_of_mem hid hin] at this; cases this
        · rw [g' id, if_neg hin]; exact ⟨r, hr, ha⟩
      · intro id
        by_cases hin : id ∈ ids
        · right
          refine ⟨?_, ?_⟩
          · intro r hr
            obtain ⟨e0, he0, hs0, hid0⟩ := hown id hin
            obtain ⟨r0, hr0, ha0, _⟩ := h.idxLive e0 he0
            rw [hid0, hr] at hr0; cases hr0
            exact ha0.trans (hsel_a e0 hs0)
          · intro r' hr'; rw [g' id, if_pos hin] at hr'; cases hr'
        · left; rw [g' id, if_neg hin]
      · intro id r' hr'
        rw [g' id] at hr'
        split at hr'
        · cases hr'
        · exact hr'
      · intro id r hr hnone
        rw [g' id] at hnone
        split at hnone
        · rename_i hin
          obtain ⟨e0, he0, hs0, hid0⟩ := hown id hin
          obtain ⟨r0, hr0, _, hk0⟩ := h.idxLive e0 he0
          rw [hid0, hr] at hr0; cases hr0
          rw [← hsel] at hs0
          simp only [Bool.and_eq_true, Bool.or_eq_true, beq_iff_eq, List.contains_eq_mem, decide_eq_true_eq] at hs0
          rcases hs0.2 with h1 | h1
          · exact Or.inl h1
          · exact Or.inr (by rw [hk0]; exact h1)
        · rw [hr] at hnone; cases hnone


theorem WFcore_deleteReq {S : State} (d : Nat) (h : WFcore S) : WFcore (deleteReq S d) := by
  have f := deleteReq_recFrame S d
  refine ⟨?_, ?_, ?_, ?_, ReqIdx_deleteReq d h.reqIdx⟩
  · intro e he; rw [f.idx] at he; rw [f.getRec]; exact h.idxLive e he
  · intro r hr; rw [f.records] at hr; rw [f.lastRecordId]; exact h.recBounded r hr
  · intro r hr; rw [f.records] at hr; exact h.keysLower r hr
  · intro q hq id hid
    rw [deleteReq_reqs] at hq
    rw [f.getRec]; exact h.reqLive q (List.mem_filter.mp hq).1 id hid

theorem cancelReq_WF {S S' : State} {a id : Nat} (h : WFcore S) (hc : cancelReq S a id = some S') : WFcore S' := by
  obtain ⟨q, S1, _, _, hpay, rfl⟩ := cancelReq_some hc
  apply WFcore_deleteReq
  rcases hpay with ⟨_, hs⟩ | ⟨_, rfl⟩
  · exact WFcore_recFrame_reqs (sendFromGov_recFrame hs) (sendFromGov_reqSide hs).1 (sendFromGov_reqSide hs).2.1 h
  · exact h

theorem requestVerify_WF {S S' : State} {a v : Nat} {ids : List Nat} {d n : Nat} (h : WFcore S) (hw : ReqWF S)
    (hr : requestVerify S a v ids d n = some S') : WFcore S' ∧ RecFrame S S' := by
  unfold requestVerify at hr
  simp only at hr
  split at hr
  · cases hr
  · rename_i hown
    split at hr
    · cases hr
    · rename_i le _
      split at hr
      · cases hr
      · have hown' : ∀ i ∈ ids, ∃ e, e ∈ S.idx ∧ e.addr = a ∧ e.id = i := by
          simpa using hown
        have w1 : WFcore { setReq S ⟨S.lastReqId + 1, a, v, ids, d, n, le⟩ with lastReqId := S.lastReqId + 1 } := by
          refine ⟨h.idxLive, h.recBounded, h.keysLower, ?_, ?_⟩
          · intro q hq id hid
            change q ∈ (setReq S _).reqs at hq
            show ∃ r, getRec S id = some r ∧ r.addr = q.addr
            rcases mem_setReq hq with e | ⟨hm, _⟩
            · subst e
              obtain ⟨e0, he0, ha0, hid0⟩ := hown' id hid
              obtain ⟨r, hr', hra, _⟩ := h.idxLive e0 he0
              rw [hid0] at hr'
              exact ⟨r, hr', hra.trans ha0⟩
            · exact h.reqLive q hm id hid
          · intro q hq
            change q ∈ (setReq S _).reqs at hq
            show (q.addr, q.id) ∈ (setReq S _).byReq
            simp only [setReq, List.mem_cons, List.mem_filter]
            rcases mem_setReq hq with e | ⟨hm, hne⟩
            · left; rw [e]
            · right
              refine ⟨h.reqIdx q hm, ?_⟩
              have : q.id ≠ S.lastReqId + 1 := by have := hw.2 q hm; omega
              simp [this]
        have f1 : RecFrame S { setReq S ⟨S.lastReqId + 1, a, v, ids, d, n, le⟩ with lastReqId := S.lastReqId + 1 } :=
          ⟨rfl, rfl, rfl, rfl⟩
        split at hr
        · have f := sendToGov_recFrame hr
          exact ⟨WFcore_recFrame_reqs f (sendToGov_reqSide hr).1 (sendToGov_reqSide hr).2 w1, f1.trans f⟩
        · cases hr; exact ⟨w1, f1⟩

/-- the approve loop keeps the registry well-formed and changes verifier lists only -/
theorem approveLoop_spec {v : Nat} (ids : List Nat) {S S' : State} (h : WFcore S)
    (ha : approveLoop v ids S = some S') :
    WFcore S' ∧ ∀ id, (getRec S' id).map content = (getRec S id).map content := by
  induction ids generalizing S with
  | nil => simp [approveLoop] at ha; subst ha; exact ⟨h, fun _ => rfl⟩
  | cons id rest ih =>
    unfold approveLoop at ha
    split at ha
    · cases ha
    · rename_i r hr
      split at ha
      · exact ih h ha
      · split at ha
        · cases ha
        · rename_i S1 hs
          obtain ⟨_, _, rfl⟩ := setRecord_some hs
          have hl : lower r.key = r.key := h.keysLower r (getRec_mem hr).1
          have hid : r.id = id := (getRec_mem hr).2
          obtain ⟨w1, _⟩ := putRecord_spec (r := { r with verifiers := r.verifiers ++ [v] }) h hl
            (fun r0 hr0 => by
              have : getRec S r.id = some r0 := hr0
              rw [hid, hr] at this; cases this; exact ⟨rfl, rfl⟩)
            (h.recBounded r (getRec_mem hr).1)
          obtain ⟨w', c'⟩ := ih w1 ha
          refine ⟨w', ?_⟩
          intro id'
          rw [c' id', getRec_putRecord]
          by_cases e : r.id = id'
          · have hrid : getRec S id' = some r := by rw [← e, hid]; exact hr
            rw [if_pos e, hrid]
            simp [content, hl]
          · have : ({ r with verifiers := r.verifiers ++ [v] } : Record).id = r.id := rfl
            simp [e]

theorem handleVerify_WF {S S' : State} {v id : Nat} {yes : Bool} (h : WFcore S)
    (hh : handleVerify S v id yes = some S') :
    WFcore S' ∧ ∀ id, (getRec S' id).map content = (getRec S id).map content := by
  unfold handleVerify at hh
  split at hh
  · cases hh
  · rename_i q hq
    split at hh
    · cases hh
    · split at hh
      · cases hh
      · rename_i S1 hpay
        have h1 : WFcore S1 ∧ RecFrame S S1 := by
          by_cases h0 : q.amount = 0
          · simp [h0] at hpay; subst hpay; exact ⟨h, RecFrame.refl _⟩
          · simp [h0] at hpay
            exact ⟨WFcore_recFrame_reqs (sendFromGov_recFrame hpay) (sendFromGov_reqSide hpay).1 (sendFromGov_reqSide hpay).2.1 h,
              sendFromGov_recFrame hpay⟩
        split at hh
        · cases hh
        · split at hh
          · cases hh
            refine ⟨WFcore_deleteReq _ h1.1, fun id' => ?_⟩
            rw [(deleteReq_recFrame _ _).getRec, h1.2.getRec]
          · split at hh
            · cases hh
            · rename_i S2 ha
              cases hh
              obtain ⟨w2, c2⟩ := approveLoop_spec _ h1.1 ha
              refine ⟨WFcore_deleteReq _ w2, fun id' => ?_⟩
              rw [(deleteReq_recFrame _ _).getRec, c2 id', h1.2.getRec]

/-- the relation between the states before and after a message signed by `s` (or by nobody) -/
def OpFrame (o : Op) (S S' : State) : Prop :=
  match o.signer with
  | some s => OwnerOnly s S S'
  | none => ∀ id, (getRec S' id).map content = (getRec S id).map content

theorem OwnerOnly_of_content {s : Nat} {S S' : State} (h : ∀ id, (getRec S' id).map content = (getRec S id).map content) :
    OwnerOnly s S S' := fun id => Or.inl (h id)

/-- every message except a rotation keeps the registry well-formed and changes only records of its signer -/
theorem WF_apply {S S' : State} {o : Op} (hrot : o.isRotate = false) (h : WFcore S) (hw : ReqWF S)
    (ha : apply S o = some S') : WFcore S' ∧ OpFrame o S S' := by
  cases o with
  | register a infos =>
    obtain ⟨w, _, o1, _, _⟩ := registerRecords_spec h hw (ite_none_some ha)
    exact ⟨w, o1⟩
  | delete a keys =>
    obtain ⟨w, _, o1, _⟩ := deleteRecords_spec h hw ha
    exact ⟨w, o1⟩
  | request a v ids d n =>
    obtain ⟨w, f⟩ := requestVerify_WF h hw (ite_none_some ha)
    exact ⟨w, OwnerOnly_of_recs f.records⟩
  | handle v id yes =>
    obtain ⟨w, c⟩ := handleVerify_WF h (ite_none_some ha)
    exact ⟨w, OwnerOnly_of_content c⟩
  | cancel a id =>
    exact ⟨cancelReq_WF h (ite_none_some ha), OwnerOnly_of_recs (cancelReq_recFrame (ite_none_some ha)).records⟩
  | claimVal a m =>
    obtain ⟨w, _, o1, _, _⟩ := registerRecords_spec h hw (claimValidator_some ha)
    exact ⟨w, o1⟩
  | claimCouncil a fs =>
    obtain ⟨w, _, o1, _, _⟩ := registerRecords_spec
      (S := { S with councilors := if S.councilors.contains a then S.councilors else a :: S.councilors })
      ⟨h.idxLive, h.recBounded, h.keysLower, h.reqLive, h.reqIdx⟩ ⟨hw.1, hw.2⟩ (claimCouncilor_some ha)
    exact ⟨w, o1⟩
  | setKeysSingle new =>
    rw [setKeysSingle_frames ha]
    exact ⟨⟨h.idxLive, h.recBounded, h.keysLower, h.reqLive, h.reqIdx⟩, fun _ => rfl⟩
  | setKeysWhole s new =>
    rw [setKeysWhole_frames ha]
    exact ⟨⟨h.idxLive, h.recBounded, h.keysLower, h.reqLive, h.reqIdx⟩, fun _ => Or.inl rfl⟩
  | setMinTip n =>
    simp only [apply, Option.some.injEq] at ha; subst ha
    exact ⟨⟨h.idxLive, h.recBounded, h.keysLower, h.reqLive, h.reqIdx⟩, fun _ => rfl⟩
  | time t =>
    simp only [apply, Option.some.injEq] at ha; subst ha
    exact ⟨⟨h.idxLive, h.recBounded, h.keysLower, h.reqLive, h.reqIdx⟩, fun _ => rfl⟩
  | rotate p o n ok => simp [Op.isRotate] at hrot


/-! ## the invariant used by (b) and (d), over histories -/

/-- the part of the invariant (b) and (d) need -/
def WFr (S : State) : Prop := WFcore S ∧ ReqWF S


theorem wfr_step {S : State} {o : Op} (h : WFr S) (hr : o.isRotate = false) : WFr (step S o) := by
  unfold step
  split
  · rename_i S' ha
    refine ⟨(WF_apply hr h.1 h.2 ha).1, ?_⟩
    cases o with
    | register a infos => exact (registerRecords_spec h.1 h.2 (ite_none_some ha)).2.1
    | delete a keys => exact (deleteRecords_spec h.1 h.2 ha).2.1
    | request a v ids d n =>
      -- the request counter moves: re-use the escrow development on the request side only
      have hr' := ite_none_some ha
      have hm := ReqMono_requestVerify hr'
      obtain ⟨hl, ⟨le, hg⟩, _, _⟩ := requestVerify_escrows hr'
      unfold requestVerify at hr'
      simp only at hr'
      split at hr'
      · cases hr'
      · split at hr'
        · cases hr'
        · rename_i le' _
          split at hr'
          · cases hr'
          · have hfresh : ∀ x ∈ S.reqs, x.id ≠ S.lastReqId + 1 := fun x hx e => by have := h.2.2 x hx; omega
            have hreqs : (setReq S ⟨S.lastReqId + 1, a, v, ids, d, n, le'⟩).reqs = ⟨S.lastReqId + 1, a, v, ids, d, n, le'⟩ :: S.reqs := by
              simp only [setReq]; rw [filter_ne_self S.reqs _ hfresh]
            have wf1 : ReqWF { setReq S ⟨S.lastReqId + 1, a, v, ids, d, n, le'⟩ with lastReqId := S.lastReqId + 1 } := by
              constructor
              · show (setReq S _).reqs.Pairwise _
                rw [hreqs, List.pairwise_cons]
                exact ⟨fun x hx => (hfresh x hx).symm, h.2.1⟩
              · intro q hq
                change q ∈ (setReq S _).reqs at hq
                rw [hreqs] at hq
                show q.id ≤ S.lastReqId + 1
                rcases List.mem_cons.mp hq with e | hm'
                · rw [e]; exact Nat.le_refl _
                · have := h.2.2 q hm'; omega
            split at hr'
            · unfold sendToGov at hr'
              split at hr'
              · cases hr'
              · cases hr'; exact ReqWF_of_frame rfl rfl wf1
            · cases hr'; exact wf1
    | handle v id yes =>
      have hh := ite_none_some ha
      have hm := ReqMono_handleVerify hh
      -- requests only disappear: Pairwise and the bound survive
      unfold handleVerify at hh
      split at hh
      · cases hh
      · rename_i q hq
        split at hh
        · cases hh
        · split at hh
          · cases hh
          · rename_i S1 hpay
            have w1 : ReqWF S1 := by
              by_cases h0 : q.amount = 0
              · simp [h0] at hpay; subst hpay; exact h.2
              · simp [h0] at hpay
                exact ReqWF_of_frame (sendFromGov_reqSide hpay).1 (sendFromGov_reqSide hpay).2.2 h.2
            split at hh
            · cases hh
            · split at hh
              · cases hh; exact ReqWF_deleteReq _ w1
              · split at hh
                · cases hh
                · rename_i S2 ha2
                  cases hh
                  have f := approveLoop_reqFrame _ ha2
                  exact ReqWF_deleteReq _ (ReqWF_of_frame f.reqs f.lastReqId w1)
    | cancel a id => exact (cancelReq_spec h.2 h.1.reqIdx (ite_none_some ha)).1
    | claimVal a m => exact (registerRecords_spec h.1 h.2 (claimValidator_some ha)).2.1
    | claimCouncil a fs =>
      exact (registerRecords_spec
        (S := { S with councilors := if S.councilors.contains a then S.councilors else a :: S.councilors })
        ⟨h.1.idxLive, h.1.recBounded, h.1.keysLower, h.1.reqLive, h.1.reqIdx⟩ ⟨h.2.1, h.2.2⟩ (claimCouncilor_some ha)).2.1
    | setKeysSingle new => rw [setKeysSingle_frames ha]; exact ⟨h.2.1, h.2.2⟩
    | setKeysWhole s new => rw [setKeysWhole_frames ha]; exact ⟨h.2.1, h.2.2⟩
    | setMinTip n => simp only [apply, Option.some.injEq] at ha; subst ha; exact ⟨h.2.1, h.2.2⟩
    | time t => simp only [apply, Option.some.injEq] at ha; subst ha; exact ⟨h.2.1, h.2.2⟩
    | rotate p o n ok => simp [Op.isRotate] at hr
  · exact h

theorem wfr_run (ops : List Op) {S : State} (h : WFr S) (hr : ∀ o ∈ ops, o.isRotate = false) : WFr (run S ops) := by
  induction ops generalizing S with
  | nil => exact h
  | cons o rest ih =>
    unfold run; simp only [List.foldl_cons]
    exact ih (wfr_step h (hr o List.mem_cons_self)) (fun x hx => hr x (List.mem_cons_of_mem _ hx))

theorem apply_step_of_isSome {S : State} {o : Op} (h : (apply S o).isSome = true) : apply S o = some (step S o) := by
  unfold step
  cases ha : apply S o with
  | none => rw [ha] at h; cases h
  | some S' => rfl

end Sekai.Ident
