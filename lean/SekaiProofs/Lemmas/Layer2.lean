import Sekai.Model.Layer2
/-! Helper lemmas for C20: the dApp / user-bond stores of the layer-2 model, the bank primitives, `escrowIn/Out`. -/
namespace Sekai.Layer2

/-! ### dApp store -/

def names (ds : List Dapp) : List Bytes := ds.map (·.name)

theorem findDapp_some {ds : List Dapp} {n : Bytes} {d : Dapp} (h : findDapp ds n = some d) : d ∈ ds ∧ d.name = n := by
  unfold findDapp at h
  exact ⟨List.mem_of_find?_eq_some h, by simpa using List.find?_some h⟩

theorem findDapp_none {ds : List Dapp} {n : Bytes} (h : findDapp ds n = none) : ∀ d ∈ ds, d.name ≠ n := by
  unfold findDapp at h
  intro d hd
  have := (List.find?_eq_none.mp h) d hd
  simpa using this

theorem findDapp_none_names {ds : List Dapp} {n : Bytes} (h : findDapp ds n = none) : n ∉ names ds := by
  intro hn
  obtain ⟨d, hd, rfl⟩ := List.mem_map.mp hn
  exact findDapp_none h d hd rfl

theorem findDapp_of_mem {ds : List Dapp} {d : Dapp} (hn : (names ds).Nodup) (hd : d ∈ ds) : findDapp ds d.name = some d := by
  induction ds with
  | nil => cases hd
  | cons x xs ih =>
    simp only [names, List.map_cons, List.nodup_cons] at hn
    unfold findDapp
    rw [List.find?_cons]
    by_cases hx : x.name = d.name
    · simp only [hx, decide_true]
      rcases List.mem_cons.mp hd with rfl | hd'
      · rfl
      · exfalso; exact hn.1 (hx ▸ List.mem_map.mpr ⟨d, hd', rfl⟩)
    · simp only [hx, decide_false]
      rcases List.mem_cons.mp hd with rfl | hd'
      · exact absurd rfl hx
      · exact ih hn.2 hd'

theorem mem_setDapp {ds : List Dapp} {d x : Dapp} (h : x ∈ setDapp ds d) : x = d ∨ (x ∈ ds ∧ (x.name ≠ d.name ∨ ¬ (names ds).Nodup)) := by
  induction ds with
  | nil => simp [setDapp] at h; exact Or.inl h
  | cons y ys ih =>
    unfold setDapp at h
    split at h
    · rename_i hy
      rcases List.mem_cons.mp h with rfl | h'
      · exact Or.inl rfl
      · by_cases hx : x.name = d.name
        · refine Or.inr ⟨List.mem_cons_of_mem _ h', Or.inr ?_⟩
          intro hn
          simp only [names, List.map_cons, List.nodup_cons] at hn
          exact hn.1 (by rw [hy, ← hx]; exact List.mem_map.mpr ⟨x, h', rfl⟩)
        · exact Or.inr ⟨List.mem_cons_of_mem _ h', Or.inl hx⟩
    · rename_i hy
      rcases List.mem_cons.mp h with rfl | h'
      · exact Or.inr ⟨List.mem_cons_self, Or.inl hy⟩
      · rcases ih h' with rfl | ⟨hm, hne⟩
        · exact Or.inl rfl
        · refine Or.inr ⟨List.mem_cons_of_mem _ hm, ?_⟩
          rcases hne with hne | hnd
          · exact Or.inl hne
          · refine Or.inr (fun hn => hnd ?_)
            simp only [names, List.map_cons, List.nodup_cons] at hn
            exact hn.2

/-- with unique names: the members of `setDapp ds d` are `d` and the old records with another name -/
theorem mem_setDapp' {ds : List Dapp} {d x : Dapp} (hn : (names ds).Nodup) (h : x ∈ setDapp ds d) : x = d ∨ (x ∈ ds ∧ x.name ≠ d.name) := by
  rcases mem_setDapp h with h | ⟨hm, hne | hnd⟩
  · exact Or.inl h
  · exact Or.inr ⟨hm, hne⟩
  · exact absurd hn hnd

theorem mem_setDapp_self (ds : List Dapp) (d : Dapp) : d ∈ setDapp ds d := by
  induction ds with
  | nil => simp [setDapp]
  | cons y ys ih =>
    unfold setDapp
    split
    · exact List.mem_cons_self
    · exact List.mem_cons_of_mem _ ih

theorem mem_setDapp_of_ne {ds : List Dapp} {d x : Dapp} (hx : x ∈ ds) (hne : x.name ≠ d.name) : x ∈ setDapp ds d := by
  induction ds with
  | nil => cases hx
  | cons y ys ih =>
    unfold setDapp
    split
    · rename_i hy
      rcases List.mem_cons.mp hx with rfl | h'
      · exact absurd hy hne
      · exact List.mem_cons_of_mem _ h'
    · rcases List.mem_cons.mp hx with rfl | h'
      · exact List.mem_cons_self
      · exact List.mem_cons_of_mem _ (ih h')

theorem mem_names_setDapp {ds : List Dapp} {d : Dapp} {n : Bytes} : n ∈ names (setDapp ds d) ↔ n = d.name ∨ n ∈ names ds := by
  induction ds with
  | nil => simp [setDapp, names]
  | cons y ys ih =>
    unfold setDapp
    split
    · rename_i hy
      simp only [names, List.map_cons, List.mem_cons, hy]
      constructor
      · rintro (h | h)
        · exact Or.inl h
        · exact Or.inr (Or.inr h)
      · rintro (h | h | h)
        · exact Or.inl h
        · exact Or.inl h
        · exact Or.inr h
    · simp only [names, List.map_cons, List.mem_cons] at ih ⊢
      rw [ih]
      constructor
      · rintro (h | h | h)
        · exact Or.inr (Or.inl h)
        · exact Or.inl h
        · exact Or.inr (Or.inr h)
      · rintro (h | h | h)
        · exact Or.inr (Or.inl h)
        · exact Or.inl h
        · exact Or.inr (Or.inr h)

theorem names_setDapp_nodup {ds : List Dapp} {d : Dapp} (hn : (names ds).Nodup) : (names (setDapp ds d)).Nodup := by
  induction ds with
  | nil => simp [setDapp, names]
  | cons y ys ih =>
    have hn' := hn
    simp only [names, List.map_cons, List.nodup_cons] at hn'
    unfold setDapp
    split
    · rename_i hy
      simp only [names, List.map_cons, List.nodup_cons]
      exact ⟨hy ▸ hn'.1, hn'.2⟩
    · rename_i hy
      simp only [names, List.map_cons, List.nodup_cons]
      refine ⟨?_, ih hn'.2⟩
      intro hmem
      rcases (mem_names_setDapp (ds := ys) (d := d)).mp hmem with h | h
      · exact hy h
      · exact hn'.1 h

theorem mem_delDapp {ds : List Dapp} {n : Bytes} {x : Dapp} : x ∈ delDapp ds n ↔ x ∈ ds ∧ x.name ≠ n := by
  unfold delDapp
  simp [List.mem_filter]

theorem names_delDapp_nodup {ds : List Dapp} {n : Bytes} (hn : (names ds).Nodup) : (names (delDapp ds n)).Nodup := by
  unfold names delDapp
  exact List.Nodup.sublist (List.Sublist.map _ List.filter_sublist) hn

/-! ### sorted iteration copy -/

theorem insDapp_perm (d : Dapp) (l : List Dapp) : (insDapp d l).Perm (d :: l) := by
  induction l with
  | nil => exact List.Perm.refl _
  | cons x xs ih =>
    unfold insDapp
    split
    · exact ((List.Perm.cons x ih).trans (List.Perm.swap d x xs))
    · exact List.Perm.refl _

theorem sortDapps_perm (l : List Dapp) : (sortDapps l).Perm l := by
  induction l with
  | nil => exact List.Perm.refl _
  | cons x xs ih => unfold sortDapps; exact (insDapp_perm x _).trans (List.Perm.cons x ih)

/-! ### user-bond store -/

def UBond.key (b : UBond) : Bytes × Nat := (b.dapp, b.user)
def keys (bs : List UBond) : List (Bytes × Nat) := bs.map UBond.key

theorem findBond_some {bs : List UBond} {d : Bytes} {u : Nat} {b : UBond} (h : findBond bs d u = some b) : b ∈ bs ∧ b.dapp = d ∧ b.user = u := by
  unfold findBond at h
  exact ⟨List.mem_of_find?_eq_some h, by simpa using List.find?_some h⟩

theorem findBond_none {bs : List UBond} {d : Bytes} {u : Nat} (h : findBond bs d u = none) : ∀ b ∈ bs, ¬ (b.dapp = d ∧ b.user = u) := by
  unfold findBond at h
  intro b hb
  have := (List.find?_eq_none.mp h) b hb
  simpa using this

theorem findBond_cons (x : UBond) (xs : List UBond) (d : Bytes) (u : Nat) :
    findBond (x :: xs) d u = if x.dapp = d ∧ x.user = u then some x else findBond xs d u := by
  unfold findBond
  rw [List.find?_cons]
  by_cases h : x.dapp = d ∧ x.user = u
  · simp [h]
  · simp [h]

theorem bondAmt_cons (x : UBond) (xs : List UBond) (d : Bytes) (u : Nat) :
    bondAmt (x :: xs) d u = if x.dapp = d ∧ x.user = u then x.amt else bondAmt xs d u := by
  unfold bondAmt
  rw [findBond_cons]
  by_cases h : x.dapp = d ∧ x.user = u
  · simp only [if_pos h]
  · simp only [if_neg h]

theorem bondAmt_nil (d : Bytes) (u : Nat) : bondAmt [] d u = 0 := rfl
theorem bondSum_nil (d : Bytes) : bondSum [] d = 0 := rfl
theorem bondSum_cons (b : UBond) (bs : List UBond) (d : Bytes) :
    bondSum (b :: bs) d = (if b.dapp = d then b.amt else 0) + bondSum bs d := rfl

theorem bondAmt_eq_zero {bs : List UBond} {d : Bytes} {u : Nat} (h : ∀ b ∈ bs, ¬ (b.dapp = d ∧ b.user = u)) : bondAmt bs d u = 0 := by
  induction bs with
  | nil => rfl
  | cons x xs ih =>
    rw [bondAmt_cons, if_neg (h x List.mem_cons_self)]
    exact ih (fun b hb => h b (List.mem_cons_of_mem _ hb))

theorem bondSum_eq_zero {bs : List UBond} {d : Bytes} (h : ∀ b ∈ bs, b.dapp ≠ d) : bondSum bs d = 0 := by
  induction bs with
  | nil => rfl
  | cons x xs ih =>
    rw [bondSum_cons, if_neg (h x List.mem_cons_self), ih (fun b hb => h b (List.mem_cons_of_mem _ hb))]
    rfl

theorem bondAmt_setBond (bs : List UBond) (nb : UBond) (d : Bytes) (u : Nat) :
    bondAmt (setBond bs nb) d u = if nb.dapp = d ∧ nb.user = u then nb.amt else bondAmt bs d u := by
  induction bs with
  | nil => unfold setBond; rw [bondAmt_cons]
  | cons x xs ih =>
    unfold setBond
    by_cases hx : x.dapp = nb.dapp ∧ x.user = nb.user
    · rw [if_pos hx, bondAmt_cons, bondAmt_cons]
      by_cases hn : nb.dapp = d ∧ nb.user = u
      · simp only [if_pos hn]
      · have hxd : ¬ (x.dapp = d ∧ x.user = u) := by rw [hx.1, hx.2]; exact hn
        simp only [if_neg hn, if_neg hxd]
    · rw [if_neg hx, bondAmt_cons, bondAmt_cons, ih]
      by_cases hxd : x.dapp = d ∧ x.user = u
      · have hn : ¬ (nb.dapp = d ∧ nb.user = u) := fun hn => hx ⟨hxd.1.trans hn.1.symm, hxd.2.trans hn.2.symm⟩
        simp only [if_pos hxd, if_neg hn]
      · simp only [if_neg hxd]

theorem bondSum_setBond (bs : List UBond) (nb : UBond) (d : Bytes) :
    bondSum (setBond bs nb) d = bondSum bs d + (if nb.dapp = d then nb.amt - bondAmt bs nb.dapp nb.user else 0) := by
  induction bs with
  | nil =>
    unfold setBond
    rw [bondSum_cons, bondSum_nil, bondAmt_nil]
    split <;> omega
  | cons x xs ih =>
    unfold setBond
    by_cases hx : x.dapp = nb.dapp ∧ x.user = nb.user
    · rw [if_pos hx, bondAmt_cons, if_pos hx, bondSum_cons, bondSum_cons, hx.1]
      split <;> omega
    · rw [if_neg hx, bondAmt_cons, if_neg hx, bondSum_cons, bondSum_cons, ih]
      omega

theorem mem_setBond {bs : List UBond} {nb x : UBond} (h : x ∈ setBond bs nb) : x = nb ∨ x ∈ bs := by
  induction bs with
  | nil => simp [setBond] at h; exact Or.inl h
  | cons y ys ih =>
    unfold setBond at h
    split at h
    · rcases List.mem_cons.mp h with rfl | h'
      · exact Or.inl rfl
      · exact Or.inr (List.mem_cons_of_mem _ h')
    · rcases List.mem_cons.mp h with rfl | h'
      · exact Or.inr List.mem_cons_self
      · rcases ih h' with h | h
        · exact Or.inl h
        · exact Or.inr (List.mem_cons_of_mem _ h)

theorem mem_keys_setBond {bs : List UBond} {nb : UBond} {k : Bytes × Nat} : k ∈ keys (setBond bs nb) ↔ k = nb.key ∨ k ∈ keys bs := by
  induction bs with
  | nil => simp [setBond, keys]
  | cons y ys ih =>
    unfold setBond
    split
    · rename_i hy
      have hk : y.key = nb.key := by unfold UBond.key; rw [hy.1, hy.2]
      simp only [keys, List.map_cons, List.mem_cons, hk]
      constructor
      · rintro (h | h)
        · exact Or.inl h
        · exact Or.inr (Or.inr h)
      · rintro (h | h | h)
        · exact Or.inl h
        · exact Or.inl h
        · exact Or.inr h
    · simp only [keys, List.map_cons, List.mem_cons] at ih ⊢
      rw [ih]
      constructor
      · rintro (h | h | h)
        · exact Or.inr (Or.inl h)
        · exact Or.inl h
        · exact Or.inr (Or.inr h)
      · rintro (h | h | h)
        · exact Or.inr (Or.inl h)
        · exact Or.inl h
        · exact Or.inr (Or.inr h)

theorem keys_setBond_nodup {bs : List UBond} {nb : UBond} (hn : (keys bs).Nodup) : (keys (setBond bs nb)).Nodup := by
  induction bs with
  | nil => simp [setBond, keys]
  | cons y ys ih =>
    have hn' := hn
    simp only [keys, List.map_cons, List.nodup_cons] at hn'
    unfold setBond
    split
    · rename_i hy
      have hk : y.key = nb.key := by unfold UBond.key; rw [hy.1, hy.2]
      simp only [keys, List.map_cons, List.nodup_cons]
      exact ⟨hk ▸ hn'.1, hn'.2⟩
    · rename_i hy
      simp only [keys, List.map_cons, List.nodup_cons]
      refine ⟨?_, ih hn'.2⟩
      intro hmem
      rcases (mem_keys_setBond (bs := ys) (nb := nb)).mp hmem with h | h
      · apply hy
        unfold UBond.key at h
        exact ⟨congrArg Prod.fst h, congrArg Prod.snd h⟩
      · exact hn'.1 h

theorem mem_delBond {bs : List UBond} {d : Bytes} {u : Nat} {x : UBond} : x ∈ delBond bs d u ↔ x ∈ bs ∧ ¬ (x.dapp = d ∧ x.user = u) := by
  unfold delBond
  rw [List.mem_filter]
  simp only [decide_eq_true_eq]

theorem keys_filter_nodup {bs : List UBond} (p : UBond → Bool) (hn : (keys bs).Nodup) : (keys (bs.filter p)).Nodup := by
  unfold keys
  exact List.Nodup.sublist (List.Sublist.map _ List.filter_sublist) hn

/-- with unique keys the recorded amount is the amount of any record found under the key -/
theorem bondAmt_of_mem {bs : List UBond} {b : UBond} (hn : (keys bs).Nodup) (hb : b ∈ bs) : bondAmt bs b.dapp b.user = b.amt := by
  induction bs with
  | nil => cases hb
  | cons x xs ih =>
    simp only [keys, List.map_cons, List.nodup_cons] at hn
    rw [bondAmt_cons]
    rcases List.mem_cons.mp hb with rfl | hb'
    · simp
    · have : ¬ (x.dapp = b.dapp ∧ x.user = b.user) := by
        intro h
        apply hn.1
        have : x.key = b.key := by unfold UBond.key; rw [h.1, h.2]
        rw [this]; exact List.mem_map.mpr ⟨b, hb', rfl⟩
      rw [if_neg this]
      exact ih hn.2 hb'

/-! ### filtered sums -/

/-- Σ of the amounts of a list of records -/
def amtSum : List UBond → Int
  | [] => 0
  | b :: bs => b.amt + amtSum bs

theorem bondSum_eq_amtSum_filter (bs : List UBond) (d : Bytes) : bondSum bs d = amtSum (bs.filter (fun b => b.dapp = d)) := by
  induction bs with
  | nil => rfl
  | cons x xs ih =>
    rw [bondSum_cons, List.filter_cons]
    by_cases hx : x.dapp = d
    · rw [if_pos hx, if_pos (by simpa using hx)]
      show x.amt + bondSum xs d = x.amt + amtSum _
      rw [ih]
    · rw [if_neg hx, if_neg (by simpa using hx), ih]
      omega

theorem bondSum_filter_of_keep {bs : List UBond} {p : UBond → Bool} {d : Bytes} (h : ∀ b ∈ bs, b.dapp = d → p b = true) :
    bondSum (bs.filter p) d = bondSum bs d := by
  induction bs with
  | nil => rfl
  | cons x xs ih =>
    have ih' := ih (fun b hb => h b (List.mem_cons_of_mem _ hb))
    rw [List.filter_cons]
    by_cases hp : p x = true
    · rw [if_pos hp, bondSum_cons, bondSum_cons, ih']
    · rw [if_neg hp]
      have : x.dapp ≠ d := fun hd => hp (h x List.mem_cons_self hd)
      rw [bondSum_cons, if_neg this, ih']
      omega

theorem bondAmt_filter_of_keep {bs : List UBond} {p : UBond → Bool} {d : Bytes} {u : Nat} (h : ∀ b ∈ bs, b.dapp = d → b.user = u → p b = true) :
    bondAmt (bs.filter p) d u = bondAmt bs d u := by
  induction bs with
  | nil => rfl
  | cons x xs ih =>
    have ih' := ih (fun b hb => h b (List.mem_cons_of_mem _ hb))
    rw [List.filter_cons]
    by_cases hp : p x = true
    · rw [if_pos hp, bondAmt_cons, bondAmt_cons, ih']
    · rw [if_neg hp, bondAmt_cons, ih']
      have : ¬ (x.dapp = d ∧ x.user = u) := fun hd => hp (h x List.mem_cons_self hd.1 hd.2)
      rw [if_neg this]

end Sekai.Layer2
