import Sekai.Base.Bank
/-! conservation and debit lemmas of the bank model -/
namespace Sekai.Bank

theorem totalF_congr (f f' : Nat → Nat → Int) (d n : Nat) (h : ∀ a, a < n → f' a d = f a d) : totalF f' d n = totalF f d n := by
  induction n with
  | zero => rfl
  | succ k ih =>
    simp only [totalF]
    rw [ih (fun a ha => h a (Nat.lt_succ_of_lt ha)), h k (Nat.lt_succ_self k)]

/-- changing one balance inside the domain changes the total by the difference -/
theorem totalF_upd (f : Nat → Nat → Int) (a d : Nat) (x : Int) (n : Nat) (ha : a < n) :
    totalF (upd2 f a d x) d n = totalF f d n - f a d + x := by
  induction n with
  | zero => omega
  | succ k ih =>
    simp only [totalF]
    by_cases hk : a = k
    · subst hk
      have h0 : totalF (upd2 f a d x) d a = totalF f d a :=
        totalF_congr f _ d a (fun c hc => by
          have : ¬ (c = a ∧ d = d) := by intro ⟨e, _⟩; omega
          unfold upd2; rw [if_neg this])
      rw [h0]
      have : upd2 f a d x a d = x := by simp [upd2]
      rw [this]; omega
    · have hlt : a < k := by omega
      rw [ih hlt]
      have : upd2 f a d x k d = f k d := by
        have : ¬ (k = a ∧ d = d) := by intro ⟨e, _⟩; omega
        unfold upd2; rw [if_neg this]
      rw [this]; omega

theorem totalF_upd_other (f : Nat → Nat → Int) (a d d' : Nat) (x : Int) (n : Nat) (hd : d' ≠ d) :
    totalF (upd2 f a d x) d' n = totalF f d' n :=
  totalF_congr f _ d' n (fun c _ => by
    have : ¬ (c = a ∧ d' = d) := by intro ⟨_, e⟩; exact hd e
    unfold upd2; rw [if_neg this])

/-- supply of every denomination equals the sum of all balances -/
def Conserved (n : Nat) (b : B) : Prop := ∀ d, b.supply d = total b d n

theorem step_conserved (n : Nat) (b b' : B) (op : Op) (hc : Conserved n b) (hw : op.within n) (hs : step b op = some b') :
    Conserved n b' := by
  intro d'
  cases op with
  | send s t d amt =>
    simp only [step] at hs
    split at hs
    · cases hs
    · cases hs
      obtain ⟨hs', ht'⟩ := hw
      show b.supply d' = totalF _ d' n
      by_cases hd : d' = d
      · subst hd
        rw [totalF_upd _ t d' _ n ht', totalF_upd _ s d' _ n hs', hc d']
        unfold total
        omega
      · rw [totalF_upd_other _ t d d' _ n hd, totalF_upd_other _ s d d' _ n hd]
        exact hc d'
  | mint t d amt =>
    simp only [step] at hs
    split at hs
    · cases hs
    · cases hs
      by_cases hd : d' = d
      · subst hd
        show (if d' = d' then b.supply d' + amt else b.supply d') = totalF _ d' n
        rw [totalF_upd _ t d' _ n hw, if_pos rfl, hc d']; unfold total; omega
      · show (if d' = d then b.supply d + amt else b.supply d') = totalF _ d' n
        rw [if_neg hd, totalF_upd_other _ t d d' _ n hd]; exact hc d'
  | burn s d amt =>
    simp only [step] at hs
    split at hs
    · cases hs
    · cases hs
      by_cases hd : d' = d
      · subst hd
        show (if d' = d' then b.supply d' - amt else b.supply d') = totalF _ d' n
        rw [totalF_upd _ s d' _ n hw, if_pos rfl, hc d']; unfold total; omega
      · show (if d' = d then b.supply d - amt else b.supply d') = totalF _ d' n
        rw [if_neg hd, totalF_upd_other _ s d d' _ n hd]; exact hc d'

theorem apply_conserved (n : Nat) (b : B) (op : Op) (hc : Conserved n b) (hw : op.within n) : Conserved n (apply b op) := by
  unfold apply
  cases hs : step b op with
  | none => simpa using hc
  | some b' => simpa using step_conserved n b b' op hc hw hs

/-- coins appear and disappear only through mint and burn: a send leaves every supply unchanged -/
theorem send_keeps_supply (b b' : B) (s t d : Nat) (amt : Int) (hs : step b (.send s t d amt) = some b') : b'.supply = b.supply := by
  simp only [step] at hs
  split at hs
  · cases hs
  · cases hs; rfl

theorem upd2_eq (f : Nat → Nat → Int) (a d : Nat) (x : Int) : upd2 f a d x a d = x := by simp [upd2]
theorem upd2_ne (f : Nat → Nat → Int) (a d a' d' : Nat) (x : Int) (h : ¬ (a' = a ∧ d' = d)) : upd2 f a d x a' d' = f a' d' := by
  unfold upd2; rw [if_neg h]

/-- an operation lowers nobody's balance except its payer's -/
theorem step_debits_only_payer (b b' : B) (op : Op) (hs : step b op = some b') (a d : Nat) (ha : op.payer ≠ some a) :
    b.bal a d ≤ b'.bal a d := by
  cases op with
  | send s t d0 amt =>
    simp only [step] at hs
    split at hs
    · cases hs
    · rename_i hok
      cases hs
      have hne : a ≠ s := by intro e; apply ha; simp [Op.payer, e]
      have hs1 : ¬ (a = s ∧ d = d0) := by intro ⟨e, _⟩; exact hne e
      show b.bal a d ≤ upd2 (upd2 b.bal s d0 (b.bal s d0 - amt)) t d0 (upd2 b.bal s d0 (b.bal s d0 - amt) t d0 + amt) a d
      by_cases h1 : a = t ∧ d = d0
      · obtain ⟨rfl, rfl⟩ := h1
        rw [upd2_eq, upd2_ne _ _ _ _ _ _ hs1]; omega
      · rw [upd2_ne _ _ _ _ _ _ h1, upd2_ne _ _ _ _ _ _ hs1]; omega
  | mint t d0 amt =>
    simp only [step] at hs
    split at hs
    · cases hs
    · cases hs
      show b.bal a d ≤ upd2 b.bal t d0 (b.bal t d0 + amt) a d
      by_cases h1 : a = t ∧ d = d0
      · obtain ⟨rfl, rfl⟩ := h1; rw [upd2_eq]; omega
      · rw [upd2_ne _ _ _ _ _ _ h1]; omega
  | burn s d0 amt =>
    simp only [step] at hs
    split at hs
    · cases hs
    · cases hs
      have hne : a ≠ s := by intro e; apply ha; simp [Op.payer, e]
      have hs1 : ¬ (a = s ∧ d = d0) := by intro ⟨e, _⟩; exact hne e
      show b.bal a d ≤ upd2 b.bal s d0 (b.bal s d0 - amt) a d
      rw [upd2_ne _ _ _ _ _ _ hs1]; omega

end Sekai.Bank
