import SekaiProofs.Lemmas.Layer2Run
/-! C20: a failed bootstrap refunds in full (when the refund scan has no collision and no non-positive record). -/
namespace Sekai.Layer2

theorem amtSum_nonneg {l : List UBond} (h : ∀ b ∈ l, 0 < b.amt) : 0 ≤ amtSum l := by
  induction l with
  | nil => simp [amtSum]
  | cons x xs ih =>
    simp only [amtSum]
    have := h x List.mem_cons_self
    have := ih (fun b hb => h b (List.mem_cons_of_mem _ hb))
    omega

theorem refundLoop_succeeds {name den : Bytes} (l : List UBond) :
    ∀ (s : St), (∀ b ∈ l, 0 < b.amt ∧ b.denom = den) → validDenom den = true → amtSum l ≤ s.bank.bal .l2 den →
      ∃ s', refundLoop s name l = some s' := by
  induction l with
  | nil => intro s _ _ _; exact ⟨s, rfl⟩
  | cons b rest ih =>
    intro s hl hv hf
    obtain ⟨hpos, hden⟩ := hl b List.mem_cons_self
    have hrest : ∀ c ∈ rest, 0 < c.amt ∧ c.denom = den := fun c hc => hl c (List.mem_cons_of_mem _ hc)
    have hnn := amtSum_nonneg (fun c hc => (hrest c hc).1)
    simp only [amtSum] at hf
    unfold refundLoop
    have hsend : s.bank.send .l2 (.user b.user) b.denom b.amt
        = some ((s.bank.addBal .l2 b.denom (-b.amt)).addBal (.user b.user) b.denom b.amt) := by
      unfold Bank.send
      rw [if_pos ⟨hden ▸ hv, hpos, by rw [hden]; omega⟩]
    unfold St.escrowOut
    rw [hsend]
    simp only
    apply ih _ hrest hv
    simp only [addBal_bal, hden]
    simp
    omega

theorem paidTo_filter_own {bs : List UBond} (name den : Bytes) (u : Nat) (hn : (keys bs).Nodup)
    (hden : ∀ b ∈ bs, b.dapp = name → b.denom = den) :
    paidTo (bs.filter (fun b => b.dapp = name)) u den = bondAmt bs name u := by
  induction bs with
  | nil => rfl
  | cons x xs ih =>
    have hn' := hn
    simp only [keys, List.map_cons, List.nodup_cons] at hn'
    have ih' := ih hn'.2 (fun b hb => hden b (List.mem_cons_of_mem _ hb))
    rw [List.filter_cons, bondAmt_cons]
    by_cases hx : x.dapp = name
    · rw [if_pos (by simpa using hx)]
      simp only [paidTo]
      have hxd := hden x List.mem_cons_self hx
      by_cases hu : x.user = u
      · have hz : bondAmt xs name u = 0 := by
          apply bondAmt_eq_zero
          intro b hb hk
          apply hn'.1
          have : b.key = x.key := by unfold UBond.key; rw [hk.1, hk.2, hx, hu]
          rw [← this]; exact List.mem_map.mpr ⟨b, hb, rfl⟩
        rw [ih', hz, if_pos ⟨hu, hxd⟩, if_pos ⟨hx, hu⟩]; omega
      · rw [ih', if_neg (fun h => hu h.1), if_neg (fun h => hu h.2)]; omega
    · rw [if_neg (by simpa using hx), ih', if_neg (fun h => hx h.1)]

theorem findDapp_delDapp (ds : List Dapp) (name : Bytes) : findDapp (delDapp ds name) name = none := by
  unfold findDapp
  rw [List.find?_eq_none]
  intro x hx
  have := (mem_delDapp.mp hx).2
  simpa using this

/-- (d) a dApp below its minimum at expiry: every bonder gets exactly its recorded bond, the module pays exactly the total,
the dApp and its records are gone — provided the refund scan has no prefix collision and no non-positive record -/
theorem finish_refunds_in_full {s : St} {t : Nat} {d : Dapp} (hB : BooksInv s) (hd : d ∈ s.dapps) (hst : d.status = 0)
    (hlow : d.bond < (s.P.minBond : Int) * million) (hnc : NoClash s.addr s.bonds d.name)
    (hpos : ∀ b ∈ s.bonds, b.dapp = d.name → 0 < b.amt) (hvd : validDenom d.bondDenom = true)
    (hfunds : d.bond ≤ s.bank.bal .l2 d.bondDenom) :
    ∃ s', finishBootstrap s t d = .ok s' ∧ findDapp s'.dapps d.name = none ∧ (∀ u, bondAmt s'.bonds d.name u = 0) ∧
      (∀ u, s'.bank.bal (.user u) d.bondDenom = s.bank.bal (.user u) d.bondDenom + bondAmt s.bonds d.name u) ∧
      s'.bank.bal .l2 d.bondDenom = s.bank.bal .l2 d.bondDenom - d.bond := by
  unfold BooksInv at hB
  have hscan := scan_eq_own hnc
  have hown : ∀ b ∈ s.bonds.filter (fun b => b.dapp = d.name), 0 < b.amt ∧ b.denom = d.bondDenom := by
    intro b hb
    obtain ⟨hb1, hb2⟩ := List.mem_filter.mp hb
    have hb2' : b.dapp = d.name := by simpa using hb2
    exact ⟨hpos b hb1 hb2', hB.denomEq d hd hst b hb1 hb2'⟩
  have hsum : amtSum (s.bonds.filter (fun b => b.dapp = d.name)) = d.bond := by
    rw [← bondSum_eq_amtSum_filter, ← hB.sumEq d hd hst]
  obtain ⟨s1, hs1⟩ := refundLoop_succeeds (name := d.name) _ s hown hvd (by rw [hsum]; exact hfunds)
  obtain ⟨e1, e2, _, _, _⟩ := refundLoop_frame hs1
  obtain ⟨_, f2, f3, _, _⟩ := refundLoop_effect hs1
  refine ⟨{ s1 with dapps := delDapp s1.dapps d.name }, ?_, ?_, ?_, ?_, ?_⟩
  · unfold finishBootstrap
    rw [if_pos hlow]
    unfold executeRemove
    rw [hscan, hs1]
  · exact findDapp_delDapp _ _
  · intro u
    simp only [e1]
    exact bondAmt_delBondsOf_own u (fun b hb hbd => List.mem_filter.mpr ⟨hb, by simpa using hbd⟩)
  · intro u
    simp only
    rw [f3 u d.bondDenom, paidTo_filter_own _ _ _ hB.keysNodup (fun b hb hbd => hB.denomEq d hd hst b hb hbd)]
  · simp only
    rw [f2 d.bondDenom, paidDen_all (fun b hb => (hown b hb).2), hsum]

end Sekai.Layer2
