import SekaiProofs.Lemmas.RecoveryTokens
/-! Identity records through a rotation (C16) and the consensus-address index of the validator store (C06). Core Lean only. -/
namespace Sekai.Recovery
open Sekai.Ident (lower)

/-! ## identity records -/

theorem find?_filter_ne (l : List IdRec) (i id : Nat) (h : id ≠ i) :
    (l.filter (fun x => decide (x.id ≠ i))).find? (fun r => decide (r.id = id)) = l.find? (fun r => decide (r.id = id)) := by
  induction l with
  | nil => rfl
  | cons x xs ih =>
    by_cases hx : x.id = i
    · have h1 : decide (x.id ≠ i) = false := by simp [hx]
      have h2 : decide (x.id = id) = false := by simp; intro e; exact h (e ▸ hx)
      simp only [List.filter_cons, h1, List.find?_cons, h2]
      simpa using ih
    · have h1 : decide (x.id ≠ i) = true := by simp [hx]
      simp only [List.filter_cons, h1, if_true, List.find?_cons]
      rw [ih]

theorem getRec_delete (R : Reg) (i id : Nat) : getRec (deleteRecordById R i) id = if id = i then none else getRec R id := by
  unfold getRec deleteRecordById
  by_cases h : id = i
  · subst h
    rw [if_pos rfl, List.find?_eq_none]
    intro x hx
    have := (List.mem_filter.mp hx).2
    simpa using this
  · rw [if_neg h]
    exact find?_filter_ne R.recs i id h

/-- the record a rotation writes for `r` -/
def retarget (new : Addr) (r : IdRec) : IdRec := { r with addr := new, key := lower r.key }

theorem getRec_setRecord {R R' : Reg} {r : IdRec} (h : setRecord R r = .ok R') (id : Nat) :
    getRec R' id = if id = r.id then some { r with key := lower r.key } else getRec R id := by
  unfold setRecord at h
  split at h
  · cases h
  · cases h
    unfold getRec
    by_cases hid : id = r.id
    · subst hid
      simp
    · rw [if_neg hid]
      simp only [List.find?_cons]
      have : decide (r.id = id) = false := by simp; exact fun e => hid e.symm
      simp only [this]
      exact find?_filter_ne R.recs r.id id hid

/-- the registry lookups after the record-moving loop -/
def expectRec (new : Addr) : List IdRec → (Nat → Option IdRec) → Nat → Option IdRec
  | [], f, id => f id
  | r :: rest, f, id => expectRec new rest (fun i => if i = r.id then some (retarget new r) else f i) id

theorem moveRecords_get {new : Addr} {rs : List IdRec} {R R' : Reg} (h : moveRecords new rs R = .ok R') (id : Nat) :
    getRec R' id = expectRec new rs (getRec R) id := by
  induction rs generalizing R with
  | nil => simp only [moveRecords] at h; cases h; rfl
  | cons r rest ih =>
    simp only [moveRecords] at h
    split at h
    · cases h
    · rename_i R1 h1
      rw [ih h]
      simp only [expectRec]
      congr 1
      funext i
      rw [getRec_setRecord h1 i]
      show (if i = r.id then some (retarget new r) else _) = _
      by_cases hi : i = r.id
      · simp [hi]
      · simp only [hi, if_false]
        rw [getRec_delete]
        simp [hi]

theorem expectRec_spec (new : Addr) (g : Nat → Option IdRec) (rs : List IdRec) (hg : ∀ r ∈ rs, g r.id = some r)
    (f : Nat → Option IdRec) (id : Nat) :
    expectRec new rs f id = if id ∈ rs.map (·.id) then (g id).map (retarget new) else f id := by
  induction rs generalizing f with
  | nil => simp [expectRec]
  | cons r rest ih =>
    simp only [expectRec]
    rw [ih (fun x hx => hg x (List.mem_cons_of_mem _ hx))]
    by_cases h1 : id ∈ rest.map (·.id)
    · have : id ∈ (r :: rest).map (·.id) := by simp only [List.map_cons, List.mem_cons]; right; exact h1
      rw [if_pos h1, if_pos this]
    · rw [if_neg h1]
      by_cases h2 : id = r.id
      · subst h2
        have : r.id ∈ (r :: rest).map (·.id) := by simp
        rw [if_pos this, if_pos rfl, hg r List.mem_cons_self]; rfl
      · have : id ∉ (r :: rest).map (·.id) := by
          simp only [List.map_cons, List.mem_cons]; intro h; rcases h with h | h
          · exact h2 h
          · exact h1 h
        rw [if_neg this, if_neg h2]

theorem collectRecs_spec {R : Reg} {ids : List Nat} {rs : List IdRec} (h : collectRecs R ids = .ok rs) :
    rs.map (·.id) = ids ∧ ∀ r ∈ rs, getRec R r.id = some r := by
  induction ids generalizing rs with
  | nil => simp only [collectRecs] at h; cases h; exact ⟨rfl, fun _ hr => by cases hr⟩
  | cons id rest ih =>
    simp only [collectRecs] at h
    split at h
    · cases h
    · rename_i r hr
      split at h
      · cases h
      · rename_i l hl
        cases h
        obtain ⟨i1, i2⟩ := ih hl
        have hid : r.id = id := by
          unfold getRec at hr
          have := List.find?_some hr
          simpa using this
        refine ⟨by simp [i1, hid], ?_⟩
        intro x hx
        rcases List.mem_cons.mp hx with rfl | hx
        · rw [hid]; exact hr
        · exact i2 x hx

/-- the identity part of a rotation, record by record: exactly the records the index of `old` lists are re-addressed
to `new` (key lower-cased, everything else — value, date, verifiers, id — unchanged); every other record is untouched -/
theorem moveIdentity_spec {old new : Addr} {R R' : Reg} (h : moveIdentity old new R = .ok R') (id : Nat) :
    getRec R' id = if id ∈ idsOf R old then (getRec R id).map (retarget new) else getRec R id := by
  unfold moveIdentity at h
  split at h
  · cases h
  · rename_i rs hrs
    obtain ⟨c1, c2⟩ := collectRecs_spec hrs
    rw [moveRecords_get h, expectRec_spec new (getRec R) rs c2, c1]

/-! ## the validator store and its consensus-address index -/

/-- every validator record is found through its consensus address -/
def ConsIdx (S : State) : Prop := ∀ a v, S.vals a = some v → S.byCons v.cons = some a

/-- every index entry points to a record with that consensus key -/
def IdxSound (S : State) : Prop := ∀ c a, S.byCons c = some a → ∃ v, S.vals a = some v ∧ v.cons = c

/-- `RemoveValidator(old)` THEN `AddValidator(new)` — the order of the Go code — keeps "found through its consensus address" -/
theorem consIdx_moveVal {S : State} (old new : Addr) (h : ConsIdx S) : ConsIdx (moveVal old new S) := by
  unfold moveVal
  cases hv : S.vals old with
  | none => exact h
  | some v =>
    simp only
    intro a u hu
    simp only [addValidator, removeValidator] at hu ⊢
    by_cases h1 : a = new
    · subst h1
      simp only [if_true] at hu; cases hu
      simp
    · rw [if_neg h1] at hu
      by_cases h2 : a = old
      · rw [if_pos h2] at hu; cases hu
      · rw [if_neg h2] at hu
        have hne : u.cons ≠ v.cons := by
          intro e
          have x1 := h a u hu
          have x2 := h old v hv
          rw [e, x2] at x1; cases x1; exact h2 rfl
        rw [if_neg hne, if_neg hne]
        exact h a u hu

/-- … and keeps the index sound when the target is not itself a validator (or is the old address) -/
theorem idxSound_moveVal {S : State} (old new : Addr) (h : IdxSound S) (hc : ConsIdx S) (hfree : S.vals new = none ∨ new = old) :
    IdxSound (moveVal old new S) := by
  unfold moveVal
  cases hv : S.vals old with
  | none => exact h
  | some v =>
    simp only
    intro c a hca
    simp only [addValidator, removeValidator] at hca ⊢
    by_cases h1 : c = v.cons
    · rw [if_pos h1] at hca; cases hca
      exact ⟨v, by simp, h1.symm⟩
    · rw [if_neg h1, if_neg h1] at hca
      obtain ⟨u, hu, huc⟩ := h c a hca
      have ha2 : a ≠ old := by
        intro e; rw [e, hv] at hu; cases hu; exact h1 huc.symm
      have ha1 : a ≠ new := by
        intro e
        rcases hfree with hn | hs
        · rw [e, hn] at hu; cases hu
        · exact ha2 (e.trans hs)
      exact ⟨u, by simp [ha1, ha2, hu], huc⟩

/-- the OTHER order (a regression the harness is mutation-tested with): `AddValidator(new)` then `RemoveValidator` of
the same consensus key deletes the index entry that was just written -/
def moveValWrongOrder (old new : Addr) (S : State) : State :=
  match S.vals old with
  | none => S
  | some v => removeValidator old v (addValidator new v S)

theorem moveValWrongOrder_breaks {S : State} {old new : Addr} {v : Val} (hv : S.vals old = some v) (hne : old ≠ new) :
    (moveValWrongOrder old new S).vals new = some v ∧ (moveValWrongOrder old new S).byCons v.cons = none := by
  unfold moveValWrongOrder
  rw [hv]
  simp [addValidator, removeValidator, Ne.symm hne]

/-! ### which operations touch the validator store at all -/

theorem moveClaim_vals (k : Kind) (old new : Addr) (S : State) : (moveClaim k old new S).vals = S.vals := rfl
theorem moveClaim_byCons (k : Kind) (old new : Addr) (S : State) : (moveClaim k old new S).byCons = S.byCons := rfl
theorem moveReqs_vals (old new : Addr) (S : State) : (moveReqs old new S).vals = S.vals := rfl
theorem moveReqs_byCons (old new : Addr) (S : State) : (moveReqs old new S).byCons = S.byCons := rfl
theorem moveDelegators_vals (old new : Addr) (S : State) : (moveDelegators old new S).vals = S.vals := rfl
theorem moveDelegators_byCons (old new : Addr) (S : State) : (moveDelegators old new S).byCons = S.byCons := rfl
theorem moveCompound_vals (old new : Addr) (S : State) : (moveCompound old new S).vals = S.vals := rfl
theorem moveCompound_byCons (old new : Addr) (S : State) : (moveCompound old new S).byCons = S.byCons := rfl
theorem moveToken_vals (old new : Addr) (t : Token) (S : State) : (moveToken old new t S).vals = S.vals := rfl
theorem moveToken_byCons (old new : Addr) (t : Token) (S : State) : (moveToken old new t S).byCons = S.byCons := rfl

theorem movePool_byCons (old new : Addr) (S : State) : (movePool old new S).byCons = S.byCons := by
  unfold movePool; split
  · rfl
  · split
    · rfl
    · split <;> rfl
theorem moveRewards_byCons (old new : Addr) (S : State) : (moveRewards old new S).byCons = S.byCons := by
  unfold moveRewards; split
  · rfl
  · split <;> rfl
theorem moveCoins_byCons (old new : Addr) (S : State) : (moveCoins old new S).byCons = S.byCons := by unfold moveCoins; split <;> rfl

/-- `moveVal` reads and writes the validator store only -/
theorem moveVal_congr {S1 S : State} (old new : Addr) (h1 : S1.vals = S.vals) (h2 : S1.byCons = S.byCons) :
    (moveVal old new S1).vals = (moveVal old new S).vals ∧ (moveVal old new S1).byCons = (moveVal old new S).byCons := by
  unfold moveVal
  rw [h1]
  cases S.vals old with
  | none => exact ⟨h1, h2⟩
  | some v =>
    simp [addValidator, removeValidator, h1, h2]

theorem holderMoves1_valsIdx (old new : Addr) (tok : Token) (S : State) :
    (holderMoves1 old new tok (withRotation S old new)).vals = (moveVal old new S).vals ∧
    (holderMoves1 old new tok (withRotation S old new)).byCons = (moveVal old new S).byCons := by
  unfold holderMoves1
  rw [moveClaim_vals, moveClaim_byCons]
  apply moveVal_congr
  · rw [movePool_vals, moveRewards_vals, moveDelegators_vals, moveCompound_vals, moveToken_vals]; rfl
  · rw [movePool_byCons, moveRewards_byCons, moveDelegators_byCons, moveCompound_byCons, moveToken_byCons]; rfl

/-- the validator store after a holder rotation is the validator store after `moveVal` -/
theorem rotateByHolder_vals {S S' : State} {m : HolderMsg} (h : rotateByHolder S m = .ok S') :
    S'.vals = (moveVal m.addr m.recovery S).vals ∧ S'.byCons = (moveVal m.addr m.recovery S).byCons := by
  obtain ⟨tok, R, c, _, _, _, _, _, rfl⟩ := rotateByHolder_ok h
  rw [moveClaim_vals, moveClaim_byCons, moveClaim_vals, moveClaim_byCons, moveReqs_vals, moveReqs_byCons]
  exact holderMoves1_valsIdx m.addr m.recovery tok S

theorem secretMoves2_valsIdx {S0 S : State} (old new : Addr) (h1 : S0.vals = S.vals) (h2 : S0.byCons = S.byCons) :
    (secretMoves2 old new S0).vals = (moveVal old new S).vals ∧ (secretMoves2 old new S0).byCons = (moveVal old new S).byCons := by
  unfold secretMoves2
  rw [moveClaim_vals, moveClaim_vals, moveClaim_vals, moveClaim_vals, moveClaim_vals, moveClaim_vals,
    moveClaim_byCons, moveClaim_byCons, moveClaim_byCons, moveClaim_byCons, moveClaim_byCons, moveClaim_byCons]
  apply moveVal_congr
  · rw [moveClaim_vals, movePool_vals, moveRewards_vals, moveDelegators_vals, moveCompound_vals, moveClaim_vals]; exact h1
  · rw [moveClaim_byCons, movePool_byCons, moveRewards_byCons, moveDelegators_byCons, moveCompound_byCons, moveClaim_byCons]; exact h2

theorem rotateBySecret_vals {S S' : State} {m : SecretMsg} (h : rotateBySecret S m = .ok S') :
    S'.vals = (moveVal m.addr m.recovery S).vals ∧ S'.byCons = (moveVal m.addr m.recovery S).byCons := by
  obtain ⟨S1, ch, R, c, _, hs, _, _, _, _, _, _, _, rfl⟩ := rotateBySecret_ok h
  have f := send_frame hs
  apply secretMoves2_valsIdx
  · rw [moveClaim_vals, moveReqs_vals]
    show (moveCoins m.addr m.recovery (withRotation S1 m.addr m.recovery)).vals = _
    rw [moveCoins_vals]; exact f.vals
  · rw [moveClaim_byCons, moveReqs_byCons]
    show (moveCoins m.addr m.recovery (withRotation S1 m.addr m.recovery)).byCons = _
    rw [moveCoins_byCons]; exact f.byCons

/-! ## the registry and the proposal flag through the store moves -/

/-- none of the store moves touches the identity registry or the "a proposal is corrupt" flag -/
structure KeepsReg (S S' : State) : Prop where
  reg : S'.reg = S.reg
  corrupt : S'.corrupt = S.corrupt

theorem KeepsReg.trans {S S1 S2 : State} (h1 : KeepsReg S S1) (h2 : KeepsReg S1 S2) : KeepsReg S S2 :=
  ⟨h2.reg.trans h1.reg, h2.corrupt.trans h1.corrupt⟩

theorem moveClaim_keepsReg (k : Kind) (old new : Addr) (S : State) : KeepsReg S (moveClaim k old new S) := ⟨rfl, rfl⟩
theorem moveReqs_keepsReg (old new : Addr) (S : State) : KeepsReg S (moveReqs old new S) := ⟨rfl, rfl⟩
theorem moveCompound_keepsReg (old new : Addr) (S : State) : KeepsReg S (moveCompound old new S) := ⟨rfl, rfl⟩
theorem moveDelegators_keepsReg (old new : Addr) (S : State) : KeepsReg S (moveDelegators old new S) := ⟨rfl, rfl⟩
theorem moveVal_keepsReg (old new : Addr) (S : State) : KeepsReg S (moveVal old new S) := by
  unfold moveVal; split <;> exact ⟨rfl, rfl⟩
theorem movePool_keepsReg (old new : Addr) (S : State) : KeepsReg S (movePool old new S) := by
  unfold movePool; split
  · exact ⟨rfl, rfl⟩
  · split
    · exact ⟨rfl, rfl⟩
    · split <;> exact ⟨rfl, rfl⟩
theorem moveRewards_keepsReg (old new : Addr) (S : State) : KeepsReg S (moveRewards old new S) := by
  unfold moveRewards; split
  · exact ⟨rfl, rfl⟩
  · split <;> exact ⟨rfl, rfl⟩

theorem secretMoves2_keepsReg (old new : Addr) (S : State) : KeepsReg S (secretMoves2 old new S) := by
  unfold secretMoves2
  exact ((((((((((((moveClaim_keepsReg .vote old new S).trans (moveCompound_keepsReg _ _ _)).trans (moveDelegators_keepsReg _ _ _)).trans
    (moveRewards_keepsReg _ _ _)).trans (movePool_keepsReg _ _ _)).trans (moveClaim_keepsReg _ _ _ _)).trans (moveVal_keepsReg _ _ _)).trans
    (moveClaim_keepsReg _ _ _ _)).trans (moveClaim_keepsReg _ _ _ _)).trans (moveClaim_keepsReg _ _ _ _)).trans (moveClaim_keepsReg _ _ _ _)).trans
    (moveClaim_keepsReg _ _ _ _)).trans (moveClaim_keepsReg _ _ _ _)

/-- registry and proposal flag after a rotation by secret: what `moveIdentity` / `moveProposals` computed from the state at entry -/
theorem rotateBySecret_reg {S S' : State} {m : SecretMsg} (h : rotateBySecret S m = .ok S') :
    moveIdentity m.addr m.recovery S.reg = .ok S'.reg ∧ moveProposals m.addr S = .ok S'.corrupt := by
  obtain ⟨S1, ch, R, c, _, _, _, _, _, _, _, hR, hc, rfl⟩ := rotateBySecret_ok h
  have k := (((moveReqs_keepsReg m.addr m.recovery _).trans (moveClaim_keepsReg .actor m.addr m.recovery _)).trans
    (secretMoves2_keepsReg m.addr m.recovery _) : KeepsReg
      ({ (moveClaim .councilor m.addr m.recovery <| moveClaim .collective m.addr m.recovery <|
            moveCoins m.addr m.recovery (withRotation S1 m.addr m.recovery)) with reg := R, corrupt := c } : State) _)
  rw [k.reg, k.corrupt]
  exact ⟨hR, hc⟩

theorem rotateByHolder_reg {S S' : State} {m : HolderMsg} (h : rotateByHolder S m = .ok S') :
    moveIdentity m.addr m.recovery S.reg = .ok S'.reg ∧ moveProposals m.addr S = .ok S'.corrupt := by
  obtain ⟨tok, R, c, _, _, _, hR, hc, rfl⟩ := rotateByHolder_ok h
  exact ⟨hR, hc⟩

/-! ## validator store: untouched by every operation that is not a rotation -/

theorem step_vals_of_not_rotation (S : State) (op : Op) (h1 : ∀ m, op ≠ .rotateSecret m) (h2 : ∀ m, op ≠ .rotateHolder m) :
    (step S op).vals = S.vals ∧ (step S op).byCons = S.byCons ∧ (step S op).queue = S.queue ∧ (step S op).corrupt = S.corrupt := by
  unfold step
  cases hap : apply S op with
  | error e => exact ⟨rfl, rfl, rfl, rfl⟩
  | ok S' =>
    simp only
    cases op with
    | register b c p => obtain ⟨_, _, rfl⟩ := registerSecret_ok hap; exact ⟨rfl, rfl, rfl, rfl⟩
    | rotateSecret m => exact absurd rfl (h1 m)
    | rotateHolder m => exact absurd rfl (h2 m)
    | issue b =>
      obtain ⟨S1, S3, _, hs1, _, hs3, rfl⟩ := issue_ok hap
      have f1 := send_frame hs1
      have f3 := send_frame hs3
      refine ⟨?_, ?_, ?_, ?_⟩
      · show S3.vals = _; rw [f3.vals]; exact f1.vals
      · show S3.byCons = _; rw [f3.byCons]; exact f1.byCons
      · show S3.queue = _; rw [f3.queue]; exact f1.queue
      · show S3.corrupt = _; rw [f3.corrupt]; exact f1.corrupt
    | burn b d n =>
      obtain ⟨owner, tok, S1, S2, S3, _, _, _, hp, hs2, hb3, _, rfl⟩ := burn_ok hap
      have f2 := send_frame hs2
      obtain ⟨_, _, e3⟩ := burnCoins_ok hb3
      have p : S1.vals = S.vals ∧ S1.byCons = S.byCons ∧ S1.queue = S.queue ∧ S1.corrupt = S.corrupt := by
        rcases payRedeem_ok hp with ⟨_, rfl⟩ | ⟨_, hs⟩
        · exact ⟨rfl, rfl, rfl, rfl⟩
        · have f := send_frame hs; exact ⟨f.vals, f.byCons, f.queue, f.corrupt⟩
      have q : S3.vals = S.vals ∧ S3.byCons = S.byCons ∧ S3.queue = S.queue ∧ S3.corrupt = S.corrupt := by
        rw [e3]
        exact ⟨f2.vals.trans p.1, f2.byCons.trans p.2.1, f2.queue.trans p.2.2.1, f2.corrupt.trans p.2.2.2⟩
      unfold burnRecord
      split <;> exact q
    | claim b =>
      obtain ⟨S1, hs, rfl⟩ := claim_ok hap
      have f := send_frame hs
      exact ⟨f.vals, f.byCons, f.queue, f.corrupt⟩
    | regHolder b =>
      have e : S' = regLoop S b S.order := by
        simp only [apply, registerHolder] at hap; cases hap; rfl
      obtain ⟨hs, e2⟩ := regLoop_frame S b S.order
      rw [e, e2]; exact ⟨rfl, rfl, rfl, rfl⟩
    | allocate v n =>
      rcases allocate_ok hap with ⟨_, hs⟩ | ⟨tok, S1, _, hs, hi⟩
      · have f := send_frame hs; exact ⟨f.vals, f.byCons, f.queue, f.corrupt⟩
      · have f := send_frame hs
        obtain ⟨_, rfl⟩ := increaseUnderlying_ok hi
        exact ⟨f.vals, f.byCons, f.queue, f.corrupt⟩
    | xfer b c d n =>
      have f := send_frame hap; exact ⟨f.vals, f.byCons, f.queue, f.corrupt⟩

theorem sumF_zero (f : Nat → Int) (n : Nat) (h : ∀ a, a < n → f a = 0) : sumF f n = 0 := by
  induction n with
  | zero => rfl
  | succ k ih =>
    simp only [sumF]
    rw [ih (fun a ha => h a (Nat.lt_succ_of_lt ha)), h k (Nat.lt_succ_self k)]; rfl

/-! ## decidable views of a result (states hold functions, so results are compared through these) -/

def okB {ε α : Type} : Except ε α → Bool
  | .ok _ => true
  | .error _ => false

def errOf {α : Type} : Except Err α → Option Err
  | .ok _ => none
  | .error e => some e

theorem exists_of_okB {ε α : Type} {r : Except ε α} (h : okB r = true) : ∃ x, r = .ok x := by
  cases r with
  | ok x => exact ⟨x, rfl⟩
  | error e => cases h

theorem apply_eq_step_of_ok {S : State} {op : Op} (h : okB (apply S op) = true) : apply S op = .ok (step S op) := by
  unfold step
  cases hr : apply S op with
  | ok x => rfl
  | error e => rw [hr] at h; cases h

theorem rotateByHolder_eq_step_of_ok {S : State} {m : HolderMsg} (h : okB (rotateByHolder S m) = true) :
    rotateByHolder S m = .ok (step S (.rotateHolder m)) := apply_eq_step_of_ok (op := .rotateHolder m) h

theorem rotateBySecret_eq_step_of_ok {S : State} {m : SecretMsg} (h : okB (rotateBySecret S m) = true) :
    rotateBySecret S m = .ok (step S (.rotateSecret m)) := apply_eq_step_of_ok (op := .rotateSecret m) h

theorem eq_error_of_errOf {α : Type} {r : Except Err α} {e : Err} (h : errOf r = some e) : r = .error e := by
  cases r with
  | ok x => cases h
  | error e' => simp only [errOf] at h; cases h; rfl

end Sekai.Recovery
