import SekaiProofs.Lemmas.MultiStakeInv
/-! Decimal facts the staking arithmetic needs, and the "never slashed ⇒ shares = stake" invariant. Core Lean only. -/
namespace Sekai.MultiStake
open Sekai AMap

theorem P_pos : (0 : Int) < Dec.P := by decide
theorem half_pos : (0 : Int) < Dec.half := by decide
theorem half_lt_P : Dec.half < Dec.P := by decide

/-- an exact multiple of 10^18 chops to the multiple itself -/
theorem chopRound_mul_P (k : Int) (hk : 0 ≤ k) : Dec.chopRound (k * Dec.P) = k := by
  have hP := P_pos
  have hnn : 0 ≤ k * Dec.P := Int.mul_nonneg hk (Int.le_of_lt hP)
  have hneg : ¬ (k * Dec.P < 0) := by omega
  unfold Dec.chopRound
  simp only [hneg, if_false]
  rw [Int.mul_ediv_cancel _ (by omega : Dec.P ≠ 0), Int.mul_emod_left]
  simp [half_pos]

/-- banker's chop of a non-negative value lies between floor and floor+1 -/
theorem chopRound_bounds (x : Int) (hx : 0 ≤ x) : x / Dec.P ≤ Dec.chopRound x ∧ Dec.chopRound x ≤ x / Dec.P + 1 := by
  unfold Dec.chopRound
  have hneg : ¬ (x < 0) := by omega
  simp only [hneg, if_false]
  constructor <;> (repeat' split) <;> omega

/-- … and is at most `k` as soon as the value is at most `k·10^18` -/
theorem chopRound_le (x k : Int) (hx : 0 ≤ x) (hk : x ≤ k * Dec.P) : Dec.chopRound x ≤ k := by
  have hP := P_pos
  have hq : x / Dec.P ≤ k := by
    have := Int.ediv_le_ediv hP hk
    rwa [Int.mul_ediv_cancel _ (by omega : Dec.P ≠ 0)] at this
  rcases Int.lt_or_eq_of_le hq with hlt | heq
  · have := (chopRound_bounds x hx).2; omega
  · -- x / P = k and x ≤ k·P force x = k·P exactly
    have h1 : Dec.P * (x / Dec.P) ≤ x := Int.mul_ediv_self_le (by omega)
    rw [heq] at h1
    have : x = k * Dec.P := by rw [Int.mul_comm] at h1; omega
    have hk0 : 0 ≤ k := by
      by_cases hk0 : k < 0
      · exfalso
        have : k * Dec.P < 0 := Int.mul_neg_of_neg_of_pos hk0 hP
        omega
      · omega
    rw [this, chopRound_mul_P k hk0]
    exact Int.le_refl _

theorem chopRound_nonneg (x : Int) (hx : 0 ≤ x) : 0 ≤ Dec.chopRound x := by
  have := (chopRound_bounds x hx).1
  have : 0 ≤ x / Dec.P := Int.ediv_nonneg hx (Int.le_of_lt P_pos)
  omega

/-- `NewDecFromInt(n).Mul(OneDec()).RoundInt() = n` -/
theorem shareAmt_zero (n : Nat) : shareAmt 0 n = n := by
  unfold shareAmt Dec.roundInt Dec.mul Dec.ofInt Dec.one
  rw [Int.sub_zero, Int.mul_assoc, ← Int.mul_assoc]
  have h1 : (n : Int) * Dec.P * Dec.P = ((n : Int) * Dec.P) * Dec.P := rfl
  rw [chopRound_mul_P _ (Int.mul_nonneg (Int.natCast_nonneg n) (Int.le_of_lt P_pos))]
  exact chopRound_mul_P _ (Int.natCast_nonneg n)

theorem natOfInt_natCast (n : Nat) : natOfInt? (n : Int) = some n := by
  unfold natOfInt?
  have : ¬ ((n : Int) < 0) := by omega
  simp [this]

/-- in a never-slashed pool GetPoolCoins mints / burns shares 1:1 -/
theorem get_poolCoins_par {p : Pool} {amts pc : Coins} (h : poolCoins p amts = some pc) (hs : p.slashed = 0)
    (tok : Nat) : get pc ⟨p.id, tok⟩ = get amts ⟨0, tok⟩ := by
  induction amts generalizing pc with
  | nil => simp [poolCoins] at h; subst h; rfl
  | cons x r ih =>
    obtain ⟨d0, n0⟩ := x
    unfold poolCoins at h
    split at h
    · cases h
    · rename_i hd0
      rw [hs, shareAmt_zero, natOfInt_natCast] at h
      dsimp only at h
      split at h
      · cases h
      · rename_i r' hr
        cases h
        have hd0' : d0.pool = 0 := by simpa using hd0
        simp only [get_cons, ih hr]
        have : ((⟨p.id, d0.tok⟩ : Denom) = ⟨p.id, tok⟩) ↔ (d0 = ⟨0, tok⟩) := by
          constructor
          · intro e
            have ht : d0.tok = tok := by injection e
            cases d0 with
            | mk dp dt =>
              simp only at hd0' ht
              subst hd0'; subst ht; rfl
          · intro e; subst e; rfl
        by_cases hc : d0 = ⟨0, tok⟩
        · simp [hc]
        · have : ¬ ((⟨p.id, d0.tok⟩ : Denom) = ⟨p.id, tok⟩) := fun e => hc (this.mp e)
          simp [hc, this]

theorem get_slashCoins_zero {sl : Dec.D} {c c' : Coins} (hsl : sl = 0) (h : slashCoins sl c = some c') (d : Denom) :
    get c' d = get c d := by
  induction c generalizing c' with
  | nil => unfold slashCoins at h; cases h; rfl
  | cons x r ih =>
    obtain ⟨d0, n0⟩ := x
    unfold slashCoins at h
    rw [hsl, shareAmt_zero, natOfInt_natCast] at h
    dsimp only at h
    rw [← hsl] at h
    split at h
    · cases h
    · rename_i r' hr
      cases h
      simp only [get_cons, ih hr]

/-- pools that were never slashed hold exactly as many shares as stake, denom by denom -/
def Par (s : St) : Prop :=
  ∀ p ∈ s.pools, p.slashed = 0 → ∀ tok : Nat, get p.shares ⟨p.id, tok⟩ = get p.stake ⟨0, tok⟩

theorem Par.congr {s s' : St} (h : Par s) (hp : s'.pools = s.pools) : Par s' := by
  unfold Par; rw [hp]; exact h

theorem par_delegate {s s' : St} {who val : Nat} {amts : Coins} (hi : Inv s) (h : Par s)
    (hd : delegate s who val amts = some s') : Par s' := by
  obtain ⟨p, pc, b1, b3, hp, _, hpc, _, _, heq⟩ := delegate_spec hd
  have hpm := findPool_mem hp
  rw [heq]
  intro q hq hqs tok
  rcases mem_setPool hp hi.distinct hq hpm.2 with e | ⟨hq', _⟩
  · subst e
    show get (addAll p.shares pc) ⟨p.id, tok⟩ = get (addAll p.stake amts) ⟨0, tok⟩
    rw [get_addAll, get_addAll, h p hpm.1 hqs tok, get_poolCoins_par hpc hqs tok]
  · exact h q hq' hqs tok

theorem par_undelegate {s s' : St} {who val : Nat} {amts : Coins} (hi : Inv s) (h : Par s)
    (hu : undelegate s who val amts = some s') : Par s' := by
  obtain ⟨p, pc, b1, b2, stake', shares', hp, hpc, _, _, hst, hsh, rfl⟩ := undelegate_spec hu
  have hpm := findPool_mem hp
  intro q hq hqs tok
  rcases mem_setPool hp hi.distinct hq hpm.2 with e | ⟨hq', _⟩
  · subst e
    show get shares' ⟨p.id, tok⟩ = get stake' ⟨0, tok⟩
    have h1 := get_subAll hsh ⟨p.id, tok⟩
    have h2 := get_subAll hst ⟨0, tok⟩
    have h3 := h p hpm.1 hqs tok
    have h4 := get_poolCoins_par hpc hqs tok
    omega
  · exact h q hq' hqs tok

theorem par_slash {s s' : St} {val : Nat} {sl : Dec.D} (hi : Inv s) (h : Par s)
    (hs : slash s val sl = some s') : Par s' := by
  rcases slash_spec hs with ⟨_, rfl⟩ | ⟨p, stake', slashed, b1, b2, hp, hsc, hsub, hne, _, _, rfl⟩
  · exact h
  have hpm := findPool_mem hp
  intro q hq hqs tok
  rcases mem_setPool hp hi.distinct hq hpm.2 with e | ⟨hq', _⟩
  · -- the slashed pool itself: a successful slash never has fraction 0 (it would burn the zero coin)
    subst e
    exfalso
    have hsl : sl = 0 := hqs
    have h1 := get_slashCoins_zero hsl hsc ukex
    have h2 := get_subAll hsub ukex
    rw [get_nz] at h1
    omega
  · exact h q hq' hqs tok

theorem par_upsertPool {s s' : St} {sender val : Nat} {en : Bool} {c : Dec.D} (hi : Inv s) (h : Par s)
    (hu : upsertPool s sender val en c = some s') : Par s' := by
  rcases upsertPool_spec hu with ⟨p, hp, rfl⟩ | ⟨hp, rfl⟩
  · have hpm := findPool_mem hp
    intro q hq hqs tok
    rcases mem_setPool hp hi.distinct hq hpm.2 with e | ⟨hq', _⟩
    · subst e; exact h p hpm.1 hqs tok
    · exact h q hq' hqs tok
  · unfold findPool at hp
    have hnew := setPool_new (ps := s.pools) (p' := { id := s.lastPoolId + 1, val := val, enabled := en, commission := c }) hp
    intro q hq hqs tok
    simp only [hnew, List.mem_append, List.mem_singleton] at hq
    rcases hq with hq | rfl
    · exact h q hq hqs tok
    · rfl

/-- the conjunction used for the op-sequence induction -/
def Inv2 (s : St) : Prop := Inv s ∧ Par s

theorem inv2_closed : Closed Inv2 :=
  ⟨fun h hb hp hl hu _ _ _ => ⟨h.1.congr hb hp hl hu, h.2.congr hp⟩,
   fun h hs hm => ⟨h.1.bank_mono hs hm, h.2.congr rfl⟩,
   fun h hd => ⟨inv_delegate h.1 hd, par_delegate h.1 h.2 hd⟩⟩

theorem inv2_step {s : St} (op : Op) (h : Inv2 s) : Inv2 (step s op) := by
  have keep : ∀ {r : Option St}, (∀ s', r = some s' → Inv2 s') → Inv2 (onSuccess s r) := by
    intro r hr
    cases r with
    | some s' => exact hr s' rfl
    | none => exact h
  have same : ∀ {r : Option St}, (∀ s', r = some s' → s'.pools = s.pools) → (∀ s', r = some s' → Inv s') →
      Inv2 (onSuccess s r) := by
    intro r hp hi
    cases r with
    | some s' => exact ⟨hi s' rfl, h.2.congr (hp s' rfl)⟩
    | none => exact h
  cases op with
  | upsert a v e c => exact keep fun _ hr => ⟨inv_upsertPool h.1 hr, par_upsertPool h.1 h.2 hr⟩
  | delegate a v c => exact keep fun _ hr => ⟨inv_delegate h.1 hr, par_delegate h.1 h.2 hr⟩
  | undelegate a v c => exact keep fun _ hr => ⟨inv_undelegate h.1 hr, par_undelegate h.1 h.2 hr⟩
  | slash v sl => exact keep fun _ hr => ⟨inv_slash h.1 hr, par_slash h.1 h.2 hr⟩
  | claimUndel a id =>
    refine same (fun s' hr => ?_) (fun _ hr => inv_claimUndel h.1 hr)
    obtain ⟨u, b, _, _, _, _, rfl⟩ := claimUndel_spec hr; rfl
  | claimMatured a =>
    refine same (fun s' hr => ?_) (fun _ hr => inv_claimMatured h.1 hr)
    unfold claimMatured at hr
    split at hr
    · cases hr
    · cases hr; rfl
  | claimRewards a =>
    refine same (fun s' hr => ?_) (fun _ hr => inv_claimRewards h.1 hr)
    unfold claimRewards at hr
    split at hr
    · cases hr
    · cases hr; rfl
  | transfer a b c =>
    refine same (fun s' hr => ?_) (fun _ hr => inv_transfer h.1 hr)
    unfold transfer at hr
    split at hr
    · cases hr
    · split at hr
      · cases hr
      · cases hr; rfl
  | payFee a c =>
    refine same (fun s' hr => ?_) (fun _ hr => inv_payFee h.1 hr)
    unfold payFee at hr
    split at hr
    · cases hr
    · split at hr
      · cases hr
      · cases hr; rfl
  | setCompound a all ds => exact inv2_closed.congr h rfl rfl rfl rfl rfl rfl rfl
  | register a =>
    refine keep fun s' hr => ?_
    rw [registerDelegator_frame hr]; exact inv2_closed.congr h rfl rfl rfl rfl rfl rfl rfl
  | poolRewards v rw =>
    show Inv2 (match findPool s v with
      | some p => onSuccess s (increasePoolRewards s p rw)
      | none => s)
    split
    · exact keep fun _ hr => inv2_closed.increasePoolRewards h hr
    · exact h
  | allocate prev => exact keep fun _ hr => inv2_closed.allocate h hr
  | beginBlock hh t p c =>
    exact keep fun _ hr => inv2_closed.beginBlock (fun h hb hp hl hu => ⟨h.1.congr hb hp hl hu, h.2.congr hp⟩) h hr
  | endBlock => exact ⟨h.1.congr rfl rfl rfl rfl, h.2.congr rfl⟩
  | env f hb hp hl hu => exact ⟨h.1.congr (hb s) (hp s) (hl s) (hu s), h.2.congr (hp s)⟩

theorem inv2_run {s : St} (ops : List Op) (h : Inv2 s) : Inv2 (run s ops) := by
  induction ops generalizing s with
  | nil => exact h
  | cons op rest ih => exact ih (inv2_step op h)

end Sekai.MultiStake
