import SekaiProofs.Lemmas.Layer2Ops
/-! C20: inversion lemmas of the bond operations and the books invariant. -/
namespace Sekai.Layer2

/-! ### inversion lemmas -/

theorem createPay_some {s s1 : St} {u : Nat} {n den : Bytes} {amt : Int}
    (h : (if 0 < amt then s.escrowIn u n den amt else some s) = some s1) :
    (¬ 0 < amt ∧ s1 = s) ∨ (0 < amt ∧ s.escrowIn u n den amt = some s1) := by
  split at h
  · rename_i hp; exact Or.inr ⟨hp, h⟩
  · rename_i hp; exact Or.inl ⟨hp, (Option.some.inj h).symm⟩

theorem createPay_frame {s s1 : St} {u : Nat} {n den : Bytes} {amt : Int}
    (h : (if 0 < amt then s.escrowIn u n den amt else some s) = some s1) :
    s1.dapps = s.dapps ∧ s1.bonds = s.bonds ∧ s1.P = s.P ∧ s1.addr = s.addr ∧ s1.spools = s.spools := by
  rcases createPay_some h with ⟨_, rfl⟩ | ⟨_, h2⟩
  · exact ⟨rfl, rfl, rfl, rfl, rfl⟩
  · obtain ⟨b, _, rfl⟩ := escrowIn_some h2
    exact ⟨rfl, rfl, rfl, rfl, rfl⟩

theorem createDapp_ok {s s' : St} {t u : Nat} {perm : Bool} {d : Dapp} {den : Bytes} {amt : Int}
    (h : createDapp s t u perm d den amt = .ok s') :
    ∃ s1, (if 0 < amt then s.escrowIn u d.name den amt else some s) = some s1 ∧ findDapp s1.dapps d.name = none ∧
      s' = { s1 with dapps := setDapp s1.dapps { d with bondDenom := den, bond := amt, creationTime := t, status := 0 }
                     bonds := setBond s1.bonds { dapp := d.name, user := u, denom := den, amt := amt } } ∧
      ¬ (perm = false ∧ den ≠ s.P.native) ∧ ¬ (perm = false ∧ amt * 100 < (s.P.minBond : Int) * million) := by
  unfold createDapp at h
  split at h
  · cases h
  · rename_i h1
    split at h
    · cases h
    · rename_i h2
      split at h
      · cases h
      · rename_i s1 hs1
        split at h
        · cases h
        · rename_i hf
          exact ⟨s1, hs1, hf, (Except.ok.inj h).symm, h1, h2⟩

theorem bondRecord_some {bs : List UBond} {u : Nat} {name den : Bytes} {amt : Int} {nb : UBond}
    (h : bondRecord bs u name den amt = some nb) :
    nb.dapp = name ∧ nb.user = u ∧ nb.denom = den ∧ nb.amt = bondAmt bs name u + amt := by
  unfold bondRecord at h
  split at h
  · rename_i b hb
    obtain ⟨_, hb1, hb2⟩ := findBond_some hb
    split at h
    · cases h
    · rename_i hden
      have hden' : b.denom = den := Classical.not_not.mp hden
      cases h
      refine ⟨hb1, hb2, hden', ?_⟩
      unfold bondAmt; rw [hb]
  · rename_i hb
    cases h
    refine ⟨rfl, rfl, rfl, ?_⟩
    unfold bondAmt; rw [hb]; simp

theorem bondDapp_ok {s s' : St} {u : Nat} {name den : Bytes} {amt : Int} (h : bondDapp s u name den amt = .ok s') :
    ∃ d s1 nb, findDapp s.dapps name = some d ∧ s.P.native = den ∧ d.bondDenom = den ∧ d.bond + amt ≤ (s.P.maxBond : Int) * million ∧
      s.escrowIn u name den amt = some s1 ∧ bondRecord s1.bonds u name den amt = some nb ∧
      s' = { s1 with dapps := setDapp s1.dapps { d with bond := d.bond + amt }, bonds := setBond s1.bonds nb } := by
  unfold bondDapp at h
  split at h
  · cases h
  · rename_i d hd
    split at h
    · cases h
    · rename_i h1
      split at h
      · cases h
      · rename_i h2
        split at h
        · cases h
        · rename_i h3
          split at h
          · cases h
          · rename_i s1 hs1
            split at h
            · cases h
            · rename_i nb hnb
              exact ⟨d, s1, nb, hd, Classical.not_not.mp h1, Classical.not_not.mp h2, Int.not_lt.mp h3, hs1, hnb, (Except.ok.inj h).symm⟩

theorem reclaimDapp_ok {s s' : St} {u : Nat} {name den : Bytes} {amt : Int} (h : reclaimDapp s u name den amt = .ok s') :
    ∃ d b s1, findDapp s.dapps name = some d ∧ findBond s.bonds name u = some b ∧ b.denom = den ∧ amt ≤ b.amt ∧
      d.bondDenom = den ∧ 0 ≤ d.bond - amt ∧ s.escrowOut u name den amt = some s1 ∧
      s' = { s1 with dapps := setDapp s1.dapps { d with bond := d.bond - amt }, bonds := setBond s1.bonds { b with amt := b.amt - amt } } := by
  unfold reclaimDapp at h
  split at h
  · cases h
  · rename_i d hd
    split at h
    · cases h
    · rename_i b hb
      split at h
      · cases h
      · rename_i h1
        split at h
        · cases h
        · rename_i h2
          split at h
          · cases h
          · rename_i h3
            split at h
            · cases h
            · rename_i h4
              split at h
              · cases h
              · rename_i s1 hs1
                exact ⟨d, b, s1, hd, hb, Classical.not_not.mp h1, Int.not_lt.mp h2, Classical.not_not.mp h3, Int.not_lt.mp h4, hs1, (Except.ok.inj h).symm⟩

/-! ### the books invariant -/

structure BooksInvL (ds : List Dapp) (bs : List UBond) : Prop where
  keysNodup : (keys bs).Nodup
  noOrphan : ∀ b ∈ bs, b.dapp ∈ names ds
  namesNodup : (names ds).Nodup
  sumEq : ∀ d ∈ ds, d.status = 0 → d.bond = bondSum bs d.name
  denomEq : ∀ d ∈ ds, d.status = 0 → ∀ b ∈ bs, b.dapp = d.name → b.denom = d.bondDenom

/-- the books of the bond escrow: unique keys, no orphan record, and for every bootstrapping dApp `TotalBond = Σ user bonds` -/
def BooksInv (s : St) : Prop := BooksInvL s.dapps s.bonds

theorem books_set {ds : List Dapp} {bs : List UBond} {rec_ : Dapp} {nb : UBond} (h : BooksInvL ds bs) (hk : nb.dapp = rec_.name)
    (hsum : rec_.status = 0 → rec_.bond = bondSum bs rec_.name + (nb.amt - bondAmt bs nb.dapp nb.user))
    (hden : rec_.status = 0 → nb.denom = rec_.bondDenom ∧ ∀ b ∈ bs, b.dapp = rec_.name → b.denom = rec_.bondDenom) :
    BooksInvL (setDapp ds rec_) (setBond bs nb) := by
  refine ⟨keys_setBond_nodup h.keysNodup, ?_, names_setDapp_nodup h.namesNodup, ?_, ?_⟩
  · intro b hb
    rw [mem_names_setDapp]
    rcases mem_setBond hb with rfl | hb'
    · exact Or.inl hk
    · exact Or.inr (h.noOrphan b hb')
  · intro x hx hst
    rw [bondSum_setBond]
    rcases mem_setDapp' h.namesNodup hx with rfl | ⟨hx', hne⟩
    · rw [if_pos hk]; exact hsum hst
    · rw [if_neg (by rw [hk]; exact Ne.symm hne)]
      have := h.sumEq x hx' hst
      omega
  · intro x hx hst b hb hbd
    rcases mem_setDapp' h.namesNodup hx with rfl | ⟨hx', hne⟩
    · rcases mem_setBond hb with rfl | hb'
      · exact (hden hst).1
      · exact (hden hst).2 b hb' hbd
    · rcases mem_setBond hb with rfl | hb'
      · exact absurd (hk.symm.trans hbd) (Ne.symm hne)
      · exact h.denomEq x hx' hst b hb' hbd

theorem books_filter_del {ds : List Dapp} {bs : List UBond} {name : Bytes} {p : UBond → Bool} (h : BooksInvL ds bs)
    (hdel : ∀ b ∈ bs, b.dapp = name → p b = false) (hkeep : ∀ b ∈ bs, b.dapp ≠ name → p b = true) :
    BooksInvL (delDapp ds name) (bs.filter p) := by
  refine ⟨keys_filter_nodup p h.keysNodup, ?_, names_delDapp_nodup h.namesNodup, ?_, ?_⟩
  · intro b hb
    obtain ⟨hb1, hb2⟩ := List.mem_filter.mp hb
    have hne : b.dapp ≠ name := fun hd => by rw [hdel b hb1 hd] at hb2; cases hb2
    obtain ⟨d, hd, hdn⟩ := List.mem_map.mp (h.noOrphan b hb1)
    exact List.mem_map.mpr ⟨d, mem_delDapp.mpr ⟨hd, hdn ▸ hne⟩, hdn⟩
  · intro x hx hst
    obtain ⟨hx1, hx2⟩ := mem_delDapp.mp hx
    rw [bondSum_filter_of_keep (fun b hb hbd => hkeep b hb (hbd ▸ hx2))]
    exact h.sumEq x hx1 hst
  · intro x hx hst b hb hbd
    exact h.denomEq x (mem_delDapp.mp hx).1 hst b (List.mem_filter.mp hb).1 hbd

theorem books_filter_set {ds : List Dapp} {bs : List UBond} {rec_ : Dapp} {p : UBond → Bool} (h : BooksInvL ds bs)
    (hst : rec_.status ≠ 0) (hkeep : ∀ b ∈ bs, b.dapp ≠ rec_.name → p b = true) :
    BooksInvL (setDapp ds rec_) (bs.filter p) := by
  refine ⟨keys_filter_nodup p h.keysNodup, ?_, names_setDapp_nodup h.namesNodup, ?_, ?_⟩
  · intro b hb
    rw [mem_names_setDapp]
    exact Or.inr (h.noOrphan b (List.mem_filter.mp hb).1)
  · intro x hx hs0
    rcases mem_setDapp' h.namesNodup hx with rfl | ⟨hx', hne⟩
    · exact absurd hs0 hst
    · rw [bondSum_filter_of_keep (fun b hb hbd => hkeep b hb (hbd ▸ hne))]
      exact h.sumEq x hx' hs0
  · intro x hx hs0 b hb hbd
    rcases mem_setDapp' h.namesNodup hx with rfl | ⟨hx', _⟩
    · exact absurd hs0 hst
    · exact h.denomEq x hx' hs0 b (List.mem_filter.mp hb).1 hbd

theorem books_setDapp_nonzero {ds : List Dapp} {bs : List UBond} {rec_ : Dapp} (h : BooksInvL ds bs) (hst : rec_.status ≠ 0) :
    BooksInvL (setDapp ds rec_) bs := by
  have := books_filter_set (p := fun _ => true) h hst (fun _ _ _ => rfl)
  rwa [List.filter_eq_self.mpr (fun _ _ => rfl)] at this

/-- no record under a name that has no dApp -/
theorem BooksInvL.no_bonds_of_absent {ds : List Dapp} {bs : List UBond} (h : BooksInvL ds bs) {n : Bytes} (hn : n ∉ names ds) :
    ∀ b ∈ bs, b.dapp ≠ n := fun b hb hbd => hn (hbd ▸ h.noOrphan b hb)

theorem books_create {s s' : St} {t u : Nat} {perm : Bool} {d : Dapp} {den : Bytes} {amt : Int}
    (hI : BooksInv s) (h : createDapp s t u perm d den amt = .ok s') : BooksInv s' := by
  obtain ⟨s1, hs1, hf, rfl, _, _⟩ := createDapp_ok h
  obtain ⟨e1, e2, _, _, _⟩ := createPay_frame hs1
  unfold BooksInv at hI ⊢
  simp only [e1, e2] at hf ⊢
  have habs := hI.no_bonds_of_absent (findDapp_none_names hf)
  apply books_set hI rfl
  · intro _
    simp only
    rw [bondSum_eq_zero habs, bondAmt_eq_zero (fun b hb hk => habs b hb hk.1)]
    omega
  · intro _
    exact ⟨rfl, fun b hb hbd => absurd hbd (habs b hb)⟩

theorem books_bond {s s' : St} {u : Nat} {name den : Bytes} {amt : Int}
    (hI : BooksInv s) (h : bondDapp s u name den amt = .ok s') : BooksInv s' := by
  obtain ⟨d, s1, nb, hd, _, hbd, _, hs1, hnb, rfl⟩ := bondDapp_ok h
  obtain ⟨bk, _, rfl⟩ := escrowIn_some hs1
  obtain ⟨hd1, hd2⟩ := findDapp_some hd
  obtain ⟨n1, n2, n3, n4⟩ := bondRecord_some hnb
  replace n4 : nb.amt = bondAmt s.bonds name u + amt := n4
  unfold BooksInv at hI ⊢
  simp only at hnb ⊢
  apply books_set hI (by rw [n1]; exact hd2.symm)
  · intro hst
    simp only at hst ⊢
    rw [n1, n2, n4, hd2, hI.sumEq d hd1 hst, hd2]
    omega
  · intro hst
    simp only at hst ⊢
    refine ⟨n3.trans hbd.symm, fun b hb hbn => hI.denomEq d hd1 hst b hb hbn⟩

theorem books_reclaim {s s' : St} {u : Nat} {name den : Bytes} {amt : Int}
    (hI : BooksInv s) (h : reclaimDapp s u name den amt = .ok s') : BooksInv s' := by
  obtain ⟨d, b, s1, hd, hb, hbden, _, hdden, _, hs1, rfl⟩ := reclaimDapp_ok h
  obtain ⟨bk, _, rfl⟩ := escrowOut_some hs1
  obtain ⟨hd1, hd2⟩ := findDapp_some hd
  obtain ⟨hb0, hb1, hb2⟩ := findBond_some hb
  unfold BooksInv at hI ⊢
  simp only
  apply books_set hI (by simp only; rw [hb1]; exact hd2.symm)
  · intro hst
    simp only at hst ⊢
    have : bondAmt s.bonds b.dapp b.user = b.amt := bondAmt_of_mem hI.keysNodup hb0
    rw [this, hd2, hI.sumEq d hd1 hst, hd2]
    omega
  · intro hst
    simp only at hst ⊢
    exact ⟨hbden.trans hdden.symm, fun b' hb' hbn => hI.denomEq d hd1 hst b' hb' hbn⟩

end Sekai.Layer2
