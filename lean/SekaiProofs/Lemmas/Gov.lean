import Sekai.Model.Gov
/-! helper lemmas about the governance lifecycle model -/
namespace Sekai.Gov

theorem getP_mem {s : St} {id : Nat} {p : Proposal} (h : getP s id = some p) : p ∈ s.proposals ∧ p.id = id := by
  unfold getP at h
  exact ⟨List.mem_of_find?_eq_some h, by have := List.find?_some h; simpa using this⟩

/-- proposal ids are unique -/
def IdsNodup (s : St) : Prop := (s.proposals.map (·.id)).Nodup

theorem find_unique {l : List Proposal} (hn : (l.map (·.id)).Nodup) {p : Proposal} (hp : p ∈ l) :
    l.find? (·.id == p.id) = some p := by
  induction l with
  | nil => cases hp
  | cons x xs ih =>
    simp only [List.map_cons, List.nodup_cons] at hn
    rcases List.mem_cons.mp hp with e | e
    · subst e; simp
    · have hne : x.id ≠ p.id := by
        intro heq; apply hn.1; rw [heq]; exact List.mem_map_of_mem e
      simp only [List.find?_cons]
      have : (x.id == p.id) = false := by simpa using hne
      rw [this]; exact ih hn.2 e

theorem getP_of_mem {s : St} (hn : IdsNodup s) {p : Proposal} (hp : p ∈ s.proposals) : getP s p.id = some p :=
  find_unique hn hp

theorem setP_ids (s : St) (p : Proposal) : (setP s p).proposals.map (·.id) = s.proposals.map (·.id) := by
  unfold setP
  simp only [List.map_map]
  apply List.map_congr_left
  intro q _
  simp only [Function.comp]
  by_cases h : q.id = p.id <;> simp [h]

theorem find_map_same (l : List Proposal) (p p0 : Proposal) (h : l.find? (·.id == p.id) = some p0) :
    (l.map fun q => if q.id == p.id then p else q).find? (·.id == p.id) = some p := by
  induction l with
  | nil => simp at h
  | cons x xs ih =>
    simp only [List.find?_cons] at h
    simp only [List.map_cons, List.find?_cons]
    by_cases hx : x.id = p.id
    · simp [hx]
    · have hb : (x.id == p.id) = false := by simpa using hx
      rw [hb] at h
      simp only [hb, Bool.false_eq_true, if_false]
      exact ih h

theorem getP_setP_same (s : St) (p p0 : Proposal) (h : getP s p.id = some p0) : getP (setP s p) p.id = some p :=
  find_map_same s.proposals p p0 h

theorem find_map_other (l : List Proposal) (p : Proposal) (id : Nat) (h : id ≠ p.id) :
    (l.map fun q => if q.id == p.id then p else q).find? (·.id == id) = l.find? (·.id == id) := by
  induction l with
  | nil => rfl
  | cons x xs ih =>
    simp only [List.map_cons, List.find?_cons]
    by_cases hx : x.id = p.id
    · have h1 : (x.id == p.id) = true := by simpa using hx
      have h2 : (p.id == id) = false := by simpa using (Ne.symm h)
      have h3 : (x.id == id) = false := by rw [hx]; exact h2
      simp only [h1, if_true, h2, h3]; exact ih
    · have h1 : (x.id == p.id) = false := by simpa using hx
      simp only [h1, Bool.false_eq_true, if_false]
      by_cases hxi : x.id = id
      · simp [hxi]
      · have hb : (x.id == id) = false := by simpa using hxi
        simp only [hb]; exact ih

theorem getP_setP_other (s : St) (p : Proposal) (id : Nat) (h : id ≠ p.id) : getP (setP s p) id = getP s id :=
  find_map_other s.proposals p id h

theorem foldOpt_inv {α β} (f : β → α → Option β) (P : β → Prop)
    (hstep : ∀ b a b', P b → f b a = some b' → P b') :
    ∀ (l : List α) (b b' : β), P b → foldOpt f b l = some b' → P b' := by
  intro l
  induction l with
  | nil => intro b b' hb h; simp [foldOpt] at h; subst h; exact hb
  | cons a as ih =>
    intro b b' hb h
    simp only [foldOpt] at h
    cases hf : f b a with
    | none => simp [hf] at h
    | some b1 => rw [hf] at h; exact ih b1 b' (hstep b a b1 hb hf) h

end Sekai.Gov
