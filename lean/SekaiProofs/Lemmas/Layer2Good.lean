import SekaiProofs.Lemmas.Layer2Held
/-! C20: the combined invariant (books + ledger + escrow) per operation. -/
namespace Sekai.Layer2

structure Good (s : St) : Prop where
  books : BooksInv s
  ledger : LedgerInv s
  held : Held s

theorem paid_filter_own {bs : List UBond} (name : Bytes) (u : Nat) (hn : (keys bs).Nodup) :
    paid (bs.filter (fun b => b.dapp = name)) name u = bondAmt bs name u := by
  induction bs with
  | nil => rfl
  | cons x xs ih =>
    have hn' := hn
    simp only [keys, List.map_cons, List.nodup_cons] at hn'
    rw [List.filter_cons, bondAmt_cons]
    by_cases hx : x.dapp = name
    · rw [if_pos (by simpa using hx)]
      simp only [paid]
      by_cases hu : x.user = u
      · have hz : bondAmt xs name u = 0 := by
          apply bondAmt_eq_zero
          intro b hb hk
          apply hn'.1
          have : b.key = x.key := by unfold UBond.key; rw [hk.1, hk.2, hx, hu]
          rw [← this]; exact List.mem_map.mpr ⟨b, hb, rfl⟩
        rw [ih hn'.2, hz, if_pos ⟨hx.symm, hu.symm⟩, if_pos ⟨hx, hu⟩]; omega
      · rw [ih hn'.2, if_neg (fun h => hu h.2.symm), if_neg (fun h => hu h.2)]; omega
    · rw [if_neg (by simpa using hx), ih hn'.2, if_neg (fun h => hx h.1)]

theorem paid_filter_other {bs : List UBond} {name n : Bytes} (u : Nat) (hne : n ≠ name) :
    paid (bs.filter (fun b => b.dapp = name)) n u = 0 := by
  apply paid_eq_zero
  intro b hb hk
  have := (List.mem_filter.mp hb).2
  simp only [decide_eq_true_eq] at this
  exact hne (hk.1.trans this)

/-- all records of `name` are gone after the bulk deletion over a list that contains them all -/
theorem bondAmt_delBondsOf_own {bs l : List UBond} {name : Bytes} (u : Nat) (hall : ∀ b ∈ bs, b.dapp = name → b ∈ l) :
    bondAmt (delBondsOf bs name l) name u = 0 := by
  apply bondAmt_eq_zero
  intro x hx hk
  obtain ⟨hx1, hx2⟩ := mem_delBondsOf.mp hx
  exact hx2 ⟨hk.1, x, hall x hx1 hk.1, rfl⟩

theorem bondAmt_delBondsOf_other {bs l : List UBond} {name n : Bytes} (u : Nat) (hne : n ≠ name) :
    bondAmt (delBondsOf bs name l) n u = bondAmt bs n u := by
  rw [delBondsOf_eq_filter]
  apply bondAmt_filter_of_keep
  intro b _ hbd _
  have : b.dapp ≠ name := fun h => hne (hbd.symm.trans h)
  simp [keepP, this]

/-! ### create / bond / reclaim -/

theorem good_create {s s' : St} {t u : Nat} {perm : Bool} {d : Dapp} {den : Bytes} {amt : Int}
    (hG : Good s) (hneg : perm = true → 0 ≤ amt) (h : createDapp s t u perm d den amt = .ok s') : Good s' := by
  refine ⟨books_create hG.books h, ?_, ?_⟩
  all_goals
    obtain ⟨s1, hs1, hf, rfl, _, hlow⟩ := createDapp_ok h
    have hamt : 0 ≤ amt := by
      cases perm with
      | true => exact hneg rfl
      | false =>
        have : ¬ amt * 100 < (s.P.minBond : Int) * million := fun hh => hlow ⟨rfl, hh⟩
        unfold million at this
        omega
    have hB := hG.books
    unfold BooksInv at hB
  · -- ledger
    have hL := hG.ledger
    unfold LedgerInv at hL ⊢
    rcases createPay_some hs1 with ⟨hnp, rfl⟩ | ⟨hp, hin⟩
    · have h0 : amt = 0 := by omega
      subst h0
      have habs := hB.no_bonds_of_absent (findDapp_none_names hf)
      intro n v
      simp only
      rw [bondAmt_setBond]
      split
      · rename_i hk
        simp only at hk
        rw [← hL, ← hk.1, ← hk.2, bondAmt_eq_zero (fun b hb hkk => habs b hb hkk.1)]
      · exact hL n v
    · obtain ⟨bk, _, rfl⟩ := escrowIn_some hin
      simp only at hf ⊢
      have habs := hB.no_bonds_of_absent (findDapp_none_names hf)
      intro n v
      rw [bondAmt_setBond]
      simp only
      by_cases hk : d.name = n ∧ u = v
      · rw [if_pos hk, if_pos ⟨hk.1.symm, hk.2.symm⟩, ← hL, ← hk.1, ← hk.2, bondAmt_eq_zero (fun b hb hkk => habs b hb hkk.1)]
        omega
      · rw [if_neg hk, if_neg (fun hh => hk ⟨hh.1.symm, hh.2.symm⟩)]
        exact hL n v
  · -- escrow
    have hH := hG.held
    unfold Held at hH ⊢
    obtain ⟨e1, _, e3, _, _⟩ := createPay_frame hs1
    have hnew : ∀ x ∈ s1.dapps, x.name ≠ d.name := findDapp_none hf
    simp only [e3]
    rw [nt_setDapp_new _ (by simpa using hnew), e1]
    simp only [contrib]
    rcases createPay_some hs1 with ⟨hnp, rfl⟩ | ⟨hp, hin⟩
    · split <;> omega
    · obtain ⟨bk, hbk, rfl⟩ := escrowIn_some hin
      simp only
      by_cases hden : den = s.P.native
      · subst hden
        have := (send_bal_src hbk (by simp)).2.1
        rw [if_pos rfl, this]; omega
      · rw [if_neg hden, send_other_denom hbk _ _ (Ne.symm hden)]; omega

theorem good_bond {s s' : St} {u : Nat} {name den : Bytes} {amt : Int}
    (hG : Good s) (h : bondDapp s u name den amt = .ok s') : Good s' := by
  refine ⟨books_bond hG.books h, ?_, ?_⟩
  all_goals
    obtain ⟨d, s1, nb, hd, hnat, hbd, _, hs1, hnb, rfl⟩ := bondDapp_ok h
    obtain ⟨bk, hbk, rfl⟩ := escrowIn_some hs1
    obtain ⟨hd1, hd2⟩ := findDapp_some hd
    obtain ⟨n1, n2, n3, n4⟩ := bondRecord_some hnb
    replace n4 : nb.amt = bondAmt s.bonds name u + amt := n4
  · have hL := hG.ledger
    unfold LedgerInv at hL ⊢
    intro n v
    simp only
    rw [bondAmt_setBond, n1, n2, n4]
    by_cases hk : name = n ∧ u = v
    · rw [if_pos hk, if_pos ⟨hk.1.symm, hk.2.symm⟩, ← hL, hk.1, hk.2]
    · rw [if_neg hk, if_neg (fun hh => hk ⟨hh.1.symm, hh.2.symm⟩)]
      exact hL n v
  · have hH := hG.held
    have hB := hG.books
    unfold BooksInv at hB
    unfold Held at hH ⊢
    simp only
    rw [nt_setDapp_mem (rec_ := { d with bond := d.bond + amt }) _ hB.namesNodup hd1 rfl]
    subst hnat
    simp only [contrib, hbd, if_true]
    have := (send_bal_src hbk (by simp)).2.1
    rw [this]; omega

theorem good_reclaim {s s' : St} {u : Nat} {name den : Bytes} {amt : Int}
    (hG : Good s) (h : reclaimDapp s u name den amt = .ok s') : Good s' := by
  refine ⟨books_reclaim hG.books h, ?_, ?_⟩
  all_goals
    obtain ⟨d, b, s1, hd, hb, hbden, _, hdden, _, hs1, rfl⟩ := reclaimDapp_ok h
    obtain ⟨bk, hbk, rfl⟩ := escrowOut_some hs1
    obtain ⟨hd1, hd2⟩ := findDapp_some hd
    obtain ⟨hb0, hb1, hb2⟩ := findBond_some hb
    have hB := hG.books
    unfold BooksInv at hB
  · have hL := hG.ledger
    unfold LedgerInv at hL ⊢
    intro n v
    simp only
    rw [bondAmt_setBond]
    simp only
    have hamt : bondAmt s.bonds name u = b.amt := by rw [← hb1, ← hb2]; exact bondAmt_of_mem hB.keysNodup hb0
    by_cases hk : name = n ∧ u = v
    · rw [if_pos (by rw [hb1, hb2]; exact hk), if_pos ⟨hk.1.symm, hk.2.symm⟩, ← hL, ← hk.1, ← hk.2, hamt]
    · rw [if_neg (by rw [hb1, hb2]; exact hk), if_neg (fun hh => hk ⟨hh.1.symm, hh.2.symm⟩)]
      exact hL n v
  · have hH := hG.held
    unfold Held at hH ⊢
    simp only
    rw [nt_setDapp_mem (rec_ := { d with bond := d.bond - amt }) _ hB.namesNodup hd1 rfl]
    simp only [contrib, hdden]
    by_cases hden : den = s.P.native
    · subst hden
      have := (send_bal_src hbk (by simp)).1
      rw [if_pos rfl, if_pos rfl, this]; omega
    · rw [if_neg hden, if_neg hden, send_other_denom hbk _ _ (Ne.symm hden)]; omega

end Sekai.Layer2
