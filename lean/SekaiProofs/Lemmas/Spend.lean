import Sekai.Model.Spend
import SekaiProofs.Lemmas.DecRound
/-! Helper lemmas about the spending-pool model (coins, bank, pool list, claim decomposition). Core Lean only. -/
namespace Sekai.Spend

/-! ### coins -/

theorem sumFor_zero_of_not_mem (d : Denom) : ∀ (l : List (Denom × Nat)), d ∉ l.map (·.1) → sumFor d l = 0
  | [], _ => rfl
  | (d', a) :: rest, h => by
    simp only [List.map_cons, List.mem_cons, not_or] at h
    have hne : ¬ d' = d := fun e => h.1 e.symm
    simp [sumFor, hne, sumFor_zero_of_not_mem d rest h.2]

theorem geOn_spec {supp : List Denom} {a b : Amt} (h : Amt.geOn supp a b = true) : ∀ d ∈ supp, b d ≤ a d := by
  intro d hd
  unfold Amt.geOn at h
  rw [List.all_eq_true] at h
  simpa using h d hd

/-- the `Sub`-does-not-panic test on the support of a coin list is the pointwise test -/
theorem geOn_ofList {l : List (Denom × Nat)} {a : Amt} (h : Amt.geOn (l.map (·.1)) a (Amt.ofList l) = true) :
    ∀ d, Amt.ofList l d ≤ a d := by
  intro d
  by_cases hd : d ∈ l.map (·.1)
  · exact geOn_spec h d hd
  · simp [Amt.ofList, sumFor_zero_of_not_mem d l hd]

/-! ### bank -/

theorem sendAmt_ok {b b' : Bank} {f t : Addr} {supp : List Denom} {amt : Amt}
    (h : b.sendAmt f t supp amt = .ok b') : Amt.geOn supp (b f) amt = true ∧ b' = (b.debit f amt).credit t amt := by
  unfold Bank.sendAmt at h
  split at h
  · rename_i hg; cases h; exact ⟨hg, rfl⟩
  · cases h

theorem send_ok {b b' : Bank} {f t : Addr} {l : List (Denom × Nat)}
    (h : b.send f t l = .ok b') : (∀ d, Amt.ofList l d ≤ b f d) ∧ b' = (b.debit f (Amt.ofList l)).credit t (Amt.ofList l) := by
  unfold Bank.send at h
  split at h
  · obtain ⟨hg, he⟩ := sendAmt_ok h
    exact ⟨geOn_ofList hg, he⟩
  · cases h

theorem move_other (b : Bank) (f t x : Addr) (amt : Amt) (hf : x ≠ f) (ht : x ≠ t) :
    ((b.debit f amt).credit t amt) x = b x := by
  simp [Bank.credit, Bank.debit, hf, ht]

theorem move_from (b : Bank) (f t : Addr) (amt : Amt) (hft : f ≠ t) (d : Denom) :
    ((b.debit f amt).credit t amt) f d = b f d - amt d := by
  simp [Bank.credit, Bank.debit, hft, Amt.sub]

theorem move_to (b : Bank) (f t : Addr) (amt : Amt) (hft : f ≠ t) (d : Denom) :
    ((b.debit f amt).credit t amt) t d = b t d + amt d := by
  have : ¬ t = f := fun e => hft e.symm
  simp [Bank.credit, Bank.debit, this, Amt.add]

theorem move_self (b : Bank) (f : Addr) (amt : Amt) (d : Denom) (h : amt d ≤ b f d) :
    ((b.debit f amt).credit f amt) f d = b f d := by
  simp [Bank.credit, Bank.debit, Amt.add, Amt.sub]; omega

/-! ### pool list -/

theorem findPool_name {ps : List Pool} {n : Nat} {p : Pool} (h : findPool ps n = some p) : p.name = n := by
  unfold findPool at h
  have := List.find?_some h
  simpa using this

theorem sumPools_setPool {ps : List Pool} {n : Nat} {old p : Pool} (d : Denom)
    (h : findPool ps n = some old) (hp : p.name = n) :
    sumPools (setPool ps p) d + old.bal d = sumPools ps d + p.bal d := by
  induction ps with
  | nil => simp [findPool] at h
  | cons q rest ih =>
    unfold findPool at h
    rw [List.find?_cons] at h
    by_cases hq : q.name = n
    · have hqb : (q.name == n) = true := by simp [hq]
      rw [hqb] at h
      cases h
      have : (old.name == p.name) = true := by simp [hq, hp]
      simp only [setPool, this, if_true, sumPools]
      omega
    · have hqb : (q.name == n) = false := by simp [hq]
      rw [hqb] at h
      have hne : (q.name == p.name) = false := by simp [hp, hq]
      simp only [setPool, hne, sumPools]
      have := ih h
      simp only [Bool.false_eq_true, if_false, sumPools]
      omega

theorem findPool_setPool {ps : List Pool} {n : Nat} {old p : Pool}
    (h : findPool ps n = some old) (hp : p.name = n) : findPool (setPool ps p) n = some p := by
  induction ps with
  | nil => simp [findPool] at h
  | cons q rest ih =>
    unfold findPool at h
    rw [List.find?_cons] at h
    by_cases hq : q.name = n
    · have : (q.name == p.name) = true := by simp [hq, hp]
      simp only [setPool, this, if_true]
      unfold findPool
      rw [List.find?_cons]
      simp [hp]
    · have hqb : (q.name == n) = false := by simp [hq]
      rw [hqb] at h
      have hne : (q.name == p.name) = false := by simp [hp, hq]
      simp only [setPool, hne, Bool.false_eq_true, if_false]
      unfold findPool
      rw [List.find?_cons, hqb]
      exact ih h

theorem findPool_bal_le_sum {ps : List Pool} {n : Nat} {p : Pool} (h : findPool ps n = some p) (d : Denom) :
    p.bal d ≤ sumPools ps d := by
  induction ps with
  | nil => simp [findPool] at h
  | cons q rest ih =>
    unfold findPool at h
    rw [List.find?_cons] at h
    cases hq : (q.name == n) with
    | true => rw [hq] at h; cases h; simp [sumPools]
    | false => rw [hq] at h; have := ih h; simp only [sumPools]; omega

theorem sumPools_append (ps qs : List Pool) (d : Denom) : sumPools (ps ++ qs) d = sumPools ps d + sumPools qs d := by
  induction ps with
  | nil => simp [sumPools]
  | cons q rest ih => simp only [List.cons_append, sumPools, ih]; omega

theorem findPool_setPool_other {ps : List Pool} {n : Nat} {p : Pool} (hn : p.name ≠ n) :
    findPool (setPool ps p) n = findPool ps n := by
  induction ps with
  | nil => simp [setPool]
  | cons q rest ih =>
    simp only [setPool]
    split
    · rename_i hq
      have hq' : q.name = p.name := by simpa using hq
      have h1 : (p.name == n) = false := by simp [hn]
      have h2 : (q.name == n) = false := by simp [hq', hn]
      unfold findPool
      rw [List.find?_cons, List.find?_cons, h1, h2]
    · unfold findPool at *
      rw [List.find?_cons, List.find?_cons, ih]

theorem findPool_append_left {ps qs : List Pool} {n : Nat} {p : Pool} (h : findPool ps n = some p) : findPool (ps ++ qs) n = some p := by
  unfold findPool at *
  rw [List.find?_append, h]; rfl

/-! ### claim infos -/

theorem findInfo_setInfo (is : List ClaimInfo) (c : ClaimInfo) : findInfo (setInfo is c) c.pool c.acct = some c := by
  induction is with
  | nil => simp [setInfo, findInfo]
  | cons i rest ih =>
    simp only [setInfo]
    split
    · simp [findInfo]
    · rename_i hne
      unfold findInfo at *
      rw [List.find?_cons]
      simp only [hne]
      exact ih

/-! ### decomposition of a successful claim -/

/-- what one claim pays, as a denotation -/
def paidOf (p : Pool) (dur w : Int) : Amt := Amt.ofList (toNatCoins (rewardEntries p.rates dur w))

theorem claim_ok {s s' : State} {n : Nat} {a : Addr} {now : Nat} (h : claim s n a now = .ok s') :
    ∃ p ci dur, findPool s.pools n = some p ∧ benWeight p s.actors a ≠ 0 ∧ findInfo s.infos n a = some ci ∧
      claimDuration p ci.last now = some dur ∧
      (∀ e ∈ rewardEntries p.rates dur (benWeight p s.actors a), 0 ≤ e.2) ∧
      (∀ d, paidOf p dur (benWeight p s.actors a) d ≤ p.bal d) ∧
      (∀ d, paidOf p dur (benWeight p s.actors a) d ≤ s.bank SPEND d) ∧
      s' = { s with pools := setPool s.pools { p with bal := Amt.sub p.bal (paidOf p dur (benWeight p s.actors a)) },
                    bank := (s.bank.debit SPEND (paidOf p dur (benWeight p s.actors a))).credit a (paidOf p dur (benWeight p s.actors a)),
                    infos := setInfo s.infos { pool := n, acct := a, last := now } } := by
  unfold claim at h
  split at h
  · cases h
  · rename_i p hp
    simp only at h
    split at h
    · cases h
    · rename_i hw
      split at h
      · cases h
      · rename_i ci hci
        split at h
        · cases h
        · rename_i dur hdur
          split at h
          · cases h
          · rename_i hneg
            split at h
            · cases h
            · rename_i hge
              split at h
              · cases h
              · rename_i bank' hb
                obtain ⟨hg2, hbe⟩ := sendAmt_ok hb
                cases h
                refine ⟨p, ci, dur, hp, hw, hci, hdur, ?_, ?_, ?_, ?_⟩
                · intro e he
                  have : ¬ (e.2 < 0) := by
                    intro hlt
                    apply hneg
                    rw [List.any_eq_true]
                    exact ⟨e, he, by simpa using hlt⟩
                  omega
                · have hge' : Amt.geOn ((toNatCoins (rewardEntries p.rates dur (benWeight p s.actors a))).map (·.1)) p.bal
                      (Amt.ofList (toNatCoins (rewardEntries p.rates dur (benWeight p s.actors a)))) = true := by
                    simpa using hge
                  exact geOn_ofList hge'
                · exact geOn_ofList hg2
                · subst hbe; rfl

end Sekai.Spend
