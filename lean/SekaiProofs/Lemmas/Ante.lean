import Sekai.Model.Ante
/-! Helper lemmas for C09 / C14: `LegacyDec` multiplication by an integer is exact, `uint64`/`int64` casts
without wrap-around, bank moves, the loops of the ante decorators. Core Lean only. -/
namespace Sekai.Lemmas.Ante
open Sekai Sekai.Ante

instance : DecidableEq (Except Err Unit) := fun a b =>
  match a, b with
  | .ok (), .ok () => isTrue rfl
  | .error e, .error f => if h : e = f then isTrue (by rw [h]) else isFalse (by intro hh; cases hh; exact h rfl)
  | .ok (), .error _ => isFalse (by intro h; cases h)
  | .error _, .ok () => isFalse (by intro h; cases h)

theorem P_pos : 0 < Dec.P := by unfold Dec.P; omega
theorem half_pos : 0 < Dec.half := by unfold Dec.half; omega

/-- banker's rounding of an exact multiple of 10^18 is exact -/
theorem chopRound_mul_P (x : Int) : Dec.chopRound (x * Dec.P) = x := by
  have hP := P_pos
  have hH := half_pos
  have hne : Dec.P ≠ 0 := Int.ne_of_gt hP
  unfold Dec.chopRound
  by_cases h : x < 0
  · have h1 : x * Dec.P < 0 := Int.mul_neg_of_neg_of_pos h hP
    have h2 : -(x * Dec.P) = (-x) * Dec.P := by rw [Int.neg_mul]
    simp only [h1, if_true, h2, Int.mul_ediv_cancel _ hne, Int.mul_emod_left, hH]
    omega
  · have h1 : ¬ (x * Dec.P < 0) := by
      have : 0 ≤ x * Dec.P := Int.mul_nonneg (by omega) (Int.le_of_lt hP)
      omega
    simp only [h1, if_false, Int.mul_emod_left, hH, if_true]
    exact Int.mul_ediv_cancel _ hne

theorem mul_ofInt_left (a r : Int) : Dec.mul (Dec.ofInt a) r = a * r := by
  unfold Dec.mul Dec.ofInt
  have : a * Dec.P * r = (a * r) * Dec.P := by
    rw [Int.mul_assoc, Int.mul_comm Dec.P r, ← Int.mul_assoc]
  rw [this, chopRound_mul_P]

theorem mul_ofInt_right (r a : Int) : Dec.mul r (Dec.ofInt a) = r * a := by
  unfold Dec.mul Dec.ofInt
  rw [← Int.mul_assoc, chopRound_mul_P]

theorem two63_lt_two64 : two63 < two64 := by unfold two63 two64; omega

theorem toI64_of_lt {n : Nat} (h : n < two63) : toI64 n = (n : Int) := by
  have h2 : n < two64 := Nat.lt_trans h two63_lt_two64
  unfold toI64
  rw [Nat.mod_eq_of_lt h2]
  simp [h]

theorem u64_of_lt {n : Nat} (h : n < two64) : u64 n = n := by
  unfold u64; exact Nat.mod_eq_of_lt h


/-! ## specification vocabulary -/

/-- a fee coin the property admits: registered, fee-enabled, not frozen, foreign only while enabled -/
def CoinOk (c : Cfg) (d : String) : Prop :=
  ∃ t, tokenInfo? c d = some t ∧ t.feeEnabled = true ∧ frozen c d = false ∧ (d ≠ c.native → c.foreignEnabled = true)

/-- registered rate of a denomination (0 when unregistered) -/
def rateOf (c : Cfg) (d : String) : Int :=
  match tokenInfo? c d with
  | some t => t.rate
  | none => 0

/-- value of the fee at the registered rates, scaled by 10^18: `Σ amount × rate` -/
def feeValue (c : Cfg) : Coins → Int
  | [] => 0
  | (d, a) :: rest => (a : Int) * rateOf c d + feeValue c rest

/-- `Σ max(ExecutionFee, FailureFee)` over the messages whose type has a fee record — in ℕ, no wrap-around -/
def execSpec (c : Cfg) : List Msg → Nat
  | [] => 0
  | m :: rest =>
    (match execFee? c m.msgType with
     | none => 0
     | some f => execMax f) + execSpec c rest

theorem execMax_eq (f : ExecFee) : execMax f = max f.exec f.fail := by
  unfold execMax; split <;> omega

/-! ## the fee-coin loop -/

theorem feeLoop_ok (c : Cfg) (fee : Coins) (acc v : Int) (h : feeLoop c fee acc = .ok v) :
    (∀ x ∈ fee, CoinOk c x.1) ∧ v = acc + feeValue c fee := by
  induction fee generalizing acc with
  | nil => simp [feeLoop] at h; simp [feeValue, h]
  | cons x rest ih =>
    obtain ⟨d, a⟩ := x
    simp only [feeLoop] at h
    split at h
    · cases h
    · rename_i hf
      split at h
      · cases h
      · rename_i t ht
        split at h
        · cases h
        · rename_i hen
          split at h
          · cases h
          · rename_i hfr
            have := ih _ h
            obtain ⟨h1, h2⟩ := this
            constructor
            · intro x hx
              cases hx with
              | head =>
                refine ⟨t, ht, by simpa using hen, by simpa using hfr, ?_⟩
                intro hne
                cases hfe : c.foreignEnabled with
                | true => rfl
                | false => simp [hfe, hne] at hf
              | tail _ hx => exact h1 x hx
            · rw [h2, mul_ofInt_left]
              simp only [feeValue, rateOf, ht]
              omega

theorem feeLoop_of_ok (c : Cfg) (fee : Coins) (acc : Int) (h : ∀ x ∈ fee, CoinOk c x.1) :
    feeLoop c fee acc = .ok (acc + feeValue c fee) := by
  induction fee generalizing acc with
  | nil => simp [feeLoop, feeValue]
  | cons x rest ih =>
    obtain ⟨d, a⟩ := x
    obtain ⟨t, ht, hen, hfr, hfor⟩ := h (d, a) (List.mem_cons_self ..)
    have hrest : ∀ x ∈ rest, CoinOk c x.1 := fun x hx => h x (List.mem_cons_of_mem _ hx)
    have hf : ¬ ((!c.foreignEnabled && d != c.native) = true) := by
      intro hh
      simp only [Bool.and_eq_true, Bool.not_eq_true', bne_iff_ne, ne_eq] at hh
      have := hfor hh.2
      rw [hh.1] at this; cases this
    simp only [feeLoop, hf, if_false, ht, hen, hfr, Bool.not_true, Bool.false_eq_true]
    rw [ih _ hrest, mul_ofInt_left]
    simp only [feeValue, rateOf, ht]
    rw [Int.add_assoc]

/-! ## the execution-fee sum -/

theorem execReq_nowrap (c : Cfg) (msgs : List Msg) (acc : Nat) (h : acc + execSpec c msgs < two64) :
    execReq c msgs acc = acc + execSpec c msgs := by
  induction msgs generalizing acc with
  | nil => simp [execReq, execSpec]
  | cons m rest ih =>
    simp only [execReq, execSpec] at h ⊢
    split
    · rename_i hn
      simp only [hn] at h
      rw [ih acc (by omega)]; simp [hn]
    · rename_i f hf
      simp only [hf] at h
      have hlt : acc + execMax f < two64 := by omega
      rw [u64_of_lt hlt, ih _ (by omega)]
      simp only [hf]; omega


/-! ## bank moves -/

theorem moveCoins_spec (src dst : Addr) (hne : src ≠ dst) (cs : Coins) (b b' : Addr → String → Nat)
    (h : moveCoins b src dst cs = some b') :
    ∀ d, b' src d + amountOf cs d = b src d ∧ b' dst d = b dst d + amountOf cs d ∧
      ∀ x, x ≠ src → x ≠ dst → b' x d = b x d := by
  induction cs generalizing b with
  | nil => intro d; simp [moveCoins] at h; subst h; simp [amountOf]
  | cons x rest ih =>
    obtain ⟨e, a⟩ := x
    simp only [moveCoins] at h
    split at h
    · cases h
    · rename_i hlt
      intro d
      have := ih _ h d
      obtain ⟨h1, h2, h3⟩ := this
      have hne' : dst ≠ src := fun hh => hne hh.symm
      simp only [amountOf]
      by_cases hd : e = d
      · subst hd
        simp only [setBal, hne, hne', and_true, if_true, if_false, and_self] at h1 h2 h3 ⊢
        refine ⟨by omega, by omega, ?_⟩
        intro x hx1 hx2
        have := h3 x hx1 hx2
        simpa [hx1, hx2] using this
      · have hd' : ¬ d = e := fun hh => hd hh.symm
        simp only [setBal, hd, hd', and_false, if_false] at h1 h2 h3 ⊢
        refine ⟨by omega, by omega, ?_⟩
        intro x hx1 hx2
        simpa using h3 x hx1 hx2

theorem amountOf_allZero (cs : Coins) (h : cs.all (fun x => x.2 == 0) = true) (d : String) : amountOf cs d = 0 := by
  induction cs with
  | nil => rfl
  | cons x rest ih =>
    simp only [List.all_cons, Bool.and_eq_true, beq_iff_eq] at h
    simp [amountOf, h.1, ih h.2]

/-! ## poor-network and freeze filters -/

/-- a native-token bank send within the configured limit -/
def SmallNativeSend (c : Cfg) (m : Msg) : Prop :=
  ∃ a to, m.kind = .send [(c.native, a)] to ∧ a ≤ c.poorMaxSend ∧ a < two64

/-- what the poor-network filter demands of one message -/
def PoorOk (c : Cfg) (m : Msg) : Prop :=
  if m.msgType = "send" then SmallNativeSend c m else m.msgType ∈ c.poorMsgs

theorem poorLoop_cons (c : Cfg) (m : Msg) (rest : List Msg) :
    poorLoop c (m :: rest) = .ok () ↔ PoorOk c m ∧ poorLoop c rest = .ok () := by
  simp only [poorLoop]
  by_cases hs : m.msgType = "send"
  · simp only [hs, beq_self_eq_true, if_true, PoorOk, SmallNativeSend]
    cases hk : m.kind with
    | other => simp
    | multisend cs to => simp
    | send cs to =>
      cases cs with
      | nil => simp
      | cons x more =>
        obtain ⟨d, a⟩ := x
        simp only []
        by_cases h1 : (!more.isEmpty || d != c.native) = true
        · simp only [h1, if_true]
          constructor
          · intro h; cases h
          · rintro ⟨⟨a', to', heq, _, _⟩, _⟩
            simp only [Kind.send.injEq, List.cons.injEq, Prod.mk.injEq] at heq
            obtain ⟨⟨⟨hd, _⟩, hm⟩, _⟩ := heq
            subst hd; subst hm
            simp at h1
        · simp only [h1, if_false, Bool.false_eq_true]
          simp only [Bool.or_eq_true, Bool.not_eq_true', bne_iff_ne, ne_eq, not_or, Bool.not_eq_false,
            Decidable.not_not] at h1
          obtain ⟨hm, hd⟩ := h1
          have hm' : more = [] := by simpa using hm
          subst hm'; subst hd
          by_cases h2 : a ≥ two64
          · simp only [h2, if_true]
            constructor
            · intro h; cases h
            · rintro ⟨⟨a', to', heq, _, hlt⟩, _⟩
              simp only [Kind.send.injEq, List.cons.injEq, Prod.mk.injEq, true_and, and_true] at heq
              omega
          · simp only [h2, if_false]
            by_cases h3 : a > c.poorMaxSend
            · simp only [h3, if_true]
              constructor
              · intro h; cases h
              · rintro ⟨⟨a', to', heq, hle, _⟩, _⟩
                simp only [Kind.send.injEq, List.cons.injEq, Prod.mk.injEq, true_and, and_true] at heq
                omega
            · simp only [h3, if_false]
              constructor
              · intro h; exact ⟨⟨a, to, rfl, by omega, by omega⟩, h⟩
              · intro h; exact h.2
  · have hs' : (m.msgType == "send") = false := by simpa using hs
    simp only [hs', PoorOk, hs, if_false, Bool.false_eq_true]
    by_cases hc : c.poorMsgs.contains m.msgType = true
    · have : m.msgType ∈ c.poorMsgs := by simpa using hc
      simp [this]
    · have : ¬ m.msgType ∈ c.poorMsgs := by simpa using hc
      simp [this]

theorem poorLoop_ok_iff (c : Cfg) (msgs : List Msg) :
    poorLoop c msgs = .ok () ↔ ∀ m ∈ msgs, PoorOk c m := by
  induction msgs with
  | nil => simp [poorLoop]
  | cons m rest ih =>
    rw [poorLoop_cons, ih]
    simp only [List.mem_cons, forall_eq_or_imp]

theorem bwLoop_ok (c : Cfg) (msgs : List Msg) (h : bwLoop c msgs = .ok ()) :
    ∀ m ∈ msgs, m.msgType = "send" → ∃ cs to, m.kind = .send cs to ∧ ∀ x ∈ cs, frozen c x.1 = false := by
  induction msgs with
  | nil => simp
  | cons m rest ih =>
    simp only [bwLoop] at h
    intro m' hm' hty
    by_cases hs : m.msgType = "send"
    · simp only [hs, beq_self_eq_true, if_true] at h
      cases hk : m.kind with
      | other => simp [hk] at h
      | multisend cs to => simp [hk] at h
      | send cs to =>
        simp only [hk] at h
        split at h
        · cases h
        · rename_i hany
          cases hm' with
          | head =>
            refine ⟨cs, to, hk, ?_⟩
            intro x hx
            cases hfx : frozen c x.1 with
            | false => rfl
            | true => exact absurd (List.any_eq_true.mpr ⟨x, hx, hfx⟩) hany
          | tail _ hm'' => exact ih h m' hm'' hty
    · have hs' : (m.msgType == "send") = false := by simpa using hs
      simp only [hs', Bool.false_eq_true, if_false] at h
      cases hm' with
      | head => exact absurd hty hs
      | tail _ hm'' => exact ih h m' hm'' hty


/-! ## feeprocessing: pay-back loop -/

theorem toI64_le (n : Nat) : toI64 n ≤ (n : Int) := by
  unfold toI64
  have h1 : n % two64 ≤ n := Nat.mod_le _ _
  split <;> omega

theorem bigToI64_le {x : Int} (h : 0 ≤ x) : bigToI64 x ≤ x := by
  unfold bigToI64
  have h64 : (0 : Int) < (two64 : Int) := by unfold two64; omega
  have h1 : 0 ≤ x % (two64 : Int) := Int.emod_nonneg _ (Int.ne_of_gt h64)
  have h2 : x % (two64 : Int) ≤ x := by
    have := Int.emod_add_mul_ediv x (two64 : Int)
    have h3 : 0 ≤ x / (two64 : Int) := Int.ediv_nonneg h (Int.le_of_lt h64)
    have h4 : 0 ≤ (two64 : Int) * (x / (two64 : Int)) := Int.mul_nonneg (Int.le_of_lt h64) h3
    omega
  have h5 := toI64_le (x % (two64 : Int)).toNat
  have h6 : (((x % (two64 : Int)).toNat : Nat) : Int) = x % (two64 : Int) := Int.toNat_of_nonneg h1
  omega

def tripHeld (trip : List (String × Nat × Nat)) : Coins := trip.map (fun x => (x.1, x.2.1))
def tripPaid (trip : List (String × Nat × Nat)) : Coins := trip.filterMap (fun x => if x.2.2 > 0 then some (x.1, x.2.2) else none)
def tripLeft (trip : List (String × Nat × Nat)) : Coins := trip.filterMap (fun x => if x.2.1 - x.2.2 > 0 then some (x.1, x.2.1 - x.2.2) else none)

theorem tripHeld_zero (rest : Coins) : tripHeld (rest.map (fun x => (x.1, x.2, 0))) = rest := by
  induction rest with
  | nil => rfl
  | cons x r ih => simp only [tripHeld, List.map_cons, List.map_map] at ih ⊢; rw [ih]

theorem paybackLoop_held (c : Cfg) (total : Int) (hist : Coins) (filled : Int) (trip : List (String × Nat × Nat))
    (h : paybackLoop c total hist filled = .ok trip) : tripHeld trip = hist := by
  induction hist generalizing filled trip with
  | nil => simp [paybackLoop] at h; subst h; rfl
  | cons x rest ih =>
    obtain ⟨d, a⟩ := x
    simp only [paybackLoop] at h
    have step : ∀ (f : Int) (p : Nat) (tr : List (String × Nat × Nat)),
        (paybackLoop c total rest f).map (fun r => (d, a, p) :: r) = .ok tr → tripHeld tr = (d, a) :: rest := by
      intro f p tr hh
      cases hr : paybackLoop c total rest f with
      | error e => simp [hr, Except.map] at hh
      | ok r =>
        simp only [hr, Except.map, Except.ok.injEq] at hh
        subst hh
        simp only [tripHeld, List.map_cons] at *
        rw [ih f r hr]
    have stop : ∀ (p : Nat) (tr : List (String × Nat × Nat)),
        (Except.ok ((d, a, p) :: rest.map (fun x => (x.1, x.2, 0))) : Except Err _) = .ok tr → tripHeld tr = (d, a) :: rest := by
      intro p tr hh
      simp only [Except.ok.injEq] at hh
      subst hh
      have := tripHeld_zero rest
      simp only [tripHeld, List.map_cons] at *
      rw [this]
    split at h
    · exact step _ _ _ h
    · split at h
      · split at h
        · cases h
        · split at h
          · split at h
            · exact stop _ _ h
            · exact step _ _ _ h
          · split at h
            · exact stop _ _ h
            · exact step _ _ _ h
      · split at h
        · exact stop _ _ h
        · exact step _ _ _ h

theorem trip_conserve (trip : List (String × Nat × Nat)) (h : ∀ x ∈ trip, x.2.2 ≤ x.2.1) (d : String) :
    amountOf (tripPaid trip) d + amountOf (tripLeft trip) d = amountOf (tripHeld trip) d := by
  induction trip with
  | nil => rfl
  | cons x rest ih =>
    obtain ⟨e, hd, pd⟩ := x
    have hx : pd ≤ hd := h (e, hd, pd) (List.mem_cons_self ..)
    have ih' := ih (fun y hy => h y (List.mem_cons_of_mem _ hy))
    simp only [tripPaid, tripLeft, tripHeld, List.filterMap_cons, List.map_cons] at ih' ⊢
    by_cases h1 : pd > 0 <;> by_cases h2 : hd - pd > 0 <;> simp only [h1, h2, if_true, if_false, amountOf] <;>
      (by_cases h3 : e = d <;> simp only [h3, if_true, if_false] <;> omega)


theorem tokenInfo_mem (c : Cfg) (d : String) (t : TokenInfo) (h : tokenInfo? c d = some t) : t ∈ c.tokens :=
  List.mem_of_find?_eq_some h

/-- with non-negative fee rates the pay-back of every history coin is at most what is held of it (so the
`Coins.Sub` in the keeper cannot go negative), and the filled value never exceeds the requested one -/
theorem paybackLoop_paid_le_held (c : Cfg) (hr : ∀ t ∈ c.tokens, 0 ≤ t.rate) (total : Int) (hist : Coins)
    (filled : Int) (hf : filled ≤ total) (trip : List (String × Nat × Nat))
    (h : paybackLoop c total hist filled = .ok trip) : ∀ x ∈ trip, x.2.2 ≤ x.2.1 := by
  induction hist generalizing filled trip with
  | nil => simp [paybackLoop] at h; subst h; simp
  | cons x rest ih =>
    obtain ⟨d, a⟩ := x
    simp only [paybackLoop] at h
    have step : ∀ (f : Int) (p : Nat) (tr : List (String × Nat × Nat)), f ≤ total → p ≤ a →
        (paybackLoop c total rest f).map (fun r => (d, a, p) :: r) = .ok tr → ∀ x ∈ tr, x.2.2 ≤ x.2.1 := by
      intro f p tr hft hp hh
      cases hrr : paybackLoop c total rest f with
      | error e => simp [hrr, Except.map] at hh
      | ok r =>
        simp only [hrr, Except.map, Except.ok.injEq] at hh
        subst hh
        intro x hx
        cases hx with
        | head => exact hp
        | tail _ hx => exact ih f hft r hrr x hx
    have stop : ∀ (p : Nat) (tr : List (String × Nat × Nat)), p ≤ a →
        (Except.ok ((d, a, p) :: rest.map (fun x => (x.1, x.2, 0))) : Except Err _) = .ok tr → ∀ x ∈ tr, x.2.2 ≤ x.2.1 := by
      intro p tr hp hh
      simp only [Except.ok.injEq] at hh
      subst hh
      intro x hx
      cases hx with
      | head => exact hp
      | tail _ hx =>
        obtain ⟨y, _, hy⟩ := List.mem_map.mp hx
        subst hy; exact Nat.zero_le _
    split at h
    · exact step _ _ _ hf (Nat.zero_le _) h
    · rename_i t ht
      have hrate : 0 ≤ t.rate := hr t (tokenInfo_mem c d t ht)
      rw [mul_ofInt_right] at h
      split at h
      · rename_i hgt
        split at h
        · cases h
        · rename_i hne
          have hpos : 0 < t.rate := by omega
          have htf : 0 ≤ total - filled := by omega
          have hx0 : 0 ≤ (total - filled) / t.rate := Int.ediv_nonneg htf hrate
          have hxa : (total - filled) / t.rate < (a : Int) := by
            apply Int.ediv_lt_of_lt_mul hpos
            rw [Int.mul_comm]; exact hgt
          have hq := bigToI64_le hx0
          split at h
          · rename_i hq0
            have hqa : (bigToI64 ((total - filled) / t.rate)).toNat ≤ a := by omega
            rw [mul_ofInt_right] at h
            have hle : t.rate * bigToI64 ((total - filled) / t.rate) ≤ total - filled := by
              have h1 : t.rate * bigToI64 ((total - filled) / t.rate) ≤ t.rate * ((total - filled) / t.rate) :=
                Int.mul_le_mul_of_nonneg_left hq hrate
              have h2 : t.rate * ((total - filled) / t.rate) ≤ total - filled := Int.mul_ediv_self_le hne
              omega
            split at h
            · exact stop _ _ hqa h
            · exact step _ _ _ (by omega) hqa h
          · split at h
            · exact stop _ _ (Nat.zero_le _) h
            · exact step _ _ _ hf (Nat.zero_le _) h
      · rename_i hle
        have hle' : t.rate * (a : Int) ≤ total - filled := Int.not_lt.mp hle
        split at h
        · exact stop _ _ (Nat.le_refl _) h
        · exact step _ _ _ (by omega) (Nat.le_refl _) h

end Sekai.Lemmas.Ante
