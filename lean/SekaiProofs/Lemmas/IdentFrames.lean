import SekaiProofs.Lemmas.Ident
/-! Frames: which keeper functions leave the record side / the request side of the registry untouched. -/
namespace Sekai.Ident

/-- the record side is untouched -/
structure RecFrame (S S' : State) : Prop where
  records : S'.records = S.records
  idx : S'.idx = S.idx
  lastRecordId : S'.lastRecordId = S.lastRecordId
  uniqueKeys : S'.uniqueKeys = S.uniqueKeys

/-- the request side and the bank are untouched -/
structure ReqFrame (S S' : State) : Prop where
  reqs : S'.reqs = S.reqs
  byReq : S'.byReq = S.byReq
  byApp : S'.byApp = S.byApp
  lastReqId : S'.lastReqId = S.lastReqId
  escrow : S'.escrow = S.escrow
  bal : S'.bal = S.bal
  uniqueKeys : S'.uniqueKeys = S.uniqueKeys

theorem RecFrame.refl (S : State) : RecFrame S S := ⟨rfl, rfl, rfl, rfl⟩
theorem RecFrame.trans {A B C : State} (h1 : RecFrame A B) (h2 : RecFrame B C) : RecFrame A C :=
  ⟨h2.records.trans h1.records, h2.idx.trans h1.idx, h2.lastRecordId.trans h1.lastRecordId, h2.uniqueKeys.trans h1.uniqueKeys⟩
theorem ReqFrame.refl (S : State) : ReqFrame S S := ⟨rfl, rfl, rfl, rfl, rfl, rfl, rfl⟩
theorem ReqFrame.trans {A B C : State} (h1 : ReqFrame A B) (h2 : ReqFrame B C) : ReqFrame A C :=
  ⟨h2.reqs.trans h1.reqs, h2.byReq.trans h1.byReq, h2.byApp.trans h1.byApp, h2.lastReqId.trans h1.lastReqId,
   h2.escrow.trans h1.escrow, h2.bal.trans h1.bal, h2.uniqueKeys.trans h1.uniqueKeys⟩

theorem RecFrame.getRec {S S' : State} (h : RecFrame S S') (id : Nat) : getRec S' id = getRec S id :=
  getRec_congr h.records id
theorem ReqFrame.getReq {S S' : State} (h : ReqFrame S S') (id : Nat) : getReq S' id = getReq S id :=
  getReq_congr h.reqs id

theorem sendFromGov_recFrame {S S' : State} {a d n : Nat} (h : sendFromGov S a d n = some S') : RecFrame S S' := by
  unfold sendFromGov at h
  split at h
  · cases h
  · cases h; exact ⟨rfl, rfl, rfl, rfl⟩

theorem sendToGov_recFrame {S S' : State} {a d n : Nat} (h : sendToGov S a d n = some S') : RecFrame S S' := by
  unfold sendToGov at h
  split at h
  · cases h
  · cases h; exact ⟨rfl, rfl, rfl, rfl⟩

theorem deleteReq_recFrame (S : State) (id : Nat) : RecFrame S (deleteReq S id) := ⟨by simp, by simp, by simp, by simp⟩
theorem setReq_recFrame (S : State) (q : Request) : RecFrame S (setReq S q) := ⟨rfl, rfl, rfl, rfl⟩

/-- what a successful `CancelIdentityRecordsVerifyRequest` did -/
theorem cancelReq_some {S S' : State} {a id : Nat} (h : cancelReq S a id = some S') :
    ∃ q S1, getReq S id = some q ∧ q.addr = a ∧
      ((q.amount ≠ 0 ∧ sendFromGov S a q.denom q.amount = some S1) ∨ (q.amount = 0 ∧ S1 = S)) ∧
      S' = deleteReq S1 id := by
  unfold cancelReq at h
  split at h
  · cases h
  · rename_i q hq
    split at h
    · cases h
    · rename_i hex
      have hadr : a = q.addr := by simpa using hex
      split at h
      · cases h
      · rename_i S1 hS1
        cases h
        refine ⟨q, S1, hq, hadr.symm, ?_, rfl⟩
        by_cases h0 : q.amount = 0
        · right; simp [h0] at hS1; exact ⟨h0, hS1.symm⟩
        · left; simp [h0] at hS1; rw [hadr]; exact ⟨h0, hS1⟩

theorem cancelReq_recFrame {S S' : State} {a id : Nat} (h : cancelReq S a id = some S') : RecFrame S S' := by
  obtain ⟨q, S1, _, _, hpay, rfl⟩ := cancelReq_some h
  rcases hpay with ⟨_, hs⟩ | ⟨_, rfl⟩
  · exact (sendFromGov_recFrame hs).trans (deleteReq_recFrame _ _)
  · exact deleteReq_recFrame _ _

theorem cancelInvalidLoop_recFrame {a : Nat} {ids : List Nat} (rids : List Nat) {S S' : State}
    (h : cancelInvalidLoop a ids rids S = some S') : RecFrame S S' := by
  induction rids generalizing S with
  | nil => simp [cancelInvalidLoop] at h; subst h; exact RecFrame.refl _
  | cons rid rest ih =>
    unfold cancelInvalidLoop at h
    split at h
    · cases h
    · split at h
      · split at h
        · cases h
        · rename_i S1 hc
          exact (cancelReq_recFrame hc).trans (ih h)
      · exact ih h

theorem cancelInvalid_recFrame {S S' : State} {a : Nat} {ids : List Nat}
    (h : cancelInvalid S a ids = some S') : RecFrame S S' :=
  cancelInvalidLoop_recFrame _ h

theorem putRecord_reqFrame (S : State) (r : Record) : ReqFrame S (putRecord S r) := ⟨rfl, rfl, rfl, rfl, rfl, rfl, rfl⟩
theorem delete_reqFrame (S : State) (d : Nat) : ReqFrame S (deleteRecordById S d) :=
  ⟨by simp, by simp, by simp, by simp, by simp, by simp, by simp⟩

theorem setRecord_reqFrame {S S' : State} {r : Record} (h : setRecord S r = some S') : ReqFrame S S' := by
  obtain ⟨_, _, rfl⟩ := setRecord_some h
  exact putRecord_reqFrame S r

theorem regApply_reqFrame {a : Nat} (infos : List Info) {S S' : State} {aff aff' : List Nat}
    (h : regApply a infos S aff = some (S', aff')) : ReqFrame S S' := by
  induction infos generalizing S aff with
  | nil => simp [regApply] at h; rw [h.1]; exact ReqFrame.refl _
  | cons i rest ih =>
    unfold regApply at h
    simp only at h
    split at h
    · split at h
      · cases h
      · rename_i S2 hs
        have f1 : ReqFrame S { S with lastRecordId := S.lastRecordId + 1 } := ⟨rfl, rfl, rfl, rfl, rfl, rfl, rfl⟩
        exact (f1.trans (setRecord_reqFrame hs)).trans (ih h)
    · split at h
      · cases h
      · rename_i S2 hs
        exact (setRecord_reqFrame hs).trans (ih h)

theorem deleteLoop_reqFrame (ids : List Nat) {S S' : State} (h : deleteLoop ids S = some S') : ReqFrame S S' := by
  induction ids generalizing S with
  | nil => simp [deleteLoop] at h; subst h; exact ReqFrame.refl _
  | cons id rest ih =>
    unfold deleteLoop at h
    split at h
    · cases h
    · exact (delete_reqFrame S id).trans (ih h)

theorem approveLoop_reqFrame {v : Nat} (ids : List Nat) {S S' : State} (h : approveLoop v ids S = some S') : ReqFrame S S' := by
  induction ids generalizing S with
  | nil => simp [approveLoop] at h; subst h; exact ReqFrame.refl _
  | cons id rest ih =>
    unfold approveLoop at h
    split at h
    · cases h
    · split at h
      · exact ih h
      · split at h
        · cases h
        · rename_i S1 hs
          exact (setRecord_reqFrame hs).trans (ih h)

theorem moveRecords_reqFrame {new : Nat} (recs : List Record) {S S' : State} (h : moveRecords new recs S = some S') : ReqFrame S S' := by
  induction recs generalizing S with
  | nil => simp [moveRecords] at h; subst h; exact ReqFrame.refl _
  | cons r rest ih =>
    unfold moveRecords at h
    split at h
    · cases h
    · rename_i S1 hs
      exact ((delete_reqFrame S r.id).trans (setRecord_reqFrame hs)).trans (ih h)

theorem moveReqs_recFrame (f : Request → Request) (qs : List Request) (S : State) : RecFrame S (moveReqs f qs S) := by
  induction qs generalizing S with
  | nil => exact RecFrame.refl _
  | cons q rest ih =>
    unfold moveReqs
    exact ((deleteReq_recFrame S q.id).trans (setReq_recFrame _ _)).trans (ih _)

theorem ite_none_some {α : Type} {c : Prop} [Decidable c] {x : Option α} {y : α}
    (h : (if c then none else x) = some y) : x = some y := by
  split at h
  · cases h
  · exact h

theorem claimValidator_some {S S' : State} {a : Nat} {m : String} (hc : claimValidator S a m = some S') :
    registerRecords S a [⟨"moniker", trimSpaces m⟩] = some S' := by
  unfold claimValidator at hc
  exact ite_none_some (ite_none_some (ite_none_some hc))

theorem claimCouncilor_some {S S' : State} {a : Nat} {fs : List String} (hc : claimCouncilor S a fs = some S') :
    registerRecords { S with councilors := if S.councilors.contains a then S.councilors else a :: S.councilors } a
      (((councilorKeys.zip fs).filter (fun kv => kv.2 != "")).map (fun kv => (⟨kv.1, kv.2⟩ : Info))) = some S' := by
  unfold claimCouncilor at hc
  exact ite_none_some hc

end Sekai.Ident
