import Sekai.Model.Keys
/-! Keys built on prefixes that are apart differ, whatever follows the prefix. -/
namespace Sekai.Keys

theorem keys_of_apart_prefixes_differ {α : Type} [BEq α] [LawfulBEq α] (p q x y : List α) (h : apart p q = true) :
    p ++ x ≠ q ++ y := by
  intro e
  simp only [apart, Bool.and_eq_true, Bool.not_eq_true'] at h
  rcases List.append_eq_append_iff.mp e with ⟨a, hq, _⟩ | ⟨c, hp, _⟩
  · have : p.isPrefixOf q = true := by rw [hq]; exact List.isPrefixOf_iff_prefix.mpr (List.prefix_append p a)
    simp [this] at h
  · have : q.isPrefixOf p = true := by rw [hp]; exact List.isPrefixOf_iff_prefix.mpr (List.prefix_append q c)
    simp [this] at h

/-- an empty clash list puts every two differently named rows apart -/
theorem apart_of_no_clash (rows : List (String × List Nat)) (h : clashes rows = [])
    (a b : String × List Nat) (ha : a ∈ rows) (hb : b ∈ rows) (hn : a.1 ≠ b.1) : apart a.2 b.2 = true := by
  have key : ∀ a b : String × List Nat, a ∈ rows → b ∈ rows → a.1 ≠ b.1 → a.2.isPrefixOf b.2 = false := by
    intro a b ha hb hn
    cases hp : a.2.isPrefixOf b.2 with
    | false => rfl
    | true =>
      have : (a.1, b.1) ∈ clashes rows := by
        unfold clashes
        refine List.mem_flatMap.mpr ⟨a, ha, List.mem_map.mpr ⟨b, List.mem_filter.mpr ⟨hb, ?_⟩, rfl⟩⟩
        simp [hp, hn]
      rw [h] at this
      cases this
  simp [apart, key a b ha hb hn, key b a hb ha (Ne.symm hn)]

/-- **two keys of one module filed under differently named prefixes never coincide**, once the module's clash list is empty -/
theorem keys_of_different_kinds_differ (rows : List (String × List Nat)) (h : clashes rows = [])
    (a b : String × List Nat) (ha : a ∈ rows) (hb : b ∈ rows) (hn : a.1 ≠ b.1) (x y : List Nat) :
    a.2 ++ x ≠ b.2 ++ y :=
  keys_of_apart_prefixes_differ a.2 b.2 x y (apart_of_no_clash rows h a b ha hb hn)

end Sekai.Keys
