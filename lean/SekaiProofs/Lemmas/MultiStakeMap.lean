import Sekai.Model.Distr
/-! Lemmas about the additive association lists and the bank of `Sekai.Model.MultiStake` (core Lean only). -/
namespace Sekai.MultiStake
open Sekai

namespace AMap
variable {K : Type} [DecidableEq K]

@[simp] theorem get_nil (k : K) : get ([] : AMap K) k = 0 := rfl

theorem get_cons (k' : K) (n : Nat) (r : AMap K) (k : K) :
    get ((k', n) :: r) k = (if k' = k then n else 0) + get r k := rfl

theorem get_append (a b : AMap K) (k : K) : get (a ++ b) k = get a k + get b k := by
  induction a with
  | nil => simp
  | cons x r ih => obtain ⟨k', n⟩ := x; simp [get_cons, ih]; omega

theorem get_add1 (m : AMap K) (k k' : K) (n : Nat) :
    get (add1 m k n) k' = get m k' + (if k = k' then n else 0) := by
  induction m with
  | nil => simp [add1, get_cons]
  | cons x r ih =>
    obtain ⟨k0, m0⟩ := x
    unfold add1
    by_cases h : k0 = k
    · subst h; simp only [if_true, get_cons]; split <;> omega
    · simp only [h, if_false, get_cons, ih]; omega

theorem get_addAll (m kvs : AMap K) (k : K) : get (addAll m kvs) k = get m k + get kvs k := by
  induction kvs generalizing m with
  | nil => simp [addAll]
  | cons x r ih =>
    obtain ⟨k0, n0⟩ := x
    simp only [addAll, ih, get_add1, get_cons]; omega

theorem get_take (m : AMap K) (k k' : K) (n : Nat) (h : n ≤ get m k) :
    get (take m k n) k' = get m k' - (if k = k' then n else 0) := by
  induction m generalizing n with
  | nil => simp [take]
  | cons x r ih =>
    obtain ⟨k0, m0⟩ := x
    unfold take
    by_cases hk : k0 = k
    · subst hk
      simp only [if_true, get_cons] at h ⊢
      have := ih (n - m0) (by omega)
      rw [this]
      split <;> omega
    · simp only [hk, if_false, get_cons] at h ⊢
      have := ih n (by omega)
      rw [this]
      by_cases hk' : k0 = k'
      · have : ¬ k = k' := fun e => hk (by rw [hk', e])
        simp [this]
      · simp [hk']

theorem get_sub1 {m m' : AMap K} {k : K} {n : Nat} (h : sub1? m k n = some m') (k' : K) :
    get m' k' + (if k = k' then n else 0) = get m k' := by
  unfold sub1? at h
  split at h
  · cases h
  · rename_i hlt
    cases h
    rw [get_take _ _ _ _ (by omega)]
    split
    · rename_i e; subst e; omega
    · omega

theorem get_subAll {m m' kvs : AMap K} (h : subAll? m kvs = some m') (k : K) :
    get m' k + get kvs k = get m k := by
  induction kvs generalizing m with
  | nil => simp [subAll?] at h; subst h; simp
  | cons x r ih =>
    obtain ⟨k0, n0⟩ := x
    unfold subAll? at h
    split at h
    · cases h
    · rename_i m1 h1
      have := ih h
      have h2 := get_sub1 h1 k
      simp only [get_cons]; omega

/-- `Coins.Sub` / `subUnlockedCoins` succeed as soon as every key is covered -/
theorem subAll_of_ge (m kvs : AMap K) (h : ∀ k, get kvs k ≤ get m k) : ∃ m', subAll? m kvs = some m' := by
  induction kvs generalizing m with
  | nil => exact ⟨m, rfl⟩
  | cons x r ih =>
    obtain ⟨k0, n0⟩ := x
    have h0 := h k0
    simp only [get_cons, if_true] at h0
    have hs : sub1? m k0 n0 = some (take m k0 n0) := by
      unfold sub1?
      rw [if_neg (by omega)]
    have hr : ∀ k, get r k ≤ get (take m k0 n0) k := by
      intro k
      have := h k
      simp only [get_cons] at this
      rw [get_take _ _ _ _ (by omega)]
      by_cases hk : k0 = k
      · simp only [hk, if_true] at this ⊢; omega
      · simp only [hk, if_false] at this ⊢; omega
    obtain ⟨m', hm'⟩ := ih (take m k0 n0) hr
    exact ⟨m', by unfold subAll?; rw [hs]; exact hm'⟩

theorem get_filter_ne (m : AMap K) (k0 k : K) (h : k ≠ k0) :
    get (m.filter (fun kv => kv.1 ≠ k0)) k = get m k := by
  induction m with
  | nil => rfl
  | cons x r ih =>
    obtain ⟨k1, n1⟩ := x
    by_cases h1 : k1 = k0
    · subst h1
      have h2 : ¬ k1 = k := fun e => h e.symm
      rw [List.filter_cons_of_neg (by simp), ih, get_cons]
      simp [h2]
    · rw [List.filter_cons_of_pos (by simp [h1]), get_cons, get_cons, ih]

theorem get_filter_eq (m : AMap K) (k0 : K) :
    get (m.filter (fun kv => kv.1 ≠ k0)) k0 = 0 := by
  induction m with
  | nil => rfl
  | cons x r ih =>
    obtain ⟨k1, n1⟩ := x
    by_cases h1 : k1 = k0
    · rw [List.filter_cons_of_neg (by simp [h1]), ih]
    · rw [List.filter_cons_of_pos (by simp [h1]), get_cons, ih]
      simp [h1]

theorem get_filter_ne' (m : AMap K) (k0 k : K) (h : k ≠ k0) :
    get (m.filter (fun kv => !decide (kv.1 = k0))) k = get m k := by
  have := get_filter_ne m k0 k h
  simpa using this

theorem get_filter_eq' (m : AMap K) (k0 : K) :
    get (m.filter (fun kv => !decide (kv.1 = k0))) k0 = 0 := by
  have := get_filter_eq m k0
  simpa using this

theorem get_nz (m : AMap K) (k : K) : get (nz m) k = get m k := by
  induction m with
  | nil => rfl
  | cons x r ih =>
    obtain ⟨k1, n1⟩ := x
    unfold nz at ih ⊢
    by_cases h : n1 = 0
    · subst h
      rw [List.filter_cons_of_neg (by simp), ih, get_cons]; simp
    · rw [List.filter_cons_of_pos (by simp [h]), get_cons, get_cons, ih]

end AMap

/-! ## bank -/
open AMap

theorem get_keyed (a a' : Acct) (c : Coins) (d : Denom) :
    get (keyed a c) (a', d) = if a = a' then get c d else 0 := by
  induction c with
  | nil => simp [keyed]
  | cons x r ih =>
    obtain ⟨d0, n0⟩ := x
    simp only [keyed, get_cons, ih]
    by_cases ha : a = a'
    · subst ha; by_cases hd : d0 = d <;> simp [hd]
    · have : ¬ ((a, d0) = (a', d)) := fun e => ha (by injection e)
      simp [ha, this]

namespace Bank

theorem send_supply {b b' : Bank} {src dst : Acct} {c : Coins} (h : b.send src dst c = some b') :
    b'.supply = b.supply := by
  unfold send at h
  split at h
  · cases h
  · cases h; rfl

theorem send_bal {b b' : Bank} {src dst : Acct} {c : Coins} (h : b.send src dst c = some b') (a : Acct) (d : Denom) :
    b'.balance a d + (if src = a then get c d else 0) = b.balance a d + (if dst = a then get c d else 0) := by
  unfold send at h
  split at h
  · cases h
  · rename_i bal' h1
    cases h
    have h2 := get_subAll h1 (a, d)
    simp only [balance, get_addAll, get_keyed] at h2 ⊢
    omega

theorem send_of_ge (b : Bank) (src dst : Acct) (c : Coins) (h : ∀ d, get c d ≤ b.balance src d) :
    ∃ b', b.send src dst c = some b' := by
  have : ∀ k, get (keyed src c) k ≤ get b.bal k := by
    intro k
    obtain ⟨a, d⟩ := k
    rw [get_keyed]
    split
    · rename_i e; subst e; exact h d
    · exact Nat.zero_le _
  obtain ⟨m', hm'⟩ := subAll_of_ge b.bal (keyed src c) this
  exact ⟨_, by unfold send; rw [hm']⟩

theorem mint_supply (b : Bank) (dst : Acct) (c : Coins) (d : Denom) :
    get (b.mint dst c).supply d = get b.supply d + get c d := by
  simp [mint, get_addAll]

theorem mint_bal (b : Bank) (dst : Acct) (c : Coins) (a : Acct) (d : Denom) :
    (b.mint dst c).balance a d = b.balance a d + (if dst = a then get c d else 0) := by
  simp [mint, balance, get_addAll, get_keyed]

theorem burn_supply {b b' : Bank} {src : Acct} {c : Coins} (h : b.burn src c = some b') (d : Denom) :
    get b'.supply d + get c d = get b.supply d := by
  unfold burn at h
  split at h
  · cases h
  · split at h
    · cases h
    · rename_i sup' h2
      cases h
      exact get_subAll h2 d

theorem burn_bal {b b' : Bank} {src : Acct} {c : Coins} (h : b.burn src c = some b') (a : Acct) (d : Denom) :
    b'.balance a d + (if src = a then get c d else 0) = b.balance a d := by
  unfold burn at h
  split at h
  · cases h
  · rename_i bal' h1
    split at h
    · cases h
    · cases h
      have := get_subAll h1 (a, d)
      simp only [balance, get_keyed] at this ⊢
      exact this

end Bank
end Sekai.MultiStake
