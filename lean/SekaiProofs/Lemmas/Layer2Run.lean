import SekaiProofs.Lemmas.Layer2GoodEnd
/-! C20: the combined invariant along runs of message-level operations; refund-in-full; LP arithmetic. -/
namespace Sekai.Layer2

/-- executable form of `PrefixFree` -/
def prefixFreeB (s : St) : Bool :=
  s.dapps.all fun d => s.bonds.all fun b => !(d.name.isPrefixOf (bondKey s.addr b)) || decide (b.dapp = d.name)

theorem prefixFree_of_B {s : St} (h : prefixFreeB s = true) : PrefixFree s := by
  intro n hn b hb hp
  obtain ⟨d, hd, rfl⟩ := List.mem_map.mp hn
  unfold prefixFreeB at h
  have h1 := List.all_eq_true.mp h d hd
  have h2 := List.all_eq_true.mp h1 b hb
  simp only [hp, Bool.not_true, Bool.false_or, decide_eq_true_eq] at h2
  exact h2

/-- the decidable exclusion of the known defects: what an operation must satisfy in the state where it runs -/
def opOk (s : St) : Op → Bool
  | .create _ _ perm _ _ amt => !perm || decide (0 ≤ amt)     -- KF: negative bond recorded (permissioned creator)
  | .endBlock _ => prefixFreeB s                              -- KF: name-prefix collision in the refund scan
  | .upsert _ => false                                        -- KF: UpsertDapp proposal overwrites TotalBond
  | _ => true

def SafeRun (s : St) : List Op → Prop
  | [] => True
  | op :: rest => opOk s op = true ∧ SafeRun (step s op) rest

theorem good_apply {s s' : St} {op : Op} (hG : Good s) (hnl : NativeNotLp s.P) (hop : opOk s op = true) (h : apply s op = .ok s') : Good s' := by
  cases op with
  | create t u perm d den amt =>
    refine good_create hG (fun hp => ?_) h
    simpa [opOk, hp] using hop
  | bond u name den amt => exact good_bond hG h
  | reclaim u name den amt => exact good_reclaim hG h
  | endBlock t => exact good_endBlock hG hnl (prefixFree_of_B hop) h
  | upsert p => cases hop
  | msgRedeem name lpDen => obtain ⟨e, he⟩ := msgRedeem_error s name lpDen; simp [apply, he] at h
  | msgSwap name => obtain ⟨e, he⟩ := msgSwap_error s name; simp [apply, he] at h
  | msgConvert name => obtain ⟨e, he⟩ := msgConvert_error s name; simp [apply, he] at h
  | xfer src dst den amt =>
    simp only [apply] at h
    split at h
    · rename_i bk hbk
      cases h
      refine ⟨hG.books, hG.ledger, ?_⟩
      have hH := hG.held
      unfold Held at hH ⊢
      simp only
      by_cases hden : den = s.P.native
      · subst hden
        have hsd : src ≠ dst ∨ src = dst := by omega
        obtain ⟨_, _, _, rfl⟩ := send_some hbk
        simp only [addBal_bal]
        simp
        exact hH
      · rw [send_other_denom hbk _ _ (Ne.symm hden)]; exact hH
    · cases h

theorem good_run (ops : List Op) {s : St} (hG : Good s) (hnl : NativeNotLp s.P) (hs : SafeRun s ops) : Good (run s ops) := by
  induction ops generalizing s with
  | nil => exact hG
  | cons op rest ih =>
    obtain ⟨hop, hrest⟩ := hs
    have hstep : Good (step s op) := by
      unfold step
      split
      · rename_i s' h; exact good_apply hG hnl hop h
      · exact hG
    exact ih hstep ((step_frame s op).1 ▸ hnl) hrest

theorem good_genesis (P : Params) (addr : Nat → Bytes) (bal : Acct → Bytes → Int) (h : 0 ≤ bal .l2 P.native) : Good (genesis P addr bal) := by
  refine ⟨⟨?_, ?_, ?_, ?_, ?_⟩, ?_, ?_⟩
  · simp [genesis, keys]
  · intro b hb; cases hb
  · simp [genesis, names]
  · intro d hd; cases hd
  · intro d hd; cases hd
  · intro n u; rfl
  · exact h

end Sekai.Layer2
