import SekaiProofs.Lemmas.F32Rhe
/-! `ilog2_spec` (⌊log₂ x⌋ is what `ilog2` computes) and `norm_range` (the scaled significand lies in [2^23, 2^24)) -/

namespace Sekai.F32

theorem pow2_succ (d : ℤ) : pow2 (d + 1) = 2 * pow2 d := by
  rw [pow2_add]; simp [pow2_eq]; ring

theorem pow2_pred (d : ℤ) : pow2 (d - 1) = pow2 d / 2 := by
  have := pow2_succ (d - 1)
  simp at this
  rw [this]; ring

theorem pow2_natCast (n : ℕ) : pow2 (n : ℤ) = ((2 ^ n : ℕ) : ℚ) := by
  rw [pow2_eq, zpow_natCast]; push_cast; rfl

/-- spec of ilog2 -/
theorem ilog2_spec (x : ℚ) (hx : 0 < x) : pow2 (ilog2 x) ≤ x ∧ x < pow2 (ilog2 x + 1) := by
  have hnum : 0 < x.num := Rat.num_pos.mpr hx
  have hden : 0 < x.den := x.den_pos
  set p := x.num.toNat with hp
  set q := x.den with hq
  have hp0 : p ≠ 0 := by
    intro h
    have : (p : ℤ) = x.num := Int.toNat_of_nonneg (le_of_lt hnum)
    omega
  have hq0 : q ≠ 0 := by omega
  have hxpq : x = (p : ℚ) / (q : ℚ) := by
    have h1 : ((p : ℤ) : ℚ) = (x.num : ℚ) := by
      have : (p : ℤ) = x.num := Int.toNat_of_nonneg (le_of_lt hnum)
      exact_mod_cast congrArg (Int.cast : ℤ → ℚ) this
    have h2 : (p : ℚ) = (x.num : ℚ) := by exact_mod_cast h1
    rw [h2]
    exact (Rat.num_div_den x).symm
  -- bounds on p, q by log2
  have pa1 : 2 ^ p.log2 ≤ p := Nat.log2_self_le hp0
  have pa2 : p < 2 ^ (p.log2 + 1) := Nat.lt_log2_self
  have qb1 : 2 ^ q.log2 ≤ q := Nat.log2_self_le hq0
  have qb2 : q < 2 ^ (q.log2 + 1) := Nat.lt_log2_self
  have qpos : (0 : ℚ) < q := by exact_mod_cast hden
  set d : ℤ := (p.log2 : ℤ) - (q.log2 : ℤ) with hd
  -- x > 2^(d-1) and x < 2^(d+1)
  have hA : pow2 (p.log2 : ℤ) ≤ (p : ℚ) := by rw [pow2_natCast]; exact_mod_cast pa1
  have hA' : (p : ℚ) < 2 * pow2 (p.log2 : ℤ) := by
    rw [pow2_natCast]
    have : (p : ℚ) < ((2 ^ (p.log2 + 1) : ℕ) : ℚ) := by exact_mod_cast pa2
    rw [pow_succ] at this; push_cast at this ⊢; linarith
  have hB : pow2 (q.log2 : ℤ) ≤ (q : ℚ) := by rw [pow2_natCast]; exact_mod_cast qb1
  have hB' : (q : ℚ) < 2 * pow2 (q.log2 : ℤ) := by
    rw [pow2_natCast]
    have : (q : ℚ) < ((2 ^ (q.log2 + 1) : ℕ) : ℚ) := by exact_mod_cast qb2
    rw [pow_succ] at this; push_cast at this ⊢; linarith
  have hPa := pow2_pos (p.log2 : ℤ)
  have hPb := pow2_pos (q.log2 : ℤ)
  have hdsplit : pow2 (p.log2 : ℤ) = pow2 d * pow2 (q.log2 : ℤ) := by
    rw [← pow2_add]; congr 1; omega
  have hPd := pow2_pos d
  have hlow : pow2 d / 2 < x := by
    rw [hxpq, div_lt_div_iff₀ (by norm_num) qpos]
    -- pow2 d * q < p * 2 ; q < 2*2^b, p ≥ 2^a = 2^d 2^b
    nlinarith
  have hup : x < 2 * pow2 d := by
    rw [hxpq, div_lt_iff₀ qpos]
    nlinarith
  unfold ilog2
  simp only
  rw [← hp, ← hq, ← hd]
  split
  · rename_i h1
    refine ⟨?_, ?_⟩
    · rw [pow2_pred]; exact le_of_lt hlow
    · have : d - 1 + 1 = d := by ring
      rw [this]; exact h1
  · rename_i h1
    split
    · rename_i h2
      exfalso
      rw [pow2_succ] at h2; linarith
    · rename_i h2
      exact ⟨not_lt.mp h1, not_le.mp h2⟩

/-- normalisation: y = x * 2^k lies in [2^23, 2^24) -/
theorem norm_range (x : ℚ) (hx : 0 < x) :
    (2:ℚ)^23 ≤ x * pow2 (23 - ilog2 x) ∧ x * pow2 (23 - ilog2 x) < (2:ℚ)^24 := by
  obtain ⟨h1, h2⟩ := ilog2_spec x hx
  have e1 : pow2 (23 - ilog2 x) * pow2 (ilog2 x) = (2:ℚ)^23 := by
    rw [← pow2_add]; have : 23 - ilog2 x + ilog2 x = 23 := by ring
    rw [this, pow2_eq]; norm_num
  have e2 : pow2 (23 - ilog2 x) * pow2 (ilog2 x + 1) = (2:ℚ)^24 := by
    rw [← pow2_add]; have : 23 - ilog2 x + (ilog2 x + 1) = 24 := by ring
    rw [this, pow2_eq]; norm_num
  have hk := pow2_pos (23 - ilog2 x)
  constructor
  · rw [← e1]; nlinarith
  · rw [← e2]; nlinarith
end Sekai.F32
