import SekaiProofs.Lemmas.Layer2
/-! C20: what each modelled operation does to the stores, the bank and the ghost ledger (inversion lemmas). -/
namespace Sekai.Layer2

/-! ### bank -/

theorem addBal_bal (b : Bank) (a : Acct) (den : Bytes) (x : Int) (a' : Acct) (d' : Bytes) :
    (b.addBal a den x).bal a' d' = if a' = a ∧ d' = den then b.bal a' d' + x else b.bal a' d' := rfl

theorem send_some {b b' : Bank} {src dst : Acct} {den : Bytes} {amt : Int} (h : b.send src dst den amt = some b') :
    validDenom den = true ∧ 0 < amt ∧ amt ≤ b.bal src den ∧ b' = (b.addBal src den (-amt)).addBal dst den amt := by
  unfold Bank.send at h
  split at h
  · rename_i hc
    exact ⟨hc.1, hc.2.1, hc.2.2, (Option.some.inj h).symm⟩
  · cases h

/-- a send leaves every other denom alone -/
theorem send_other_denom {b b' : Bank} {src dst : Acct} {den : Bytes} {amt : Int} (h : b.send src dst den amt = some b')
    (a : Acct) (d' : Bytes) (hd : d' ≠ den) : b'.bal a d' = b.bal a d' := by
  obtain ⟨_, _, _, rfl⟩ := send_some h
  simp [addBal_bal, hd]

theorem send_supply {b b' : Bank} {src dst : Acct} {den : Bytes} {amt : Int} (h : b.send src dst den amt = some b') :
    b'.supply = b.supply ∧ b'.tokReg = b.tokReg := by
  obtain ⟨_, _, _, rfl⟩ := send_some h
  exact ⟨rfl, rfl⟩

theorem send_bal_src {b b' : Bank} {src dst : Acct} {den : Bytes} {amt : Int} (h : b.send src dst den amt = some b') (hne : src ≠ dst) :
    b'.bal src den = b.bal src den - amt ∧ b'.bal dst den = b.bal dst den + amt ∧
    ∀ a, a ≠ src → a ≠ dst → b'.bal a den = b.bal a den := by
  obtain ⟨_, _, _, rfl⟩ := send_some h
  refine ⟨?_, ?_, ?_⟩
  · simp [addBal_bal, hne]; omega
  · simp [addBal_bal, Ne.symm hne]
  · intro a h1 h2; simp [addBal_bal, h1, h2]

theorem tkMint_some {b b' : Bank} {den : Bytes} {amt : Int} (h : b.tkMint den amt = some b') :
    0 < amt ∧ (∀ a d', d' ≠ den → b'.bal a d' = b.bal a d') := by
  unfold Bank.tkMint at h
  split at h
  · rename_i hc
    refine ⟨hc.2, ?_⟩
    intro a d' hd
    rw [← Option.some.inj h]
    simp [addBal_bal, hd]
  · cases h

theorem tkBurn_some {b b' : Bank} {den : Bytes} {amt : Int} (h : b.tkBurn den amt = some b') :
    0 < amt ∧ amt ≤ b.bal .l2 den ∧ b'.bal .l2 den = b.bal .l2 den - amt ∧
    (∀ a d', (a ≠ .l2 ∨ d' ≠ den) → b'.bal a d' = b.bal a d') ∧
    b'.supply (den) = b.supply den - amt ∧ (∀ d', d' ≠ den → b'.supply d' = b.supply d') := by
  unfold Bank.tkBurn at h
  split at h
  · rename_i hc
    rw [← Option.some.inj h]
    refine ⟨hc.2.2.1, hc.2.2.2, ?_, ?_, ?_, ?_⟩
    · simp [addBal_bal]; omega
    · intro a d' hd
      rcases hd with hd | hd <;> simp [addBal_bal, hd]
    · simp
    · intro d' hd; simp [hd]
  · cases h

/-! ### escrow -/

theorem escrowIn_some {s s1 : St} {u : Nat} {n den : Bytes} {amt : Int} (h : s.escrowIn u n den amt = some s1) :
    ∃ b, s.bank.send (.user u) .l2 den amt = some b ∧
      s1 = { s with bank := b, ledger := fun m v => if m = n ∧ v = u then s.ledger m v + amt else s.ledger m v } := by
  unfold St.escrowIn at h
  split at h
  · rename_i b hb
    exact ⟨b, hb, (Option.some.inj h).symm⟩
  · cases h

theorem escrowOut_some {s s1 : St} {u : Nat} {n den : Bytes} {amt : Int} (h : s.escrowOut u n den amt = some s1) :
    ∃ b, s.bank.send .l2 (.user u) den amt = some b ∧
      s1 = { s with bank := b, ledger := fun m v => if m = n ∧ v = u then s.ledger m v - amt else s.ledger m v } := by
  unfold St.escrowOut at h
  split at h
  · rename_i b hb
    exact ⟨b, hb, (Option.some.inj h).symm⟩
  · cases h

/-! ### bulk deletion of user bonds -/

def keepP (name : Bytes) (l : List UBond) (x : UBond) : Bool := !(decide (x.dapp = name) && l.any (fun b => decide (b.user = x.user)))

theorem delBondsOf_eq_filter (bs : List UBond) (name : Bytes) (l : List UBond) : delBondsOf bs name l = bs.filter (keepP name l) := by
  induction l generalizing bs with
  | nil =>
    unfold delBondsOf
    symm
    rw [List.filter_eq_self]
    intro a _
    simp [keepP]
  | cons b rest ih =>
    unfold delBondsOf
    rw [ih, delBond, List.filter_filter]
    apply List.filter_congr
    intro x _
    simp only [keepP, List.any_cons]
    by_cases h1 : x.dapp = name <;> by_cases h2 : b.user = x.user <;> simp [h1, h2, eq_comm]

theorem mem_delBondsOf {bs : List UBond} {name : Bytes} {l : List UBond} {x : UBond} :
    x ∈ delBondsOf bs name l ↔ x ∈ bs ∧ ¬ (x.dapp = name ∧ ∃ b ∈ l, b.user = x.user) := by
  rw [delBondsOf_eq_filter, List.mem_filter]
  simp only [keepP, Bool.not_eq_true', Bool.and_eq_false_iff, decide_eq_false_iff_not, List.any_eq_false, decide_eq_true_eq,
    not_and, not_exists]
  constructor
  · rintro ⟨h1, h2⟩
    refine ⟨h1, fun hd b hb => ?_⟩
    rcases h2 with h2 | h2
    · exact absurd hd h2
    · exact h2 b hb
  · rintro ⟨h1, h2⟩
    refine ⟨h1, ?_⟩
    by_cases hd : x.dapp = name
    · exact Or.inr (fun b hb => h2 hd b hb)
    · exact Or.inl hd

theorem refundLoop_frame {s s' : St} {name : Bytes} {l : List UBond} (h : refundLoop s name l = some s') :
    s'.bonds = delBondsOf s.bonds name l ∧ s'.dapps = s.dapps ∧ s'.P = s.P ∧ s'.addr = s.addr ∧ s'.spools = s.spools := by
  induction l generalizing s with
  | nil =>
    unfold refundLoop at h
    cases h
    exact ⟨rfl, rfl, rfl, rfl, rfl⟩
  | cons b rest ih =>
    unfold refundLoop at h
    split at h
    · cases h
    · rename_i s1 hs1
      obtain ⟨bk, _, rfl⟩ := escrowOut_some hs1
      obtain ⟨h1, h2, h3, h4, h5⟩ := ih h
      refine ⟨?_, h2, h3, h4, h5⟩
      rw [h1]; rfl

theorem own_in_scan {addr : Nat → Bytes} {bs : List UBond} {b : UBond} (hb : b ∈ bs) : b ∈ scanBonds addr bs b.dapp := by
  unfold scanBonds
  rw [List.mem_filter]
  refine ⟨hb, ?_⟩
  unfold bondKey
  rw [List.isPrefixOf_iff_prefix]
  exact List.prefix_append _ _

end Sekai.Layer2
