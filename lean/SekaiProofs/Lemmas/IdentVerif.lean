import SekaiProofs.Lemmas.IdentFrames
/-! Verifier lists: they never grow except in the approve loop of `HandleIdentityRecordsVerifyRequest`. Holds in
EVERY state (no well-formedness needed). -/
namespace Sekai.Ident

/-- no verifier appears on any record between `S` and `S'` -/
def NoGrow (S S' : State) : Prop :=
  ∀ id r', getRec S' id = some r' → ∀ u ∈ r'.verifiers, ∃ r, getRec S id = some r ∧ u ∈ r.verifiers

theorem NoGrow.refl (S : State) : NoGrow S S := fun _ r' h u hu => ⟨r', h, hu⟩
theorem NoGrow.trans {A B C : State} (h1 : NoGrow A B) (h2 : NoGrow B C) : NoGrow A C := by
  intro id r' hr' u hu
  obtain ⟨rB, hB, huB⟩ := h2 id r' hr' u hu
  exact h1 id rB hB u huB
theorem NoGrow_of_recs {S S' : State} (h : S'.records = S.records) : NoGrow S S' :=
  fun id r' hr' u hu => ⟨r', by rw [← getRec_congr h]; exact hr', hu⟩

theorem NoGrow_putRecord {S : State} {r : Record}
    (h : ∀ u ∈ r.verifiers, ∃ r0, getRec S r.id = some r0 ∧ u ∈ r0.verifiers) : NoGrow S (putRecord S r) := by
  intro id r' hr' u hu
  rw [getRec_putRecord] at hr'
  split at hr'
  · rename_i e
    cases hr'
    rw [← e]; exact h u hu
  · exact ⟨r', hr', hu⟩

theorem NoGrow_delete (S : State) (d : Nat) : NoGrow S (deleteRecordById S d) := by
  intro id r' hr' u hu
  rw [getRec_delete] at hr'
  split at hr'
  · cases hr'
  · exact ⟨r', hr', hu⟩

theorem NoGrow_regApply {a : Nat} (infos : List Info) {S S' : State} {aff aff' : List Nat}
    (h : regApply a infos S aff = some (S', aff')) : NoGrow S S' := by
  induction infos generalizing S aff with
  | nil => simp [regApply] at h; rw [h.1]; exact NoGrow.refl _
  | cons i rest ih =>
    unfold regApply at h
    simp only at h
    split at h
    · split at h
      · cases h
      · rename_i S2 hs
        obtain ⟨_, _, rfl⟩ := setRecord_some hs
        have n0 : NoGrow S { S with lastRecordId := S.lastRecordId + 1 } := NoGrow_of_recs rfl
        exact (n0.trans (NoGrow_putRecord (fun u hu => by cases hu))).trans (ih h)
    · split at h
      · cases h
      · rename_i S2 hs
        obtain ⟨_, _, rfl⟩ := setRecord_some hs
        exact (NoGrow_putRecord (fun u hu => by cases hu)).trans (ih h)

theorem NoGrow_registerRecords {S S' : State} {a : Nat} {infos : List Info}
    (hr : registerRecords S a infos = some S') : NoGrow S S' := by
  unfold registerRecords at hr
  split at hr
  · cases hr
  · split at hr
    · cases hr
    · rename_i S1 aff ha
      exact (NoGrow_regApply _ ha).trans (NoGrow_of_recs (cancelInvalid_recFrame hr).records)

theorem NoGrow_deleteLoop (ids : List Nat) {S S' : State} (h : deleteLoop ids S = some S') : NoGrow S S' := by
  induction ids generalizing S with
  | nil => simp [deleteLoop] at h; subst h; exact NoGrow.refl _
  | cons id rest ih =>
    unfold deleteLoop at h
    split at h
    · cases h
    · exact (NoGrow_delete S id).trans (ih h)

theorem NoGrow_deleteRecords {S S' : State} {a : Nat} {keys : List String}
    (hd : deleteRecords S a keys = some S') : NoGrow S S' := by
  unfold deleteRecords at hd
  split at hd
  · cases hd
  · simp only at hd
    split at hd
    · cases hd
    · rename_i S2 hl
      have n0 : NoGrow S { S with idx := S.idx.filter (fun e => !(e.addr == a && (keys.isEmpty || (keys.map lower).contains e.key))) } :=
        NoGrow_of_recs rfl
      exact (n0.trans (NoGrow_deleteLoop _ hl)).trans (NoGrow_of_recs (cancelInvalid_recFrame hd).records)

theorem requestVerify_recFrame {S S' : State} {a v : Nat} {ids : List Nat} {d n : Nat}
    (hr : requestVerify S a v ids d n = some S') : RecFrame S S' := by
  unfold requestVerify at hr
  simp only at hr
  split at hr
  · cases hr
  · split at hr
    · cases hr
    · rename_i le _
      split at hr
      · cases hr
      · have f1 : RecFrame S { setReq S ⟨S.lastReqId + 1, a, v, ids, d, n, le⟩ with lastReqId := S.lastReqId + 1 } :=
          ⟨rfl, rfl, rfl, rfl⟩
        split at hr
        · exact f1.trans (sendToGov_recFrame hr)
        · cases hr; exact f1

/-- the approve loop adds at most `v`, and only to records named in `ids` -/
def ApproveGrow (v : Nat) (ids : List Nat) (S S' : State) : Prop :=
  ∀ id r', getRec S' id = some r' → ∀ u ∈ r'.verifiers,
    (∃ r, getRec S id = some r ∧ u ∈ r.verifiers) ∨ (u = v ∧ id ∈ ids)

theorem approveLoop_grow {v : Nat} (ids : List Nat) {S S' : State} (ha : approveLoop v ids S = some S') :
    ApproveGrow v ids S S' := by
  induction ids generalizing S with
  | nil =>
    simp [approveLoop] at ha; subst ha
    intro id r' hr' u hu; exact Or.inl ⟨r', hr', hu⟩
  | cons id rest ih =>
    unfold approveLoop at ha
    split at ha
    · cases ha
    · rename_i r hr
      split at ha
      · intro id' r' hr' u hu
        rcases ih ha id' r' hr' u hu with h | ⟨h1, h2⟩
        · exact Or.inl h
        · exact Or.inr ⟨h1, List.mem_cons_of_mem _ h2⟩
      · split at ha
        · cases ha
        · rename_i S1 hs
          obtain ⟨_, _, rfl⟩ := setRecord_some hs
          intro id' r' hr' u hu
          rcases ih ha id' r' hr' u hu with ⟨r1, h1, hu1⟩ | ⟨h1, h2⟩
          · rw [getRec_putRecord] at h1
            have hrid : r.id = id := (getRec_mem hr).2
            split at h1
            · rename_i e
              cases h1
              have e' : id = id' := hrid.symm.trans e
              simp only [List.mem_append, List.mem_singleton] at hu1
              rcases hu1 with hu1 | hu1
              · left; rw [← e']; exact ⟨r, hr, hu1⟩
              · right; exact ⟨hu1, by rw [← e']; exact List.mem_cons_self⟩
            · exact Or.inl ⟨r1, h1, hu1⟩
          · exact Or.inr ⟨h1, List.mem_cons_of_mem _ h2⟩

/-- `HandleIdentityRecordsVerifyRequest`: a verifier appears only if the caller is the named verifier of the
pending request, the answer is yes, and the record is named by the request -/
theorem handleVerify_grow {S S' : State} {v reqId : Nat} {yes : Bool} (hh : handleVerify S v reqId yes = some S') :
    ∀ id r', getRec S' id = some r' → ∀ u ∈ r'.verifiers,
      (∃ r, getRec S id = some r ∧ u ∈ r.verifiers) ∨
      (u = v ∧ yes = true ∧ ∃ q, getReq S reqId = some q ∧ q.verifier = v ∧ id ∈ q.recordIds) := by
  unfold handleVerify at hh
  split at hh
  · cases hh
  · rename_i q hq
    split at hh
    · cases hh
    · rename_i hver
      have hv : v = q.verifier := by simpa using hver
      split at hh
      · cases hh
      · rename_i S1 hpay
        have f1 : RecFrame S S1 := by
          by_cases h0 : q.amount = 0
          · simp [h0] at hpay; subst hpay; exact RecFrame.refl _
          · simp [h0] at hpay; exact sendFromGov_recFrame hpay
        split at hh
        · cases hh
        · rename_i fresh _
          split at hh
          · cases hh
            intro id r' hr' u hu
            rw [(deleteReq_recFrame _ _).getRec, f1.getRec] at hr'
            exact Or.inl ⟨r', hr', hu⟩
          · rename_i hyes
            have hy : yes = true := by
              cases yes with
              | true => rfl
              | false => simp at hyes
            split at hh
            · cases hh
            · rename_i S2 ha
              cases hh
              intro id r' hr' u hu
              rw [(deleteReq_recFrame _ _).getRec] at hr'
              rcases approveLoop_grow _ ha id r' hr' u hu with ⟨r1, h1, hu1⟩ | ⟨h1, h2⟩
              · rw [f1.getRec] at h1; exact Or.inl ⟨r1, h1, hu1⟩
              · exact Or.inr ⟨h1, hy, q, hq, hv.symm, h2⟩

theorem NoGrow_moveRecords {new : Nat} (recs : List Record) {S S' : State}
    (hinv : ∀ r ∈ recs, ∃ r0, getRec S r.id = some r0 ∧ r0.verifiers = r.verifiers)
    (hm : moveRecords new recs S = some S') : NoGrow S S' := by
  induction recs generalizing S with
  | nil => simp [moveRecords] at hm; subst hm; exact NoGrow.refl _
  | cons r rest ih =>
    unfold moveRecords at hm
    split at hm
    · cases hm
    · rename_i S1 hs
      obtain ⟨_, _, rfl⟩ := setRecord_some hs
      obtain ⟨r0, hr0, hv0⟩ := hinv r List.mem_cons_self
      have n1 : NoGrow S (putRecord (deleteRecordById S r.id) { r with addr := new }) := by
        intro id r' hr' u hu
        rw [getRec_putRecord] at hr'
        split at hr'
        · rename_i e
          cases hr'
          change r.id = id at e
          rw [← e]
          exact ⟨r0, hr0, by rw [hv0]; exact hu⟩
        · rename_i e
          rw [getRec_delete] at hr'
          split at hr'
          · cases hr'
          · exact ⟨r', hr', hu⟩
      refine n1.trans (ih ?_ hm)
      intro r2 hr2
      obtain ⟨r3, hr3, hv3⟩ := hinv r2 (List.mem_cons_of_mem _ hr2)
      rw [getRec_putRecord]
      by_cases e : r.id = r2.id
      · refine ⟨_, by simp only [e, if_true]; rfl, ?_⟩
        show r.verifiers = r2.verifiers
        rw [e] at hr0; rw [hr0] at hr3; cases hr3
        rw [← hv0, hv3]
      · have e' : ({ r with addr := new } : Record).id ≠ r2.id := e
        rw [if_neg e', getRec_delete, if_neg e]
        exact ⟨r3, hr3, hv3⟩

theorem collectRecs_get {S : State} (ids : List Nat) {recs : List Record} (h : collectRecs S ids = some recs) :
    ∀ r ∈ recs, getRec S r.id = some r := by
  induction ids generalizing recs with
  | nil => simp [collectRecs] at h; subst h; intro r hr; cases hr
  | cons id rest ih =>
    unfold collectRecs at h
    split at h
    · cases h
    · rename_i r0 hr0
      cases hc : collectRecs S rest with
      | none => rw [hc] at h; cases h
      | some l =>
        rw [hc] at h
        simp only [Option.map_some, Option.some.injEq] at h
        subst h
        intro r hr
        rcases List.mem_cons.mp hr with e | hm
        · rw [e, (getRec_mem hr0).2]; exact hr0
        · exact ih hc r hm

theorem rotateChecks_records {S S' : State} {p o n : Nat} {ok : Bool} (h : rotateChecks S p o n ok = some S') :
    S'.records = S.records ∧ S'.idx = S.idx := by
  unfold rotateChecks at h
  split at h
  · cases h
  · simp only at h
    split at h
    · cases h
    · split at h
      · cases h
      · split at h
        · cases h
        · split at h
          · cases h
          · split at h
            · cases h
            · cases h; exact ⟨rfl, rfl⟩

theorem NoGrow_rotate {S S' : State} {p o n : Nat} {ok : Bool} (hr : rotate S p o n ok = some S') : NoGrow S S' := by
  unfold rotate at hr
  split at hr
  · cases hr
  · rename_i S1 h1
    split at hr
    · cases hr
    · rename_i S2 h2
      cases hr
      have n1 : NoGrow S S1 := NoGrow_of_recs (rotateChecks_records h1).1
      unfold rotateRegistry at h2
      split at h2
      · cases h2
      · rename_i recs hrecs
        split at h2
        · cases h2
        · rename_i S3 hmv
          have n3 : NoGrow S1 S3 := NoGrow_moveRecords recs (fun r hr => ⟨r, collectRecs_get _ hrecs r hr, rfl⟩) hmv
          split at h2
          · cases h2
          · rename_i qs1 _
            simp only at h2
            split at h2
            · cases h2
            · rename_i qs2 _
              cases h2
              have f := (moveReqs_recFrame (fun q => { q with addr := n }) qs1 S3).trans
                (moveReqs_recFrame (fun q => { q with verifier := n }) qs2 _)
              exact ((n1.trans n3).trans (NoGrow_of_recs f.records)).trans (NoGrow_of_recs rfl)


/-! ## what a rotation does to the records -/

theorem collectRecs_ids {S : State} (ids : List Nat) {recs : List Record} (h : collectRecs S ids = some recs) :
    recs.map (·.id) = ids := by
  induction ids generalizing recs with
  | nil => simp [collectRecs] at h; subst h; rfl
  | cons id rest ih =>
    unfold collectRecs at h
    split at h
    · cases h
    · rename_i r0 hr0
      cases hc : collectRecs S rest with
      | none => rw [hc] at h; cases h
      | some l =>
        rw [hc] at h
        simp only [Option.map_some, Option.some.injEq] at h
        subst h
        simp only [List.map_cons, ih hc, (getRec_mem hr0).2]

theorem moveRecords_spec {new : Nat} (recs : List Record) {S S' : State}
    (hl : ∀ r ∈ recs, lower r.key = r.key)
    (hsnap : ∀ r1 ∈ recs, ∀ r2 ∈ recs, r1.id = r2.id → r1 = r2)
    (hm : moveRecords new recs S = some S') :
    (∀ id, id ∉ recs.map (·.id) → getRec S' id = getRec S id) ∧
    (∀ r ∈ recs, getRec S' r.id = some { r with addr := new }) := by
  induction recs generalizing S with
  | nil =>
    simp [moveRecords] at hm; subst hm
    exact ⟨fun _ _ => rfl, fun r hr => by cases hr⟩
  | cons r rest ih =>
    unfold moveRecords at hm
    split at hm
    · cases hm
    · rename_i S1 hs
      obtain ⟨_, _, rfl⟩ := setRecord_some hs
      have hlr : lower r.key = r.key := hl r List.mem_cons_self
      have g1 : ∀ id, getRec (putRecord (deleteRecordById S r.id) { r with addr := new }) id
          = if r.id = id then some { r with addr := new } else getRec S id := by
        intro id
        rw [getRec_putRecord]
        by_cases e : r.id = id
        · have e' : ({ r with addr := new } : Record).id = id := e
          rw [if_pos e', if_pos e]
          simp [hlr]
        · have e' : ¬ ({ r with addr := new } : Record).id = id := e
          rw [if_neg e', if_neg e, getRec_delete, if_neg e]
      obtain ⟨o1, o2⟩ := ih (fun x hx => hl x (List.mem_cons_of_mem _ hx))
        (fun a ha b hb => hsnap a (List.mem_cons_of_mem _ ha) b (List.mem_cons_of_mem _ hb)) hm
      refine ⟨?_, ?_⟩
      · intro id hid
        simp only [List.map_cons, List.mem_cons, not_or] at hid
        rw [o1 id hid.2, g1 id, if_neg (fun e => hid.1 e.symm)]
      · intro x hx
        rcases List.mem_cons.mp hx with e | hm'
        · subst e
          by_cases hin : x.id ∈ rest.map (·.id)
          · obtain ⟨y, hy, hyid⟩ := List.mem_map.mp hin
            have : y = x := hsnap y (List.mem_cons_of_mem _ hy) x List.mem_cons_self hyid
            subst this
            exact o2 y hy
          · rw [o1 x.id hin, g1 x.id, if_pos rfl]
        · exact o2 x hm'

/-- `RotateRecoveryAddress` on the record side: every record listed in the OLD address's index is re-written with the
new address and is otherwise unchanged (id, key, value, date AND verifier list); every other record is untouched -/
theorem rotate_records {S S' : State} {p old new : Nat} {ok : Bool} (hk : ∀ r ∈ S.records, lower r.key = r.key)
    (hr : rotate S p old new ok = some S') :
    (∀ e ∈ S.idx, e.addr = old → ∃ r, getRec S e.id = some r ∧ getRec S' e.id = some { r with addr := new }) ∧
    (∀ id, (∀ e ∈ S.idx, e.addr = old → e.id ≠ id) → getRec S' id = getRec S id) := by
  unfold rotate at hr
  split at hr
  · cases hr
  · rename_i S1 h1
    split at hr
    · cases hr
    · rename_i S2 h2
      cases hr
      obtain ⟨er, ei⟩ := rotateChecks_records h1
      unfold rotateRegistry at h2
      split at h2
      · cases h2
      · rename_i recs hrecs
        split at h2
        · cases h2
        · rename_i S3 hmv
          split at h2
          · cases h2
          · rename_i qs1 _
            simp only at h2
            split at h2
            · cases h2
            · rename_i qs2 _
              cases h2
              have f := (moveReqs_recFrame (fun q => { q with addr := new }) qs1 S3).trans
                (moveReqs_recFrame (fun q => { q with verifier := new }) qs2 _)
              have hget := collectRecs_get _ hrecs
              have hids := collectRecs_ids _ hrecs
              have hsnap : ∀ r1 ∈ recs, ∀ r2 ∈ recs, r1.id = r2.id → r1 = r2 := by
                intro r1 h1' r2 h2' e
                have a := hget r1 h1'; have b := hget r2 h2'
                rw [e, b] at a; cases a; rfl
              have hl : ∀ r ∈ recs, lower r.key = r.key := by
                intro r hr'
                have := (getRec_mem (hget r hr')).1
                rw [er] at this
                exact hk r this
              obtain ⟨o1, o2⟩ := moveRecords_spec recs hl hsnap hmv
              have fin : ∀ id, getRec (rotatePerms (moveReqs (fun q => { q with verifier := new }) qs2
                  (moveReqs (fun q => { q with addr := new }) qs1 S3)) old new) id = getRec S3 id := by
                intro id
                have : (rotatePerms (moveReqs (fun q => { q with verifier := new }) qs2
                  (moveReqs (fun q => { q with addr := new }) qs1 S3)) old new).records = S3.records := f.records
                exact getRec_congr this id
              constructor
              · intro e he hea
                have hin : e.id ∈ recs.map (·.id) := by
                  rw [hids, ei]
                  simp only [List.mem_map, List.mem_filter, beq_iff_eq]
                  exact ⟨e, ⟨he, hea⟩, rfl⟩
                obtain ⟨r, hr', hrid⟩ := List.mem_map.mp hin
                refine ⟨r, ?_, ?_⟩
                · rw [← hrid, ← getRec_congr er]; exact hget r hr'
                · rw [fin, ← hrid]; exact o2 r hr'
              · intro id hno
                rw [fin, o1 id, getRec_congr er]
                rw [hids, ei]
                simp only [List.mem_map, List.mem_filter, beq_iff_eq, not_exists, not_and]
                intro e he hid
                exact hno e he.1 he.2 hid

end Sekai.Ident
