import SekaiProofs.Lemmas.F32Log
/-! `rne` is bounded by every representable on either side (hence monotone through representables) and exact on representables -/

namespace Sekai.F32

theorem rne_pos_eq (x : ℚ) (hx : 0 < x) :
    rne x = (rhe (x * pow2 (23 - ilog2 x)) : ℚ) * pow2 (-(23 - ilog2 x)) := by
  unfold rne
  simp only [not_le.mpr hx, if_false]

theorem pow2_neg_mul (k : ℤ) : pow2 k * pow2 (-k) = 1 := by
  rw [← pow2_add]; simp [pow2_eq]

/-- representable: r = m * 2^e with m < 2^24 -/
theorem rne_ge_repr (x : ℚ) (hx : 0 < x) (m : ℕ) (e : ℤ) (hm : m < 2 ^ 24)
    (h : (m : ℚ) * pow2 e ≤ x) : (m : ℚ) * pow2 e ≤ rne x := by
  rw [rne_pos_eq x hx]
  set k := 23 - ilog2 x with hk
  obtain ⟨hy1, hy2⟩ := norm_range x hx
  rw [← hk] at hy1 hy2
  set y := x * pow2 k with hy
  have hkpos := pow2_pos k
  have hknpos := pow2_pos (-k)
  have hy0 : 0 ≤ y := by positivity
  -- suffices m * 2^(e+k) ≤ rhe y
  have key : (m : ℚ) * pow2 (e + k) ≤ (rhe y : ℚ) := by
    by_cases hek : 0 ≤ e + k
    · -- natural N
      have hN : pow2 (e + k) = ((2 ^ (e + k).toNat : ℕ) : ℚ) := by
        have : e + k = ((e + k).toNat : ℤ) := (Int.toNat_of_nonneg hek).symm
        conv_lhs => rw [this]
        exact pow2_natCast _
      have hle : ((m * 2 ^ (e + k).toNat : ℕ) : ℚ) ≤ y := by
        have hN' : pow2 (e + k) = (2:ℚ) ^ (e + k).toNat := by rw [hN]; push_cast; rfl
        push_cast; rw [← hN', pow2_add, hy]
        calc (m : ℚ) * (pow2 e * pow2 k) = ((m : ℚ) * pow2 e) * pow2 k := by ring
          _ ≤ x * pow2 k := by nlinarith
      have := rhe_ge_of_nat_le y hy0 _ hle
      rw [hN]; exact_mod_cast this
    · -- e + k ≤ -1: m * 2^(e+k) ≤ m/2 < 2^23 ≤ rhe y
      have hle1 : pow2 (e + k) ≤ 1 / 2 := by
        have : e + k = -1 + (e + k + 1) := by ring
        rw [this, pow2_add]
        have h1 : pow2 (-1) = 1 / 2 := by rw [pow2_eq]; norm_num
        have h2 : pow2 (e + k + 1) ≤ 1 := by
          rw [pow2_eq]; apply zpow_le_one_of_nonpos₀ (by norm_num); omega
        rw [h1]; have := pow2_pos (e + k + 1); nlinarith
      have hm' : (m : ℚ) < 2 ^ 24 := by exact_mod_cast hm
      have h23 : ((2 ^ 23 : ℕ) : ℚ) ≤ y := by push_cast; exact hy1
      have := rhe_ge_of_nat_le y hy0 _ h23
      have h3 : ((2 ^ 23 : ℕ) : ℚ) ≤ (rhe y : ℚ) := by exact_mod_cast this
      have hp := pow2_pos (e + k)
      have : (m : ℚ) * pow2 (e + k) ≤ 2 ^ 23 := by
        have hm0 : (0 : ℚ) ≤ m := by positivity
        nlinarith
      push_cast at h3; linarith
  have : (m : ℚ) * pow2 e = (m : ℚ) * pow2 (e + k) * pow2 (-k) := by
    rw [pow2_add]; have := pow2_neg_mul k; calc (m : ℚ) * pow2 e = (m : ℚ) * pow2 e * (pow2 k * pow2 (-k)) := by rw [this]; ring
      _ = (m : ℚ) * (pow2 e * pow2 k) * pow2 (-k) := by ring
  rw [this]
  exact mul_le_mul_of_nonneg_right key (le_of_lt hknpos)

theorem rne_le_repr (x : ℚ) (hx : 0 < x) (m : ℕ) (e : ℤ) (hm : m < 2 ^ 24)
    (h : x ≤ (m : ℚ) * pow2 e) : rne x ≤ (m : ℚ) * pow2 e := by
  rw [rne_pos_eq x hx]
  set k := 23 - ilog2 x with hk
  obtain ⟨hy1, hy2⟩ := norm_range x hx
  rw [← hk] at hy1 hy2
  set y := x * pow2 k with hy
  have hkpos := pow2_pos k
  have hknpos := pow2_pos (-k)
  have hy0 : 0 ≤ y := by positivity
  have hyle : y ≤ (m : ℚ) * pow2 (e + k) := by
    rw [hy, pow2_add]
    calc x * pow2 k ≤ ((m : ℚ) * pow2 e) * pow2 k := by nlinarith
      _ = (m : ℚ) * (pow2 e * pow2 k) := by ring
  have key : (rhe y : ℚ) ≤ (m : ℚ) * pow2 (e + k) := by
    by_cases hek : 0 ≤ e + k
    · have hN : pow2 (e + k) = ((2 ^ (e + k).toNat : ℕ) : ℚ) := by
        have : e + k = ((e + k).toNat : ℤ) := (Int.toNat_of_nonneg hek).symm
        conv_lhs => rw [this]
        exact pow2_natCast _
      have hle : y ≤ ((m * 2 ^ (e + k).toNat : ℕ) : ℚ) := by
        have hN' : pow2 (e + k) = (2:ℚ) ^ (e + k).toNat := by rw [hN]; push_cast; rfl
        push_cast; rw [← hN']; exact hyle
      have := rhe_le_of_le_nat y hy0 _ hle
      rw [hN]; exact_mod_cast this
    · exfalso
      have hle1 : pow2 (e + k) ≤ 1 / 2 := by
        have : e + k = -1 + (e + k + 1) := by ring
        rw [this, pow2_add]
        have h1 : pow2 (-1) = 1 / 2 := by rw [pow2_eq]; norm_num
        have h2 : pow2 (e + k + 1) ≤ 1 := by
          rw [pow2_eq]; apply zpow_le_one_of_nonpos₀ (by norm_num); omega
        rw [h1]; have := pow2_pos (e + k + 1); nlinarith
      have hm' : (m : ℚ) < 2 ^ 24 := by exact_mod_cast hm
      have hm0 : (0 : ℚ) ≤ m := by positivity
      have hp := pow2_pos (e + k)
      have : (m : ℚ) * pow2 (e + k) < 2 ^ 23 := by nlinarith
      linarith
  have : (m : ℚ) * pow2 e = (m : ℚ) * pow2 (e + k) * pow2 (-k) := by
    rw [pow2_add]; have := pow2_neg_mul k; calc (m : ℚ) * pow2 e = (m : ℚ) * pow2 e * (pow2 k * pow2 (-k)) := by rw [this]; ring
      _ = (m : ℚ) * (pow2 e * pow2 k) * pow2 (-k) := by ring
  rw [this]
  exact mul_le_mul_of_nonneg_right key (le_of_lt hknpos)

theorem rne_exact (m : ℕ) (e : ℤ) (hm : m < 2 ^ 24) : rne ((m : ℚ) * pow2 e) = (m : ℚ) * pow2 e := by
  by_cases h0 : m = 0
  · subst h0; simp [rne]
  · have hpos : 0 < (m : ℚ) * pow2 e := by
      have : (0 : ℚ) < m := by exact_mod_cast Nat.pos_of_ne_zero h0
      exact mul_pos this (pow2_pos e)
    exact le_antisymm (rne_le_repr _ hpos m e hm le_rfl) (rne_ge_repr _ hpos m e hm le_rfl)
end Sekai.F32
