import Sekai.Model.Ident
/-! Lemmas about the identity-registrar model: store primitives, frames, invariants. Core Lean only. -/
namespace Sekai.Ident

/-! ## lower-casing is idempotent -/

theorem toNat_ofNat_small (n : Nat) (h : n < 1000) : (Char.ofNat n).toNat = n := by
  have hv : n.isValidChar := by left; omega
  simp [Char.ofNat, hv, Char.toNat, Char.ofNatAux]

theorem lowerChar_idem (c : Char) : lowerChar (lowerChar c) = lowerChar c := by
  by_cases h : 65 ≤ c.toNat ∧ c.toNat ≤ 90
  · have h1 : lowerChar c = Char.ofNat (c.toNat + 32) := by simp [lowerChar, h]
    have h2 : (Char.ofNat (c.toNat + 32)).toNat = c.toNat + 32 := toNat_ofNat_small _ (by omega)
    rw [h1]
    have : ¬ (65 ≤ (Char.ofNat (c.toNat + 32)).toNat ∧ (Char.ofNat (c.toNat + 32)).toNat ≤ 90) := by omega
    conv => lhs; unfold lowerChar
    rw [if_neg this]
  · have h1 : lowerChar c = c := by simp [lowerChar, h]
    rw [h1, h1]

theorem lower_idem (s : String) : lower (lower s) = lower s := by
  have : lowerChar ∘ lowerChar = lowerChar := by funext c; exact lowerChar_idem c
  simp [lower, this]

/-! ## association-list primitives -/

theorem find?_filter_of_imp {α : Type} (p q : α → Bool) (l : List α) (h : ∀ x, p x = true → q x = true) :
    (l.filter q).find? p = l.find? p := by
  induction l with
  | nil => rfl
  | cons x xs ih =>
    by_cases hq : q x = true
    · simp only [List.filter_cons, hq, if_true, List.find?_cons]
      rw [ih]
    · have hp : p x = false := by
        cases hpx : p x with
        | false => rfl
        | true => exact absurd (h x hpx) hq
      simp only [List.filter_cons, hq, List.find?_cons, hp]
      simpa using ih

theorem find?_filter_none {α : Type} (p q : α → Bool) (l : List α) (h : ∀ x, p x = true → q x = false) :
    (l.filter q).find? p = none := by
  rw [List.find?_eq_none]
  intro x hx
  have := List.mem_filter.mp hx
  intro hp
  have := h x hp
  simp_all

/-! ### records -/

theorem getRec_mem {S : State} {id : Nat} {r : Record} (h : getRec S id = some r) : r ∈ S.records ∧ r.id = id := by
  unfold getRec at h
  exact ⟨List.mem_of_find?_eq_some h, by simpa using List.find?_some h⟩

theorem getRec_some_of_mem {S : State} {r : Record} (h : r ∈ S.records) : ∃ r', getRec S r.id = some r' := by
  unfold getRec
  cases hf : S.records.find? (fun x => x.id == r.id) with
  | some r' => exact ⟨r', rfl⟩
  | none =>
    rw [List.find?_eq_none] at hf
    have := hf r h
    simp at this

/-- reading after `set` on the raw list -/
theorem find_cons_filter (l : List Record) (r : Record) (id : Nat) :
    (r :: l.filter (fun x => x.id != r.id)).find? (fun x => x.id == id)
      = if r.id = id then some r else l.find? (fun x => x.id == id) := by
  by_cases h : r.id = id
  · simp [List.find?_cons, h]
  · have h' : (r.id == id) = false := by simpa using h
    simp only [List.find?_cons, h', if_neg h]
    apply find?_filter_of_imp
    intro x hx
    have : x.id = id := by simpa using hx
    simp [this]; exact fun e => h e.symm

theorem find_filter_ne (l : List Record) (d id : Nat) :
    (l.filter (fun x => x.id != d)).find? (fun x => x.id == id)
      = if d = id then none else l.find? (fun x => x.id == id) := by
  by_cases h : d = id
  · simp only [if_pos h]
    apply find?_filter_none
    intro x hx
    have : x.id = id := by simpa using hx
    simp [this, h]
  · simp only [if_neg h]
    apply find?_filter_of_imp
    intro x hx
    have : x.id = id := by simpa using hx
    simp [this]; exact fun e => h e.symm


/-! ### `setRecord` / `deleteRecordById` -/

/-- the state written by a successful `SetIdentityRecord` -/
def putRecord (S : State) (r : Record) : State :=
  { S with
    records := { r with key := lower r.key } :: S.records.filter (fun x => x.id != r.id),
    idx := ⟨r.addr, lower r.key, r.id⟩ :: S.idx.filter (fun e => !(e.addr == r.addr && e.key == lower r.key)) }

theorem setRecord_some {S S' : State} {r : Record} (h : setRecord S r = some S') :
    validKey r.key = true ∧ uniqueOk S r.key r.value r.addr = true ∧ S' = putRecord S r := by
  unfold setRecord at h
  split at h
  · cases h
  · split at h
    · cases h
    · rename_i h1 h2
      refine ⟨by simpa using h1, by simpa using h2, ?_⟩
      simp only [Option.some.injEq] at h
      exact h.symm

theorem getRec_putRecord (S : State) (r : Record) (id : Nat) :
    getRec (putRecord S r) id = if r.id = id then some { r with key := lower r.key } else getRec S id := by
  unfold getRec putRecord
  exact find_cons_filter S.records { r with key := lower r.key } id

theorem mem_putRecord {S : State} {r x : Record} (h : x ∈ (putRecord S r).records) :
    x = { r with key := lower r.key } ∨ (x ∈ S.records ∧ x.id ≠ r.id) := by
  simp only [putRecord, List.mem_cons, List.mem_filter] at h
  rcases h with h | ⟨h1, h2⟩
  · exact Or.inl h
  · exact Or.inr ⟨h1, by simpa using h2⟩

theorem getRec_delete (S : State) (d id : Nat) :
    getRec (deleteRecordById S d) id = if d = id then none else getRec S id := by
  unfold deleteRecordById
  cases hd : getRec S d with
  | none =>
    simp only
    by_cases h : d = id
    · subst h; simp [hd]
    · simp [h]
  | some r =>
    simp only
    unfold getRec
    exact find_filter_ne S.records d id

theorem mem_delete {S : State} {d : Nat} {x : Record} (h : x ∈ (deleteRecordById S d).records) :
    x ∈ S.records ∧ x.id ≠ d := by
  unfold deleteRecordById at h
  cases hd : getRec S d with
  | none =>
    rw [hd] at h
    refine ⟨h, ?_⟩
    intro e
    obtain ⟨r', hr'⟩ := getRec_some_of_mem h
    rw [e, hd] at hr'; cases hr'
  | some r =>
    rw [hd] at h
    simp only [List.mem_filter] at h
    exact ⟨h.1, by simpa using h.2⟩

theorem mem_delete_of {S : State} {d : Nat} {x : Record} (h : x ∈ S.records) (hne : x.id ≠ d) :
    x ∈ (deleteRecordById S d).records := by
  unfold deleteRecordById
  cases hd : getRec S d with
  | none => exact h
  | some r => simp only [List.mem_filter]; exact ⟨h, by simpa using hne⟩

@[simp] theorem delete_idx (S : State) (d : Nat) : (deleteRecordById S d).idx = S.idx := by
  unfold deleteRecordById; split <;> rfl
@[simp] theorem delete_lastRecordId (S : State) (d : Nat) : (deleteRecordById S d).lastRecordId = S.lastRecordId := by
  unfold deleteRecordById; split <;> rfl
@[simp] theorem delete_reqs (S : State) (d : Nat) : (deleteRecordById S d).reqs = S.reqs := by
  unfold deleteRecordById; split <;> rfl
@[simp] theorem delete_byReq (S : State) (d : Nat) : (deleteRecordById S d).byReq = S.byReq := by
  unfold deleteRecordById; split <;> rfl
@[simp] theorem delete_byApp (S : State) (d : Nat) : (deleteRecordById S d).byApp = S.byApp := by
  unfold deleteRecordById; split <;> rfl
@[simp] theorem delete_lastReqId (S : State) (d : Nat) : (deleteRecordById S d).lastReqId = S.lastReqId := by
  unfold deleteRecordById; split <;> rfl
@[simp] theorem delete_uniqueKeys (S : State) (d : Nat) : (deleteRecordById S d).uniqueKeys = S.uniqueKeys := by
  unfold deleteRecordById; split <;> rfl
@[simp] theorem delete_escrow (S : State) (d : Nat) : (deleteRecordById S d).escrow = S.escrow := by
  unfold deleteRecordById; split <;> rfl
@[simp] theorem delete_bal (S : State) (d : Nat) : (deleteRecordById S d).bal = S.bal := by
  unfold deleteRecordById; split <;> rfl

/-! ### requests -/

theorem getReq_mem {S : State} {id : Nat} {q : Request} (h : getReq S id = some q) : q ∈ S.reqs ∧ q.id = id := by
  unfold getReq at h
  exact ⟨List.mem_of_find?_eq_some h, by simpa using List.find?_some h⟩

theorem findReq_cons_filter (l : List Request) (q : Request) (id : Nat) :
    (q :: l.filter (fun x => x.id != q.id)).find? (fun x => x.id == id)
      = if q.id = id then some q else l.find? (fun x => x.id == id) := by
  by_cases h : q.id = id
  · simp [h]
  · have h' : (q.id == id) = false := by simpa using h
    simp only [List.find?_cons, h', if_neg h]
    apply find?_filter_of_imp
    intro x hx
    have : x.id = id := by simpa using hx
    simp [this]; exact fun e => h e.symm

theorem findReq_filter_ne (l : List Request) (d id : Nat) :
    (l.filter (fun x => x.id != d)).find? (fun x => x.id == id)
      = if d = id then none else l.find? (fun x => x.id == id) := by
  by_cases h : d = id
  · simp only [if_pos h]
    apply find?_filter_none
    intro x hx
    have : x.id = id := by simpa using hx
    simp [this, h]
  · simp only [if_neg h]
    apply find?_filter_of_imp
    intro x hx
    have : x.id = id := by simpa using hx
    simp [this]; exact fun e => h e.symm

theorem getReq_setReq (S : State) (q : Request) (id : Nat) :
    getReq (setReq S q) id = if q.id = id then some q else getReq S id := by
  unfold getReq setReq
  exact findReq_cons_filter S.reqs q id

theorem getReq_deleteReq (S : State) (d id : Nat) :
    getReq (deleteReq S d) id = if d = id then none else getReq S id := by
  unfold deleteReq
  cases hd : getReq S d with
  | none =>
    simp only
    by_cases h : d = id
    · subst h; simp [hd]
    · simp [h]
  | some q =>
    simp only
    unfold getReq
    exact findReq_filter_ne S.reqs d id

theorem mem_setReq {S : State} {q x : Request} (h : x ∈ (setReq S q).reqs) :
    x = q ∨ (x ∈ S.reqs ∧ x.id ≠ q.id) := by
  simp only [setReq, List.mem_cons, List.mem_filter] at h
  rcases h with h | ⟨h1, h2⟩
  · exact Or.inl h
  · exact Or.inr ⟨h1, by simpa using h2⟩

theorem mem_deleteReq {S : State} {d : Nat} {x : Request} (h : x ∈ (deleteReq S d).reqs) :
    x ∈ S.reqs ∧ (getReq S x.id = some x → x.id ≠ d) := by
  unfold deleteReq at h
  cases hd : getReq S d with
  | none =>
    rw [hd] at h
    refine ⟨h, ?_⟩
    intro hx e
    rw [e, hd] at hx; cases hx
  | some q =>
    rw [hd] at h
    simp only [List.mem_filter] at h
    exact ⟨h.1, fun _ => by simpa using h.2⟩

@[simp] theorem setReq_records (S : State) (q : Request) : (setReq S q).records = S.records := rfl
@[simp] theorem setReq_idx (S : State) (q : Request) : (setReq S q).idx = S.idx := rfl
@[simp] theorem setReq_lastRecordId (S : State) (q : Request) : (setReq S q).lastRecordId = S.lastRecordId := rfl
@[simp] theorem setReq_lastReqId (S : State) (q : Request) : (setReq S q).lastReqId = S.lastReqId := rfl
@[simp] theorem setReq_uniqueKeys (S : State) (q : Request) : (setReq S q).uniqueKeys = S.uniqueKeys := rfl
@[simp] theorem setReq_escrow (S : State) (q : Request) : (setReq S q).escrow = S.escrow := rfl
@[simp] theorem setReq_bal (S : State) (q : Request) : (setReq S q).bal = S.bal := rfl

@[simp] theorem deleteReq_records (S : State) (d : Nat) : (deleteReq S d).records = S.records := by
  unfold deleteReq; split <;> rfl
@[simp] theorem deleteReq_idx (S : State) (d : Nat) : (deleteReq S d).idx = S.idx := by
  unfold deleteReq; split <;> rfl
@[simp] theorem deleteReq_lastRecordId (S : State) (d : Nat) : (deleteReq S d).lastRecordId = S.lastRecordId := by
  unfold deleteReq; split <;> rfl
@[simp] theorem deleteReq_lastReqId (S : State) (d : Nat) : (deleteReq S d).lastReqId = S.lastReqId := by
  unfold deleteReq; split <;> rfl
@[simp] theorem deleteReq_uniqueKeys (S : State) (d : Nat) : (deleteReq S d).uniqueKeys = S.uniqueKeys := by
  unfold deleteReq; split <;> rfl
@[simp] theorem deleteReq_escrow (S : State) (d : Nat) : (deleteReq S d).escrow = S.escrow := by
  unfold deleteReq; split <;> rfl
@[simp] theorem deleteReq_bal (S : State) (d : Nat) : (deleteReq S d).bal = S.bal := by
  unfold deleteReq; split <;> rfl

theorem getRec_congr {S S' : State} (h : S'.records = S.records) (id : Nat) : getRec S' id = getRec S id := by
  unfold getRec; rw [h]
theorem getReq_congr {S S' : State} (h : S'.reqs = S.reqs) (id : Nat) : getReq S' id = getReq S id := by
  unfold getReq; rw [h]

/-! ### bank -/

theorem balGet_balSet (S : State) (a d n a' d' : Nat) :
    balGet (balSet S a d n) a' d' = if a = a' ∧ d = d' then n else balGet S a' d' := by
  unfold balGet balSet
  by_cases h : a = a' ∧ d = d'
  · obtain ⟨h1, h2⟩ := h
    subst h1; subst h2
    simp
  · simp only [if_neg h]
    have h' : ((a == a') && (d == d')) = false := by
      cases ha : a == a' <;> cases hd : d == d' <;> simp_all
    simp only [List.find?_cons, h']
    rw [find?_filter_of_imp]
    intro x hx
    simp only [Bool.and_eq_true, beq_iff_eq] at hx
    simp only [Bool.not_eq_true', Bool.and_eq_false_iff, beq_eq_false_iff_ne, ne_eq]
    rcases hx with ⟨h1, h2⟩
    by_cases ha : x.1 = a
    · right; intro hd; exact h ⟨by omega, by omega⟩
    · left; exact ha

theorem escrowGet_escrowSet (S : State) (d n d' : Nat) :
    escrowGet (escrowSet S d n) d' = if d = d' then n else escrowGet S d' := by
  unfold escrowGet escrowSet
  by_cases h : d = d'
  · subst h; simp
  · simp only [if_neg h]
    have h' : (d == d') = false := by simpa using h
    simp only [List.find?_cons, h']
    rw [find?_filter_of_imp]
    intro x hx
    simp only [beq_iff_eq] at hx
    simp [hx]; exact fun e => h e.symm

@[simp] theorem escrowGet_balSet (S : State) (a d n d' : Nat) : escrowGet (balSet S a d n) d' = escrowGet S d' := rfl
@[simp] theorem balGet_escrowSet (S : State) (d n a' d' : Nat) : balGet (escrowSet S d n) a' d' = balGet S a' d' := rfl

end Sekai.Ident
