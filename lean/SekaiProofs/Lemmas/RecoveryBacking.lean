import SekaiProofs.Lemmas.Recovery
/-! The backing invariant of the recovery module (C04): what the module account holds covers the recorded underlying
tokens plus the recorded holder rewards — preserved by every operation. Core Lean only. -/
namespace Sekai.Recovery

/-- everything the module records as payable: Σ underlying tokens + Σ holder rewards over the accounts `0..n-1` -/
def owed (S : State) (n : Nat) : Int := sumF (und S) n + sumF S.hRewards n

/-- the backing invariant over the account range `0..n-1` -/
structure Backed (n : Nat) (S : State) : Prop where
  solvent : owed S n ≤ S.bal modAcc ukex
  undNonneg : ∀ a t, S.token a = some t → 0 ≤ t.underlying
  holdersIn : ∀ h ∈ S.holders, h.2 < n
  tokIn : ∀ a t, S.token a = some t → a < n
  rewIn : ∀ a, S.hRewards a ≠ 0 → a < n

/-- the addresses of an operation are user accounts of the range (not the module, not the fee collector) -/
def User (n : Nat) (a : Addr) : Prop := a < n ∧ a ≠ modAcc ∧ a ≠ feeAcc

def Op.within (n : Nat) : Op → Prop
  | .register a _ _ => User n a
  | .rotateSecret m => User n m.feePayer ∧ User n m.addr ∧ User n m.recovery
  | .rotateHolder m => User n m.holder ∧ User n m.addr ∧ User n m.recovery
  | .issue a => User n a
  | .burn a _ _ => User n a
  | .claim a => User n a
  | .regHolder a => User n a
  | .allocate v _ => User n v
  | .xfer a b _ _ => User n a ∧ (User n b ∨ b = modAcc ∨ b = feeAcc)

theorem und_eq_of_token_eq {S S' : State} (h : S'.token = S.token) : und S' = und S := by
  funext a; unfold und; rw [h]

theorem moveClaim_token (k : Kind) (old new : Addr) (S : State) : (moveClaim k old new S).token = S.token := rfl

theorem secretMoves2_token (old new : Addr) (S : State) : (secretMoves2 old new S).token = S.token := by
  unfold secretMoves2
  rw [moveClaim_token, moveClaim_token, moveClaim_token, moveClaim_token, moveClaim_token, moveClaim_token, moveVal_token,
    moveClaim_token, movePool_token, moveRewards_token]
  rfl

theorem sumF_und_set {S S' : State} {v : Addr} {t : Token} {n : Nat} (h : S'.token = fun a => if a = v then some t else S.token a)
    (hv : v < n) : sumF (und S') n = sumF (und S) n - und S v + t.underlying := by
  have : und S' = fun a => if a = v then t.underlying else und S a := by
    funext a; simp only [und, h]
    by_cases e : a = v
    · simp only [e, if_true]
    · simp only [e, if_false]
  rw [this, sumF_upd _ v _ n hv]

theorem sumF_und_del {S S' : State} {v : Addr} {n : Nat} (h : S'.token = fun a => if a = v then none else S.token a)
    (hv : v < n) : sumF (und S') n = sumF (und S) n - und S v := by
  have : und S' = fun a => if a = v then 0 else und S a := by
    funext a; simp only [und, h]
    by_cases e : a = v
    · simp only [e, if_true]
    · simp only [e, if_false]
  rw [this, sumF_upd _ v _ n hv]; omega

/-- mint to the module, then send the same coins on: the module's ukex is unchanged -/
theorem mint_send_mod_ukex {S1 S3 : State} {b : Addr} {d : Denom} {x : Int}
    (h : send (mint S1 d x) modAcc b d x = .ok S3) (hb : b ≠ modAcc) : S3.bal modAcc ukex = S1.bal modAcc ukex := by
  rw [send_bal h]
  by_cases hd : ukex = d
  · subst hd
    simp [mint, setBal, Ne.symm hb]
  · simp [mint, setBal, hd]

/-- take coins into the module, then burn the same coins: the module's ukex is unchanged -/
theorem send_burn_mod_ukex {S1 S2 S3 : State} {b : Addr} {d : Denom} {x : Int}
    (h2 : send S1 b modAcc d x = .ok S2) (h3 : burnCoins S2 d x = .ok S3) (hb : b ≠ modAcc) :
    S3.bal modAcc ukex = S1.bal modAcc ukex := by
  obtain ⟨_, _, rfl⟩ := burnCoins_ok h3
  by_cases hd : ukex = d
  · subst hd
    simp only [setBal]
    simp
    rw [send_bal h2]
    simp [hb, Ne.symm hb]
  · simp only [setBal]
    simp [hd]
    rw [send_bal h2]
    simp [hd]

theorem rotateBySecret_token {S S' : State} {m : SecretMsg} (h : rotateBySecret S m = .ok S') : S'.token = S.token := by
  obtain ⟨S1, ch, R, c, _, hs, _, _, _, _, _, _, _, rfl⟩ := rotateBySecret_ok h
  rw [secretMoves2_token]
  show (moveCoins m.addr m.recovery (withRotation S1 m.addr m.recovery)).token = _
  rw [moveCoins_token]
  show S1.token = _
  exact (send_frame hs).token

theorem rotateBySecret_holders {S S' : State} {m : SecretMsg} (h : rotateBySecret S m = .ok S') : S'.holders = S.holders := by
  obtain ⟨S1, hs, hf⟩ := rotateBySecret_frame h
  rw [hf.holders]; show S1.holders = _; exact (send_frame hs).holders

theorem rotateByHolder_token {S S' : State} {m : HolderMsg} (h : rotateByHolder S m = .ok S') :
    ∃ tok, S.token m.addr = some tok ∧
      S'.token = fun a => if a = m.recovery then some tok else if a = m.addr then none else S.token a := by
  obtain ⟨tok, R, c, ht, _, _, _, _, rfl⟩ := rotateByHolder_ok h
  refine ⟨tok, ht, ?_⟩
  show (holderMoves1 m.addr m.recovery tok (withRotation S m.addr m.recovery)).token = _
  rw [holderMoves1_token]
  rfl

/-- moving a token record from `old` to `new` never increases the recorded underlying total (it drops what `new` had) -/
theorem sumF_und_moveToken (S : State) (old new : Addr) (tok : Token) (n : Nat) (ht : S.token old = some tok) (ho : old < n) (hn : new < n)
    (hnn : ∀ a t, S.token a = some t → 0 ≤ t.underlying) :
    sumF (fun a => match (if a = new then some tok else if a = old then none else S.token a) with
                   | some t => t.underlying | none => 0) n ≤ sumF (und S) n := by
  have e : (fun a => match (if a = new then some tok else if a = old then none else S.token a) with
                   | some t => t.underlying | none => (0 : Int)) =
      fun a => if a = new then tok.underlying else (fun b => if b = old then 0 else und S b) a := by
    funext a
    by_cases h1 : a = new
    · subst h1; simp
    · by_cases h2 : a = old
      · subst h2; simp [h1]
      · simp only [h1, h2, if_false]; rfl
  rw [e, sumF_upd _ new _ n hn, sumF_upd _ old _ n ho]
  have hu : und S old = tok.underlying := by simp [und, ht]
  have hx : 0 ≤ (if new = old then (0 : Int) else und S new) := by
    split
    · omega
    · unfold und
      cases hh : S.token new with
      | none => simp
      | some t => simpa using hnn new t hh
  omega

theorem backed_send_user {n : Nat} {S S' : State} {src dst : Addr} {d : Denom} {amt : Int} (hb : Backed n S)
    (h : send S src dst d amt = .ok S') (hsrc : src ≠ modAcc) : Backed n S' := by
  have sf := send_frame h
  obtain ⟨hamt, _, _⟩ := send_ok h
  refine ⟨?_, ?_, ?_, ?_, ?_⟩
  · have : owed S' n = owed S n := by unfold owed; rw [und_eq_of_token_eq sf.token, sf.hRewards]
    rw [this, send_bal h]
    have := hb.solvent
    split
    · split
      · exact this
      · rw [if_neg (fun e => hsrc e.symm)]
        split <;> omega
    · exact this
  · intro a t ht; rw [sf.token] at ht; exact hb.undNonneg a t ht
  · intro x hx; rw [sf.holders] at hx; exact hb.holdersIn x hx
  · intro a t ht; rw [sf.token] at ht; exact hb.tokIn a t ht
  · intro a ha; rw [sf.hRewards] at ha; exact hb.rewIn a ha

/-- every operation preserves the backing invariant -/
theorem backed_step {n : Nat} {S : State} (op : Op) (hb : Backed n S) (hw : op.within n) : Backed n (step S op) := by
  unfold step
  cases hap : apply S op with
  | error e => exact hb
  | ok S' =>
    simp only
    cases op with
    | register b c p =>
      obtain ⟨_, _, rfl⟩ := registerSecret_ok hap
      exact ⟨hb.solvent, hb.undNonneg, hb.holdersIn, hb.tokIn, hb.rewIn⟩
    | rotateSecret m =>
      obtain ⟨hp, ha, hr⟩ := hw
      have htok := rotateBySecret_token hap
      obtain ⟨S1, hs, hf⟩ := Sekai.Recovery.rotateBySecret_frame hap
      have sf := send_frame hs
      obtain ⟨hfee, _, _⟩ := send_ok hs
      have hrw : S'.hRewards = S.hRewards := by rw [hf.hRewards]; show S1.hRewards = _; exact sf.hRewards
      refine ⟨?_, ?_, ?_, ?_, ?_⟩
      · have e : owed S' n = owed S n := by unfold owed; rw [und_eq_of_token_eq htok, hrw]
        rw [e, hf.bal modAcc ukex (fun e => ha.2.1 e.symm) (fun e => hr.2.1 e.symm)]
        show owed S n ≤ S1.bal modAcc ukex
        have e2 : S1.bal modAcc ukex = S.bal modAcc ukex + recoveryFee := by
          rw [send_bal hs]; simp [hp.2.1, Ne.symm hp.2.1]
        rw [e2]
        have := hb.solvent
        omega
      · intro a t ht; rw [htok] at ht; exact hb.undNonneg a t ht
      · intro x hx; rw [rotateBySecret_holders hap] at hx; exact hb.holdersIn x hx
      · intro a t ht; rw [htok] at ht; exact hb.tokIn a t ht
      · intro a ha'; rw [hrw] at ha'; exact hb.rewIn a ha'
    | rotateHolder m =>
      obtain ⟨_, ha, hr⟩ := hw
      obtain ⟨tok, ht, htok⟩ := rotateByHolder_token hap
      have hf := Sekai.Recovery.rotateByHolder_frame hap
      have hbal : S'.bal = S.bal := by
        obtain ⟨tok', R, c, _, _, _, _, _, rfl⟩ := rotateByHolder_ok hap
        show (holderMoves1 m.addr m.recovery tok' (withRotation S m.addr m.recovery)).bal = _
        rw [holderMoves1_bal]; rfl
      refine ⟨?_, ?_, ?_, ?_, ?_⟩
      · rw [hbal]
        have h1 : sumF (und S') n ≤ sumF (und S) n := by
          have : und S' = fun a => match (if a = m.recovery then some tok else if a = m.addr then none else S.token a) with
                   | some t => t.underlying | none => 0 := by
            funext a; simp only [und, htok]; rfl
          rw [this]
          exact sumF_und_moveToken S m.addr m.recovery tok n ht ha.1 hr.1 hb.undNonneg
        have h2 : S'.hRewards = S.hRewards := hf.hRewards
        unfold owed
        rw [h2]
        have := hb.solvent
        unfold owed at this
        omega
      · intro a t hta
        rw [htok] at hta
        simp only at hta
        split at hta
        · cases hta; exact hb.undNonneg _ _ ht
        · split at hta
          · cases hta
          · exact hb.undNonneg a t hta
      · intro x hx; rw [hf.holders] at hx; exact hb.holdersIn x hx
      · intro a t hta
        rw [htok] at hta
        simp only at hta
        split at hta
        · rename_i e; rw [e]; exact hr.1
        · split at hta
          · cases hta
          · exact hb.tokIn a t hta
      · intro a ha'; rw [hf.hRewards] at ha'; exact hb.rewIn a ha'
    | issue b =>
      obtain ⟨S1, S3, hnone, hs1, _, hs3, rfl⟩ := issue_ok hap
      have f1 := send_frame hs1
      have f3 := send_frame hs3
      obtain ⟨hbond, _, _⟩ := send_ok hs1
      have htok3 : S3.token = S.token := by rw [f3.token]; show S1.token = _; exact f1.token
      have hrw3 : S3.hRewards = S.hRewards := by rw [f3.hRewards]; show S1.hRewards = _; exact f1.hRewards
      have hh3 : S3.holders = S.holders := by rw [f3.holders]; show S1.holders = _; exact f1.holders
      refine ⟨?_, ?_, ?_, ?_, ?_⟩
      · -- module: + bond (the minted coins pass through)
        have hmod : (issueRecord S3 b (rrDenom S b) S.bond).bal modAcc ukex = S.bal modAcc ukex + S.bond := by
          show S3.bal modAcc ukex = _
          have hbm : b ≠ modAcc := hw.2.1
          rw [mint_send_mod_ukex hs3 hbm, send_bal hs1]
          simp [hbm, Ne.symm hbm]
        rw [hmod]
        have hund : sumF (und (issueRecord S3 b (rrDenom S b) S.bond)) n = sumF (und S) n + S.bond := by
          have h1 : (issueRecord S3 b (rrDenom S b) S.bond).token = fun a => if a = b then some ⟨rrDenom S b, issueAmount, S.bond⟩ else S.token a := by
            funext a; show (if a = b then _ else S3.token a) = _; rw [htok3]
          rw [sumF_und_set h1 hw.1]
          have : und S b = 0 := by simp [und, hnone]
          dsimp only
          omega
        unfold owed
        rw [hund]
        show _ + sumF S3.hRewards n ≤ _
        rw [hrw3]
        have := hb.solvent
        unfold owed at this
        omega
      · intro a t hta
        unfold issueRecord at hta
        simp only at hta
        split at hta
        · cases hta; exact hbond
        · rw [htok3] at hta; exact hb.undNonneg a t hta
      · intro x hx
        have : x ∈ S3.holders := hx
        rw [hh3] at this; exact hb.holdersIn x this
      · intro a t hta
        unfold issueRecord at hta
        simp only at hta
        split at hta
        · rename_i e; rw [e]; exact hw.1
        · rw [htok3] at hta; exact hb.tokIn a t hta
      · intro a ha'
        have : S3.hRewards a ≠ 0 := ha'
        rw [hrw3] at this; exact hb.rewIn a this
    | burn b d amt =>
      obtain ⟨owner, tok, S1, S2, S3, hby, ht, hz, hp, hs2, hb3, hu, rfl⟩ := burn_ok hap
      have hbm : b ≠ modAcc := hw.2.1
      -- the three bank steps: module pays the redeem, takes the rr coins, burns them
      have f2 := send_frame hs2
      obtain ⟨_, _, e3⟩ := burnCoins_ok hb3
      have hS1 : S1.token = S.token ∧ S1.hRewards = S.hRewards ∧ S1.holders = S.holders ∧
          S1.bal modAcc ukex = S.bal modAcc ukex - redeemOf tok amt := by
        rcases payRedeem_ok hp with ⟨hr0, rfl⟩ | ⟨_, hs⟩
        · exact ⟨rfl, rfl, rfl, by omega⟩
        · have f := send_frame hs
          refine ⟨f.token, f.hRewards, f.holders, ?_⟩
          rw [send_bal hs]; simp [Ne.symm hbm]
      have hS3tok : S3.token = S.token := by rw [e3]; show S2.token = _; rw [f2.token]; exact hS1.1
      have hS3rw : S3.hRewards = S.hRewards := by rw [e3]; show S2.hRewards = _; rw [f2.hRewards]; exact hS1.2.1
      have hS3h : S3.holders = S.holders := by rw [e3]; show S2.holders = _; rw [f2.holders]; exact hS1.2.2.1
      have hS3mod : S3.bal modAcc ukex = S.bal modAcc ukex - redeemOf tok amt := by
        rw [send_burn_mod_ukex hs2 hb3 hbm]; exact hS1.2.2.2
      have hown : owner < n := hb.tokIn owner tok ht
      have hundo : und S owner = tok.underlying := by simp [und, ht]
      unfold burnRecord
      split
      · -- record deleted
        refine ⟨?_, ?_, ?_, ?_, ?_⟩
        · show owed _ n ≤ S3.bal modAcc ukex
          rw [hS3mod]
          unfold owed
          rw [sumF_und_del (S := S) (v := owner) (by funext a; show (if a = owner then none else S3.token a) = _; rw [hS3tok]) hown]
          show _ + sumF S3.hRewards n ≤ _
          rw [hS3rw]
          have := hb.solvent
          unfold owed at this
          omega
        · intro a t hta
          simp only at hta
          split at hta
          · cases hta
          · rw [hS3tok] at hta; exact hb.undNonneg a t hta
        · intro x hx
          have : x ∈ S3.holders := hx
          rw [hS3h] at this; exact hb.holdersIn x this
        · intro a t hta
          simp only at hta
          split at hta
          · cases hta
          · rw [hS3tok] at hta; exact hb.tokIn a t hta
        · intro a ha'
          have : S3.hRewards a ≠ 0 := ha'
          rw [hS3rw] at this; exact hb.rewIn a this
      · refine ⟨?_, ?_, ?_, ?_, ?_⟩
        · show owed _ n ≤ S3.bal modAcc ukex
          rw [hS3mod]
          unfold owed
          rw [sumF_und_set (S := S) (v := owner) (t := ⟨tok.denom, tok.rrSupply - amt, tok.underlying - redeemOf tok amt⟩)
            (by funext a; show (if a = owner then _ else S3.token a) = _; rw [hS3tok]) hown]
          show _ + sumF S3.hRewards n ≤ _
          rw [hS3rw]
          have := hb.solvent
          unfold owed at this
          dsimp only
          omega
        · intro a t hta
          simp only at hta
          split at hta
          · cases hta; exact hu
          · rw [hS3tok] at hta; exact hb.undNonneg a t hta
        · intro x hx
          have : x ∈ S3.holders := hx
          rw [hS3h] at this; exact hb.holdersIn x this
        · intro a t hta
          simp only at hta
          split at hta
          · rename_i e; rw [e]; exact hown
          · rw [hS3tok] at hta; exact hb.tokIn a t hta
        · intro a ha'
          have : S3.hRewards a ≠ 0 := ha'
          rw [hS3rw] at this; exact hb.rewIn a this
    | claim b =>
      obtain ⟨S1, hs, rfl⟩ := claim_ok hap
      have f := send_frame hs
      have hbm : b ≠ modAcc := hw.2.1
      refine ⟨?_, ?_, ?_, ?_, ?_⟩
      · show owed _ n ≤ S1.bal modAcc ukex
        have e2 : S1.bal modAcc ukex = S.bal modAcc ukex - S.hRewards b := by
          rw [send_bal hs]; simp [hbm, Ne.symm hbm]
        rw [e2]
        unfold owed
        have e1 : und ({ S1 with hRewards := fun a' => if a' = b then 0 else S1.hRewards a' } : State) = und S := by
          exact und_eq_of_token_eq f.token
        rw [e1]
        show _ + sumF (fun a' => if a' = b then 0 else S1.hRewards a') n ≤ _
        rw [f.hRewards, sumF_upd _ b _ n hw.1]
        have := hb.solvent
        unfold owed at this
        omega
      · intro a t hta
        have : S1.token a = some t := hta
        rw [f.token] at this; exact hb.undNonneg a t this
      · intro x hx
        have : x ∈ S1.holders := hx
        rw [f.holders] at this; exact hb.holdersIn x this
      · intro a t hta
        have : S1.token a = some t := hta
        rw [f.token] at this; exact hb.tokIn a t this
      · intro a ha'
        have h1 : (if a = b then (0 : Int) else S1.hRewards a) ≠ 0 := ha'
        by_cases hab : a = b
        · rw [if_pos hab] at h1; exact absurd rfl h1
        · rw [if_neg hab, f.hRewards] at h1; exact hb.rewIn a h1
    | regHolder b =>
      have e : S' = regLoop S b S.order := by
        simp only [apply, registerHolder] at hap; cases hap; rfl
      rw [e]
      -- only the registry changes; a new entry names `b`
      have key : ∀ (l : List Addr) (T : State), T.token = S.token → T.hRewards = S.hRewards → T.bal = S.bal →
          (∀ h ∈ T.holders, h.2 < n) →
          (regLoop T b l).token = S.token ∧ (regLoop T b l).hRewards = S.hRewards ∧ (regLoop T b l).bal = S.bal ∧
            ∀ h ∈ (regLoop T b l).holders, h.2 < n := by
        intro l
        induction l with
        | nil => intro T h1 h2 h3 h4; exact ⟨h1, h2, h3, h4⟩
        | cons a rest ih =>
          intro T h1 h2 h3 h4
          simp only [regLoop]
          split
          · exact ih T h1 h2 h3 h4
          · split
            · exact ih T h1 h2 h3 h4
            · split
              · refine ⟨h1, h2, h3, ?_⟩
                intro h hh
                rcases List.mem_cons.mp hh with rfl | hh
                · exact hw.1
                · exact h4 h hh
              · exact ih T h1 h2 h3 h4
      obtain ⟨k1, k2, k3, k4⟩ := key S.order S rfl rfl rfl hb.holdersIn
      refine ⟨?_, ?_, k4, ?_, ?_⟩
      · unfold owed; rw [und_eq_of_token_eq k1, k2, k3]; exact hb.solvent
      · intro a t hta; rw [k1] at hta; exact hb.undNonneg a t hta
      · intro a t hta; rw [k1] at hta; exact hb.tokIn a t hta
      · intro a ha'; rw [k2] at ha'; exact hb.rewIn a ha'
    | allocate v amt =>
      rcases allocate_ok hap with ⟨_, hs⟩ | ⟨tok, S1, ht, hs, hi⟩
      · exact backed_send_user hb hs (by decide)
      · have f := send_frame hs
        obtain ⟨hamt, _, _⟩ := send_ok hs
        obtain ⟨htot, rfl⟩ := increaseUnderlying_ok hi
        have hv : v < n := hw.1
        -- abbreviations
        generalize hS2 : unregisterLow S1 tok.denom = S2 at *
        have t2 : S2.token = S.token := by subst hS2; exact f.token
        have r2 : S2.hRewards = S.hRewards := by subst hS2; exact f.hRewards
        have b2 : S2.bal modAcc ukex = S.bal modAcc ukex + amt := by
          subst hS2
          show S1.bal modAcc ukex = _
          rw [send_bal hs]; simp [show feeAcc ≠ modAcc by decide, show modAcc ≠ feeAcc by decide]
        have hin2 : ∀ h ∈ S2.holders, h.2 < n := by
          subst hS2
          intro h hh
          have : h ∈ S1.holders := (List.mem_filter.mp hh).1
          rw [f.holders] at this; exact hb.holdersIn h this
        have hsIn : ∀ h ∈ holdersOf S2 tok.denom, h < n := by
          intro h hh
          unfold holdersOf at hh
          obtain ⟨x, hx, rfl⟩ := List.mem_map.mp hh
          exact hin2 x (List.mem_filter.mp hx).1
        refine ⟨?_, ?_, hin2, ?_, ?_⟩
        · show owed _ n ≤ S2.bal modAcc ukex
          rw [b2]
          unfold owed
          show sumF (und _) n + sumF (creditAll S2 tok.denom amt (S2.supply tok.denom) (holdersOf S2 tok.denom) S2.hRewards) n ≤ _
          rw [sumF_creditAll _ _ _ _ _ _ n hsIn, r2]
          rw [sumF_und_set (S := S2) (v := v)
            (t := ⟨tok.denom, tok.rrSupply, tok.underlying + (amt - sumAlloc S2 tok.denom amt (S2.supply tok.denom) (holdersOf S2 tok.denom))⟩) rfl hv,
            und_eq_of_token_eq t2]
          have hu : und S v = tok.underlying := by simp [und, ht]
          have := hb.solvent
          unfold owed at this
          dsimp only
          omega
        · intro a t hta
          simp only at hta
          split at hta
          · cases hta
            have := hb.undNonneg v tok ht
            show 0 ≤ tok.underlying + _
            omega
          · rw [t2] at hta; exact hb.undNonneg a t hta
        · intro a t hta
          simp only at hta
          split at hta
          · rename_i e; rw [e]; exact hv
          · rw [t2] at hta; exact hb.tokIn a t hta
        · intro a ha'
          by_cases hmem : a ∈ holdersOf S2 tok.denom
          · exact hsIn a hmem
          · have : creditAll S2 tok.denom amt (S2.supply tok.denom) (holdersOf S2 tok.denom) S2.hRewards a ≠ 0 := ha'
            rw [creditAll_other _ _ _ _ _ _ _ hmem, r2] at this
            exact hb.rewIn a this
    | xfer b c d amt =>
      exact backed_send_user hb hap hw.1.2.1

/-- … hence along every operation list -/
theorem backed_run {n : Nat} (ops : List Op) {S : State} (hb : Backed n S) (hw : ∀ op ∈ ops, op.within n) : Backed n (run S ops) := by
  induction ops generalizing S with
  | nil => exact hb
  | cons op rest ih =>
    simp only [run, List.foldl_cons]
    exact ih (backed_step op hb (hw op List.mem_cons_self)) (fun o ho => hw o (List.mem_cons_of_mem _ ho))

end Sekai.Recovery
