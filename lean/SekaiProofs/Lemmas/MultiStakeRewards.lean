import SekaiProofs.Lemmas.MultiStakePar
/-! Reward path: frame of `AllocateTokens` (vote records, window, height), the vote wipe of `EndBlocker`, what the
proposer gets without vote records, and the bound on what `IncreasePoolRewards` credits. Core Lean only. -/
namespace Sekai.MultiStake
open Sekai AMap

/-! ## frame: nothing on the reward path touches vote records, snapshot window or height -/
def FrameP (V : List (Nat × Nat)) (N H : Nat) (s : St) : Prop := s.votes = V ∧ s.snapPeriod = N ∧ s.height = H

theorem frame_closed (V : List (Nat × Nat)) (N H : Nat) : Closed (FrameP V N H) := by
  refine ⟨?_, ?_, ?_⟩
  · intro s s' h _ _ _ _ hv hn hh
    exact ⟨hv.trans h.1, hn.trans h.2.1, hh.trans h.2.2⟩
  · intro s b' h _ _; exact h
  · intro s s' a v c h hd
    obtain ⟨p, pc, b1, b3, _, _, _, _, _, heq⟩ := delegate_spec hd
    rw [heq]; exact h

theorem allocate_frame {s s' : St} {prev : Nat} (ha : allocate s prev = some s') :
    s'.votes = s.votes ∧ s'.snapPeriod = s.snapPeriod ∧ s'.height = s.height :=
  (frame_closed s.votes s.snapPeriod s.height).allocate ⟨rfl, rfl, rfl⟩ ha

/-- **the vote wipe**: after `BeginBlocker` and `EndBlocker` of the same block no vote record is left -/
theorem endBlock_wipes_votes {s s1 : St} {h t p : Nat} {c : List Nat} (hb : beginBlock s h t p c = some s1) :
    (endBlock s1).votes = [] := by
  unfold beginBlock at hb
  dsimp only at hb
  split at hb
  · cases hb
  · rename_i s1' hs1
    cases hb
    have hh : s1'.height = h := by
      split at hs1
      · split at hs1
        · cases hs1
        · exact (allocate_frame hs1).2.2
      · cases hs1; rfl
    unfold endBlock
    show (List.filter _ (List.filter _ _)) = []
    rw [List.filter_filter, List.filter_eq_nil_iff]
    intro vh _
    simp only [hh]
    by_cases hc : vh.2 + s1'.snapPeriod ≤ h
    · simp [hc]
    · have : vh.2 + s1'.snapPeriod > h := by omega
      simp [this]

theorem power_of_no_votes {s : St} (h : s.votes = []) (v : Nat) : power s v = 0 := by
  unfold power; rw [h]; rfl

/-! ## the proposer's cut without vote records -/
theorem chopRound_zero : Dec.chopRound 0 = 0 := by decide

theorem roundMul_zero (x : Dec.D) : Dec.roundInt (Dec.mul (Dec.ofInt ((0 : Nat) : Int)) x) = 0 := by
  unfold Dec.roundInt Dec.mul Dec.ofInt
  simp only [Int.natCast_zero, Int.zero_mul]
  rw [chopRound_zero, chopRound_zero]

theorem feeRewards_zero (snap : Nat) (share : Dec.D) (fees : Coins) : feeRewards 0 snap share fees = ([], []) := by
  induction fees with
  | nil => rfl
  | cons x r ih =>
    obtain ⟨d, n⟩ := x
    unfold feeRewards
    rw [ih]
    have hc : feeCut n 0 snap share = (0, 0) := by
      unfold feeCut
      simp only [Nat.mul_zero, Nat.zero_div]
      rw [roundMul_zero]; rfl
    rw [hc]; rfl

theorem natOfInt_zero : natOfInt? 0 = some 0 := by decide

theorem poolPart_zero (s0 : St) (p : Pool) (infl : Nat) : poolPart s0 p 0 infl [] [] = some ([], s0) := by
  unfold poolPart
  simp only [Nat.mul_zero, Nat.zero_div]
  rw [roundMul_zero]
  simp only [Int.natCast_zero, Int.sub_zero, natOfInt_zero]
  rfl

/-- with no vote records "pay previous proposer" changes nothing at all -/
theorem payProposer_no_votes (s0 : St) (prev infl : Nat) (fees : Coins) : payProposer s0 prev 0 infl fees = some s0 := by
  unfold payProposer
  split
  · rfl
  · rw [feeRewards_zero]
    dsimp only
    split
    · rename_i hr
      split at hr
      · cases hr
      · rw [poolPart_zero] at hr; cases hr
    · rename_i valR' s1 hr
      have : valR' = [] ∧ s1 = s0 := by
        split at hr
        · cases hr; exact ⟨rfl, rfl⟩
        · rw [poolPart_zero] at hr; cases hr; exact ⟨rfl, rfl⟩
      obtain ⟨rfl, rfl⟩ := this
      rfl

theorem mintInflation_spec {s s0 : St} {infl : Nat} (hm : mintInflation s infl = some s0) :
    s0.rewards = s.rewards ∧ ∀ (i : Nat) (d : Denom), s0.bal (.user i) d = s.bal (.user i) d := by
  unfold mintInflation at hm
  split at hm
  · split at hm
    · cases hm
    · rename_i b hb
      cases hm
      refine ⟨rfl, fun i d => ?_⟩
      have := Bank.send_bal hb (.user i) d
      rw [Bank.mint_bal] at this
      simp at this
      exact this
  · cases hm; exact ⟨rfl, fun _ _ => rfl⟩

/-- **a proposer without vote records gets nothing**: neither its account nor any recorded delegator reward changes -/
theorem allocate_without_votes {s s' : St} {prev : Nat} (hp : power s prev = 0) (ha : allocate s prev = some s') :
    s'.rewards = s.rewards ∧ ∀ (i : Nat) (d : Denom), s'.bal (.user i) d = s.bal (.user i) d := by
  unfold allocate at ha
  split at ha
  · cases ha; exact ⟨rfl, fun _ _ => rfl⟩
  · split at ha
    · cases ha
    · split at ha
      · cases ha
      · split at ha
        · cases ha
        · rename_i s0 hs0
          dsimp only at ha
          rw [hp, payProposer_no_votes] at ha
          cases ha
          exact ⟨(mintInflation_spec hs0).1, fun i d => (mintInflation_spec hs0).2 i d⟩

/-! ## what `IncreasePoolRewards` credits -/
def sumOver (l : List Nat) (f : Nat → Nat) : Nat :=
  match l with
  | [] => 0
  | a :: r => f a + sumOver r f

theorem sumOver_add (l : List Nat) (f g : Nat → Nat) : sumOver l (fun a => f a + g a) = sumOver l f + sumOver l g := by
  induction l with
  | nil => rfl
  | cons a r ih => simp only [sumOver, ih]; omega

theorem sumOver_zero (l : List Nat) : sumOver l (fun _ => 0) = 0 := by
  induction l with
  | nil => rfl
  | cons a r ih => simp only [sumOver, ih]

theorem sumOver_le (l : List Nat) (f g : Nat → Nat) (h : ∀ a, f a ≤ g a) : sumOver l f ≤ sumOver l g := by
  induction l with
  | nil => exact Nat.le_refl _
  | cons a r ih => simp only [sumOver]; have := h a; omega

/-- integer parts `x·bᵢ / T` of holdings that sum to at most `T` sum to at most `x` -/
theorem sum_div_le (x T : Nat) (l : List Nat) (f : Nat → Nat) (hT : 0 < T) (h : sumOver l f ≤ T) :
    sumOver l (fun a => x * f a / T) ≤ x := by
  have key : ∀ l : List Nat, sumOver l (fun a => x * f a / T) * T ≤ x * sumOver l f := by
    intro l
    induction l with
    | nil => simp [sumOver]
    | cons a r ih =>
      simp only [sumOver]
      have h1 : x * f a / T * T ≤ x * f a := Nat.div_mul_le_self _ _
      rw [Nat.add_mul, Nat.mul_add]
      omega
  have h2 : x * sumOver l f ≤ x * T := Nat.mul_le_mul_left x h
  have h3 := key l
  exact Nat.le_of_mul_le_mul_right (Nat.le_trans h3 h2) hT

theorem get_delegatorPart (alloc : Coins) (b T : Nat) (d : Denom) (d0 : Denom) (x : Nat) :
    get (delegatorPart ((d0, x) :: alloc) b T) d = (if d0 = d then x * b / T else 0) + get (delegatorPart alloc b T) d := by
  simp [delegatorPart, get_cons]

/-- the parts of one allocation handed to holders whose holdings sum to at most the total do not exceed it -/
theorem parts_le (alloc : Coins) (l : List Nat) (f : Nat → Nat) (T : Nat) (hT : 0 < T) (h : sumOver l f ≤ T) (d : Denom) :
    sumOver l (fun a => get (delegatorPart alloc (f a) T) d) ≤ get alloc d := by
  induction alloc with
  | nil => simp [delegatorPart, sumOver_zero]
  | cons x r ih =>
    obtain ⟨d0, n0⟩ := x
    have e : (fun a => get (delegatorPart ((d0, n0) :: r) (f a) T) d) =
        (fun a => (if d0 = d then n0 * f a / T else 0) + get (delegatorPart r (f a) T) d) := by
      funext a; exact get_delegatorPart r (f a) T d d0 n0
    rw [e, sumOver_add, get_cons]
    by_cases hd : d0 = d
    · simp only [hd, if_true]
      have := sum_div_le n0 T l f hT h
      omega
    · simp only [hd, if_false, sumOver_zero]
      omega

def creditSum : List (Nat × Coins) → Denom → Nat
  | [], _ => 0
  | (_, c) :: r, d => get c d + creditSum r d

theorem creditSum_append (a b : List (Nat × Coins)) (d : Denom) : creditSum (a ++ b) d = creditSum a d + creditSum b d := by
  induction a with
  | nil => simp [creditSum]
  | cons x r ih => obtain ⟨a0, c0⟩ := x; simp [creditSum, ih]; omega

theorem creditSum_creditsOfDenom (s : St) (delegs : List Nat) (sd : Denom) (total : Nat) (alloc : Coins) (d : Denom) :
    creditSum (creditsOfDenom s delegs sd total alloc) d =
      sumOver delegs (fun a => get (delegatorPart alloc (s.bal (.user a) sd) total) d) := by
  induction delegs with
  | nil => rfl
  | cons a r ih =>
    unfold creditsOfDenom at ih ⊢
    simp only [List.map, creditSum, sumOver, ih]

/-- the part of the reward in `d` set aside for one share denom: `RoundInt(reward·StakeCap)` if it counts -/
def denomPart (s : St) (rewards : Coins) (d : Denom) (sd : Denom) (total : Nat) : Nat :=
  match s.tokInfo ⟨0, sd.tok⟩ with
  | none => 0
  | some ti =>
    if ti.stakeCap = 0 then 0 else
    if total = 0 then 0 else
    match denomAllocation ti.stakeCap rewards with
    | none => 0
    | some alloc => get alloc d

/-- the sum over the pool's share denoms of the per-denom rounded parts -/
def allocSum (s : St) (rewards : Coins) (d : Denom) : Coins → Nat
  | [] => 0
  | (sd, total) :: r => denomPart s rewards d sd total + allocSum s rewards d r

/-- **Σ credited ≤ Σ per-denom rounded parts**, whenever the registered delegators' holdings of each share denom
do not exceed the recorded total (which is invariant (a) + bank conservation) -/
theorem poolCredits_le {s : St} {delegs : List Nat} {rewards shares : Coins} {credits : List (Nat × Coins)}
    (h : poolCredits s delegs rewards shares = some credits)
    (hb : ∀ sd total, (sd, total) ∈ shares → sumOver delegs (fun a => s.bal (.user a) sd) ≤ total) (d : Denom) :
    creditSum credits d ≤ allocSum s rewards d shares := by
  induction shares generalizing credits with
  | nil => simp [poolCredits] at h; subst h; exact Nat.le_refl _
  | cons x r ih =>
    obtain ⟨sd, total⟩ := x
    unfold poolCredits at h
    split at h
    · cases h
    · rename_i rest hrest
      have ih' := ih hrest (fun sd' t' hm => hb sd' t' (List.mem_cons_of_mem _ hm))
      unfold allocSum denomPart
      split at h
      · cases h; rename_i hti; simp only [hti]; omega
      · rename_i ti hti
        simp only [hti]
        split at h
        · cases h; rename_i hc; simp only [hc, if_true]; omega
        · rename_i hc
          simp only [hc, if_false]
          split at h
          · cases h; rename_i ht; simp only [ht, if_true]; omega
          · rename_i ht
            simp only [ht, if_false]
            split at h
            · cases h
            · rename_i alloc hal
              cases h
              simp only [hal]
              rw [creditSum_append, creditSum_creditsOfDenom]
              have := parts_le alloc delegs (fun a => s.bal (.user a) sd) total (by omega)
                (hb sd total List.mem_cons_self) d
              omega

/-- one denom's allocation never exceeds the reward when `0 ≤ StakeCap ≤ 1` -/
theorem denomAllocation_le {cap : Dec.D} {rewards alloc : Coins} (h0 : 0 ≤ cap) (h1 : cap ≤ Dec.one)
    (h : denomAllocation cap rewards = some alloc) (d : Denom) : get alloc d ≤ get rewards d := by
  induction rewards generalizing alloc with
  | nil => unfold denomAllocation at h; cases h; exact Nat.le_refl _
  | cons x r ih =>
    obtain ⟨d0, n0⟩ := x
    unfold denomAllocation at h
    split at h
    · cases h
    · rename_i k hk
      split at h
      · cases h
      · rename_i r' hr
        cases h
        have hkn : k ≤ n0 := by
          unfold natOfInt? at hk
          split at hk
          · cases hk
          · cases hk
            have hP := P_pos
            have hnn : 0 ≤ (n0 : Int) * cap := Int.mul_nonneg (Int.natCast_nonneg _) h0
            have hmul : Dec.mul (Dec.ofInt n0) cap = (n0 : Int) * cap := by
              unfold Dec.mul Dec.ofInt
              have : (n0 : Int) * Dec.P * cap = ((n0 : Int) * cap) * Dec.P := by
                rw [Int.mul_assoc, Int.mul_comm Dec.P cap, ← Int.mul_assoc]
              rw [this, chopRound_mul_P _ hnn]
            have hle : (n0 : Int) * cap ≤ (n0 : Int) * Dec.P :=
              Int.mul_le_mul_of_nonneg_left h1 (Int.natCast_nonneg _)
            have := chopRound_le ((n0 : Int) * cap) n0 hnn hle
            unfold Dec.roundInt
            rw [hmul]
            omega
        have := ih hr
        simp only [get_cons]
        split <;> omega

end Sekai.MultiStake
