import Sekai.Model.Basket
/-! Helper lemmas for C11 (basket): `Dec` rounding facts, association maps, coins, bank primitives, token lists. -/
namespace Sekai.Lemmas.Basket
open Sekai Sekai.Basket

/-! ## Dec -/

theorem P_pos : 0 < Dec.P := by decide
theorem P_eq_two_half : Dec.P = 2 * Dec.half := by decide

theorem chopRound_mul_P (k : Int) : Dec.chopRound (k * Dec.P) = k := by
  have hP := P_pos
  have hh : 0 < Dec.half := by decide
  unfold Dec.chopRound
  by_cases hk : k < 0
  · have h1 : k * Dec.P < 0 := Int.mul_neg_of_neg_of_pos hk hP
    have h2 : -(k * Dec.P) = (-k) * Dec.P := by rw [Int.neg_mul]
    simp only [h1, if_true, h2, Int.mul_ediv_cancel _ (Int.ne_of_gt hP), Int.mul_emod_left, hh]
    omega
  · have h1 : ¬ (k * Dec.P < 0) := by
      have : 0 ≤ k * Dec.P := Int.mul_nonneg (by omega) (by omega)
      omega
    simp only [h1, if_false, Int.mul_ediv_cancel _ (Int.ne_of_gt hP), Int.mul_emod_left, hh, if_true]

/-- `NewDecFromInt(a).Mul(w)` is exact -/
theorem mul_ofInt (a w : Int) : Dec.mul (Dec.ofInt a) w = a * w := by
  unfold Dec.mul Dec.ofInt
  have : a * Dec.P * w = (a * w) * Dec.P := by
    rw [Int.mul_assoc, Int.mul_comm Dec.P w, ← Int.mul_assoc]
  rw [this, chopRound_mul_P]

theorem mul_ofInt' (a w : Int) : Dec.mul w (Dec.ofInt a) = a * w := by
  unfold Dec.mul Dec.ofInt
  have : w * (a * Dec.P) = (a * w) * Dec.P := by
    rw [← Int.mul_assoc, Int.mul_comm w a]
  rw [this, chopRound_mul_P]

theorem chopRound_le (x : Int) (hx : 0 ≤ x) : Dec.chopRound x ≤ x / Dec.P + 1 := by
  unfold Dec.chopRound
  have hneg : ¬ (x < 0) := by omega
  simp only [hneg, if_false]
  repeat' split
  all_goals omega

theorem chopRound_ge (x : Int) (hx : 0 ≤ x) : x / Dec.P ≤ Dec.chopRound x := by
  unfold Dec.chopRound
  have hneg : ¬ (x < 0) := by omega
  simp only [hneg, if_false]
  repeat' split
  all_goals omega

theorem chopRound_nonneg (x : Int) (hx : 0 ≤ x) : 0 ≤ Dec.chopRound x := by
  have := chopRound_ge x hx
  have : 0 ≤ x / Dec.P := Int.ediv_nonneg hx (Int.le_of_lt P_pos)
  omega

/-- `TruncateInt` rounds toward zero: for a non-negative value it is the floor -/
theorem truncInt_mul_le (x : Int) (hx : 0 ≤ x) : Dec.truncInt x * Dec.P ≤ x := by
  unfold Dec.truncInt
  rw [Int.tdiv_eq_ediv_of_nonneg hx]
  exact Int.ediv_mul_le x (Int.ne_of_gt P_pos)

theorem truncInt_lt (x : Int) (hx : 0 ≤ x) : x < Dec.truncInt x * Dec.P + Dec.P := by
  unfold Dec.truncInt
  rw [Int.tdiv_eq_ediv_of_nonneg hx]
  have := Int.lt_ediv_add_one_mul_self x P_pos
  rw [Int.add_mul, Int.one_mul] at this
  exact this

theorem truncInt_nonneg (x : Int) (hx : 0 ≤ x) : 0 ≤ Dec.truncInt x := by
  unfold Dec.truncInt
  rw [Int.tdiv_eq_ediv_of_nonneg hx]
  exact Int.ediv_nonneg hx (Int.le_of_lt P_pos)

theorem truncInt_mono (x y : Int) (hx : 0 ≤ x) (hxy : x ≤ y) : Dec.truncInt x ≤ Dec.truncInt y := by
  unfold Dec.truncInt
  rw [Int.tdiv_eq_ediv_of_nonneg hx, Int.tdiv_eq_ediv_of_nonneg (by omega)]
  exact Int.ediv_le_ediv P_pos hxy

theorem truncInt_mul_P (k : Int) : Dec.truncInt (k * Dec.P) = k := by
  unfold Dec.truncInt
  exact Int.mul_tdiv_cancel k (Int.ne_of_gt P_pos)

/-- `a.Quo(b)` (half-even at 10⁻¹⁸) over-states the quotient by at most one unit of 10⁻¹⁸ -/
theorem quo_mul_le (a b : Int) (ha : 0 ≤ a) (hb : 0 < b) : Dec.quo a b * b ≤ a * Dec.P + b := by
  unfold Dec.quo
  have hP := P_pos
  have hx : 0 ≤ a * Dec.P * Dec.P := Int.mul_nonneg (Int.mul_nonneg ha (by omega)) (by omega)
  rw [Int.tdiv_eq_ediv_of_nonneg hx]
  have hq : 0 ≤ a * Dec.P * Dec.P / b := Int.ediv_nonneg hx (by omega)
  have h1 := chopRound_le _ hq
  -- (x / P) * b ≤ a * P   where x = a P P / b
  have h2 : a * Dec.P * Dec.P / b * b ≤ a * Dec.P * Dec.P := Int.ediv_mul_le _ (by omega)
  have h3 : a * Dec.P * Dec.P / b / Dec.P * Dec.P ≤ a * Dec.P * Dec.P / b := Int.ediv_mul_le _ (by omega)
  -- set names
  generalize a * Dec.P * Dec.P / b = x at *
  generalize hy : x / Dec.P = y at *
  have hy0 : 0 ≤ y := by rw [← hy]; exact Int.ediv_nonneg hq (by omega)
  -- y * P ≤ x, x * b ≤ a P P  ⇒ y * b * P ≤ a P P ⇒ y * b ≤ a P
  have h4 : y * Dec.P * b ≤ x * b := Int.mul_le_mul_of_nonneg_right h3 (by omega)
  have h5 : y * b * Dec.P ≤ a * Dec.P * Dec.P := by
    have : y * b * Dec.P = y * Dec.P * b := by rw [Int.mul_assoc, Int.mul_comm b, ← Int.mul_assoc]
    omega
  have h6 : y * b ≤ a * Dec.P := Int.le_of_mul_le_mul_right h5 hP
  have h7 : Dec.chopRound x * b ≤ (y + 1) * b := Int.mul_le_mul_of_nonneg_right h1 (by omega)
  rw [Int.add_mul, Int.one_mul] at h7
  exact Int.le_trans h7 (Int.add_le_add_right h6 b)

theorem quo_nonneg (a b : Int) (ha : 0 ≤ a) (hb : 0 < b) : 0 ≤ Dec.quo a b := by
  unfold Dec.quo
  have hx : 0 ≤ a * Dec.P * Dec.P := Int.mul_nonneg (Int.mul_nonneg ha (Int.le_of_lt P_pos)) (Int.le_of_lt P_pos)
  rw [Int.tdiv_eq_ediv_of_nonneg hx]
  exact chopRound_nonneg _ (Int.ediv_nonneg hx (by omega))

/-! ## association maps -/

section amap
variable {κ : Type} [DecidableEq κ]

theorem get_filter_ne (m : AMap κ) (k k' : κ) (h : k' ≠ k) :
    AMap.get (List.filter (fun p => decide (p.1 ≠ k)) m : AMap κ) k' = AMap.get m k' := by
  induction m with
  | nil => rfl
  | cons p r ih =>
    obtain ⟨pk, pv⟩ := p
    by_cases hp : pk = k
    · subst hp
      have hne : ¬ (pk = k') := fun e => h e.symm
      rw [List.filter_cons_of_neg (by simp)]
      simp only [AMap.get, hne, if_false]
      exact ih
    · rw [List.filter_cons_of_pos (by simp [hp])]
      simp only [AMap.get]
      rw [ih]

theorem get_set_self (m : AMap κ) (k : κ) (v : Int) : (m.set k v).get k = v := by
  simp [AMap.set, AMap.get]

theorem get_set_ne (m : AMap κ) (k k' : κ) (v : Int) (h : k' ≠ k) : (m.set k v).get k' = m.get k' := by
  have hne : ¬ (k = k') := fun e => h e.symm
  simp only [AMap.set, AMap.get, hne, if_false]
  exact get_filter_ne m k k' h

theorem get_set (m : AMap κ) (k k' : κ) (v : Int) : (m.set k v).get k' = if k' = k then v else m.get k' := by
  by_cases h : k' = k
  · subst h; simp [get_set_self]
  · simp [h, get_set_ne]
end amap

/-! ## coins -/

theorem amountOf_add1 (cs : Coins) (c : Coin) (d : Denom) :
    amountOf (add1 cs c) d = amountOf cs d + (if c.denom = d then c.amount else 0) := by
  induction cs with
  | nil =>
    unfold add1
    by_cases h0 : c.amount = 0
    · simp [h0, amountOf]
    · simp [h0, amountOf]
  | cons x xs ih =>
    unfold add1
    split
    · split
      · rename_i h0; simp [h0]
      · simp only [amountOf]; omega
    · split
      · rename_i h2
        split
        · simp only [amountOf, h2]; split <;> omega
        · simp only [amountOf, h2]; split <;> omega
      · simp only [amountOf, ih]; omega

theorem amountOf_foldl_add1 (b a : Coins) (d : Denom) :
    amountOf (b.foldl add1 a) d = amountOf a d + amountOf b d := by
  induction b generalizing a with
  | nil => simp [amountOf]
  | cons c cs ih => simp only [List.foldl, ih, amountOf_add1, amountOf]; omega

theorem amountOf_addCoins (a b : Coins) (d : Denom) :
    amountOf (addCoins a b) d = amountOf a d + amountOf b d := amountOf_foldl_add1 b a d

theorem amountOf_nil (d : Denom) : amountOf [] d = 0 := rfl

theorem amountOf_neg (b : Coins) (d : Denom) :
    amountOf (b.map fun c => (⟨c.denom, -c.amount⟩ : Coin)) d = - amountOf b d := by
  induction b with
  | nil => simp [amountOf]
  | cons c cs ih =>
    simp only [List.map, amountOf, ih]
    by_cases h : c.denom = d <;> simp [h] <;> omega

theorem subCoins?_spec (a b r : Coins) (h : subCoins? a b = some r) (d : Denom) :
    amountOf r d = amountOf a d - amountOf b d := by
  unfold subCoins? at h
  simp only at h
  split at h
  · cases h
  · cases h
    rw [amountOf_addCoins, amountOf_neg]; omega

/-- all amounts of a coin list are positive -/
def AllPos (cs : Coins) : Prop := ∀ c ∈ cs, 0 < c.amount

theorem allPos_add1 (cs : Coins) (c : Coin) (h : AllPos cs) (hc : 0 < c.amount) : AllPos (add1 cs c) := by
  induction cs with
  | nil =>
    unfold add1
    have : ¬ c.amount = 0 := by omega
    simp only [this, if_false]
    intro x hx; simp at hx; subst hx; exact hc
  | cons x xs ih =>
    have hx : 0 < x.amount := h x (by simp)
    have hxs : AllPos xs := fun y hy => h y (by simp [hy])
    unfold add1
    have h0 : ¬ c.amount = 0 := by omega
    have h3 : ¬ x.amount + c.amount = 0 := by omega
    simp only [h0, h3, if_false]
    split
    · intro y hy
      simp at hy
      rcases hy with rfl | rfl | hy
      · exact hc
      · exact hx
      · exact hxs y hy
    · split
      · intro y hy
        simp at hy
        rcases hy with rfl | hy
        · show 0 < x.amount + c.amount; omega
        · exact hxs y hy
      · intro y hy
        simp at hy
        rcases hy with rfl | hy
        · exact hx
        · exact ih hxs y hy

theorem amountOf_nonneg_of_allPos (cs : Coins) (h : AllPos cs) (d : Denom) : 0 ≤ amountOf cs d := by
  induction cs with
  | nil => simp [amountOf]
  | cons x xs ih =>
    have hx : 0 < x.amount := h x (by simp)
    have := ih (fun y hy => h y (by simp [hy]))
    simp only [amountOf]
    split <;> omega

theorem validCoins_allPos (cs : Coins) (h : validCoins cs = true) : AllPos cs := by
  induction cs with
  | nil => intro c hc; cases hc
  | cons x xs ih =>
    unfold validCoins at h
    simp only [Bool.and_eq_true, decide_eq_true_eq] at h
    intro c hc
    simp at hc
    rcases hc with rfl | hc
    · exact h.1.1
    · exact ih h.2 c hc

/-! ## bank -/

theorem balOf_set (b : Bank) (a a' : Acct) (d d' : Denom) (v : Int) :
    AMap.get (b.bal.set (a, d) v) (a', d') = if a' = a ∧ d = d' then v else b.balOf a' d' := by
  rw [get_set]
  by_cases h : a' = a ∧ d = d'
  · obtain ⟨h1, h2⟩ := h; subst h1; subst h2; simp
  · have : ¬ ((a', d') = (a, d)) := by
      intro e; rw [Prod.mk.injEq] at e; exact h ⟨e.1, e.2.symm⟩
    simp only [this, h, if_false]; rfl

theorem sub1_spec (b b' : Bank) (a : Acct) (c : Coin) (h : b.sub1 a c = some b') :
    b'.supply = b.supply ∧ c.amount ≤ b.balOf a c.denom ∧
    ∀ a' d, b'.balOf a' d = b.balOf a' d - (if a' = a ∧ c.denom = d then c.amount else 0) := by
  unfold Bank.sub1 at h
  split at h
  · cases h
  · rename_i hlt
    cases h
    refine ⟨rfl, by omega, ?_⟩
    intro a' d
    show AMap.get (b.bal.set (a, c.denom) _) (a', d) = _
    rw [balOf_set]
    by_cases hh : a' = a ∧ c.denom = d
    · obtain ⟨h1, h2⟩ := hh; subst h1; subst h2; simp
    · simp [hh]

theorem add1_spec (b : Bank) (a : Acct) (c : Coin) :
    (b.add1 a c).supply = b.supply ∧
    ∀ a' d, (b.add1 a c).balOf a' d = b.balOf a' d + (if a' = a ∧ c.denom = d then c.amount else 0) := by
  refine ⟨rfl, ?_⟩
  intro a' d
  show AMap.get (b.bal.set (a, c.denom) _) (a', d) = _
  rw [balOf_set]
  by_cases hh : a' = a ∧ c.denom = d
  · obtain ⟨h1, h2⟩ := hh; subst h1; subst h2; simp
  · simp [hh]

theorem subCoins_spec (cs : Coins) (b b' : Bank) (a : Acct) (h : b.subCoins a cs = some b') :
    b'.supply = b.supply ∧
    ∀ a' d, b'.balOf a' d = b.balOf a' d - (if a' = a then amountOf cs d else 0) := by
  induction cs generalizing b with
  | nil =>
    unfold Bank.subCoins at h; cases h
    exact ⟨rfl, fun a' d => by simp [amountOf]⟩
  | cons c cs ih =>
    unfold Bank.subCoins at h
    split at h
    · cases h
    · rename_i b1 h1
      obtain ⟨s1, _, e1⟩ := sub1_spec b b1 a c h1
      obtain ⟨s2, e2⟩ := ih b1 h
      refine ⟨by rw [s2, s1], ?_⟩
      intro a' d
      rw [e2, e1]
      simp only [amountOf]
      by_cases ha : a' = a
      · subst ha
        by_cases hd : c.denom = d <;> simp [hd] <;> omega
      · simp [ha]

theorem addCoinsTo_spec (cs : Coins) (b : Bank) (a : Acct) :
    (b.addCoinsTo a cs).supply = b.supply ∧
    ∀ a' d, (b.addCoinsTo a cs).balOf a' d = b.balOf a' d + (if a' = a then amountOf cs d else 0) := by
  induction cs generalizing b with
  | nil => exact ⟨rfl, fun a' d => by simp [Bank.addCoinsTo, amountOf]⟩
  | cons c cs ih =>
    unfold Bank.addCoinsTo
    obtain ⟨s1, e1⟩ := add1_spec b a c
    obtain ⟨s2, e2⟩ := ih (b.add1 a c)
    refine ⟨by rw [s2, s1], ?_⟩
    intro a' d
    rw [e2, e1]
    simp only [amountOf]
    by_cases ha : a' = a
    · subst ha
      by_cases hd : c.denom = d <;> simp [hd] <;> omega
    · simp [ha]

theorem send_spec (b b' : Bank) (src dst : Acct) (cs : Coins) (h : b.send src dst cs = some b') :
    validCoins cs = true ∧ b'.supply = b.supply ∧
    ∀ a' d, b'.balOf a' d = b.balOf a' d - (if a' = src then amountOf cs d else 0)
                                        + (if a' = dst then amountOf cs d else 0) := by
  unfold Bank.send at h
  split at h
  · rename_i hv
    split at h
    · cases h
    · rename_i b1 h1
      cases h
      obtain ⟨s1, e1⟩ := subCoins_spec cs b b1 src h1
      obtain ⟨s2, e2⟩ := addCoinsTo_spec cs b1 dst
      refine ⟨hv, by rw [s2, s1], ?_⟩
      intro a' d
      rw [e2, e1]
  · cases h

theorem supplyOf_set (b : Bank) (d d' : Denom) (v : Int) :
    AMap.get (b.supply.set d v) d' = if d = d' then v else b.supplyOf d' := by
  rw [get_set]
  by_cases h : d = d'
  · subst h; simp
  · have : ¬ d' = d := fun e => h e.symm
    simp only [this, h, if_false]; rfl

theorem mint_spec (b b' : Bank) (c : Coin) (h : b.mint c = some b') :
    0 < c.amount ∧
    (∀ d, b'.supplyOf d = b.supplyOf d + (if c.denom = d then c.amount else 0)) ∧
    ∀ a' d, b'.balOf a' d = b.balOf a' d + (if a' = Acct.module ∧ c.denom = d then c.amount else 0) := by
  unfold Bank.mint at h
  split at h
  · rename_i hpos
    cases h
    obtain ⟨s1, e1⟩ := add1_spec b .module c
    refine ⟨hpos, ?_, ?_⟩
    · intro d
      show AMap.get ((b.add1 .module c).supply.set c.denom _) d = _
      rw [supplyOf_set]
      by_cases hd : c.denom = d
      · subst hd; simp only [if_true]; show (b.add1 .module c).supply.get _ + _ = _; rw [s1]; rfl
      · simp only [hd, if_false]; show (b.add1 .module c).supply.get _ = _; rw [s1]; simp [Bank.supplyOf]
    · intro a' d; exact e1 a' d
  · cases h

theorem burn_spec (b b' : Bank) (c : Coin) (h : b.burn c = some b') :
    0 < c.amount ∧
    (∀ d, b'.supplyOf d = b.supplyOf d - (if c.denom = d then c.amount else 0)) ∧
    ∀ a' d, b'.balOf a' d = b.balOf a' d - (if a' = Acct.module ∧ c.denom = d then c.amount else 0) := by
  unfold Bank.burn at h
  split at h
  · rename_i hpos
    split at h
    · cases h
    · rename_i b1 h1
      cases h
      obtain ⟨s1, _, e1⟩ := sub1_spec b b1 .module c h1
      refine ⟨hpos, ?_, ?_⟩
      · intro d
        show AMap.get (b1.supply.set c.denom _) d = _
        rw [supplyOf_set]
        by_cases hd : c.denom = d
        · subst hd; simp only [if_true]; show b1.supply.get _ - _ = _; rw [s1]; rfl
        · simp only [hd, if_false]; show b1.supply.get _ = _; rw [s1]; simp [Bank.supplyOf]
      · intro a' d; exact e1 a' d
  · cases h

theorem supplyOf_eq_of_supply_eq (b b' : Bank) (h : b'.supply = b.supply) (d : Denom) :
    b'.supplyOf d = b.supplyOf d := by unfold Bank.supplyOf; rw [h]

/-! ## token lists -/

/-- the part of a token that mint / burn / swap never change -/
def static (t : Token) : Denom × Dec.D × Bool × Bool × Bool := (t.denom, t.weight, t.deposits, t.withdraws, t.swaps)

def NonNeg (ts : List Token) : Prop := ∀ t ∈ ts, 0 ≤ t.amount

theorem reserveOf_nonneg (ts : List Token) (h : NonNeg ts) (d : Denom) : 0 ≤ reserveOf ts d := by
  induction ts with
  | nil => simp [reserveOf]
  | cons t ts ih =>
    have ht : 0 ≤ t.amount := h t (by simp)
    have := ih (fun y hy => h y (by simp [hy]))
    simp only [reserveOf]
    split <;> omega

theorem addAmt_isSome (d : Denom) (δ : Int) (ts : List Token) :
    (addAmt d δ ts).isSome = (lookupLast d ts).isSome := by
  induction ts with
  | nil => rfl
  | cons t ts ih =>
    unfold addAmt lookupLast
    cases h1 : addAmt d δ ts <;> cases h2 : lookupLast d ts <;> simp [h1, h2] at ih ⊢
    split <;> simp

theorem addAmt_spec (d : Denom) (δ : Int) (ts ts' : List Token) (h : addAmt d δ ts = some ts') :
    (∀ d', reserveOf ts' d' = reserveOf ts d' + (if d = d' then δ else 0)) ∧
    ts'.map static = ts.map static := by
  induction ts generalizing ts' with
  | nil => cases h
  | cons t ts ih =>
    unfold addAmt at h
    split at h
    · rename_i ts1 h1
      cases h
      obtain ⟨e1, e2⟩ := ih ts1 h1
      refine ⟨?_, ?_⟩
      · intro d'; simp only [reserveOf, e1]; omega
      · simp only [List.map, e2]
    · split at h
      · rename_i hd
        cases h
        refine ⟨?_, ?_⟩
        · intro d'
          simp only [reserveOf, hd]
          split <;> omega
        · simp [List.map, static]
      · cases h

theorem addAmt_nonneg (d : Denom) (δ : Int) (ts ts' : List Token) (h : addAmt d δ ts = some ts')
    (hn : NonNeg ts) (hl : ∀ t, lookupLast d ts = some t → 0 ≤ t.amount + δ) : NonNeg ts' := by
  induction ts generalizing ts' with
  | nil => cases h
  | cons t ts ih =>
    have ht : 0 ≤ t.amount := hn t (by simp)
    have hts : NonNeg ts := fun y hy => hn y (by simp [hy])
    unfold addAmt at h
    split at h
    · rename_i ts1 h1
      cases h
      have hs : (lookupLast d ts).isSome = true := by rw [← addAmt_isSome d δ ts, h1]; rfl
      have : NonNeg ts1 := by
        apply ih ts1 h1 hts
        intro x hx
        apply hl x
        unfold lookupLast; rw [hx]
      intro y hy
      simp at hy
      rcases hy with rfl | hy
      · exact ht
      · exact this y hy
    · rename_i h1
      have hs : lookupLast d ts = none := by
        have := addAmt_isSome d δ ts
        rw [h1] at this
        cases hh : lookupLast d ts with
        | none => rfl
        | some x => rw [hh] at this; cases this
      split at h
      · rename_i hd
        cases h
        have : 0 ≤ t.amount + δ := by
          apply hl t
          unfold lookupLast; rw [hs]; simp [hd]
        intro y hy
        simp at hy
        rcases hy with rfl | hy
        · exact this
        · exact hts y hy
      · cases h

theorem lookupLast_static (d : Denom) (ts ts' : List Token) (h : ts'.map static = ts.map static) :
    (lookupLast d ts').map static = (lookupLast d ts).map static := by
  induction ts generalizing ts' with
  | nil =>
    cases ts' with
    | nil => rfl
    | cons a b => simp at h
  | cons t ts ih =>
    cases ts' with
    | nil => simp at h
    | cons t' ts' =>
      simp only [List.map, List.cons.injEq] at h
      obtain ⟨h1, h2⟩ := h
      have ih' := ih ts' h2
      have hden : t'.denom = t.denom := by
        have := congrArg Prod.fst h1; exact this
      unfold lookupLast
      cases ha : lookupLast d ts' <;> cases hb : lookupLast d ts <;> simp [ha, hb] at ih' ⊢
      · rw [hden]
        split
        · simp [h1]
        · simp
      · exact ih'

theorem lookupLast_static' (d : Denom) (ts ts' : List Token) (h : ts'.map static = ts.map static) :
    match lookupLast d ts', lookupLast d ts with
    | some a, some b => static a = static b
    | none, none => True
    | _, _ => False := by
  have := lookupLast_static d ts ts' h
  cases ha : lookupLast d ts' <;> cases hb : lookupLast d ts <;> simp [ha, hb] at this ⊢
  exact this

theorem lookupLast_mem (d : Denom) (ts : List Token) (t : Token) (h : lookupLast d ts = some t) :
    t ∈ ts ∧ t.denom = d := by
  induction ts with
  | nil => cases h
  | cons x xs ih =>
    unfold lookupLast at h
    split at h
    · rename_i y hy; cases h; exact ⟨by simp [(ih hy).1], (ih hy).2⟩
    · split at h
      · rename_i hd; cases h; exact ⟨by simp, hd⟩
      · cases h

theorem incTokens_spec (cs : Coins) (ts ts' : List Token) (h : incTokens ts cs = some ts') :
    (∀ d, reserveOf ts' d = reserveOf ts d + amountOf cs d) ∧ ts'.map static = ts.map static ∧
    (AllPos cs → NonNeg ts → NonNeg ts') := by
  induction cs generalizing ts with
  | nil =>
    unfold incTokens at h; cases h
    exact ⟨fun d => by simp [amountOf], rfl, fun _ hn => hn⟩
  | cons c cs ih =>
    unfold incTokens at h
    split at h
    · cases h
    · rename_i ts1 h1
      obtain ⟨e1, e2⟩ := addAmt_spec _ _ _ _ h1
      obtain ⟨f1, f2, f3⟩ := ih ts1 h
      refine ⟨?_, by rw [f2, e2], ?_⟩
      · intro d; rw [f1, e1]; simp only [amountOf]; omega
      · intro hp hn
        apply f3 (fun y hy => hp y (by simp [hy]))
        apply addAmt_nonneg _ _ _ _ h1 hn
        intro t ht
        have h0 : 0 ≤ t.amount := by
          have : t ∈ ts := (lookupLast_mem _ _ _ ht).1
          exact hn t this
        have : 0 < c.amount := hp c (by simp)
        omega

theorem subAmt_spec (d : Denom) (δ : Int) (ts ts' : List Token) (h : subAmt d δ ts = some ts') :
    (∀ d', reserveOf ts' d' = reserveOf ts d' - (if d = d' then δ else 0)) ∧
    ts'.map static = ts.map static ∧ (NonNeg ts → NonNeg ts') := by
  unfold subAmt at h
  split at h
  · cases h
  · rename_i t ht
    split at h
    · cases h
    · rename_i hge
      obtain ⟨e1, e2⟩ := addAmt_spec _ _ _ _ h
      refine ⟨?_, e2, ?_⟩
      · intro d'; rw [e1]; split <;> omega
      · intro hn
        apply addAmt_nonneg _ _ _ _ h hn
        intro x hx
        rw [ht] at hx; cases hx
        omega

theorem decTokens_spec (cs : Coins) (ts ts' : List Token) (h : decTokens ts cs = some ts') :
    (∀ d, reserveOf ts' d = reserveOf ts d - amountOf cs d) ∧ ts'.map static = ts.map static ∧
    (NonNeg ts → NonNeg ts') := by
  induction cs generalizing ts with
  | nil =>
    unfold decTokens at h; cases h
    exact ⟨fun d => by simp [amountOf], rfl, fun hn => hn⟩
  | cons c cs ih =>
    unfold decTokens at h
    split at h
    · cases h
    · rename_i ts1 h1
      obtain ⟨e1, e2, e3⟩ := subAmt_spec _ _ _ _ h1
      obtain ⟨f1, f2, f3⟩ := ih ts1 h
      refine ⟨?_, by rw [f2, e2], fun hn => f3 (e3 hn)⟩
      intro d; rw [f1, e1]; simp only [amountOf]; omega

/-! ## the list of baskets -/

theorem getBasket_id (bs : List Basket) (id : Nat) (b : Basket) (h : getBasket bs id = some b) : b.id = id := by
  induction bs with
  | nil => cases h
  | cons x xs ih =>
    unfold getBasket at h
    split at h
    · rename_i hx; cases h; exact hx
    · exact ih h

theorem getBasket_setBasket (bs : List Basket) (nb : Basket) (id : Nat) :
    getBasket (setBasket bs nb) id = if nb.id = id then some nb else getBasket bs id := by
  induction bs with
  | nil => simp [setBasket, getBasket]
  | cons x xs ih =>
    unfold setBasket
    by_cases hx : x.id = nb.id
    · simp only [hx, if_true, getBasket]
      by_cases hn : nb.id = id
      · simp [hn]
      · simp [hn, hx]
    · simp only [hx, if_false, getBasket, ih]
      by_cases hn : nb.id = id
      · have : ¬ x.id = id := by rw [← hn]; exact hx
        simp [hn, this]
      · simp [hn]

/-- what basket `b` says the module owes in denom `d`: reserve + surplus -/
def owedB (b : Basket) (d : Denom) : Int := reserveOf b.tokens d + amountOf b.surplus d

/-- reserves + surplus of all baskets -/
def owed : List Basket → Denom → Int
  | [], _ => 0
  | b :: bs, d => owedB b d + owed bs d

theorem owed_setBasket (bs : List Basket) (ob nb : Basket) (d : Denom)
    (h : getBasket bs nb.id = some ob) : owed (setBasket bs nb) d = owed bs d - owedB ob d + owedB nb d := by
  induction bs with
  | nil => cases h
  | cons x xs ih =>
    unfold getBasket at h
    unfold setBasket
    split at h
    · rename_i hx
      cases h
      simp only [hx, if_true, owed]; omega
    · rename_i hx
      simp only [hx, if_false, owed, ih h]; omega

/-! ## inversion of the three operations -/

theorem mint_inv (s s' : St) (a : Acct) (id : Nat) (dep : Coins) (h : mint s a id dep = some s') :
    ∃ b v toks bank1 bank2 bank3,
      getBasket s.baskets id = some b ∧ b.mintsDisabled = false ∧
      s.bank.send a .module dep = some bank1 ∧ mintValue b.tokens dep = some v ∧
      0 ≤ Dec.truncInt v ∧ b.mintsMin ≤ Dec.truncInt v ∧
      periodSum id s.now b.limitsPeriod (reg s.mintH id s.now (Dec.truncInt v)) ≤ b.mintsMax ∧
      bank1.mint ⟨b.denom, Dec.truncInt v⟩ = some bank2 ∧
      bank2.send .module a [⟨b.denom, Dec.truncInt v⟩] = some bank3 ∧
      incTokens b.tokens dep = some toks ∧ capOk b.tokensCap toks = true ∧
      s' = { s with bank := bank3, mintH := reg s.mintH id s.now (Dec.truncInt v),
                    baskets := setBasket s.baskets { b with tokens := toks, amount := b.amount + Dec.truncInt v } } := by
  unfold mint at h
  split at h
  · cases h
  rename_i b hb
  split at h
  · cases h
  rename_i hdis
  split at h
  · cases h
  rename_i bank1 hb1
  split at h
  · cases h
  rename_i v hv
  simp only at h
  split at h
  · cases h
  rename_i hm0
  split at h
  · cases h
  rename_i hmin
  split at h
  · cases h
  rename_i hmax
  split at h
  · cases h
  rename_i bank2 hb2
  split at h
  · cases h
  rename_i bank3 hb3
  split at h
  · cases h
  rename_i toks htoks
  split at h
  · rename_i hcap
    cases h
    exact ⟨b, v, toks, bank1, bank2, bank3, hb, by simpa using hdis, hb1, hv, by omega, by omega, by omega, hb2, hb3, htoks, hcap, rfl⟩
  · cases h

theorem burn_inv (s s' : St) (a : Acct) (id : Nat) (c : Coin) (h : burn s a id c = some s') :
    ∃ b toks bank1 bank2 bank3,
      getBasket s.baskets id = some b ∧ b.burnsDisabled = false ∧ b.burnsMin ≤ c.amount ∧
      periodSum id s.now b.limitsPeriod (reg s.burnH id s.now c.amount) ≤ b.burnsMax ∧
      s.bank.send a .module [c] = some bank1 ∧ bank1.burn c = some bank2 ∧ c.denom = b.denom ∧
      bank2.supplyOf c.denom ≠ 0 ∧
      (addCoins [] (withdrawCoins (Dec.quo (Dec.ofInt c.amount) (Dec.ofInt (bank2.supplyOf c.denom))) b.tokens)).isEmpty = false ∧
      bank2.send .module a (addCoins [] (withdrawCoins (Dec.quo (Dec.ofInt c.amount) (Dec.ofInt (bank2.supplyOf c.denom))) b.tokens)) = some bank3 ∧
      decTokens b.tokens (addCoins [] (withdrawCoins (Dec.quo (Dec.ofInt c.amount) (Dec.ofInt (bank2.supplyOf c.denom))) b.tokens)) = some toks ∧
      capOk b.tokensCap toks = true ∧
      s' = { s with bank := bank3, burnH := reg s.burnH id s.now c.amount,
                    baskets := setBasket s.baskets { b with tokens := toks, amount := b.amount - c.amount } } := by
  unfold burn at h
  split at h
  · cases h
  rename_i b hb
  split at h
  · cases h
  rename_i hdis
  split at h
  · cases h
  rename_i hmin
  simp only at h
  split at h
  · cases h
  rename_i hmax
  split at h
  · cases h
  rename_i bank1 hb1
  split at h
  · cases h
  rename_i bank2 hb2
  split at h
  · cases h
  rename_i hden
  split at h
  · cases h
  rename_i hsup
  split at h
  · cases h
  rename_i hw
  split at h
  · cases h
  rename_i bank3 hb3
  split at h
  · cases h
  rename_i toks htoks
  split at h
  · rename_i hcap
    cases h
    exact ⟨b, toks, bank1, bank2, bank3, hb, by simpa using hdis, by omega, by omega, hb1, hb2, by simpa using hden, hsup, by simpa using hw, hb3, htoks, hcap, rfl⟩
  · cases h

theorem swapPair_inv (b : Basket) (now : Nat) (a : Acct) (acc acc' : SwapAcc) (inC : Coin) (outD : Denom)
    (h : swapPair b now a acc inC outD = some acc') :
    ∃ bank1 ti to q toks1 toks2,
      acc.bank.send a .module [inC] = some bank1 ∧
      lookupLast inC.denom acc.tokens = some ti ∧ lookupLast outD acc.tokens = some to ∧
      ti.swaps = true ∧ to.swaps = true ∧
      quote b.swapFee acc.tokens inC outD = some q ∧ b.swapsMin ≤ q.swapValue ∧
      periodSum b.id now b.limitsPeriod (reg acc.hist b.id now q.swapValue) ≤ b.swapsMax ∧
      0 < q.out ∧ 0 ≤ q.swapAmount ∧
      addAmt inC.denom q.swapAmount acc.tokens = some toks1 ∧ subAmt outD q.out toks1 = some toks2 ∧
      acc' = { bank := bank1, tokens := toks2,
               surplus := if 0 < q.fee then add1 acc.surplus ⟨inC.denom, q.fee⟩ else acc.surplus,
               hist := reg acc.hist b.id now q.swapValue, outs := add1 acc.outs ⟨outD, q.out⟩ } := by
  unfold swapPair at h
  split at h
  · cases h
  rename_i bank1 hb1
  split at h
  · rename_i ti to hti hto
    split at h
    · cases h
    rename_i hsi
    split at h
    · cases h
    rename_i hso
    split at h
    · cases h
    rename_i q hq
    split at h
    · cases h
    rename_i hmin
    simp only at h
    split at h
    · cases h
    rename_i hmax
    split at h
    · cases h
    rename_i hout0
    split at h
    · cases h
    rename_i hsa
    split at h
    · cases h
    rename_i toks1 ht1
    split at h
    · cases h
    rename_i hout
    split at h
    · cases h
    rename_i toks2 ht2
    cases h
    exact ⟨bank1, ti, to, q, toks1, toks2, hb1, hti, hto, by simpa using hsi, by simpa using hso, hq, by omega, by omega, by omega, by omega, ht1, ht2, rfl⟩
  · cases h

theorem swap_inv (s s' : St) (a : Acct) (id : Nat) (pairs : List (Coin × Denom)) (h : swap s a id pairs = some s') :
    ∃ b old acc slip fin0 bank2 slipAmts,
      getBasket s.baskets id = some b ∧ b.swapsDisabled = false ∧ avgDisbalance b.tokens = some old ∧
      swapPairs b s.now a ⟨s.bank, b.tokens, b.surplus, s.swapH, []⟩ pairs = some acc ∧
      slippageFee b.slippageFeeMin acc.tokens old = some slip ∧ finalOuts slip acc.outs = some fin0 ∧
      acc.bank.send .module a (addCoins [] fin0) = some bank2 ∧
      subCoins? acc.outs (addCoins [] fin0) = some slipAmts ∧
      capOk b.tokensCap acc.tokens = true ∧
      s' = { s with bank := bank2, swapH := acc.hist,
                    baskets := setBasket s.baskets { b with tokens := acc.tokens, surplus := addCoins acc.surplus slipAmts } } := by
  unfold swap at h
  split at h
  · cases h
  rename_i b hb
  split at h
  · cases h
  rename_i hdis
  split at h
  · cases h
  rename_i old hold
  split at h
  · cases h
  rename_i acc hacc
  split at h
  · cases h
  rename_i slip hslip
  split at h
  · cases h
  rename_i fin0 hfin
  simp only at h
  split at h
  · cases h
  rename_i bank2 hb2
  split at h
  · cases h
  rename_i slipAmts hsl
  split at h
  · rename_i hcap
    cases h
    exact ⟨b, old, acc, slip, fin0, bank2, slipAmts, hb, by simpa using hdis, hold, hacc, hslip, hfin, hb2, hsl, hcap, rfl⟩
  · cases h

/-! ## swap arithmetic -/

theorem truncInt_nonpos (x : Int) (hx : x ≤ 0) : Dec.truncInt x ≤ 0 := by
  unfold Dec.truncInt
  have : x = -(-x) := by omega
  rw [this, Int.neg_tdiv]
  have := Int.tdiv_nonneg (a := -x) (b := Dec.P) (by omega) (Int.le_of_lt P_pos)
  omega

theorem quote_inv (fee : Dec.D) (ts : List Token) (inC : Coin) (outD : Denom) (q : Quote)
    (h : quote fee ts inC outD = some q) :
    ∃ ti to, lookupLast inC.denom ts = some ti ∧ lookupLast outD ts = some to ∧ to.weight ≠ 0 ∧
      q.swapValue = Dec.truncInt (inC.amount * ti.weight) ∧
      q.swapAmount = Dec.truncInt (inC.amount * (Dec.one - fee)) ∧
      q.fee = inC.amount - q.swapAmount ∧
      q.out = Dec.truncInt (Dec.quo (q.swapAmount * ti.weight) to.weight) := by
  unfold quote at h
  split at h
  · cases h
  rename_i ti hti
  split at h
  · cases h
  rename_i to hto
  split at h
  · cases h
  rename_i hw
  simp only [mul_ofInt] at h
  cases h
  exact ⟨ti, to, hti, hto, hw, rfl, rfl, rfl, rfl⟩

/-- with a fee in [0, …) the amount credited to the reserve never exceeds the amount paid in -/
theorem swapAmount_le (fee : Int) (x : Int) (hfee : 0 ≤ fee) (hx : 0 ≤ x) :
    Dec.truncInt (x * (Dec.one - fee)) ≤ x := by
  have hP := P_pos
  by_cases hneg : x * (Dec.one - fee) ≤ 0
  · have := truncInt_nonpos _ hneg; omega
  · have h1 : x * (Dec.one - fee) ≤ x * Dec.P := by
      apply Int.mul_le_mul_of_nonneg_left _ hx
      unfold Dec.one; omega
    have := truncInt_mono _ _ (by omega) h1
    rw [truncInt_mul_P] at this
    exact this

/-- value out ≤ value in (net of the swap fee) + one unit of 10⁻¹⁸ of the out token (`Quo` rounds half-even) -/
theorem quote_value (sa wi wo : Int) (hsa : 0 ≤ sa) (hwi : 0 ≤ wi) (hwo : 0 < wo) :
    Dec.truncInt (Dec.quo (sa * wi) wo) * wo * Dec.P ≤ sa * wi * Dec.P + wo := by
  have ha : 0 ≤ sa * wi := Int.mul_nonneg hsa hwi
  have h1 := quo_mul_le (sa * wi) wo ha hwo
  have h2 := quo_nonneg (sa * wi) wo ha hwo
  have h3 := truncInt_mul_le _ h2
  have h4 : Dec.truncInt (Dec.quo (sa * wi) wo) * Dec.P * wo ≤ Dec.quo (sa * wi) wo * wo :=
    Int.mul_le_mul_of_nonneg_right h3 (by omega)
  have h5 : Dec.truncInt (Dec.quo (sa * wi) wo) * wo * Dec.P = Dec.truncInt (Dec.quo (sa * wi) wo) * Dec.P * wo := by
    rw [Int.mul_assoc, Int.mul_comm wo, ← Int.mul_assoc]
  rw [h5]
  exact Int.le_trans h4 h1

theorem slippageFee_nonneg (m : Int) (ts : List Token) (old slip : Int)
    (h : slippageFee m ts old = some slip) : 0 ≤ slip := by
  unfold slippageFee at h
  split at h
  · cases h
  · rename_i dis _
    simp only at h
    split at h
    · cases h; exact Int.le_refl 0
    · rename_i h1
      have h1' : (0 : Int) ≤ dis - old := Int.not_lt.mp h1
      split at h
      · rename_i h2
        have h2' : (slip : Int) > (dis : Int) - old := by cases h; exact h2
        omega
      · cases h; omega

theorem finalOuts_spec (slip : Int) (outs fin0 : Coins) (h : finalOuts slip outs = some fin0)
    (hs : 0 ≤ slip) (hp : AllPos outs) (d : Denom) :
    0 ≤ amountOf fin0 d ∧ amountOf fin0 d ≤ amountOf outs d := by
  induction outs generalizing fin0 with
  | nil => unfold finalOuts at h; cases h; simp [amountOf]
  | cons c cs ih =>
    have hc : 0 < c.amount := hp c (by simp)
    unfold finalOuts at h
    simp only [mul_ofInt] at h
    split at h
    · cases h
    · rename_i hf
      split at h
      · cases h
      · rename_i rest hrest
        cases h
        obtain ⟨i1, i2⟩ := ih rest hrest (fun y hy => hp y (by simp [hy]))
        have := swapAmount_le slip c.amount hs (by omega)
        simp only [amountOf]
        split <;> constructor <;> omega

/-- Σ of the amounts paid in for denom `d` -/
def insOf : List (Coin × Denom) → Denom → Int
  | [], _ => 0
  | p :: ps, d => (if p.1.denom = d then p.1.amount else 0) + insOf ps d

/-- what the pair loop has not yet accounted for: module balance − reserves − surplus − pending payouts -/
def pend (acc : SwapAcc) (d : Denom) : Int :=
  acc.bank.balOf .module d - reserveOf acc.tokens d - amountOf acc.surplus d - amountOf acc.outs d

theorem swapPair_effect (b : Basket) (now i : Nat) (acc acc' : SwapAcc) (inC : Coin) (outD : Denom)
    (h : swapPair b now (.user i) acc inC outD = some acc') :
    acc'.bank.supply = acc.bank.supply ∧
    (0 ≤ b.swapFee → ∀ d, pend acc' d = pend acc d) ∧
    (∀ a' d, a' ≠ Acct.module → acc'.bank.balOf a' d = acc.bank.balOf a' d - (if a' = .user i ∧ inC.denom = d then inC.amount else 0)) ∧
    acc'.tokens.map static = acc.tokens.map static ∧
    (AllPos acc.outs → AllPos acc'.outs) ∧ (NonNeg acc.tokens → NonNeg acc'.tokens) ∧
    ∃ q, quote b.swapFee acc.tokens inC outD = some q ∧ 0 < q.out ∧ 0 ≤ q.swapAmount ∧ 0 < inC.amount ∧
      (∀ d, amountOf acc'.outs d = amountOf acc.outs d + (if outD = d then q.out else 0)) := by
  obtain ⟨bank1, ti, to, q, toks1, toks2, hb1, hti, hto, hsi, hso, hq, hmin, hmax, hout, hsa, ht1, ht2, rfl⟩ :=
    swapPair_inv b now _ acc acc' inC outD h
  obtain ⟨hv, s1, e1⟩ := send_spec _ _ _ _ _ hb1
  obtain ⟨r1, st1⟩ := addAmt_spec _ _ _ _ ht1
  obtain ⟨r2, st2, nn2⟩ := subAmt_spec _ _ _ _ ht2
  have hin : 0 < inC.amount := validCoins_allPos _ hv inC (by simp)
  obtain ⟨ti', to', _, _, _, _, hsaeq, hfeeeq, _⟩ := quote_inv _ _ _ _ _ hq
  refine ⟨s1, ?_, ?_, by rw [st2, st1], ?_, ?_, q, hq, hout, hsa, hin, ?_⟩
  · intro hfee d
    have hle : q.swapAmount ≤ inC.amount := by rw [hsaeq]; exact swapAmount_le _ _ hfee (by omega)
    unfold pend
    simp only [e1, r2, r1, amountOf_add1, amountOf]
    have hm : ¬ (Acct.module = Acct.user i) := by intro e; cases e
    simp only [hm, if_false, if_true]
    by_cases hd : inC.denom = d
    · by_cases ho : outD = d
      · by_cases hf : 0 < q.fee
        · simp only [hd, ho, hf, if_true, amountOf_add1]; omega
        · simp only [hd, ho, hf, if_true, if_false]; omega
      · by_cases hf : 0 < q.fee
        · simp only [hd, ho, hf, if_true, if_false, amountOf_add1]; omega
        · simp only [hd, ho, hf, if_true, if_false]; omega
    · by_cases ho : outD = d
      · by_cases hf : 0 < q.fee
        · simp only [hd, ho, hf, if_true, if_false, amountOf_add1]; omega
        · simp only [hd, ho, hf, if_true, if_false]; omega
      · by_cases hf : 0 < q.fee
        · simp only [hd, ho, hf, if_true, if_false, amountOf_add1]; omega
        · simp only [hd, ho, hf, if_false]; omega
  · intro a' d ha
    rw [e1]
    simp only [amountOf, ha, if_false]
    by_cases hu : a' = Acct.user i
    · by_cases hd : inC.denom = d <;> simp [hu, hd]
    · simp [hu]
  · intro hp
    exact allPos_add1 _ _ hp hout
  · intro hn
    apply nn2
    apply addAmt_nonneg _ _ _ _ ht1 hn
    intro t ht
    have := hn t (lookupLast_mem _ _ _ ht).1
    omega
  · intro d
    rw [amountOf_add1]

theorem swapPairs_effect (b : Basket) (now i : Nat) (pairs : List (Coin × Denom)) (acc acc' : SwapAcc)
    (h : swapPairs b now (.user i) acc pairs = some acc') :
    acc'.bank.supply = acc.bank.supply ∧
    (0 ≤ b.swapFee → ∀ d, pend acc' d = pend acc d) ∧
    (∀ a' d, a' ≠ Acct.module → acc'.bank.balOf a' d = acc.bank.balOf a' d - (if a' = .user i then insOf pairs d else 0)) ∧
    acc'.tokens.map static = acc.tokens.map static ∧
    (AllPos acc.outs → AllPos acc'.outs) ∧ (NonNeg acc.tokens → NonNeg acc'.tokens) := by
  induction pairs generalizing acc with
  | nil =>
    unfold swapPairs at h; cases h
    exact ⟨rfl, fun _ _ => rfl, fun a' d _ => by simp [insOf], rfl, id, id⟩
  | cons p ps ih =>
    obtain ⟨inC, outD⟩ := p
    unfold swapPairs at h
    split at h
    · cases h
    · rename_i acc1 h1
      obtain ⟨s1, p1, u1, st1, ap1, nn1, _⟩ := swapPair_effect b now i acc acc1 inC outD h1
      obtain ⟨s2, p2, u2, st2, ap2, nn2⟩ := ih acc1 h
      refine ⟨by rw [s2, s1], fun hf d => by rw [p2 hf, p1 hf], ?_, by rw [st2, st1], fun hp => ap2 (ap1 hp), fun hn => nn2 (nn1 hn)⟩
      intro a' d ha
      rw [u2 a' d ha, u1 a' d ha]
      simp only [insOf]
      by_cases hu : a' = Acct.user i
      · by_cases hd : inC.denom = d <;> simp [hu, hd] <;> omega
      · simp [hu]


/-! ## burn arithmetic -/

theorem chopRound_nonpos (x : Int) (hx : x ≤ 0) : Dec.chopRound x ≤ 0 := by
  by_cases h0 : x = 0
  · subst h0; decide
  · have hP := P_pos
    unfold Dec.chopRound
    have hneg : x < 0 := by omega
    simp only [hneg, if_true]
    have hq : 0 ≤ (-x) / Dec.P := Int.ediv_nonneg (by omega) (by omega)
    repeat' split
    all_goals omega

theorem quo_nonpos (a b : Int) (ha : 0 ≤ a) (hb : b < 0) : Dec.quo a b ≤ 0 := by
  unfold Dec.quo
  apply chopRound_nonpos
  have hx : 0 ≤ a * Dec.P * Dec.P := Int.mul_nonneg (Int.mul_nonneg ha (Int.le_of_lt P_pos)) (Int.le_of_lt P_pos)
  have : b = -(-b) := by omega
  rw [this, Int.tdiv_neg]
  have := Int.tdiv_nonneg (a := a * Dec.P * Dec.P) (b := -b) hx (by omega)
  omega

theorem withdrawCoins_nil (portion : Int) (ts : List Token) (hp : portion ≤ 0) (hn : NonNeg ts) :
    withdrawCoins portion ts = [] := by
  induction ts with
  | nil => rfl
  | cons t ts ih =>
    have ht : 0 ≤ t.amount := hn t (by simp)
    have hr := ih (fun y hy => hn y (by simp [hy]))
    unfold withdrawCoins
    simp only [hr, mul_ofInt]
    have : t.amount * portion ≤ 0 := Int.mul_nonpos_of_nonneg_of_nonpos ht hp
    have := truncInt_nonpos _ this
    split
    · split
      · omega
      · rfl
    · rfl

theorem withdraw_le (portion : Int) (ts : List Token) (hp : 0 ≤ portion) (hn : NonNeg ts) (d : Denom) :
    amountOf (withdrawCoins portion ts) d * Dec.P ≤ reserveOf ts d * portion := by
  induction ts with
  | nil => simp [withdrawCoins, amountOf, reserveOf]
  | cons t ts ih =>
    have ht : 0 ≤ t.amount := hn t (by simp)
    have hr := ih (fun y hy => hn y (by simp [hy]))
    have hprod : 0 ≤ t.amount * portion := Int.mul_nonneg ht hp
    have hw := truncInt_mul_le _ hprod
    unfold withdrawCoins
    simp only [mul_ofInt, reserveOf]
    by_cases hd : t.denom = d
    · simp only [hd, if_true, Int.add_mul]
      split
      · split
        · simp only [amountOf, hd, if_true, Int.add_mul]; omega
        · omega
      · omega
    · simp only [hd, if_false, Int.zero_add]
      split
      · split
        · simp only [amountOf, hd, if_false, Int.zero_add]; exact hr
        · exact hr
      · exact hr

theorem withdraw_allPos (portion : Int) (ts : List Token) : AllPos (withdrawCoins portion ts) := by
  induction ts with
  | nil => intro c hc; cases hc
  | cons t ts ih =>
    unfold withdrawCoins
    simp only
    split
    · split
      · rename_i hpos
        intro c hc
        simp at hc
        rcases hc with rfl | hc
        · exact hpos
        · exact ih c hc
      · exact ih
    · exact ih

/-! ## quotes do not depend on the recorded amounts -/

theorem quote_static (fee : Dec.D) (ts ts' : List Token) (c : Coin) (o : Denom)
    (h : ts'.map static = ts.map static) : quote fee ts' c o = quote fee ts c o := by
  have h1 := lookupLast_static' c.denom ts ts' h
  have h2 := lookupLast_static' o ts ts' h
  unfold quote
  cases ha : lookupLast c.denom ts' with
  | none =>
    cases hb : lookupLast c.denom ts with
    | none => rfl
    | some x => rw [ha, hb] at h1; exact h1.elim
  | some ti' =>
    cases hb : lookupLast c.denom ts with
    | none => rw [ha, hb] at h1; exact h1.elim
    | some ti =>
      rw [ha, hb] at h1
      have hw1 : ti'.weight = ti.weight := congrArg (fun x => x.2.1) h1
      cases hc : lookupLast o ts' with
      | none =>
        cases hd : lookupLast o ts with
        | none => rfl
        | some x => rw [hc, hd] at h2; exact h2.elim
      | some to' =>
        cases hd : lookupLast o ts with
        | none => rw [hc, hd] at h2; exact h2.elim
        | some to =>
          rw [hc, hd] at h2
          have hw2 : to'.weight = to.weight := congrArg (fun x => x.2.1) h2
          simp only [hw1, hw2]

/-- Σ over the pairs of the quoted out amount for denom `d`, at the weights of `ts` -/
def outsOf (fee : Dec.D) (ts : List Token) : List (Coin × Denom) → Denom → Int
  | [], _ => 0
  | p :: ps, d =>
    (match quote fee ts p.1 p.2 with
     | some q => if p.2 = d then q.out else 0
     | none => 0) + outsOf fee ts ps d

theorem outsOf_static (fee : Dec.D) (ts ts' : List Token) (ps : List (Coin × Denom)) (d : Denom)
    (h : ts'.map static = ts.map static) : outsOf fee ts' ps d = outsOf fee ts ps d := by
  induction ps with
  | nil => rfl
  | cons p ps ih => simp only [outsOf, quote_static fee ts ts' p.1 p.2 h, ih]

theorem swapPairs_outs (b : Basket) (now i : Nat) (pairs : List (Coin × Denom)) (acc acc' : SwapAcc)
    (h : swapPairs b now (.user i) acc pairs = some acc') (d : Denom) :
    amountOf acc'.outs d = amountOf acc.outs d + outsOf b.swapFee acc.tokens pairs d := by
  induction pairs generalizing acc with
  | nil => unfold swapPairs at h; cases h; simp [outsOf]
  | cons p ps ih =>
    obtain ⟨inC, outD⟩ := p
    unfold swapPairs at h
    split at h
    · cases h
    · rename_i acc1 h1
      obtain ⟨_, _, _, st1, _, _, q, hq, _, _, _, ho⟩ := swapPair_effect b now i acc acc1 inC outD h1
      rw [ih acc1 h, ho d, outsOf_static _ _ _ _ _ st1]
      simp only [outsOf, hq]
      omega

/-! ## value of the reserves -/

theorem lookupLast_cons_of_some (d : Denom) (x : Token) (xs : List Token) (t : Token)
    (h : lookupLast d xs = some t) : lookupLast d (x :: xs) = some t := by
  unfold lookupLast; rw [h]

theorem addAmt_totalVal (d : Denom) (δ : Int) (ts ts' : List Token) (t : Token)
    (h : addAmt d δ ts = some ts') (hl : lookupLast d ts = some t) :
    totalVal ts' = totalVal ts + δ * t.weight := by
  induction ts generalizing ts' with
  | nil => cases h
  | cons x xs ih =>
    unfold addAmt at h
    split at h
    · rename_i xs1 h1
      cases h
      have hs : (lookupLast d xs).isSome = true := by rw [← addAmt_isSome d δ xs, h1]; rfl
      obtain ⟨t', ht'⟩ := Option.isSome_iff_exists.mp hs
      rw [lookupLast_cons_of_some d x xs t' ht'] at hl
      cases hl
      simp only [totalVal, ih xs1 h1 ht']
      exact (Int.add_assoc _ _ _).symm
    · rename_i h1
      have hs : lookupLast d xs = none := by
        have := addAmt_isSome d δ xs
        rw [h1] at this
        cases hh : lookupLast d xs with
        | none => rfl
        | some y => rw [hh] at this; cases this
      split at h
      · rename_i hd
        cases h
        unfold lookupLast at hl
        rw [hs] at hl
        simp only [hd, if_true] at hl
        cases hl
        simp only [totalVal, mul_ofInt, Int.add_mul]
        exact Int.add_right_comm _ _ _
      · cases h

theorem mintValue_static (ts ts' : List Token) (cs : Coins) (h : ts'.map static = ts.map static) :
    mintValue ts' cs = mintValue ts cs := by
  induction cs with
  | nil => rfl
  | cons c cs ih =>
    have h1 := lookupLast_static' c.denom ts ts' h
    unfold mintValue
    cases ha : lookupLast c.denom ts' with
    | none =>
      cases hb : lookupLast c.denom ts with
      | none => rfl
      | some x => rw [ha, hb] at h1; exact h1.elim
    | some t' =>
      cases hb : lookupLast c.denom ts with
      | none => rw [ha, hb] at h1; exact h1.elim
      | some t =>
        rw [ha, hb] at h1
        have hw : t'.weight = t.weight := congrArg (fun x => x.2.1) h1
        have hd : t'.deposits = t.deposits := congrArg (fun x => x.2.2.1) h1
        simp only [hw, hd, ih]

theorem incTokens_totalVal (cs : Coins) (ts ts' : List Token) (v : Dec.D)
    (h : incTokens ts cs = some ts') (hv : mintValue ts cs = some v) : totalVal ts' = totalVal ts + v := by
  induction cs generalizing ts v with
  | nil =>
    unfold incTokens at h; unfold mintValue at hv; cases h; cases hv; exact (Int.add_zero _).symm
  | cons c cs ih =>
    unfold incTokens at h
    unfold mintValue at hv
    split at h
    · cases h
    · rename_i ts1 h1
      split at hv
      · cases hv
      · rename_i t ht
        split at hv
        · split at hv
          · cases hv
          · rename_i v' hv'
            cases hv
            obtain ⟨_, st1⟩ := addAmt_spec _ _ _ _ h1
            have hv1 : mintValue ts1 cs = some v' := by rw [mintValue_static ts ts1 cs st1]; exact hv'
            rw [ih ts1 v' h hv1, addAmt_totalVal _ _ _ _ t h1 ht, mul_ofInt]
            exact Int.add_assoc _ _ _
        · cases hv


/-! ## `EditBasket`: amounts carried over by denom -/

theorem reserveOf_eq_zero (ts : List Token) (d : Denom) (h : ∀ t ∈ ts, t.denom ≠ d) : reserveOf ts d = 0 := by
  induction ts with
  | nil => rfl
  | cons t ts ih =>
    have h1 : ¬ t.denom = d := h t (by simp)
    simp only [reserveOf, h1, if_false, ih (fun u hu => h u (by simp [hu]))]
    rfl

theorem mem_le_reserveOf (ts : List Token) (t : Token) (hn : NonNeg ts) (hm : t ∈ ts) :
    t.amount ≤ reserveOf ts t.denom := by
  induction ts with
  | nil => cases hm
  | cons x xs ih =>
    have hx : 0 ≤ x.amount := hn x (by simp)
    have hxs : NonNeg xs := fun y hy => hn y (by simp [hy])
    have hr := reserveOf_nonneg xs hxs t.denom
    simp only [reserveOf]
    simp at hm
    rcases hm with rfl | hm
    · simp only [if_true]; omega
    · have := ih hxs hm
      split <;> omega

theorem denomsNodup_cons (t : Token) (ts : List Token) (h : denomsNodup (t :: ts) = true) :
    (∀ u ∈ ts, u.denom ≠ t.denom) ∧ denomsNodup ts = true := by
  unfold denomsNodup at h
  simp only [Bool.and_eq_true, Bool.not_eq_true', List.any_eq_false, decide_eq_true_eq] at h
  exact ⟨fun u hu => h.1 u hu, h.2⟩

/-- the token list `EditBasket` stores: amounts carried over by denom -/
def carry (old : List Token) (t : Token) : Token :=
  match lookupLast t.denom old with
  | some o => { t with amount := o.amount }
  | none => { t with amount := 0 }

theorem carry_denom (old : List Token) (t : Token) : (carry old t).denom = t.denom := by
  unfold carry; split <;> rfl

theorem carry_amount_le (old : List Token) (t : Token) (hn : NonNeg old) :
    0 ≤ (carry old t).amount ∧ (carry old t).amount ≤ reserveOf old t.denom := by
  unfold carry
  split
  · rename_i o ho
    obtain ⟨hm, hd⟩ := lookupLast_mem _ _ _ ho
    have := mem_le_reserveOf old o hn hm
    rw [hd] at this
    exact ⟨hn o hm, this⟩
  · exact ⟨Int.le_refl 0, reserveOf_nonneg old hn _⟩

theorem reserveOf_carry_le (old new : List Token) (hn : NonNeg old) (hnd : denomsNodup new = true) (d : Denom) :
    reserveOf (new.map (carry old)) d ≤ reserveOf old d ∧ NonNeg (new.map (carry old)) := by
  induction new with
  | nil => exact ⟨reserveOf_nonneg old hn d, fun t ht => by cases ht⟩
  | cons t ts ih =>
    obtain ⟨h1, h2⟩ := denomsNodup_cons t ts hnd
    obtain ⟨i1, i2⟩ := ih h2
    obtain ⟨c1, c2⟩ := carry_amount_le old t hn
    constructor
    · simp only [List.map, reserveOf, carry_denom]
      by_cases hd : t.denom = d
      · have hz : reserveOf (ts.map (carry old)) d = 0 := by
          apply reserveOf_eq_zero
          intro u hu
          simp only [List.mem_map] at hu
          obtain ⟨u', hu', rfl⟩ := hu
          rw [carry_denom, ← hd]
          exact h1 u' hu'
        simp only [hd, if_true, hz]
        rw [hd] at c2
        omega
      · simp only [hd, if_false]; omega
    · intro u hu
      simp only [List.map, List.mem_cons] at hu
      rcases hu with rfl | hu
      · exact c1
      · exact i2 u hu


end Sekai.Lemmas.Basket
