import Sekai.Base.Dec
/-! Rounding lemmas for `Sekai.Dec` (banker's `chopRound`), core Lean only. -/
namespace Sekai.Dec

theorem chopRound_upper (x : Int) : 2 * P * chopRound x ≤ 2 * x + P := by
  unfold chopRound P half
  simp only []
  split <;> split <;> (try split) <;> (try split) <;> omega

theorem chopRound_lower (x : Int) : 2 * x - P ≤ 2 * P * chopRound x := by
  unfold chopRound P half
  simp only []
  split <;> split <;> (try split) <;> (try split) <;> omega

/-- a multiple of 10^18 is chopped exactly -/
theorem chopRound_mul_P (y : Int) : chopRound (y * P) = y := by
  unfold chopRound P half
  simp only []
  split <;> split <;> (try split) <;> (try split) <;> omega

theorem mul_ofInt (r d : Int) : mul r (ofInt d) = r * d := by
  unfold mul ofInt
  rw [← Int.mul_assoc]
  exact chopRound_mul_P (r * d)

theorem ofInt_mul (a p : Int) : mul (ofInt a) p = a * p := by
  unfold mul ofInt
  rw [Int.mul_right_comm]
  exact chopRound_mul_P (a * p)

theorem chopRound_zero : chopRound 0 = 0 := by decide

theorem chopRound_nonneg {x : Int} (h : 0 ≤ x) : 0 ≤ chopRound x := by
  unfold chopRound P half
  simp only []
  split <;> split <;> (try split) <;> (try split) <;> omega

end Sekai.Dec

namespace Sekai.Dec
/-- the two separately rounded portions `round(x)` and `round(b − x)` of an integer `b` differ from `b` by at most one -/
theorem chopRound_compl_near (b x : Int) (h0 : 0 ≤ x) (h1 : x ≤ b * P) :
    b - 1 ≤ chopRound x + chopRound (b * P - x) ∧ chopRound x + chopRound (b * P - x) ≤ b + 1 := by
  have hb : 0 ≤ b * P - x := by omega
  generalize hy : b * P - x = y at *
  have hxy : x + y = b * P := by omega
  unfold chopRound P half at *
  simp only []
  have hx' : ¬ x < 0 := by omega
  have hy' : ¬ y < 0 := by omega
  simp only [hx', hy', if_false]
  constructor <;> (repeat' split) <;> omega

/-- … and they add up exactly unless the fractional part is exactly one half -/
theorem chopRound_compl_exact (b x : Int) (h0 : 0 ≤ x) (h1 : x ≤ b * P) (hh : x % P ≠ half) :
    chopRound x + chopRound (b * P - x) = b := by
  have hb : 0 ≤ b * P - x := by omega
  generalize hy : b * P - x = y at *
  have hxy : x + y = b * P := by omega
  unfold chopRound P half at *
  simp only []
  have hx' : ¬ x < 0 := by omega
  have hy' : ¬ y < 0 := by omega
  simp only [hx', hy', if_false]
  (repeat' split) <;> omega
end Sekai.Dec
