import SekaiProofs.Lemmas.MultiStakeMap
/-! "What a successful call did" lemmas for the ops of `Sekai.Model.MultiStake` (inversion of the Option chains),
and list lemmas about `setPool` / `poolCoins`. Core Lean only. -/
namespace Sekai.MultiStake
open Sekai AMap

/-! ## pools -/
def Distinct (p q : Pool) : Prop := p.val ≠ q.val ∧ p.id ≠ q.id

theorem findPool_mem {s : St} {v : Nat} {p : Pool} (h : findPool s v = some p) : p ∈ s.pools ∧ p.val = v := by
  unfold findPool at h
  refine ⟨List.mem_of_find?_eq_some h, ?_⟩
  have := List.find?_some h
  simpa using this

theorem find_val {ps : List Pool} {v : Nat} {p : Pool} (h : ps.find? (fun p => p.val == v) = some p) :
    p ∈ ps ∧ p.val = v := by
  refine ⟨List.mem_of_find?_eq_some h, ?_⟩
  have := List.find?_some h
  simpa using this

/-- membership in the list after replacing the found pool -/
theorem mem_setPool {ps : List Pool} {v : Nat} {p p' q : Pool}
    (hf : ps.find? (fun p => p.val == v) = some p) (hd : ps.Pairwise Distinct)
    (hq : q ∈ setPool ps p') (hv : p'.val = v) : q = p' ∨ (q ∈ ps ∧ Distinct p q) := by
  induction ps with
  | nil => simp at hf
  | cons x r ih =>
    rw [List.pairwise_cons] at hd
    unfold setPool at hq
    by_cases hx : x.val = v
    · have hxp : x = p := by rw [List.find?_cons_of_pos (by simp [hx])] at hf; exact Option.some.inj hf
      subst hxp
      rw [if_pos (by rw [hx, hv])] at hq
      rcases List.mem_cons.mp hq with h | h
      · exact Or.inl h
      · exact Or.inr ⟨List.mem_cons_of_mem _ h, hd.1 q h⟩
    · have hf' : r.find? (fun p => p.val == v) = some p := by rw [List.find?_cons_of_neg (by simp [hx])] at hf; exact hf
      rw [if_neg (by rw [hv]; exact hx)] at hq
      rcases List.mem_cons.mp hq with h | h
      · subst h
        have hp := (find_val hf').1
        have := hd.1 p hp
        exact Or.inr ⟨List.mem_cons_self, ⟨fun e => this.1 e.symm, fun e => this.2 e.symm⟩⟩
      · rcases ih hf' hd.2 h with h1 | ⟨h1, h2⟩
        · exact Or.inl h1
        · exact Or.inr ⟨List.mem_cons_of_mem _ h1, h2⟩

theorem mem_setPool_self {ps : List Pool} {p' : Pool} : p' ∈ setPool ps p' := by
  induction ps with
  | nil => simp [setPool]
  | cons x r ih =>
    unfold setPool
    split
    · exact List.mem_cons_self
    · exact List.mem_cons_of_mem _ ih

theorem pairwise_setPool {ps : List Pool} {v : Nat} {p p' : Pool}
    (hf : ps.find? (fun p => p.val == v) = some p) (hv : p'.val = p.val) (hi : p'.id = p.id)
    (hd : ps.Pairwise Distinct) : (setPool ps p').Pairwise Distinct := by
  induction ps with
  | nil => simp at hf
  | cons x r ih =>
    rw [List.pairwise_cons] at hd
    have hpv := (find_val hf).2
    unfold setPool
    by_cases hx : x.val = v
    · have hxp : x = p := by rw [List.find?_cons_of_pos (by simp [hx])] at hf; exact Option.some.inj hf
      subst hxp
      rw [if_pos hv.symm]
      rw [List.pairwise_cons]
      refine ⟨fun q hq => ?_, hd.2⟩
      have := hd.1 q hq
      exact ⟨by rw [hv]; exact this.1, by rw [hi]; exact this.2⟩
    · have hf' : r.find? (fun p => p.val == v) = some p := by rw [List.find?_cons_of_neg (by simp [hx])] at hf; exact hf
      rw [if_neg (by rw [hv, hpv]; exact hx)]
      rw [List.pairwise_cons]
      refine ⟨fun q hq => ?_, ih hf' hd.2⟩
      rcases mem_setPool hf' hd.2 hq (by rw [hv, hpv]) with h | ⟨h, _⟩
      · subst h
        have := hd.1 p (find_val hf').1
        exact ⟨by rw [hv]; exact this.1, by rw [hi]; exact this.2⟩
      · exact hd.1 q h

theorem setPool_new {ps : List Pool} {p' : Pool} (hf : ps.find? (fun p => p.val == p'.val) = none) :
    setPool ps p' = ps ++ [p'] := by
  induction ps with
  | nil => rfl
  | cons x r ih =>
    have hx : ¬ x.val = p'.val := by
      intro e
      rw [List.find?_cons_of_pos (by simp [e])] at hf
      cases hf
    have hf' : r.find? (fun p => p.val == p'.val) = none := by
      rw [List.find?_cons_of_neg (by simp [hx])] at hf; exact hf
    unfold setPool
    rw [if_neg hx, ih hf']; rfl

def stakeSum : List Pool → Denom → Nat
  | [], _ => 0
  | p :: r, d => get p.stake d + stakeSum r d

def undelSum : List Undel → Denom → Nat
  | [], _ => 0
  | u :: r, d => get u.amount d + undelSum r d

theorem stakeSum_setPool {ps : List Pool} {v : Nat} {p p' : Pool}
    (hf : ps.find? (fun p => p.val == v) = some p) (hv : p'.val = v) (d : Denom) :
    stakeSum (setPool ps p') d + get p.stake d = stakeSum ps d + get p'.stake d := by
  induction ps with
  | nil => simp at hf
  | cons x r ih =>
    unfold setPool
    by_cases hx : x.val = v
    · have hxp : x = p := by rw [List.find?_cons_of_pos (by simp [hx])] at hf; exact Option.some.inj hf
      subst hxp
      rw [if_pos (by rw [hx, hv])]
      simp only [stakeSum]; omega
    · have hf' : r.find? (fun p => p.val == v) = some p := by rw [List.find?_cons_of_neg (by simp [hx])] at hf; exact hf
      rw [if_neg (by rw [hv]; exact hx)]
      have := ih hf'
      simp only [stakeSum]; omega

theorem stakeSum_append (a b : List Pool) (d : Denom) : stakeSum (a ++ b) d = stakeSum a d + stakeSum b d := by
  induction a with
  | nil => simp [stakeSum]
  | cons x r ih => simp [stakeSum, ih]; omega

theorem undelSum_append (a b : List Undel) (d : Denom) : undelSum (a ++ b) d = undelSum a d + undelSum b d := by
  induction a with
  | nil => simp [undelSum]
  | cons x r ih => simp [undelSum, ih]; omega

theorem undelSum_filter {us : List Undel} {id : Nat} {u : Undel}
    (hf : us.find? (fun u => u.id == id) = some u) (d : Denom) :
    undelSum (us.filter (fun u => u.id != id)) d + get u.amount d ≤ undelSum us d := by
  induction us with
  | nil => simp at hf
  | cons x r ih =>
    by_cases hx : x.id = id
    · have hxu : x = u := by rw [List.find?_cons_of_pos (by simp [hx])] at hf; exact Option.some.inj hf
      subst hxu
      rw [List.filter_cons_of_neg (by simp [hx])]
      simp only [undelSum]
      have : undelSum (r.filter (fun u => u.id != id)) d ≤ undelSum r d := by
        clear ih hf
        induction r with
        | nil => simp [undelSum]
        | cons y r' ih' =>
          by_cases hy : y.id = id
          · rw [List.filter_cons_of_neg (by simp [hy])]; simp only [undelSum]; omega
          · rw [List.filter_cons_of_pos (by simp [hy])]; simp only [undelSum]; omega
      omega
    · have hf' : r.find? (fun u => u.id == id) = some u := by rw [List.find?_cons_of_neg (by simp [hx])] at hf; exact hf
      rw [List.filter_cons_of_pos (by simp [hx])]
      have := ih hf'
      simp only [undelSum]; omega

/-! ## GetPoolCoins -/
theorem get_poolCoins_other {p : Pool} {amts pc : Coins} (h : poolCoins p amts = some pc) (d : Denom)
    (hd : d.pool ≠ p.id) : get pc d = 0 := by
  induction amts generalizing pc with
  | nil => simp [poolCoins] at h; subst h; rfl
  | cons x r ih =>
    obtain ⟨d0, n0⟩ := x
    unfold poolCoins at h
    split at h
    · cases h
    · split at h
      · cases h
      · split at h
        · cases h
        · rename_i k _ r' hr
          cases h
          have : ¬ ((⟨p.id, d0.tok⟩ : Denom) = d) := by
            intro e; apply hd; rw [← e]
          simp [get_cons, this, ih hr]

/-! ## inversion lemmas -/
theorem pushout_frame {s s1 : St} {p : Pool} {who : Nat} {amts : Coins} (h : pushout s p who amts = some s1) :
    s1 = { s with delegators := s1.delegators } := by
  unfold pushout at h
  split at h
  · split at h
    rename_i md mv _
    dsimp only at h
    split at h
    · split at h
      · cases h; rfl
      · cases h; rfl
    · cases h
  · cases h; rfl

theorem delegate_spec {s s' : St} {who val : Nat} {amts : Coins} (h : delegate s who val amts = some s') :
    ∃ (p : Pool) (pc : Coins) (b1 b3 : Bank),
      findPool s val = some p ∧ ¬ p.slashed > 0 ∧ poolCoins p amts = some pc ∧
      s.bank.send (.user who) .ms amts = some b1 ∧ (b1.mint .mint pc).send .mint (.user who) pc = some b3 ∧
      s' = { s with bank := b3,
                    pools := setPool s.pools { p with stake := addAll p.stake amts, shares := addAll p.shares pc },
                    delegators := s'.delegators } := by
  unfold delegate at h
  split at h
  · cases h
  · split at h
    · cases h
    · split at h
      · cases h
      · split at h
        · cases h
        · rename_i p hp
          split at h
          · cases h
          · rename_i hsl
            split at h
            · cases h
            · rename_i s1 hs1
              have hfr : s1 = { s with delegators := s1.delegators } := by
                split at hs1
                · cases hs1; rfl
                · exact pushout_frame hs1
              split at h
              · cases h
              · rename_i b1 hb1
                split at h
                · cases h
                · split at h
                  · cases h
                  · rename_i pc hpc
                    split at h
                    · cases h
                    · rename_i b3 hb3
                      cases h
                      refine ⟨p, pc, b1, b3, hp, hsl, hpc, ?_, hb3, ?_⟩
                      · rw [hfr] at hb1; exact hb1
                      · rw [hfr]

theorem undelegate_spec {s s' : St} {who val : Nat} {amts : Coins} (h : undelegate s who val amts = some s') :
    ∃ (p : Pool) (pc : Coins) (b1 b2 : Bank) (stake' shares' : Coins),
      findPool s val = some p ∧ poolCoins p amts = some pc ∧
      s.bank.send (.user who) .ms pc = some b1 ∧ b1.burn .ms pc = some b2 ∧
      subAll? p.stake amts = some stake' ∧ subAll? p.shares pc = some shares' ∧
      s' = { s with bank := b2,
                    pools := setPool s.pools { p with stake := stake', shares := shares' },
                    lastUndelId := s.lastUndelId + 1,
                    undels := s.undels ++ [{ id := s.lastUndelId + 1, owner := who, val := val,
                                             expiry := s.now + s.props.unstakingPeriod, amount := amts }],
                    delegators := removeDelegator s.delegators p.id who } := by
  unfold undelegate at h
  split at h
  · cases h
  · split at h
    · cases h
    · rename_i p hp
      split at h
      · cases h
      · rename_i pc hpc
        split at h
        · cases h
        · rename_i b1 hb1
          split at h
          · cases h
          · rename_i b2 hb2
            split at h
            · cases h
            · split at h
              · cases h
              · rename_i stake' hst
                split at h
                · cases h
                · rename_i shares' hsh
                  cases h
                  exact ⟨p, pc, b1, b2, stake', shares', hp, hpc, hb1, hb2, hst, hsh, rfl⟩

theorem slash_spec {s s' : St} {val : Nat} {sl : Dec.D} (h : slash s val sl = some s') :
    (findPool s val = none ∧ s' = s) ∨
    ∃ (p : Pool) (stake' slashed : Coins) (b1 b2 : Bank),
      findPool s val = some p ∧ slashCoins sl (nz p.stake) = some stake' ∧ subAll? p.stake stake' = some slashed ∧
      get slashed ukex ≠ 0 ∧ s.bank.burn .ms [(ukex, get slashed ukex)] = some b1 ∧
      b1.send .ms .fc ((nz slashed).filter (fun dn => dn.1 ≠ ukex)) = some b2 ∧
      s' = { s with bank := b2,
                    treasury := addAll s.treasury ((nz slashed).filter (fun dn => dn.1 ≠ ukex)),
                    pools := setPool s.pools { p with slashed := sl, enabled := false, stake := stake' } } := by
  unfold slash at h
  split at h
  · rename_i hp
    cases h; exact Or.inl ⟨hp, rfl⟩
  · rename_i p hp
    right
    split at h
    · cases h
    · rename_i stake' hst
      split at h
      · cases h
      · rename_i slashed hsl
        dsimp only at h
        split at h
        · cases h
        · rename_i hne
          split at h
          · cases h
          · rename_i b1 hb1
            split at h
            · cases h
            · rename_i b2 hb2
              cases h
              exact ⟨p, stake', slashed, b1, b2, hp, hst, hsl, hne, hb1, hb2, rfl⟩

theorem claimUndel_spec {s s' : St} {who id : Nat} (h : claimUndel s who id = some s') :
    ∃ (u : Undel) (b : Bank), s.undels.find? (fun u => u.id == id) = some u ∧ u.owner = who ∧ u.expiry ≤ s.now ∧
      s.bank.send .ms (.user who) u.amount = some b ∧
      s' = { s with bank := b, undels := s.undels.filter (fun u => u.id != id) } := by
  unfold claimUndel at h
  split at h
  · cases h
  · rename_i u hu
    split at h
    · cases h
    · rename_i ho
      split at h
      · cases h
      · rename_i ht
        split at h
        · cases h
        · rename_i b hb
          cases h
          exact ⟨u, b, hu, by simpa using ho, by omega, hb, rfl⟩

theorem upsertPool_spec {s s' : St} {sender val : Nat} {en : Bool} {c : Dec.D} (h : upsertPool s sender val en c = some s') :
    (∃ p, findPool s val = some p ∧ s' = { s with pools := setPool s.pools { p with enabled := en } }) ∨
    (findPool s val = none ∧
      s' = { s with lastPoolId := s.lastPoolId + 1,
                    pools := setPool s.pools { id := s.lastPoolId + 1, val := val, enabled := en, commission := c } }) := by
  unfold upsertPool at h
  split at h
  · cases h
  · split at h
    · cases h
    · split at h
      · rename_i p hp
        split at h
        · cases h
        · cases h; exact Or.inl ⟨p, hp, rfl⟩
      · rename_i hp
        cases h; exact Or.inr ⟨hp, rfl⟩

theorem registerInPool_frame {s s' : St} {who : Nat} {p : Pool} (h : registerInPool s who p = some s') :
    s' = { s with delegators := s'.delegators } := by
  unfold registerInPool at h
  split at h
  · cases h; rfl
  · split at h
    · cases h; rfl
    · rename_i s1 hs1
      have hfr := pushout_frame hs1
      split at h
      · cases h
      · cases h; rw [hfr]
      · cases h; exact hfr

theorem registerLoop_frame {who : Nat} {ps : List Pool} {s s' : St} (h : registerLoop who ps s = some s') :
    s' = { s with delegators := s'.delegators } := by
  induction ps generalizing s with
  | nil => unfold registerLoop at h; cases h; rfl
  | cons p r ih =>
    unfold registerLoop at h
    split at h
    · cases h
    · rename_i s1 hs1
      have h1 := registerInPool_frame hs1
      have h2 := ih h
      rw [h2, h1]

theorem registerDelegator_frame {s s' : St} {who : Nat} (h : registerDelegator s who = some s') :
    s' = { s with delegators := s'.delegators } := registerLoop_frame h

end Sekai.MultiStake
