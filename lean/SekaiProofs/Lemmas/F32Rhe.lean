import Mathlib.Tactic.Linarith
import Mathlib.Tactic.Ring
import Mathlib.Tactic.Positivity
import Mathlib.Tactic.FieldSimp
import Mathlib.Tactic.NormNum
import Mathlib.Algebra.Order.Floor.Ring
import Mathlib.Data.Rat.Floor
import Sekai.Base.F32
/-! `pow2` as a `zpow`; `rhe` (round half even) bounded by integers on either side and around `n + 1/2` -/

namespace Sekai.F32

theorem pow2_eq (e : ℤ) : pow2 e = (2 : ℚ) ^ e := by
  unfold pow2
  split
  · rename_i h
    have : e = (e.toNat : ℤ) := (Int.toNat_of_nonneg h).symm
    conv_rhs => rw [this]
    rw [zpow_natCast]; push_cast; rfl
  · rename_i h
    have hneg : 0 ≤ -e := by omega
    have : e = -((-e).toNat : ℤ) := by rw [Int.toNat_of_nonneg hneg]; ring
    conv_rhs => rw [this]
    rw [zpow_neg, zpow_natCast]; push_cast; simp

theorem pow2_pos (e : ℤ) : 0 < pow2 e := by rw [pow2_eq]; exact zpow_pos (by norm_num) e

theorem pow2_add (a b : ℤ) : pow2 (a + b) = pow2 a * pow2 b := by
  simp only [pow2_eq]; exact zpow_add₀ (by norm_num) a b

theorem floor_toNat_cast (x : ℚ) (hx : 0 ≤ x) : ((x.floor.toNat : ℕ) : ℤ) = ⌊x⌋ := by
  have h0 : 0 ≤ ⌊x⌋ := Int.floor_nonneg.mpr hx
  show ((⌊x⌋.toNat : ℕ) : ℤ) = ⌊x⌋
  exact Int.toNat_of_nonneg h0

/-- rhe x is f or f+1 where f = floor x -/
theorem rhe_cases (x : ℚ) : rhe x = x.floor.toNat ∨ rhe x = x.floor.toNat + 1 := by
  unfold rhe
  simp only
  split
  · left; rfl
  · split
    · right; rfl
    · split
      · left; rfl
      · right; rfl

theorem rhe_ge_of_nat_le (x : ℚ) (hx : 0 ≤ x) (n : ℕ) (h : (n : ℚ) ≤ x) : n ≤ rhe x := by
  have hf : (n : ℤ) ≤ ⌊x⌋ := Int.le_floor.mpr (by exact_mod_cast h)
  have hc := floor_toNat_cast x hx
  have : n ≤ x.floor.toNat := by
    have : (n : ℤ) ≤ ((x.floor.toNat : ℕ) : ℤ) := by rw [hc]; exact hf
    exact_mod_cast this
  rcases rhe_cases x with h1 | h1 <;> omega

theorem rhe_le_of_le_nat (x : ℚ) (hx : 0 ≤ x) (n : ℕ) (h : x ≤ (n : ℚ)) : rhe x ≤ n := by
  have hc := floor_toNat_cast x hx
  have hfl : (⌊x⌋ : ℚ) ≤ x := Int.floor_le x
  have hfn : x.floor.toNat ≤ n := by
    have : ((x.floor.toNat : ℕ) : ℚ) ≤ n := by
      have : (((x.floor.toNat : ℕ) : ℤ) : ℚ) = (⌊x⌋ : ℚ) := by rw [hc]
      have h2 : ((x.floor.toNat : ℕ) : ℚ) = (⌊x⌋ : ℚ) := by exact_mod_cast this
      rw [h2]; linarith
    exact_mod_cast this
  unfold rhe
  simp only
  split
  · exact hfn
  · rename_i hr
    -- fractional part ≥ 1/2 > 0, so x > floor, hence floor < n
    have hlt : ((x.floor.toNat : ℕ) : ℚ) < n := by
      have : (1:ℚ)/2 ≤ x - (x.floor.toNat : ℚ) := by linarith [not_lt.mp hr]
      linarith
    have hlt' : x.floor.toNat < n := by exact_mod_cast hlt
    split
    · omega
    · split <;> omega

theorem rhe_ge_succ_of_gt_half (x : ℚ) (hx : 0 ≤ x) (n : ℕ) (h : (n : ℚ) + 1/2 < x) : n + 1 ≤ rhe x := by
  have hc := floor_toNat_cast x hx
  have hn : n ≤ x.floor.toNat := by
    have hf : (n : ℤ) ≤ ⌊x⌋ := Int.le_floor.mpr (by push_cast; linarith)
    have : (n : ℤ) ≤ ((x.floor.toNat : ℕ) : ℤ) := by rw [hc]; exact hf
    exact_mod_cast this
  by_cases hlt : n < x.floor.toNat
  · rcases rhe_cases x with h1 | h1 <;> omega
  · have heq : x.floor.toNat = n := by omega
    unfold rhe
    simp only
    rw [heq]
    split
    · rename_i hr; linarith
    · split
      · omega
      · rename_i h1 h2; exfalso; apply h2; linarith

theorem rhe_le_of_lt_half (x : ℚ) (hx : 0 ≤ x) (n : ℕ) (h : x < (n : ℚ) + 1/2) : rhe x ≤ n := by
  have hc := floor_toNat_cast x hx
  have hfl : (⌊x⌋ : ℚ) ≤ x := Int.floor_le x
  have h2 : ((x.floor.toNat : ℕ) : ℚ) = (⌊x⌋ : ℚ) := by
    have : (((x.floor.toNat : ℕ) : ℤ) : ℚ) = (⌊x⌋ : ℚ) := by rw [hc]
    exact_mod_cast this
  have hfn : x.floor.toNat ≤ n := by
    have : ((x.floor.toNat : ℕ) : ℚ) < (n : ℚ) + 1 := by rw [h2]; linarith
    have : x.floor.toNat < n + 1 := by exact_mod_cast this
    omega
  by_cases hlt : x.floor.toNat < n
  · rcases rhe_cases x with h1 | h1 <;> omega
  · have heq : x.floor.toNat = n := by omega
    unfold rhe
    simp only
    rw [heq]
    split
    · exact le_rfl
    · rename_i hr; exfalso; apply hr; linarith
end Sekai.F32
