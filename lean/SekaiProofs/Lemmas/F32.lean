import SekaiProofs.Lemmas.F32Mid
/-! # The float32 tally of `CalculatedVotes.ProcessResult` equals the exact rule up to 2^24 votes — and not beyond

* `pass_exact`  — `(float32(yes)/float32(total))*100 > 50`  ⇔ `2·yes > total`   for `0 < total ≤ 2^24`, `yes ≤ total`
* `ge_exact`    — `(float32(n)/float32(d))*100 >= 50`       ⇔ `2·n ≥ d`         for `0 < d ≤ 2^24`, `n ≤ 2^24` (n may exceed d)
* `ge_exact_any` — the same with no bound on `n`
* `processResult_exact` — the whole decision equals `exactRule` under those bounds
* `pass_first_divergence`, `ge_divergence` — closed instances just above 2^24 where the float32 test and the exact
  rule disagree (kernel evaluation of the executable model). -/
namespace Sekai.F32

theorem pass_exact (yes total : ℕ) (ht : 0 < total) (hT : total ≤ 2 ^ 24) (hy : yes ≤ total) :
    passF yes total = decide (2 * yes > total) := by
  unfold passF div mul
  rw [ofNat_exact yes (by omega), ofNat_exact total hT]
  have htq : (0 : ℚ) < total := by exact_mod_cast ht
  have h100 := rne_hundred
  have e50 : ((13107200 : ℕ) : ℚ) * pow2 (-18) = 50 := by rw [pow2_eq]; norm_num
  have e50' : ((13107201 : ℕ) : ℚ) * pow2 (-18) = 50 + (2:ℚ)⁻¹ ^ 18 := by rw [pow2_eq]; norm_num
  by_cases hgt : 2 * yes > total
  · simp only [hgt, decide_true, decide_eq_true_eq]
    rcases Nat.lt_or_ge yes total with hlt | hge
    · -- 1/2 < q < 1
      have hq1 : ((yes : ℚ) / total) < (2:ℚ) ^ 24 * pow2 (-24) := by
        have : (2:ℚ) ^ 24 * pow2 (-24) = 1 := by rw [pow2_eq]; norm_num
        rw [this, div_lt_one htq]; exact_mod_cast hlt
      have hq2 : (((2 ^ 23 : ℕ) : ℚ) + 1 / 2) * pow2 (-24) < (yes : ℚ) / total := by
        have : (((2 ^ 23 : ℕ) : ℚ) + 1 / 2) * pow2 (-24) = (16777217 : ℚ) / 33554432 := by
          rw [pow2_eq]; norm_num
        rw [this, div_lt_div_iff₀ (by norm_num) htq]
        have hnat : 16777217 * total < yes * 33554432 := by omega
        exact_mod_cast hnat
      have hq' := rne_ge_succ _ (2 ^ 23) (-24) (by norm_num) (by norm_num) hq2 hq1
      have hval : (((2 ^ 23 : ℕ) : ℚ) + 1) * pow2 (-24) = 1 / 2 + (2:ℚ)⁻¹ ^ 24 := by rw [pow2_eq]; norm_num
      rw [hval] at hq'
      set q' := rne ((yes : ℚ) / total) with hqd
      have hx : ((13107201 : ℕ) : ℚ) * pow2 (-18) ≤ q' * 100 := by
        rw [e50']; nlinarith [show (2:ℚ)⁻¹ ^ 18 ≤ 100 * (2:ℚ)⁻¹ ^ 24 by norm_num]
      have hpos : 0 < q' * 100 := by
        have : (0:ℚ) < 1 / 2 + (2:ℚ)⁻¹ ^ 24 := by positivity
        nlinarith
      have := rne_ge_repr (q' * 100) hpos 13107201 (-18) (by norm_num) hx
      rw [e50'] at this
      have : (0:ℚ) < (2:ℚ)⁻¹ ^ 18 := by positivity
      linarith
    · have : yes = total := by omega
      subst this
      have : ((yes : ℚ) / (yes : ℚ)) = 1 := div_self (ne_of_gt htq)
      rw [this]
      have h1 := rne_one
      rw [h1]; norm_num; rw [h100]; norm_num
  · simp only [hgt, decide_false, decide_eq_false_iff_not, not_lt]
    have hle : (yes : ℚ) / total ≤ ((2 ^ 23 : ℕ) : ℚ) * pow2 (-24) := by
      have : ((2 ^ 23 : ℕ) : ℚ) * pow2 (-24) = 1 / 2 := by rw [pow2_eq]; norm_num
      rw [this, div_le_iff₀ htq]
      have hnat : 2 * yes ≤ total := by omega
      have : (2 : ℚ) * yes ≤ total := by exact_mod_cast hnat
      linarith
    have hq' := rne_le_repr' _ (2 ^ 23) (-24) (by norm_num) hle
    have hhalf : ((2 ^ 23 : ℕ) : ℚ) * pow2 (-24) = 1 / 2 := by rw [pow2_eq]; norm_num
    rw [hhalf] at hq'
    have hx : rne ((yes : ℚ) / total) * 100 ≤ ((13107200 : ℕ) : ℚ) * pow2 (-18) := by rw [e50]; linarith
    have := rne_le_repr' _ 13107200 (-18) (by norm_num) hx
    rw [e50] at this; exact this


theorem ge_exact (n d : ℕ) (hd : 0 < d) (hD : d ≤ 2 ^ 24) (hN : n ≤ 2 ^ 24) :
    geF n d = decide (2 * n ≥ d) := by
  unfold geF div mul
  rw [ofNat_exact n hN, ofNat_exact d hD]
  have hdq : (0 : ℚ) < d := by exact_mod_cast hd
  have e50 : ((13107200 : ℕ) : ℚ) * pow2 (-18) = 50 := by rw [pow2_eq]; norm_num
  have hhalf : ((2 ^ 23 : ℕ) : ℚ) * pow2 (-24) = 1 / 2 := by rw [pow2_eq]; norm_num
  by_cases hge : 2 * n ≥ d
  · -- n/d ≥ 1/2 (a float) ⇒ float(n/d) ≥ 1/2 ⇒ ·100 ≥ 50 (a float) ⇒ float(·100) ≥ 50
    simp only [hge, decide_true, decide_eq_true_eq]
    have hnpos : 0 < n := by omega
    have hnq : (0 : ℚ) < n := by exact_mod_cast hnpos
    have hqpos : (0 : ℚ) < (n : ℚ) / d := div_pos hnq hdq
    have hle : ((2 ^ 23 : ℕ) : ℚ) * pow2 (-24) ≤ (n : ℚ) / d := by
      rw [hhalf, le_div_iff₀ hdq]
      have : (d : ℚ) ≤ 2 * n := by exact_mod_cast hge
      linarith
    have hq' := rne_ge_repr _ hqpos (2 ^ 23) (-24) (by norm_num) hle
    rw [hhalf] at hq'
    have hx : ((13107200 : ℕ) : ℚ) * pow2 (-18) ≤ rne ((n : ℚ) / d) * 100 := by rw [e50]; linarith
    have hpos : 0 < rne ((n : ℚ) / d) * 100 := by linarith
    have := rne_ge_repr _ hpos 13107200 (-18) (by norm_num) hx
    rw [e50] at this; exact this
  · -- 2n ≤ d-1 and d ≤ 2^24 ⇒ n/d ≤ 1/2 - 2^-25 (the float just below 1/2) ⇒ float(n/d) ≤ 1/2 - 2^-25
    -- ⇒ ·100 ≤ 50 - 100·2^-25 < 50 - 2^-19 (midpoint below 50) ⇒ float(·100) ≤ 50 - 2^-18 < 50
    simp only [hge, decide_false, decide_eq_false_iff_not, not_le]
    have epred : ((16777215 : ℕ) : ℚ) * pow2 (-25) = 1 / 2 - (2:ℚ)⁻¹ ^ 25 := by rw [pow2_eq]; norm_num
    have e50p : ((13107199 : ℕ) : ℚ) * pow2 (-18) = 50 - (2:ℚ)⁻¹ ^ 18 := by rw [pow2_eq]; norm_num
    have e50m : (((13107199 : ℕ) : ℚ) + 1 / 2) * pow2 (-18) = 50 - (2:ℚ)⁻¹ ^ 19 := by rw [pow2_eq]; norm_num
    have hle : (n : ℚ) / d ≤ ((16777215 : ℕ) : ℚ) * pow2 (-25) := by
      have : ((16777215 : ℕ) : ℚ) * pow2 (-25) = (16777215 : ℚ) / 33554432 := by rw [pow2_eq]; norm_num
      rw [this, div_le_div_iff₀ hdq (by norm_num)]
      have hnat : n * 33554432 ≤ 16777215 * d := by omega
      exact_mod_cast hnat
    have hq' := rne_le_repr' _ 16777215 (-25) (by norm_num) hle
    rw [epred] at hq'
    have hx : rne ((n : ℚ) / d) * 100 < (((13107199 : ℕ) : ℚ) + 1 / 2) * pow2 (-18) := by
      rw [e50m]; nlinarith [show (2:ℚ)⁻¹ ^ 19 < 100 * (2:ℚ)⁻¹ ^ 25 by norm_num]
    have := rne_le_pred _ 13107199 (-18) (by norm_num) (by norm_num) hx
    rw [e50p] at this
    have : (0:ℚ) < (2:ℚ)⁻¹ ^ 18 := by positivity
    linarith

/-- the special case with `n ≤ d` (all that the "others" test needs) -/
theorem ge_exact_le (n d : ℕ) (hd : 0 < d) (hD : d ≤ 2 ^ 24) (hn : n ≤ d) :
    geF n d = decide (2 * n ≥ d) := ge_exact n d hd hD (by omega)

/-- no bound on the numerator at all: above 2^24 `float32(n)` is inexact but still ≥ 2^24 ≥ d, so the
test is (correctly) true. `uint64` values are far below the float32 overflow threshold, which the model ignores. -/
theorem ge_exact_any (n d : ℕ) (hd : 0 < d) (hD : d ≤ 2 ^ 24) :
    geF n d = decide (2 * n ≥ d) := by
  rcases Nat.le_total n (2 ^ 24) with hN | hN
  · exact ge_exact n d hd hD hN
  · have hge : 2 * n ≥ d := by omega
    simp only [hge, decide_true]
    unfold geF div mul
    rw [ofNat_exact d hD]
    unfold ofNat
    simp only [decide_eq_true_eq]
    have hdq : (0 : ℚ) < d := by exact_mod_cast hd
    have hnq : (0 : ℚ) < n := by
      have : 0 < n := by omega
      exact_mod_cast this
    have e24 : ((2 ^ 23 : ℕ) : ℚ) * pow2 1 = 2 ^ 24 := by rw [pow2_eq]; norm_num
    have e1 : ((1 : ℕ) : ℚ) * pow2 0 = 1 := by rw [pow2_eq]; norm_num
    have e50 : ((13107200 : ℕ) : ℚ) * pow2 (-18) = 50 := by rw [pow2_eq]; norm_num
    have hn' : (2:ℚ) ^ 24 ≤ rne (n : ℚ) := by
      have h : ((2 ^ 23 : ℕ) : ℚ) * pow2 1 ≤ (n : ℚ) := by rw [e24]; exact_mod_cast hN
      have := rne_ge_repr _ hnq (2 ^ 23) 1 (by norm_num) h
      rwa [e24] at this
    have hdle : (d : ℚ) ≤ 2 ^ 24 := by exact_mod_cast hD
    have hq1 : (1 : ℚ) ≤ rne (n : ℚ) / d := by rw [le_div_iff₀ hdq]; linarith
    have hq' : (1 : ℚ) ≤ rne (rne (n : ℚ) / d) := by
      have h : ((1 : ℕ) : ℚ) * pow2 0 ≤ rne (n : ℚ) / d := by rw [e1]; exact hq1
      have := rne_ge_repr _ (by linarith) 1 0 (by norm_num) h
      rwa [e1] at this
    have hx : ((13107200 : ℕ) : ℚ) * pow2 (-18) ≤ rne (rne (n : ℚ) / d) * 100 := by rw [e50]; linarith
    have := rne_ge_repr _ (by linarith) 13107200 (-18) (by norm_num) hx
    rw [e50] at this; exact this

/-- `ProcessResult` in float32 equals the exact rule whenever every count is at most 2^24 = 16 777 216. -/
theorem processResult_exact (yes no abstain veto actorsWithVeto total : ℕ)
    (hT : total ≤ 2 ^ 24) (hA : actorsWithVeto ≤ 2 ^ 24) (hy : yes ≤ total)
    (ho : no + abstain + veto ≤ total) (hv : veto ≤ 2 ^ 24) :
    processResult yes no abstain veto actorsWithVeto total
      = exactRule yes no abstain veto actorsWithVeto total := by
  have hveto : (actorsWithVeto ≠ 0 ∧ geF veto actorsWithVeto = true)
      ↔ (actorsWithVeto ≠ 0 ∧ 2 * veto ≥ actorsWithVeto) := by
    constructor
    · rintro ⟨h0, h⟩
      rw [ge_exact veto actorsWithVeto (Nat.pos_of_ne_zero h0) hA hv] at h
      exact ⟨h0, of_decide_eq_true h⟩
    · rintro ⟨h0, h⟩
      rw [ge_exact veto actorsWithVeto (Nat.pos_of_ne_zero h0) hA hv]
      exact ⟨h0, decide_eq_true h⟩
  have hpass : (total ≠ 0 ∧ passF yes total = true) ↔ (total ≠ 0 ∧ 2 * yes > total) := by
    constructor
    · rintro ⟨h0, h⟩
      rw [pass_exact yes total (Nat.pos_of_ne_zero h0) hT hy] at h
      exact ⟨h0, of_decide_eq_true h⟩
    · rintro ⟨h0, h⟩
      rw [pass_exact yes total (Nat.pos_of_ne_zero h0) hT hy]
      exact ⟨h0, decide_eq_true h⟩
  have hoth : (total ≠ 0 ∧ geF (no + abstain + veto) total = true)
      ↔ (total ≠ 0 ∧ 2 * (no + abstain + veto) ≥ total) := by
    constructor
    · rintro ⟨h0, h⟩
      rw [ge_exact_le _ total (Nat.pos_of_ne_zero h0) hT ho] at h
      exact ⟨h0, of_decide_eq_true h⟩
    · rintro ⟨h0, h⟩
      rw [ge_exact_le _ total (Nat.pos_of_ne_zero h0) hT ho]
      exact ⟨h0, decide_eq_true h⟩
  unfold processResult exactRule
  simp only [hveto, hpass, hoth]

/-! ## tightness: just above 2^24 the float32 tests leave the exact rule (kernel evaluation of the model) -/

/-- first divergence of the yes test (found by brute force on the Go code, `spikes/go-probe/f32_boundary.go.txt`):
8 388 610 yes out of 16 777 219 is a strict majority, float32 says it is not. -/
theorem pass_first_divergence :
    passF 8388610 16777219 = false ∧ 2 * 8388610 > 16777219 := by decide +kernel

/-- 8 388 608 out of 16 777 217 is strictly less than half, the float32 `>= 50` test accepts it. -/
theorem ge_divergence :
    geF 8388608 16777217 = true ∧ 2 * 8388608 < 16777217 := by decide +kernel

/-- consequently the bound `total ≤ 2^24` of `processResult_exact` cannot be dropped -/
theorem processResult_diverges :
    processResult 8388610 8388609 0 0 0 16777219 ≠ exactRule 8388610 8388609 0 0 0 16777219 := by
  decide +kernel
end Sekai.F32
