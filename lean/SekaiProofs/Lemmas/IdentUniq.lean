import SekaiProofs.Lemmas.IdentFrames
/-! Uniqueness invariant of the identity registry and its preservation by every keeper function. -/
namespace Sekai.Ident

/-- every stored key is in formalised (lower-case) spelling -/
def KeysLower (S : State) : Prop := ∀ r ∈ S.records, lower r.key = r.key

/-- no two different addresses hold the same value under a key of the unique list -/
def Uniq (S : State) : Prop :=
  ∀ r1 ∈ S.records, ∀ r2 ∈ S.records, r1.key ∈ rawSplit S.uniqueKeys → r1.key = r2.key → r1.value = r2.value → r1.addr = r2.addr

def UInv (S : State) : Prop := KeysLower S ∧ Uniq S

theorem UInv_sub {S S' : State} (hs : ∀ x ∈ S'.records, x ∈ S.records) (hk : S'.uniqueKeys = S.uniqueKeys)
    (h : UInv S) : UInv S' := by
  refine ⟨fun r hr => h.1 r (hs r hr), ?_⟩
  intro r1 h1 r2 h2 hin
  rw [hk] at hin
  exact h.2 r1 (hs r1 h1) r2 (hs r2 h2) hin

theorem UInv_recFrame {S S' : State} (f : RecFrame S S') (h : UInv S) : UInv S' :=
  UInv_sub (by intro x hx; rw [f.records] at hx; exact hx) f.uniqueKeys h

theorem uniqueOk_spec {S : State} {k v : String} {a : Nat} (h : uniqueOk S k v a = true) (hk : k ∈ rawSplit S.uniqueKeys) :
    ∀ x ∈ S.records, x.key = k → x.value = v → x.addr = a := by
  intro x hx hxk hxv
  unfold uniqueOk at h
  have hc : (rawSplit S.uniqueKeys).contains k = true := by simpa using hk
  rw [if_pos hc] at h
  have hmem : x.addr ∈ addrsByKV S k v := by
    unfold addrsByKV
    simp only [List.mem_map, List.mem_filter]
    exact ⟨x, ⟨hx, by simp [hxk, hxv]⟩, rfl⟩
  split at h
  · rename_i he; rw [he] at hmem; cases hmem
  · rename_i b he
    rw [he] at hmem
    simp only [List.mem_singleton] at hmem
    rw [hmem]; simpa using h
  · cases h

theorem UInv_putRecord {S : State} {r : Record} (h : UInv S) (hl : lower r.key = r.key)
    (hu : uniqueOk S r.key r.value r.addr = true) : UInv (putRecord S r) := by
  have hr' : ({ r with key := lower r.key } : Record) = r := by cases r; simp_all
  constructor
  · intro x hx
    rcases mem_putRecord hx with e | ⟨hm, _⟩
    · rw [e]; exact lower_idem r.key
    · exact h.1 x hm
  · intro r1 h1 r2 h2 hin hk hv
    have huk : (putRecord S r).uniqueKeys = S.uniqueKeys := rfl
    rw [huk] at hin
    rcases mem_putRecord h1 with e1 | ⟨m1, _⟩ <;> rcases mem_putRecord h2 with e2 | ⟨m2, _⟩
    · rw [e1, e2]
    · rw [e1, hr'] at hin hk hv ⊢
      exact (uniqueOk_spec hu hin r2 m2 hk.symm hv.symm).symm
    · rw [e2, hr'] at hk hv ⊢
      rw [hk] at hin
      exact uniqueOk_spec hu hin r1 m1 hk hv
    · exact h.2 r1 m1 r2 m2 hin hk hv

theorem UInv_setRecord {S S' : State} {r : Record} (h : UInv S) (hl : lower r.key = r.key)
    (hs : setRecord S r = some S') : UInv S' := by
  obtain ⟨_, hu, rfl⟩ := setRecord_some hs
  exact UInv_putRecord h hl hu

theorem UInv_delete {S : State} (d : Nat) (h : UInv S) : UInv (deleteRecordById S d) :=
  UInv_sub (fun _ hx => (mem_delete hx).1) (by simp) h

theorem regCheck_lower {S : State} {a : Nat} (infos : List Info) {out : List Info}
    (h : regCheck S a infos = some out) : ∀ i ∈ out, lower i.key = i.key := by
  induction infos generalizing out with
  | nil => simp [regCheck] at h; subst h; intro i hi; cases hi
  | cons i rest ih =>
    unfold regCheck at h
    split at h
    · cases h
    · simp only at h
      split at h
      · cases h
      · split at h
        · cases h
        · split at h
          · cases h
          · split at h
            · cases h
            · cases hr : regCheck S a rest with
              | none => rw [hr] at h; cases h
              | some l =>
                rw [hr] at h
                simp only [Option.map_some, Option.some.injEq] at h
                subst h
                intro j hj
                rcases List.mem_cons.mp hj with e | hm
                · rw [e]; exact lower_idem _
                · exact ih hr j hm

theorem UInv_regApply {a : Nat} (infos : List Info) {S S' : State} {aff aff' : List Nat}
    (hl : ∀ i ∈ infos, lower i.key = i.key) (h : UInv S)
    (hr : regApply a infos S aff = some (S', aff')) : UInv S' := by
  induction infos generalizing S aff with
  | nil => simp [regApply] at hr; rw [← hr.1]; exact h
  | cons i rest ih =>
    have hli : lower i.key = i.key := hl i (List.mem_cons_self)
    have hlr : ∀ j ∈ rest, lower j.key = j.key := fun j hj => hl j (List.mem_cons_of_mem _ hj)
    unfold regApply at hr
    simp only at hr
    split at hr
    · split at hr
      · cases hr
      · rename_i S2 hs
        have h0 : UInv { S with lastRecordId := S.lastRecordId + 1 } := UInv_sub (fun _ hx => hx) rfl h
        exact ih hlr (UInv_setRecord h0 hli hs) hr
    · split at hr
      · cases hr
      · rename_i S2 hs
        have h2 : UInv S2 := UInv_setRecord (r := ⟨_, a, i.key, i.value, S.now, []⟩) h hli hs
        exact ih hlr h2 hr

theorem UInv_registerRecords {S S' : State} {a : Nat} {infos : List Info} (h : UInv S)
    (hr : registerRecords S a infos = some S') : UInv S' := by
  unfold registerRecords at hr
  split at hr
  · cases hr
  · rename_i infos' hc
    split at hr
    · cases hr
    · rename_i S1 aff ha
      exact UInv_recFrame (cancelInvalid_recFrame hr) (UInv_regApply infos' (regCheck_lower infos hc) h ha)

theorem UInv_deleteLoop (ids : List Nat) {S S' : State} (h : UInv S) (hd : deleteLoop ids S = some S') : UInv S' := by
  induction ids generalizing S with
  | nil => simp [deleteLoop] at hd; subst hd; exact h
  | cons id rest ih =>
    unfold deleteLoop at hd
    split at hd
    · cases hd
    · exact ih (UInv_delete id h) hd

theorem UInv_deleteRecords {S S' : State} {a : Nat} {keys : List String} (h : UInv S)
    (hd : deleteRecords S a keys = some S') : UInv S' := by
  unfold deleteRecords at hd
  split at hd
  · cases hd
  · simp only at hd
    split at hd
    · cases hd
    · rename_i S2 hl
      refine UInv_recFrame (cancelInvalid_recFrame hd) (UInv_deleteLoop _ ?_ hl)
      exact UInv_sub (fun _ hx => hx) rfl h

theorem UInv_approveLoop {v : Nat} (ids : List Nat) {S S' : State} (h : UInv S)
    (ha : approveLoop v ids S = some S') : UInv S' := by
  induction ids generalizing S with
  | nil => simp [approveLoop] at ha; subst ha; exact h
  | cons id rest ih =>
    unfold approveLoop at ha
    split at ha
    · cases ha
    · rename_i r hr
      split at ha
      · exact ih h ha
      · split at ha
        · cases ha
        · rename_i S1 hs
          have hl : lower r.key = r.key := h.1 r (getRec_mem hr).1
          exact ih (UInv_setRecord (r := { r with verifiers := r.verifiers ++ [v] }) h hl hs) ha

theorem UInv_handleVerify {S S' : State} {v id : Nat} {yes : Bool} (h : UInv S)
    (hh : handleVerify S v id yes = some S') : UInv S' := by
  unfold handleVerify at hh
  split at hh
  · cases hh
  · rename_i q hq
    split at hh
    · cases hh
    · split at hh
      · cases hh
      · rename_i S1 hpay
        have f1 : RecFrame S S1 := by
          by_cases h0 : q.amount = 0
          · simp [h0] at hpay; subst hpay; exact RecFrame.refl _
          · simp [h0] at hpay; exact sendFromGov_recFrame hpay
        have h1 : UInv S1 := UInv_recFrame f1 h
        split at hh
        · cases hh
        · split at hh
          · cases hh; exact UInv_recFrame (deleteReq_recFrame _ _) h1
          · split at hh
            · cases hh
            · rename_i S2 ha
              cases hh
              exact UInv_recFrame (deleteReq_recFrame _ _) (UInv_approveLoop _ h1 ha)

theorem UInv_requestVerify {S S' : State} {a v : Nat} {ids : List Nat} {d n : Nat} (h : UInv S)
    (hr : requestVerify S a v ids d n = some S') : UInv S' := by
  unfold requestVerify at hr
  simp only at hr
  split at hr
  · cases hr
  · split at hr
    · cases hr
    · split at hr
      · cases hr
      · have h1 : UInv { setReq S ⟨S.lastReqId + 1, a, v, ids, d, n, ‹Nat›⟩ with lastReqId := S.lastReqId + 1 } :=
          UInv_sub (fun _ hx => hx) rfl h
        split at hr
        · exact UInv_recFrame (sendToGov_recFrame hr) h1
        · cases hr; exact h1

/-- under a key that passed `EnsureUniqueKeys` no two list positions share key and value; in particular
two records with the same key and value are the same record -/
theorem noDupUnder_eq (newKs : List String) (l : List Record) (h : noDupUnder newKs l = true) :
    ∀ r1 ∈ l, ∀ r2 ∈ l, r1.key ∈ newKs → r1.key = r2.key → r1.value = r2.value → r1 = r2 := by
  induction l with
  | nil => intro r1 h1; cases h1
  | cons x xs ih =>
    unfold noDupUnder at h
    simp only [Bool.and_eq_true, Bool.not_eq_true', Bool.and_eq_false_iff] at h
    obtain ⟨hx, hrest⟩ := h
    have key : ∀ y ∈ xs, x.key ∈ newKs → y.key = x.key → y.value = x.value → False := by
      intro y hy hin hk hv
      rcases hx with hx | hx
      · have : newKs.contains x.key = true := by simpa using hin
        rw [this] at hx; cases hx
      · have : xs.any (fun r2 => r2.key == x.key && r2.value == x.value) = true := by
          simp only [List.any_eq_true]
          exact ⟨y, hy, by simp [hk, hv]⟩
        rw [this] at hx; cases hx
    intro r1 h1 r2 h2 hin hk hv
    rcases List.mem_cons.mp h1 with e1 | m1 <;> rcases List.mem_cons.mp h2 with e2 | m2
    · rw [e1, e2]
    · subst e1; exact (key r2 m2 hin hk.symm hv.symm).elim
    · subst e2; rw [hk] at hin; exact (key r1 m1 hin hk hv).elim
    · exact ih hrest r1 m1 r2 m2 hin hk hv


theorem mem_splitKeys {k s : String} (h : k ∈ splitKeys s) : k ∈ rawSplit s := by
  unfold splitKeys at h
  split at h
  · cases h
  · exact h

theorem UInv_setKeysSingle {S S' : State} {new : String} (h : UInv S) (hs : setKeysSingle S new = some S') : UInv S' := by
  unfold setKeysSingle at hs
  split at hs
  · cases hs
  · simp only at hs
    split at hs
    · cases hs
    · rename_i hnd
      split at hs
      · cases hs
      · rename_i hv
        cases hs
        have hnd' : noDupUnder ((splitKeys new).filter (fun k => !(splitKeys S.uniqueKeys).contains k)) S.records = true := by
          simpa using hnd
        have hv' : validUniqueKeys new = true := by simpa using hv
        have hne : (new == "") = false := by
          unfold validUniqueKeys at hv'
          simp only [Bool.and_eq_true, bne_iff_ne, ne_eq] at hv'
          simpa using hv'.1.1.1
        refine ⟨h.1, ?_⟩
        intro r1 h1 r2 h2 hin hk hval
        change r1.key ∈ rawSplit new at hin
        by_cases hold : r1.key ∈ splitKeys S.uniqueKeys
        · exact h.2 r1 h1 r2 h2 (mem_splitKeys hold) hk hval
        · have hnew : r1.key ∈ (splitKeys new).filter (fun k => !(splitKeys S.uniqueKeys).contains k) := by
            simp only [List.mem_filter]
            refine ⟨?_, by simpa using hold⟩
            unfold splitKeys; rw [hne]; exact hin
          have := noDupUnder_eq _ _ hnd' r1 h1 r2 h2 hnew hk hval
          rw [this]

theorem UInv_claimValidator {S S' : State} {a : Nat} {m : String} (h : UInv S)
    (hc : claimValidator S a m = some S') : UInv S' :=
  UInv_registerRecords h (claimValidator_some hc)

theorem UInv_claimCouncilor {S S' : State} {a : Nat} {fs : List String} (h : UInv S)
    (hc : claimCouncilor S a fs = some S') : UInv S' :=
  UInv_registerRecords (S := { S with councilors := if S.councilors.contains a then S.councilors else a :: S.councilors })
    (UInv_sub (fun _ hx => hx) rfl h) (claimCouncilor_some hc)

theorem collectRecs_mem {S : State} (ids : List Nat) {recs : List Record} (h : collectRecs S ids = some recs) :
    ∀ r ∈ recs, r ∈ S.records := by
  induction ids generalizing recs with
  | nil => simp [collectRecs] at h; subst h; intro r hr; cases hr
  | cons id rest ih =>
    unfold collectRecs at h
    split at h
    · cases h
    · rename_i r0 hr0
      cases hc : collectRecs S rest with
      | none => rw [hc] at h; cases h
      | some l =>
        rw [hc] at h
        simp only [Option.map_some, Option.some.injEq] at h
        subst h
        intro r hr
        rcases List.mem_cons.mp hr with e | hm
        · rw [e]; exact (getRec_mem hr0).1
        · exact ih hc r hm

theorem UInv_moveRecords {new : Nat} (recs : List Record) {S S' : State}
    (hl : ∀ r ∈ recs, lower r.key = r.key) (h : UInv S) (hm : moveRecords new recs S = some S') : UInv S' := by
  induction recs generalizing S with
  | nil => simp [moveRecords] at hm; subst hm; exact h
  | cons r rest ih =>
    unfold moveRecords at hm
    split at hm
    · cases hm
    · rename_i S1 hs
      have hlr : lower r.key = r.key := hl r List.mem_cons_self
      have h1 : UInv S1 := UInv_setRecord (r := { r with addr := new }) (UInv_delete r.id h) hlr hs
      exact ih (fun x hx => hl x (List.mem_cons_of_mem _ hx)) h1 hm

theorem rotateChecks_recFrame {S S' : State} {p o n : Nat} {ok : Bool} (h : rotateChecks S p o n ok = some S') : RecFrame S S' := by
  unfold rotateChecks at h
  split at h
  · cases h
  · simp only at h
    split at h
    · cases h
    · split at h
      · cases h
      · split at h
        · cases h
        · split at h
          · cases h
          · split at h
            · cases h
            · cases h; exact ⟨rfl, rfl, rfl, rfl⟩

theorem UInv_rotate {S S' : State} {p o n : Nat} {ok : Bool} (h : UInv S) (hr : rotate S p o n ok = some S') : UInv S' := by
  unfold rotate at hr
  split at hr
  · cases hr
  · rename_i S1 h1
    split at hr
    · cases hr
    · rename_i S2 h2
      cases hr
      have u1 : UInv S1 := UInv_recFrame (rotateChecks_recFrame h1) h
      unfold rotateRegistry at h2
      split at h2
      · cases h2
      · rename_i recs hrecs
        split at h2
        · cases h2
        · rename_i S3 hmv
          have u3 : UInv S3 := UInv_moveRecords recs (fun r hr => u1.1 r (collectRecs_mem _ hrecs r hr)) u1 hmv
          split at h2
          · cases h2
          · rename_i qs1 _
            simp only at h2
            split at h2
            · cases h2
            · rename_i qs2 _
              cases h2
              have f := (moveReqs_recFrame (fun q => { q with addr := n }) qs1 S3).trans
                (moveReqs_recFrame (fun q => { q with verifier := n }) qs2 _)
              have u4 := UInv_recFrame f u3
              exact UInv_sub (fun _ hx => hx) rfl u4

/-- every message except the whole-record network-property message preserves the uniqueness invariant -/
theorem UInv_apply {S S' : State} {o : Op} (hw : o.isSetKeysWhole = false) (h : UInv S) (ha : apply S o = some S') : UInv S' := by
  cases o with
  | register a infos => simp only [apply] at ha; split at ha; · cases ha
                        · exact UInv_registerRecords h ha
  | delete a keys => exact UInv_deleteRecords h ha
  | request a v ids d n => simp only [apply] at ha; split at ha; · cases ha
                           · exact UInv_requestVerify h ha
  | handle v id yes => simp only [apply] at ha; split at ha; · cases ha
                       · exact UInv_handleVerify h ha
  | cancel a id => simp only [apply] at ha; split at ha; · cases ha
                   · exact UInv_recFrame (cancelReq_recFrame ha) h
  | claimVal a m => exact UInv_claimValidator h ha
  | claimCouncil a fs => exact UInv_claimCouncilor h ha
  | setKeysSingle new => exact UInv_setKeysSingle h ha
  | setKeysWhole s new => simp [Op.isSetKeysWhole] at hw
  | setMinTip n => simp only [apply, Option.some.injEq] at ha; subst ha; exact UInv_sub (fun _ hx => hx) rfl h
  | time t => simp only [apply, Option.some.injEq] at ha; subst ha; exact UInv_sub (fun _ hx => hx) rfl h
  | rotate p o n ok => exact UInv_rotate h ha

theorem UInv_step {S : State} {o : Op} (hw : o.isSetKeysWhole = false) (h : UInv S) : UInv (step S o) := by
  unfold step
  split
  · rename_i S' ha; exact UInv_apply hw h ha
  · exact h

theorem UInv_run (ops : List Op) {S : State} (hw : ∀ o ∈ ops, o.isSetKeysWhole = false) (h : UInv S) : UInv (run S ops) := by
  induction ops generalizing S with
  | nil => exact h
  | cons o rest ih =>
    unfold run
    simp only [List.foldl_cons]
    exact ih (fun x hx => hw x (List.mem_cons_of_mem _ hx)) (UInv_step (hw o List.mem_cons_self) h)

end Sekai.Ident
