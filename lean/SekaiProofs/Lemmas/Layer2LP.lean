import SekaiProofs.Lemmas.Layer2Refund
/-! C20: the keeper-level LP functions — inversion lemmas, escrow through keeper calls, round-trip arithmetic. -/
namespace Sekai.Layer2
open Sekai

/-! ### Dec facts -/

theorem chopRound_nonneg {x : Int} (h : 0 ≤ x) : 0 ≤ Dec.chopRound x := by
  unfold Dec.chopRound
  have hP : (0 : Int) < Dec.P := by unfold Dec.P; omega
  have hq : 0 ≤ x / Dec.P := Int.ediv_nonneg h (Int.le_of_lt hP)
  simp only [show ¬ x < 0 from by omega, decide_false, Bool.false_eq_true, if_false]
  split
  · exact hq
  · split
    · omega
    · split <;> omega

theorem fee_nonneg {x : Int} {fee : Dec.D} (hx : 0 ≤ x) (hf : 0 ≤ fee) : 0 ≤ Dec.roundInt (Dec.mul (Dec.ofInt x) fee) := by
  unfold Dec.roundInt Dec.mul Dec.ofInt
  apply chopRound_nonneg
  apply chopRound_nonneg
  have hP : (0 : Int) ≤ Dec.P := by unfold Dec.P; omega
  exact Int.mul_nonneg (Int.mul_nonneg hx hP) hf

/-! ### inversion lemmas -/

theorem collectFee_ok {b b1 : Bank} {den : Bytes} {f : Int} (h : collectFee b den f = .ok b1) :
    (¬ 0 < f ∧ b1 = b) ∨ (0 < f ∧ b.tkBurn den f = some b1) := by
  unfold collectFee at h
  split at h
  · rename_i hp
    split at h
    · cases h
    · split at h
      · rename_i b' hb'
        cases h
        exact Or.inr ⟨hp, hb'⟩
      · cases h
  · rename_i hp
    cases h
    exact Or.inl ⟨hp, rfl⟩

theorem kRedeem_ok {s s' : St} {t u : Nat} {d : Dapp} {fee : Dec.D} {lpDen : Bytes} {a out : Int}
    (h : kRedeem s t u d fee lpDen a = .ok (s', out)) :
    lpOf d.denom = lpDen ∧ s.bank.supply (lpOf d.denom) + a ≠ 0 ∧
    ∃ b1 b2 b3, collectFee s.bank d.bondDenom (redeemMath d.bond (s.bank.supply (lpOf d.denom)) a fee).2.2 = .ok b1 ∧
      b1.send (.user u) .l2 lpDen a = some b2 ∧
      b2.send .l2 (.user u) d.bondDenom out = some b3 ∧
      out = (redeemMath d.bond (s.bank.supply (lpOf d.denom)) a fee).2.1 - (redeemMath d.bond (s.bank.supply (lpOf d.denom)) a fee).2.2 ∧
      s' = { s with bank := b3, dapps := setDapp s.dapps (redeemRecord s.P t d (redeemMath d.bond (s.bank.supply (lpOf d.denom)) a fee).1) } := by
  unfold kRedeem at h
  split at h
  · cases h
  · rename_i h1
    split at h
    · cases h
    · rename_i h2
      simp only at h
      split at h
      · cases h
      · rename_i b1 hb1
        split at h
        · cases h
        · rename_i b2 hb2
          split at h
          · cases h
          · split at h
            · cases h
            · rename_i b3 hb3
              have h' := Except.ok.inj h
              have e1 := (Prod.mk.inj h').1
              have e2 := (Prod.mk.inj h').2
              subst e2
              exact ⟨Classical.not_not.mp h1, h2, b1, b2, b3, hb1, hb2, hb3, rfl, e1.symm⟩

theorem kSwap_ok {s s' : St} {u : Nat} {d : Dapp} {fee : Dec.D} {den : Bytes} {b out : Int}
    (h : kSwap s u d fee den b = .ok (s', out)) :
    den = s.P.native ∧ d.bond + b ≠ 0 ∧
    ∃ b1 b2 b3, collectFee s.bank (lpOf d.denom) (swapMath d.bond (s.bank.supply (lpOf d.denom)) b fee).2 = .ok b1 ∧
      b1.send (.user u) .l2 den b = some b2 ∧
      b2.send .l2 (.user u) (lpOf d.denom) out = some b3 ∧
      out = (swapMath d.bond (s.bank.supply (lpOf d.denom)) b fee).1 - (swapMath d.bond (s.bank.supply (lpOf d.denom)) b fee).2 ∧
      s' = { s with bank := b3, dapps := setDapp s.dapps (swapRecord s.P d b) } := by
  unfold kSwap at h
  split at h
  · cases h
  · rename_i h1
    split at h
    · cases h
    · rename_i h2
      simp only at h
      split at h
      · cases h
      · rename_i b1 hb1
        split at h
        · cases h
        · rename_i b2 hb2
          split at h
          · cases h
          · split at h
            · cases h
            · rename_i b3 hb3
              have h' := Except.ok.inj h
              have e1 := (Prod.mk.inj h').1
              have e2 := (Prod.mk.inj h').2
              subst e2
              exact ⟨Classical.not_not.mp h1, h2, b1, b2, b3, hb1, hb2, hb3, rfl, e1.symm⟩

theorem redeemRecord_fields (P : Params) (t : Nat) (d : Dapp) (T' : Int) :
    (redeemRecord P t d T').name = d.name ∧ (redeemRecord P t d T').bond = T' ∧ (redeemRecord P t d T').bondDenom = d.bondDenom ∧
    (redeemRecord P t d T').denom = d.denom := by
  unfold redeemRecord; split <;> exact ⟨rfl, rfl, rfl, rfl⟩

theorem swapRecord_fields (P : Params) (d : Dapp) (b : Int) :
    (swapRecord P d b).name = d.name ∧ (swapRecord P d b).bond = d.bond + b ∧ (swapRecord P d b).bondDenom = d.bondDenom ∧
    (swapRecord P d b).denom = d.denom := by
  unfold swapRecord; split <;> exact ⟨rfl, rfl, rfl, rfl⟩

theorem findDapp_setDapp_self (ds : List Dapp) (d : Dapp) : findDapp (setDapp ds d) d.name = some d := by
  induction ds with
  | nil => simp [setDapp, findDapp]
  | cons x xs ih =>
    unfold setDapp
    split
    · simp [findDapp]
    · rename_i hx
      unfold findDapp at ih ⊢
      rw [List.find?_cons]
      simp only [hx, decide_false]
      exact ih

/-! ### escrow through keeper-level calls -/

/-- unique names and the module holds the recorded bonds -/
def HeldK (s : St) : Prop := (names s.dapps).Nodup ∧ Held s

theorem heldK_redeem {s s' : St} {t u : Nat} {d : Dapp} {fee : Dec.D} {lpDen : Bytes} {a out : Int}
    (hH : HeldK s) (hd : d ∈ s.dapps) (hnl : NativeNotLp s.P)
    (hfee : 0 ≤ (redeemMath d.bond (s.bank.supply (lpOf d.denom)) a fee).2.2)
    (h : kRedeem s t u d fee lpDen a = .ok (s', out)) :
    HeldK s' ∧ s'.P = s.P ∧ ∀ x ∈ s.dapps, x.name ≠ d.name → x ∈ s'.dapps := by
  obtain ⟨hlp, _, b1, b2, b3, hb1, hb2, hb3, hout, rfl⟩ := kRedeem_ok h
  obtain ⟨rn, rb, rbd, _⟩ := redeemRecord_fields s.P t d (redeemMath d.bond (s.bank.supply (lpOf d.denom)) a fee).1
  refine ⟨⟨names_setDapp_nodup hH.1, ?_⟩, rfl, fun x hx hne => mem_setDapp_of_ne hx (by rw [rn]; exact hne)⟩
  have hHeld := hH.2
  unfold Held at hHeld ⊢
  simp only
  rw [nt_setDapp_mem _ hH.1 hd rn]
  simp only [contrib, rb, rbd]
  have hlpne : lpDen ≠ s.P.native := hlp ▸ hnl d.denom
  by_cases hbd : d.bondDenom = s.P.native
  · rw [if_pos hbd, if_pos hbd]
    rw [hbd] at hb3 hb1
    have e3 := (send_bal_src hb3 (by simp)).1
    have e2 := send_other_denom hb2 .l2 _ (Ne.symm hlpne)
    rw [e3, e2]
    have hm : (redeemMath d.bond (s.bank.supply (lpOf d.denom)) a fee).2.1
        = d.bond - (redeemMath d.bond (s.bank.supply (lpOf d.denom)) a fee).1 := rfl
    rcases collectFee_ok hb1 with ⟨hnp, rfl⟩ | ⟨hp, hburn⟩
    · omega
    · obtain ⟨_, _, e1, _⟩ := tkBurn_some hburn
      rw [e1]; omega
  · rw [if_neg hbd, if_neg hbd]
    have e3 := send_other_denom hb3 .l2 _ (Ne.symm hbd)
    have e2 := send_other_denom hb2 .l2 _ (Ne.symm hlpne)
    rw [e3, e2]
    rcases collectFee_ok hb1 with ⟨hnp, rfl⟩ | ⟨hp, hburn⟩
    · omega
    · obtain ⟨_, _, _, e1, _⟩ := tkBurn_some hburn
      rw [e1 _ _ (Or.inr (Ne.symm hbd))]; omega

theorem heldK_swap {s s' : St} {u : Nat} {d : Dapp} {fee : Dec.D} {den : Bytes} {b out : Int}
    (hH : HeldK s) (hd : d ∈ s.dapps) (hnl : NativeNotLp s.P)
    (h : kSwap s u d fee den b = .ok (s', out)) :
    HeldK s' ∧ s'.P = s.P ∧ ∀ x ∈ s.dapps, x.name ≠ d.name → x ∈ s'.dapps := by
  obtain ⟨hden, _, b1, b2, b3, hb1, hb2, hb3, hout, rfl⟩ := kSwap_ok h
  obtain ⟨rn, rb, rbd, _⟩ := swapRecord_fields s.P d b
  refine ⟨⟨names_setDapp_nodup hH.1, ?_⟩, rfl, fun x hx hne => mem_setDapp_of_ne hx (by rw [rn]; exact hne)⟩
  have hHeld := hH.2
  unfold Held at hHeld ⊢
  simp only
  rw [nt_setDapp_mem _ hH.1 hd rn]
  simp only [contrib, rb, rbd]
  subst hden
  have hlpne : lpOf d.denom ≠ s.P.native := hnl d.denom
  have e3 := send_other_denom hb3 .l2 _ (Ne.symm hlpne)
  have e2 := (send_bal_src hb2 (by simp)).2.1
  obtain ⟨_, hbpos, _, _⟩ := send_some hb2
  have e1 : b1.bal .l2 s.P.native = s.bank.bal .l2 s.P.native := by
    rcases collectFee_ok hb1 with ⟨_, rfl⟩ | ⟨_, hburn⟩
    · rfl
    · obtain ⟨_, _, _, e1, _⟩ := tkBurn_some hburn
      exact e1 _ _ (Or.inr (Ne.symm hlpne))
  rw [e3, e2, e1]
  split <;> omega

/-! ### round trip: swap `b` native in, redeem everything received -/

theorem swapLp_le_supply {T S b : Int} (hT : 0 ≤ T) (hS : 0 ≤ S) (hb : 0 < b) : S - Int.tdiv (T * S) (T + b) ≤ S := by
  rw [Int.tdiv_eq_ediv_of_nonneg (Int.mul_nonneg hT hS)]
  have : 0 ≤ T * S / (T + b) := Int.ediv_nonneg (Int.mul_nonneg hT hS) (by omega)
  omega

theorem swapLp_nonneg {T S b : Int} (fee : Dec.D) (hT : 0 ≤ T) (hS : 0 ≤ S) (hb : 0 < b) : 0 ≤ (swapMath T S b fee).1 := by
  show 0 ≤ S - Int.tdiv (T * S) (T + b)
  rw [Int.tdiv_eq_ediv_of_nonneg (Int.mul_nonneg hT hS)]
  have h2 : T * S / (T + b) ≤ S := by
    apply Int.ediv_le_of_le_mul (by omega)
    rw [Int.mul_add, Int.mul_comm S T]
    have : 0 ≤ S * b := Int.mul_nonneg hS (by omega)
    omega
  omega

/-- the arithmetic heart of `no_free_money`: if the swap did not hand out more LP than the pre-swap price
(`T·L ≤ b·S`), redeeming everything received returns at most what was paid — whatever the (non-negative) fees -/
theorem swap_redeem_no_gain {T S b : Int} {fee1 fee2 : Dec.D} (hT : 0 ≤ T) (hS : 0 ≤ S) (hb : 0 < b) (hf1 : 0 ≤ fee1) (hf2 : 0 ≤ fee2)
    (hrecv : 0 < (swapMath T S b fee1).1 - (swapMath T S b fee1).2)
    (hfair : T * (swapMath T S b fee1).1 ≤ b * S) :
    (redeemMath (T + b) (S - (swapMath T S b fee1).2) ((swapMath T S b fee1).1 - (swapMath T S b fee1).2) fee2).2.1
      - (redeemMath (T + b) (S - (swapMath T S b fee1).2) ((swapMath T S b fee1).1 - (swapMath T S b fee1).2) fee2).2.2 ≤ b := by
  have hLS : (swapMath T S b fee1).1 ≤ S := swapLp_le_supply hT hS hb
  have hL0 : 0 ≤ (swapMath T S b fee1).1 := swapLp_nonneg fee1 hT hS hb
  have hf1n : 0 ≤ (swapMath T S b fee1).2 := fee_nonneg hL0 hf1
  generalize hLdef : (swapMath T S b fee1).1 = L at *
  generalize hfdef : (swapMath T S b fee1).2 = f at *
  -- redeem of a = L - f from the pool (T + b, S - f)
  have ha : 0 < L - f := hrecv
  have hS' : 0 ≤ S - f := by omega
  have hden : 0 < (S - f) + (L - f) := by omega
  have hnum : 0 ≤ (T + b) * (S - f) := Int.mul_nonneg (by omega) hS'
  -- T·(L−f) ≤ b·(S−f)
  have hkey : T * (L - f) ≤ b * (S - f) := by
    by_cases hTb : b ≤ T
    · have h1 : 0 ≤ (T - b) * f := Int.mul_nonneg (by omega) hf1n
      rw [Int.sub_mul] at h1
      rw [Int.mul_sub, Int.mul_sub]
      omega
    · have h1 : T * (L - f) ≤ b * (L - f) := Int.mul_le_mul_of_nonneg_right (by omega) (by omega)
      have h2 : b * (L - f) ≤ b * (S - f) := Int.mul_le_mul_of_nonneg_left (by omega) (by omega)
      omega
  have hq : T ≤ (T + b) * (S - f) / ((S - f) + (L - f)) := by
    apply (Int.le_ediv_iff_mul_le hden).mpr
    rw [Int.mul_add, Int.add_mul]
    have : b * (S - f) = b * (S - f) := rfl
    omega
  have hgross : (redeemMath (T + b) (S - f) (L - f) fee2).2.1 ≤ b := by
    show (T + b) - Int.tdiv ((T + b) * (S - f)) ((S - f) + (L - f)) ≤ b
    rw [Int.tdiv_eq_ediv_of_nonneg hnum]
    omega
  have hgross0 : 0 ≤ (redeemMath (T + b) (S - f) (L - f) fee2).2.1 := by
    show 0 ≤ (T + b) - Int.tdiv ((T + b) * (S - f)) ((S - f) + (L - f))
    rw [Int.tdiv_eq_ediv_of_nonneg hnum]
    have : (T + b) * (S - f) / ((S - f) + (L - f)) ≤ T + b := by
      apply Int.ediv_le_of_le_mul hden
      rw [Int.mul_add]
      have : 0 ≤ (T + b) * (L - f) := Int.mul_nonneg (by omega) (by omega)
      omega
    omega
  have hfee2 : 0 ≤ (redeemMath (T + b) (S - f) (L - f) fee2).2.2 := fee_nonneg hgross0 hf2
  omega

/-! ### keeper-level runs -/

/-- decidable exclusions for the keeper-level escrow theorem: the redemption fee amount is not negative (a negative
`PoolFee` would pay the trader more than the record loses) and a conversion does not name the same dApp twice
(`ConvertDappPoolTx` writes the target from a value read before the redeem) -/
def kopOk (s : St) : KOp → Bool
  | .redeem _ _ name fee _ a =>
    match findDapp s.dapps name with
    | some d => decide (0 ≤ (redeemMath d.bond (s.bank.supply (lpOf d.denom)) a fee).2.2)
    | none => true
  | .swap _ _ _ _ _ => true
  | .convert _ _ n1 n2 _ a =>
    decide (n1 ≠ n2) && match findDapp s.dapps n1 with
    | some d => decide (0 ≤ (redeemMath d.bond (s.bank.supply (lpOf d.denom)) a (Dec.quo d.poolFee (Dec.ofInt 2))).2.2)
    | none => true

def KSafeRun (s : St) : List KOp → Prop
  | [] => True
  | op :: rest => kopOk s op = true ∧ KSafeRun (kstep s op) rest

theorem heldK_kstep {s : St} {op : KOp} (hH : HeldK s) (hnl : NativeNotLp s.P) (hop : kopOk s op = true) :
    HeldK (kstep s op) ∧ (kstep s op).P = s.P := by
  unfold kstep
  cases op with
  | redeem t u name fee lpDen a =>
    simp only [kapply]
    cases hf : findDapp s.dapps name with
    | none => exact ⟨hH, rfl⟩
    | some d =>
      simp only [Option.map]
      cases hr : kRedeem s t u d fee lpDen a with
      | error e => exact ⟨hH, rfl⟩
      | ok r =>
        obtain ⟨s', out⟩ := r
        have hfee : 0 ≤ (redeemMath d.bond (s.bank.supply (lpOf d.denom)) a fee).2.2 := by
          simpa [kopOk, hf] using hop
        have := heldK_redeem hH (findDapp_some hf).1 hnl hfee hr
        exact ⟨this.1, this.2.1⟩
  | swap u name fee den b =>
    simp only [kapply]
    cases hf : findDapp s.dapps name with
    | none => exact ⟨hH, rfl⟩
    | some d =>
      simp only [Option.map]
      cases hr : kSwap s u d fee den b with
      | error e => exact ⟨hH, rfl⟩
      | ok r =>
        obtain ⟨s', out⟩ := r
        have := heldK_swap hH (findDapp_some hf).1 hnl hr
        exact ⟨this.1, this.2.1⟩
  | convert t u n1 n2 lpDen a =>
    simp only [kapply]
    cases hf1 : findDapp s.dapps n1 with
    | none => exact ⟨hH, rfl⟩
    | some d1 =>
      cases hf2 : findDapp s.dapps n2 with
      | none => exact ⟨hH, rfl⟩
      | some d2 =>
        simp only
        cases hr : kConvert s t u d1 d2 lpDen a with
        | error e => exact ⟨hH, rfl⟩
        | ok r =>
          obtain ⟨s', out⟩ := r
          simp only
          unfold kConvert at hr
          split at hr
          · cases hr
          · rename_i s1 got hrd
            simp only [kopOk, hf1, Bool.and_eq_true, decide_eq_true_eq] at hop
            obtain ⟨hne, hfee⟩ := hop
            obtain ⟨hd1, hn1⟩ := findDapp_some hf1
            obtain ⟨hd2, hn2⟩ := findDapp_some hf2
            obtain ⟨hH1, hP1, hkeep⟩ := heldK_redeem hH hd1 hnl hfee hrd
            have hd2' : d2 ∈ s1.dapps := hkeep d2 hd2 (by rw [hn1, hn2]; exact Ne.symm hne)
            have := heldK_swap hH1 hd2' (hP1 ▸ hnl) hr
            exact ⟨this.1, this.2.1.trans hP1⟩

theorem heldK_krun (ops : List KOp) {s : St} (hH : HeldK s) (hnl : NativeNotLp s.P) (hs : KSafeRun s ops) : HeldK (krun s ops) := by
  induction ops generalizing s with
  | nil => exact hH
  | cons op rest ih =>
    obtain ⟨hop, hrest⟩ := hs
    obtain ⟨h1, h2⟩ := heldK_kstep hH hnl hop
    exact ih h1 (h2 ▸ hnl) hrest

end Sekai.Layer2
