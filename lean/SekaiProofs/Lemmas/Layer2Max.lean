import SekaiProofs.Lemmas.Layer2End
/-! C20: frames (`P`, `addr` never change), books and maximum-bond invariants per operation and along runs. -/
namespace Sekai.Layer2

def Op.isUpsert : Op → Bool
  | .upsert _ => true
  | _ => false

/-! ### LP message handlers: always rejected -/

theorem msgRedeem_error (s : St) (name lpDen : Bytes) : ∃ e, msgRedeem s name lpDen = .error e := by
  unfold msgRedeem
  split
  · exact ⟨_, rfl⟩
  · split
    · exact ⟨_, rfl⟩
    · split <;> exact ⟨_, rfl⟩

theorem msgSwap_error (s : St) (name : Bytes) : ∃ e, msgSwap s name = .error e := by
  unfold msgSwap
  split
  · exact ⟨_, rfl⟩
  · split <;> exact ⟨_, rfl⟩

theorem msgConvert_error (s : St) (name : Bytes) : ∃ e, msgConvert s name = .error e := by
  unfold msgConvert
  split
  · exact ⟨_, rfl⟩
  · split <;> exact ⟨_, rfl⟩

/-! ### frames -/

theorem refund_frameP {s s' : St} {name : Bytes} {l : List UBond} (h : refundLoop s name l = some s') : s'.P = s.P ∧ s'.addr = s.addr :=
  ⟨(refundLoop_frame h).2.2.1, (refundLoop_frame h).2.2.2.1⟩

theorem finish_frame {s s' : St} {t : Nat} {d : Dapp} (h : finishBootstrap s t d = .ok s') : s'.P = s.P ∧ s'.addr = s.addr := by
  rcases finishBootstrap_ok h with rfl | ⟨_, s1, hs1, rfl⟩ | ⟨_, bk, sp, rfl, _⟩
  · exact ⟨rfl, rfl⟩
  · exact (refund_frameP hs1 : s1.P = s.P ∧ s1.addr = s.addr)
  · exact ⟨rfl, rfl⟩

theorem liquidate_frame (s : St) (t : Nat) (d : Dapp) : (liquidate s t d).P = s.P ∧ (liquidate s t d).addr = s.addr := by
  rcases liquidate_eq s t d with he | ⟨_, he⟩ <;> rw [he] <;> exact ⟨rfl, rfl⟩

theorem endBlockDapp_frame {s s' : St} {t : Nat} {d : Dapp} (h : endBlockDapp s t d = .ok s') : s'.P = s.P ∧ s'.addr = s.addr := by
  obtain ⟨s1, s2, d2, h1, h2, rfl⟩ := endBlockDapp_ok h
  have f1 : s1.P = s.P ∧ s1.addr = s.addr := by
    rcases h1 with ⟨_, _, hf⟩ | rfl
    · exact finish_frame hf
    · exact ⟨rfl, rfl⟩
  have f2 : s2.P = s1.P ∧ s2.addr = s1.addr := by
    rcases postMint_ok h2 with ⟨rfl, rfl⟩ | ⟨_, _, bk, rfl, _⟩ <;> exact ⟨rfl, rfl⟩
  have f3 := liquidate_frame s2 t d2
  exact ⟨f3.1.trans (f2.1.trans f1.1), f3.2.trans (f2.2.trans f1.2)⟩

theorem endBlockLoop_frame {t : Nat} (l : List Dapp) {s s' : St} (h : endBlockLoop s t l = .ok s') : s'.P = s.P ∧ s'.addr = s.addr := by
  induction l generalizing s with
  | nil => unfold endBlockLoop at h; cases h; exact ⟨rfl, rfl⟩
  | cons d rest ih =>
    unfold endBlockLoop at h
    split at h
    · rename_i s1 hs1
      have f1 := endBlockDapp_frame hs1
      have f2 := ih h
      exact ⟨f2.1.trans f1.1, f2.2.trans f1.2⟩
    · cases h

theorem upsert_ok {s s' : St} {p : Dapp} (h : upsertDapp s p = .ok s') : s' = { s with dapps := setDapp s.dapps p } := by
  unfold upsertDapp at h
  split at h
  · cases h
  · split at h
    · cases h
    · exact (Except.ok.inj h).symm

theorem apply_frame {s s' : St} {op : Op} (h : apply s op = .ok s') : s'.P = s.P ∧ s'.addr = s.addr := by
  cases op with
  | create t u perm d den amt =>
    obtain ⟨s1, hs1, _, rfl, _, _⟩ := createDapp_ok h
    obtain ⟨_, _, e3, e4, _⟩ := createPay_frame hs1
    exact ⟨e3, e4⟩
  | bond u name den amt =>
    obtain ⟨d, s1, nb, _, _, _, _, hs1, _, rfl⟩ := bondDapp_ok h
    obtain ⟨bk, _, rfl⟩ := escrowIn_some hs1
    exact ⟨rfl, rfl⟩
  | reclaim u name den amt =>
    obtain ⟨d, b, s1, _, _, _, _, _, _, hs1, rfl⟩ := reclaimDapp_ok h
    obtain ⟨bk, _, rfl⟩ := escrowOut_some hs1
    exact ⟨rfl, rfl⟩
  | endBlock t => exact endBlockLoop_frame _ h
  | upsert p => rw [upsert_ok h]; exact ⟨rfl, rfl⟩
  | msgRedeem name lpDen => obtain ⟨e, he⟩ := msgRedeem_error s name lpDen; simp [apply, he] at h
  | msgSwap name => obtain ⟨e, he⟩ := msgSwap_error s name; simp [apply, he] at h
  | msgConvert name => obtain ⟨e, he⟩ := msgConvert_error s name; simp [apply, he] at h
  | xfer src dst den amt =>
    simp only [apply] at h
    split at h
    · cases h; exact ⟨rfl, rfl⟩
    · cases h

theorem step_frame (s : St) (op : Op) : (step s op).P = s.P ∧ (step s op).addr = s.addr := by
  unfold step
  split
  · rename_i s' h; exact apply_frame h
  · exact ⟨rfl, rfl⟩

theorem run_frame (ops : List Op) (s : St) : (run s ops).P = s.P ∧ (run s ops).addr = s.addr := by
  induction ops generalizing s with
  | nil => exact ⟨rfl, rfl⟩
  | cons op rest ih =>
    have h1 := ih (step s op)
    have h2 := step_frame s op
    exact ⟨h1.1.trans h2.1, h1.2.trans h2.2⟩

/-! ### books along runs -/

theorem books_apply {s s' : St} {op : Op} (hI : BooksInv s) (hop : op.isUpsert = false) (h : apply s op = .ok s') : BooksInv s' := by
  cases op with
  | create t u perm d den amt => exact books_create hI h
  | bond u name den amt => exact books_bond hI h
  | reclaim u name den amt => exact books_reclaim hI h
  | endBlock t => exact books_endBlock hI h
  | upsert p => cases hop
  | msgRedeem name lpDen => obtain ⟨e, he⟩ := msgRedeem_error s name lpDen; simp [apply, he] at h
  | msgSwap name => obtain ⟨e, he⟩ := msgSwap_error s name; simp [apply, he] at h
  | msgConvert name => obtain ⟨e, he⟩ := msgConvert_error s name; simp [apply, he] at h
  | xfer src dst den amt =>
    simp only [apply] at h
    split at h
    · cases h; exact hI
    · cases h

theorem books_step {s : St} {op : Op} (hI : BooksInv s) (hop : op.isUpsert = false) : BooksInv (step s op) := by
  unfold step
  split
  · rename_i s' h; exact books_apply hI hop h
  · exact hI

theorem books_run (ops : List Op) {s : St} (hI : BooksInv s) (hops : ∀ op ∈ ops, op.isUpsert = false) : BooksInv (run s ops) := by
  induction ops generalizing s with
  | nil => exact hI
  | cons op rest ih =>
    exact ih (books_step hI (hops op List.mem_cons_self)) (fun o ho => hops o (List.mem_cons_of_mem _ ho))

/-! ### maximum bond -/

def MaxInv (s : St) : Prop := ∀ d ∈ s.dapps, d.status = 0 → d.bond ≤ (s.P.maxBond : Int) * million

theorem mem_setDapp_weak {ds : List Dapp} {d x : Dapp} (h : x ∈ setDapp ds d) : x = d ∨ x ∈ ds := by
  rcases mem_setDapp h with h | ⟨h, _⟩
  · exact Or.inl h
  · exact Or.inr h

/-- creations within the maximum, no UpsertDapp proposal -/
def Op.withinMax (P : Params) : Op → Bool
  | .create _ _ _ _ _ amt => decide (amt ≤ (P.maxBond : Int) * million)
  | .upsert _ => false
  | _ => true

theorem max_setDapp {s : St} {rec_ : Dapp} (hI : MaxInv s) (hr : rec_.status = 0 → rec_.bond ≤ (s.P.maxBond : Int) * million) :
    ∀ d ∈ setDapp s.dapps rec_, d.status = 0 → d.bond ≤ (s.P.maxBond : Int) * million := by
  intro x hx hst
  rcases mem_setDapp_weak hx with rfl | hx'
  · exact hr hst
  · exact hI x hx' hst

theorem max_endBlockDapp {s s' : St} {t : Nat} {d : Dapp} (hI : MaxInv s) (h : endBlockDapp s t d = .ok s') : MaxInv s' := by
  have hP := (endBlockDapp_frame h).1
  obtain ⟨s1, s2, d2, h1, h2, rfl⟩ := endBlockDapp_ok h
  have hI1 : MaxInv s1 ∧ s1.P = s.P := by
    rcases h1 with ⟨_, _, hf⟩ | rfl
    · have hP1 := (finish_frame hf).1
      rcases finishBootstrap_ok hf with rfl | ⟨_, s0, hs0, rfl⟩ | ⟨_, bk, sp, rfl, _⟩
      · exact ⟨hI, rfl⟩
      · obtain ⟨_, e2, e3, _, _⟩ := refundLoop_frame hs0
        refine ⟨?_, hP1⟩
        intro x hx hst
        simp only [e2] at hx
        simp only [e3]
        exact hI x (mem_delDapp.mp hx).1 hst
      · refine ⟨?_, rfl⟩
        exact max_setDapp (rec_ := { d with status := 3, premintTime := t }) hI (fun h => by simp at h)
    · exact ⟨hI, rfl⟩
  have hI2 : MaxInv s2 ∧ s2.P = s.P := by
    rcases postMint_ok h2 with ⟨rfl, rfl⟩ | ⟨hst, rfl, bk, rfl, _⟩
    · exact hI1
    · refine ⟨?_, hI1.2⟩
      exact max_setDapp (rec_ := { d with postMintPaid := true }) hI1.1 (fun h => by simp [hst] at h)
  rcases liquidate_eq s2 t d2 with he | ⟨_, he⟩
  · rw [he]; exact hI2.1
  · rw [he]
    exact max_setDapp (rec_ := { d2 with status := 3 }) hI2.1 (fun h => by simp at h)

theorem max_endBlockLoop {t : Nat} (l : List Dapp) {s s' : St} (hI : MaxInv s) (h : endBlockLoop s t l = .ok s') : MaxInv s' := by
  induction l generalizing s with
  | nil => unfold endBlockLoop at h; cases h; exact hI
  | cons d rest ih =>
    unfold endBlockLoop at h
    split at h
    · rename_i s1 hs1
      exact ih (max_endBlockDapp hI hs1) h
    · cases h

theorem max_apply {s s' : St} {op : Op} (hI : MaxInv s) (hop : op.withinMax s.P = true) (h : apply s op = .ok s') : MaxInv s' := by
  have hP := (apply_frame h).1
  cases op with
  | create t u perm d den amt =>
    obtain ⟨s1, hs1, hf, rfl, _, _⟩ := createDapp_ok h
    obtain ⟨e1, _, e3, _, _⟩ := createPay_frame hs1
    have hI1 : MaxInv s1 := by unfold MaxInv; rw [e1, e3]; exact hI
    have hamt : amt ≤ (s.P.maxBond : Int) * million := by simpa [Op.withinMax] using hop
    exact max_setDapp hI1 (fun _ => by simp only [e3]; exact hamt)
  | bond u name den amt =>
    obtain ⟨d, s1, nb, _, _, _, hmax, hs1, _, rfl⟩ := bondDapp_ok h
    obtain ⟨bk, _, rfl⟩ := escrowIn_some hs1
    exact max_setDapp (s := { s with bank := bk, ledger := _ }) hI (fun _ => hmax)
  | reclaim u name den amt =>
    obtain ⟨d, b, s1, hd, _, _, _, _, _, hs1, rfl⟩ := reclaimDapp_ok h
    obtain ⟨bk, hbk, rfl⟩ := escrowOut_some hs1
    obtain ⟨_, hpos, _, _⟩ := send_some hbk
    refine max_setDapp (s := { s with bank := bk, ledger := _ }) hI (fun hst => ?_)
    have := hI d (findDapp_some hd).1 hst
    simp only
    omega
  | endBlock t => exact max_endBlockLoop _ hI h
  | upsert p => simp [Op.withinMax] at hop
  | msgRedeem name lpDen => obtain ⟨e, he⟩ := msgRedeem_error s name lpDen; simp [apply, he] at h
  | msgSwap name => obtain ⟨e, he⟩ := msgSwap_error s name; simp [apply, he] at h
  | msgConvert name => obtain ⟨e, he⟩ := msgConvert_error s name; simp [apply, he] at h
  | xfer src dst den amt =>
    simp only [apply] at h
    split at h
    · cases h; exact hI
    · cases h

theorem max_run (ops : List Op) {s : St} (hI : MaxInv s) (hops : ∀ op ∈ ops, op.withinMax s.P = true) : MaxInv (run s ops) := by
  induction ops generalizing s with
  | nil => exact hI
  | cons op rest ih =>
    have hstep : MaxInv (step s op) := by
      unfold step
      split
      · rename_i s' h; exact max_apply hI (hops op List.mem_cons_self) h
      · exact hI
    apply ih hstep
    intro o ho
    rw [(step_frame s op).1]
    exact hops o (List.mem_cons_of_mem _ ho)

end Sekai.Layer2
