import Sekai.Base.Dec
/-! rounding lemmas about the `LegacyDec` model -/
namespace Sekai.Dec

theorem P_pos : 0 < P := by decide
theorem P_ne : P ≠ 0 := by decide

theorem chopRound_nonneg_le (x : Int) (hx : 0 ≤ x) : chopRound x ≤ x / P + 1 := by
  unfold chopRound
  have hneg : ¬ (x < 0) := by omega
  simp only [hneg, decide_false, Bool.false_eq_true, if_false]
  repeat' split
  all_goals omega

theorem chopRound_nonneg_ge (x : Int) (hx : 0 ≤ x) : x / P ≤ chopRound x := by
  unfold chopRound
  have hneg : ¬ (x < 0) := by omega
  simp only [hneg, decide_false, Bool.false_eq_true, if_false]
  repeat' split
  all_goals omega

theorem chopRound_nonneg (x : Int) (hx : 0 ≤ x) : 0 ≤ chopRound x :=
  Int.le_trans (Int.ediv_nonneg hx (Int.le_of_lt P_pos)) (chopRound_nonneg_ge x hx)

/-- exact on multiples of 10^18 -/
theorem chopRound_mul (k : Int) : chopRound (k * P) = k := by
  unfold chopRound
  by_cases hk : k * P < 0
  · have hk' : k < 0 := by
      by_cases h : k < 0
      · exact h
      · have := Int.mul_nonneg (show 0 ≤ k by omega) (Int.le_of_lt P_pos); omega
    simp only [hk, decide_true, if_true]
    have e : -(k * P) = (-k) * P := by rw [Int.neg_mul]
    rw [e, Int.mul_ediv_cancel _ P_ne, Int.mul_emod_left]
    have : (0 : Int) < half := by decide
    simp [this]
  · simp only [hk, decide_false, Bool.false_eq_true, if_false]
    rw [Int.mul_ediv_cancel _ P_ne, Int.mul_emod_left]
    have : (0 : Int) < half := by decide
    simp [this]

/-- `Dec(a).Mul(r)` is exact -/
theorem mul_ofInt_left (a : Int) (r : D) : mul (ofInt a) r = a * r := by
  unfold mul ofInt
  have : a * P * r = (a * r) * P := by rw [Int.mul_assoc, Int.mul_comm P r, ← Int.mul_assoc]
  rw [this, chopRound_mul]

theorem mul_ofInt_right (r : D) (a : Int) : mul r (ofInt a) = r * a := by
  unfold mul ofInt
  rw [← Int.mul_assoc, chopRound_mul]

/-- `x.Quo(Dec(n)).TruncateInt()` for non-negative x and positive n is at most ⌊x / (n·10^18)⌋ + 1 -/
theorem truncInt_quo_ofInt_le (x n : Int) (hx : 0 ≤ x) (hn : 0 < n) :
    truncInt (quo x (ofInt n)) ≤ x / (n * P) + 1 := by
  unfold truncInt quo ofInt
  have hP := P_pos
  have h0 : 0 ≤ x * P * P := Int.mul_nonneg (Int.mul_nonneg hx (Int.le_of_lt hP)) (Int.le_of_lt hP)
  rw [Int.tdiv_eq_ediv_of_nonneg h0]
  have e1 : x * P * P / (n * P) = x * P / n := Int.mul_ediv_mul_of_pos_left (x * P) n hP
  rw [e1]
  have hy : 0 ≤ x * P / n := Int.ediv_nonneg (Int.mul_nonneg hx (Int.le_of_lt hP)) (Int.le_of_lt hn)
  have hc := chopRound_nonneg_le (x * P / n) hy
  have hc0 := chopRound_nonneg (x * P / n) hy
  rw [Int.tdiv_eq_ediv_of_nonneg hc0]
  have h2 : chopRound (x * P / n) / P ≤ (x * P / n / P + 1) / P := Int.ediv_le_ediv hP hc
  have e2 : x * P / n / P = x / n := by
    rw [Int.ediv_ediv_of_nonneg (Int.le_of_lt hn), Int.mul_comm n P, ← Int.ediv_ediv_of_nonneg (Int.le_of_lt hP),
      Int.mul_ediv_cancel _ P_ne]
  rw [e2] at h2
  have e3 : x / (n * P) = x / n / P := (Int.ediv_ediv_of_nonneg (Int.le_of_lt hn)).symm
  rw [e3]
  have hq : 0 ≤ x / n := Int.ediv_nonneg hx (Int.le_of_lt hn)
  have h3 : (x / n + 1) / P ≤ x / n / P + 1 := by
    have := Int.lt_ediv_add_one_mul_self (x / n) hP
    have hle : x / n + 1 ≤ (x / n / P + 1) * P := by omega
    have := Int.ediv_le_ediv hP hle
    rw [Int.mul_ediv_cancel _ P_ne] at this
    exact this
  omega

end Sekai.Dec
