import Sekai.Model.Recovery
/-! Lemmas about the x/recovery model: frames of the store moves, inversion of the messages, range sums. Core Lean only. -/
namespace Sekai.Recovery

/-! ## bank primitives -/

theorem send_ok {S S' : State} {src dst : Addr} {d : Denom} {amt : Int} (h : send S src dst d amt = .ok S') :
    0 ≤ amt ∧ amt ≤ S.bal src d ∧
    S' = { (setBal (setBal S src d (S.bal src d - amt)) dst d ((setBal S src d (S.bal src d - amt)).bal dst d + amt)) with
            hasAcc := fun a => if a = dst then true else S.hasAcc a } := by
  unfold send at h
  split at h
  · cases h
  · split at h
    · cases h
    · cases h
      exact ⟨by omega, by omega, rfl⟩

/-- balances after a successful send -/
theorem send_bal {S S' : State} {src dst : Addr} {d : Denom} {amt : Int} (h : send S src dst d amt = .ok S') (a : Addr) (d' : Denom) :
    S'.bal a d' =
      if d' = d then
        (if src = dst then S.bal a d'
         else if a = src then S.bal a d' - amt else if a = dst then S.bal a d' + amt else S.bal a d')
      else S.bal a d' := by
  obtain ⟨_, _, rfl⟩ := send_ok h
  simp only [setBal]
  by_cases hd : d' = d
  · subst hd
    by_cases hsd : src = dst
    · subst hsd
      by_cases ha : a = src
      · subst ha; simp
      · simp [ha]
    · by_cases ha : a = src
      · subst ha; simp [hsd]
      · by_cases hb : a = dst
        · subst hb
          simp [ha, hsd]
        · simp [ha, hb, hsd]
  · simp [hd]

theorem send_bal_other {S S' : State} {src dst : Addr} {d : Denom} {amt : Int} (h : send S src dst d amt = .ok S') (a : Addr)
    (d' : Denom) (h1 : a ≠ src) (h2 : a ≠ dst) : S'.bal a d' = S.bal a d' := by
  rw [send_bal h]
  split <;> simp [h1, h2]

/-- a send changes only balances and the account flag of the recipient -/
structure SendFrame (S S' : State) : Prop where
  supply : S'.supply = S.supply
  denoms : S'.denoms = S.denoms
  secret : S'.secret = S.secret
  token : S'.token = S.token
  byDenom : S'.byDenom = S.byDenom
  rotated : S'.rotated = S.rotated
  holders : S'.holders = S.holders
  hRewards : S'.hRewards = S.hRewards
  claims : S'.claims = S.claims
  poolIds : S'.poolIds = S.poolIds
  vals : S'.vals = S.vals
  byCons : S'.byCons = S.byCons
  queue : S'.queue = S.queue
  reg : S'.reg = S.reg
  reqs : S'.reqs = S.reqs
  slashProps : S'.slashProps = S.slashProps
  corrupt : S'.corrupt = S.corrupt
  bond : S'.bond = S.bond
  order : S'.order = S.order

theorem send_frame {S S' : State} {src dst : Addr} {d : Denom} {amt : Int} (h : send S src dst d amt = .ok S') : SendFrame S S' := by
  obtain ⟨_, _, rfl⟩ := send_ok h
  constructor <;> rfl

theorem send_hasAcc {S S' : State} {src dst : Addr} {d : Denom} {amt : Int} (h : send S src dst d amt = .ok S') (a : Addr) :
    S'.hasAcc a = if a = dst then true else S.hasAcc a := by
  obtain ⟨_, _, rfl⟩ := send_ok h
  rfl

/-! ## what the store moves of a rotation `old → new` can change -/

/-- everything outside the two addresses is untouched; supply, secrets, holder registry, holder rewards, queues are untouched entirely -/
structure RotFrame (old new : Addr) (S S' : State) : Prop where
  supply : S'.supply = S.supply
  denoms : S'.denoms = S.denoms
  secret : S'.secret = S.secret
  rotated : S'.rotated = S.rotated
  holders : S'.holders = S.holders
  hRewards : S'.hRewards = S.hRewards
  queue : S'.queue = S.queue
  slashProps : S'.slashProps = S.slashProps
  bond : S'.bond = S.bond
  order : S'.order = S.order
  bal : ∀ a d, a ≠ old → a ≠ new → S'.bal a d = S.bal a d
  hasAcc : ∀ a, a ≠ new → S'.hasAcc a = S.hasAcc a
  token : ∀ a, a ≠ old → a ≠ new → S'.token a = S.token a
  claims : ∀ k s a, a ≠ old → a ≠ new → S'.claims k s a = S.claims k s a
  vals : ∀ a, a ≠ old → a ≠ new → S'.vals a = S.vals a

theorem RotFrame.refl (old new : Addr) (S : State) : RotFrame old new S S :=
  ⟨rfl, rfl, rfl, rfl, rfl, rfl, rfl, rfl, rfl, rfl, fun _ _ _ _ => rfl, fun _ _ => rfl, fun _ _ _ => rfl, fun _ _ _ _ _ => rfl, fun _ _ _ => rfl⟩

theorem RotFrame.trans {old new : Addr} {S S1 S2 : State} (h1 : RotFrame old new S S1) (h2 : RotFrame old new S1 S2) :
    RotFrame old new S S2 where
  supply := h2.supply.trans h1.supply
  denoms := h2.denoms.trans h1.denoms
  secret := h2.secret.trans h1.secret
  rotated := h2.rotated.trans h1.rotated
  holders := h2.holders.trans h1.holders
  hRewards := h2.hRewards.trans h1.hRewards
  queue := h2.queue.trans h1.queue
  slashProps := h2.slashProps.trans h1.slashProps
  bond := h2.bond.trans h1.bond
  order := h2.order.trans h1.order
  bal := fun a d ha hb => (h2.bal a d ha hb).trans (h1.bal a d ha hb)
  hasAcc := fun a ha => (h2.hasAcc a ha).trans (h1.hasAcc a ha)
  token := fun a ha hb => (h2.token a ha hb).trans (h1.token a ha hb)
  claims := fun k s a ha hb => (h2.claims k s a ha hb).trans (h1.claims k s a ha hb)
  vals := fun a ha hb => (h2.vals a ha hb).trans (h1.vals a ha hb)

theorem moveClaim_frame (k : Kind) (old new : Addr) (S : State) : RotFrame old new S (moveClaim k old new S) := by
  refine ⟨rfl, rfl, rfl, rfl, rfl, rfl, rfl, rfl, rfl, rfl, fun _ _ _ _ => rfl, fun _ _ => rfl, fun _ _ _ => rfl, ?_, fun _ _ _ => rfl⟩
  intro k' s a ha hb
  show (if k' = k then (match S.claims k s old with
        | none => S.claims k' s a
        | some v => if a = new then some v else if a = old then none else S.claims k' s a) else S.claims k' s a) = _
  split
  · split
    · rfl
    · simp [ha, hb]
  · rfl

theorem moveClaim1_frame (k : Kind) (s0 : Nat) (old new : Addr) (S : State) : RotFrame old new S (moveClaim1 k s0 old new S) := by
  refine ⟨rfl, rfl, rfl, rfl, rfl, rfl, rfl, rfl, rfl, rfl, fun _ _ _ _ => rfl, fun _ _ => rfl, fun _ _ _ => rfl, ?_, fun _ _ _ => rfl⟩
  intro k' s a ha hb
  show (if k' = k ∧ s = s0 then (match S.claims k s0 old with
        | none => S.claims k' s a
        | some v => if a = new then some v else if a = old then none else S.claims k' s a) else S.claims k' s a) = _
  split
  · split
    · rfl
    · simp [ha, hb]
  · rfl

theorem moveCompound_frame (old new : Addr) (S : State) : RotFrame old new S (moveCompound old new S) := by
  refine ⟨rfl, rfl, rfl, rfl, rfl, rfl, rfl, rfl, rfl, rfl, fun _ _ _ _ => rfl, fun _ _ => rfl, fun _ _ _ => rfl, ?_, fun _ _ _ => rfl⟩
  intro k' s a ha hb
  show (if k' = Kind.compound ∧ s = 0 then (if a = new then some ((S.claims .compound 0 old).getD 0)
        else if a = old then none else S.claims k' s a) else S.claims k' s a) = _
  split
  · simp [ha, hb]
  · rfl

theorem moveDelegators_frame (old new : Addr) (S : State) : RotFrame old new S (moveDelegators old new S) := by
  refine ⟨rfl, rfl, rfl, rfl, rfl, rfl, rfl, rfl, rfl, rfl, fun _ _ _ _ => rfl, fun _ _ => rfl, fun _ _ _ => rfl, ?_, fun _ _ _ => rfl⟩
  intro k' s a ha hb
  show (if k' = Kind.delegator ∧ S.poolIds.contains s then (match S.claims .delegator s old with
        | none => S.claims k' s a
        | some v => if a = new then some v else if a = old then none else S.claims k' s a) else S.claims k' s a) = _
  split
  · split
    · rfl
    · simp [ha, hb]
  · rfl

theorem movePool_frame (old new : Addr) (S : State) : RotFrame old new S (movePool old new S) := by
  unfold movePool
  split
  · exact RotFrame.refl _ _ _
  · have h := moveClaim1_frame .pool 0 old new S
    split
    · exact h
    · split
      · exact h
      · exact ⟨h.supply, h.denoms, h.secret, h.rotated, h.holders, h.hRewards, h.queue, h.slashProps, h.bond, h.order, h.bal, h.hasAcc, h.token, h.claims, h.vals⟩

theorem moveRewards_frame (old new : Addr) (S : State) : RotFrame old new S (moveRewards old new S) := by
  unfold moveRewards
  split
  · exact RotFrame.refl _ _ _
  · split
    · exact RotFrame.refl _ _ _
    · exact moveClaim1_frame _ _ _ _ _

theorem moveVal_frame (old new : Addr) (S : State) : RotFrame old new S (moveVal old new S) := by
  unfold moveVal
  split
  · exact RotFrame.refl _ _ _
  · refine ⟨rfl, rfl, rfl, rfl, rfl, rfl, rfl, rfl, rfl, rfl, fun _ _ _ _ => rfl, fun _ _ => rfl, fun _ _ _ => rfl, fun _ _ _ _ _ => rfl, ?_⟩
    intro a ha hb
    simp [addValidator, removeValidator, ha, hb]

theorem moveToken_frame (old new : Addr) (tok : Token) (S : State) : RotFrame old new S (moveToken old new tok S) := by
  refine ⟨rfl, rfl, rfl, rfl, rfl, rfl, rfl, rfl, rfl, rfl, fun _ _ _ _ => rfl, fun _ _ => rfl, ?_, fun _ _ _ _ _ => rfl, fun _ _ _ => rfl⟩
  intro a ha hb
  simp [moveToken, ha, hb]

theorem moveCoins_frame (old new : Addr) (S : State) : RotFrame old new S (moveCoins old new S) := by
  unfold moveCoins
  split
  · refine ⟨rfl, rfl, rfl, rfl, rfl, rfl, rfl, rfl, rfl, rfl, ?_, ?_, fun _ _ _ => rfl, fun _ _ _ _ _ => rfl, fun _ _ _ => rfl⟩
    · intro a d ha hb; simp [ha, hb]
    · intro a ha; simp [ha]
  · exact RotFrame.refl _ _ _

theorem moveReqs_frame (old new : Addr) (S : State) : RotFrame old new S (moveReqs old new S) :=
  ⟨rfl, rfl, rfl, rfl, rfl, rfl, rfl, rfl, rfl, rfl, fun _ _ _ _ => rfl, fun _ _ => rfl, fun _ _ _ => rfl, fun _ _ _ _ _ => rfl, fun _ _ _ => rfl⟩

/-- replacing the registry and the corrupt flag changes nothing else -/
theorem setReg_frame (old new : Addr) (S : State) (R : Reg) (c : Bool) : RotFrame old new S { S with reg := R, corrupt := c } :=
  ⟨rfl, rfl, rfl, rfl, rfl, rfl, rfl, rfl, rfl, rfl, fun _ _ _ _ => rfl, fun _ _ => rfl, fun _ _ _ => rfl, fun _ _ _ _ _ => rfl, fun _ _ _ => rfl⟩

theorem holderMoves1_frame (old new : Addr) (tok : Token) (S : State) : RotFrame old new S (holderMoves1 old new tok S) := by
  unfold holderMoves1
  exact (((((((moveToken_frame old new tok S).trans (moveCompound_frame _ _ _)).trans (moveDelegators_frame _ _ _)).trans
    (moveRewards_frame _ _ _)).trans (movePool_frame _ _ _)).trans (moveVal_frame _ _ _)).trans (moveClaim_frame _ _ _ _))

theorem secretMoves2_frame (old new : Addr) (S : State) : RotFrame old new S (secretMoves2 old new S) := by
  unfold secretMoves2
  exact ((((((((((((moveClaim_frame .vote old new S).trans (moveCompound_frame _ _ _)).trans (moveDelegators_frame _ _ _)).trans
    (moveRewards_frame _ _ _)).trans (movePool_frame _ _ _)).trans (moveClaim_frame _ _ _ _)).trans (moveVal_frame _ _ _)).trans
    (moveClaim_frame _ _ _ _)).trans (moveClaim_frame _ _ _ _)).trans (moveClaim_frame _ _ _ _)).trans (moveClaim_frame _ _ _ _)).trans
    (moveClaim_frame _ _ _ _)).trans (moveClaim_frame _ _ _ _)

/-! ## inversion of the two rotations -/

/-! ## the claims store through the moves: a move of another kind leaves a kind alone; the move of the kind carries it over -/

theorem moveClaim_claims_ne {k k' : Kind} (h : k ≠ k') (old new : Addr) (S : State) :
    (moveClaim k' old new S).claims k = S.claims k := by
  funext s a
  show (if k = k' then _ else S.claims k s a) = _
  rw [if_neg h]

theorem moveClaim_claims_new {k : Kind} {old new : Addr} {S : State} {s v : Nat} (h : S.claims k s old = some v) :
    (moveClaim k old new S).claims k s new = some v := by
  show (if k = k then (match S.claims k s old with
        | none => S.claims k s new
        | some v => if new = new then some v else if new = old then none else S.claims k s new) else S.claims k s new) = _
  rw [if_pos rfl, h]; simp

theorem moveClaim_claims_old {k : Kind} {old new : Addr} {S : State} {s v : Nat} (h : S.claims k s old = some v) (hne : old ≠ new) :
    (moveClaim k old new S).claims k s old = none := by
  show (if k = k then (match S.claims k s old with
        | none => S.claims k s old
        | some v => if old = new then some v else if old = old then none else S.claims k s old) else S.claims k s old) = _
  rw [if_pos rfl, h]; simp [hne]

theorem moveCompound_claims_ne {k : Kind} (h : k ≠ Kind.compound) (old new : Addr) (S : State) :
    (moveCompound old new S).claims k = S.claims k := by
  funext s a
  show (if k = Kind.compound ∧ s = 0 then _ else S.claims k s a) = _
  rw [if_neg (fun hh => h hh.1)]

theorem moveCompound_claims_new (old new : Addr) (S : State) :
    (moveCompound old new S).claims .compound 0 new = some ((S.claims .compound 0 old).getD 0) := by
  show (if Kind.compound = Kind.compound ∧ (0 : Nat) = 0 then (if new = new then some ((S.claims .compound 0 old).getD 0)
        else if new = old then none else S.claims .compound 0 new) else S.claims .compound 0 new) = _
  simp

theorem moveDelegators_claims_ne {k : Kind} (h : k ≠ Kind.delegator) (old new : Addr) (S : State) :
    (moveDelegators old new S).claims k = S.claims k := by
  funext s a
  show (if k = Kind.delegator ∧ S.poolIds.contains s then _ else S.claims k s a) = _
  rw [if_neg (fun hh => h hh.1)]

theorem moveDelegators_claims_new {old new : Addr} {S : State} {s v : Nat} (h : S.claims .delegator s old = some v)
    (hp : S.poolIds.contains s = true) : (moveDelegators old new S).claims .delegator s new = some v := by
  show (if Kind.delegator = Kind.delegator ∧ S.poolIds.contains s then (match S.claims .delegator s old with
        | none => S.claims .delegator s new
        | some v => if new = new then some v else if new = old then none else S.claims .delegator s new) else S.claims .delegator s new) = _
  rw [if_pos ⟨rfl, hp⟩, h]; simp

theorem moveDelegators_claims_old {old new : Addr} {S : State} {s v : Nat} (h : S.claims .delegator s old = some v)
    (hp : S.poolIds.contains s = true) (hne : old ≠ new) : (moveDelegators old new S).claims .delegator s old = none := by
  show (if Kind.delegator = Kind.delegator ∧ S.poolIds.contains s then (match S.claims .delegator s old with
        | none => S.claims .delegator s old
        | some v => if old = new then some v else if old = old then none else S.claims .delegator s old) else S.claims .delegator s old) = _
  rw [if_pos ⟨rfl, hp⟩, h]; simp [hne]

theorem moveClaim1_claims_ne {k k' : Kind} (h : k ≠ k') (s0 : Nat) (old new : Addr) (S : State) :
    (moveClaim1 k' s0 old new S).claims k = S.claims k := by
  funext s a
  show (if k = k' ∧ s = s0 then _ else S.claims k s a) = _
  rw [if_neg (fun hh => h hh.1)]

theorem moveClaim1_claims_new {k : Kind} {s0 : Nat} {old new : Addr} {S : State} {v : Nat} (h : S.claims k s0 old = some v) :
    (moveClaim1 k s0 old new S).claims k s0 new = some v := by
  show (if k = k ∧ s0 = s0 then (match S.claims k s0 old with
        | none => S.claims k s0 new
        | some v => if new = new then some v else if new = old then none else S.claims k s0 new) else S.claims k s0 new) = _
  rw [if_pos ⟨rfl, rfl⟩, h]; simp

theorem moveClaim1_claims_old {k : Kind} {s0 : Nat} {old new : Addr} {S : State} {v : Nat} (h : S.claims k s0 old = some v) (hne : old ≠ new) :
    (moveClaim1 k s0 old new S).claims k s0 old = none := by
  show (if k = k ∧ s0 = s0 then (match S.claims k s0 old with
        | none => S.claims k s0 old
        | some v => if old = new then some v else if old = old then none else S.claims k s0 old) else S.claims k s0 old) = _
  rw [if_pos ⟨rfl, rfl⟩, h]; simp [hne]

theorem movePool_claims_ne {k : Kind} (h : k ≠ Kind.pool) (old new : Addr) (S : State) :
    (movePool old new S).claims k = S.claims k := by
  unfold movePool
  split
  · rfl
  · split
    · exact moveClaim1_claims_ne h _ _ _ _
    · split
      · exact moveClaim1_claims_ne h _ _ _ _
      · exact moveClaim1_claims_ne h _ _ _ _

theorem movePool_claims_new {old new : Addr} {S : State} {v : Nat} (h : S.claims .pool 0 old = some v) :
    (movePool old new S).claims .pool 0 new = some v := by
  unfold movePool
  rw [h]
  simp only
  split
  · exact moveClaim1_claims_new h
  · split
    · exact moveClaim1_claims_new h
    · exact moveClaim1_claims_new h

theorem movePool_claims_old {old new : Addr} {S : State} {v : Nat} (h : S.claims .pool 0 old = some v) (hne : old ≠ new) :
    (movePool old new S).claims .pool 0 old = none := by
  unfold movePool
  rw [h]
  simp only
  rw [if_neg hne]
  split
  · exact moveClaim1_claims_old h hne
  · exact moveClaim1_claims_old h hne

theorem moveRewards_claims_ne {k : Kind} (h : k ≠ Kind.rewards) (old new : Addr) (S : State) :
    (moveRewards old new S).claims k = S.claims k := by
  unfold moveRewards
  split
  · rfl
  · split
    · rfl
    · exact moveClaim1_claims_ne h _ _ _ _

theorem moveRewards_claims_new {old new : Addr} {S : State} {v : Nat} (h : S.claims .rewards 0 old = some v) (hv : v ≠ 0) :
    (moveRewards old new S).claims .rewards 0 new = some v := by
  unfold moveRewards
  rw [h]
  simp only
  rw [if_neg hv]
  exact moveClaim1_claims_new h

theorem moveRewards_claims_old {old new : Addr} {S : State} {v : Nat} (h : S.claims .rewards 0 old = some v) (hv : v ≠ 0) (hne : old ≠ new) :
    (moveRewards old new S).claims .rewards 0 old = none := by
  unfold moveRewards
  rw [h]
  simp only
  rw [if_neg hv]
  exact moveClaim1_claims_old h hne

theorem moveVal_claims (old new : Addr) (S : State) : (moveVal old new S).claims = S.claims := by
  unfold moveVal; split <;> rfl

theorem moveCoins_claims (old new : Addr) (S : State) : (moveCoins old new S).claims = S.claims := by
  unfold moveCoins; split <;> rfl

/-! ## coins, validator record and token record through the moves -/

theorem moveVal_bal (old new : Addr) (S : State) : (moveVal old new S).bal = S.bal := by unfold moveVal; split <;> rfl
theorem movePool_bal (old new : Addr) (S : State) : (movePool old new S).bal = S.bal := by
  unfold movePool; split
  · rfl
  · split
    · rfl
    · split <;> rfl
theorem moveRewards_bal (old new : Addr) (S : State) : (moveRewards old new S).bal = S.bal := by
  unfold moveRewards; split
  · rfl
  · split <;> rfl

theorem holderMoves1_bal (old new : Addr) (tok : Token) (S : State) : (holderMoves1 old new tok S).bal = S.bal := by
  unfold holderMoves1
  show (moveVal old new _).bal = _
  rw [moveVal_bal, movePool_bal, moveRewards_bal]
  rfl

theorem moveVal_vals_new {old new : Addr} {S : State} {v : Val} (h : S.vals old = some v) : (moveVal old new S).vals new = some v := by
  unfold moveVal; rw [h]; simp [addValidator]

theorem moveVal_vals_old {old new : Addr} {S : State} {v : Val} (h : S.vals old = some v) (hne : old ≠ new) :
    (moveVal old new S).vals old = none := by
  unfold moveVal; rw [h]; simp [addValidator, removeValidator, hne]

theorem moveVal_byCons_new {old new : Addr} {S : State} {v : Val} (h : S.vals old = some v) : (moveVal old new S).byCons v.cons = some new := by
  unfold moveVal; rw [h]; simp [addValidator]

theorem movePool_vals (old new : Addr) (S : State) : (movePool old new S).vals = S.vals := by
  unfold movePool; split
  · rfl
  · split
    · rfl
    · split <;> rfl
theorem moveRewards_vals (old new : Addr) (S : State) : (moveRewards old new S).vals = S.vals := by
  unfold moveRewards; split
  · rfl
  · split <;> rfl
theorem moveCoins_vals (old new : Addr) (S : State) : (moveCoins old new S).vals = S.vals := by unfold moveCoins; split <;> rfl

theorem moveVal_token (old new : Addr) (S : State) : (moveVal old new S).token = S.token := by unfold moveVal; split <;> rfl
theorem movePool_token (old new : Addr) (S : State) : (movePool old new S).token = S.token := by
  unfold movePool; split
  · rfl
  · split
    · rfl
    · split <;> rfl
theorem moveRewards_token (old new : Addr) (S : State) : (moveRewards old new S).token = S.token := by
  unfold moveRewards; split
  · rfl
  · split <;> rfl
theorem moveCoins_token (old new : Addr) (S : State) : (moveCoins old new S).token = S.token := by unfold moveCoins; split <;> rfl

theorem holderMoves1_token (old new : Addr) (tok : Token) (S : State) :
    (holderMoves1 old new tok S).token = (moveToken old new tok S).token := by
  unfold holderMoves1
  show (moveVal old new _).token = _
  rw [moveVal_token, movePool_token, moveRewards_token]
  rfl

theorem holderMoves1_vals (old new : Addr) (tok : Token) (S : State) :
    (holderMoves1 old new tok S).vals = (moveVal old new S).vals := by
  unfold holderMoves1
  show (moveVal old new (movePool old new (moveRewards old new (moveDelegators old new (moveCompound old new (moveToken old new tok S)))))).vals = _
  have e : (movePool old new (moveRewards old new (moveDelegators old new (moveCompound old new (moveToken old new tok S))))).vals = S.vals := by
    rw [movePool_vals, moveRewards_vals]; rfl
  have e2 : (movePool old new (moveRewards old new (moveDelegators old new (moveCompound old new (moveToken old new tok S))))).byCons = S.byCons := by
    unfold movePool; split
    · unfold moveRewards; split
      · rfl
      · split <;> rfl
    · split
      · unfold moveRewards; split
        · rfl
        · split <;> rfl
      · split <;> (unfold moveRewards; split; rfl; split <;> rfl)
  unfold moveVal
  rw [e]
  split
  · exact e
  · funext a; simp [addValidator, removeValidator, e]

theorem holderTail_ok {S S2 S' : State} {old new : Addr} (h : holderTail S S2 old new = .ok S') :
    ∃ R c, moveIdentity old new S.reg = .ok R ∧ moveProposals old S = .ok c ∧
      S' = (moveClaim .vote old new <| moveClaim .actor old new <| moveReqs old new { S2 with reg := R, corrupt := c }) := by
  unfold holderTail at h
  split at h
  · cases h
  · rename_i R hR
    split at h
    · cases h
    · rename_i c hc
      cases h
      exact ⟨R, c, hR, hc, rfl⟩

theorem rotateByHolder_ok {S S' : State} {m : HolderMsg} (h : rotateByHolder S m = .ok S') :
    ∃ tok R c, S.token m.addr = some tok ∧ ¬ (2 * S.bal m.holder tok.denom < S.supply tok.denom) ∧ S.rotated m.recovery = none ∧
      moveIdentity m.addr m.recovery S.reg = .ok R ∧ moveProposals m.addr S = .ok c ∧
      S' = (moveClaim .vote m.addr m.recovery <| moveClaim .actor m.addr m.recovery <| moveReqs m.addr m.recovery
              { holderMoves1 m.addr m.recovery tok (withRotation S m.addr m.recovery) with reg := R, corrupt := c }) := by
  unfold rotateByHolder at h
  split at h
  · cases h
  · rename_i tok htok
    split at h
    · cases h
    · rename_i hth
      split at h
      · cases h
      · rename_i hrot
        obtain ⟨R, c, hR, hc, rfl⟩ := holderTail_ok h
        refine ⟨tok, R, c, htok, hth, ?_, hR, hc, rfl⟩
        cases hr : S.rotated m.recovery with
        | none => rfl
        | some x => rw [hr] at hrot; simp at hrot

theorem rotateByHolder_frame {S S' : State} {m : HolderMsg} (h : rotateByHolder S m = .ok S') :
    RotFrame m.addr m.recovery (withRotation S m.addr m.recovery) S' := by
  obtain ⟨tok, R, c, _, _, _, _, _, rfl⟩ := rotateByHolder_ok h
  exact ((((holderMoves1_frame _ _ tok _).trans (setReg_frame _ _ _ R c)).trans (moveReqs_frame _ _ _)).trans
    (moveClaim_frame _ _ _ _)).trans (moveClaim_frame _ _ _ _)

theorem secretTail_ok {S S2 S' : State} {old new : Addr} (h : secretTail S S2 old new = .ok S') :
    ∃ R c, moveIdentity old new S.reg = .ok R ∧ moveProposals old S = .ok c ∧
      S' = (secretMoves2 old new <| moveClaim .actor old new <| moveReqs old new
        { (moveClaim .councilor old new <| moveClaim .collective old new <| moveCoins old new S2) with reg := R, corrupt := c }) := by
  unfold secretTail at h
  split at h
  · cases h
  · rename_i R hR
    split at h
    · cases h
    · rename_i c hc
      cases h
      exact ⟨R, c, hR, hc, rfl⟩

theorem secretChecks_ok {S S1 S' : State} {m : SecretMsg} (h : secretChecks S S1 m = .ok S') :
    ∃ ch, S1.secret m.addr = some ch ∧ m.proof = some ch ∧ S1.rotated m.recovery = none ∧ S1.hasAcc m.addr = true ∧
      S1.hasAcc m.recovery = false ∧ secretTail S (withRotation S1 m.addr m.recovery) m.addr m.recovery = .ok S' := by
  unfold secretChecks at h
  split at h
  · cases h
  · rename_i ch hch
    split at h
    · cases h
    · rename_i p hp
      split at h
      · cases h
      · rename_i hpc
        split at h
        · cases h
        · rename_i hrot
          split at h
          · cases h
          · rename_i hacc
            split at h
            · cases h
            · rename_i hacc2
              have e2 : p = ch := by
                cases Nat.decEq p ch with
                | isTrue e => exact e
                | isFalse e => exact absurd e hpc
              refine ⟨ch, hch, by rw [hp, e2], ?_, by simpa using hacc, by simpa using hacc2, h⟩
              cases hr : S1.rotated m.recovery with
              | none => rfl
              | some x => rw [hr] at hrot; simp at hrot

theorem rotateBySecret_ok {S S' : State} {m : SecretMsg} (h : rotateBySecret S m = .ok S') :
    ∃ S1 ch R c, S.token m.addr = none ∧ send S m.feePayer modAcc ukex recoveryFee = .ok S1 ∧ S.secret m.addr = some ch ∧
      m.proof = some ch ∧ S.rotated m.recovery = none ∧ S1.hasAcc m.addr = true ∧ S1.hasAcc m.recovery = false ∧
      moveIdentity m.addr m.recovery S.reg = .ok R ∧ moveProposals m.addr S = .ok c ∧
      S' = (secretMoves2 m.addr m.recovery <| moveClaim .actor m.addr m.recovery <| moveReqs m.addr m.recovery
              { (moveClaim .councilor m.addr m.recovery <| moveClaim .collective m.addr m.recovery <|
                  moveCoins m.addr m.recovery (withRotation S1 m.addr m.recovery)) with reg := R, corrupt := c }) := by
  unfold rotateBySecret at h
  split at h
  · cases h
  · rename_i htok
    split at h
    · cases h
    · rename_i S1 hs
      have hf := send_frame hs
      obtain ⟨ch, hch, hp, hrot, ha1, ha2, ht⟩ := secretChecks_ok h
      obtain ⟨R, c, hR, hc, rfl⟩ := secretTail_ok ht
      have e1 : S.token m.addr = none := by
        cases ht : S.token m.addr with
        | none => rfl
        | some x => rw [ht] at htok; simp at htok
      exact ⟨S1, ch, R, c, e1, hs, by rw [← hf.secret]; exact hch, hp, by rw [← hf.rotated]; exact hrot, ha1, ha2, hR, hc, rfl⟩

theorem rotateBySecret_frame {S S' : State} {m : SecretMsg} (h : rotateBySecret S m = .ok S') :
    ∃ S1, send S m.feePayer modAcc ukex recoveryFee = .ok S1 ∧ RotFrame m.addr m.recovery (withRotation S1 m.addr m.recovery) S' := by
  obtain ⟨S1, ch, R, c, _, hs, _, _, _, _, _, _, _, rfl⟩ := rotateBySecret_ok h
  refine ⟨S1, hs, ?_⟩
  exact (((((((moveCoins_frame _ _ _).trans (moveClaim_frame _ _ _ _)).trans (moveClaim_frame _ _ _ _)).trans (setReg_frame _ _ _ R c)).trans
    (moveReqs_frame _ _ _)).trans (moveClaim_frame _ _ _ _)).trans (secretMoves2_frame _ _ _))

/-! ## inversion of the other messages -/

theorem burnCoins_ok {S S' : State} {d : Denom} {amt : Int} (h : burnCoins S d amt = .ok S') :
    0 ≤ amt ∧ amt ≤ S.bal modAcc d ∧
    S' = { setBal S modAcc d (S.bal modAcc d - amt) with supply := fun d' => if d' = d then S.supply d - amt else S.supply d' } := by
  unfold burnCoins at h
  split at h
  · cases h
  · split at h
    · cases h
    · cases h; exact ⟨by omega, by omega, rfl⟩

theorem registerSecret_ok {S S' : State} {a : Addr} {c : Nat} {p : Option Nat} (h : registerSecret S a c p = .ok S') :
    S.token a = none ∧ (∀ ch, S.secret a = some ch → p = some ch) ∧
    S' = { S with secret := fun a' => if a' = a then some c else S.secret a' } := by
  unfold registerSecret at h
  split at h
  · cases h
  · rename_i ht
    have e1 : S.token a = none := by
      cases hh : S.token a with
      | none => rfl
      | some x => rw [hh] at ht; simp at ht
    split at h
    · rename_i ch hch
      split at h
      · cases h
      · rename_i _ q
        split at h
        · cases h
        · rename_i hne
          cases h
          refine ⟨e1, ?_, rfl⟩
          intro ch' hch'
          rw [hch] at hch'
          cases hch'
          have : q = ch := by
            cases Nat.decEq q ch with
            | isTrue e => exact e
            | isFalse e => exact absurd e hne
          rw [this]
    · rename_i hnone
      cases h
      refine ⟨e1, ?_, rfl⟩
      intro ch hch; rw [hnone] at hch; cases hch

theorem issue_ok {S S' : State} {a : Addr} (h : issue S a = .ok S') :
    ∃ S1 S3, S.token a = none ∧ send S a modAcc ukex S.bond = .ok S1 ∧ validDenom (rrDenom S a) = true ∧
      send (mint S1 (rrDenom S a) issueAmount) modAcc a (rrDenom S a) issueAmount = .ok S3 ∧
      S' = issueRecord S3 a (rrDenom S a) S.bond := by
  unfold issue at h
  split at h
  · cases h
  · rename_i ht
    have e1 : S.token a = none := by
      cases hh : S.token a with
      | none => rfl
      | some x => rw [hh] at ht; simp at ht
    split at h
    · cases h
    · rename_i S1 hs1
      split at h
      · cases h
      · rename_i hv
        split at h
        · cases h
        · rename_i S3 hs3
          cases h
          exact ⟨S1, S3, e1, hs1, by simpa using hv, hs3, rfl⟩

theorem payRedeem_ok {S S1 : State} {a : Addr} {r : Int} (h : payRedeem S a r = .ok S1) :
    (r = 0 ∧ S1 = S) ∨ (r ≠ 0 ∧ send S modAcc a ukex r = .ok S1) := by
  unfold payRedeem at h
  split at h
  · cases h; left; exact ⟨by assumption, rfl⟩
  · right; exact ⟨by assumption, h⟩

theorem burn_ok {S S' : State} {a : Addr} {d : Denom} {amt : Int} (h : burn S a d amt = .ok S') :
    ∃ owner tok S1 S2 S3, S.byDenom d = some owner ∧ S.token owner = some tok ∧ tok.rrSupply ≠ 0 ∧
      payRedeem S a (redeemOf tok amt) = .ok S1 ∧ send S1 a modAcc d amt = .ok S2 ∧ burnCoins S2 d amt = .ok S3 ∧
      0 ≤ tok.underlying - redeemOf tok amt ∧ S' = burnRecord S3 owner tok amt (redeemOf tok amt) := by
  unfold burn at h
  split at h
  · cases h
  · rename_i owner ho
    split at h
    · cases h
    · rename_i tok ht
      split at h
      · cases h
      · rename_i hz
        split at h
        · cases h
        · rename_i S1 h1
          split at h
          · cases h
          · rename_i S2 h2
            split at h
            · cases h
            · rename_i S3 h3
              split at h
              · cases h
              · rename_i hu
                cases h
                exact ⟨owner, tok, S1, S2, S3, ho, ht, hz, h1, h2, h3, by omega, rfl⟩

theorem claim_ok {S S' : State} {a : Addr} (h : claim S a = .ok S') :
    ∃ S1, send S modAcc a ukex (S.hRewards a) = .ok S1 ∧ S' = { S1 with hRewards := fun a' => if a' = a then 0 else S1.hRewards a' } := by
  unfold claim at h
  split at h
  · cases h
  · rename_i S1 h1
    cases h
    exact ⟨S1, h1, rfl⟩

theorem increaseUnderlying_ok {S2 S' : State} {v : Addr} {tok : Token} {amt : Int} (h : increaseUnderlying S2 v tok amt = .ok S') :
    0 ≤ amt - sumAlloc S2 tok.denom amt (S2.supply tok.denom) (holdersOf S2 tok.denom) ∧
    S' = { S2 with
      hRewards := creditAll S2 tok.denom amt (S2.supply tok.denom) (holdersOf S2 tok.denom) S2.hRewards,
      token := fun a => if a = v then
          some ⟨tok.denom, tok.rrSupply, tok.underlying + (amt - sumAlloc S2 tok.denom amt (S2.supply tok.denom) (holdersOf S2 tok.denom))⟩
        else S2.token a,
      byDenom := fun d => if d = tok.denom then some v else S2.byDenom d } := by
  unfold increaseUnderlying at h
  split at h
  · cases h
  · split at h
    · cases h
    · cases h; exact ⟨by omega, rfl⟩

theorem allocate_ok {S S' : State} {v : Addr} {amt : Int} (h : allocate S v amt = .ok S') :
    (S.token v = none ∧ send S feeAcc v ukex amt = .ok S') ∨
    (∃ tok S1, S.token v = some tok ∧ send S feeAcc modAcc ukex amt = .ok S1 ∧
      increaseUnderlying (unregisterLow S1 tok.denom) v tok amt = .ok S') := by
  unfold allocate at h
  split at h
  · rename_i ht
    split at h
    · cases h
    · rename_i S1 h1
      cases h
      left; exact ⟨ht, h1⟩
  · rename_i tok ht
    split at h
    · cases h
    · rename_i S1 h1
      right; exact ⟨tok, S1, ht, h1, h⟩

/-- `RegisterRRTokenHolder` changes the holder registry only -/
theorem regLoop_frame (S : State) (h : Addr) (l : List Addr) :
    ∃ hs, regLoop S h l = { S with holders := hs } := by
  induction l with
  | nil => exact ⟨S.holders, rfl⟩
  | cons a rest ih =>
    simp only [regLoop]
    split
    · exact ih
    · split
      · exact ih
      · split
        · exact ⟨_, rfl⟩
        · exact ih

theorem creditAll_other (S : State) (d : Denom) (amt sup : Int) (hs : List Addr) (f : Addr → Int) (a : Addr) (ha : a ∉ hs) :
    creditAll S d amt sup hs f a = f a := by
  induction hs generalizing f with
  | nil => rfl
  | cons h rest ih =>
    simp only [creditAll]
    rw [ih _ (fun hm => ha (List.mem_cons_of_mem _ hm))]
    have : a ≠ h := fun e => ha (e ▸ List.mem_cons_self)
    simp [this]

/-! ## range sums -/

def sumF (f : Nat → Int) : Nat → Int
  | 0 => 0
  | n + 1 => sumF f n + f n

theorem sumF_congr {f g : Nat → Int} {n : Nat} (h : ∀ a, a < n → f a = g a) : sumF f n = sumF g n := by
  induction n with
  | zero => rfl
  | succ k ih =>
    simp only [sumF]
    rw [ih (fun a ha => h a (Nat.lt_succ_of_lt ha)), h k (Nat.lt_succ_self k)]

theorem sumF_upd (f : Nat → Int) (a : Nat) (x : Int) (n : Nat) (ha : a < n) :
    sumF (fun b => if b = a then x else f b) n = sumF f n - f a + x := by
  induction n with
  | zero => omega
  | succ k ih =>
    simp only [sumF]
    by_cases hk : a = k
    · subst hk
      have h0 : sumF (fun b => if b = a then x else f b) a = sumF f a :=
        sumF_congr (fun c hc => by have : c ≠ a := by omega
                                   simp [this])
      rw [h0]; simp
    · have hlt : a < k := by omega
      rw [ih hlt]
      have : k ≠ a := fun e => hk e.symm
      simp [this]
      omega

theorem sumF_upd_out (f : Nat → Int) (a : Nat) (x : Int) (n : Nat) (ha : n ≤ a) :
    sumF (fun b => if b = a then x else f b) n = sumF f n :=
  sumF_congr (fun c hc => by have : c ≠ a := by omega
                             simp [this])

/-- the underlying tokens recorded for an address (0 without a record) -/
def und (S : State) (a : Addr) : Int :=
  match S.token a with
  | some t => t.underlying
  | none => 0

theorem sumF_creditAll (S : State) (d : Denom) (amt sup : Int) (hs : List Addr) (f : Addr → Int) (n : Nat) (hin : ∀ h ∈ hs, h < n) :
    sumF (creditAll S d amt sup hs f) n = sumF f n + sumAlloc S d amt sup hs := by
  induction hs generalizing f with
  | nil => simp [creditAll, sumAlloc]
  | cons h rest ih =>
    simp only [creditAll, sumAlloc]
    rw [ih _ (fun x hx => hin x (List.mem_cons_of_mem _ hx))]
    rw [sumF_upd f h _ n (hin h List.mem_cons_self)]
    omega

end Sekai.Recovery
