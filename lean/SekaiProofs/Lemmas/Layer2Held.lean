import SekaiProofs.Lemmas.Layer2Max
/-! C20: the escrow (`Held`) and ledger (`LedgerInv`) invariants; effect of the refund loop on bank and ledger. -/
namespace Sekai.Layer2

/-- what a dApp record claims from the module in denom `nat` -/
def contrib (nat : Bytes) (d : Dapp) : Int := if d.bondDenom = nat then d.bond else 0

/-- Σ of the recorded `TotalBond`s denominated in `nat` -/
def nativeTotal : List Dapp → Bytes → Int
  | [], _ => 0
  | d :: ds, nat => contrib nat d + nativeTotal ds nat

theorem nativeTotal_cons (d : Dapp) (ds : List Dapp) (nat : Bytes) : nativeTotal (d :: ds) nat = contrib nat d + nativeTotal ds nat := rfl

/-- the module holds at least the recorded bonds (native denom) -/
def Held (s : St) : Prop := nativeTotal s.dapps s.P.native ≤ s.bank.bal .l2 s.P.native

/-- recorded bond = deposited − paid back, for every name and user -/
def LedgerInv (s : St) : Prop := ∀ n u, bondAmt s.bonds n u = s.ledger n u

/-- no bond record of ANOTHER dApp has a store key starting with `name` -/
def NoClash (addr : Nat → Bytes) (bs : List UBond) (name : Bytes) : Prop :=
  ∀ b ∈ bs, name.isPrefixOf (bondKey addr b) = true → b.dapp = name

def PrefixFree (s : St) : Prop := ∀ n ∈ names s.dapps, NoClash s.addr s.bonds n

/-- the native denom is not of the form `lp/…` -/
def NativeNotLp (P : Params) : Prop := ∀ x, lpOf x ≠ P.native

theorem nt_setDapp_new {ds : List Dapp} {rec_ : Dapp} (nat : Bytes) (h : ∀ d ∈ ds, d.name ≠ rec_.name) :
    nativeTotal (setDapp ds rec_) nat = nativeTotal ds nat + contrib nat rec_ := by
  induction ds with
  | nil => simp [setDapp, nativeTotal]
  | cons x xs ih =>
    unfold setDapp
    rw [if_neg (h x List.mem_cons_self), nativeTotal_cons, nativeTotal_cons, ih (fun d hd => h d (List.mem_cons_of_mem _ hd))]
    omega

theorem nt_setDapp_mem {ds : List Dapp} {rec_ d0 : Dapp} (nat : Bytes) (hn : (names ds).Nodup) (hd : d0 ∈ ds) (hname : rec_.name = d0.name) :
    nativeTotal (setDapp ds rec_) nat = nativeTotal ds nat - contrib nat d0 + contrib nat rec_ := by
  induction ds with
  | nil => cases hd
  | cons x xs ih =>
    have hn' := hn
    simp only [names, List.map_cons, List.nodup_cons] at hn'
    unfold setDapp
    by_cases hx : x.name = rec_.name
    · rw [if_pos hx]
      have : d0 = x := by
        rcases List.mem_cons.mp hd with h | h
        · exact h
        · exfalso; apply hn'.1; rw [hx, hname]; exact List.mem_map.mpr ⟨d0, h, rfl⟩
      subst this
      rw [nativeTotal_cons, nativeTotal_cons]; omega
    · rw [if_neg hx]
      have hd' : d0 ∈ xs := by
        rcases List.mem_cons.mp hd with h | h
        · subst h; exact absurd hname.symm hx
        · exact h
      rw [nativeTotal_cons, nativeTotal_cons, ih hn'.2 hd']; omega

theorem nt_delDapp_mem {ds : List Dapp} {d0 : Dapp} (nat : Bytes) (hn : (names ds).Nodup) (hd : d0 ∈ ds) :
    nativeTotal (delDapp ds d0.name) nat = nativeTotal ds nat - contrib nat d0 := by
  induction ds with
  | nil => cases hd
  | cons x xs ih =>
    have hn' := hn
    simp only [names, List.map_cons, List.nodup_cons] at hn'
    unfold delDapp
    rw [List.filter_cons]
    by_cases hx : x.name = d0.name
    · have : d0 = x := by
        rcases List.mem_cons.mp hd with h | h
        · exact h
        · exfalso; apply hn'.1; rw [hx]; exact List.mem_map.mpr ⟨d0, h, rfl⟩
      subst this
      simp only [decide_not, decide_true, Bool.not_true, Bool.false_eq_true, if_false]
      have hall : xs.filter (fun d => !decide (d.name = d0.name)) = xs := by
        rw [List.filter_eq_self]
        intro a ha
        have : a.name ≠ d0.name := fun h => hn'.1 (h ▸ List.mem_map.mpr ⟨a, ha, rfl⟩)
        simp [this]
      rw [hall, nativeTotal_cons]; omega
    · have hd' : d0 ∈ xs := by
        rcases List.mem_cons.mp hd with h | h
        · subst h; exact absurd rfl hx
        · exact h
      simp only [hx, decide_not, decide_false, Bool.not_false, if_true]
      have := ih hn'.2 hd'
      unfold delDapp at this
      simp only [decide_not] at this
      rw [nativeTotal_cons, nativeTotal_cons, this]; omega

/-! ### the refund loop -/

/-- paid back to (name `n`, user `u`) by a refund over `l` -/
def paid : List UBond → Bytes → Nat → Int
  | [], _, _ => 0
  | b :: l, n, u => (if n = b.dapp ∧ u = b.user then b.amt else 0) + paid l n u

/-- leaves the module in denom `den` -/
def paidDen : List UBond → Bytes → Int
  | [], _ => 0
  | b :: l, den => (if b.denom = den then b.amt else 0) + paidDen l den

/-- reaches user `u` in denom `den` -/
def paidTo : List UBond → Nat → Bytes → Int
  | [], _, _ => 0
  | b :: l, u, den => (if b.user = u ∧ b.denom = den then b.amt else 0) + paidTo l u den

theorem refundLoop_effect {s s' : St} {name : Bytes} {l : List UBond} (h : refundLoop s name l = some s') :
    (∀ n u, s'.ledger n u = s.ledger n u - paid l n u) ∧
    (∀ den, s'.bank.bal .l2 den = s.bank.bal .l2 den - paidDen l den) ∧
    (∀ u den, s'.bank.bal (.user u) den = s.bank.bal (.user u) den + paidTo l u den) ∧
    (∀ den, s'.bank.bal .spending den = s.bank.bal .spending den) ∧
    s'.bank.supply = s.bank.supply := by
  induction l generalizing s with
  | nil =>
    unfold refundLoop at h; cases h
    refine ⟨fun n u => by simp [paid], fun den => by simp [paidDen], fun u den => by simp [paidTo], fun _ => rfl, rfl⟩
  | cons b rest ih =>
    unfold refundLoop at h
    split at h
    · cases h
    · rename_i s1 hs1
      obtain ⟨bk, hbk, rfl⟩ := escrowOut_some hs1
      obtain ⟨i1, i2, i3, i4, i5⟩ := ih h
      obtain ⟨_, _, _, rfl⟩ := send_some hbk
      replace i1 : ∀ n u, s'.ledger n u = (if n = b.dapp ∧ u = b.user then s.ledger n u - b.amt else s.ledger n u) - paid rest n u := i1
      replace i2 : ∀ den, s'.bank.bal .l2 den
          = ((s.bank.addBal .l2 b.denom (-b.amt)).addBal (.user b.user) b.denom b.amt).bal .l2 den - paidDen rest den := i2
      replace i3 : ∀ u den, s'.bank.bal (.user u) den
          = ((s.bank.addBal .l2 b.denom (-b.amt)).addBal (.user b.user) b.denom b.amt).bal (.user u) den + paidTo rest u den := i3
      replace i4 : ∀ den, s'.bank.bal .spending den
          = ((s.bank.addBal .l2 b.denom (-b.amt)).addBal (.user b.user) b.denom b.amt).bal .spending den := i4
      replace i5 : s'.bank.supply = s.bank.supply := i5
      refine ⟨?_, ?_, ?_, ?_, i5⟩
      · intro n u
        rw [i1 n u]
        simp only [paid]
        split <;> omega
      · intro den
        rw [i2 den]
        simp only [paidDen, addBal_bal]
        by_cases hd : den = b.denom
        · subst hd; simp; omega
        · simp [hd, Ne.symm hd]
      · intro u den
        rw [i3 u den]
        simp only [paidTo, addBal_bal]
        by_cases hd : den = b.denom
        · subst hd
          by_cases hu : u = b.user
          · subst hu; simp; omega
          · simp [hu, Ne.symm hu]
        · simp [hd, Ne.symm hd]
      · intro den
        rw [i4 den]
        simp [addBal_bal]

theorem paid_eq_zero {l : List UBond} {n : Bytes} {u : Nat} (h : ∀ b ∈ l, ¬ (n = b.dapp ∧ u = b.user)) : paid l n u = 0 := by
  induction l with
  | nil => rfl
  | cons x xs ih =>
    simp only [paid]
    rw [if_neg (h x List.mem_cons_self), ih (fun b hb => h b (List.mem_cons_of_mem _ hb))]
    rfl

theorem paid_of_mem {l : List UBond} {b : UBond} (hn : (keys l).Nodup) (hb : b ∈ l) : paid l b.dapp b.user = b.amt := by
  induction l with
  | nil => cases hb
  | cons x xs ih =>
    simp only [keys, List.map_cons, List.nodup_cons] at hn
    simp only [paid]
    rcases List.mem_cons.mp hb with rfl | hb'
    · have : paid xs b.dapp b.user = 0 := by
        apply paid_eq_zero
        intro c hc hk
        apply hn.1
        have : c.key = b.key := by unfold UBond.key; rw [← hk.1, ← hk.2]
        rw [← this]; exact List.mem_map.mpr ⟨c, hc, rfl⟩
      simp [this]
    · have : ¬ (b.dapp = x.dapp ∧ b.user = x.user) := by
        intro h
        apply hn.1
        have : x.key = b.key := by unfold UBond.key; rw [h.1, h.2]
        rw [this]; exact List.mem_map.mpr ⟨b, hb', rfl⟩
      rw [if_neg this, ih hn.2 hb']
      omega

theorem paidDen_all {l : List UBond} {den : Bytes} (h : ∀ b ∈ l, b.denom = den) : paidDen l den = amtSum l := by
  induction l with
  | nil => rfl
  | cons x xs ih =>
    simp only [paidDen, amtSum]
    rw [if_pos (h x List.mem_cons_self), ih (fun b hb => h b (List.mem_cons_of_mem _ hb))]

theorem paidDen_none {l : List UBond} {den : Bytes} (h : ∀ b ∈ l, b.denom ≠ den) : paidDen l den = 0 := by
  induction l with
  | nil => rfl
  | cons x xs ih =>
    simp only [paidDen]
    rw [if_neg (h x List.mem_cons_self), ih (fun b hb => h b (List.mem_cons_of_mem _ hb))]
    rfl

/-- without a prefix collision the scan returns exactly the dApp's own records -/
theorem scan_eq_own {addr : Nat → Bytes} {bs : List UBond} {name : Bytes} (h : NoClash addr bs name) :
    scanBonds addr bs name = bs.filter (fun b => b.dapp = name) := by
  unfold scanBonds
  apply List.filter_congr
  intro b hb
  by_cases hd : b.dapp = name
  · simp only [hd, decide_true]
    have := own_in_scan (addr := addr) hb
    unfold scanBonds at this
    rw [hd] at this
    exact (List.mem_filter.mp this).2
  · simp only [hd, decide_false]
    cases hp : name.isPrefixOf (bondKey addr b)
    · rfl
    · exact absurd (h b hb hp) hd

end Sekai.Layer2
