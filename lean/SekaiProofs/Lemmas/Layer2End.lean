import SekaiProofs.Lemmas.Layer2Inv
/-! C20: `FinishDappBootstrap` / `EndBlocker` — inversion lemmas and the books invariant through the end-block loop. -/
namespace Sekai.Layer2

/-- the three things `FinishDappBootstrap` can do when it does not panic -/
theorem finishBootstrap_ok {s s' : St} {t : Nat} {d : Dapp} (h : finishBootstrap s t d = .ok s') :
    s' = s ∨
    (d.bond < (s.P.minBond : Int) * million ∧ ∃ s1, refundLoop s d.name (scanBonds s.addr s.bonds d.name) = some s1 ∧
        s' = { s1 with dapps := delDapp s1.dapps d.name }) ∨
    (¬ d.bond < (s.P.minBond : Int) * million ∧ ∃ bk sp,
        s' = { s with bank := bk, spools := sp, dapps := setDapp s.dapps { d with status := 3, premintTime := t }
                      bonds := delBondsOf s.bonds d.name (scanBonds s.addr s.bonds d.name)
                      ledger := fun n v => if n = d.name then 0 else s.ledger n v } ∧
        ∀ a den, den ≠ lpOf d.denom → bk.bal a den = s.bank.bal a den) := by
  unfold finishBootstrap at h
  split at h
  · rename_i hlow
    unfold executeRemove at h
    split at h
    · rename_i s1 hs1
      split at hs1
      · cases hs1
      · rename_i s0 hs0
        cases hs1
        cases h
        exact Or.inr (Or.inl ⟨hlow, s0, hs0, rfl⟩)
    · cases h; exact Or.inl rfl
  · rename_i hlow
    simp only at h
    split at h
    · cases h; exact Or.inl rfl
    · split at h
      · cases h
      · split at h
        · cases h
        · rename_i b1 hb1
          obtain ⟨_, hmint⟩ := tkMint_some hb1
          split at h
          · cases h
          · -- deposit to the spending module (or not)
            have hb2 : ∀ b2, (match b1.send .l2 .spending (lpOf d.denom) (lpDeposit d) with
                | some b2 => b2
                | none => b1) = b2 → ∀ a den, den ≠ lpOf d.denom → b2.bal a den = s.bank.bal a den := by
              intro b2 hb2 a den hden
              split at hb2
              · rename_i b2' hsend
                subst hb2
                rw [send_other_denom hsend a den hden, hmint a den hden]
              · subst hb2; exact hmint a den hden
            split at h
            · split at h
              · cases h
              · split at h
                · cases h
                · rename_i b3 hb3
                  cases h
                  refine Or.inr (Or.inr ⟨hlow, b3, _, rfl, ?_⟩)
                  intro a den hden
                  rw [send_other_denom hb3 a den hden]
                  exact hb2 _ rfl a den hden
            · cases h
              exact Or.inr (Or.inr ⟨hlow, _, _, rfl, hb2 _ rfl⟩)

theorem postMint_ok {s s' : St} {t : Nat} {d d' : Dapp} (h : postMint s t d = .ok (s', d')) :
    (s' = s ∧ d' = d) ∨
    (d.status = 1 ∧ d' = { d with postMintPaid := true } ∧ ∃ bk, s' = { s with bank := bk, dapps := setDapp s.dapps { d with postMintPaid := true } } ∧
      ∀ a den, den ≠ lpOf d.denom → bk.bal a den = s.bank.bal a den) := by
  unfold postMint at h
  split at h
  · rename_i hc
    split at h
    · cases h
    · split at h
      · cases h
      · split at h
        · cases h
        · rename_i bk hbk
          cases h
          exact Or.inr ⟨hc.2.2, rfl, bk, rfl, fun a den hden => send_other_denom hbk a den hden⟩
  · cases h; exact Or.inl ⟨rfl, rfl⟩

theorem liquidate_eq (s : St) (t : Nat) (d : Dapp) :
    liquidate s t d = s ∨ (d.status = 1 ∧ liquidate s t d = { s with dapps := setDapp s.dapps { d with status := 3 } }) := by
  unfold liquidate
  split
  · rename_i hc; exact Or.inr ⟨hc.1, rfl⟩
  · exact Or.inl rfl

theorem endBlockDapp_ok {s s' : St} {t : Nat} {d : Dapp} (h : endBlockDapp s t d = .ok s') :
    ∃ s1 s2 d2, ((d.status = 0 ∧ d.creationTime + s.P.bondDuration ≤ t ∧ finishBootstrap s t d = .ok s1) ∨ s1 = s) ∧
      postMint s1 t d = .ok (s2, d2) ∧ s' = liquidate s2 t d2 := by
  unfold endBlockDapp at h
  split at h
  · cases h
  · rename_i s1 hs1
    split at h
    · cases h
    · rename_i s2 d2 hpm
      refine ⟨s1, s2, d2, ?_, hpm, (Except.ok.inj h).symm⟩
      split at hs1
      · rename_i hc; exact Or.inl ⟨hc.1, hc.2, hs1⟩
      · exact Or.inr (Except.ok.inj hs1).symm

/-! ### books through the end-block loop (no hypothesis on names: a prefix collision does not disturb the books) -/

theorem books_finish {s s' : St} {t : Nat} {d : Dapp} (hI : BooksInv s) (h : finishBootstrap s t d = .ok s') : BooksInv s' := by
  rcases finishBootstrap_ok h with rfl | ⟨_, s1, hs1, rfl⟩ | ⟨_, bk, sp, rfl, _⟩
  · exact hI
  · obtain ⟨e1, e2, _, _, _⟩ := refundLoop_frame hs1
    unfold BooksInv at hI ⊢
    simp only [e1, e2, delBondsOf_eq_filter]
    apply books_filter_del hI
    · intro b hb hbd
      have : b ∈ scanBonds s.addr s.bonds d.name := hbd ▸ own_in_scan hb
      simp only [keepP, hbd, decide_true, Bool.true_and, Bool.not_eq_false']
      exact List.any_eq_true.mpr ⟨b, this, by simp⟩
    · intro b _ hbd
      simp [keepP, hbd]
  · unfold BooksInv at hI ⊢
    simp only [delBondsOf_eq_filter]
    apply books_filter_set hI (by simp)
    intro b _ hbd
    simp only at hbd
    simp [keepP, hbd]

theorem books_endBlockDapp {s s' : St} {t : Nat} {d : Dapp} (hI : BooksInv s) (h : endBlockDapp s t d = .ok s') : BooksInv s' := by
  obtain ⟨s1, s2, d2, h1, h2, rfl⟩ := endBlockDapp_ok h
  have hI1 : BooksInv s1 := by
    rcases h1 with ⟨_, _, hf⟩ | rfl
    · exact books_finish hI hf
    · exact hI
  have hI2 : BooksInv s2 ∧ (d2.status = 1 → True) := by
    rcases postMint_ok h2 with ⟨rfl, rfl⟩ | ⟨hst, rfl, bk, rfl, _⟩
    · exact ⟨hI1, fun _ => trivial⟩
    · refine ⟨?_, fun _ => trivial⟩
      unfold BooksInv at hI1 ⊢
      exact books_setDapp_nonzero hI1 (by simp [hst])
  rcases liquidate_eq s2 t d2 with he | ⟨_, he⟩
  · rw [he]; exact hI2.1
  · rw [he]
    have := hI2.1
    unfold BooksInv at this ⊢
    exact books_setDapp_nonzero this (by simp)

theorem books_endBlockLoop {t : Nat} (l : List Dapp) {s s' : St} (hI : BooksInv s) (h : endBlockLoop s t l = .ok s') : BooksInv s' := by
  induction l generalizing s with
  | nil => unfold endBlockLoop at h; cases h; exact hI
  | cons d rest ih =>
    unfold endBlockLoop at h
    split at h
    · rename_i s1 hs1
      exact ih (books_endBlockDapp hI hs1) h
    · cases h

theorem books_endBlock {s s' : St} {t : Nat} (hI : BooksInv s) (h : endBlock s t = .ok s') : BooksInv s' :=
  books_endBlockLoop _ hI h

end Sekai.Layer2
