import SekaiProofs.Lemmas.Layer2Good
/-! C20: the combined invariant through `EndBlocker` (needs: no prefix collision, native denom not `lp/…`). -/
namespace Sekai.Layer2

theorem endBlockDapp_cases {s s' : St} {t : Nat} {d : Dapp} (h : endBlockDapp s t d = .ok s') :
    (d.status = 0 ∧ finishBootstrap s t d = .ok s') ∨
    (d.status = 1 ∧ ∃ s2 d2, postMint s t d = .ok (s2, d2) ∧ s' = liquidate s2 t d2) ∨ s' = s := by
  obtain ⟨s1, s2, d2, h1, h2, rfl⟩ := endBlockDapp_ok h
  rcases h1 with ⟨hst, _, hf⟩ | rfl
  · refine Or.inl ⟨hst, ?_⟩
    rcases postMint_ok h2 with ⟨rfl, rfl⟩ | ⟨hst1, _⟩
    · rcases liquidate_eq s2 t d2 with he | ⟨hst1, _⟩
      · rw [he]; exact hf
      · rw [hst] at hst1; cases hst1
    · rw [hst] at hst1; cases hst1
  · by_cases hst : d.status = 1
    · exact Or.inr (Or.inl ⟨hst, s2, d2, h2, rfl⟩)
    · refine Or.inr (Or.inr ?_)
      rcases postMint_ok h2 with ⟨rfl, rfl⟩ | ⟨hst1, _⟩
      · rcases liquidate_eq s2 t d2 with he | ⟨hst1, _⟩
        · exact he
        · exact absurd hst1 hst
      · exact absurd hst1 hst

/-- what one iteration of the end-block loop guarantees -/
structure StepOK (s s' : St) (d : Dapp) : Prop where
  good : Good s'
  bondsSub : ∀ b ∈ s'.bonds, b ∈ s.bonds
  keep : ∀ x ∈ s.dapps, x.name ≠ d.name → x ∈ s'.dapps

theorem good_finish {s s' : St} {t : Nat} {d : Dapp} (hG : Good s) (hd : d ∈ s.dapps) (hst : d.status = 0)
    (hnc : NoClash s.addr s.bonds d.name) (hnl : NativeNotLp s.P) (h : finishBootstrap s t d = .ok s') : StepOK s s' d := by
  have hB := hG.books
  have hBk := books_finish hB h
  unfold BooksInv at hB
  have hL := hG.ledger
  have hH := hG.held
  unfold LedgerInv at hL
  unfold Held at hH
  have hall : ∀ b ∈ s.bonds, b.dapp = d.name → b ∈ scanBonds s.addr s.bonds d.name := fun b hb hbd => hbd ▸ own_in_scan hb
  rcases finishBootstrap_ok h with rfl | ⟨_, s1, hs1, rfl⟩ | ⟨_, bk, sp, rfl, hbk⟩
  · exact ⟨hG, fun _ hb => hb, fun _ hx _ => hx⟩
  · have hscan := scan_eq_own hnc
    rw [hscan] at hs1
    have hall' : ∀ b ∈ s.bonds, b.dapp = d.name → b ∈ s.bonds.filter (fun b => b.dapp = d.name) :=
      fun b hb hbd => List.mem_filter.mpr ⟨hb, by simpa using hbd⟩
    obtain ⟨e1, e2, e3, e4, _⟩ := refundLoop_frame hs1
    obtain ⟨f1, f2, _, _, _⟩ := refundLoop_effect hs1
    refine ⟨⟨hBk, ?_, ?_⟩, ?_, ?_⟩
    · unfold LedgerInv
      intro n u
      simp only [e1]
      rw [f1 n u]
      by_cases hn : n = d.name
      · subst hn
        rw [bondAmt_delBondsOf_own u hall', paid_filter_own _ _ hB.keysNodup, hL]; omega
      · rw [bondAmt_delBondsOf_other u hn, paid_filter_other u hn, hL]; omega
    · unfold Held
      simp only [e2, e3]
      rw [nt_delDapp_mem _ hB.namesNodup hd, f2 s.P.native]
      have hden : ∀ b ∈ s.bonds.filter (fun b => b.dapp = d.name), b.denom = d.bondDenom := by
        intro b hb
        obtain ⟨hb1, hb2⟩ := List.mem_filter.mp hb
        exact hB.denomEq d hd hst b hb1 (by simpa using hb2)
      simp only [contrib]
      by_cases hdn : d.bondDenom = s.P.native
      · rw [if_pos hdn, paidDen_all (fun b hb => (hden b hb).trans hdn), ← bondSum_eq_amtSum_filter, ← hB.sumEq d hd hst]; omega
      · rw [if_neg hdn, paidDen_none (fun b hb => by rw [hden b hb]; exact hdn)]; omega
    · intro b hb
      simp only [e1] at hb
      exact (mem_delBondsOf.mp hb).1
    · intro x hx hne
      simp only [e2]
      exact mem_delDapp.mpr ⟨hx, hne⟩
  · refine ⟨⟨hBk, ?_, ?_⟩, ?_, ?_⟩
    · unfold LedgerInv
      intro n u
      simp only
      by_cases hn : n = d.name
      · subst hn; rw [if_pos rfl, bondAmt_delBondsOf_own u hall]
      · rw [if_neg hn, bondAmt_delBondsOf_other u hn, hL]
    · unfold Held
      simp only
      rw [nt_setDapp_mem (rec_ := { d with status := 3, premintTime := t }) _ hB.namesNodup hd rfl, hbk _ _ (Ne.symm (hnl d.denom))]
      simp only [contrib]; omega
    · intro b hb
      exact (mem_delBondsOf.mp hb).1
    · intro x hx hne
      exact mem_setDapp_of_ne hx hne

theorem good_setDapp_same {s : St} {d rec_ : Dapp} (bk : Bank) (hG : Good s) (hd : d ∈ s.dapps) (hname : rec_.name = d.name)
    (hb : rec_.bond = d.bond) (hbd : rec_.bondDenom = d.bondDenom) (hst : rec_.status ≠ 0)
    (hbk : bk.bal .l2 s.P.native = s.bank.bal .l2 s.P.native) :
    Good { s with bank := bk, dapps := setDapp s.dapps rec_ } := by
  have hB := hG.books
  unfold BooksInv at hB
  refine ⟨?_, hG.ledger, ?_⟩
  · unfold BooksInv; exact books_setDapp_nonzero hB hst
  · have hH := hG.held
    unfold Held at hH ⊢
    simp only
    rw [nt_setDapp_mem _ hB.namesNodup hd hname, hbk]
    simp only [contrib, hb, hbd]; omega

theorem good_endBlockDapp {s s' : St} {t : Nat} {d : Dapp} (hG : Good s) (hd : d ∈ s.dapps)
    (hnc : NoClash s.addr s.bonds d.name) (hnl : NativeNotLp s.P) (h : endBlockDapp s t d = .ok s') : StepOK s s' d := by
  rcases endBlockDapp_cases h with ⟨hst, hf⟩ | ⟨hst, s2, d2, hpm, rfl⟩ | rfl
  · exact good_finish hG hd hst hnc hnl hf
  · have hB := hG.books
    unfold BooksInv at hB
    -- post-mint
    have h2 : Good s2 ∧ s2.bonds = s.bonds ∧ d2 ∈ s2.dapps ∧ d2.name = d.name ∧ s2.P = s.P ∧
        (∀ x ∈ s.dapps, x.name ≠ d.name → x ∈ s2.dapps) := by
      rcases postMint_ok hpm with ⟨rfl, rfl⟩ | ⟨_, rfl, bk, rfl, hbk⟩
      · exact ⟨hG, rfl, hd, rfl, rfl, fun _ hx _ => hx⟩
      · refine ⟨?_, rfl, mem_setDapp_self _ _, rfl, rfl, fun x hx hne => mem_setDapp_of_ne hx hne⟩
        exact good_setDapp_same bk hG hd rfl rfl rfl (by simp [hst]) (hbk _ _ (Ne.symm (hnl d.denom)))
    obtain ⟨hG2, hb2, hd2, hn2, hP2, hk2⟩ := h2
    rcases liquidate_eq s2 t d2 with he | ⟨_, he⟩
    · rw [he]
      exact ⟨hG2, fun b hb => hb2 ▸ hb, hk2⟩
    · rw [he]
      refine ⟨?_, fun b hb => hb2 ▸ hb, fun x hx hne => mem_setDapp_of_ne (hk2 x hx hne) (by simpa [hn2] using hne)⟩
      have := good_setDapp_same (rec_ := { d2 with status := 3 }) s2.bank hG2 hd2 rfl rfl rfl (by simp) rfl
      exact this
  · exact ⟨hG, fun _ hb => hb, fun _ hx _ => hx⟩

theorem good_endBlockLoop {s0 : St} {t : Nat} (hnl : NativeNotLp s0.P) (hPF : PrefixFree s0) (l : List Dapp) :
    ∀ {σ σ' : St}, Good σ → σ.P = s0.P → σ.addr = s0.addr → (∀ b ∈ σ.bonds, b ∈ s0.bonds) →
      (∀ x ∈ l, x ∈ σ.dapps ∧ x.name ∈ names s0.dapps) → (l.map (·.name)).Nodup →
      endBlockLoop σ t l = .ok σ' → Good σ' := by
  induction l with
  | nil => intro σ σ' hG _ _ _ _ _ h; unfold endBlockLoop at h; cases h; exact hG
  | cons d rest ih =>
    intro σ σ' hG hP hA hsub hmem hnd h
    unfold endBlockLoop at h
    split at h
    · rename_i s1 hs1
      obtain ⟨hd, hdn⟩ := hmem d List.mem_cons_self
      have hnc : NoClash σ.addr σ.bonds d.name := by
        intro b hb hp
        rw [hA] at hp
        exact hPF d.name hdn b (hsub b hb) hp
      have hstep := good_endBlockDapp hG hd hnc (hP ▸ hnl) hs1
      have hfr := endBlockDapp_frame hs1
      simp only [List.map_cons, List.nodup_cons] at hnd
      apply ih hstep.good (hfr.1.trans hP) (hfr.2.trans hA) (fun b hb => hsub b (hstep.bondsSub b hb)) ?_ hnd.2 h
      intro x hx
      obtain ⟨hx1, hx2⟩ := hmem x (List.mem_cons_of_mem _ hx)
      refine ⟨hstep.keep x hx1 ?_, hx2⟩
      intro hxe
      exact hnd.1 (hxe ▸ List.mem_map.mpr ⟨x, hx, rfl⟩)
    · cases h

theorem good_endBlock {s s' : St} {t : Nat} (hG : Good s) (hnl : NativeNotLp s.P) (hPF : PrefixFree s)
    (h : endBlock s t = .ok s') : Good s' := by
  unfold endBlock at h
  have hperm := sortDapps_perm s.dapps
  have hB := hG.books
  unfold BooksInv at hB
  apply good_endBlockLoop hnl hPF (sortDapps s.dapps) hG rfl rfl (fun _ hb => hb) ?_ ?_ h
  · intro x hx
    have hx' := (hperm.mem_iff).mp hx
    exact ⟨hx', List.mem_map.mpr ⟨x, hx', rfl⟩⟩
  · have hnn : (s.dapps.map (·.name)).Nodup := hB.namesNodup
    exact ((hperm.map (·.name)).nodup_iff).mpr hnn

end Sekai.Layer2
