import SekaiProofs.Lemmas.RecoveryBacking
/-! The token-record invariant of the recovery module (C04): the bank supply of every recovery denomination equals the
recorded `RrSupply`, and the by-denom index and the token store agree. Core Lean only. -/
namespace Sekai.Recovery

/-! ## effect of every operation on (supply, token store, by-denom index) -/

theorem moveVal_byDenom (old new : Addr) (S : State) : (moveVal old new S).byDenom = S.byDenom := by unfold moveVal; split <;> rfl
theorem movePool_byDenom (old new : Addr) (S : State) : (movePool old new S).byDenom = S.byDenom := by
  unfold movePool; split
  · rfl
  · split
    · rfl
    · split <;> rfl
theorem moveRewards_byDenom (old new : Addr) (S : State) : (moveRewards old new S).byDenom = S.byDenom := by
  unfold moveRewards; split
  · rfl
  · split <;> rfl
theorem moveCoins_byDenom (old new : Addr) (S : State) : (moveCoins old new S).byDenom = S.byDenom := by unfold moveCoins; split <;> rfl
theorem moveClaim_byDenom (k : Kind) (old new : Addr) (S : State) : (moveClaim k old new S).byDenom = S.byDenom := rfl

theorem secretMoves2_byDenom (old new : Addr) (S : State) : (secretMoves2 old new S).byDenom = S.byDenom := by
  unfold secretMoves2
  rw [moveClaim_byDenom, moveClaim_byDenom, moveClaim_byDenom, moveClaim_byDenom, moveClaim_byDenom, moveClaim_byDenom, moveVal_byDenom,
    moveClaim_byDenom, movePool_byDenom, moveRewards_byDenom]
  rfl

theorem rotateBySecret_byDenom {S S' : State} {m : SecretMsg} (h : rotateBySecret S m = .ok S') : S'.byDenom = S.byDenom := by
  obtain ⟨S1, ch, R, c, _, hs, _, _, _, _, _, _, _, rfl⟩ := rotateBySecret_ok h
  rw [secretMoves2_byDenom]
  show (moveCoins m.addr m.recovery (withRotation S1 m.addr m.recovery)).byDenom = _
  rw [moveCoins_byDenom]
  show S1.byDenom = _
  exact (send_frame hs).byDenom

theorem rotateBySecret_supply {S S' : State} {m : SecretMsg} (h : rotateBySecret S m = .ok S') : S'.supply = S.supply := by
  obtain ⟨S1, hs, hf⟩ := rotateBySecret_frame h
  rw [hf.supply]; show S1.supply = _; exact (send_frame hs).supply

theorem holderMoves1_byDenom (old new : Addr) (tok : Token) (S : State) :
    (holderMoves1 old new tok S).byDenom = (moveToken old new tok S).byDenom := by
  unfold holderMoves1
  rw [moveClaim_byDenom, moveVal_byDenom, movePool_byDenom, moveRewards_byDenom]
  rfl

theorem rotateByHolder_byDenom {S S' : State} {m : HolderMsg} (h : rotateByHolder S m = .ok S') :
    ∃ tok, S.token m.addr = some tok ∧ S'.byDenom = fun d => if d = tok.denom then some m.recovery else S.byDenom d := by
  obtain ⟨tok, R, c, ht, _, _, _, _, rfl⟩ := rotateByHolder_ok h
  refine ⟨tok, ht, ?_⟩
  show (holderMoves1 m.addr m.recovery tok (withRotation S m.addr m.recovery)).byDenom = _
  rw [holderMoves1_byDenom]
  funext d
  simp only [moveToken, withRotation]
  by_cases hd : d = tok.denom <;> simp [hd]

theorem issue_effect {S S' : State} {a : Addr} (h : issue S a = .ok S') :
    S.token a = none ∧
    S'.supply = (fun d' => if d' = rrDenom S a then S.supply (rrDenom S a) + issueAmount else S.supply d') ∧
    S'.token = (fun a' => if a' = a then some ⟨rrDenom S a, issueAmount, S.bond⟩ else S.token a') ∧
    S'.byDenom = (fun d' => if d' = rrDenom S a then some a else S.byDenom d') := by
  obtain ⟨S1, S3, hnone, hs1, _, hs3, rfl⟩ := issue_ok h
  have f1 := send_frame hs1
  have f3 := send_frame hs3
  refine ⟨hnone, ?_, ?_, ?_⟩
  · show S3.supply = _
    rw [f3.supply]
    show (fun d' => if d' = rrDenom S a then S1.supply (rrDenom S a) + issueAmount else S1.supply d') = _
    rw [f1.supply]
  · show (fun a' => if a' = a then _ else S3.token a') = _
    rw [f3.token]; show (fun a' => if a' = a then _ else S1.token a') = _; rw [f1.token]
  · show (fun d' => if d' = rrDenom S a then some a else S3.byDenom d') = _
    rw [f3.byDenom]; show (fun d' => if d' = rrDenom S a then some a else S1.byDenom d') = _; rw [f1.byDenom]

theorem payRedeem_frame {S S1 : State} {a : Addr} {r : Int} (h : payRedeem S a r = .ok S1) :
    S1.supply = S.supply ∧ S1.token = S.token ∧ S1.byDenom = S.byDenom := by
  rcases payRedeem_ok h with ⟨_, rfl⟩ | ⟨_, hs⟩
  · exact ⟨rfl, rfl, rfl⟩
  · have f := send_frame hs
    exact ⟨f.supply, f.token, f.byDenom⟩

theorem burn_effect {S S' : State} {a : Addr} {d : Denom} {amt : Int} (h : burn S a d amt = .ok S') :
    ∃ owner tok, S.byDenom d = some owner ∧ S.token owner = some tok ∧ tok.rrSupply ≠ 0 ∧
      S'.supply = (fun d' => if d' = d then S.supply d - amt else S.supply d') ∧
      ((tok.rrSupply - amt = 0 ∧ S'.token = (fun a' => if a' = owner then none else S.token a') ∧
          S'.byDenom = (fun d' => if d' = tok.denom then none else S.byDenom d')) ∨
       (tok.rrSupply - amt ≠ 0 ∧
          S'.token = (fun a' => if a' = owner then some ⟨tok.denom, tok.rrSupply - amt, tok.underlying - redeemOf tok amt⟩ else S.token a') ∧
          S'.byDenom = (fun d' => if d' = tok.denom then some owner else S.byDenom d'))) := by
  obtain ⟨owner, tok, S1, S2, S3, hby, ht, hz, hp, hs2, hb3, _, rfl⟩ := burn_ok h
  obtain ⟨p1, p2, p3⟩ := payRedeem_frame hp
  have f2 := send_frame hs2
  obtain ⟨_, _, e3⟩ := burnCoins_ok hb3
  have hsup : S3.supply = (fun d' => if d' = d then S.supply d - amt else S.supply d') := by
    rw [e3]
    show (fun d' => if d' = d then S2.supply d - amt else S2.supply d') = _
    rw [f2.supply, p1]
  have htok : S3.token = S.token := by rw [e3]; show S2.token = _; rw [f2.token, p2]
  have hbd : S3.byDenom = S.byDenom := by rw [e3]; show S2.byDenom = _; rw [f2.byDenom, p3]
  refine ⟨owner, tok, hby, ht, hz, ?_, ?_⟩
  · unfold burnRecord; split <;> exact hsup
  · unfold burnRecord
    by_cases hzero : tok.rrSupply - amt = 0
    · left
      rw [if_pos hzero]
      refine ⟨hzero, ?_, ?_⟩
      · show (fun a' => if a' = owner then none else S3.token a') = _; rw [htok]
      · show (fun d' => if d' = tok.denom then none else S3.byDenom d') = _; rw [hbd]
    · right
      rw [if_neg hzero]
      refine ⟨hzero, ?_, ?_⟩
      · show (fun a' => if a' = owner then _ else S3.token a') = _; rw [htok]
      · show (fun d' => if d' = tok.denom then some owner else S3.byDenom d') = _; rw [hbd]

theorem allocate_effect {S S' : State} {v : Addr} {amt : Int} (h : allocate S v amt = .ok S') :
    S'.supply = S.supply ∧
    ((S.token v = none ∧ S'.token = S.token ∧ S'.byDenom = S.byDenom) ∨
     (∃ tok u, S.token v = some tok ∧ S'.token = (fun a => if a = v then some ⟨tok.denom, tok.rrSupply, u⟩ else S.token a) ∧
        S'.byDenom = (fun d => if d = tok.denom then some v else S.byDenom d))) := by
  rcases allocate_ok h with ⟨hn, hs⟩ | ⟨tok, S1, ht, hs, hi⟩
  · have f := send_frame hs
    exact ⟨f.supply, Or.inl ⟨hn, f.token, f.byDenom⟩⟩
  · have f := send_frame hs
    obtain ⟨_, rfl⟩ := increaseUnderlying_ok hi
    refine ⟨f.supply, Or.inr ⟨tok, tok.underlying + (amt - sumAlloc (unregisterLow S1 tok.denom) tok.denom amt
      ((unregisterLow S1 tok.denom).supply tok.denom) (holdersOf (unregisterLow S1 tok.denom) tok.denom)), ht, ?_, ?_⟩⟩
    · show (fun a => if a = v then _ else S1.token a) = _; rw [f.token]
    · show (fun d => if d = tok.denom then some v else S1.byDenom d) = _; rw [f.byDenom]

theorem regLoop_fields (S : State) (h : Addr) (l : List Addr) :
    (regLoop S h l).supply = S.supply ∧ (regLoop S h l).token = S.token ∧ (regLoop S h l).byDenom = S.byDenom := by
  obtain ⟨hs, e⟩ := regLoop_frame S h l
  rw [e]; exact ⟨rfl, rfl, rfl⟩

/-! ## the invariant -/

structure TokInv (S : State) : Prop where
  /-- every record: bank supply of its denomination = recorded supply ≠ 0, and the index points back -/
  byAddr : ∀ a t, S.token a = some t → S.supply t.denom = t.rrSupply ∧ S.byDenom t.denom = some a ∧ t.rrSupply ≠ 0
  /-- every index entry points to a record of that denomination -/
  byDen : ∀ d a, S.byDenom d = some a → ∃ t, S.token a = some t ∧ t.denom = d

/-- the two message shapes under which the bookkeeping is known to break (recorded findings):
an issue whose denomination is already in circulation, a holder rotation onto an address that issued tokens itself -/
def GoodOp (S : State) : Op → Prop
  | .issue a => S.supply (rrDenom S a) = 0
  | .rotateHolder m => S.token m.recovery = none ∨ m.recovery = m.addr
  | _ => True

theorem tokInv_of_same {S S' : State} (hi : TokInv S) (h1 : S'.supply = S.supply) (h2 : S'.token = S.token) (h3 : S'.byDenom = S.byDenom) :
    TokInv S' :=
  ⟨fun a t ht => by rw [h1, h3]; rw [h2] at ht; exact hi.byAddr a t ht,
   fun d a hd => by rw [h3] at hd; rw [h2]; exact hi.byDen d a hd⟩

theorem tokInv_step {S : State} (op : Op) (hi : TokInv S) (hg : GoodOp S op) : TokInv (step S op) := by
  unfold step
  cases hap : apply S op with
  | error e => exact hi
  | ok S' =>
    simp only
    cases op with
    | register b c p =>
      obtain ⟨_, _, rfl⟩ := registerSecret_ok hap
      exact tokInv_of_same hi rfl rfl rfl
    | rotateSecret m =>
      exact tokInv_of_same hi (rotateBySecret_supply hap) (rotateBySecret_token hap) (rotateBySecret_byDenom hap)
    | rotateHolder m =>
      obtain ⟨tok, ht, htok⟩ := rotateByHolder_token hap
      obtain ⟨tok', ht', hbd⟩ := rotateByHolder_byDenom hap
      have : tok' = tok := by rw [ht] at ht'; cases ht'; rfl
      subst this
      have hsup : S'.supply = S.supply := (Sekai.Recovery.rotateByHolder_frame hap).supply
      obtain ⟨r1, r2, r3⟩ := hi.byAddr m.addr tok' ht
      constructor
      · intro a t hta
        rw [htok] at hta
        simp only at hta
        rw [hsup, hbd]
        by_cases h1 : a = m.recovery
        · rw [if_pos h1] at hta; cases hta
          subst h1
          exact ⟨r1, by simp, r3⟩
        · rw [if_neg h1] at hta
          by_cases h2 : a = m.addr
          · rw [if_pos h2] at hta; cases hta
          · rw [if_neg h2] at hta
            obtain ⟨q1, q2, q3⟩ := hi.byAddr a t hta
            have hne : t.denom ≠ tok'.denom := by
              intro e; rw [e, r2] at q2; cases q2; exact h2 rfl
            exact ⟨q1, by simp [hne, q2], q3⟩
      · intro d a hd
        rw [hbd] at hd
        simp only at hd
        rw [htok]
        by_cases h1 : d = tok'.denom
        · rw [if_pos h1] at hd; cases hd
          exact ⟨tok', by simp, h1.symm⟩
        · rw [if_neg h1] at hd
          obtain ⟨t, q1, q2⟩ := hi.byDen d a hd
          have ha2 : a ≠ m.addr := by
            intro e; rw [e, ht] at q1; cases q1; exact h1 q2.symm
          have ha1 : a ≠ m.recovery := by
            intro e
            rcases hg with hnone | hsame
            · rw [e, hnone] at q1; cases q1
            · exact ha2 (e.trans hsame)
          exact ⟨t, by simp [ha1, ha2, q1], q2⟩
    | issue b =>
      obtain ⟨hnone, hsup, htok, hbd⟩ := issue_effect hap
      have hg' : S.supply (rrDenom S b) = 0 := hg
      constructor
      · intro a t hta
        rw [htok] at hta
        simp only at hta
        rw [hsup, hbd]
        by_cases h1 : a = b
        · rw [if_pos h1] at hta; cases hta
          subst h1
          refine ⟨by simp [hg'], by simp, ?_⟩
          show issueAmount ≠ 0
          decide
        · rw [if_neg h1] at hta
          obtain ⟨q1, q2, q3⟩ := hi.byAddr a t hta
          have hne : t.denom ≠ rrDenom S b := by
            intro e; rw [e, hg'] at q1; exact q3 q1.symm
          exact ⟨by simp [hne, q1], by simp [hne, q2], q3⟩
      · intro d a hd
        rw [hbd] at hd
        simp only at hd
        rw [htok]
        by_cases h1 : d = rrDenom S b
        · rw [if_pos h1] at hd; cases hd
          exact ⟨⟨rrDenom S b, issueAmount, S.bond⟩, by simp, h1.symm⟩
        · rw [if_neg h1] at hd
          obtain ⟨t, q1, q2⟩ := hi.byDen d a hd
          have : a ≠ b := by intro e; rw [e, hnone] at q1; cases q1
          exact ⟨t, by simp [this, q1], q2⟩
    | burn b d amt =>
      obtain ⟨owner, tok, hby, ht, hz, hsup, hcase⟩ := burn_effect hap
      obtain ⟨t0, q1, q2⟩ := hi.byDen d owner hby
      have : t0 = tok := by rw [ht] at q1; cases q1; rfl
      subst this
      obtain ⟨r1, r2, r3⟩ := hi.byAddr owner t0 ht
      have others : ∀ a t, a ≠ owner → S.token a = some t → t.denom ≠ d := by
        intro a t hne hta e
        obtain ⟨_, x2, _⟩ := hi.byAddr a t hta
        rw [e, hby] at x2; cases x2; exact hne rfl
      rcases hcase with ⟨hzero, htok, hbd⟩ | ⟨hnz, htok, hbd⟩
      · constructor
        · intro a t hta
          rw [htok] at hta
          simp only at hta
          by_cases h1 : a = owner
          · rw [if_pos h1] at hta; cases hta
          · rw [if_neg h1] at hta
            obtain ⟨x1, x2, x3⟩ := hi.byAddr a t hta
            have hne := others a t h1 hta
            rw [hsup, hbd]
            exact ⟨by simp [hne, x1], by simp [q2 ▸ hne, x2], x3⟩
        · intro d' a hd
          rw [hbd] at hd
          simp only at hd
          rw [htok]
          by_cases h1 : d' = t0.denom
          · rw [if_pos h1] at hd; cases hd
          · rw [if_neg h1] at hd
            obtain ⟨t, x1, x2⟩ := hi.byDen d' a hd
            have : a ≠ owner := by intro e; rw [e, ht] at x1; cases x1; exact h1 x2.symm
            exact ⟨t, by simp [this, x1], x2⟩
      · constructor
        · intro a t hta
          rw [htok] at hta
          simp only at hta
          rw [hsup, hbd]
          by_cases h1 : a = owner
          · rw [if_pos h1] at hta; cases hta
            subst h1
            refine ⟨?_, by simp, hnz⟩
            show (if t0.denom = d then S.supply d - amt else S.supply t0.denom) = t0.rrSupply - amt
            rw [if_pos q2, ← q2, r1]
          · rw [if_neg h1] at hta
            obtain ⟨x1, x2, x3⟩ := hi.byAddr a t hta
            have hne := others a t h1 hta
            exact ⟨by simp [hne, x1], by simp [q2 ▸ hne, x2], x3⟩
        · intro d' a hd
          rw [hbd] at hd
          simp only at hd
          rw [htok]
          by_cases h1 : d' = t0.denom
          · rw [if_pos h1] at hd; cases hd
            exact ⟨⟨t0.denom, t0.rrSupply - amt, t0.underlying - redeemOf t0 amt⟩, by simp, h1.symm⟩
          · rw [if_neg h1] at hd
            obtain ⟨t, x1, x2⟩ := hi.byDen d' a hd
            have : a ≠ owner := by intro e; rw [e, ht] at x1; cases x1; exact h1 x2.symm
            exact ⟨t, by simp [this, x1], x2⟩
    | claim b =>
      obtain ⟨S1, hs, rfl⟩ := claim_ok hap
      have f := send_frame hs
      exact tokInv_of_same hi f.supply f.token f.byDenom
    | regHolder b =>
      have e : S' = regLoop S b S.order := by
        simp only [apply, registerHolder] at hap; cases hap; rfl
      obtain ⟨k1, k2, k3⟩ := regLoop_fields S b S.order
      rw [e]
      exact tokInv_of_same hi k1 k2 k3
    | allocate v amt =>
      obtain ⟨hsup, hcase⟩ := allocate_effect hap
      rcases hcase with ⟨_, htok, hbd⟩ | ⟨tok, u, ht, htok, hbd⟩
      · exact tokInv_of_same hi hsup htok hbd
      · obtain ⟨r1, r2, r3⟩ := hi.byAddr v tok ht
        have hbd' : S'.byDenom = S.byDenom := by
          rw [hbd]; funext d
          by_cases hd : d = tok.denom
          · simp [hd, r2]
          · simp [hd]
        constructor
        · intro a t hta
          rw [htok] at hta
          simp only at hta
          rw [hsup, hbd']
          by_cases h1 : a = v
          · rw [if_pos h1] at hta; cases hta
            subst h1
            exact ⟨r1, r2, r3⟩
          · rw [if_neg h1] at hta
            exact hi.byAddr a t hta
        · intro d a hd
          rw [hbd'] at hd
          obtain ⟨t, x1, x2⟩ := hi.byDen d a hd
          rw [htok]
          by_cases h1 : a = v
          · subst h1
            rw [ht] at x1; cases x1
            exact ⟨⟨tok.denom, tok.rrSupply, u⟩, by simp, x2⟩
          · exact ⟨t, by simp [h1, x1], x2⟩
    | xfer b c d amt =>
      have f := send_frame hap
      exact tokInv_of_same hi f.supply f.token f.byDenom

/-- an operation list all of whose operations are `GoodOp` in the state they meet -/
def GoodRun : State → List Op → Prop
  | _, [] => True
  | S, op :: rest => GoodOp S op ∧ GoodRun (step S op) rest

theorem tokInv_run (ops : List Op) {S : State} (hi : TokInv S) (hg : GoodRun S ops) : TokInv (run S ops) := by
  induction ops generalizing S with
  | nil => exact hi
  | cons op rest ih =>
    simp only [run, List.foldl_cons]
    exact ih (tokInv_step op hi hg.1) hg.2

/-! ## only issue and burn change the supply of a denomination -/

theorem supply_step (S : State) (op : Op) (d : Denom) (h : (step S op).supply d ≠ S.supply d) :
    (∃ a, op = .issue a ∧ d = rrDenom S a) ∨ (∃ a n, op = .burn a d n) := by
  unfold step at h
  cases hap : apply S op with
  | error e => rw [hap] at h; exact absurd rfl h
  | ok S' =>
    rw [hap] at h
    simp only at h
    cases op with
    | register b c p =>
      obtain ⟨_, _, rfl⟩ := registerSecret_ok hap
      exact absurd rfl h
    | rotateSecret m => rw [rotateBySecret_supply hap] at h; exact absurd rfl h
    | rotateHolder m => rw [(Sekai.Recovery.rotateByHolder_frame hap).supply] at h; exact absurd rfl h
    | issue b =>
      obtain ⟨_, hsup, _, _⟩ := issue_effect hap
      left
      refine ⟨b, rfl, ?_⟩
      rw [hsup] at h
      simp only at h
      by_cases hd : d = rrDenom S b
      · exact hd
      · rw [if_neg hd] at h; exact absurd rfl h
    | burn b d' n =>
      obtain ⟨_, _, _, _, _, hsup, _⟩ := burn_effect hap
      right
      rw [hsup] at h
      simp only at h
      by_cases hd : d = d'
      · subst hd; exact ⟨b, n, rfl⟩
      · rw [if_neg hd] at h; exact absurd rfl h
    | claim b =>
      obtain ⟨S1, hs, rfl⟩ := claim_ok hap
      have : S1.supply d ≠ S.supply d := h
      rw [(send_frame hs).supply] at this; exact absurd rfl this
    | regHolder b =>
      have e : S' = regLoop S b S.order := by
        simp only [apply, registerHolder] at hap; cases hap; rfl
      rw [e, (regLoop_fields S b S.order).1] at h; exact absurd rfl h
    | allocate v n => rw [(allocate_effect hap).1] at h; exact absurd rfl h
    | xfer b c d' n => rw [(send_frame hap).supply] at h; exact absurd rfl h

end Sekai.Recovery
