import Sekai.Model.Custody
/-! Helper lemmas for C17 (custody): association lists, bank primitives, frames of the decorator. Core Lean only. -/
namespace Sekai.Custody

section alist
variable {κ : Type} {β : Type} [DecidableEq κ]

theorem aget_aset (l : List (κ × β)) (k k' : κ) (v : β) :
    aget (aset l k v) k' = if k = k' then some v else aget l k' := by
  induction l with
  | nil => simp [aset, aget]
  | cons x t ih =>
    obtain ⟨a, b⟩ := x
    by_cases h : a = k
    · subst h
      simp only [aset, ↓reduceIte, aget]
      by_cases h2 : a = k' <;> simp [h2]
    · simp only [aset, h, ↓reduceIte, aget, ih]
      by_cases h2 : a = k'
      · subst h2
        have : ¬ k = a := fun e => h e.symm
        simp [this]
      · simp [h2]

theorem aget_adel (l : List (κ × β)) (k k' : κ) :
    aget (adel l k) k' = if k = k' then none else aget l k' := by
  induction l with
  | nil => simp [adel, aget]
  | cons x t ih =>
    obtain ⟨a, b⟩ := x
    by_cases h : a = k
    · subst h
      simp only [adel, ↓reduceIte, ih, aget]
      by_cases h2 : a = k' <;> simp [h2]
    · simp only [adel, h, ↓reduceIte, aget, ih]
      by_cases h2 : a = k'
      · subst h2
        have : ¬ k = a := fun e => h e.symm
        simp [this]
      · simp [h2]

theorem aget_adel_self (l : List (κ × β)) (k : κ) : aget (adel l k) k = none := by
  simp [aget_adel]

theorem aget_none_of_not_mem (l : List (κ × β)) (k : κ) (h : k ∉ l.map (·.1)) : aget l k = none := by
  induction l with
  | nil => rfl
  | cons x t ih =>
    obtain ⟨a, b⟩ := x
    simp only [List.map_cons, List.mem_cons, not_or] at h
    have : ¬ a = k := fun e => h.1 e.symm
    simp [aget, this, ih h.2]

theorem mem_keys_of_aget (l : List (κ × β)) (k : κ) (v : β) (h : aget l k = some v) : k ∈ l.map (·.1) := by
  induction l with
  | nil => simp [aget] at h
  | cons x t ih =>
    obtain ⟨a, b⟩ := x
    by_cases e : a = k
    · simp [e]
    · simp only [aget, e, ↓reduceIte] at h
      simp [ih h]
end alist

theorem upd_same {β : Type} (f : Addr → β) (a : Addr) (v : β) : upd f a v a = v := by simp [upd]
theorem upd_other {β : Type} (f : Addr → β) (a b : Addr) (v : β) (h : b ≠ a) : upd f a v b = f b := by simp [upd, h]

end Sekai.Custody

namespace Sekai.Custody

/-! ## the decorator only ever writes the limit-status records -/

/-- `s1` differs from `s` at most in the limit-status records -/
def StatusOnly (s s1 : State) : Prop := ∃ f, s1 = { s with status := f }

theorem StatusOnly.refl (s : State) : StatusOnly s s := ⟨s.status, rfl⟩

theorem StatusOnly.trans {a b c : State} (h1 : StatusOnly a b) (h2 : StatusOnly b c) : StatusOnly a c := by
  obtain ⟨f, rfl⟩ := h1
  obtain ⟨g, rfl⟩ := h2
  exact ⟨g, rfl⟩

theorem anteBank_statusOnly {now : Int} {s s1 : State} {a to : Addr} {amt : Coins}
    (h : anteBank now s a to amt = .ok s1) : StatusOnly s s1 := by
  unfold anteBank at h
  split at h
  · cases h
  · cases h; exact StatusOnly.refl _
  · cases h; exact ⟨_, rfl⟩

theorem anteMsg_statusOnly {now : Int} {s s1 : State} {m : Msg} (h : anteMsg now s m = .ok s1) : StatusOnly s s1 := by
  unfold anteMsg at h
  split at h
  · cases h
  · split at h
    · exact anteBank_statusOnly h
    · cases h; exact StatusOnly.refl _

theorem anteAll_statusOnly {now : Int} {msgs : List Msg} {s s1 : State} (h : anteAll now s msgs = .ok s1) :
    StatusOnly s s1 := by
  induction msgs generalizing s with
  | nil => simp [anteAll] at h; cases h; exact StatusOnly.refl _
  | cons m t ih =>
    simp only [anteAll] at h
    split at h
    · cases h
    · rename_i s2 h2
      exact (anteMsg_statusOnly h2).trans (ih h)

/-- the `switch` of the decorator does not read the limit-status records -/
theorem anteSwitch_statusOnly {s s1 : State} (h : StatusOnly s s1) (m : Msg) : anteSwitch s1 m = anteSwitch s m := by
  obtain ⟨f, rfl⟩ := h
  rfl

/-- if the whole decorator passes, the `switch` passed for every message (evaluated on the state before the tx) -/
theorem anteAll_ok_switch {now : Int} {msgs : List Msg} {s s1 : State} (h : anteAll now s msgs = .ok s1) :
    ∀ m ∈ msgs, anteSwitch s m = .ok () := by
  induction msgs generalizing s with
  | nil => intro m hm; cases hm
  | cons x t ih =>
    intro m hm
    simp only [anteAll] at h
    split at h
    · cases h
    · rename_i s2 h2
      cases hm with
      | head =>
        unfold anteMsg at h2
        split at h2
        · cases h2
        · rename_i hsw; exact hsw
      | tail _ hm' =>
        have := ih h m hm'
        rwa [anteSwitch_statusOnly (anteMsg_statusOnly h2)] at this

end Sekai.Custody

namespace Sekai.Custody

/-! ## frames of the message server -/

/-- the key arguments of every settings message (all twelve kinds) -/
def Msg.keyArgs : Msg → Option KeyArgs
  | .create _ _ k | .disable _ k | .drop _ k | .addCust _ _ k | .rmCust _ _ k | .dropCust _ k
  | .addWl _ _ k | .rmWl _ _ k | .dropWl _ k | .addLim _ _ _ _ k | .rmLim _ _ k | .dropLim _ k => some k
  | _ => none

/-- everything the property calls "custody settings, custodians, whitelist and limits" of one account -/
structure Policy where
  settings : Option Settings
  custodians : Option (List (Addr × Bool))
  whitelist : Option (List (Addr × Bool))
  limits : Option (List (Denom × Limit))
deriving DecidableEq, Repr

def policy (s : State) (a : Addr) : Policy := ⟨s.settings a, s.custodians a, s.whitelist a, s.limits a⟩

/-- same policy maps, same status -/
def SamePolicy (s s1 : State) : Prop :=
  s1.settings = s.settings ∧ s1.custodians = s.custodians ∧ s1.whitelist = s.whitelist ∧ s1.limits = s.limits ∧
  s1.status = s.status ∧ s1.minReward = s.minReward

/-- same pool and vote store -/
def SamePool (s s1 : State) : Prop := s1.pool = s.pool ∧ s1.votes = s.votes

theorem exec_nonSettings_samePolicy {s s1 : State} {m : Msg} (hm : m.keyArgs = none) (h : execMsg s m = .ok s1) :
    SamePolicy s s1 := by
  cases m <;> simp only [Msg.keyArgs] at hm <;> try cases hm
  all_goals
    simp only [execMsg] at h
    repeat' split at h
    all_goals first
      | (cases h; exact ⟨rfl, rfl, rfl, rfl, rfl, rfl⟩)
      | cases h

theorem setKey_samePool {s s1 : State} {a : Addr} {k : KeyArgs} (h : setKey s a k = .ok s1) :
    SamePool s s1 ∧ s1.bal = s.bal ∧ s1.status = s.status := by
  unfold setKey at h
  split at h
  · cases h
  · cases h; exact ⟨⟨rfl, rfl⟩, rfl, rfl⟩

theorem exec_settings_samePool {s s1 : State} {m : Msg} {k : KeyArgs} (hm : m.keyArgs = some k)
    (h : execMsg s m = .ok s1) : SamePool s s1 ∧ s1.bal = s.bal ∧ s1.status = s.status := by
  cases m <;> simp only [Msg.keyArgs] at hm <;> try cases hm
  all_goals
    simp only [execMsg] at h
    repeat' split at h
    all_goals first
      | (cases h; exact ⟨⟨rfl, rfl⟩, rfl, rfl⟩)
      | (cases h
         rename_i hk
         obtain ⟨⟨hp, hv⟩, hb, hst⟩ := setKey_samePool hk
         exact ⟨⟨hp, hv⟩, hb, hst⟩)
      | cases h

end Sekai.Custody

namespace Sekai.Custody

/-- the three ways a transaction ends: rejected before/in the ante chain (nothing changes), rejected in a message
(ante effects stay), accepted -/
theorem runTx_cases (s : State) (tx : Tx) :
    (∃ e, runTx s tx = (s, .err e)) ∨
    (∃ s1 s2 e, anteAll tx.now s tx.msgs = .ok s1 ∧ deductFee s1 tx.payer tx.fee = .ok s2 ∧
        execAll s2 tx.msgs = .error e ∧ runTx s tx = (s2, .err e)) ∨
    (∃ s1 s2 s3, anteAll tx.now s tx.msgs = .ok s1 ∧ deductFee s1 tx.payer tx.fee = .ok s2 ∧
        execAll s2 tx.msgs = .ok s3 ∧ runTx s tx = (s3, .ok)) := by
  unfold runTx
  split
  · exact .inl ⟨_, rfl⟩
  · cases h1 : anteAll tx.now s tx.msgs with
    | error e => exact .inl ⟨e, rfl⟩
    | ok s1 =>
      cases h2 : deductFee s1 tx.payer tx.fee with
      | error e => exact .inl ⟨e, by simp only [h2]⟩
      | ok s2 =>
        cases h3 : execAll s2 tx.msgs with
        | error e => exact .inr (.inl ⟨s1, s2, e, rfl, h2, h3, by simp only [h2, h3]⟩)
        | ok s3 => exact .inr (.inr ⟨s1, s2, s3, rfl, h2, h3, by simp only [h2, h3]⟩)

theorem deductFee_frame {s s1 : State} {p : Addr} {fee : Nat} (h : deductFee s p fee = .ok s1) :
    ∃ b, s1 = { s with bal := b } := by
  unfold deductFee at h
  split at h
  · cases h
  · cases h; exact ⟨_, rfl⟩

end Sekai.Custody

namespace Sekai.Custody

/-! ## vote counting: an inductive invariant of the whole transaction loop -/

/-- vote-store entries that are approvals ("1") of transfer `hid` (lower-case hash) of account `t` -/
def isApproval (t : Addr) (hid : Nat) (e : VoteKey × Int) : Bool :=
  decide (e.1.target = t) && decide (e.1.hash.id = hid) && decide (e.2 = 1)

def approvalEntries (votes : List (VoteKey × Int)) (t : Addr) (hid : Nat) : List (VoteKey × Int) :=
  votes.filter (isApproval t hid)

/-- every pending transfer's vote count is bounded by the number of approval entries stored for it -/
def VotesBounded (pool : Addr → Option (List (Nat × TxRec))) (votes : List (VoteKey × Int)) : Prop :=
  ∀ t l hid r, pool t = some l → aget l hid = some r → r.votes ≤ (approvalEntries votes t hid).length

/-- the vote store holds at most one entry per (voter, target, raw hash) -/
def KeysFresh (votes : List (VoteKey × Int)) : Prop := (votes.map (·.1)).Nodup

def Inv (s : State) : Prop := VotesBounded s.pool s.votes ∧ KeysFresh s.votes

theorem approvalEntries_cons_le (votes : List (VoteKey × Int)) (e : VoteKey × Int) (t : Addr) (hid : Nat) :
    (approvalEntries votes t hid).length ≤ (approvalEntries (e :: votes) t hid).length := by
  unfold approvalEntries
  simp only [List.filter_cons]
  split <;> simp

theorem approvalEntries_cons_hit (votes : List (VoteKey × Int)) (v t : Addr) (h : HashStr) :
    (approvalEntries ((⟨v, t, h⟩, 1) :: votes) t h.id).length = (approvalEntries votes t h.id).length + 1 := by
  unfold approvalEntries
  simp [List.filter_cons, isApproval]

theorem keysFresh_cons (votes : List (VoteKey × Int)) (k : VoteKey) (x : Int)
    (hf : KeysFresh votes) (hn : aget votes k = none) : KeysFresh ((k, x) :: votes) := by
  unfold KeysFresh at *
  simp only [List.map_cons, List.nodup_cons]
  refine ⟨?_, hf⟩
  intro hmem
  -- a member key has a value
  have : ∀ (l : List (VoteKey × Int)), k ∈ l.map (·.1) → aget l k ≠ none := by
    intro l
    induction l with
    | nil => intro h; cases h
    | cons y t ih =>
      obtain ⟨a, b⟩ := y
      intro h
      by_cases e : a = k
      · simp [aget, e]
      · simp only [List.map_cons, List.mem_cons] at h
        rcases h with h | h
        · exact absurd h.symm e
        · simp only [aget, e, ↓reduceIte]; exact ih h
  exact this votes hmem hn

theorem inv_approve {s s' : State} {v t : Addr} {h : HashStr} (hi : Inv s)
    (hex : execMsg s (.approve v t h) = .ok s') : Inv s' := by
  cases hv : aget s.votes ⟨v, t, h⟩ with
  | some x =>
    have : execMsg s (.approve v t h) = .ok s := by simp [execMsg, hv]
    rw [this] at hex; cases hex; exact hi
  | none =>
    simp only [execMsg, hv] at hex
    cases hp : s.pool t with
    | none => simp [hp] at hex
    | some l =>
      simp only [hp] at hex
      cases hr : aget l h.id with
      | none => simp [hr] at hex
      | some r =>
        simp only [hr] at hex
        cases hc : s.custodians t with
        | none => simp [hc] at hex
        | some cs =>
          simp only [hc] at hex
          cases hrw : rewardShare r.reward cs.length with
          | none => simp [hrw] at hex
          | some rw =>
            simp only [hrw] at hex
            cases hb1 : sendCoins s.bal t v rw with
            | none => simp [hb1] at hex
            | some b1 =>
              simp only [hb1] at hex
              obtain ⟨hvb, hkf⟩ := hi
              have hkf' : KeysFresh ((⟨v, t, h⟩, (1 : Int)) :: s.votes) := keysFresh_cons _ _ _ hkf hv
              split at hex
              · -- released
                cases hb2 : sendCoins b1 r.frm r.to r.amount with
                | none => simp [hb2] at hex
                | some b2 =>
                  simp only [hb2] at hex
                  cases hex
                  refine ⟨?_, hkf'⟩
                  intro t' l' hid r' hp' hr'
                  by_cases ht : t' = t
                  · subst ht
                    simp only [upd, ↓reduceIte, Option.some.injEq] at hp'
                    subst hp'
                    rw [aget_adel] at hr'
                    split at hr'
                    · cases hr'
                    · exact Nat.le_trans (hvb t' l hid r' hp hr') (approvalEntries_cons_le _ _ _ _)
                  · simp only [upd, ht, ↓reduceIte] at hp'
                    exact Nat.le_trans (hvb t' l' hid r' hp' hr') (approvalEntries_cons_le _ _ _ _)
              · -- vote count stored
                cases hex
                refine ⟨?_, hkf'⟩
                intro t' l' hid r' hp' hr'
                by_cases ht : t' = t
                · subst ht
                  simp only [upd, ↓reduceIte, Option.some.injEq] at hp'
                  subst hp'
                  rw [aget_aset] at hr'
                  split at hr'
                  · rename_i hid_eq
                    cases hr'
                    subst hid_eq
                    rw [approvalEntries_cons_hit]
                    exact Nat.succ_le_succ (hvb t' l h.id r hp hr)
                  · exact Nat.le_trans (hvb t' l hid r' hp hr') (approvalEntries_cons_le _ _ _ _)
                · simp only [upd, ht, ↓reduceIte] at hp'
                  exact Nat.le_trans (hvb t' l' hid r' hp' hr') (approvalEntries_cons_le _ _ _ _)

end Sekai.Custody

namespace Sekai.Custody

theorem approvalEntries_cons_decline (votes : List (VoteKey × Int)) (k : VoteKey) (t : Addr) (hid : Nat) :
    approvalEntries ((k, (-1 : Int)) :: votes) t hid = approvalEntries votes t hid := by
  unfold approvalEntries
  simp [List.filter_cons, isApproval]

theorem inv_decline {s s' : State} {v t : Addr} {h : HashStr} (hi : Inv s)
    (hex : execMsg s (.decline v t h) = .ok s') : Inv s' := by
  cases hv : aget s.votes ⟨v, t, h⟩ with
  | some x =>
    have : execMsg s (.decline v t h) = .ok s := by simp [execMsg, hv]
    rw [this] at hex; cases hex; exact hi
  | none =>
    simp only [execMsg, hv] at hex
    obtain ⟨hvb, hkf⟩ := hi
    repeat' split at hex
    all_goals first
      | (cases hex; exact ⟨hvb, hkf⟩)
      | (cases hex
         refine ⟨?_, keysFresh_cons _ _ _ hkf hv⟩
         intro t' l' hid r' hp' hr'
         show r'.votes ≤ (approvalEntries ((_, (-1 : Int)) :: s.votes) t' hid).length
         rw [approvalEntries_cons_decline]
         exact hvb t' l' hid r' hp' hr')
      | cases hex

theorem inv_confirm {s s' : State} {w a : Addr} {h : HashStr} {pw : Nat} (hi : Inv s)
    (hex : execMsg s (.confirm w a h pw) = .ok s') : Inv s' := by
  simp only [execMsg] at hex
  obtain ⟨hvb, hkf⟩ := hi
  cases hp : s.pool a with
  | none => simp [hp] at hex
  | some l =>
    simp only [hp] at hex
    cases hr : aget l h.id with
    | none => simp [hr] at hex
    | some r =>
      simp only [hr] at hex
      split at hex
      · cases hex
      · split at hex
        · split at hex
          · cases hex
          · cases hex
            refine ⟨?_, hkf⟩
            intro t' l' hid r' hp' hr'
            by_cases ht : t' = a
            · subst ht
              simp only [upd, ↓reduceIte, Option.some.injEq] at hp'
              subst hp'
              rw [aget_adel] at hr'
              split at hr'
              · cases hr'
              · exact hvb t' l hid r' hp hr'
            · simp only [upd, ht, ↓reduceIte] at hp'
              exact hvb t' l' hid r' hp' hr'
        · cases hex
          refine ⟨?_, hkf⟩
          intro t' l' hid r' hp' hr'
          by_cases ht : t' = a
          · subst ht
            simp only [upd, ↓reduceIte, Option.some.injEq] at hp'
            subst hp'
            rw [aget_aset] at hr'
            split at hr'
            · rename_i hid_eq
              cases hr'
              subst hid_eq
              exact hvb t' l h.id r hp hr
            · exact hvb t' l hid r' hp hr'
          · simp only [upd, ht, ↓reduceIte] at hp'
            exact hvb t' l' hid r' hp' hr'

theorem inv_send {s s' : State} {a to : Addr} {amt rw : Coins} {pw hid : Nat} (hi : Inv s)
    (hex : execMsg s (.send a to amt pw rw hid) = .ok s') : Inv s' := by
  simp only [execMsg] at hex
  obtain ⟨hvb, hkf⟩ := hi
  split at hex
  · cases hex
  · cases hex
    refine ⟨?_, hkf⟩
    intro t' l' hid' r' hp' hr'
    by_cases ht : t' = a
    · subst ht
      simp only [upd, ↓reduceIte, Option.some.injEq] at hp'
      subst hp'
      simp only [aget] at hr'
      split at hr'
      · cases hr'; exact Nat.zero_le _
      · cases hr'
    · simp only [upd, ht, ↓reduceIte] at hp'
      exact hvb t' l' hid' r' hp' hr'
  · split at hex
    · cases hex
    · cases hex; exact ⟨hvb, hkf⟩

theorem inv_exec {s s' : State} {m : Msg} (hi : Inv s) (hex : execMsg s m = .ok s') : Inv s' := by
  cases hk : m.keyArgs with
  | some k =>
    obtain ⟨⟨hp, hv⟩, _, _⟩ := exec_settings_samePool hk hex
    unfold Inv; rw [hp, hv]; exact hi
  | none =>
    cases m <;> simp only [Msg.keyArgs] at hk <;> try cases hk
    · exact inv_send hi hex
    · exact inv_approve hi hex
    · exact inv_decline hi hex
    · exact inv_confirm hi hex
    · simp only [execMsg] at hex
      split at hex
      · cases hex
      · cases hex; exact hi
    · simp only [execMsg] at hex
      split at hex
      · cases hex
      · cases hex; exact hi

theorem inv_execAll {msgs : List Msg} {s s' : State} (hi : Inv s) (hex : execAll s msgs = .ok s') : Inv s' := by
  induction msgs generalizing s with
  | nil => simp [execAll] at hex; subst hex; exact hi
  | cons m t ih =>
    simp only [execAll] at hex
    split at hex
    · cases hex
    · rename_i s1 h1
      exact ih (inv_exec hi h1) hex

theorem inv_runTx {s : State} (tx : Tx) (hi : Inv s) : Inv (runTx s tx).1 := by
  rcases runTx_cases s tx with ⟨e, he⟩ | ⟨s1, s2, e, hante, hfee, _, he⟩ | ⟨s1, s2, s3, hante, hfee, hexec, he⟩
  · rw [he]; exact hi
  · rw [he]
    obtain ⟨f, rfl⟩ := anteAll_statusOnly hante
    obtain ⟨b, rfl⟩ := deductFee_frame hfee
    exact hi
  · rw [he]
    obtain ⟨f, rfl⟩ := anteAll_statusOnly hante
    obtain ⟨b, rfl⟩ := deductFee_frame hfee
    exact inv_execAll (s := { s with status := f, bal := b }) hi hexec

theorem inv_run {s : State} (txs : List Tx) (hi : Inv s) : Inv (run s txs) := by
  induction txs generalizing s with
  | nil => exact hi
  | cons t ts ih => exact ih (inv_runTx t hi)

end Sekai.Custody

namespace Sekai.Custody

theorem anteMsg_ok_cases {now : Int} {s s1 : State} {m : Msg} (h : anteMsg now s m = .ok s1) :
    s1 = s ∨ ∃ a to amt, m = .bankSend a to amt ∧ anteBank now s a to amt = .ok s1 := by
  unfold anteMsg at h
  split at h
  · cases h
  · split at h
    · exact .inr ⟨_, _, _, rfl, h⟩
    · cases h; exact .inl rfl

end Sekai.Custody

namespace Sekai.Custody

theorem anteMsg_bankSend {now : Int} {s s1 : State} {a to : Addr} {amt : Coins}
    (h : anteMsg now s (.bankSend a to amt) = .ok s1) : anteBank now s a to amt = .ok s1 := by
  unfold anteMsg at h
  split at h
  · cases h
  · exact h

end Sekai.Custody
